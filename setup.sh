#!/bin/sh
# Build the Lean libraries and the driver from files on disk (no network), warm the extension cache.
set -e
HERE="$(cd "$(dirname "$0")" && pwd)"
cd "$HERE/lean"
lake build driver Model Proofs Props
cd "$HERE"
/venv/bin/python harness/stage.py >/dev/null
echo setup-ok
