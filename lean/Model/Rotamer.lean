import Model.Basic
import Model.Generated.RotamerConsts
/-!
Model of `enspara/geometry/rotamer.py` (`get_gates`, `is_buffered_transition`, `_rotamers`) and of
`enspara/cards/disorder.py:transitions`, as the code is written.

* angles, boundaries and the buffer are `Rat` (every double is a dyadic rational; the correspondence
  only sends values that are exact in float);
* `hard_boundaries[state_num]` is Python list indexing (a negative index counts from the end, an
  index past the end is `IndexError`), so the model also follows the code for the `-1` state that
  the first-frame loop leaves when no boundary exceeds the angle;
* `np.digitize(x, bins)` for non-decreasing `bins` is the number of entries `≤ x`
  (`searchsorted(..., side='right')`); bins that are not monotone raise `ValueError`
  (decreasing bins cannot pass the `[0] == 0`, `[-1] == 360` validation);
* at an angle EXACTLY equal to a gate value the two branches of the exit test disagree: the wrap-around
  branch uses closed comparisons for "has left" (`upper ≤ a ≤ lower` → leaves), the other branch closed
  comparisons for "is still inside" (`lower ≤ a ≤ upper` → stays; e.g. with a zero buffer the angle 240 keeps
  state 1 of `[0,120,240,360]` although plain binning says 2).  The model follows the code there; the
  property excludes these finitely many values (`AvoidsGates`), and the correspondence checks them for
  model = code only;
* the ragged array built by `transitions` is a list of rows; the constructor's behaviour for empty
  data (`_data` never assigned) is mirrored as `attributeError` / `indexError`.
-/
namespace Ens.Rotamer

inductive Err | dataInvalid | indexError | zeroDivision | valueError | attributeError
  deriving Repr, DecidableEq

/-- Python `l[i]` for a list -/
def pyGet (l : List Rat) (i : Int) : Except Err Rat :=
  let j : Int := if i < 0 then i + l.length else i
  if j < 0 then .error .indexError else
  match l[j.toNat]? with
  | some v => .ok v
  | none => .error .indexError

/-- rotamer.py L205-213: the wrap-around replacement of the two boundaries and the buffer shift -/
def gatesOf (lo hi b : Rat) : Rat × Rat :=
  let lo' := if lo = 0 then 360 else lo
  let hi' := if hi = 360 then 0 else hi
  (lo' - b, hi' + b)

/-- `get_gates` (rotamer.py L163-219) -/
def getGates (s : Int) (hb : List Rat) (b : Rat) : Except Err (Rat × Rat) := do
  let lo ← pyGet hb s
  let hi ← pyGet hb (s + 1)
  pure (gatesOf lo hi b)

/-- the two comparison branches of `is_buffered_transition` (rotamer.py L151-158) -/
def exitTest (g : Rat × Rat) (a : Rat) : Bool :=
  let lower := g.1
  let upper := g.2
  (decide (upper < lower) && (decide (upper ≤ a) && decide (a ≤ lower))) ||
  (decide (upper > lower) && !(decide (lower ≤ a) && decide (a ≤ upper)))

/-- `is_buffered_transition` (rotamer.py L98-160) -/
def isBufferedTransition (s : Int) (a : Rat) (hb : List Rat) (b : Rat) : Except Err Bool := do
  let g ← getGates s hb b
  pure (exitTest g a)

/-- `np.digitize(x, bins)` (right=False) -/
def digitize (x : Rat) (bins : List Rat) : Except Err Nat :=
  if bins.Pairwise (· ≤ ·) then .ok (bins.countP (· ≤ x)) else .error .valueError

/-- rotamer.py L76-79: first `i` in `range(n_basins)` with `angles[0] < hard_boundaries[i+1]`;
`-1` (the initial fill) when there is none -/
def firstFrame (a : Rat) (hb : List Rat) : Int :=
  match hb.tail.findIdx? (fun u => a < u) with
  | some i => (i : Int)
  | none => -1

/-- one iteration of the loop rotamer.py L84-93 -/
def step (hb : List Rat) (b : Rat) (s : Int) (a : Rat) : Except Err Int := do
  if (← isBufferedTransition s a hb b) then
    let d ← digitize a hb
    pure ((d : Int) - 1)
  else pure s

def loop (hb : List Rat) (b : Rat) : Int → List Rat → Except Err (List Int)
  | _, [] => pure []
  | s, a :: as => do
    let s' ← step hb b s a
    let tl ← loop hb b s' as
    pure (s' :: tl)

/-- the argument validation of `_rotamers` (rotamer.py L61-68) -/
def validate (hb : List Rat) (b : Rat) : Except Err Unit := do
  let nB : Int := (hb.length : Int) - 1
  if nB = 0 then throw .zeroDivision          -- `360. / n_basins`
  if b < 0 ∨ b ≥ 360 / (nB : Rat) then throw .dataInvalid
  if hb.head? ≠ some 0 ∨ hb.getLast? ≠ some 360 then throw .dataInvalid
  pure ()

/-- `_rotamers(angles, hard_boundaries, buffer_width)` (rotamer.py L28-95) -/
def rotamers (angles : List Rat) (hb : List Rat) (b : Rat) : Except Err (List Int) := do
  validate hb b
  match angles with
  | [] => throw .indexError                   -- `angles[0]`
  | a0 :: rest =>
    let s0 := firstFrame a0 hb
    let tl ← loop hb b s0 rest
    pure (s0 :: tl)

/-- `dihedral_angles` after `rad2deg` (rotamer.py L16-17): negative angles get +360, anything above
359.5 is clamped to 359.5 -/
def normalizeAngle (a : Rat) : Rat :=
  let x := if a < 0 then a + 360 else a
  if x > 359.5 then 359.5 else x

/-- `psi_rotamers` shifts the angles before binning (rotamer.py L240-241) -/
def shiftAngle (shift a : Rat) : Rat :=
  let x := a - shift
  if x < 0 then x + 360 else x

/-! ### `disorder.transitions` -/

/-- integer dtype of the state array: values wrap modulo `2^bits` in the subtraction -/
structure DType where
  bits : Nat
  signed : Bool
  deriving Repr, DecidableEq

def DType.modulus (d : DType) : Int := 2 ^ d.bits

/-- two's-complement / modular wrap of an exact integer into the dtype -/
def DType.wrap (d : DType) (v : Int) : Int :=
  if d.signed then (v + d.modulus / 2) % d.modulus - d.modulus / 2 else v % d.modulus

def DType.InRange (d : DType) (v : Int) : Prop :=
  if d.signed then -(d.modulus / 2) ≤ v ∧ v < d.modulus / 2 else 0 ≤ v ∧ v < d.modulus

instance (d : DType) (v : Int) : Decidable (d.InRange v) := by
  unfold DType.InRange; split <;> exact inferInstance

/-- `a[1:] - a[:-1]` in the array's dtype -/
def diffs (d : DType) : List Int → List Int
  | x :: y :: t => d.wrap (y - x) :: diffs d (y :: t)
  | _ => []

/-- `np.where(v != 0)[0]`, positions counted from `k` -/
def nonzeroIdxFrom (k : Nat) : List Int → List Nat
  | [] => []
  | x :: t => if x ≠ 0 then k :: nonzeroIdxFrom (k + 1) t else nonzeroIdxFrom (k + 1) t

/-- `transitions` for a 1-D array (disorder.py L34-36) -/
def transitions1d (d : DType) (xs : List Int) : List Nat := nonzeroIdxFrom 0 (diffs d xs)

/-- `np.where(m != 0)` of a 2-D array in row-major order: (row, column) pairs, rows counted from `r` -/
def wherePairsFrom (r : Nat) : List (List Int) → List (Nat × Nat)
  | [] => []
  | row :: t => (nonzeroIdxFrom 0 row).map (fun c => (r, c)) ++ wherePairsFrom (r + 1) t

/-- `np.bincount(xs, minlength=m)` -/
def bincount (xs : List Nat) (m : Nat) : List Nat :=
  let n := match xs.max? with
    | none => m
    | some mx => max m (mx + 1)
  tabulate n (fun i => xs.count i)

/-- `partition_list` without the length check -/
def partition : List Nat → List Nat → List (List Nat)
  | _, [] => []
  | data, n :: ns => data.take n :: partition (data.drop n) ns

/-- `RaggedArray(array, lengths=lengths)` for flat `array` (ra.py L509-576), rows as lists.
With empty `array` the attribute `_data` is never assigned: `lengths[0]` raises `IndexError` for empty
`lengths`, otherwise the first use of `self._data` raises `AttributeError`. -/
def mkRA (data : List Nat) (lengths : List Nat) : Except Err (List (List Nat)) :=
  if data.isEmpty then
    (if lengths.isEmpty then .error .indexError else .error .attributeError)
  else if lengths.sum ≠ data.length then .error .dataInvalid
  else .ok (partition data lengths)

/-- `transitions` for a 2-D array / ragged array, one row per trajectory (disorder.py L38-41).
`guard` = the generated flag saying whether the source guards the construction for the case that
no trajectory has a transition (then every row of the result is empty). -/
def transitions2d (guard : Bool) (d : DType) (rows : List (List Int)) : Except Err (List (List Nat)) :=
  let dm := rows.map (diffs d)
  let pairs := wherePairsFrom 0 dm
  let rowIdx := pairs.map (·.1)
  let columns := pairs.map (·.2)
  let lengths := bincount rowIdx rows.length
  if guard && columns.isEmpty then .ok (lengths.map (fun _ => []))
  else mkRA columns lengths

/-! ### Specification vocabulary (used by `Props/C20.lean`; no code structure in here) -/

/-- basin `i` of the boundary list contains the angle: `hb[i] ≤ a < hb[i+1]` -/
def IsBasin (hb : List Rat) (i : Nat) (a : Rat) : Prop :=
  ∃ lo hi, hb[i]? = some lo ∧ hb[i + 1]? = some hi ∧ lo ≤ a ∧ a < hi

/-- the angle lies in basin `i` widened by `b` on both sides, on the circle:
some representative `a + 360·k` lies in `[lo − b, hi + b]` -/
def InWidened (hb : List Rat) (b : Rat) (i : Nat) (a : Rat) : Prop :=
  ∃ lo hi, hb[i]? = some lo ∧ hb[i + 1]? = some hi ∧
    ∃ k : Int, lo - b ≤ a + 360 * (k : Rat) ∧ a + 360 * (k : Rat) ≤ hi + b

/-- hysteresis automaton: keep the state while the angle is inside the widened current basin,
otherwise move to the basin containing the angle -/
def SpecStep (hb : List Rat) (b : Rat) (s : Nat) (a : Rat) (s' : Nat) : Prop :=
  (InWidened hb b s a → s' = s) ∧ (¬ InWidened hb b s a → IsBasin hb s' a)

def SpecFrom (hb : List Rat) (b : Rat) : Nat → List Rat → List Nat → Prop
  | _, [], [] => True
  | s, a :: as, s' :: ss => SpecStep hb b s a s' ∧ SpecFrom hb b s' as ss
  | _, _, _ => False

/-- a state sequence is a run of the hysteresis automaton on the angle sequence -/
def SpecRun (hb : List Rat) (b : Rat) : List Rat → List Nat → Prop
  | a0 :: as, s0 :: ss => IsBasin hb s0 a0 ∧ SpecFrom hb b s0 as ss
  | _, _ => False

/-- the exact gate values of all basins, on the circle: `v ± b (mod 360)` for a boundary `v` -/
def AvoidsGates (hb : List Rat) (b : Rat) (a : Rat) : Prop :=
  ∀ v ∈ hb, ∀ k : Int, a + 360 * (k : Rat) ≠ v - b ∧ a + 360 * (k : Rat) ≠ v + b

/-- no widened basin wraps onto itself: basin width plus both buffers is at most the full circle -/
def NoSelfWrap (hb : List Rat) (b : Rat) : Prop :=
  ∀ i lo hi, hb[i]? = some lo → hb[i + 1]? = some hi → hi - lo + 2 * b ≤ 360

/-- the code's accepted buffer range (rotamer.py L63) -/
def Accepted (hb : List Rat) (b : Rat) : Prop :=
  0 ≤ b ∧ b < 360 / (((hb.length : Int) - 1 : Int) : Rat)

/-- a boundary list the code's comparisons are adequate for: strictly increasing from 0 to 360,
at least two basins, and every basin that touches neither 0 nor 360 stays inside `[0, 360]`
when widened by any accepted buffer (`maxB` = 360 / number of basins). -/
def GoodSet (hb : List Rat) : Bool :=
  decide (hb.Pairwise (· < ·)) && decide (hb.head? = some 0) && decide (hb.getLast? = some 360) &&
  decide (3 ≤ hb.length) &&
  (let maxB : Rat := 360 / (((hb.length : Int) - 1 : Int) : Rat)
   (hb.zip hb.tail).all (fun p => p.1 = 0 || p.2 = 360 || (decide (maxB ≤ p.1) && decide (p.2 + maxB ≤ 360))))

end Ens.Rotamer
