import Model.Basic
/-!
Model of `enspara.msm.transition_matrices.trim_disconnected` and `TrimMapping`.

Mirrors the code as written (transition_matrices.py):

* L256-257  `thresholded_counts[counts < threshold] = 0`, then the dense matrix goes to
  scipy `connected_components(connection="strong", directed=True)`, which takes every
  *non-zero* entry as an edge.  Hence `edge i j ↔ thr ≤ C i j ∧ C i j ≠ 0` (for a
  threshold ≤ 0 nothing is zeroed and the edges are the non-zero counts).
* L259-261  scipy's component numbering is a *parameter* (`labels`, `nsub`): the model does not
  re-implement scipy's Tarjan/Pearce routine, it only requires (and the driver checks on every case,
  `validLabeling`) that `labels` is the partition into strongly connected components computed by the
  Warshall closure below.
* L263      `pops = counts.sum(axis=1)` over the ORIGINAL (un-thresholded) counts.
* L265-267  `subgraph_pops = [np.sum(pops[labels == i]) for i in range(n_subgraphs)]`,
  `np.argmax` (first maximum; raises ValueError on an empty list, i.e. for a 0×0 matrix).
* L269      `keep_states = np.where(labels == maxpop_subgraph)[0]` (ascending).
* L271-283  renumbering branch, L285-292 in-place branch.
* `TrimMapping.__init__/to_mapped/write/read` L41-94 (Python dicts as insertion ordered
  association lists with distinct keys).
-/
namespace Ens.Trim

/-! ### Boolean matrices as data (so that the closure is computed once per level) -/

abbrev BMat := List (List Bool)

/-- entry lookup; outside the table `false` (never used: all lookups are below the size) -/
def bget (m : BMat) (i j : Nat) : Bool :=
  match m[i]? with
  | some r => (match r[j]? with | some b => b | none => false)
  | none => false

def bmk (n : Nat) (f : Nat → Nat → Bool) : BMat := tabulate n fun i => tabulate n fun j => f i j

/-- edge of the thresholded graph as scipy sees it -/
def edge (C : Nat → Nat → Nat) (thr : Int) (i j : Nat) : Bool :=
  decide (thr ≤ (C i j : Int)) && (C i j != 0)

/-- one Warshall round: allow `k` as an intermediate vertex -/
def warshallStep (n k : Nat) (m : BMat) : BMat :=
  bmk n fun i j => bget m i j || (bget m i k && bget m k j)

/-- Warshall closure after admitting the intermediate vertices `0 … k-1` -/
def closureUpTo (n : Nat) (e : Nat → Nat → Bool) : Nat → BMat
  | 0 => bmk n fun i j => decide (i = j) || e i j
  | k+1 => warshallStep n k (closureUpTo n e k)

def closure (n : Nat) (e : Nat → Nat → Bool) : BMat := closureUpTo n e n

/-- `j` is reachable from `i` (reflexive–transitive), by the executable closure -/
def reachB (n : Nat) (e : Nat → Nat → Bool) (i j : Nat) : Bool := bget (closure n e) i j

/-- strongly connected component of `i` w.r.t. a closure table, ascending -/
def sccOfM (m : BMat) (n i : Nat) : List Nat :=
  (List.range n).filter fun j => bget m i j && bget m j i

def sccOf (C : Nat → Nat → Nat) (n : Nat) (thr : Int) (i : Nat) : List Nat :=
  sccOfM (closure n (edge C thr)) n i

/-! ### weights -/

/-- `pops[i] = counts.sum(axis=1)[i]` over the original matrix -/
def rowSum (C : Nat → Nat → Nat) (n i : Nat) : Nat := sumTo n fun j => C i j

/-- `np.sum(pops[S])` -/
def weight (C : Nat → Nat → Nat) (n : Nat) (S : List Nat) : Nat := (S.map (rowSum C n)).sum

/-- the SCCs (one entry per state, so with repetitions) of maximal weight -/
def heaviestM (C : Nat → Nat → Nat) (n : Nat) (m : BMat) : List (List Nat) :=
  let sccs := (List.range n).map (sccOfM m n)
  sccs.filter fun S => sccs.all fun T => decide (weight C n T ≤ weight C n S)

def heaviest (C : Nat → Nat → Nat) (n : Nat) (thr : Int) : List (List Nat) :=
  heaviestM C n (closure n (edge C thr))

/-! ### scipy's labelling as a checked parameter -/

/-- `labels`/`nsub` is the partition into SCCs of the closure table, numbered `0 … nsub-1`
    with every number used -/
def validLabeling (m : BMat) (n : Nat) (labels : Nat → Nat) (nsub : Nat) : Bool :=
  ((List.range n).all fun i => decide (labels i < nsub)) &&
  ((List.range nsub).all fun l => (List.range n).any fun i => labels i == l) &&
  ((List.range n).all fun i => (List.range n).all fun j =>
      (labels i == labels j) == (bget m i j && bget m j i))

/-! ### TrimMapping -/

/-- Python `d[k] = v` on an insertion ordered dict -/
def dictInsert (d : List (Nat × Nat)) (k v : Nat) : List (Nat × Nat) :=
  if d.any (fun p => p.1 == k) then d.map (fun p => if p.1 == k then (k, v) else p)
  else d ++ [(k, v)]

/-- `{k: v for k, v in kvs}` -/
def dictOf (kvs : List (Nat × Nat)) : List (Nat × Nat) :=
  kvs.foldl (fun d p => dictInsert d p.1 p.2) []

/-- `d.get(k)` -/
def dictGet (d : List (Nat × Nat)) (k : Nat) : Option Nat :=
  (d.find? fun p => p.1 == k).map (·.2)

def swap (p : Nat × Nat) : Nat × Nat := (p.2, p.1)

/-- only slot of the class: `to_original`, the dict `mapped ↦ original` -/
structure TrimMapping where
  toOriginal : List (Nat × Nat)
  deriving Repr, DecidableEq

/-- `TrimMapping(transformations)` for an iterator of `(original, mapped)` pairs
    (`{t: o for o, t in transformations}`; the `if transformations:` guard is always
    true for the `zip` objects every caller in the library passes). -/
def TrimMapping.ofTransformations (ts : List (Nat × Nat)) : TrimMapping :=
  ⟨dictOf (ts.map swap)⟩

/-- property `to_mapped`: `{v: k for k, v in self.to_original.items()}` -/
def TrimMapping.toMapped (m : TrimMapping) : List (Nat × Nat) := dictOf (m.toOriginal.map swap)

def TrimMapping.originalOf (m : TrimMapping) (t : Nat) : Option Nat := dictGet m.toOriginal t
def TrimMapping.mappedOf (m : TrimMapping) (o : Nat) : Option Nat := dictGet m.toMapped o

def csvHeader : List String := ["original", "mapped"]

/-- `write`: header row, then `sorted(self.to_mapped.items(), key=lambda x: x[0])`, cells by `str` -/
def TrimMapping.write (m : TrimMapping) : List (List String) :=
  csvHeader :: ((m.toMapped.mergeSort fun a b => decide (a.1 ≤ b.1)).map fun p => [toString p.1, toString p.2])

inductive Err
  | valueError      -- np.argmax of an empty sequence / int() of a non-number
  | assertion       -- csv header check
  | stopIteration   -- empty csv file
  deriving Repr, DecidableEq

/-- one data row of the csv reader: `for h, v in zip(headers, row): column[h].append(int(v))`
    restricted to well-formed rows of two cells holding naturals (anything else: ValueError,
    the ragged-row corner of `zip` is not modelled) -/
def parseRow (row : List String) : Except Err (Nat × Nat) :=
  match row with
  | [a, b] => match a.toNat?, b.toNat? with
    | some x, some y => .ok (x, y)
    | _, _ => .error .valueError
  | _ => .error .valueError

/-- `read` on the parsed csv rows -/
def TrimMapping.read (rows : List (List String)) : Except Err TrimMapping :=
  match rows with
  | [] => .error .stopIteration
  | h :: rest =>
    if h = csvHeader then do
      let ps ← rest.mapM parseRow
      pure (TrimMapping.ofTransformations ps)
    else .error .assertion

/-! ### trim_disconnected -/

structure Result where
  keep : List Nat              -- keep_states
  shape : Nat                  -- trimmed_counts is shape × shape
  entry : Nat → Nat → Nat      -- trimmed_counts[a, b]
  mapping : TrimMapping

/-- `np.where(labels == l)[0]` -/
def members (labels : Nat → Nat) (n l : Nat) : List Nat :=
  (List.range n).filter fun i => labels i == l

/-- `np.sum(pops[labels == l])` -/
def subgraphPop (C : Nat → Nat → Nat) (n : Nat) (labels : Nat → Nat) (l : Nat) : Nat :=
  weight C n (members labels n l)

/-- `keep_states` -/
def keepStates (C : Nat → Nat → Nat) (n : Nat) (labels : Nat → Nat) (nsub : Nat) : List Nat :=
  members labels n (argmaxTo nsub (subgraphPop C n labels))

def trimDisconnected (C : Nat → Nat → Nat) (n : Nat) (labels : Nat → Nat) (nsub : Nat)
    (renumber : Bool) : Except Err Result :=
  if nsub = 0 then .error .valueError else
  let maxpop := argmaxTo nsub (subgraphPop C n labels)
  let keep := members labels n maxpop
  if renumber then
    .ok { keep := keep
          shape := keep.length
          entry := fun a b => match keep[a]?, keep[b]? with
            | some i, some j => C i j
            | _, _ => 0          -- outside the shape; never read
          mapping := TrimMapping.ofTransformations (keep.zip (List.range keep.length)) }
  else
    .ok { keep := keep
          shape := n
          entry := fun i j => if labels i != maxpop || labels j != maxpop then 0 else C i j
          mapping := TrimMapping.ofTransformations (keep.zip keep) }

def Result.toLists (r : Result) : List (List Nat) :=
  tabulate r.shape fun a => tabulate r.shape fun b => r.entry a b

end Ens.Trim
