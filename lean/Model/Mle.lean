import Model.Basic
import Model.Generated.MleSite
/-!
Model of the reversible maximum-likelihood estimator (Prinz iteration):
`enspara.msm.builders._prinz_mle_py` (builders.py L215-318) and
`enspara.msm.libmsm._mle_prinz_dense` (libmsm.pyx L15-98).

The model is generic over the arithmetic: the driver instantiates it with `Float` (IEEE
double; `+ - * / sqrt` are correctly rounded as in numpy/C) and `Proofs/C12*.lean` with an
arbitrary linear ordered field that has a square root.  `sqrt` and `log` are parameters.
Every statement of the code is mirrored in order, including the running row sums, the
`assert c <= 0`, the `a == 0` guard, the pseudo log-likelihood that is used only for the
convergence test, the iteration cap with its (argument-swapped) `warnings.warn` call and the
final assertions.

Matrices are `Vector (Vector α n) n`; the only two primitives the proofs use are
`mget` / `mset` (and `vget` / `vset`) with their `get_set` lemmas.
-/
namespace Ens.Mle

abbrev Vec (α : Type) (n : Nat) := Vector α n
abbrev Mat (α : Type) (n : Nat) := Vector (Vector α n) n

def mget {α n} (X : Mat α n) (i j : Fin n) : α := (X[i.val])[j.val]
def mset {α n} (X : Mat α n) (i j : Fin n) (v : α) : Mat α n :=
  Vector.set X i.val ((X[i.val]).set j.val v)
def vget {α n} (x : Vec α n) (i : Fin n) : α := x[i.val]
def vset {α n} (x : Vec α n) (i : Fin n) (v : α) : Vec α n := Vector.set x i.val v

/-- Σ_{k<n} f k, left to right starting from 0 (numpy's order for fewer than 8 summands) -/
def sumFin {α} [Add α] [OfNat α 0] : (n : Nat) → (Fin n → α) → α
  | 0, _ => 0
  | n+1, f => sumFin n (fun k => f k.castSucc) + f (Fin.last n)

inductive Err
  | assertion      -- an `assert` of the code failed
  | typeError      -- `warnings.warn(exception.ConvergenceWarning, "...")`: swapped arguments
  | unbound        -- `n_iter` unbound after a zero-trip loop (`max_iter = 0`, Python version)
  deriving Repr, DecidableEq

inductive Impl | py | compiled
  deriving Repr, DecidableEq

/-- the `(X, X_rs)` part of the loop state -/
structure St (α : Type) (n : Nat) where
  X : Mat α n
  rs : Vec α n

section arith
variable {α : Type} [Add α] [Sub α] [Mul α] [Div α] [Neg α] [OfNat α 0] [OfNat α 1]
  [OfNat α 2] [OfNat α 4] [LT α] [DecidableLT α] [LE α] [DecidableLE α] [BEq α]
variable {n : Nat}

def rowSumF (X : Mat α n) (i : Fin n) : α := sumFin n (fun j => mget X i j)

/-- `abs` -/
def absV (x : α) : α := if x < 0 then -x else x

/-! ### diagonal update, L257-266 (pyx L37-46) -/

def diagStep (C : Mat α n) (Crs : Vec α n) (st : St α n) (i : Fin n) : St α n :=
  let tmp := mget st.X i i
  let denom := vget Crs i - mget C i i
  let X' := if 0 < denom then
      mset st.X i i (mget C i i * (vget st.rs i - mget st.X i i) / denom)
    else st.X
  { X := X', rs := vset st.rs i (vget st.rs i + (mget X' i i - tmp)) }

/-- `if X[i,i] > 0: logl += C[i,i] * log(X[i,i] / X_rs[i])`, evaluated on the updated state -/
def diagLogl (log : α → α) (C : Mat α n) (st' : St α n) (i : Fin n) (logl : α) : α :=
  if 0 < mget st'.X i i then logl + mget C i i * log (mget st'.X i i / vget st'.rs i) else logl

/-! ### pair update, L269-299 (pyx L48-79) -/

def coefA (C : Mat α n) (Crs : Vec α n) (i j : Fin n) : α :=
  (vget Crs i - mget C i j) + (vget Crs j - mget C j i)

def coefB (C : Mat α n) (Crs : Vec α n) (st : St α n) (i j : Fin n) : α :=
  vget Crs i * (vget st.rs j - mget st.X i j) + vget Crs j * (vget st.rs i - mget st.X i j)
    - (mget C i j + mget C j i) * (vget st.rs i + vget st.rs j - 2 * mget st.X i j)

def coefC (C : Mat α n) (st : St α n) (i j : Fin n) : α :=
  ((-(mget C i j + mget C j i)) * (vget st.rs i - mget st.X i j)) * (vget st.rs j - mget st.X i j)

/-- `v = X[j,i] if a == 0 else (-b + sqrt(b*b - 4*a*c)) / (2*a)` -/
def newV (sqrt : α → α) (C : Mat α n) (Crs : Vec α n) (st : St α n) (i j : Fin n) : α :=
  let a := coefA C Crs i j
  let b := coefB C Crs st i j
  let c := coefC C st i j
  if a == 0 then mget st.X j i else (-b + sqrt (b * b - (4 * a) * c)) / (2 * a)

/-- `newV` with an explicitly given `c` (the code may have reset `c` to 0, see `guardC`) -/
def newVWith (sqrt : α → α) (C : Mat α n) (Crs : Vec α n) (st : St α n) (i j : Fin n) (c : α) : α :=
  let a := coefA C Crs i j
  let b := coefB C Crs st i j
  if a == 0 then mget st.X j i else (-b + sqrt (b * b - (4 * a) * c)) / (2 * a)

variable [OfScientific α]

/-- the rounding guard in front of the assertion (present in both sources when
`Generated.MleSite.cRoundingGuard`):
`if 0 < c <= 1e-9 * (C[i,j] + C[j,i]) * X_rs[i] * X_rs[j]: c = 0.0`.
`X_rs` holds running sums, so for a state whose only partner is `j` the difference
`X_rs[i] - X[i,j]` is zero only up to rounding.  In exact arithmetic `c ≤ 0` (`coefC_nonpos`), so
the guard never fires there. -/
def guardC (C : Mat α n) (st : St α n) (i j : Fin n) (c : α) : α :=
  if Ens.Generated.MleSite.cRoundingGuard then
    if 0 < c ∧ c ≤ ((1e-9 * (mget C i j + mget C j i)) * vget st.rs i) * vget st.rs j then 0 else c
  else c

def pairStep (sqrt : α → α) (C : Mat α n) (Crs : Vec α n) (st : St α n) (i j : Fin n) :
    Except Err (St α n) :=
  let c := guardC C st i j (coefC C st i j)
  if c ≤ 0 then
    let v := newVWith sqrt C Crs st i j c
    let rs1 := vset st.rs i (vget st.rs i + (v - mget st.X i j))
    let rs2 := vset rs1 j (vget rs1 j + (v - mget st.X j i))
    .ok { X := mset (mset st.X i j v) j i v, rs := rs2 }
  else .error .assertion      -- `assert c <= 0`

/-- `if X[i,j] > 0: logl += C[i,j]*log(X[i,j])/X_rs[i] + C[j,i]*log(X[j,i])/X_rs[j]`
(the division by the row sum *outside* the logarithm is the code's; this quantity is only
used for the convergence test) -/
def pairLogl (log : α → α) (C : Mat α n) (st' : St α n) (i j : Fin n) (logl : α) : α :=
  if 0 < mget st'.X i j then
    logl + ((mget C i j * log (mget st'.X i j)) / vget st'.rs i
            + (mget C j i * log (mget st'.X j i)) / vget st'.rs j)
  else logl

/-- `for i in range(n-1): for j in range(i+1, n)` -/
def pairs (n : Nat) : List (Fin n × Fin n) :=
  (List.finRange n).flatMap fun i => ((List.finRange n).filter (fun j => i < j)).map (fun j => (i, j))

def diagPhase (log : α → α) (C : Mat α n) (Crs : Vec α n) (p : St α n × α) : St α n × α :=
  (List.finRange n).foldl (fun p i =>
    let st' := diagStep C Crs p.1 i
    (st', diagLogl log C st' i p.2)) p

def pairPhaseOn (sqrt log : α → α) (C : Mat α n) (Crs : Vec α n) :
    List (Fin n × Fin n) → St α n × α → Except Err (St α n × α)
  | [], p => .ok p
  | (i, j) :: rest, p =>
    match pairStep sqrt C Crs p.1 i j with
    | .error e => .error e
    | .ok st' => pairPhaseOn sqrt log C Crs rest (st', pairLogl log C st' i j p.2)

/-- one pass of the `for n_iter` body: returns the new state and `logl` -/
def sweep (sqrt log : α → α) (C : Mat α n) (Crs : Vec α n) (st : St α n) :
    Except Err (St α n × α) :=
  pairPhaseOn sqrt log C Crs (pairs n) (diagPhase log C Crs (st, 0))

/-- `for n_iter in range(max_iter)` with the convergence test L302-305.  `fuel` = iterations
left, `k` = current `n_iter`.  Returns the state after the loop and the final `n_iter`. -/
def loop (sqrt log : α → α) (tol : α) (C : Mat α n) (Crs : Vec α n) :
    (fuel : Nat) → (k : Nat) → St α n → (oldlogl : α) → Except Err (St α n × Nat)
  | 0, k, st, _ => .ok (st, k)
  | fuel + 1, k, st, oldlogl =>
    match sweep sqrt log C Crs st with
    | .error e => .error e
    | .ok (st', logl) =>
      if tol < absV (logl - oldlogl) then
        if fuel = 0 then .ok (st', k) else loop sqrt log tol C Crs fuel (k + 1) st' logl
      else .ok (st', k)

/-- the final assertion on `np.sum(pi)` -/
inductive PiCheck (α : Type)
  | isclose (atol rtol : α)     -- `np.isclose(np.sum(pi), 1)`
  | upper (eps : α)             -- `np.sum(pi) - 1 < eps`

structure Params (α : Type) where
  sqrt : α → α
  log : α → α
  tol : α
  maxIter : Nat
  impl : Impl
  /-- does the source call `warnings.warn(<category>, <message>)` with swapped arguments? -/
  warnSwapped : Bool
  rowAtol : α
  rowRtol : α
  piCheck : PiCheck α

structure Result (α : Type) (n : Nat) where
  T : Mat α n
  pi : Vec α n
  X : Mat α n
  rs : Vec α n
  nIter : Nat
  warned : Bool

/-- `np.isclose(x, 1)` / each component of `np.allclose(·, 1)` -/
def isclose1 (atol rtol x : α) : Bool := decide (absV (x - 1) ≤ atol + rtol * absV 1)

def piOk : PiCheck α → α → Bool
  | .isclose atol rtol, s => isclose1 atol rtol s
  | .upper eps, s => decide (s - 1 < eps)

/-- L307-318 (pyx L87-98) -/
def finish (P : Params α) (st : St α n) (nIter : Nat) : Except Err (Result α n) :=
  let capped := decide (nIter + 1 = P.maxIter)
  if capped && P.warnSwapped then .error .typeError else
  let T : Mat α n := Vector.ofFn fun i => Vector.ofFn fun j => mget st.X i j / rowSumF st.X i
  let tot := sumFin n (fun i => vget st.rs i)
  let pi : Vec α n := Vector.ofFn fun i => vget st.rs i / tot
  if (List.finRange n).all (fun i => isclose1 P.rowAtol P.rowRtol (rowSumF T i))
      && piOk P.piCheck (sumFin n (fun i => vget pi i)) then
    .ok { T := T, pi := pi, X := st.X, rs := st.rs, nIter := nIter, warned := capped }
  else .error .assertion

/-- `X = C + C.T; X_rs = X.sum(axis=1); C_rs = C.sum(axis=1)` and the two initial asserts -/
def init (C : Mat α n) : Except Err (Vec α n × St α n) :=
  let X : Mat α n := Vector.ofFn fun i => Vector.ofFn fun j => mget C i j + mget C j i
  let rs : Vec α n := Vector.ofFn fun i => rowSumF X i
  let Crs : Vec α n := Vector.ofFn fun i => rowSumF C i
  if (List.finRange n).all (fun i => decide (0 < vget rs i))
      && (List.finRange n).all (fun i => decide (0 < vget Crs i)) then
    .ok (Crs, { X := X, rs := rs })
  else .error .assertion

/-- the whole estimator -/
def run (P : Params α) (C : Mat α n) : Except Err (Result α n) :=
  match init C with
  | .error e => .error e
  | .ok (Crs, st0) =>
    if P.maxIter = 0 then
      match P.impl with
      | .py => .error .unbound                    -- `n_iter` is never bound
      | .compiled => finish P st0 0               -- `cdef long n_iter = 0`
    else
      match loop P.sqrt P.log P.tol C Crs P.maxIter 0 st0 0 with
      | .error e => .error e
      | .ok (st, k) => finish P st k

/-- exactly `k` sweeps without convergence test (used by the harness to look at neighbouring
iterates when the stopping test is rounding-sensitive) -/
def sweepsN (sqrt log : α → α) (C : Mat α n) (Crs : Vec α n) : Nat → St α n → Except Err (St α n)
  | 0, st => .ok st
  | k + 1, st =>
    match sweep sqrt log C Crs st with
    | .error e => .error e
    | .ok (st', _) => sweepsN sqrt log C Crs k st'

end arith
end Ens.Mle
