import Model.PySlice
/-!
Model of `enspara.msm.transition_matrices._transitions_helper` and `assigns_to_counts`.
Mirrors the code as written: all `-1` entries of a row are dropped (`a[np.where(a != -1)]`),
the two lagged views are Python slices, `np.row_stack` of views of different length is an
error, unit entries are accumulated by `coo_matrix` (duplicate summing is scipy's contract).
-/
namespace Ens.Counts

inductive Err | dataInvalid | valueError | indexError
  deriving Repr, DecidableEq

/-- `_transitions_helper`: returns the (start, end) pairs in order. -/
def transitionsHelper (a : List Int) (lag : Nat) (sliding : Bool) : Except Err (List (Int × Int)) :=
  let s : Int := if sliding then 1 else lag
  let neg : Int := -(lag : Int)
  match (PySlice.mk none (some neg) (some s)).apply a,
        (PySlice.mk (some (lag : Int)) none (some s)).apply a with
  | some starts, some ends =>
      if starts.length = ends.length then .ok (starts.zip ends) else .error .valueError
  | _, _ => .error .valueError

def dropPad (a : List Int) : List Int := a.filter (· ≠ -1)

/-- all transition pairs over all rows, in row order -/
def allPairs (rows : List (List Int)) (lag : Nat) (sliding : Bool) : Except Err (List (Int × Int)) := do
  let ps ← rows.mapM (fun r => transitionsHelper (dropPad r) lag sliding)
  pure ps.flatten

def maxState (rows : List (List Int)) : Option Int :=
  ((rows.map dropPad).flatten).foldl (fun m x => match m with
    | none => some x
    | some y => some (if y < x then x else y)) none

/-- number of occurrences of the pair `(i,j)` -/
def countPair (ps : List (Int × Int)) (i j : Int) : Nat := (ps.filter (fun p => p.1 = i ∧ p.2 = j)).length

structure CountMat where
  n : Nat
  entry : Nat → Nat → Nat

/-- `assigns_to_counts` for `lag ≥ 1` (the guard on the lag is mirrored in `assignsToCounts`). -/
def assignsToCounts (rows : List (List Int)) (lag : Int) (maxN : Option Nat) (sliding : Bool) :
    Except Err CountMat := do
  if lag < 1 then throw .dataInvalid
  -- `np.hstack([])` raises when there is no trajectory at all
  if rows.isEmpty then throw .valueError
  let n ← match maxN with
    | some n => pure n
    | none => match maxState rows with
      | none => throw .valueError       -- `np.concatenate([]).max()` raises
      | some m => if m + 1 < 0 then throw .valueError   -- negative shape is rejected by coo_matrix
                  else pure (m + 1).toNat
  let ps ← allPairs rows lag.toNat sliding
  -- coo_matrix rejects coordinates outside the shape (negative or ≥ n)
  if ps.any (fun p => p.1 < 0 ∨ p.2 < 0 ∨ p.1 ≥ n ∨ p.2 ≥ n) then throw .valueError
  pure { n := n, entry := fun i j => countPair ps i j }

def CountMat.toLists (c : CountMat) : List (List Nat) :=
  tabulate c.n fun i => tabulate c.n fun j => c.entry i j

end Ens.Counts
