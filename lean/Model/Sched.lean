/-!
`Sched` — generic model of a parallel loop whose iterations own disjoint cells
(used by C13 distance kernels, C15 pool workers, C18 `matrix_bincount2d`).

A *cell* is a natural number (a row index, a flat buffer position, a file window …),
its content has type `α`.  A *step* is a function `α → α` applied to one cell.  An
*execution* is a list of `(cell, step)` pairs, performed left to right.  An execution is
an *interleaving* of the per-cell programs `progs` when its restriction to every cell
`i` is exactly `progs[i]` (in order) — this is finer than "some permutation of the
iterations": steps of different iterations may be interleaved arbitrarily, which covers
every thread count, every `schedule(...)` clause and every assignment of iterations to
threads.

Core Lean only (no Mathlib).  Theorems live in `Proofs/Sched.lean`:
`run_cell`, `run_interleaving_independent`, `run_of_interleaving`,
`seqExec_isInterleaving`, `schedule_isInterleaving`, `cellSteps_retag`, `run_retag`.
-/
namespace Ens.Sched

variable {α : Type}

/-- an execution: `(cell, step)` pairs performed left to right -/
abbrev Exec (α : Type) := List (Nat × (α → α))

/-- perform step `f` on cell `i` of the store `o` (all other cells untouched) -/
def applyAt (o : Nat → α) (i : Nat) (f : α → α) : Nat → α :=
  fun k => if k = i then f (o k) else o k

/-- perform a whole execution -/
def run (exec : Exec α) (out : Nat → α) : Nat → α :=
  exec.foldl (fun o p => applyAt o p.1 p.2) out

/-- the steps of `exec` that act on cell `i`, in execution order -/
def cellSteps (exec : Exec α) (i : Nat) : List (α → α) :=
  (exec.filter (fun p => p.1 == i)).map (·.2)

/-- run a per-cell program on one cell value -/
def runSteps (steps : List (α → α)) (a : α) : α := steps.foldl (fun a f => f a) a

/-- program of cell `i` (cells beyond the list have the empty program) -/
def progOf (progs : List (List (α → α))) (i : Nat) : List (α → α) := progs.getD i []

/-- `e` is an interleaving of the per-cell programs `progs` (cell `i` runs `progs[i]`,
in order; nothing else happens) -/
def IsInterleaving (progs : List (List (α → α))) (e : Exec α) : Prop :=
  ∀ i, cellSteps e i = progOf progs i

/-- steps of one cell, tagged -/
def tagged (i : Nat) (steps : List (α → α)) : Exec α := steps.map (fun f => (i, f))

/-- the sequential execution: cell 0 completely, then cell 1, … (offset `k` = first cell id) -/
def seqFrom (k : Nat) : List (List (α → α)) → Exec α
  | [] => []
  | p :: ps => tagged k p ++ seqFrom (k + 1) ps

/-- the sequential (single-thread, loop-order) execution -/
def seqExec (progs : List (List (α → α))) : Exec α := seqFrom 0 progs

/-- An executable scheduler: `choices` says which cell advances next (taken modulo the
number of cells; a choice naming a finished cell is skipped); when the choices are
exhausted the remaining steps are drained in cell order.  Every result is an
interleaving (`schedule_isInterleaving`), and every interleaving of finite programs
arises from some choice list — the driver uses this to run the model under the
schedules the harness draws. -/
def schedule (progs : List (List (α → α))) : List Nat → Exec α
  | [] => seqExec progs
  | c :: cs =>
    let k := c % progs.length
    match progs[k]? with
    | some (f :: fs) => (k, f) :: schedule (progs.set k fs) cs
    | _ => schedule progs cs

/-- re-address the cells of an execution (`pos` maps a logical cell, e.g. a row, to the
cell it really writes, e.g. a flat buffer position) -/
def retag (pos : Nat → Nat) (e : Exec α) : Exec α := e.map (fun p => (pos p.1, p.2))

end Ens.Sched
