import Model.Basic
/-!
Model of `enspara.msm.builders` (`normalize`, `transpose`, the output stage of `mle`,
`_apply_prior_counts`, `_row_normalize`) and of the normalisation step of
`transition_matrices.eigenspectrum`/`eq_probs`.

Matrices are index functions `Nat → Nat → α` with an explicit size `n`; the arithmetic is
generic (`Rat` in the driver, an arbitrary linear ordered field in `Proofs/C04*.lean`).

The second half is the *container decision table*: which Python container each builder
returns, mirroring the code's dispatch (`scipy.sparse.issparse`, `isspmatrix`, `toarray`,
`type(C)(…)`, `np.array(…)`), with scipy's own result types of `A + A.T`, `A + dense`,
`A + scalar`, `A / 2` as a table that the correspondence check re-measures on every run.
-/
namespace Ens.Builders

abbrev Mat (α : Type) := Nat → Nat → α

section arith
variable {α : Type} [Add α] [Mul α] [Div α] [OfNat α 0] [OfNat α 1] [OfNat α 2]
  [LT α] [DecidableLT α]

/-- `C.sum(axis=1)[i]` -/
def rowSum (n : Nat) (C : Mat α) (i : Nat) : α := sumTo n (fun j => C i j)

/-- `C.sum()` -/
def total (n : Nat) (C : Mat α) : α := sumTo n (fun i => rowSum n C i)

/-- the `prior_counts` argument: `None`, a number, or a matrix -/
inductive Prior (α : Type) where
  | none
  | scalar (a : α)
  | matrix (P : Mat α)

/-- `_apply_prior_counts` (builders.py L158-168), values only -/
def applyPrior (C : Mat α) : Prior α → Mat α
  | .none => C
  | .scalar a => fun i j => C i j + a
  | .matrix P => fun i j => C i j + P i j

/-- `inv_weights = zeros; inv_weights[w > 0] = 1.0 / w[w > 0]` (L191-192, L200-201) -/
def invWeight (w : α) : α := if 0 < w then 1 / w else 0

/-- `_row_normalize` (L171-204): both branches compute `C[i,j] * inv_weights[i]` -/
def rowNormalize (n : Nat) (C : Mat α) : Mat α :=
  fun i j => C i j * invWeight (rowSum n C i)

/-- `C + C.T` -/
def symmetrize (C : Mat α) : Mat α := fun i j => C i j + C j i

/-- what a builder returns: `(C, T, eq_probs)` -/
structure Out (α : Type) where
  counts : Mat α
  probs : Mat α
  eq : Option (Nat → α)

/-- `transpose` (L83-120) -/
def transposeBuilder (n : Nat) (C : Mat α) (prior : Prior α) (calcEq : Bool) : Out α :=
  let C' := applyPrior C prior
  let S := symmetrize C'
  { counts := fun i j => S i j / 2
    probs := rowNormalize n S
    eq := if calcEq then some (fun i => rowSum n S i / total n S) else none }

/-- `vecs[:, 0] /= vecs[:, 0].sum()` (transition_matrices.py L227) -/
def normalizeEig (n : Nat) (v : Nat → α) : Nat → α := fun i => v i / sumTo n v

/-- `normalize` (L123-155).  `eig` is the eigen-solver's raw leading left eigenvector of the
row-normalised matrix (a parameter: LAPACK is not modelled), `none` when
`calculate_eq_probs=False`. -/
def normalizeBuilder (n : Nat) (C : Mat α) (prior : Prior α) (eig : Option (Nat → α)) : Out α :=
  let C' := applyPrior C prior
  { counts := C'
    probs := rowNormalize n C'
    eq := eig.map (normalizeEig n) }

/-- output stage of `_prinz_mle_py` (L312-313) / `_mle_prinz_dense` (L92-93):
`T = X / X.sum(axis=-1)`, `pi = X_rs / X_rs.sum()` -/
def mleOutput (n : Nat) (X : Mat α) (Xrs : Nat → α) : Mat α × (Nat → α) :=
  (fun i j => X i j / rowSum n X i, fun i => Xrs i / sumTo n Xrs)

/-- `mle` (L24-80) around an estimator `est` (the Prinz iteration of `Model.Mle`) -/
def mleBuilder {ε : Type} (est : Mat α → Except ε (Mat α × (Nat → α))) (C : Mat α)
    (prior : Prior α) (calcEq : Bool) : Except ε (Out α) := do
  let C' := applyPrior C prior
  let (T, pi) ← est C'
  pure { counts := C', probs := T, eq := if calcEq then some pi else none }

def Mat.toLists (n : Nat) (C : Mat α) : List (List α) :=
  tabulate n fun i => tabulate n fun j => C i j

end arith

/-! ## Container decision table -/

inductive Fmt | csr | csc | coo | lil | dok | dia | bsr
  deriving Repr, DecidableEq

/-- Python container of a matrix value.  `npmatrix` = `numpy.matrix` (what scipy returns for
`spmatrix + ndarray`).  `scipy.sparse.*_array` is outside the property's quantifier. -/
inductive Container
  | ndarray
  | npmatrix
  | spmatrix (f : Fmt)
  deriving Repr, DecidableEq

inductive PriorKind | none | scalar | dense
  deriving Repr, DecidableEq

inductive BuilderId | normalize | transpose | mle
  deriving Repr, DecidableEq

inductive CErr | valueError
  deriving Repr, DecidableEq

def Container.isSparse : Container → Bool
  | .spmatrix _ => true
  | _ => false

def Container.isDense (c : Container) : Bool := !c.isSparse

/-- scipy: `A + A.T` for a sparse matrix `A` (measured table, re-checked by the harness);
dense containers keep their type -/
def symContainer : Container → Container
  | .spmatrix .coo => .spmatrix .csr
  | .spmatrix .lil => .spmatrix .csr
  | c => c

/-- facts about the source read by the translator (`Model.Generated.BuildersSite`) -/
structure Site where
  /-- `_apply_prior_counts` converts a `numpy.matrix` result back to an `ndarray` -/
  priorMatrixToArray : Bool
  /-- `transpose` returns `C_sym / 2` with the integer literal `2` -/
  transposeHalfIntLiteral : Bool
  /-- `transpose` computes the populations with `C_sym.sum()` (no axis) -/
  transposeTotalSum : Bool

/-- facts about one call that the container behaviour depends on -/
structure CallInfo where
  /-- at least two states -/
  multi : Bool
  /-- `calculate_eq_probs` -/
  calcEq : Bool
  /-- scipy stores the symmetrised bsr matrix as several blocks larger than 1×k (3-D block data) -/
  bsrBlocky : Bool

/-- `_apply_prior_counts`: container of `C + prior_counts`.
`spmatrix + scalar` raises `NotImplementedError` for every format but dok, and the handler
computes `np.array(C.todense()) + prior` (ndarray); `spmatrix + ndarray` is `numpy.matrix`,
unless the source converts a `numpy.matrix` result back to an array (`toArr`). -/
def priorContainer (toArr : Bool) (c : Container) : PriorKind → Container
  | .none => c
  | .scalar => match c with
      | .spmatrix .dok => .spmatrix .dok
      | .spmatrix _ => .ndarray
      | d => d
  | .dense => match c with
      | .spmatrix _ => if toArr then .ndarray else .npmatrix
      | d => d

/-- `_row_normalize`: `isspmatrix` → `type(C)(T)`; otherwise `np.array(C)` → ndarray -/
def rowNormContainer (c : Container) : Container :=
  if c.isSparse then c else .ndarray

/-- `transpose` L108-114: containers of `(C_sym, probs)` after the recast -/
def transposePair (c' : Container) : Container × Container :=
  let s := symContainer c'
  let probs := rowNormContainer s
  -- `if type(C) is not type(probs): probs = type(C)(probs); C_sym = type(C)(C_sym)`
  if c' = probs then (s, probs) else (c', c')

/-- containers of the returned `(C, T)` -/
def builderContainers (site : Site) (ci : CallInfo) (b : BuilderId) (c : Container)
    (p : PriorKind) : Except CErr (Container × Container) :=
  let c' := priorContainer site.priorMatrixToArray c p
  match b with
  | .normalize => .ok (c', rowNormContainer c')
  | .transpose =>
      let (s', probs') := transposePair c'
      -- `C_sym.sum()` without axis: scipy's bsr_matrix with blocks larger than 1x1 views its
      -- 3-D block data as numpy.matrix and raises ValueError("shape too large to be a matrix")
      if ci.calcEq && site.transposeTotalSum && ci.bsrBlocky && s' == .spmatrix .bsr then
        .error .valueError
      else
        -- `C_sym / 2` keeps the container (scipy: same format; ndarray/matrix: same type)
        .ok (s', probs')
  | .mle =>
      match c' with
      | .spmatrix f => .ok (.spmatrix f, .spmatrix f)     -- sparsetype = type(C); toarray()
      | .ndarray => .ok (.ndarray, .ndarray)              -- np.array(C), np.array(T)
      -- `_prinz_mle_py` on a numpy.matrix: `X[i,i] = <1x1 matrix>` raises ValueError as soon as a
      -- diagonal update runs (every state of a connected chain with ≥ 2 states); a single state
      -- runs through (and returns `pi` as a 1x1 numpy.matrix), re-wrapped by `np.array`
      | .npmatrix => if ci.multi then .error .valueError else .ok (.ndarray, .ndarray)

/-- `C_sym / 2` (builders.py L120) as scipy computes it: `lil_matrix` and `dok_matrix` keep an
integer dtype under true division by an integer scalar, i.e. they truncate; every other
container (and every float dtype, and a float divisor) gives the exact half.
`intLiteral`: the source divides by the integer literal `2` (a fact read by the translator). -/
def halfTruncates (intLiteral : Bool) (c : Container) (intDtype : Bool) : Bool :=
  intLiteral && intDtype && (c == .spmatrix .lil || c == .spmatrix .dok)

/-- one entry of the returned symmetrised counts -/
def halfEntry (trunc : Bool) (x : Rat) : Rat := if trunc then ((x / 2).floor : Int) else x / 2

/-- the containers the property quantifies over -/
def Container.inScope : Container → Bool
  | .ndarray => true
  | .spmatrix _ => true
  | .npmatrix => false

def allFmts : List Fmt := [.csr, .csc, .coo, .lil, .dok, .dia, .bsr]
def allScope : List Container := .ndarray :: allFmts.map .spmatrix
def allPriors : List PriorKind := [.none, .scalar, .dense]
def allBuilders : List BuilderId := [.normalize, .transpose, .mle]

end Ens.Builders
