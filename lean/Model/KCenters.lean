/-
Executable model of the serial k-centers code path (property C02):

  enspara/cluster/kcenters.py   kcenters (L108-240), _kcenters_iteration (L243-311),
                                KCenters.fit (L75-100, forwards to kcenters)
  enspara/cluster/util.py       assign_to_nearest_center (L159-205, list-of-centers branch),
                                find_cluster_centers (L208-242)

Frames are `0 … n-1`.  The metric is a table `D : Nat → Nat → Rat`; `D f c` is entry `f` of
`distance_method(traj, c)`, i.e. the distance from frame `f` to the point with id `c`
(ids `< n` are frames of the data set; `init_centers` may carry other ids).
`none : ERat` is `+inf` (numpy `inf`).  Arrays are index functions with the explicit size `n`.
Self-contained on purpose (no import of another property's model); Mathlib-free.
-/
namespace Ens.KC

abbrev Table := Nat → Nat → Rat
/-- extended rationals: `none` = `+inf` -/
abbrev ERat := Option Rat

/-- `f` evaluated once on `0 … n-1` -/
@[noinline] def tab {α} (n : Nat) (f : Nat → α) : Array α := Array.ofFn (n := n) (fun i => f i.val)

/-- a function in a box, so that the compiler cannot eta-expand across the stored array -/
structure Fn (α : Type) where
  f : Nat → α

/-- answer from the stored array where it has an entry, else from `f` itself -/
@[noinline] def look {α} (a : Array α) (f : Nat → α) : Fn α :=
  ⟨fun i => if h : i < a.size then a[i] else f i⟩

theorem look_eq {α} (a : Array α) (f : Nat → α) (h : ∀ i (h : i < a.size), a[i] = f i) :
    (look a f).f = f := by
  funext i
  unfold look
  by_cases hi : i < a.size
  · simp only [dif_pos hi]; exact h i hi
  · simp only [dif_neg hi]

/-- `(look (tab n f) f).f` is `f`; the detour only keeps the compiled driver from re-evaluating
nested closures (the array is built once, when the expression is formed). -/
theorem look_tab {α} (n : Nat) (f : Nat → α) : (look (tab n f) f).f = f := by
  apply look_eq
  intro i h
  simp [tab]

/-- `a < b` on floats that may be `inf` -/
def ltE : ERat → ERat → Bool
  | some a, some b => decide (a < b)
  | some _, none => true
  | none, _ => false

/-- `a ≤ b` (no NaNs in the model, so `≤` is `¬ >`) -/
def leE (a b : ERat) : Bool := !ltE b a

/-- `np.argmax` over `f[0:n]`: first index attaining the maximum (`inf` is the top; of an
all-`inf` array it is 0).  Only called with `n ≥ 1`. -/
def argmaxE : Nat → (Nat → ERat) → Nat
  | 0, _ => 0
  | k+1, f => let b := argmaxE k f; if ltE (f b) (f k) then k else b

/-- first index `< n` with `p` attaining the minimum of `f` among those (`np.argmin` of the
sub-array picked by `np.where(p)`), `none` when no index satisfies `p` -/
def argminOn (p : Nat → Bool) (f : Nat → ERat) : Nat → Option Nat
  | 0 => none
  | k+1 =>
    match argminOn p f k with
    | none => if p k then some k else none
    | some b => if p k && ltE (f k) (f b) then some k else some b

inductive Err
  | improperlyConfigured | notImplemented | valueError | indexError | outOfFuel
  deriving DecidableEq, Repr

/-- the `n_clusters` argument as Python sees it -/
inductive NCl
  | npInf            -- the default object `np.inf` (`n_clusters is np.inf` is true)
  | floatInf         -- another infinite float (`float('inf')`): not identical to `np.inf`
  | none             -- `None`
  | fin (k : Int)    -- an integer
  deriving DecidableEq, Repr

/-- the `dist_cutoff` argument -/
inductive Cut
  | none             -- `None`
  | val (q : Rat)
  | inf
  deriving DecidableEq, Repr

def NCl.eff : NCl → Option Int
  | .fin k => some k
  | _ => Option.none

def Cut.eff : Cut → ERat
  | .val q => some q
  | _ => Option.none

/-- kcenters.py L177-189: returns the effective (n_clusters, dist_cutoff); `none` = `inf`. -/
def normalise (nc : NCl) (cut : Cut) : Except Err (Option Int × ERat) :=
  -- L177: `(n_clusters is np.inf) and (dist_cutoff == 0)`
  if nc = .npInf ∧ cut = .val 0 then .error .improperlyConfigured
  else match nc, cut with
    | .none, .none => .error .improperlyConfigured           -- L183
    | .none, c => .ok (Option.none, c.eff)                   -- L186-187
    | k, .none => .ok (k.eff, some 0)                        -- L188-189
    | k, c => .ok (k.eff, c.eff)

/-- the locals `distances`, `assignments`, `ctr_inds`, `centers` of `kcenters` -/
structure St where
  dist : Nat → ERat
  assign : Nat → Int
  ctrInds : List Nat
  centers : List Nat

/-- kcenters.py L195-199 -/
def St.cold : St :=
  { dist := fun _ => none, assign := fun _ => -1, ctrInds := [], centers := [] }

/-- util.py L199-203, the loop over `enumerate(cluster_centers)`; `i` is the running label -/
def nearestGo (D : Table) (n : Nat) : List Nat → Nat → (Nat → ERat) → (Nat → Int) →
    (Nat → ERat) × (Nat → Int)
  | [], _, d, a => (d, a)
  | c :: cs, i, d, a =>
    nearestGo D n cs (i+1)
      (let g := fun f => (let o := d f; let x := some (D f c); if ltE x o then x else o)
       (look (tab n g) g).f)
      (let g := fun f => if ltE (some (D f c)) (d f) then (i : Int) else a f
       (look (tab n g) g).f)

/-- util.py `assign_to_nearest_center` (L186-205): labels start at 0, distances at `inf` -/
def assignToNearest (D : Table) (n : Nat) (cs : List Nat) : (Nat → ERat) × (Nat → Int) :=
  nearestGo D n cs 0 (fun _ => none) (fun _ => 0)

/-- util.py `find_cluster_centers` (L233-242) for labels known to lie in `0 … m-1`
(`np.unique` = the labels that occur, ascending): per occurring label the first frame with
the least distance among the frames carrying it. -/
def findClusterCenters (n m : Nat) (assign : Nat → Int) (dist : Nat → ERat) : List Nat :=
  (List.range m).filterMap (fun (k : Nat) => argminOn (fun f => assign f == (k : Int)) dist n)

/-- kcenters.py L195-206 -/
def initState (D : Table) (n : Nat) : Option (List Nat) → St
  | none => St.cold
  | some cs =>
    let da := assignToNearest D n cs
    { dist := da.1, assign := da.2,
      ctrInds := findClusterCenters n (max cs.length 1) da.2 da.1,
      centers := cs }

/-- kcenters.py L304-308 and L224: `inds = dist < distances`, write-back, the two appends -/
def update (n : Nat) (s : St) (cand : Nat → ERat) (c : Nat) : St :=
  { dist :=
      let g := fun f => (let o := s.dist f; let x := cand f; if ltE x o then x else o)
      (look (tab n g) g).f
    assign :=
      let g := fun f => if ltE (cand f) (s.dist f) then (s.ctrInds.length : Int) else s.assign f
      (look (tab n g) g).f
    ctrInds := s.ctrInds ++ [c]
    centers := s.centers ++ [c] }

/-- kcenters.py L282, L298: the plain iteration -/
def iterPlain (D : Table) (n : Nat) (s : St) : St :=
  let c := argmaxE n s.dist
  update n s (fun f => some (D f c)) c

/-- `np.all(assignments >= 0)` -/
def allAssigned (n : Nat) (a : Nat → Int) : Bool := (List.range n).all (fun f => decide (0 ≤ a f))

/-- the candidate array of the triangle-inequality branch, kcenters.py L288-296:
`cc_dists = D[center_inds, c]`; `recompute = distances > cc_dists[assignments] / 2`;
recomputed frames get `D f c`, the others keep their old distance.  (For a label outside
`center_inds` numpy raises IndexError, see `iterTri`; that arm is never evaluated for `f < n`.) -/
def triCand (D : Table) (s : St) (c : Nat) (f : Nat) : ERat :=
  match s.ctrInds[(s.assign f).toNat]? with
  | some g => if ltE (some (D g c / 2)) (s.dist f) then some (D f c) else s.dist f
  | none => s.dist f

/-- kcenters.py L287-296 (only entered when all labels are `≥ 0`) -/
def iterTri (D : Table) (n : Nat) (s : St) : Except Err St :=
  let c := argmaxE n s.dist
  if (List.range n).all (fun f => decide (s.assign f < (s.ctrInds.length : Int))) then
    .ok (update n s (triCand D s c) c)
  else .error .indexError       -- `cc_dists[assignments]` out of bounds

/-- `_kcenters_iteration` -/
def iter (D : Table) (n : Nat) (tri : Bool) (s : St) : Except Err St :=
  if tri && allAssigned n s.assign then iterTri D n s else .ok (iterPlain D n s)

/-- `distances.max()` (for `n ≥ 1`) -/
def radius (n : Nat) (s : St) : ERat := s.dist (argmaxE n s.dist)

/-- kcenters.py L217: `len(ctr_inds) < n_clusters and maxdist > dist_cutoff` -/
def guard (nc : Option Int) (cut : ERat) (n : Nat) (s : St) : Bool :=
  (match nc with
   | none => true
   | some k => decide ((s.ctrInds.length : Int) < k)) && ltE cut (radius n s)

/-- the `while` loop L217-226 with fuel; returns the final state and, per executed iteration,
(chosen frame, covering radius before the iteration). -/
def loop (D : Table) (n : Nat) (tri : Bool) (nc : Option Int) (cut : ERat) :
    Nat → St → Except Err (St × List (Nat × ERat))
  | 0, s => if guard nc cut n s then .error .outOfFuel else .ok (s, [])
  | fuel+1, s =>
    if guard nc cut n s then
      match iter D n tri s with
      | .error e => .error e
      | .ok s' =>
        match loop D n tri nc cut fuel s' with
        | .error e => .error e
        | .ok (sf, tr) => .ok (sf, (argmaxE n s.dist, radius n s) :: tr)
    else .ok (s, [])

/-- `j` unguarded iterations (used to name the intermediate states in the theorems) -/
def iterN (D : Table) (n : Nat) (tri : Bool) : Nat → St → Except Err St
  | 0, s => .ok s
  | j+1, s =>
    match iter D n tri s with
    | .error e => .error e
    | .ok s' => iterN D n tri j s'

structure Cfg where
  nClusters : NCl := .npInf
  cutoff : Cut := .val 0
  init : Option (List Nat) := none
  randomFirst : Bool := false
  tri : Bool := false

structure Result where
  st : St
  trace : List (Nat × ERat)
  radius : ERat

/-- number of loop iterations that is always enough when `n_clusters` is finite, and enough
for `n_clusters = inf` under the hypothesis of `kcenters_terminates` -/
def fuelFor (n : Nat) (nc : Option Int) (s : St) : Nat :=
  match nc with
  | some k => (k - (s.ctrInds.length : Int)).toNat
  | none => n

/-- `kcenters(traj, D, n_clusters, dist_cutoff, init_centers, random_first_center,
use_triangle_inequality, mpi_mode=False)` with `len(traj) = n` -/
def kcentersFuel (D : Table) (n : Nat) (cfg : Cfg) (fuel : Option Nat) : Except Err Result :=
  match normalise cfg.nClusters cfg.cutoff with
  | .error e => .error e
  | .ok (nc, cut) =>
    if cfg.randomFirst then .error .notImplemented          -- L191-193
    else if n = 0 then .error .valueError                   -- L216: max of an empty array
    else
      let s0 := initState D n cfg.init
      match loop D n cfg.tri nc cut (fuel.getD (fuelFor n nc s0)) s0 with
      | .error e => .error e
      | .ok (sf, tr) => .ok { st := sf, trace := tr, radius := radius n sf }

def kcenters (D : Table) (n : Nat) (cfg : Cfg) : Except Err Result :=
  kcentersFuel D n cfg none

end Ens.KC
