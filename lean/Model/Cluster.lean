import Model.Basic
/-!
Executable model of the clustering core of `enspara.cluster`
(`util.assign_to_nearest_center`, `util.find_cluster_centers`, `kcenters.kcenters`,
`kcenters._kcenters_iteration`, `kmedoids._kmedoids_pam_update`, `kmedoids._kmedoids_iterations`,
`kmedoids.kmedoids` / `_kmedoids_inputs_tree`, `hybrid.hybrid`), serial (non-MPI) paths.

Frames are `0 … n-1`.  The metric is a table `D f c` = entry `f` of `distance_method(X, X[c])`.
Arrays (`distances`, `assignments`) are `Array`s of length `n`, rebuilt by `Arr.tab` from an index
function at every numpy statement that produces a new array.
`+inf` occurs in the code only as the *uniform* initial value of `distances`
(`np.full(n, inf)`); it disappears for every frame as soon as one center has been processed, because
table entries are finite.  The model therefore carries one flag `fresh` (= "all distances are +inf")
instead of an `inf` per entry.  Center coordinates and center indices are two lists updated by
separate statements in the code; the model keeps both (`ctrFrames`: frame id of each coordinate row).
-/
namespace Ens.Cluster

abbrev Table := Nat → Nat → Rat

inductive Err
  | indexError      -- IndexError (`X[i]` out of range, `medoid_inds[0]` of an empty list, `assignments[0]` …)
  | valueError      -- ValueError (`max()` of an empty array, `choice` from an empty cluster)
  | dataInvalid     -- enspara.exception.DataInvalid (proposals length)
  | assertion       -- AssertionError (the asserts of kmedoids / _kmedoids_pam_update)
  | unboundLocal    -- UnboundLocalError (`return result` after zero sweeps)
  | fuel            -- the k-centers while-loop did not stop within the fuel given to the model
  | oracleExhausted -- the oracle list (recorded random choices) was too short
  | infState        -- PAM asked to run on the all-`inf` state (not reachable from the entry points)
  | notModelled     -- input outside the model (cold start without the drawn indices)
  deriving Repr, DecidableEq

/-- the pair `(distances, assignments)`: two numpy arrays of length `n` -/
structure Arr where
  fresh : Bool            -- true: every distance is +inf (no center processed yet)
  distA : Array Rat       -- meaningful when `fresh = false`
  assignA : Array Int
  deriving DecidableEq, Repr

/-- `distances[f]` (reads outside the array do not occur in the model: every index is checked first) -/
def Arr.dist (a : Arr) (f : Nat) : Rat := a.distA.getD f 0
/-- `assignments[f]` -/
def Arr.assign (a : Arr) (f : Nat) : Int := a.assignA.getD f 0

/-- materialise two index functions on `0 … n-1` as arrays (what every numpy statement does) -/
def Arr.tab (n : Nat) (fresh : Bool) (d : Nat → Rat) (l : Nat → Int) : Arr :=
  { fresh := fresh
    distA := Array.ofFn (n := n) (fun i => d i.val)
    assignA := Array.ofFn (n := n) (fun i => l i.val) }

/-- clustering state: arrays + center indices + center coordinates (as frame ids) -/
structure St where
  arr : Arr
  ctrInds : List Nat
  ctrFrames : List Nat
  deriving DecidableEq, Repr

/-- `inds = (dist < distances); distances[inds] = dist[inds]; assignments[inds] = lbl`
with `dist = distance_method(X, X[c])`
(util.py L200-203, kcenters.py L298-306). -/
def Arr.relax (D : Table) (n : Nat) (a : Arr) (lbl : Int) (c : Nat) : Arr :=
  Arr.tab n false
    (fun f => if a.fresh || decide (D f c < a.dist f) then D f c else a.dist f)
    (fun f => if a.fresh || decide (D f c < a.dist f) then lbl else a.assign f)

/-- `for i, center in enumerate(cluster_centers)` of `assign_to_nearest_center` (else-branch) -/
def assignLoop (D : Table) (n : Nat) : List Nat → Nat → Arr → Arr
  | [], _, a => a
  | c :: cs, i, a => assignLoop D n cs (i+1) (a.relax D n (i : Nat) c)

/-- `assignments = zeros; distances = full(inf)` -/
def Arr.init0 (n : Nat) : Arr := Arr.tab n true (fun _ => 0) (fun _ => 0)

/-- `util.assign_to_nearest_center(X, [X[c] for c in cs], metric)`, loop-over-centers branch -/
def assignNearest (D : Table) (n : Nat) (cs : List Nat) : Arr := assignLoop D n cs 0 (Arr.init0 n)

/-- running first-index minimum of `g` over a list (numpy `argmin`/`min` of `dist`) -/
def argminFrom (g : Nat → Rat) : List Nat → Nat → Nat × Rat → Nat × Rat
  | [], _, b => b
  | c :: cs, i, b => argminFrom g cs (i+1) (if g c < b.2 then (i, g c) else b)

def rowArgmin (g : Nat → Rat) : List Nat → Option (Nat × Rat)
  | [] => none
  | c :: cs => some (argminFrom g cs 1 (0, g c))

/-- the other branch of `assign_to_nearest_center` (`len(cluster_centers) > len(trajectory)` and the
centers are an `md.Trajectory`): per frame `argmin`/`min` over all centers.  `argmin` of an empty
sequence raises ValueError. -/
def assignArgmin (D : Table) (n : Nat) (cs : List Nat) : Except Err Arr :=
  match cs with
  | [] => if n = 0 then .ok (Arr.init0 n) else .error .valueError
  | c :: cs' => .ok (Arr.tab n false
      (fun f => (argminFrom (D f) cs' 1 (0, D f c)).2)
      (fun f => ((argminFrom (D f) cs' 1 (0, D f c)).1 : Nat)))

/-- `assign_to_nearest_center` with its branch condition (`xyz`: the centers have an `.xyz`) -/
def assignToNearestCenter (D : Table) (n : Nat) (cs : List Nat) (xyz : Bool) : Except Err Arr :=
  if cs.length > n ∧ xyz then assignArgmin D n cs else .ok (assignNearest D n cs)

/-! ### `find_cluster_centers` -/

/-- insert into a strictly increasing list, dropping duplicates -/
def insertUniq (x : Int) : List Int → List Int
  | [] => [x]
  | y :: ys => if x < y then x :: y :: ys else if x = y then y :: ys else y :: insertUniq x ys

/-- `np.unique(assignments)` over frames `0 … n-1` -/
def uniqueLabels (assign : Nat → Int) : Nat → List Int
  | 0 => []
  | k+1 => insertUniq (assign k) (uniqueLabels assign k)

/-- `assigned_frames[np.argmin(distances[assigned_frames])]` over frames `0 … n-1`: the first frame
labelled `c` with the smallest distance (`inf == inf`: the first labelled frame when `fresh`). -/
def firstMinIn (a : Arr) (c : Int) : Nat → Option Nat
  | 0 => none
  | k+1 => match firstMinIn a c k with
    | none => if a.assign k = c then some k else none
    | some b => if a.assign k = c ∧ a.fresh = false ∧ a.dist k < a.dist b then some k else some b

/-- `util.find_cluster_centers(assignments, distances)`; `none` cannot occur (every label in
`np.unique` has a frame) and is reported as an assertion failure by the callers. -/
def findClusterCenters (n : Nat) (a : Arr) : Option (List Nat) :=
  (uniqueLabels a.assign n).mapM (fun c => firstMinIn a c n)

/-! ### k-centers -/

/-- `np.argmax(distances)` (index 0 for the all-`inf` array) -/
def argmaxDist (n : Nat) (a : Arr) : Nat := if a.fresh then 0 else argmaxTo n a.dist

/-- `distances.max()`; `none` = `inf` -/
def maxDist (n : Nat) (a : Arr) : Option Rat := if a.fresh then none else some (a.dist (argmaxTo n a.dist))

/-- `_kcenters_iteration` (without the triangle-inequality shortcut), plus `centers.append(new_center)` -/
def kcentersIter (D : Table) (n : Nat) (s : St) : St :=
  let c := argmaxDist n s.arr
  { arr := s.arr.relax D n (s.ctrInds.length : Nat) c
    ctrInds := s.ctrInds ++ [c]
    ctrFrames := s.ctrFrames ++ [c] }

/-- `(len(ctr_inds) < n_clusters) and (maxdist > dist_cutoff)`; `nClusters = none` is `np.inf` -/
def kcentersGoOn (n : Nat) (nClusters : Option Nat) (cutoff : Rat) (s : St) : Bool :=
  (match nClusters with | none => true | some k => decide (s.ctrInds.length < k)) &&
  (match maxDist n s.arr with | none => true | some m => decide (cutoff < m))

/-- the while-loop of `kcenters`; the Python loop has no bound, the model gets `fuel` -/
def kcentersLoop (D : Table) (n : Nat) (nClusters : Option Nat) (cutoff : Rat) : Nat → St → Except Err St
  | fuel, s =>
    if kcentersGoOn n nClusters cutoff s then
      match fuel with
      | 0 => .error .fuel
      | fuel+1 => kcentersLoop D n nClusters cutoff fuel (kcentersIter D n s)
    else .ok s

/-- cold start: `ctr_inds = []; centers = []; assignments = full(-1); distances = full(inf)` -/
def St.cold (n : Nat) : St := { arr := Arr.tab n true (fun _ => 0) (fun _ => -1), ctrInds := [], ctrFrames := [] }

/-- warm start from `init_centers = X[init]`: `assign_to_nearest_center` + `find_cluster_centers` -/
def kcentersWarm (D : Table) (n : Nat) (init : List Nat) : Except Err St :=
  if init.any (fun c => decide (n ≤ c)) then .error .indexError else
  let a := assignNearest D n init
  match findClusterCenters n a with
  | none => .error .assertion
  | some ci => .ok { arr := a, ctrInds := ci, ctrFrames := init }

/-- `kcenters.kcenters(X, metric, n_clusters, dist_cutoff, init_centers)`; `distances.max()` of an
empty array raises ValueError. -/
def kcenters (D : Table) (n : Nat) (nClusters : Option Nat) (cutoff : Rat) (init : Option (List Nat))
    (fuel : Nat) : Except Err St := do
  let s0 ← match init with
    | none => pure (St.cold n)
    | some cs => kcentersWarm D n cs
  if n = 0 then throw .valueError
  kcentersLoop D n nClusters cutoff fuel s0

/-! ### k-medoids (PAM) -/

/-- `_msq`: `np.sum(np.square(x)) / len(x)` -/
def cost (n : Nat) (dist : Nat → Rat) : Rat := sumTo n (fun f => dist f * dist f) / (n : Rat)

/-- candidate state of one PAM step for center `cid` and proposed frame `p` (kmedoids.py L638-671):
`dst_dn` → label `cid`, distance to the proposal; `dst_up_assig_other` → unchanged;
`dst_up_assig_this` → `assign_to_nearest_center(X[mask], new_medoids)`. -/
def pamCandidate (D : Table) (n : Nat) (s : St) (cid p : Nat) : St :=
  let newMedoids := s.ctrFrames.set cid p
  let amb := assignNearest D n newMedoids
  { arr := Arr.tab n false
        (fun f =>
          if D f p < s.arr.dist f then D f p
          else if s.arr.assign f ≠ (cid : Nat) then s.arr.dist f
          else amb.dist f)
        (fun f =>
          if D f p < s.arr.dist f then (cid : Nat)
          else if s.arr.assign f ≠ (cid : Nat) then s.arr.assign f
          else amb.assign f)
    ctrInds := s.ctrInds.set cid p
    ctrFrames := newMedoids }

def countTo (n : Nat) (p : Nat → Bool) : Nat := sumTo n (fun f => if p f then 1 else 0)

/-- what happened in one PAM step (for the correspondence run and the cost history) -/
structure PamStep where
  cid : Nat
  p : Nat
  dn : Nat           -- #frames in `dst_dn`
  other : Nat        -- #frames in `dst_up_assig_other`
  this : Nat         -- #frames in `dst_up_assig_this`
  oldCost : Rat
  newCost : Rat
  same : Bool        -- candidate distances equal the old ones frame by frame
  acc : Bool
  after : St         -- state after the accept/reject decision

/-- one PAM step: build the candidate, the two asserts, `if new_cost < old_cost` accept the whole
candidate, else keep the whole old state (kmedoids.py L674-695). -/
def pamStep (D : Table) (n : Nat) (s : St) (cid p : Nat) : Except Err PamStep :=
  let cand := pamCandidate D n s cid p
  if (List.range n).any (fun f => decide (cand.arr.assign f < 0) || decide (cand.arr.dist f < 0)) then
    .error .assertion
  else
    let oldC := cost n s.arr.dist
    let newC := cost n cand.arr.dist
    let acc := decide (newC < oldC)
    .ok { cid := cid, p := p
          dn := countTo n fun f => decide (D f p < s.arr.dist f)
          other := countTo n fun f => !decide (D f p < s.arr.dist f) && decide (s.arr.assign f ≠ (cid : Nat))
          this := countTo n fun f => !decide (D f p < s.arr.dist f) && decide (s.arr.assign f = (cid : Nat))
          oldCost := oldC, newCost := newC
          same := (List.range n).all fun f => decide (cand.arr.dist f = s.arr.dist f)
          acc := acc
          after := if acc then cand else s }

/-- the proposal for center `cid`: `proposals[cid]` (then `X[proposals[cid]]`), or
`random_state.choice(np.where(assignments == cid)[0])` with the oracle value `o` standing for the
random draw (`members[o % len(members)]`; `choice` of an empty array raises ValueError). -/
def propose (n : Nat) (s : St) (cid : Nat) (props : Option (List Nat)) (orc : List Nat) :
    Except Err (Nat × List Nat) :=
  match props with
  | some ps =>
    match ps[cid]? with
    | none => .error .indexError
    | some p => if p < n then .ok (p, orc) else .error .indexError
  | none =>
    let members := (List.range n).filter (fun f => decide (s.arr.assign f = (cid : Nat)))
    if members.isEmpty then .error .valueError      -- `choice` of an empty array raises before any draw
    else match orc with
    | [] => .error .oracleExhausted
    | o :: orc' =>
      match members[o % members.length]? with
      | none => .error .valueError
      | some p => .ok (p, orc')

/-- `for cid in range(len(medoid_inds))` -/
def pamLoop (D : Table) (n : Nat) (props : Option (List Nat)) :
    List Nat → St → List Nat → Except Err (St × List Nat × List PamStep)
  | [], s, orc => .ok (s, orc, [])
  | cid :: rest, s, orc => do
    let (p, orc') ← propose n s cid props orc
    let step ← pamStep D n s cid p
    let (s', orc'', tr) ← pamLoop D n props rest step.after orc'
    pure (s', orc'', step :: tr)

/-- `_kmedoids_pam_update(X, metric, medoid_inds, assignments, distances, proposals, random_state)`:
one sweep.  Guards in source order: `assignments[0]`, proposals length, `medoid_inds[0]`,
`medoid_coords = [X[i] for i in medoid_inds]`. -/
def pamUpdate (D : Table) (n : Nat) (s : St) (props : Option (List Nat)) (orc : List Nat) :
    Except Err (St × List Nat × List PamStep) := do
  if n = 0 then throw .indexError
  match props with
  | some ps => if ps.length ≠ s.ctrInds.length then throw .dataInvalid
  | none => pure ()
  if s.ctrInds = [] then throw .indexError
  if s.ctrInds.any (fun c => decide (n ≤ c)) then throw .indexError
  if s.arr.fresh then throw .infState
  pamLoop D n props (List.range s.ctrInds.length) { s with ctrFrames := s.ctrInds } orc

/-- a whole k-medoids run -/
structure Run where
  final : St
  oracle : List Nat            -- unused rest of the oracle
  trace : List PamStep         -- every step of every sweep, in order
  sweeps : List St             -- state after each sweep

def sweepsFrom (D : Table) (n : Nat) (props : Option (List Nat)) :
    Nat → St → List Nat → Except Err Run
  | 0, s, orc => .ok { final := s, oracle := orc, trace := [], sweeps := [] }
  | k+1, s, orc => do
    let (s', orc', tr) ← pamUpdate D n s props orc
    let r ← sweepsFrom D n props k s' orc'
    pure { r with trace := tr ++ r.trace, sweeps := s' :: r.sweeps }

/-- `_kmedoids_iterations`: `n_iters` sweeps with the same `proposals`; zero sweeps leave `result`
unbound. -/
def kmedoidsIterations (D : Table) (n : Nat) (nIters : Nat) (s : St) (props : Option (List Nat))
    (orc : List Nat) : Except Err Run :=
  if nIters = 0 then .error .unboundLocal else sweepsFrom D n props nIters s orc

/-- `_kmedoids_inputs_tree`, center indices: given, or inferred from `(assignments, distances)` by
`find_cluster_centers`.  A cold start passes the indices the RNG loop drew as `inds`. -/
def kmedoidsCenters (n : Nat) (inds : Option (List Nat)) (ad : Option Arr) : Except Err (List Nat) :=
  match inds, ad with
  | some ci, _ => .ok ci
  | none, some a => match findClusterCenters n a with
    | some ci => .ok ci
    | none => .error .assertion
  | none, none => .error .notModelled

/-- `_kmedoids_inputs_tree`, arrays: given, or `assign_to_nearest_center(X, X[cluster_center_inds])` -/
def startArr (D : Table) (n : Nat) (ci : List Nat) : Option Arr → Arr
  | some a => a
  | none => assignNearest D n ci

/-- arrays as above, then `assert np.all(distances[cluster_center_inds] < 0.001)` -/
def kmedoidsStart (D : Table) (n : Nat) (ci : List Nat) (ad : Option Arr) : Except Err St :=
  if ci.any (fun c => decide (n ≤ c)) then .error .indexError      -- X[cluster_center_inds] / distances[…]
  else
    let a := startArr D n ci ad
    if a.fresh = false ∧ ci.any (fun c => !decide (a.dist c < 1/1000)) then .error .assertion
    else .ok { arr := a, ctrInds := ci, ctrFrames := ci }

/-- `kmedoids.kmedoids`: input normalisation, then the sweeps -/
def kmedoids (D : Table) (n : Nat) (nIters : Nat) (inds : Option (List Nat)) (ad : Option Arr)
    (props : Option (List Nat)) (orc : List Nat) : Except Err Run := do
  if inds = some [] then throw .indexError            -- cluster_center_inds[0]
  let ci ← kmedoidsCenters n inds ad
  let s ← kmedoidsStart D n ci ad
  kmedoidsIterations D n nIters s props orc

/-- `hybrid.hybrid`: k-centers, then (if `n_iters > 0`) the sweeps on its state with random proposals -/
def hybrid (D : Table) (n : Nat) (nClusters : Option Nat) (cutoff : Rat) (init : Option (List Nat))
    (fuel : Nat) (nIters : Nat) (orc : List Nat) : Except Err Run := do
  let s ← kcenters D n nClusters cutoff init fuel
  if nIters > 0 then kmedoidsIterations D n nIters s none orc
  else pure { final := s, oracle := orc, trace := [], sweeps := [] }

end Ens.Cluster
