import Model.Basic
/-!
CPython slice semantics (`PySlice_AdjustIndices` + `range`), used wherever the code
slices a sequence.  Tied to CPython by the correspondence check `pyslice` (exhaustive
small scope) in the harness.
-/
namespace Ens

structure PySlice where
  start : Option Int
  stop  : Option Int
  step  : Option Int
  deriving Repr, DecidableEq

/-- `slice.indices(len)`; `none` = ValueError (step 0). -/
def PySlice.adjust (len : Nat) (s : PySlice) : Option (Int × Int × Int) :=
  let step := s.step.getD 1
  if step = 0 then none else
  let n : Int := len
  let clamp (v : Int) : Int :=
    if v < 0 then (let w := v + n; if w < 0 then (if step < 0 then -1 else 0) else w)
    else if v ≥ n then (if step < 0 then n - 1 else n) else v
  let start := match s.start with
    | none => if step < 0 then n - 1 else 0
    | some v => clamp v
  let stop := match s.stop with
    | none => if step < 0 then -1 else n
    | some v => clamp v
  some (start, stop, step)

/-- `range(cur, stop, step)` with fuel. -/
def rangeAux (stop step : Int) : Nat → Int → List Int
  | 0, _ => []
  | fuel+1, cur =>
    if (step > 0 ∧ cur < stop) ∨ (step < 0 ∧ cur > stop) then
      cur :: rangeAux stop step fuel (cur + step)
    else []

/-- the list of positions `range(*slice.indices(len))` -/
def PySlice.indices (len : Nat) (s : PySlice) : Option (List Nat) :=
  (s.adjust len).map fun (a, b, c) => (rangeAux b c (len + 1) a).map Int.toNat

/-- `l[s]` for a Python list / 1-D numpy array. -/
def PySlice.apply {α} [Inhabited α] (l : List α) (s : PySlice) : Option (List α) :=
  (s.indices l.length).map fun ix => ix.map fun i => l.getD i default

end Ens
