import Model.PySlice
/-!
Read side of `enspara.ra.RaggedArray` (`enspara/ra/ra.py`), function by function, as the code is.

A ragged array is the flat concatenation `_data` plus the row `lengths`; the row view `_array`
is derived (`partition_list`, or `reshape(-1, L)` on the rectangular fast path).  Cells are an
arbitrary type `α` (a multi-dimensional element is one cell).  Every numpy primitive the code
leans on is modelled with its error branch (`IndexError` on out-of-range, wrap-around of
negative positions), errors are an enum.

Stable names for other models: `RA`, `rows`, `starts`, `ofRows`, `partitionList`, `WF`.
-/
namespace Ens.Ragged

inductive Err | indexError | valueError | typeError | other
  deriving Repr, DecidableEq

structure RA (α : Type) where
  data : List α
  lengths : List Nat
  deriving Repr, DecidableEq

/-- error propagation (`Except.bind` under a name the lemmas can rewrite with) -/
def bindE {α β ε} (x : Except ε α) (f : α → Except ε β) : Except ε β :=
  match x with
  | .error e => .error e
  | .ok v => f v

/-- `Except`-valued `map` (first error wins, left to right), structurally recursive. -/
def mapE {α β ε} (f : α → Except ε β) : List α → Except ε (List β)
  | [] => .ok []
  | x :: xs => bindE (f x) fun y => bindE (mapE f xs) fun ys => .ok (y :: ys)

/-! ### numpy / Python primitives -/

/-- `np.cumsum` with a running total -/
def cumsumFrom (acc : Nat) : List Nat → List Nat
  | [] => []
  | x :: xs => (acc + x) :: cumsumFrom (acc + x) xs

/-- `starts` property L601: `np.append([0], np.cumsum(lengths)[:-1])` -/
def starts (lengths : List Nat) : List Nat := 0 :: (cumsumFrom 0 lengths).dropLast

/-- `l[i]` for one integer position: negative positions wrap once, out of range is `IndexError`. -/
def npIndex {β} (l : List β) (i : Int) : Except Err β :=
  let j : Int := if i < 0 then i + l.length else i
  if j < 0 then .error .indexError else
  match l[j.toNat]? with
  | some x => .ok x
  | none => .error .indexError

def getNat {β} (l : List β) (i : Nat) : Except Err β :=
  match l[i]? with
  | some x => .ok x
  | none => .error .indexError

/-- `l[s]` for a slice (CPython `slice.indices` + gather); step 0 is `ValueError`. -/
def npSlice {β} (l : List β) (s : PySlice) : Except Err (List β) :=
  match s.indices l.length with
  | none => .error .valueError
  | some ix => mapE (getNat l) ix

/-- `l[[i0, i1, …]]` (fancy index on the first axis) -/
def npTake {β} (l : List β) (ix : List Int) : Except Err (List β) := mapE (npIndex l) ix

/-- `range(start, stop, step)` / `np.arange(start, stop, step)` on integers, `step ≠ 0`. -/
def pyRange (start stop step : Int) : List Int := rangeAux stop step (stop - start).natAbs start

/-! ### `partition_list` L361-376 and the row view -/

/-- the loop of `partition_list`: `list[start:stop]` with a running `start` -/
def partitionAux {α} (l : List α) (start : Nat) : List Nat → List (List α)
  | [] => []
  | n :: ns => ((l.drop start).take n) :: partitionAux l (start + n) ns

/-- `partition_list`: `DataInvalid` (kind `other`) when the lengths do not add up -/
def partitionList {α} (l : List α) (lengths : List Nat) : Except Err (List (List α)) :=
  if lengths.sum ≠ l.length then .error .other else .ok (partitionAux l 0 lengths)

/-- the list of rows a ragged array stands for (the abstraction function) -/
def rows {α} (ra : RA α) : List (List α) := partitionAux ra.data 0 ra.lengths

def WF {α} (ra : RA α) : Prop := ra.lengths.sum = ra.data.length

instance {α} (ra : RA α) : Decidable (WF ra) := by unfold WF; infer_instance

/-- `data.reshape(-1, L)` as a list of rows -/
def chunks {α} (L : Nat) : Nat → List α → List (List α)
  | 0, _ => []
  | k + 1, l => l.take L :: chunks L k (l.drop L)

def reshapeRows {α} (data : List α) (L : Nat) : Except Err (List (List α)) :=
  if L = 0 then .error .valueError
  else if data.length % L ≠ 0 then .error .valueError
  else .ok (chunks L (data.length / L) data)

/-- `_array` as `__init__` L541-576 builds it.  `fast` = lengths were given as an ndarray and are
all equal (rectangular fast path: `reshape`), otherwise `partition_list`. -/
def arrayView {α} (ra : RA α) (fast : Bool) : Except Err (List (List α)) :=
  if fast then
    match ra.lengths with
    | [] => .error .indexError                  -- `lengths[0]`
    | L :: _ => reshapeRows ra.data L
  else partitionList ra.data ra.lengths

/-- constructor from nested lists / arrays, `__init__` with `lengths=None` -/
def ofRows {α} (rs : List (List α)) : RA α := ⟨rs.flatten, rs.map List.length⟩

/-- constructor from flat data plus lengths (`DataInvalid` = `other` when they do not add up;
an empty flat array leaves `_data` unset, the next access is an `AttributeError` = `other`) -/
def ofFlat {α} (data : List α) (lengths : List Nat) : Except Err (RA α) :=
  if data = [] then .error .other
  else if lengths.sum ≠ data.length then .error .other
  else .ok ⟨data, lengths⟩

/-! ### index arithmetic -/

/-- `_slice_to_list` L333-358 with `length` given.  (The `elif step < 0 and stop is None …`
branch is dead: `start`/`stop` are never `None` there.)  No clipping, no swap for negative steps. -/
def sliceToList (s : PySlice) (n : Nat) : Except Err (List Int) :=
  let start : Int := match s.start with
    | none => 0
    | some v => if v < 0 then n + v else v
  let stop : Int := match s.stop with
    | none => n
    | some v => if v < 0 then n + v else v
  let step : Int := s.step.getD 1
  if step = 0 then .error .valueError else .ok (pyRange start stop step)

/-- the `stops` array of `_get_iis_from_slices` L451-459 -/
def colStops (cs : PySlice) (lengths : List Nat) : List Int :=
  lengths.map fun (len : Nat) =>
    let st : Int := match cs.stop with
      | none => (len : Int)
      | some v => if v < 0 then (len : Int) + v else v
    if st > (len : Int) then (len : Int) else st

/-- `_get_iis_from_slices` L439-473: the (row, column) pairs in order and the new lengths. -/
def getIisFromSlices (first : List Int) (cs : PySlice) (lengths : List Nat) :
    Except Err (List (Int × Int) × List Nat) :=
  let start : Int := cs.start.getD 0
  let step : Int := cs.step.getD 1
  let stops := colStops cs lengths
  bindE (mapE (fun num => bindE (npIndex stops num) fun st =>
      if step = 0 then .error .other else .ok (num, pyRange start st step)) first) fun splits =>
    if first = [] then .error .valueError                       -- `np.concatenate([])`
    else if splits.any (fun p => p.2.isEmpty) then .error .typeError  -- float64 `[]` cast to int
    else .ok (splits.flatMap (fun p => p.2.map (fun j => (p.1, j))), splits.map (fun p => p.2.length))

/-- `_get_iis_from_list` L476-484; an empty product fails at the unpacking in `_convert_from_2d`. -/
def getIisFromList (first second : List Int) : Except Err (List (Int × Int) × List Nat) :=
  if first = [] ∨ second = [] then .error .valueError
  else .ok (first.flatMap (fun i => second.map (fun j => (i, j))), List.replicate first.length second.length)

/-- `_handle_negative_indices` + bounds check + `starts[first] + second` for one (row, column)
pair (`_convert_from_2d` L305-330 is element-wise; every failure is an `IndexError`). -/
def convertOne (lengths : List Nat) (p : Int × Int) : Except Err Nat :=
  let n : Int := lengths.length
  let i : Int := if p.1 < 0 then p.1 + n else p.1
  if i < 0 then .error .indexError else
  match lengths[i.toNat]? with
  | none => .error .indexError
  | some len =>
    let j : Int := if p.2 < 0 then p.2 + len else p.2
    if j < 0 then .error .indexError
    else if (len : Int) ≤ j then .error .indexError
    else match (starts lengths)[i.toNat]? with
      | none => .error .indexError
      | some s => .ok (s + j.toNat)

def convertFrom2d (lengths : List Nat) (pairs : List (Int × Int)) : Except Err (List Nat) :=
  mapE (convertOne lengths) pairs

/-- `_convert_from_1d` L245-258 for one flat position: last row whose start is `≤ ii`. -/
def lastLeAux (ii : Nat) : List Nat → Nat → Option Nat → Option Nat
  | [], _, acc => acc
  | s :: ss, k, acc => lastLeAux ii ss (k + 1) (if s ≤ ii then some k else acc)

/-- `np.where(starts <= ii)[0][-1]`: scan the starts, keep the last position that qualifies -/
def lastLe (ss : List Nat) (ii : Nat) : Option Nat := lastLeAux ii ss 0 none

def convertFrom1d (ss : List Nat) (ii : Nat) : Except Err (Nat × Nat) :=
  match lastLe ss ii with
  | none => .error .indexError
  | some k =>
    match ss[k]? with
    | none => .error .indexError
    | some s => .ok (k, ii - s)

def trueIdxFrom : List Bool → Nat → List Nat
  | [], _ => []
  | b :: bs, k => if b then k :: trueIdxFrom bs (k + 1) else trueIdxFrom bs (k + 1)

/-- `np.where(mask._data)[0]`: positions of the `True` entries, ascending -/
def trueIdx (l : List Bool) : List Nat := trueIdxFrom l 0

/-- `ra.where(mask)` L27-42 -/
def whereIdx (m : RA Bool) : Except Err (List (Nat × Nat)) :=
  mapE (convertFrom1d (starts m.lengths)) (trueIdx m.data)

/-! ### `__getitem__` L613-670 -/

inductive Part
  | int (i : Int)
  | slice (s : PySlice)
  | list (l : List Int) (isArr : Bool)     -- `isArr`: an integer ndarray (matters only when empty)
  deriving Repr, DecidableEq

inductive Index
  | one (p : Part)
  | two (r c : Part)
  | mask (m : RA Bool)
  deriving Repr, DecidableEq

inductive Res (α : Type)
  | arr (l : List α)        -- a numpy array of cells
  | ra (r : RA α)           -- a new RaggedArray
  deriving Repr, DecidableEq

/-- `self._data[_convert_from_2d(iis)]` -/
def gather {α} (ra : RA α) (pairs : List (Int × Int)) : Except Err (List α) :=
  bindE (convertFrom2d ra.lengths pairs) fun flat => mapE (getNat ra.data) flat

/-- L661-664: gather and wrap as `RaggedArray(sliced_data, lengths=new_lengths)` -/
def finish {α} (ra : RA α) (sel : Except Err (List (Int × Int) × List Nat)) : Except Err (Res α) :=
  bindE sel fun pl => bindE (gather ra pl.1) fun d => bindE (ofFlat d pl.2) fun r => .ok (Res.ra r)

/-- the index arrays of a tuple without slices; `true` = integer dtype (an empty Python list
becomes a float64 array) -/
def idxArr : Part → List Int × Bool
  | .int i => ([i], true)
  | .list l isArr => (l, isArr || !l.isEmpty)
  | .slice _ => ([], false)

/-- tuple without slices, L655-658 (`_convert_from_2d` incl. its broadcasting) -/
def paired {α} (ra : RA α) (r c : Part) : Except Err (Res α) :=
  let (f, fInt) := idxArr r
  let (s, sInt) := idxArr c
  match f, s with
  | [], [] => if fInt && sInt then .ok (.arr []) else .error .indexError
  | [], [j] =>
      if !fInt then .error .indexError
      else if j < 0 then .error .valueError      -- `second += lengths[first]`, shapes (1,) and (0,)
      else .ok (.arr [])
  | [], _ => .error .other
  | [i], [] =>
      if !sInt then .error .indexError
      else
        let n : Int := ra.lengths.length
        let i' : Int := if i < 0 then i + n else i
        if i' < 0 ∨ i' ≥ n then .error .indexError else .ok (.arr [])
  | _, [] => .error .other
  | _, _ =>
    let pairs : Option (List (Int × Int)) :=
      if f.length > 1 ∧ s.length = 1 then some (f.map fun i => (i, s.headD 0))
      else if f.length = s.length then some (f.zip s)
      else if f.length = 1 then some (s.map fun j => (f.headD 0, j))
      else none
    match pairs with
    | none => .error .other
    | some ps => bindE (gather ra ps) fun d => .ok (Res.arr d)

def getItem {α} (ra : RA α) (fast : Bool) : Index → Except Err (Res α)
  | .one (.int i) =>                                   -- L615-616
    bindE (arrayView ra fast) fun v => bindE (npIndex v i) fun row => .ok (Res.arr row)
  | .one (.slice s) =>                                 -- L618-619
    bindE (arrayView ra fast) fun v => bindE (npSlice v s) fun sel => .ok (Res.ra (ofRows sel))
  | .one (.list l _) =>
    bindE (arrayView ra fast) fun v => bindE (npTake v l) fun sel => .ok (Res.ra (ofRows sel))
  | .two (.slice rs) c =>                              -- L624-639
    bindE (sliceToList rs ra.lengths.length) fun first =>
      match c with
      | .slice cs => finish ra (getIisFromSlices first cs ra.lengths)
      | .int j => finish ra (getIisFromList first [j])
      | .list l _ => finish ra (getIisFromList first l)
  | .two (.int i) (.slice cs) =>                       -- L643-644
    bindE (arrayView ra fast) fun v => bindE (npIndex v i) fun row =>
      bindE (npSlice row cs) fun sel => .ok (Res.arr sel)
  | .two (.list l _) (.slice cs) =>                    -- L647-649
    finish ra (getIisFromSlices l cs ra.lengths)
  | .two r c => paired ra r c                          -- L655-658
  | .mask m =>                                         -- L668-670
    bindE (whereIdx m) fun ps =>
      paired ra (.list (ps.map fun p => (p.1 : Int)) false) (.list (ps.map fun p => (p.2 : Int)) false)

/-! ### attributes, flatten, iteration -/

/-- `shape` L582-594 without the cell dimensions: `(len(lengths), L or None)` -/
def shape {α} (ra : RA α) : Except Err (Nat × Option Nat) :=
  match ra.lengths with
  | [] => .error .indexError
  | L :: rest => .ok (ra.lengths.length, if rest.all (· == L) then some L else none)

/-- `size` L834-836 in cells -/
def size {α} (ra : RA α) : Nat := ra.data.length

/-- `flatten` L863-864 -/
def flatten {α} (ra : RA α) : List α := ra.data

/-- `len(ra)` L605-606 -/
def len {α} (ra : RA α) (fast : Bool) : Except Err Nat :=
  bindE (arrayView ra fast) fun v => .ok v.length

/-- iteration: the class has no `__iter__`, Python calls `__getitem__(0), (1), …` until `IndexError` -/
def iterAux {α} (v : List (List α)) : Nat → Nat → List (List α)
  | 0, _ => []
  | fuel + 1, i =>
    match npIndex v (i : Int) with
    | .error _ => []
    | .ok r => r :: iterAux v fuel (i + 1)

def iter {α} (ra : RA α) (fast : Bool) : Except Err (List (List α)) :=
  bindE (arrayView ra fast) fun v => .ok (iterAux v (v.length + 1) 0)

/-! ### the repaired arithmetic

Second variant of the same functions, for the tree with the proposed repair of `ra.py` applied
(`_slice_to_list` and `_get_iis_from_slices` use `slice.indices(len)`, empty selections are built with
integer dtype, `__init__` keeps an empty `_data` and reshapes to `(n, L)`).  Which variant the staged
code follows is established by the correspondence check (the harness probes a few reads, then
compares every case with the variant it announced). -/

/-- `_slice_to_list` after the repair: `range(*slice.indices(length))` -/
def sliceToListF (s : PySlice) (n : Nat) : Except Err (List Int) :=
  match s.indices n with
  | none => .error .valueError
  | some ix => .ok (ix.map Int.ofNat)

/-- one row of `_get_iis_from_slices` after the repair: `np.arange(*slice.indices(lengths[num]))` -/
def colRangeF (cs : PySlice) (lengths : List Nat) (num : Int) : Except Err (Int × List Int) :=
  bindE (npIndex lengths num) fun len =>
    match cs.indices len with
    | none => .error .valueError
    | some cix => .ok (num, cix.map Int.ofNat)

/-- `_get_iis_from_slices` after the repair (`np.repeat`, never-empty `concatenate`) -/
def getIisFromSlicesF (first : List Int) (cs : PySlice) (lengths : List Nat) :
    Except Err (List (Int × Int) × List Nat) :=
  bindE (mapE (colRangeF cs lengths) first) fun splits =>
    .ok (splits.flatMap (fun p => p.2.map (fun j => (p.1, j))), splits.map (fun p => p.2.length))

/-- `_get_iis_from_list` after the repair (`dtype=int`, `reshape(-1, 2)`): never fails -/
def getIisFromListF (first second : List Int) : List (Int × Int) × List Nat :=
  (first.flatMap (fun i => second.map (fun j => (i, j))), List.replicate first.length second.length)

/-- `RaggedArray(flat, lengths=…)` after the repair: an empty flat array is kept -/
def ofFlatF {α} (data : List α) (lengths : List Nat) : Except Err (RA α) :=
  if lengths.sum ≠ data.length then .error .other else .ok ⟨data, lengths⟩

def finishF {α} (ra : RA α) (sel : Except Err (List (Int × Int) × List Nat)) : Except Err (Res α) :=
  bindE sel fun pl => bindE (gather ra pl.1) fun d => bindE (ofFlatF d pl.2) fun r => .ok (Res.ra r)

/-- tuple without slices after the repair: `second` is broadcast whenever `first.size != 1`, empty
index arrays are cast to int; a single row with an empty column list is still bounds-checked -/
def pairedCoreF {α} (ra : RA α) (f s0 : List Int) : Except Err (Res α) :=
  let s := if f.length ≠ 1 ∧ s0.length = 1 then List.replicate f.length (s0.headD 0) else s0
  if f.length = s.length then bindE (gather ra (f.zip s)) fun d => .ok (Res.arr d)
  else if f.length = 1 then
    if s = [] then bindE (npIndex ra.lengths (f.headD 0)) fun _ => .ok (Res.arr [])
    else bindE (gather ra (s.map fun j => (f.headD 0, j))) fun d => .ok (Res.arr d)
  else if f = [] then .error .valueError
  else .error .other

def pairedF {α} (ra : RA α) (r c : Part) : Except Err (Res α) :=
  pairedCoreF ra (idxArr r).1 (idxArr c).1

/-- `_array` after the repair: `reshape((len(lengths), L) + cell shape)` on the fast path, otherwise
`_row_views(data, lengths)` = one view per row of `partition_list` (a 1-d object array; same rows) -/
def arrayViewF {α} (ra : RA α) (fast : Bool) : Except Err (List (List α)) :=
  if fast then
    match ra.lengths with
    | [] => partitionList ra.data ra.lengths
    | L :: _ =>
      if ra.lengths.length * L ≠ ra.data.length then .error .valueError
      else .ok (chunks L ra.lengths.length ra.data)
  else partitionList ra.data ra.lengths

def getItemF {α} (ra : RA α) (fast : Bool) : Index → Except Err (Res α)
  | .one (.int i) =>
    bindE (arrayViewF ra fast) fun v => bindE (npIndex v i) fun row => .ok (Res.arr row)
  | .one (.slice s) =>
    bindE (arrayViewF ra fast) fun v => bindE (npSlice v s) fun sel => .ok (Res.ra (ofRows sel))
  | .one (.list l _) =>
    bindE (arrayViewF ra fast) fun v => bindE (npTake v l) fun sel => .ok (Res.ra (ofRows sel))
  | .two (.slice rs) c =>
    bindE (sliceToListF rs ra.lengths.length) fun first =>
      match c with
      | .slice cs => finishF ra (getIisFromSlicesF first cs ra.lengths)
      | .int j => finishF ra (.ok (getIisFromListF first [j]))
      | .list l _ => finishF ra (.ok (getIisFromListF first l))
  | .two (.int i) (.slice cs) =>
    bindE (arrayViewF ra fast) fun v => bindE (npIndex v i) fun row =>
      bindE (npSlice row cs) fun sel => .ok (Res.arr sel)
  | .two (.list l _) (.slice cs) =>
    finishF ra (getIisFromSlicesF l cs ra.lengths)
  | .two r c => pairedF ra r c
  | .mask m =>
    bindE (whereIdx m) fun ps =>
      pairedF ra (.list (ps.map fun p => (p.1 : Int)) false) (.list (ps.map fun p => (p.2 : Int)) false)

def lenF {α} (ra : RA α) (fast : Bool) : Except Err Nat :=
  bindE (arrayViewF ra fast) fun v => .ok v.length

def iterF {α} (ra : RA α) (fast : Bool) : Except Err (List (List α)) :=
  bindE (arrayViewF ra fast) fun v => .ok (iterAux v (v.length + 1) 0)

/-- the model of the staged code: `fixed = false` the tree as found, `true` with the repair -/
def getItemV {α} (fixed : Bool) (ra : RA α) (fast : Bool) (idx : Index) : Except Err (Res α) :=
  if fixed then getItemF ra fast idx else getItem ra fast idx

/-! ### the specification: the same reads on a plain list of rows -/

inductive SRes (α : Type)
  | arr (l : List α)
  | rows (r : List (List α))
  deriving Repr, DecidableEq

/-- what a returned value stands for -/
def Res.abs {α} : Res α → SRes α
  | .arr l => .arr l
  | .ra r => .rows (rows r)

/-- column selection on one row (a 1-D numpy array) -/
def colSel {α} (row : List α) : Part → Except Err (List α)
  | .int j => bindE (npIndex row j) fun x => .ok [x]
  | .slice s => npSlice row s
  | .list l _ => npTake row l

def cell {α} (rs : List (List α)) (p : Int × Int) : Except Err α :=
  bindE (npIndex rs p.1) fun row => npIndex row p.2

def maskRow {α} (row : List α) (m : List Bool) : List α :=
  (row.zip m).filterMap fun p => if p.2 then some p.1 else none

def specGet {α} (rs : List (List α)) : Index → Except Err (SRes α)
  | .one (.int i) => bindE (npIndex rs i) fun row => .ok (SRes.arr row)
  | .one (.slice s) => bindE (npSlice rs s) fun sel => .ok (SRes.rows sel)
  | .one (.list l _) => bindE (npTake rs l) fun sel => .ok (SRes.rows sel)
  | .two (.int i) (.int j) => bindE (cell rs (i, j)) fun x => .ok (SRes.arr [x])
  | .two (.int i) c => bindE (npIndex rs i) fun row => bindE (colSel row c) fun sel => .ok (SRes.arr sel)
  | .two (.slice s) c =>
    bindE (npSlice rs s) fun sel => bindE (mapE (fun row => colSel row c) sel) fun out => .ok (SRes.rows out)
  | .two (.list l _) (.int j) => bindE (mapE (fun i => cell rs (i, j)) l) fun out => .ok (SRes.arr out)
  | .two (.list l _) (.slice cs) =>
    bindE (mapE (fun i => bindE (npIndex rs i) fun row => npSlice row cs) l) fun out => .ok (SRes.rows out)
  | .two (.list l _) (.list l2 _) =>
    -- paired lists; a one-element list on either side is broadcast, as numpy does
    if l.length = l2.length then bindE (mapE (cell rs) (l.zip l2)) fun out => .ok (SRes.arr out)
    else if l2.length = 1 then
      bindE (mapE (fun i => cell rs (i, l2.headD 0)) l) fun out => .ok (SRes.arr out)
    else if l.length = 1 ∧ l2 ≠ [] then
      bindE (mapE (fun j => cell rs (l.headD 0, j)) l2) fun out => .ok (SRes.arr out)
    else .error .other
  | .mask m => .ok (.arr ((rs.zip (rows m)).map (fun p => maskRow p.1 p.2)).flatten)

def specWhereFrom : List (List Bool) → Nat → List (Nat × Nat)
  | [], _ => []
  | r :: rs, i => (trueIdx r).map (fun j => (i, j)) ++ specWhereFrom rs (i + 1)

/-- `np.where` row by row: (row, column) of every `True`, row-major -/
def specWhere (m : List (List Bool)) : List (Nat × Nat) := specWhereFrom m 0

end Ens.Ragged
