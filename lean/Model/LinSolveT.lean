import Model.Basic
/-!
Exact linear solves over `Rat` for the TPT models (C07/C08): Gauss–Jordan elimination with
partial "first non-zero" pivoting on the augmented matrix `[A | B]`, followed by a
**residual certificate**: the candidate `X` is returned only when `A X = B` holds exactly
(entry by entry, over `Rat`).  Nothing about the elimination itself is trusted or proved:
soundness (`Proofs/C07LinSolve.lean: solve_sound`) follows from the certificate alone.

The numerical solvers of the real code (`scipy.sparse.linalg.spsolve`, `numpy.linalg.solve`,
`numpy.linalg.inv`) are *not* modelled by this file: in the theorems they are parameters with
the contract `IsSolution`.  This solver only produces exact reference values for the
correspondence check.
-/
namespace Ens.LinSolveT

/-- `A X = B` on the `n × n` / `n × m` blocks (matrices are index functions). -/
def IsSolution (n m : Nat) (A X B : Nat → Nat → Rat) : Prop :=
  ∀ i, i < n → ∀ k, k < m → sumTo n (fun j => A i j * X j k) = B i k

/-- decidable form of `IsSolution` -/
def residualOk (n m : Nat) (A X B : Nat → Nat → Rat) : Bool :=
  (List.range n).all fun i => (List.range m).all fun k =>
    decide (sumTo n (fun j => A i j * X j k) = B i k)

abbrev Aug := Array (Array Rat)

def entry (a : Aug) (i j : Nat) : Rat := (a.getD i #[]).getD j 0

/-- one Gauss–Jordan column step: pivot = first row `r ≥ col` with a non-zero entry in `col`;
`none` when the column has no pivot (singular). -/
def step (n : Nat) (a : Aug) (col : Nat) : Option Aug :=
  match (List.range' col (n - col)).find? (fun r => entry a r col ≠ 0) with
  | none => none
  | some p =>
    let rp := a.getD p #[]
    let rc := a.getD col #[]
    let piv := rp.getD col 0
    let rp' := rp.map (· / piv)
    let a := (a.setIfInBounds p rc).setIfInBounds col rp'
    some (a.mapIdx fun i row =>
      if i = col then row else
        let f := row.getD col 0
        if f = 0 then row else Array.zipWith (fun x y => x - f * y) row rp')

/-- Gauss–Jordan candidate (unchecked). -/
def gaussJordan (n m : Nat) (A B : Nat → Nat → Rat) : Option (Nat → Nat → Rat) :=
  let aug : Aug := Array.ofFn (n := n) fun i =>
    Array.ofFn (n := n + m) fun j => if j.val < n then A i.val j.val else B i.val (j.val - n)
  match (List.range n).foldlM (step n) aug with
  | none => none
  | some a => some fun i k => entry a i (n + k)

/-- certified solve: `some X` only when `A X = B` exactly. -/
def solve (n m : Nat) (A B : Nat → Nat → Rat) : Option (Nat → Nat → Rat) :=
  match gaussJordan n m A B with
  | none => none
  | some X => if residualOk n m A X B then some X else none

end Ens.LinSolveT
