import Model.Mpi
import Model.Cluster
/-!
Model of the distributed (MPI) branches of `enspara/cluster/kmedoids.py`:
`_kmedoids_pam_update` (medoids as `(rank, index)` pairs, `mpi.ops.distribute_frame`,
`_propose_new_center_amongst` with `mpi.ops.randind`, cost `_msq` = `mpi.ops.striped_array_mean`
of the squared local distances), `_kmedoids_iterations` and the warm-start front of `kmedoids`.

Conventions (those of `Model/Mpi.lean`)
* a `Layout` says which frames a rank holds: rank `r` holds `lay.m r` frames, its `i`-th local
  frame is global frame `lay.X r i` (the harness stores the global frame id in the data, so a
  frame *is* its id; a broadcast frame is the id of the owner's frame);
* the metric is a table `D f c` on global frame ids; rank `r` sees `locD lay D r i c =
  D (lay.X r i) c` = entry `i` of `metric(X_local, frame c)`;
* every rank runs the *same* Python code on its local arrays: the per-rank computation is the
  serial model of `Model/Cluster.lean` (`pamCandidate`, `assignNearest`) instantiated with the
  rank's local table and local length;
* a collective (`Bcast`, `allreduce`, `allgather`) is a function of all ranks' contributions and
  returns the same value on every rank.  Therefore `medoid_inds`, `medoid_coords`, both costs and
  the accept/reject decision are single values of the model, not per-rank values (that the real
  ranks agree is checked on the implementation by the harness);
* an exception on any rank is an error of the whole call.
-/
namespace Ens.MpiPam
open Ens Ens.Cluster

inductive Err
  | mpi (e : Mpi.Err)   -- exception classes shared with `Model/Mpi.lean`
  | oracleExhausted     -- the list of recorded random draws was too short
  | infState            -- PAM asked to run on an all-`inf` local array (not reachable from `kmedoids`)
  | unboundLocal        -- `return result` after zero sweeps
  deriving Repr, DecidableEq

/-- rank `r`'s view of the metric: `metric(X_local, y)[i]` -/
def locD (lay : Mpi.Layout) (D : Table) (r : Nat) : Table := fun i c => D (lay.X r i) c

/-- the distributed clustering state.  `arrs[r]` = rank `r`'s `(distances, assignments)`;
    `ctrs` = `medoid_inds` as `(owner rank, local index)` pairs; `coords` = `medoid_coords`, the
    broadcast medoid frames (frame ids). -/
structure PState where
  arrs : List Arr
  ctrs : List (Nat × Nat)
  coords : List Nat
  deriving DecidableEq, Repr

/-- rank `r`'s local arrays (ranks `≥ w` are never consulted) -/
def PState.arr (s : PState) (r : Nat) : Arr := s.arrs.getD r { fresh := true, distA := #[], assignA := #[] }

/-- the data array of rank `r` (frame ids) -/
def localData (lay : Mpi.Layout) (r : Nat) : List Nat := tabulate (lay.m r) (lay.X r)

/-- `mpi.ops.distribute_frame(data=X, owner_rank=p[0], world_index=p[1])` on every rank -/
def distribute (lay : Mpi.Layout) (p : Nat × Nat) : Except Err Nat :=
  match Mpi.distributeFrame lay.w (localData lay) p.2 p.1 with
  | .ok y => .ok y
  | .error e => .error (.mpi e)

/-- what rank `r` computes for center `cid` and the broadcast proposal frame `y`
    (kmedoids.py L638-671 on the rank's local arrays): exactly the serial candidate of
    `Model/Cluster.lean` with the rank's table, length, arrays and `medoid_coords` -/
def rankCandidate (lay : Mpi.Layout) (D : Table) (s : PState) (r cid y : Nat) : Arr :=
  (pamCandidate (locD lay D r) (lay.m r)
    { arr := s.arr r, ctrInds := s.coords, ctrFrames := s.coords } cid y).arr

/-- `_msq(distances)` = `striped_array_mean(np.square(distances))`: allreduce of the local sums
    of squares and of the local lengths (`nan` when no rank holds a frame) -/
def mpiCost (lay : Mpi.Layout) (arr : Nat → Arr) : Except Err Rat :=
  match Mpi.stripedMean lay.w (fun r => tabulate (lay.m r) (fun i => (arr r).dist i * (arr r).dist i)) with
  | .ok c => .ok c
  | .error e => .error (.mpi e)

/-- what happened in one distributed PAM step -/
structure MStep where
  cid : Nat
  p : Nat × Nat      -- `proposed_center_ind` = (owner rank, local index)
  y : Nat            -- the broadcast proposal frame
  oldCost : Rat
  newCost : Rat
  acc : Bool         -- the (common) accept decision
  after : PState

/-- one distributed PAM step for center `cid` and proposal `p` (kmedoids.py L622-695):
    `distribute_frame` of the proposal, the three-mask update on every rank, the two asserts on
    every rank, the two global costs, one common accept/reject decision. -/
def mpiPamStep (lay : Mpi.Layout) (D : Table) (s : PState) (cid : Nat) (p : Nat × Nat) :
    Except Err MStep :=
  match distribute lay p with
  | .error e => .error e
  | .ok y =>
    let cand : PState :=
      { arrs := tabulate lay.w (fun r => rankCandidate lay D s r cid y)
        ctrs := s.ctrs.set cid p
        coords := s.coords.set cid y }
    if (List.range lay.w).any (fun r => (List.range (lay.m r)).any fun i =>
        decide ((cand.arr r).assign i < 0) || decide ((cand.arr r).dist i < 0)) then
      .error (.mpi .assertion)
    else
      match mpiCost lay s.arr, mpiCost lay cand.arr with
      | .error e, _ => .error e
      | .ok _, .error e => .error e
      | .ok oldC, .ok newC =>
        let acc := decide (newC < oldC)
        .ok { cid := cid, p := p, y := y, oldCost := oldC, newCost := newC, acc := acc
              after := if acc then cand else s }

/-- local members of cluster `cid` on rank `r`: `np.where(assignments == cid)[0]` -/
def members (lay : Mpi.Layout) (s : PState) (cid r : Nat) : List Nat :=
  (List.range (lay.m r)).filter fun i => decide ((s.arr r).assign i = (cid : Nat))

/-- the proposal for center `cid`: `proposals[cid]`, or `_propose_new_center_amongst(…,
    mpi_mode=True)`: `randind(state_inds)` (allgather of the local member counts, rank 0 draws
    `randint(total)` — the oracle value, reduced mod `total` —, bcast), then the owner
    broadcasts `state_inds[idx]`. -/
def mpiPropose (lay : Mpi.Layout) (s : PState) (cid : Nat) (props : Option (List (Nat × Nat)))
    (orc : List Nat) : Except Err ((Nat × Nat) × List Nat) :=
  match props with
  | some ps =>
    match ps[cid]? with
    | none => .error (.mpi .indexError)
    | some p => .ok (p, orc)
  | none =>
    let lens := (List.range lay.w).map fun r => (members lay s cid r).length
    if lens.sum < 1 then .error (.mpi .dataInvalid) else
    match orc with
    | [] => .error .oracleExhausted
    | o :: orc' =>
      match Mpi.randind lens (o % lens.sum) with
      | .error e => .error (.mpi e)
      | .ok (r, idx) =>
        match (members lay s cid r)[idx]? with
        | none => .error (.mpi .indexError)
        | some i => .ok ((r, i), orc')

/-- `for cid in range(len(medoid_inds))` -/
def mpiPamLoop (lay : Mpi.Layout) (D : Table) (props : Option (List (Nat × Nat))) :
    List Nat → PState → List Nat → Except Err (PState × List Nat × List MStep)
  | [], s, orc => .ok (s, orc, [])
  | cid :: rest, s, orc =>
    match mpiPropose lay s cid props orc with
    | .error e => .error e
    | .ok (p, orc') =>
      match mpiPamStep lay D s cid p with
      | .error e => .error e
      | .ok step =>
        match mpiPamLoop lay D props rest step.after orc' with
        | .error e => .error e
        | .ok (s', orc'', tr) => .ok (s', orc'', step :: tr)

/-- `medoid_coords`: for every medoid `assert rank < mpi.size()` then `distribute_frame` -/
def medoidCoords (lay : Mpi.Layout) (ctrs : List (Nat × Nat)) : Except Err (List Nat) :=
  ctrs.mapM fun p => if lay.w ≤ p.1 then .error (.mpi .assertion) else distribute lay p

/-- `len(proposals) != len(medoid_inds)` when proposals are given -/
def propsLenBad (props : Option (List (Nat × Nat))) (k : Nat) : Bool :=
  match props with
  | some ps => decide (ps.length ≠ k)
  | none => false

/-- `_kmedoids_pam_update` in MPI mode (`medoid_inds` are pairs): one sweep.  Guards in source
    order: `assignments[0]` on every rank (IndexError on a rank without frames), the two length
    asserts, the proposals length, `proposals[0]` / `medoid_inds[0]` of empty lists, the
    broadcast of the current medoid frames. -/
def mpiPamUpdate (lay : Mpi.Layout) (D : Table) (s : PState) (props : Option (List (Nat × Nat)))
    (orc : List Nat) : Except Err (PState × List Nat × List MStep) :=
  if (List.range lay.w).any (fun r => decide (lay.m r = 0)) then .error (.mpi .indexError) else
  if (List.range lay.w).any (fun r => decide ((s.arr r).assignA.size ≠ lay.m r) ||
      decide ((s.arr r).distA.size ≠ lay.m r)) then .error (.mpi .assertion) else
  if propsLenBad props s.ctrs.length then .error (.mpi .dataInvalid) else
  if s.ctrs = [] then .error (.mpi .indexError) else
  match medoidCoords lay s.ctrs with
  | .error e => .error e
  | .ok coords =>
    if (List.range lay.w).any (fun r => (s.arr r).fresh) then .error .infState else
    mpiPamLoop lay D props (List.range s.ctrs.length) { s with coords := coords } orc

/-- a whole distributed k-medoids run -/
structure MRun where
  final : PState
  oracle : List Nat
  trace : List MStep
  sweeps : List PState

def mpiSweepsFrom (lay : Mpi.Layout) (D : Table) (props : Option (List (Nat × Nat))) :
    Nat → PState → List Nat → Except Err MRun
  | 0, s, orc => .ok { final := s, oracle := orc, trace := [], sweeps := [] }
  | k+1, s, orc =>
    match mpiPamUpdate lay D s props orc with
    | .error e => .error e
    | .ok (s', orc', tr) =>
      match mpiSweepsFrom lay D props k s' orc' with
      | .error e => .error e
      | .ok r => .ok { r with trace := tr ++ r.trace, sweeps := s' :: r.sweeps }

/-- `_kmedoids_iterations` in MPI mode -/
def mpiKmedoidsIterations (lay : Mpi.Layout) (D : Table) (nIters : Nat) (s : PState)
    (props : Option (List (Nat × Nat))) (orc : List Nat) : Except Err MRun :=
  if nIters = 0 then .error .unboundLocal else mpiSweepsFrom lay D props nIters s orc

/-- the warm-start centers of `kmedoids`: `[(trajectory, frame), …]` or flat global frame ids;
    `cluster_center_inds[0]` of an empty list is an IndexError; both forms go through
    `ctr_ids_mpi` (kmedoids.py L156-160, L273-275, L365-408) -/
def warmCenters (w : Nat) (L : List Nat) : List (Nat × Nat) ⊕ List Nat → Except Mpi.Err (List (Nat × Nat))
  | .inl [] => .error .indexError
  | .inr [] => .error .indexError
  | .inl ps => Mpi.kmedoidsInputsMpi w L (some ps)
  | .inr cs => Mpi.ctrIdsMpiFlat w L cs

/-- `kmedoids` under MPI, warm start (kmedoids.py L176-186, L273-275): the centers are
    converted by `ctr_ids_mpi`; every rank asserts that its own centers have distance
    `< 0.001`; then the sweeps.  (The cold start raises, see `Mpi.kmedoidsInputsMpi`.  This is
    the `mpi.size() > 1` branch: with a single rank `kmedoids` runs the serial branch of
    `Model/Cluster.lean`, while `_kmedoids_pam_update` called with pair medoids — the functions
    above — works for every world size including 1.) -/
def mpiKmedoids (w : Nat) (L : List Nat) (D : Table) (nIters : Nat) (arrs : List Arr)
    (centers : List (Nat × Nat) ⊕ List Nat) (props : Option (List (Nat × Nat))) (orc : List Nat) :
    Except Err MRun :=
  match warmCenters w L centers with
  | .error e => .error (.mpi e)
  | .ok ctrs =>
    let s : PState := { arrs := arrs, ctrs := ctrs, coords := [] }
    -- `distances[local_ctr_inds]` (IndexError), then the assert (`inf < 0.001` is false)
    if ctrs.any (fun p => decide ((s.arr p.1).distA.size ≤ p.2)) then .error (.mpi .indexError)
    else if ctrs.any (fun p => (s.arr p.1).fresh || !decide ((s.arr p.1).dist p.2 < 1/1000)) then
      .error (.mpi .assertion)
    else mpiKmedoidsIterations (Mpi.stripeLayout w L) D nIters s props orc

/-- the library's reassembly of a distributed result: `assemble_striped_ragged_array` of the
    local distances and labels, `convert_local_indices` of the medoid pairs -/
def reassemble (w : Nat) (L : List Nat) (s : PState) : Except Err St :=
  match Mpi.assembleStripedRagged w L (fun r => (s.arr r).distA.toList),
        Mpi.assembleStripedRagged w L (fun r => (s.arr r).assignA.toList),
        Mpi.convertLocalIndices w L s.ctrs with
  | .ok d, .ok a, .ok c =>
    .ok { arr := { fresh := false, distA := d.toArray, assignA := a.toArray }, ctrInds := c, ctrFrames := s.coords }
  | .error e, _, _ => .error (.mpi e)
  | _, .error e, _ => .error (.mpi e)
  | _, _, .error e => .error (.mpi e)

/-- rank-by-rank view of a serial state: what the harness hands to the ranks -/
def scatter (lay : Mpi.Layout) (ss : St) (ctrs : List (Nat × Nat)) : PState :=
  { arrs := tabulate lay.w fun r =>
      Arr.tab (lay.m r) ss.arr.fresh (fun i => ss.arr.dist (lay.X r i)) (fun i => ss.arr.assign (lay.X r i))
    ctrs := ctrs
    coords := ss.ctrFrames }

end Ens.MpiPam
