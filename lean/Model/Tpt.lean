import Model.Basic
import Model.LinSolveT
/-!
Model of `enspara/tpt/core.py` (`_I_m_Q`, `committors`, `mfpts`) and `enspara/tpt/tpt.py`
(`reactive_fluxes`, `net_fluxes`, `reactive_populations`, `_get_data_from_tprob`).

Matrices are index functions `Nat → Nat → Rat` with an explicit size `n`; state sets are
`List Nat` in the order the caller gave them (the code turns them into 1-D integer arrays).
Every assignment statement of the source is one definition here, applied in source order.

The numerical solvers are NOT modelled: in the "…From" functions the solver output (`B`, `t`,
`Z`, and the stationary vector `π` of `eq_probs`) is a parameter; the theorems put the
contract `IsSolution` on it.  The `Except`-valued functions at the end plug in the exact,
certificate-checked rational solver `LinSolveT.solve` to obtain reference values for the
correspondence check (a real solver satisfies its contract only up to rounding, which is
what the correspondence tolerance is for).
-/
namespace Ens.Tpt
open Ens.LinSolveT

abbrev Mat := Nat → Nat → Rat
abbrev Vec := Nat → Rat

/-! ### `_I_m_Q` (core.py L25-37) -/

/-- `np.eye(n_states) - tprob` -/
def eyeMinus (T : Mat) : Mat := fun i j => (if i = j then 1 else 0) - T i j
/-- `M[:, S] = 0.0` -/
def zeroCols (M : Mat) (S : List Nat) : Mat := fun i j => if j ∈ S then 0 else M i j
/-- `M[S, :] = 0.0` -/
def zeroRows (M : Mat) (S : List Nat) : Mat := fun i j => if i ∈ S then 0 else M i j
/-- `M[S, S] = 1.0` (paired fancy indexing: the entries `(s, s)`, `s ∈ S`) -/
def oneDiag (M : Mat) (S : List Nat) : Mat := fun i j => if i = j ∧ i ∈ S then 1 else M i j

def ImQ (T : Mat) (absorbing : List Nat) : Mat :=
  oneDiag (zeroRows (zeroCols (eyeMinus T) absorbing) absorbing) absorbing

/-! ### `committors` (core.py L72-102) -/

/-- `R = tprob[:, sinks]` : `n × |sinks|`, column `k` is column `sinks[k]` of `T`.
(`k` ranges over `0 … sinks.length-1`; outside that range the value is irrelevant and never read.) -/
def pickCols (T : Mat) (sinks : List Nat) : Mat := fun i k => T i (sinks.getD k 0)
/-- `R[S] = v` : whole rows -/
def setRows (M : Mat) (S : List Nat) (v : Rat) : Mat := fun i k => if i ∈ S then v else M i k

/-- `R = tprob[:, sinks]; R[sinks] = 1.0; R[sources] = 0.0` — in this order, so a state listed
both as source and sink ends up 0.  Note that `R[sinks] = 1.0` fills the entire sink *rows*:
with several sinks every sink row is all ones across all sink columns. -/
def Rmat (T : Mat) (sources sinks : List Nat) : Mat :=
  setRows (setRows (pickCols T sinks) sinks 1) sources 0

/-- `committors = B.reshape(n, |sinks|).sum(axis=1)` -/
def rowSums (B : Mat) (m : Nat) : Vec := fun i => sumTo m (fun k => B i k)

/-- `… ; committors[sinks] = 1.0` -/
def committorsFrom (B : Mat) (sinks : List Nat) : Vec :=
  fun i => if i ∈ sinks then 1 else rowSums B sinks.length i

/-- contract of `spsolve(I_m_Q, R)` in `committors` -/
def CommittorSolve (n : Nat) (T : Mat) (sources sinks : List Nat) (B : Mat) : Prop :=
  IsSolution n sinks.length (ImQ T (sources ++ sinks)) B (Rmat T sources sinks)

/-! ### `mfpts` (core.py L124-155) -/

/-- `c = np.ones(n); c[sinks] = 0` (as an `n × 1` right-hand side) -/
def cVec (sinks : List Nat) : Mat := fun i _ => if i ∈ sinks then 0 else 1

/-- contract of `np.linalg.solve(I_m_Q, c)` -/
def MfptSolve (n : Nat) (T : Mat) (sinks : List Nat) (t : Vec) : Prop :=
  IsSolution n 1 (ImQ T sinks) (fun i _ => t i) (cVec sinks)

/-- `mfpts = lagtime * solve(I_m_Q, c)` -/
def mfptSinksFrom (lag : Rat) (t : Vec) : Vec := fun i => lag * t i

/-- `W = np.array([populations] * n)` -/
def Wmat (π : Vec) : Mat := fun _ j => π j
/-- `np.eye(n) - tprob + W` -/
def fundA (T : Mat) (π : Vec) : Mat := fun i j => eyeMinus T i j + Wmat π i j
/-- identity (right-hand side of the inverse contract) -/
def eye : Mat := fun i j => if i = j then 1 else 0

/-- contract of `np.linalg.inv` as used by the theorems: `(I − T + W) Z = 1`.
(`inv` also gives `Z (I − T + W) = 1`; the algebra only needs this side.) -/
def FundInv (n : Nat) (T : Mat) (π : Vec) (Z : Mat) : Prop :=
  IsSolution n n (fundA T π) Z eye

/-- `mfpts = lagtime * (np.diag(Z) - Z) / W` : entry `(i,j)` is `lag (Z_jj − Z_ij) / π_j`
(`np.diag(Z) - Z` broadcasts the diagonal along rows). -/
def mfptAll (lag : Rat) (Z : Mat) (π : Vec) : Mat :=
  fun i j => lag * (Z j j - Z i j) / Wmat π i j

/-- contract of `eq_probs`: a stationary row vector normalised to sum 1 -/
def Stationary (n : Nat) (T : Mat) (π : Vec) : Prop :=
  (∀ j, j < n → sumTo n (fun i => π i * T i j) = π j) ∧ sumTo n π = 1

/-- (specification vocabulary, not code) the set `A` can be reached from state `i` along
positive-probability steps inside `0 … n-1`; "ergodic" enters the theorems as
`∀ i < n, Reach n T A i`. -/
inductive Reach (n : Nat) (T : Mat) (A : List Nat) : Nat → Prop
  | base {i : Nat} : i ∈ A → Reach n T A i
  | step {i j : Nat} : j < n → 0 < T i j → Reach n T A j → Reach n T A i

/-! ### `tpt.py` -/

/-- `reverse_committors = 1 - forward_committors` (`_get_data_from_tprob`) -/
def reverseCommittors (q : Vec) : Vec := fun i => 1 - q i

/-- `fluxes = tprob * ((populations * reverse_committors)[:, None]) * forward_committors;
fluxes[diag] = 0` — row `i` scaled by `π_i q⁻_i`, column `j` by `q⁺_j`. -/
def reactiveFlux (π q : Vec) (T : Mat) : Mat :=
  fun i j => if i = j then 0 else T i j * (π i * reverseCommittors q i) * q j

/-- HISTORICAL (fixed in /repo by `fix: reactive_fluxes computed a matrix product for numpy.matrix input`): what the
dense expression computed BEFORE the fix when `tprob` was a `numpy.matrix` (e.g. from scipy's `.todense()`): `*` was
the matrix product, so `tprob * (π q⁻)[:, None]` was the column vector `T (π q⁻)` and `… * q⁺` its outer product with
`q⁺`.  The code now calls `np.asarray` first, so `reactiveFlux` is the model for every dense container; this definition
is kept only to document why the conversion matters (see `C08.flux_def_npmatrix_prefix_counterexample`). -/
def reactiveFluxNpMatrix (n : Nat) (π q : Vec) (T : Mat) : Mat :=
  fun i j => if i = j then 0 else sumTo n (fun k => T i k * (π k * reverseCommittors q k)) * q j

/-- `net = f − fᵀ; net[net < 0] = 0` (`.maximum(0)` for sparse) -/
def netFlux (f : Mat) : Mat :=
  fun i j => let d := f i j - f j i; if d < 0 then 0 else d

/-- `densities = populations * q⁺ * q⁻` -/
def density (π q : Vec) : Vec := fun i => π i * q i * reverseCommittors q i

/-- `densities / np.sum(densities)` -/
def reactivePop (n : Nat) (π q : Vec) : Vec :=
  fun i => density π q i / sumTo n (density π q)

/-! ### executable reference (exact rational solver plugged in) -/

inductive Err
  | indexError      -- a state index ≥ n (`IndexError` in numpy)
  | singular        -- the linear system has no unique solution (scipy/numpy: warning+nan / LinAlgError)
  | zeroDivision    -- division by a zero population / zero normaliser (numpy: inf/nan + RuntimeWarning)
  deriving Repr, DecidableEq

def idxOk (n : Nat) (l : List Nat) : Bool := l.all (· < n)

def committors (n : Nat) (T : Mat) (sources sinks : List Nat) : Except Err Vec :=
  if idxOk n sources && idxOk n sinks then
    match solve n sinks.length (ImQ T (sources ++ sinks)) (Rmat T sources sinks) with
    | none => .error .singular
    | some B => .ok (committorsFrom B sinks)
  else .error .indexError

def mfptsSinks (n : Nat) (T : Mat) (sinks : List Nat) (lag : Rat) : Except Err Vec :=
  if idxOk n sinks then
    match solve n 1 (ImQ T sinks) (cVec sinks) with
    | none => .error .singular
    | some t => .ok (mfptSinksFrom lag (fun i => t i 0))
  else .error .indexError

/-- decidable form of `Stationary` -/
def stationaryOk (n : Nat) (T : Mat) (π : Vec) : Bool :=
  ((List.range n).all fun j => decide (sumTo n (fun i => π i * T i j) = π j)) &&
    decide (sumTo n π = 1)

/-- exact stand-in for `eq_probs`: solve `πᵀ(I − T) = 0` with the last equation replaced by
`Σ π = 1`; returned only when it really is stationary and normalised. -/
def eqProbs (n : Nat) (T : Mat) : Except Err Vec :=
  let A : Mat := fun r i => if r + 1 = n then 1 else eyeMinus T i r
  let b : Mat := fun r _ => if r + 1 = n then 1 else 0
  match solve n 1 A b with
  | none => .error .singular
  | some x => let π : Vec := fun i => x i 0
              if stationaryOk n T π then .ok π else .error .singular

def mfptsAll (n : Nat) (T : Mat) (π : Vec) (lag : Rat) : Except Err Mat :=
  if (List.range n).all (fun j => π j ≠ 0) then
    match solve n n (fundA T π) eye with
    | none => .error .singular
    | some Z => .ok (mfptAll lag Z π)
  else .error .zeroDivision

def reactiveFluxes (n : Nat) (T : Mat) (sources sinks : List Nat) (π : Vec) : Except Err Mat :=
  match committors n T sources sinks with
  | .error e => .error e
  | .ok q => .ok (reactiveFlux π q T)

def netFluxes (n : Nat) (T : Mat) (sources sinks : List Nat) (π : Vec) : Except Err Mat :=
  match reactiveFluxes n T sources sinks π with
  | .error e => .error e
  | .ok f => .ok (netFlux f)

def reactivePopulations (n : Nat) (T : Mat) (sources sinks : List Nat) (π : Vec) : Except Err Vec :=
  match committors n T sources sinks with
  | .error e => .error e
  | .ok q => if sumTo n (density π q) = 0 then .error .zeroDivision else .ok (reactivePop n π q)

end Ens.Tpt
