/-
Model of `enspara/tpt/path.py` (C17): `top_path` (Dijkstra-style widest path),
`_remove_bottleneck`, `_subtract_path_flux`, `paths`.

Fluxes are natural numbers (the code only compares, takes minima and subtracts a minimum
from larger entries, all of which commute with a positive rescaling, so rational matrices are
covered up to their common denominator; floats are not modelled).  The flux matrix is an index
function `F : Nat → Nat → Nat` read only on `[0,n)²`; `min_fluxes` needs `-inf` and `+inf`,
modelled by `Ext`.
-/
import Model.Basic
namespace Ens.Paths

/-- values of `min_fluxes`: `-inf`, a finite flux, `+inf` -/
inductive Ext where
  | ninf
  | fin (v : Nat)
  | pinf
  deriving DecidableEq, Repr

namespace Ext
/-- strict order `-inf < fin a < fin b (a<b) < +inf` -/
def lt : Ext → Ext → Bool
  | ninf, ninf => false
  | ninf, _ => true
  | fin _, ninf => false
  | fin a, fin b => decide (a < b)
  | fin _, pinf => true
  | pinf, _ => false

instance : LT Ext := ⟨fun a b => lt a b = true⟩
instance : LE Ext := ⟨fun a b => lt b a = false⟩
instance (a b : Ext) : Decidable (a < b) := inferInstanceAs (Decidable (lt a b = true))
instance (a b : Ext) : Decidable (a ≤ b) := inferInstanceAs (Decidable (lt b a = false))

protected def min (a b : Ext) : Ext := if a < b then a else b
end Ext

/-- L137-140: `new = net_flux[u, j]; new[new > min_fluxes[u]] = min_fluxes[u]` -/
def relax (w : Nat) (l : Ext) : Ext := if l < Ext.fin w then l else Ext.fin w

inductive Err where
  | indexError   -- numpy IndexError: a source / sink index ≥ n_states
  | valueError   -- numpy ValueError: argmax / argmin / min of an empty sequence
  | outOfFuel    -- model artefact; proved unreachable (`top_path_total`, `paths_terminates`)
  deriving DecidableEq, Repr

/-- `(k, x)`: position and value of the FIRST element of the list maximising `lab`
(`min_fluxes[queue].argmax()`, L116 and L154); `none` for the empty list. -/
def best (lab : Nat → Ext) : List Nat → Option (Nat × Nat)
  | [] => none
  | x :: xs =>
    match best lab xs with
    | none => some (0, x)
    | some (k, y) => if lab x < lab y then some (k + 1, y) else some (0, x)

structure St where
  queue : List Nat
  visited : Nat → Bool
  prev : Nat → Option Nat        -- `previous_node`, `none` = -1
  lab : Nat → Ext                -- `min_fluxes`

/-- L133 `np.where(net_flux[u, :] > 0)[0]` -/
def neighbors (n : Nat) (F : Nat → Nat → Nat) (u : Nat) : List Nat :=
  (List.range n).filter (fun j => decide (0 < F u j))

/-- L143 `neighbors[ind]`: unvisited neighbours whose label strictly improves -/
def improved (n : Nat) (F : Nat → Nat → Nat) (visited : Nat → Bool) (lab : Nat → Ext) (u : Nat) :
    List Nat :=
  (neighbors n F u).filter (fun j => !visited j && decide (lab j < relax (F u j) (lab u)))

/-- the `while len(queue) > 0` loop, L114-150.  `none` = out of fuel. -/
def loop (n : Nat) (F : Nat → Nat → Nat) (sinks : List Nat) : Nat → St → Option St
  | 0, _ => none
  | fuel + 1, st =>
    match best st.lab st.queue with
    | none => some st                                            -- queue empty
    | some (k, u) =>
      let queue := st.queue.eraseIdx k                           -- queue.pop(argmax)
      let visited : Nat → Bool := fun x => if x = u then true else st.visited x
      if sinks.all visited then
        some { st with queue := queue, visited := visited }      -- L122 break
      else if neighbors n F u = [] then
        loop n F sinks fuel { st with queue := queue, visited := visited }   -- L134 continue
      else
        let ind := improved n F visited st.lab u
        loop n F sinks fuel
          { queue := queue ++ ind
            visited := visited
            prev := fun j => if ind.contains j then some u else st.prev j
            lab := fun j => if ind.contains j then relax (F u j) (st.lab u) else st.lab j }

/-- L152-158: `[t, prev t, prev (prev t), …]` until `previous_node == -1` -/
def walkRev (prev : Nat → Option Nat) : Nat → Nat → Option (List Nat)
  | 0, _ => none
  | fuel + 1, v =>
    match prev v with
    | none => some [v]
    | some u => (walkRev prev fuel u).map (v :: ·)

def initSt (sources : List Nat) : St :=
  { queue := sources
    visited := fun _ => false
    prev := fun _ => none
    lab := fun x => if sources.contains x then Ext.pinf else Ext.ninf }

def loopFuel (n : Nat) (sources : List Nat) : Nat := sources.length + n * (n + 1) + 1

/-- `top_path(sources, sinks, net_flux)`; result `(path, flux)` -/
def topPath (n : Nat) (F : Nat → Nat → Nat) (sources sinks : List Nat) :
    Except Err (List Nat × Ext) :=
  if sources.any (fun s => decide (n ≤ s)) || sinks.any (fun s => decide (n ≤ s)) then
    .error .indexError
  else
    match loop n F sinks (loopFuel n sources) (initSt sources) with
    | none => .error .outOfFuel
    | some st =>
      match best st.lab sinks with
      | none => .error .valueError
      | some (_, t) =>
        match walkRev st.prev (n + 1) t with
        | none => .error .outOfFuel
        | some rp => .ok (rp.reverse, st.lab t)

/-! ### path removal -/

/-- `zip(path[:-1], path[1:])` -/
def edges (p : List Nat) : List (Nat × Nat) := p.zip p.tail

/-- FIRST edge of the list with minimal flux (`argmin`) -/
def firstMin (F : Nat → Nat → Nat) : List (Nat × Nat) → Option (Nat × Nat)
  | [] => none
  | e :: es =>
    match firstMin F es with
    | none => some e
    | some e' => if F e'.1 e'.2 < F e.1 e.2 then some e' else some e

def setZero (F : Nat → Nat → Nat) (e : Nat × Nat) : Nat → Nat → Nat :=
  fun i j => if i = e.1 ∧ j = e.2 then 0 else F i j

/-- `_remove_bottleneck` L163-175 -/
def removeBottleneck (F : Nat → Nat → Nat) (p : List Nat) : Except Err (Nat → Nat → Nat) :=
  match firstMin F (edges p) with
  | none => .error .valueError
  | some e => .ok (setZero F e)

/-- `_subtract_path_flux` L178-194 -/
def subtractPath (F : Nat → Nat → Nat) (p : List Nat) : Except Err (Nat → Nat → Nat) :=
  match firstMin F (edges p) with
  | none => .error .valueError
  | some e =>
    let m := F e.1 e.2
    let G : Nat → Nat → Nat := fun i j => if (edges p).contains (i, j) then F i j - m else F i j
    match firstMin G (edges p) with
    | none => .error .valueError
    | some e' => .ok (setZero G e')

inductive Scheme where
  | subtract
  | bottleneck
  deriving DecidableEq, Repr

def removePath : Scheme → (Nat → Nat → Nat) → List Nat → Except Err (Nat → Nat → Nat)
  | .subtract => subtractPath
  | .bottleneck => removeBottleneck

/-- materialised `n × n` matrix (model-side stand-in for the fresh ndarray returned by the
removal helpers; reading it back is the identity on `[0,n)²`, `Proofs.C17.freeze_get`) -/
structure Mat where
  rows : List (List Nat)

def Mat.ofFn (n : Nat) (F : Nat → Nat → Nat) : Mat :=
  ⟨(List.range n).map (fun i => (List.range n).map (F i))⟩

def Mat.get (M : Mat) (i j : Nat) : Nat :=
  match M.rows[i]? with
  | none => 0
  | some r => match r[j]? with
    | none => 0
    | some x => x

def freeze (n : Nat) (F : Nat → Nat → Nat) : Nat → Nat → Nat := (Mat.ofFn n F).get

/-- L295 `net_flux[sources, :].sum()` (a repeated source counts twice, as in numpy) -/
def totalFlux (n : Nat) (F : Nat → Nat → Nat) (sources : List Nat) : Nat :=
  (sources.map (fun s => sumTo n (F s))).sum

/-- `counter >= num_paths`; `num_paths = none` is `np.inf` -/
def countReached (numPaths : Option Nat) (counter : Nat) : Bool :=
  match numPaths with
  | none => false
  | some N => decide (N ≤ counter)

/-- L311: `counter >= num_paths or expl_flux >= flux_cutoff`; the cut-off is the rational
`cutNum / cutDen`, `expl_flux = expl / total` -/
def stopNow (numPaths : Option Nat) (cutNum : Int) (cutDen : Nat) (total counter expl : Nat) : Bool :=
  countReached numPaths counter ||
  decide (cutNum * (total : Int) ≤ (expl : Int) * (cutDen : Int))

/-- the `while counter < num_paths` loop of `paths`, L300-315; returns `[(path, flux), …]` -/
def pathsLoop (n : Nat) (sources sinks : List Nat) (scheme : Scheme) (numPaths : Option Nat)
    (cutNum : Int) (cutDen : Nat) (total : Nat) :
    Nat → (Nat → Nat → Nat) → Nat → Nat → Except Err (List (List Nat × Nat))
  | 0, _, _, _ => .error .outOfFuel
  | fuel + 1, F, counter, expl =>
    if countReached numPaths counter then .ok []                 -- L300 `while counter < num_paths`
    else
    match topPath n F sources sinks with
    | .error e => .error e
    | .ok (p, .fin f) =>
      if stopNow numPaths cutNum cutDen total (counter + 1) (expl + f) then .ok [(p, f)]
      else
        match removePath scheme F p with
        | .error e => .error e
        | .ok F' =>
          let M := Mat.ofFn n F'
          match pathsLoop n sources sinks scheme numPaths cutNum cutDen total fuel M.get
              (counter + 1) (expl + f) with
          | .error e => .error e
          | .ok rest => .ok ((p, f) :: rest)
    | .ok (_, _) => .ok []                                       -- L302 `np.isinf(flux)`

/-- number of positive entries on `[0,n)²` -/
def posEdges (n : Nat) (F : Nat → Nat → Nat) : Nat :=
  sumTo n (fun i => sumTo n (fun j => if 0 < F i j then 1 else 0))

/-- `paths(sources, sinks, net_flux, remove_path, num_paths, flux_cutoff)`.
L295 `net_flux[sources, :]` raises IndexError for a source index ≥ n before the loop starts (with
`num_paths = 0` the loop body, hence `top_path` and its own checks, never runs). -/
def paths (n : Nat) (F : Nat → Nat → Nat) (sources sinks : List Nat) (scheme : Scheme)
    (numPaths : Option Nat) (cutNum : Int) (cutDen : Nat) :
    Except Err (List (List Nat × Nat)) :=
  if sources.any (fun s => decide (n ≤ s)) then .error .indexError
  else
    pathsLoop n sources sinks scheme numPaths cutNum cutDen (totalFlux n F sources)
      (posEdges n F + 1) F 0 0

end Ens.Paths
