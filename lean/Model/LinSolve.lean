import Model.Basic
/-!
Exact Gauss–Jordan elimination over `Rat`, used by the C04 driver to obtain the exact
stationary vector of a row-normalised matrix.  The eliminator is **not** trusted: the driver
only reports a vector after `isStationary` (an exact residual check against the model's
own matrix) returned `true`.
-/
namespace Ens.LinSolve

/-- Solve `A x = b` (`A` is `n × n`, rows as arrays); `none` if a pivot column is all zero. -/
def solve (n : Nat) (A : Array (Array Rat)) (b : Array Rat) : Option (Array Rat) := Id.run do
  -- augmented matrix
  let mut M : Array (Array Rat) := Array.ofFn (n := n) fun i => (A.getD i #[]).push (b.getD i 0)
  for col in [0:n] do
    -- first row at or below `col` with a non-zero entry in this column
    let mut piv : Option Nat := none
    for r in [col:n] do
      if piv.isNone && (M.getD r #[]).getD col 0 != 0 then piv := some r
    match piv with
    | none => return none
    | some p =>
      let rowP := M.getD p #[]
      let rowC := M.getD col #[]
      M := (M.setIfInBounds p rowC).setIfInBounds col rowP
      let d := rowP.getD col 0
      let prow := rowP.map (· / d)
      M := M.setIfInBounds col prow
      for r in [0:n] do
        if r != col then
          let row := M.getD r #[]
          let f := row.getD col 0
          if f != 0 then
            M := M.setIfInBounds r (Array.ofFn (n := n + 1) fun k => row.getD k 0 - f * prow.getD k 0)
  return some (Array.ofFn (n := n) fun i => (M.getD i #[]).getD n 0)

/-- exact certificate: `π T = π` and `Σ π = 1` -/
def isStationary (n : Nat) (T : Nat → Nat → Rat) (p : Nat → Rat) : Bool :=
  (List.range n).all (fun j => sumTo n (fun i => p i * T i j) == p j) && sumTo n p == 1

/-- candidate stationary vector of `T`: solves `(Tᵀ - I) π = 0` with the last equation
replaced by `Σ π = 1`; returned only together with the exact certificate. -/
def stationary (n : Nat) (T : Nat → Nat → Rat) : Option (Array Rat) :=
  if n = 0 then none else
  let A : Array (Array Rat) := Array.ofFn (n := n) fun (r : Fin n) =>
    Array.ofFn (n := n) fun (i : Fin n) =>
      if r.val + 1 = n then 1 else T i.val r.val - (if i.val = r.val then 1 else 0)
  let b : Array Rat := Array.ofFn (n := n) fun (r : Fin n) => if r.val + 1 = n then 1 else 0
  match solve n A b with
  | none => none
  | some x => if isStationary n T (fun i => x.getD i 0) then some x else none

end Ens.LinSolve
