import Model.PySlice
/-!
Model of `enspara.ra.save` / `enspara.ra.load` (ra/ra.py L45-89, L117-220) and of
`enspara.util.load.load_as_concatenated` / `_load_to_position` / `sound_trajectory`
(util/load.py L20-161, L286-301).  Core Lean only.

What is modelled (as the code is written):
* node names  `tag + '_' + str(i).zfill(len(str(len(array.lengths))) + 1)`; a plain ndarray
  is stored as the single node `tag_0` (`n_zeros = 1`);
* PyTables refuses a CArray whose shape contains a zero (`ValueError`) — rows of length 0;
* `handle.list_nodes('/')` = names sorted as Python strings (code-point lexicographic;
  PyTables: `sorted(self._v_children)`) — a parameter of the trusted base, compared with the
  real listing in the correspondence;
* `load`: Ellipsis → listed names; one key → that node `[::stride]` as a plain array; several
  keys → shape checks, `lengths = (shape[0] + stride - 1) // stride`, dtype check,
  `np.zeros(sum(lengths))`, sequential fill `concat[start:end] = node[::stride]`;
* `load_as_concatenated`: lengths from the hint or from `sound_trajectory`
  (`ceil(n_frames / stride)`, files with a `frame` argument inserted as length 1), offsets
  `sum(lengths[0:i])`, every worker writes `arr[pos : pos + len(xyz)] = xyz` into the shared
  buffer (numpy slice assignment: clipped window, broadcast error unless `len(xyz) = 1`),
  final check `sum(shapes) == full_shape[0]`.  The order in which the workers perform their
  writes is an argument (any schedule).

Outside the model (observed only through the correspondence run):
* HDF5/zlib bytes and the compression level (it cannot influence the stored values; levels
  0/1/9 are exercised), the process pool, `mp.Array`;
* the HDF5 listing order: `listNodes` = names sorted as strings is a *trusted* description of
  PyTables' `list_nodes`, compared with the real listing in every case;
* per-file atom-count mismatches (files whose selected frames have different shapes): frames
  are opaque here, the real code fails with a broadcast error;
* floating point in `math.ceil(n_frames / stride)`: modelled as the exact `⌈n/s⌉`, which the
  float expression equals for frame counts below 2^53 / stride;
* the legacy `keys=None` (`/array` + `/lengths`) format and negative strides.
Element values and frames are opaque (`α`, `β`); dtypes are carried as tags.
-/
namespace Ens.Store

inductive Err
  | valueError          -- numpy / PyTables ValueError
  | noSuchNode          -- tables.NoSuchNodeError
  | dataInvalid         -- enspara.exception.DataInvalid
  | indexError          -- IndexError (`shapes[0]` of an empty key list)
  | improperlyConfigured
  | badSchedule         -- not a behaviour of the code: the supplied schedule names a task that does not exist
  deriving Repr, DecidableEq

/-! ### strided selection `l[::s]` -/

/-- `strideAux s k l`: skip `k` elements, take one, skip `s-1`, take one, … -/
def strideAux {α} (s : Nat) : Nat → List α → List α
  | _, [] => []
  | 0, x :: xs => x :: strideAux s (s - 1) xs
  | k + 1, _ :: xs => strideAux s k xs

/-- `l[::s]` for `s ≥ 1` (elements at positions 0, s, 2s, …). -/
def strideSel {α} (s : Nat) (l : List α) : List α := strideAux s 0 l

/-- `(n + s - 1) // s` -/
def ceilDiv (n s : Nat) : Nat := (n + s - 1) / s

/-! ### node names -/

abbrev Name := List Char

/-- Python `str(n)` for a non-negative int -/
def pyStr (n : Nat) : List Char := Nat.toDigits 10 n

/-- Python `s.zfill(w)` for a string without sign prefix -/
def zfill (w : Nat) (s : List Char) : List Char := List.replicate (w - s.length) '0' ++ s

/-- `n_zeros = len(str(len(array.lengths))) + 1` -/
def nZeros (nrows : Nat) : Nat := (pyStr nrows).length + 1

/-- `tag + '_' + str(i).zfill(w)` -/
def keyNameW (tag : Name) (w i : Nat) : Name := tag ++ '_' :: zfill w (pyStr i)

/-- name of row `i` of an array with `nrows` rows -/
def keyName (tag : Name) (i nrows : Nat) : Name := keyNameW tag (nZeros nrows) i

/-- `sorted(names)` on Python strings -/
def listNodes (names : List Name) : List Name := names.mergeSort (fun a b => decide (a ≤ b))

/-! ### files -/

structure Node (α : Type) where
  dtype : String
  inner : List Nat          -- shape[1:]
  data  : List α            -- entries along the first axis
  deriving Repr, DecidableEq

/-- an HDF5 file: its nodes under `/`, in creation order -/
abbrev H5File (α : Type) := List (Name × Node α)

def names {α} (f : H5File α) : List Name := f.map (·.1)

def getNode {α} (f : H5File α) (k : Name) : Option (Node α) := (f.find? (fun p => p.1 == k)).map (·.2)

inductive Input (α : Type)
  | ragged (dtype : String) (inner : List Nat) (rows : List (List α))
  | ndarray (dtype : String) (inner : List Nat) (data : List α)    -- shape = data.length :: inner

/-- the nodes `save` creates for the rows, in creation order -/
def mkNodes {α} (tag : Name) (w : Nat) (dtype : String) (inner : List Nat) (rows : List (List α)) :
    H5File α :=
  rows.zipIdx.map fun (r, i) => (keyNameW tag w i, { dtype := dtype, inner := inner, data := r })

/-- a node shape PyTables accepts: no zero dimension -/
def shapeOk {α} (inner : List Nat) (r : List α) : Bool := !r.isEmpty && !inner.contains 0

/-- `ra.save(filename, array, tag=tag)` (the compression level does not influence the
stored values; it is exercised in the correspondence). -/
def save {α} (tag : Name) : Input α → Except Err (H5File α)
  | .ragged dt inner rows =>
      if rows.all (shapeOk inner) then .ok (mkNodes tag (nZeros rows.length) dt inner rows)
      else .error .valueError
  | .ndarray dt inner data =>
      if shapeOk inner data then .ok (mkNodes tag 1 dt inner [data]) else .error .valueError

inductive Keys
  | all                       -- `keys=...`
  | list (ks : List Name)

inductive Loaded (α : Type)
  | plain (dtype : String) (inner : List Nat) (data : List α)
  | ragged (dtype : String) (inner : List Nat) (flat : List α) (lengths : List Nat)
  deriving Repr, DecidableEq

/-- cut a flat array into rows of the given lengths (`RaggedArray(array=, lengths=)`) -/
def rowsOf {α} : List α → List Nat → List (List α)
  | _, [] => []
  | flat, n :: ns => flat.take n :: rowsOf (flat.drop n) ns

/-- the loaded value as a list of rows (a plain array is one row) -/
def Loaded.rows {α} : Loaded α → List (List α)
  | .plain _ _ d => [d]
  | .ragged _ _ flat ls => rowsOf flat ls

def Loaded.lengths {α} : Loaded α → List Nat
  | .plain _ _ d => [d.length]
  | .ragged _ _ _ ls => ls

def Loaded.dtype {α} : Loaded α → String
  | .plain dt _ _ => dt
  | .ragged dt _ _ _ => dt

def Loaded.inner {α} : Loaded α → List Nat
  | .plain _ i _ => i
  | .ragged _ i _ _ => i

def Loaded.isPlain {α} : Loaded α → Bool
  | .plain .. => true
  | .ragged .. => false

/-! ### buffers and window writes (shared by `load` and `load_as_concatenated`) -/

/-- one cell write -/
def setCell {β} (buf : Nat → β) (c : Nat × β) : Nat → β := fun k => if k = c.1 then c.2 else buf k

/-- perform cell writes left to right -/
def runCells {β} (cells : List (Nat × β)) (buf : Nat → β) : Nat → β := cells.foldl setCell buf

/-- the cell writes of `arr[pos : pos + len(xs)] = xs` -/
def blockCells {β} (pos : Nat) (xs : List β) : List (Nat × β) := (xs.zipIdx pos).map fun (x, p) => (p, x)

/-- numpy `arr[pos : pos + len(xs)] = xs` on a buffer with `total` entries along the first axis:
the window is clipped to the buffer; a clipped window raises (broadcast error) unless
`len(xs) = 1`, which broadcasts into the (then empty) window. -/
def writeWindow {β} (total : Nat) (buf : Nat → β) (pos : Nat) (xs : List β) : Except Err (Nat → β) :=
  if pos + xs.length ≤ total then .ok (runCells (blockCells pos xs) buf)
  else if xs.length = 1 then .ok buf
  else .error .valueError

/-- sequential fill of `ra.load`: `start = 0; for node: end = start + len(node); concat[start:end] = node; start = end` -/
def fillSeq {β} (total : Nat) : List (List β) → Nat → (Nat → β) → Except Err (Nat → β)
  | [], _, buf => .ok buf
  | xs :: rest, start, buf => do
      let buf' ← writeWindow total buf start xs
      fillSeq total rest (start + xs.length) buf'

/-- `keys = [k.name for k in handle.list_nodes('/')]` for an Ellipsis -/
def resolveKeys {α} (f : H5File α) : Keys → List Name
  | .all => listNodes (names f)
  | .list ks => ks

/-- `handle.get_node(where='/', name=k)` for every key (first missing key raises) -/
def lookupAll {α} (f : H5File α) (ks : List Name) : Except Err (List (Node α)) :=
  ks.mapM fun k => match getNode f k with
    | none => .error .noSuchNode
    | some nd => .ok nd

/-- the checks of the several-keys branch, in the order of the code: `shapes[0]` (IndexError
for no keys), equal number of dimensions, equal non-ragged dimensions, equal dtype.
Returns the first node (its dtype / inner shape describe the result). -/
def checkNodes {α} (nodes : List (Node α)) : Except Err (Node α) :=
  match nodes with
  | [] => .error .indexError
  | n0 :: _ =>
    if !(nodes.all fun nd => nd.inner.length == n0.inner.length) then .error .dataInvalid
    else if !(nodes.all fun nd => nd.inner == n0.inner) then .error .dataInvalid
    else if !(nodes.all fun nd => nd.dtype == n0.dtype) then .error .dataInvalid
    else .ok n0

/-- several keys: `lengths = (shape[0] + stride - 1) // stride`, `concat = np.zeros(sum(lengths))`,
sequential fill with `node[::stride]` (a zero stride raises `ValueError` at the first slice;
the length formula itself only warns, the shapes being numpy integers). -/
def loadMany {α} [Inhabited α] (nodes : List (Node α)) (stride : Nat) : Except Err (Loaded α) :=
  match checkNodes nodes with
  | .error e => .error e
  | .ok n0 =>
    if stride = 0 then .error .valueError else
    let lengths := nodes.map fun nd => ceilDiv nd.data.length stride
    let total := lengths.sum
    match fillSeq total (nodes.map fun nd => strideSel stride nd.data) 0 (fun _ => default) with
    | .error e => .error e
    | .ok buf => .ok (.ragged n0.dtype n0.inner ((List.range total).map buf) lengths)

/-- `ra.load(input_name, keys=keys, stride=stride)` for `keys` an Ellipsis or a list. -/
def load {α} [Inhabited α] (f : H5File α) (keys : Keys) (stride : Nat) : Except Err (Loaded α) :=
  match resolveKeys f keys with
  | [k] =>
    match getNode f k with
    | none => .error .noSuchNode
    | some nd =>
      if stride = 0 then .error .valueError
      else .ok (.plain nd.dtype nd.inner (strideSel stride nd.data))
  | ks =>
    match lookupAll f ks with
    | .error e => .error e
    | .ok nodes => loadMany nodes stride

/-! ### `load_as_concatenated` -/

/-- what the model needs to know about one file and its `md.load` keyword arguments -/
structure FileSpec (β : Type) where
  nFrames  : Nat            -- `len(md.open(file))`
  stride   : Nat            -- `kw.get('stride', 1)`
  hasFrame : Bool           -- `'frame' in kw`
  loaded   : List β         -- the frames `md.load(file, **kw).xyz` (strided, atom-selected)
  deriving Repr

/-- `sound_trajectory(trj, stride)` = `math.ceil(n_frames / stride)` (exact below 2^53) -/
def soundTrajectory (nFrames stride : Nat) : Except Err Nat :=
  if stride = 0 then .error .valueError else .ok (ceilDiv nFrames stride)

/-- Python `list.insert(i, x)` -/
def pyInsert {γ} : Nat → γ → List γ → List γ
  | 0, x, l => x :: l
  | _ + 1, x, [] => [x]
  | n + 1, x, y :: l => y :: pyInsert n x l

/-- `for i, kw in enumerate(args): if 'frame' in kw: lengths.insert(i, 1)` -/
def insertFrames {β} : List (FileSpec β) → Nat → List Nat → List Nat
  | [], _, ls => ls
  | a :: as, i, ls => insertFrames as (i + 1) (if a.hasFrame then pyInsert i 1 ls else ls)

/-- the `lengths is None` branch -/
def soundAll {β} (specs : List (FileSpec β)) : Except Err (List Nat) :=
  match (specs.filter fun a => !a.hasFrame).mapM fun a => soundTrajectory a.nFrames a.stride with
  | .error e => .error e
  | .ok ls => .ok (insertFrames specs 0 ls)

/-- `lengths`: sounded, or the caller's hint (only its length is checked here) -/
def resolveLengths {β} (specs : List (FileSpec β)) : Option (List Nat) → Except Err (List Nat)
  | none => soundAll specs
  | some ls => if ls.length ≠ specs.length then .error .improperlyConfigured else .ok ls

/-- `[sum(lengths[0:i]) for i in range(len(lengths))]` -/
def offsets (lengths : List Nat) : List Nat := (List.range lengths.length).map fun i => (lengths.take i).sum

/-- the tasks handed to the pool: `zip(offsets, filenames, args)` (file and args are
represented by what the worker loads) -/
def tasks {β} (lengths : List Nat) (specs : List (FileSpec β)) : List (Nat × List β) :=
  (offsets lengths).zip (specs.map (·.loaded))

/-- perform the workers' window writes in the order `order` (indices into the task list) -/
def runOrder {β} (total : Nat) (ts : List (Nat × List β)) : List Nat → (Nat → β) → Except Err (Nat → β)
  | [], buf => .ok buf
  | i :: rest, buf =>
    match ts[i]? with
    | none => .error .badSchedule
    | some (pos, xs) =>
      match writeWindow total buf pos xs with
      | .error e => .error e
      | .ok buf' => runOrder total ts rest buf'

/-- `load_as_concatenated(filenames, lengths=hint, args=...)`; `order` is the order in which
the pool workers happen to perform their writes; `init` is the (arbitrary) initial content of
the shared buffer.  Returns `(lengths, xyz)`.  A worker's exception is re-raised by
`proc.get()` before the final total check. -/
def loadAsConcatenated {β} (specs : List (FileSpec β)) (hint : Option (List Nat))
    (order : List Nat) (init : Nat → β) : Except Err (List Nat × List β) :=
  -- `args[0]` / `args[-1]` are evaluated (for the debug log) before anything else: no files -> IndexError
  if specs.isEmpty then .error .indexError else
  match resolveLengths specs hint with
  | .error e => .error e
  | .ok lengths =>
    let total := lengths.sum
    let ts := tasks lengths specs
    match runOrder total ts order init with
    | .error e => .error e
    | .ok buf =>
      if (ts.map fun t => t.2.length).sum ≠ total then .error .dataInvalid
      else .ok (lengths, (List.range total).map buf)

end Ens.Store
