import Model.Basic
/-!
Model of the MPI layer of enspara (`enspara/mpi/ops.py`, `enspara/mpi/io.py`), of the
distributed k-centers iteration (`enspara/cluster/kcenters.py:_kcenters_iteration_mpi`) and
of the index conversions used around them (`ops.convert_local_indices`,
`cluster/kmedoids.py:ctr_ids_mpi`), together with the tiny serial k-centers step they are
compared with.

Conventions
* `w` = `mpi.size()`; a per-rank quantity is a function `Nat → _` consulted on `0 … w-1`.
* A collective is a function of all ranks' contributions (that *is* the MPI contract; the
  arrival order of ranks is therefore not represented — trusted base).
* An exception raised on any rank is an error of the whole collective call (on a real
  cluster the other ranks would hang or be aborted).
* Distances live in any type with a decidable `<`; `StrictTotal` collects the three order
  laws the proofs use.  `Dist` (rationals plus `+inf`) is the instance used by the driver.
-/
namespace Ens.Mpi

inductive Err
  | indexError | valueError | improperlyConfigured | assertion | dataInvalid
  | attributeError | notImplemented | nan | fuel
  deriving Repr, DecidableEq

/-- the three laws of a strict total order (Mathlib-free; instances for `Dist`, `Nat`,
    `Int`, `Rat` are proved in `Proofs/C14Order.lean`) -/
class StrictTotal (α : Type) [LT α] : Prop where
  irrefl : ∀ a : α, ¬ a < a
  trans : ∀ {a b c : α}, a < b → b < c → a < c
  tri : ∀ a b : α, a < b ∨ a = b ∨ b < a

/-! ## striping: `xs[r::w]` -/

/-- `xs[r::w]` for `w ≥ 1`: skip `r` elements, keep one, skip `w-1`, keep one, … -/
def stripe {α} (w : Nat) : List α → Nat → List α
  | [], _ => []
  | x :: xs, 0 => x :: stripe w xs (w - 1)
  | _ :: xs, r+1 => stripe w xs r

/-- `range(n)[r::w]` -/
def stripeIdx (w n r : Nat) : List Nat := stripe w (List.range n) r

/-- the effect of `g = empty(n); for r in range(w): g[r::w] = parts r` on positions that
    receive a value: position `i` receives `parts (i % w) [i / w]` -/
def unstripe {α} (w n : Nat) (parts : Nat → List α) : List α :=
  (List.range n).filterMap fun i => (parts (i % w))[i / w]?

/-- rows of `RaggedArray(xs, lengths=L)` -/
def splitBy {α} : List Nat → List α → List (List α)
  | [], _ => []
  | l :: ls, xs => xs.take l :: splitBy ls (xs.drop l)

/-- first error reported by a per-rank check over ranks `0 … w-1` -/
def firstErr (w : Nat) (chk : Nat → Option Err) : Option Err :=
  (List.range w).findSome? chk

/-! ## `ops.assemble_striped_array` (L42-79) -/

/-- `assemble_striped_array` on integer arrays: size 1 returns the local array untouched;
    otherwise every entry must be `> 0` (ImproperlyConfigured) and `g[r::w] = parts r` must
    fit exactly (numpy raises ValueError otherwise; broadcasting a length-1 part can never
    rescue a wrong layout because the part lengths sum to the total). -/
def assembleStripedArray (w : Nat) (parts : Nat → List Int) : Except Err (List Int) :=
  if w = 1 then .ok (parts 0) else
  let total := Ens.sumTo w fun r => (parts r).length
  match firstErr w (fun r => if (parts r).all (fun x => decide (0 < x)) then none else some .improperlyConfigured) with
  | some e => .error e
  | none =>
    match firstErr w (fun r => if (parts r).length = (stripeIdx w total r).length then none else some .valueError) with
    | some e => .error e
    | none => .ok (unstripe w total parts)

/-! ## `ops.assemble_striped_ragged_array` (L82-125) -/

/-- error of rank `r`'s contribution: with ≥ 2 owned trajectories the `RaggedArray`
    constructor checks the total length (`dataInvalid` stands for both DataInvalid from
    `partition_list` and numpy's reshape / broadcast ValueError when the owned lengths are all
    equal; a single equal-length row that numpy would silently broadcast is NOT modelled —
    wrong local lengths are outside the property); with no owned trajectory
    `global_ra[rank] = …` is an IndexError; with exactly one the row is *replaced*, whatever
    its length (no check in the code).  Trajectory lengths are assumed `≥ 1` (the library's
    loader rejects lengths `≤ 0`); zero-length trajectories are not exercised. -/
def raggedErr {α} (w : Nat) (L : List Nat) (locals : Nat → List α) (r : Nat) : Option Err :=
  let ll := stripe w L r
  if ll.length > 1 then (if ll.sum = (locals r).length then none else some .dataInvalid)
  else if ll.length = 1 then none else some .indexError

/-- the rows rank `r` contributes -/
def raggedRows {α} (w : Nat) (L : List Nat) (locals : Nat → List α) (r : Nat) : List (List α) :=
  let ll := stripe w L r
  if ll.length > 1 then splitBy ll (locals r) else [locals r]

def assembleStripedRagged {α} (w : Nat) (L : List Nat) (locals : Nat → List α) : Except Err (List α) :=
  match firstErr w (raggedErr w L locals) with
  | some e => .error e
  | none => .ok (unstripe w L.length (raggedRows w L locals)).flatten

/-! ## `ops.convert_local_indices` (L14-39) and `kmedoids.ctr_ids_mpi` (L365-408) -/

/-- global frame ids held by rank `r`, in local order:
    `RaggedArray(arange(sum L), lengths=L)[r::w].flatten()` -/
def localFrames (w : Nat) (L : List Nat) (r : Nat) : List Nat :=
  (stripe w (splitBy L (List.range L.sum)) r).flatten

/-- one `(rank, local_frame)` pair; an empty row selection has no `_data` (AttributeError),
    a local index past the end is an IndexError -/
def convertLocal (w : Nat) (L : List Nat) (p : Nat × Nat) : Except Err Nat :=
  if (stripe w L p.1).length = 0 then .error .attributeError else
  match (localFrames w L p.1)[p.2]? with
  | some g => .ok g
  | none => .error .indexError

def convertLocalIndices (w : Nat) (L : List Nat) (ps : List (Nat × Nat)) : Except Err (List Nat) :=
  ps.mapM (convertLocal w L)

/-- `ctr_ids_mpi` for one `(global_traj_id, frame_id)` pair -/
def ctrIdMpi (w : Nat) (L : List Nat) (p : Nat × Nat) : Except Err (Nat × Nat) :=
  let rank := p.1 % w
  let owned := stripe w L rank
  let j := p.1 / w
  match owned[j]? with
  | none => .error .indexError
  | some len => if p.2 < len then .ok (rank, (owned.take j).sum + p.2) else .error .indexError

def ctrIdsMpi (w : Nat) (L : List Nat) (ps : List (Nat × Nat)) : Except Err (List (Nat × Nat)) :=
  ps.mapM (ctrIdMpi w L)

/-- position `(traj, frame)` of a global frame id -/
def locate : List Nat → Nat → Option (Nat × Nat)
  | [], _ => none
  | l :: ls, g => if g < l then some (0, g) else (locate ls (g - l)).map fun p => (p.1 + 1, p.2)

/-- `ctr_ids_mpi` for flat global ids: `ra.where(global_inds == c)` locates the
    `(trajectory, frame)` of `c` (IndexError when `c` is not a frame), then the pair path -/
def ctrIdsMpiFlat (w : Nat) (L : List Nat) (cs : List Nat) : Except Err (List (Nat × Nat)) :=
  cs.mapM fun c => match locate L c with
    | none => .error .indexError
    | some p => ctrIdMpi w L p

/-- `_kmedoids_inputs_tree_mpi` (kmedoids.py L253-283) *as written*: with a warm start
    (centers, assignments and distances all given) the centers are converted with
    `ctr_ids_mpi`; without one the code evaluates `np.arange(X)` on the data array
    (ValueError; TypeError / AttributeError from `None.append` for a single frame) before
    doing anything else -/
def kmedoidsInputsMpi (w : Nat) (L : List Nat) (warm : Option (List (Nat × Nat))) :
    Except Err (List (Nat × Nat)) :=
  match warm with
  | none => .error .valueError
  | some ps => ctrIdsMpi w L ps

/-! ## `ops.striped_array_max` (L128-140), `ops.striped_array_mean` (L143-166) -/

/-- `max` of a non-empty list (first maximal element, like Python's `max`) -/
def listMax {α} [LT α] [DecidableRel (α := α) (· < ·)] : List α → Option α
  | [] => none
  | x :: xs => some (xs.foldl (fun m y => if m < y then y else m) x)

/-- `local_array.max()` raises ValueError on an empty local array; then allreduce(MAX) -/
def stripedMax {α} [LT α] [DecidableRel (α := α) (· < ·)] (w : Nat) (locals : Nat → List α) :
    Except Err α :=
  match firstErr w (fun r => if (locals r).isEmpty then some .valueError else none) with
  | some e => .error e
  | none =>
    match listMax ((List.range w).filterMap fun r => listMax (locals r)) with
    | some m => .ok m
    | none => .error .valueError

/-- `striped_array_mean`: size 1 divides locally (0/0 is nan); otherwise sums and counts are
    allreduced and divided (`assert global_len >= 0` cannot fail) -/
def stripedMean (w : Nat) (locals : Nat → List Rat) : Except Err Rat :=
  if w = 1 then
    (if (locals 0).length = 0 then .error .nan else .ok ((locals 0).sum / ((locals 0).length : Rat)))
  else
    let gsum := Ens.sumTo w fun r => (locals r).sum
    let glen := Ens.sumTo w fun r => (locals r).length
    if glen = 0 then .error .nan else .ok (gsum / (glen : Rat))

/-! ## `ops.randind` (L215-272) -/

/-- the table `RaggedArray(concatenate([arange(N)[r::w] for r in range(w)]), lengths=lens)` -/
def randindTable (lens : List Nat) : List (List Nat) :=
  let w := lens.length
  let n := lens.sum
  splitBy lens ((List.range w).flatMap fun r => stripeIdx w n r)

/-- first `(row, column)` holding `g` in row-major order (`ra.where(a == g)` then `[0]`) -/
def findRC : List (List Nat) → Nat → Option (Nat × Nat)
  | [], _ => none
  | row :: rows, g =>
    match row.idxOf? g with
    | some i => some (0, i)
    | none => (findRC rows g).map fun p => (p.1 + 1, p.2)

/-- `randind` as a function of the local lengths of all ranks and of the integer `g` that
    rank 0 draws from `randint(sum lens)` and broadcasts -/
def randind (lens : List Nat) (g : Nat) : Except Err (Nat × Nat) :=
  if lens.sum < 1 then .error .dataInvalid else
  match findRC (randindTable lens) g with
  | some p => .ok p
  | none => .error .indexError

/-! ## `ops.distribute_frame` (L169-212) -/

/-- every rank receives the owner's frame; the owner indexes its data (IndexError past the
    end), every other rank needs a non-empty local array for `np.empty_like(data[0])` -/
def distributeFrame {β} (w : Nat) (data : Nat → List β) (idx owner : Nat) : Except Err β :=
  if w ≤ owner then .error .improperlyConfigured else
  match firstErr w (fun r => if r ≠ owner ∧ (data r).isEmpty then some .indexError else none) with
  | some e => .error e
  | none => match (data owner)[idx]? with
    | some f => .ok f
    | none => .error .indexError

/-! ## `io.load_h5_as_striped` (L16-71), `io.load_npy_as_striped` (L74-139) -/

/-- `row[::s]` for `s ≥ 1` -/
def everyNth {β} (s : Nat) (row : List β) : List β := stripe s row 0

/-- `load_h5_as_striped`: rank `r` of `w` loads keys `r, r+w, …`, every `stride`-th frame;
    the global lengths are `len(range(0, n, stride))` for *all* keys.  A rank without a key
    fails (IndexError in `ra.load`). -/
def loadStriped {β} (w : Nat) (rows : List (List β)) (stride : Nat) (r : Nat) :
    Except Err (List Nat × List β) :=
  let mine := stripe w rows r
  if mine.isEmpty then .error .indexError else
  .ok (rows.map (fun row => (everyNth stride row).length), (mine.map (everyNth stride)).flatten)

/-- `load_npy_as_striped`: same layout; the local array is allocated from the local
    (strided) lengths and the code asserts that it was filled exactly (a rank without a file
    fails with UnboundLocalError after the empty loop) -/
def loadNpyStriped {β} (w : Nat) (rows : List (List β)) (stride : Nat) (r : Nat) :
    Except Err (List Nat × List β) :=
  let mine := stripe w rows r
  if mine.isEmpty then .error .indexError else
  let data := (mine.map (everyNth stride)).flatten
  let glen := rows.map (fun row => (everyNth stride row).length)
  if data.length = (stripe w glen r).sum then .ok (glen, data) else .error .assertion

/-! ## distances with `+inf` (driver instance) -/

inductive Dist
  | fin (q : Rat)
  | inf
  deriving DecidableEq, Repr

def Dist.lt : Dist → Dist → Prop
  | .fin x, .fin y => x < y
  | .fin _, .inf => True
  | .inf, _ => False

instance : LT Dist := ⟨Dist.lt⟩

instance : DecidableRel (α := Dist) (· < ·) := fun a b =>
  match a, b with
  | .fin x, .fin y => inferInstanceAs (Decidable (x < y))
  | .fin _, .inf => isTrue trivial
  | .inf, _ => isFalse (fun h => nomatch a, b, h)

/-! ## serial k-centers (`kcenters.py` L195-240, `_kcenters_iteration` L278-311) -/

structure SState (α : Type) where
  dist : Nat → α
  assign : Nat → Int
  ctrs : List Nat

/-- one serial iteration on frames `0 … n-1`; `D f c` = `distance_method(traj, traj[c])[f]` -/
def serialIter {α} [LT α] [DecidableRel (α := α) (· < ·)] (n : Nat) (D : Nat → Nat → α)
    (s : SState α) : SState α :=
  let c := Ens.argmaxTo n s.dist
  let k : Int := s.ctrs.length
  { dist := fun g => if D g c < s.dist g then D g c else s.dist g
    assign := fun g => if D g c < s.dist g then k else s.assign g
    ctrs := s.ctrs ++ [c] }

/-- value of `distances.max()` for a non-empty array -/
def serialMax {α} [LT α] [DecidableRel (α := α) (· < ·)] (n : Nat) (d : Nat → α) : α :=
  d (Ens.argmaxTo n d)

/-- `len(ctr_inds) < n_clusters`; `none` is `n_clusters = inf` -/
def underK (k : Option Nat) (c : Nat) : Bool :=
  match k with
  | some k => decide (c < k)
  | none => true

/-- `while len(ctr_inds) < n_clusters and maxdist > dist_cutoff` with explicit fuel;
    `k = none` is `n_clusters = inf` -/
def serialLoop {α} [LT α] [DecidableRel (α := α) (· < ·)] (n : Nat) (D : Nat → Nat → α)
    (k : Option Nat) (cutoff : α) : Nat → SState α → Except Err (SState α)
  | fuel, s =>
    if underK k s.ctrs.length = true ∧ cutoff < serialMax n s.dist then
      match fuel with
      | 0 => .error .fuel
      | fuel+1 => serialLoop n D k cutoff fuel (serialIter n D s)
    else .ok s

def serialInit {α} (top : α) : SState α :=
  { dist := fun _ => top, assign := fun _ => -1, ctrs := [] }

/-- serial `kcenters` (no `init_centers`); `distances.max()` of an empty array is a ValueError -/
def serialKcenters {α} [LT α] [DecidableRel (α := α) (· < ·)] (n : Nat) (D : Nat → Nat → α)
    (top : α) (k : Option Nat) (cutoff : α) (fuel : Nat) : Except Err (SState α) :=
  if n = 0 then .error .valueError else serialLoop n D k cutoff fuel (serialInit top)

/-! ## distributed k-centers (`_kcenters_iteration_mpi` L322-378) -/

/-- how the frames are laid out: rank `r` holds `m r` frames, the `i`-th one is frame
    `X r i` (the harness stores global frame ids in the data array, so `X` is observable) -/
structure Layout where
  w : Nat
  m : Nat → Nat
  X : Nat → Nat → Nat

structure MState (α : Type) where
  dist : Nat → Nat → α
  assign : Nat → Nat → Int
  ctrs : List (Nat × Nat)

/-- owner and local index of the next center: `(0, 0)` on the first iteration, otherwise the
    FIRST rank whose local maximum attains the maximum of the gathered local maxima, and that
    rank's local `argmax` -/
def mpiPick {α} [LT α] [DecidableRel (α := α) (· < ·)] (lay : Layout) (s : MState α) : Nat × Nat :=
  if s.ctrs.length = 0 then (0, 0) else
    let locs := fun r => Ens.argmaxTo (lay.m r) (s.dist r)
    let vals := fun r => s.dist r (locs r)
    let owner := Ens.argmaxTo lay.w vals
    (owner, locs owner)

def mpiIter {α} [LT α] [DecidableRel (α := α) (· < ·)] (lay : Layout) (D : Nat → Nat → α)
    (s : MState α) : MState α :=
  let p := mpiPick lay s
  let y := lay.X p.1 p.2            -- distribute_frame: the owner's frame, on every rank
  let k : Int := s.ctrs.length
  { dist := fun r i => if D (lay.X r i) y < s.dist r i then D (lay.X r i) y else s.dist r i
    assign := fun r i => if D (lay.X r i) y < s.dist r i then k else s.assign r i
    ctrs := s.ctrs ++ [p] }

/-- `striped_array_max(distances)` when every rank is non-empty: allreduce(MAX) of local maxima -/
def mpiMax {α} [LT α] [DecidableRel (α := α) (· < ·)] (lay : Layout) (d : Nat → Nat → α) : α :=
  let vals := fun r => d r (Ens.argmaxTo (lay.m r) (d r))
  vals (Ens.argmaxTo lay.w vals)

def mpiLoop {α} [LT α] [DecidableRel (α := α) (· < ·)] (lay : Layout) (D : Nat → Nat → α)
    (k : Option Nat) (cutoff : α) : Nat → MState α → Except Err (MState α)
  | fuel, s =>
    if underK k s.ctrs.length = true ∧ cutoff < mpiMax lay s.dist then
      match fuel with
      | 0 => .error .fuel
      | fuel+1 => mpiLoop lay D k cutoff fuel (mpiIter lay D s)
    else .ok s

def mpiInit {α} (top : α) : MState α :=
  { dist := fun _ _ => top, assign := fun _ _ => -1, ctrs := [] }

/-- `kcenters(mpi_mode=True)`: the first `striped_array_max` raises ValueError on a rank
    without frames -/
def mpiKcenters {α} [LT α] [DecidableRel (α := α) (· < ·)] (lay : Layout) (D : Nat → Nat → α)
    (top : α) (k : Option Nat) (cutoff : α) (fuel : Nat) : Except Err (MState α) :=
  match firstErr lay.w (fun r => if lay.m r = 0 then some .valueError else none) with
  | some e => .error e
  | none => mpiLoop lay D k cutoff fuel (mpiInit top)

/-- the layout produced by dealing trajectories of lengths `L` round-robin to `w` ranks -/
def stripeLayout (w : Nat) (L : List Nat) : Layout :=
  { w := w
    m := fun r => (localFrames w L r).length
    X := fun r i => (localFrames w L r).getD i 0 }

end Ens.Mpi
