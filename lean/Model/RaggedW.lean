import Model.PySlice
/-!
# Write side of `enspara.ra.RaggedArray` (property C06)

Executable model of the *writers* of `enspara/ra/ra.py` with the two stored representations as
two fields (`data` = `_data`, `array` = `_array`) plus `lengths`, exactly re-synchronised the
way each writer does it (`self.__init__(self._array)` = `initRows`, or
`self._array = np.array(partition_list(self._data, self.lengths))` = `rebuild`).

The model is parametrised by `Cfg`: which of the proposed repairs is present in the tree
that is being checked.  `Cfg.current` is `/repo` HEAD (all five repairs committed);
`Cfg.asIs` / `Cfg.beforeC06` / `Cfg.beforePriority` are older variants; the flags switch, function by function,
to the patched text of the since-applied repairs `{C05-ra-reads,C06-setitem-row-views,C06-array-row-views,C06-append-flat-row}.diff`.
The harness holds the staged code to `Cfg.current` (and probes that every repair is in effect).

Self-contained on purpose (`Model/Ragged.lean` of C05 models the read side).
Elements are an arbitrary type `α`; arithmetic is passed in as functions.
-/
namespace Ens.RaggedW

inductive Err
  | indexError      -- IndexError
  | valueError      -- ValueError / TypeError / ZeroDivisionError raised by numpy or range()
  | dataInvalid     -- enspara.exception.DataInvalid
  | garbled         -- the call RETURNS, but cells of the array now hold whole rows (not representable)
  | emptyArray      -- RaggedArray([]) : object without `_data`
  | notRagged       -- the call RETURNS, but a plain 2-d ndarray instead of a RaggedArray
  deriving Repr, DecidableEq

structure Cfg where
  readsFix : Bool      -- C05-ra-reads.diff: CPython slice semantics in the index helpers, empty selections
  rowViewsFix : Bool   -- C06-setitem-row-views.diff: row writes work on one view per row
  arrayViewsFix : Bool -- C06-array-row-views.diff: `_array` is never a 2-d object block
  appendFix : Bool     -- C06-append-flat-row.diff
  priorityFix : Bool   -- C06-array-priority.diff: numpy scalars on the left defer to the reflected operators
  appendEmptyFix : Bool -- C06-append-all-empty.diff: `append` re-initialises only an array WITHOUT rows
  deriving Repr, DecidableEq

/-- `/repo` HEAD: all six repairs are committed (`fix:` commits of C05-ra-reads, C06-setitem-row-views,
C06-append-flat-row, C06-array-row-views, C06-array-priority, C06-append-all-empty) -/
def Cfg.current : Cfg := ⟨true, true, true, true, true, true⟩
abbrev Cfg.fixed : Cfg := Cfg.current
/-- older variants, kept only to state what the repairs changed -/
def Cfg.asIs : Cfg := ⟨false, false, false, false, false, false⟩          -- before the read-side repair
def Cfg.beforeC06 : Cfg := ⟨true, false, false, false, false, false⟩      -- read-side repair only
def Cfg.beforePriority : Cfg := ⟨true, true, true, true, false, false⟩    -- without `__array_priority__`
def Cfg.beforeAppendEmpty : Cfg := ⟨true, true, true, true, true, false⟩  -- `append` tested `len(self._data) == 0`

variable {α : Type}

/-! ## representation -/

/-- the loop of `partition_list` (Python slicing clips, so this is total) -/
def partition : List Nat → List α → List (List α)
  | [], _ => []
  | l :: ls, d => d.take l :: partition ls (d.drop l)

/-- `partition_list` with its guard -/
def partitionList (d : List α) (ls : List Nat) : Except Err (List (List α)) :=
  if ls.sum = d.length then .ok (partition ls d) else .error .dataInvalid

def startsFrom (acc : Nat) : List Nat → List Nat
  | [] => []
  | l :: ls => acc :: startsFrom (acc + l) ls

/-- `np.append([0], np.cumsum(lengths)[:-1])` -/
def starts (ls : List Nat) : List Nat :=
  match ls with
  | [] => [0]
  | _ => startsFrom 0 ls

/-- offset of row `r` -/
def startOf (ls : List Nat) (r : Nat) : Nat := (ls.take r).sum

def allEq : List Nat → Bool
  | [] => true
  | l :: ls => ls.all (· == l)

structure State (α : Type) where
  data : List α
  lengths : List Nat
  array : List (List α)
  /-- built through the `lengths=<ndarray>` constructor path (matters only for the shape of
  `_array` of equal-length arrays in the unpatched code) -/
  npLen : Bool
  /-- `_data.dtype == object` (a 2-d object `_array` was fed back into the constructor); only
  bookkeeping for the public `.dtype` observer, no function of the model branches on it -/
  objDtype : Bool := false
  deriving Repr, DecidableEq

/-- what kind of numpy object `_array` is in the unpatched code -/
inductive Kind
  | ragged       -- 1-d object array of row views
  | objBlock     -- 2-d object array (n, L)
  | typedBlock   -- 2-d typed view of `_data`
  deriving Repr, DecidableEq

def State.kind (cfg : Cfg) (s : State α) : Kind :=
  if allEq s.lengths then
    (if s.npLen then .typedBlock else if cfg.arrayViewsFix then .ragged else .objBlock)
  else .ragged

/-- `RaggedArray(rows)` / `self.__init__(self._array)` : the `lengths=None` constructor path -/
def initRows (rows : List (List α)) (obj : Bool := false) : Except Err (State α) :=
  match rows with
  | [] => .error .emptyArray
  | _ =>
    let data := rows.flatten
    let lengths := rows.map List.length
    match partitionList data lengths with
    | .ok arr => .ok ⟨data, lengths, arr, false, obj⟩
    | .error e => .error e

/-- `RaggedArray(array=flat, lengths=ls)`; `np` = the lengths arrive as an ndarray -/
def initFlat (cfg : Cfg) (data : List α) (ls : List Nat) (np : Bool) (obj : Bool := false) :
    Except Err (State α) :=
  if data.isEmpty && !cfg.readsFix then .error .emptyArray     -- `_data` is never set
  else match ls with
  | [] =>
    if cfg.readsFix then
      (match partitionList data ls with
        | .ok arr => .ok ⟨data, ls, arr, np, obj⟩
        | .error e => .error e)
    else .error .indexError                       -- lengths[0]
  | l0 :: _ =>
    if np && allEq ls then
      if cfg.readsFix then
        if ls.length * l0 = data.length then .ok ⟨data, ls, partition ls data, true, obj⟩
        else .error .valueError
      else
        -- `self._data.reshape(-1, lengths[0])`: no check of the sum
        if l0 = 0 then .error .valueError
        else if data.length % l0 = 0 then
          .ok ⟨data, ls, partition (List.replicate (data.length / l0) l0) data, true, obj⟩
        else .error .valueError
    else
      match partitionList data ls with
      | .ok arr => .ok ⟨data, ls, arr, np, obj⟩
      | .error e => .error e

/-- `self._array = np.array(partition_list(self._data, self.lengths), dtype='O')` -/
def rebuild (data : List α) (ls : List Nat) (obj : Bool := false) : Except Err (State α) :=
  match partitionList data ls with
  | .ok arr => .ok ⟨data, ls, arr, false, obj⟩
  | .error e => .error e

/-! ## Python / numpy index arithmetic -/

def mapE {β γ : Type} (f : β → Except Err γ) : List β → Except Err (List γ)
  | [] => .ok []
  | x :: xs =>
    match f x with
    | .error e => .error e
    | .ok y =>
      match mapE f xs with
      | .error e => .error e
      | .ok ys => .ok (y :: ys)

/-- integer index into an axis of length `n` (negative wraps once) -/
def normIdx (n : Nat) (i : Int) : Except Err Nat :=
  if 0 ≤ i then (if i < n then .ok i.toNat else .error .indexError)
  else (if 0 ≤ i + n then .ok (i + n).toNat else .error .indexError)

/-- `range(*s.indices(n))`, `ValueError` for step 0 -/
def pyIndices (n : Nat) (s : PySlice) : Except Err (List Nat) :=
  match s.indices n with
  | none => .error .valueError
  | some ix => .ok ix

/-- Python `range(start, stop, step)` / `np.arange` on ints, step ≠ 0 -/
def pyRange (start stop step : Int) : List Int :=
  rangeAux stop step ((stop - start).natAbs + 1) start

/-- `_slice_to_list(s, length=n)` as written -/
def sliceToListAsIs (s : PySlice) (n : Nat) : Except Err (List Int) :=
  let start : Int := match s.start with
    | none => 0
    | some v => if v < 0 then n + v else v
  let stop : Int := match s.stop with
    | none => n
    | some v => if v < 0 then n + v else v
  -- `elif step < 0 and stop is None and start is None` is dead: both were replaced above
  let step : Int := s.step.getD 1
  if step = 0 then .error .valueError else .ok (pyRange start stop step)

def sliceToList (cfg : Cfg) (s : PySlice) (n : Nat) : Except Err (List Int) :=
  if cfg.readsFix then
    match pyIndices n s with
    | .ok ix => .ok (ix.map Int.ofNat)
    | .error e => .error e
  else sliceToListAsIs s n

/-- `lengths[num]` for a raw (possibly negative) row number -/
def lenAt (ls : List Nat) (num : Int) : Except Err Nat :=
  match normIdx ls.length num with
  | .error e => .error e
  | .ok r => match ls[r]? with
    | some l => .ok l
    | none => .error .indexError

/-- column positions of one row in `_get_iis_from_slices` as written -/
def colsAsIs (c : PySlice) (l : Nat) : Except Err (List Int) :=
  let start : Int := c.start.getD 0
  let step : Int := c.step.getD 1
  let stop : Int := match c.stop with
    | none => l
    | some v => if v < 0 then l + v else (if v > l then l else v)
  if step = 0 then .error .valueError else .ok (pyRange start stop step)

/-- `np.arange(*c.indices(l))` (the repaired helper) -/
def colsPy (c : PySlice) (l : Nat) : Except Err (List Int) :=
  match pyIndices l c with
  | .ok ix => .ok (ix.map Int.ofNat)
  | .error e => .error e

def colsOf (cfg : Cfg) (c : PySlice) (l : Nat) : Except Err (List Int) :=
  if cfg.readsFix then colsPy c l else colsAsIs c l

/-- the pairs of one row in `_get_iis_from_slices` (row number as given) -/
def rowPairs (cfg : Cfg) (c : PySlice) (ls : List Nat) (num : Int) : Except Err (List (Int × Int)) :=
  match lenAt ls num with
  | .error e => .error e
  | .ok l => match colsOf cfg c l with
    | .error e => .error e
    | .ok cs => .ok (cs.map fun j => (num, j))

/-- `_get_iis_from_slices(rows, c, lengths)` : raw 2-d pairs -/
def getIisFromSlices (cfg : Cfg) (rows : List Int) (c : PySlice) (ls : List Nat) :
    Except Err (List (Int × Int)) :=
  match mapE (rowPairs cfg c ls) rows with
  | .error e => .error e
  | .ok groups =>
    if cfg.readsFix then .ok groups.flatten
    else
      -- np.concatenate([... list(repeat(row, len)) ...], dtype=int): no list, or an empty list
      if groups.isEmpty || groups.any (·.isEmpty) then .error .valueError
      else .ok groups.flatten

/-- `_get_iis_from_list(rows, cols)` -/
def getIisFromList (cfg : Cfg) (rows cols : List Int) : Except Err (List (Int × Int)) :=
  let prod := rows.flatMap fun r => cols.map fun j => (r, j)
  if prod.isEmpty && !cfg.readsFix then .error .valueError   -- `first, second = iis` cannot unpack
  else .ok prod

/-- one pair of `_convert_from_2d` (+ `_handle_negative_indices` + the bounds check) -/
def convertOne (ls : List Nat) (p : Int × Int) : Except Err Nat :=
  match normIdx ls.length p.1 with
  | .error e => .error e
  | .ok r =>
    match ls[r]? with
    | none => .error .indexError
    | some l =>
      match normIdx l p.2 with
      | .error e => .error e
      | .ok c => .ok (startOf ls r + c)

def convertFrom2d (ls : List Nat) (iis : List (Int × Int)) : Except Err (List Nat) :=
  mapE (convertOne ls) iis

/-- row selector of a 2-d index -/
inductive Sel
  | slice (s : PySlice)
  | list (l : List Int)
  deriving Repr, DecidableEq

/-- column selector of a 2-d index -/
inductive CSel
  | slice (s : PySlice)
  | int (j : Int)
  | list (l : List Int)
  deriving Repr, DecidableEq

/-- the index conversion of the tuple branch of `__setitem__` / `__getitem__`
(`(int, slice)` is a different branch: `setIntSlice`) -/
def iis2d (cfg : Cfg) (ls : List Nat) (r : Sel) (c : CSel) : Except Err (List (Int × Int)) :=
  match r, c with
  | .slice rs, .slice cs =>
    match sliceToList cfg rs ls.length with
    | .error e => .error e
    | .ok rows => getIisFromSlices cfg rows cs ls
  | .slice rs, .int j =>
    match sliceToList cfg rs ls.length with
    | .error e => .error e
    | .ok rows => getIisFromList cfg rows [j]
  | .slice rs, .list l =>
    match sliceToList cfg rs ls.length with
    | .error e => .error e
    | .ok rows => getIisFromList cfg rows l
  | .list rows, .slice cs => getIisFromSlices cfg rows cs ls
  | .list _, _ => .error .valueError      -- paired forms are `setPaired`

/-- no row is selected (the value read back by `a[r, c]` is then a RaggedArray without rows) -/
def noRows (cfg : Cfg) (n : Nat) : Sel → Bool
  | .slice rs => match sliceToList cfg rs n with
    | .ok rows => rows.isEmpty
    | .error _ => false
  | .list l => l.isEmpty

/-- index pairs of the branch without a slice: `([..],[..])`, `(i,[..])`, `([..],j)`, `(i,j)` -/
def pairedIis (r c : List Int) : Except Err (List (Int × Int)) :=
  if r.length = c.length then .ok (r.zip c)
  else if c.length = 1 then .ok (r.map fun i => (i, c.headD 0))
  else if r.length = 1 then .ok (c.map fun j => (r.headD 0, j))
  else .error .valueError

/-- `np.where(flat)[0]` : positions of the `True` entries (counted from `k`) -/
def trueIdx : List Bool → Nat → List Nat
  | [], _ => []
  | b :: bs, k => if b then k :: trueIdx bs (k + 1) else trueIdx bs (k + 1)

/-- `np.where(starts <= ii)[0][-1]` : the last row whose start is `≤ ii` -/
def findRowAux (ii : Nat) : List Nat → Nat → Nat → Nat
  | [], _, best => best
  | st :: rest, k, best => findRowAux ii rest (k + 1) (if st ≤ ii then k else best)

def findRow (sts : List Nat) (ii : Nat) : Nat := findRowAux ii sts 0 0

/-- positions of the `True` cells: `np.where(mask._data)` then `_convert_from_1d` with the
mask's own starts -/
def whereMask (mask : List (List Bool)) : List (Int × Int) :=
  let sts := starts (mask.map List.length)
  (trueIdx mask.flatten 0).map fun ii =>
    let r := findRow sts ii
    ((r : Int), ((ii - sts.getD r 0 : Nat) : Int))

/-! ## values -/

inductive Val (α : Type)
  | scalar (x : α)
  | flat (xs : List α)
  | nested (xss : List (List α))
  deriving Repr, DecidableEq

/-- `value_1d` broadcast to `t` targets (`self._data[iis_1d] = value_1d`) -/
def bcast (xs : List α) (t : Nat) : Except Err (List α) :=
  match xs with
  | [x] => .ok (List.replicate t x)
  | _ => if xs.length = t then .ok xs else .error .valueError

def Val.resolve (cfg : Cfg) (v : Val α) (t : Nat) : Except Err (List α) :=
  match v with
  | .scalar x => .ok (List.replicate t x)
  | .flat [] | .nested [] =>
    if cfg.rowViewsFix then bcast [] t else .error .indexError     -- `value[0]` on an empty value
  | .flat xs => bcast xs t
  | .nested xss => bcast xss.flatten t

/-- numpy fancy assignment `d[iis] = vals` (in order; the last write to a cell wins) -/
def scatter (d : List α) : List Nat → List α → List α
  | i :: is, x :: xs => scatter (d.set i x) is xs
  | _, _ => d

/-! ## container forms of a row-structured value (`a[sel] = value`, `append(value)`) -/

inductive Form
  | ra         -- a RaggedArray (built from a list of arrays)
  | listarr    -- list of 1-d ndarrays
  | listlist   -- list of lists
  | arr2d      -- 2-d ndarray (only for equal lengths)
  deriving Repr, DecidableEq

/-- outcome class of `self._array[iis] = value` for a *block* `_array` in the unpatched code -/
inductive RowAssign
  | ok
  | spread      -- every row holds one value: each selected row is filled with it (silently wrong)
  | valueError
  | garbled
  deriving Repr, DecidableEq

/-- numpy's decision for `block[sel] = value`, `block` of shape `(n, L)`, `m` selected rows,
`vs` the `k` value rows in container `form`. -/
def blockAssign (typed : Bool) (form : Form) (m L : Nat) (vs : List (List α)) : RowAssign :=
  let k := vs.length
  let vrect := allEq (vs.map List.length)
  let L' := (vs.map List.length).headD 0
  -- value seen by numpy as a (k, L') block
  let asBlock : RowAssign :=
    if k = m ∨ k = 1 then
      (if L' = L then .ok else if L' = 1 then .spread else .valueError)
    else .valueError
  -- value seen by numpy as a 1-d object array of k row objects, target (m, L)
  let asRowObjects : RowAssign :=
    if typed then .valueError
    else if k = L ∨ k = 1 then .garbled else .valueError
  if k = 0 then .valueError else
  match form with
  -- (the row-by-row branch added by fcc7c53 only applies to a 1-d `_array`, so a block
  -- target sees the value as numpy sees it)
  | .ra => if vrect then asBlock else asRowObjects     -- `value._array`: block or row objects
  | .arr2d => asBlock
  | .listarr | .listlist => if vrect then asBlock else asRowObjects

/-! ## operations -/

inductive Op (α : Type)
  | setElem (i j : Int) (x : α)                                   -- a[i, j] = x
  | viewWrite (i j : Int) (x : α)                                 -- row = a[i]; row[j] = x
  | setRow (i : Int) (v : List α)                                 -- a[i] = v
  | setRows (sel : Sel) (vs : List (List α)) (form : Form)        -- a[sel] = vs
  | setIntSlice (i : Int) (s : PySlice) (v : Val α)               -- a[i, s] = v
  | set2d (r : Sel) (c : CSel) (v : Val α)                        -- a[r, c] = v
  | setPaired (r c : List Int) (v : Val α)                        -- a[(r, c)] = v
  | setMask (mask : List (List Bool)) (v : Val α)                 -- a[mask] = v
  | append (vs : List (List α)) (form : Form)                     -- a.append(vs)
  | appendFlat (v : List α)                                       -- a.append([x, y, …])
  | iop (f : α → α)                                               -- a = a ⊕ scalar  (what `a ⊕= c` does)
  | iop2 (g : α → α → α) (o : List (List α))                      -- a = a ⊕ RaggedArray(o)
  | iopAt (r : Sel) (c : CSel) (f : α → α)                        -- a[r, c] ⊕= scalar
  | binop (f : α → α)                                             -- b = a ⊕ scalar, b = ~a, b = a < c …
  | binop2 (g : α → α → α) (o : List (List α))                    -- b = a ⊕ RaggedArray(o)
  | copyCtor (viaFlat np : Bool)                                  -- a = RaggedArray(copy of a's content)
  /-- `b = c ⊕ a` (`rebind = false`) or `a = c ⊕ a` (`rebind = true`) where the LEFT operand `c` is a
  numpy scalar or 0-d array (`np.int64(2) * a`, `w[0] + a`, `np.float32(1) < a`) -/
  | npLeft (f : α → α) (rebind : Bool)

/-- `RaggedArray(array=new_data, lengths=self.lengths)` of `map_operator` / `__invert__` -/
def mapOp {β : Type} (cfg : Cfg) (f : α → β) (s : State α) : Except Err (State β) :=
  initFlat cfg (s.data.map f) s.lengths true s.objDtype

/-- `getattr(self._data, op)(other._data)` then rewrap: numpy broadcasting of two 1-d arrays -/
def zipOp {β γ : Type} (cfg : Cfg) (g : α → β → γ) (s : State α) (o : List β) :
    Except Err (State γ) :=
  if o.length = s.data.length then initFlat cfg (List.zipWith g s.data o) s.lengths true s.objDtype
  else match o, s.data with
    | [y], _ => initFlat cfg (s.data.map (g · y)) s.lengths true s.objDtype
    | _, [x] => initFlat cfg (o.map (g x ·)) s.lengths true s.objDtype
    | _, _ => .error .valueError

/-- `k` row objects for `m` selected rows: numpy wants `k = m`, or broadcasts a single one -/
def bcastRows (vs : List (List α)) (m : Nat) : Except Err (List (List α)) :=
  if vs.length = m then .ok vs
  else match vs with
    | [v] => .ok (List.replicate m v)
    | _ => .error .valueError

/-- rows selected by `_array[sel]` (numpy basic / fancy indexing on axis 0) -/
def rowSel (n : Nat) : Sel → Except Err (List Nat)
  | .slice s => pyIndices n s
  | .list l => mapE (normIdx n) l

/-- number of rows a selector addresses, known to numpy before any index is checked -/
def selCount (n : Nat) : Sel → Except Err Nat
  | .slice s => match pyIndices n s with
    | .ok ix => .ok ix.length
    | .error e => .error e
  | .list l => .ok l.length

/-- `rows[idx[k]] = vs[k]` -/
def setMany (rows : List (List α)) : List Nat → List (List α) → List (List α)
  | i :: is, v :: vs => setMany (rows.set i v) is vs
  | _, _ => rows

/-- does `self.__init__(self._array)` see object rows?  (unpatched code: rows of a 2-d object block) -/
def leak (cfg : Cfg) (s : State α) : Bool :=
  s.objDtype || (!cfg.rowViewsFix && s.kind cfg == .objBlock)

/-- rows of a RaggedArray *value* with equal lengths are rows of its 2-d object block -/
def leakVal (cfg : Cfg) (form : Form) (vs : List (List α)) : Bool :=
  !cfg.rowViewsFix && form == .ra && !vs.isEmpty && allEq (vs.map List.length)

/-- `f(self._data[i])` -/
def gatherMap (f : α → α) (d : List α) (i : Nat) : Except Err α :=
  match d[i]? with
  | some x => .ok (f x)
  | none => .error .indexError

/-- shared end of every scatter write: `self._data[iis_1d] = value_1d`, rebuild `_array` -/
def scatterWrite (cfg : Cfg) (s : State α) (iis : List (Int × Int)) (v : Val α) :
    Except Err (State α) :=
  match convertFrom2d s.lengths iis with
  | .error e => .error e
  | .ok flat =>
    match v.resolve cfg flat.length with
    | .error e => .error e
    | .ok vals => rebuild (scatter s.data flat vals) s.lengths s.objDtype

/-- numpy's verdict on `self._array[sel] = value` (`m` selected rows) -/
def rowClass (cfg : Cfg) (s : State α) (form : Form) (m : Nat) (vs : List (List α)) : RowAssign :=
  if cfg.rowViewsFix || s.kind cfg == .ragged then
    -- as many row objects as selected rows, or one for all
    (match bcastRows vs m with | .ok _ => .ok | .error _ => .valueError)
  else blockAssign (s.kind cfg == .typedBlock) form m (s.lengths.headD 0) vs

/-- a one-element row is spread over a block row -/
def spreadRows (L : Nat) (w : List (List α)) : List (List α) :=
  w.map fun row => match row with
    | [x] => List.replicate L x
    | _ => row

/-- `self._array[sel] = value; self.__init__(self._array)` given numpy's verdict, the broadcast
value rows and the selected row numbers (errors in the order numpy raises them) -/
def setRowsWith (cfg : Cfg) (s : State α) (form : Form) (vs : List (List α)) :
    RowAssign → Except Err (List (List α)) → Except Err (List Nat) →
    Except Err (State α × Option (State α))
  | .valueError, _, _ => .error .valueError
  | _, _, .error e => .error e
  | .garbled, _, _ => .error .garbled
  | _, .error e, _ => .error e
  | .ok, .ok w, .ok idx =>
    (match initRows (setMany s.array idx w)
        (leak cfg s || (leakVal cfg form vs && s.kind cfg != .typedBlock)) with
      | .error e => .error e
      | .ok s' => .ok (s', none))
  | .spread, .ok w, .ok idx =>
    (match initRows (setMany s.array idx (spreadRows (s.lengths.headD 0) w))
        (leak cfg s || (leakVal cfg form vs && s.kind cfg != .typedBlock)) with
      | .error e => .error e
      | .ok s' => .ok (s', none))

/-- the test `append` uses for "the current RaggedArray is blank": `len(self._data) == 0` (true also for
an array whose rows are all empty) or, repaired, `len(self.lengths) == 0` -/
def blankTest (cfg : Cfg) (s : State α) : Bool :=
  if cfg.appendEmptyFix then s.lengths.isEmpty else s.data.isEmpty

/-- numpy's own scalar operator runs first: without `__array_priority__` it converts the ragged array
through `__len__/__getitem__` — an inhomogeneous-shape ValueError for unequal rows, a plain 2-d ndarray
(not a RaggedArray) for equal rows; with it, numpy defers to `RaggedArray.__r<op>__` -/
def npLeftStep (cfg : Cfg) (s : State α) (f : α → α) (rebind : Bool) :
    Except Err (State α × Option (State α)) :=
  if cfg.priorityFix then
    match mapOp cfg f s with
    | .error e => .error e
    | .ok b => if rebind then .ok (b, none) else .ok (s, some b)
  else if allEq s.lengths then .error .notRagged
  else .error .valueError

def step (cfg : Cfg) (s : State α) : Op α → Except Err (State α × Option (State α))
  | .setElem i j x =>
    match scatterWrite cfg s [(i, j)] (.scalar x) with
    | .error e => .error e
    | .ok s' => .ok (s', none)
  | .viewWrite i j x =>
    match normIdx s.array.length i with
    | .error e => .error e
    | .ok r =>
      match s.array[r]? with
      | none => .error .indexError
      | some row =>
        match normIdx row.length j with
        | .error e => .error e
        | .ok c =>
          let arr' := s.array.modify r (·.set c x)
          -- a row of a 2-d object block is a view of the block, not of `_data`
          if s.kind cfg == .objBlock then .ok ({ s with array := arr' }, none)
          else .ok ({ s with array := arr', data := s.data.set (startOf s.lengths r + c) x }, none)
  | .setRow i v =>
    match normIdx s.array.length i with
    | .error e => .error e
    | .ok r =>
      let L := s.lengths.headD 0
      let v' : Except Err (List α) :=
        if cfg.rowViewsFix || s.kind cfg == .ragged || v.length == L then .ok v
        else match v with
          | [x] => .ok (List.replicate L x)      -- numpy broadcasts one value over the block row
          | _ => .error .valueError
      match v' with
      | .error e => .error e
      | .ok w => match initRows (s.array.set r w) (leak cfg s) with
        | .error e => .error e
        | .ok s' => .ok (s', none)
  | .setRows sel vs form =>
    -- numpy checks the shape of the value against the shape of the selection first, the
    -- bounds of a fancy index only while assigning
    match selCount s.array.length sel with
    | .error e => .error e
    | .ok m =>
      setRowsWith cfg s form vs (rowClass cfg s form m vs) (bcastRows vs m) (rowSel s.array.length sel)
  | .setIntSlice i sl v =>
    match normIdx s.array.length i with
    | .error e => .error e
    | .ok r =>
      match s.array[r]? with
      | none => .error .indexError
      | some row =>
        match pyIndices row.length sl with
        | .error e => .error e
        | .ok cols =>
          let vals : Except Err (List α) := match v with
            | .scalar x => .ok (List.replicate cols.length x)
            | .flat xs => bcast xs cols.length
            | .nested _ => .error .valueError       -- not a form of this branch
          match vals with
          | .error e => .error e
          | .ok vals =>
            match initRows (s.array.set r (scatter row cols vals)) (leak cfg s) with
            | .error e => .error e
            | .ok s' => .ok (s', none)
  | .set2d r c v =>
    match iis2d cfg s.lengths r c with
    | .error e => .error e
    | .ok iis => match scatterWrite cfg s iis v with
      | .error e => .error e
      | .ok s' => .ok (s', none)
  | .setPaired r c v =>
    match pairedIis r c with
    | .error e => .error e
    | .ok iis => match scatterWrite cfg s iis v with
      | .error e => .error e
      | .ok s' => .ok (s', none)
  | .setMask mask v =>
    let iis := whereMask mask
    if iis.isEmpty && !cfg.readsFix then .error .indexError   -- float index arrays from `where`
    else match scatterWrite cfg s iis v with
      | .error e => .error e
      | .ok s' => .ok (s', none)
  | .append vs form =>
    if blankTest cfg s then             -- `self.__init__(values)`: the array is REPLACED by the values
      match initRows vs (leakVal cfg form vs) with
      | .error e => .error e
      | .ok s' => .ok (s', none)
    else
    match vs with
    | [] => .error (if cfg.appendFix then .indexError else .valueError)   -- `values[0]` / np.concatenate([])
    | _ =>
      match rebuild (s.data ++ vs.flatten) (s.lengths ++ vs.map List.length)
          (s.objDtype || leakVal cfg form vs) with
      | .error e => .error e
      | .ok s' => .ok (s', none)
  | .appendFlat v =>
    if blankTest cfg s then             -- `self.__init__(values)` with a flat sequence
      match v with
      | [] => .error .emptyArray
      | _ => .ok (⟨v, [v.length], [v], true, false⟩, none)
    else if cfg.appendFix then
      match v with
      | [] => .error .indexError        -- values[0]
      | _ => match rebuild (s.data ++ v) (s.lengths ++ [v.length]) s.objDtype with
        | .error e => .error e
        | .ok s' => .ok (s', none)
    else .error .valueError             -- np.concatenate of scalars
  | .iop f =>
    match mapOp cfg f s with
    | .error e => .error e
    | .ok s' => .ok (s', none)
  | .iop2 g o =>
    match zipOp cfg g s o.flatten with
    | .error e => .error e
    | .ok s' => .ok (s', none)
  | .iopAt r c f =>
    match iis2d cfg s.lengths r c with
    | .error e => .error e
    | .ok iis =>
      match convertFrom2d s.lengths iis with
      | .error e => .error e
      | .ok flat =>
        -- a[r, c] gathers, the operator maps, a[r, c] = … scatters the mapped copy
        match mapE (gatherMap f s.data) flat with
        | .error e => .error e
        | .ok vals =>
          -- `value[0]` on the `_array` of a RaggedArray without rows
          if noRows cfg s.lengths.length r && !cfg.rowViewsFix then .error .indexError
          else match rebuild (scatter s.data flat vals) s.lengths s.objDtype with
            | .error e => .error e
            | .ok s' => .ok (s', none)
  | .binop f =>
    match mapOp cfg f s with
    | .error e => .error e
    | .ok b => .ok (s, some b)
  | .binop2 g o =>
    match zipOp cfg g s o.flatten with
    | .error e => .error e
    | .ok b => .ok (s, some b)
  | .copyCtor viaFlat np =>
    if viaFlat then
      match initFlat cfg s.data s.lengths np with
      | .error e => .error e
      | .ok s' => .ok (s', none)
    else
      match initRows s.array with
      | .error e => .error e
      | .ok s' => .ok (s', none)
  | .npLeft f rebind => npLeftStep cfg s f rebind

/-- a history: a rejected operation leaves the object as it was -/
def run (cfg : Cfg) (s : State α) : List (Op α) → State α
  | [] => s
  | op :: ops =>
    match step cfg s op with
    | .ok (s', _) => run cfg s' ops
    | .error _ => run cfg s ops

/-! ## observers (what the read API returns from each representation) -/

/-- `a[i]` : `self._array[i]` -/
def obsRow (s : State α) (i : Int) : Except Err (List α) :=
  match normIdx s.array.length i with
  | .error e => .error e
  | .ok r => match s.array[r]? with
    | some row => .ok row
    | none => .error .indexError

/-- `a[i, j]` : `self._data[_convert_from_2d((i, j))]` -/
def obsElem (s : State α) (i j : Int) : Except Err α :=
  match convertOne s.lengths (i, j) with
  | .error e => .error e
  | .ok k => match s.data[k]? with
    | some x => .ok x
    | none => .error .indexError

/-- iteration (`__getitem__(0), __getitem__(1), …` until `IndexError`) -/
def obsIterAux (s : State α) : Nat → Nat → List (List α)
  | 0, _ => []
  | fuel + 1, i =>
    match obsRow s (i : Int) with
    | .ok row => row :: obsIterAux s fuel (i + 1)
    | .error _ => []

def obsIter (s : State α) : List (List α) := obsIterAux s (s.array.length + 1) 0

def obsFlat (s : State α) : List α := s.data              -- flatten(), _data
def obsLengths (s : State α) : List Nat := s.lengths
def obsStarts (s : State α) : List Nat := starts s.lengths
def obsLen (s : State α) : Nat := s.array.length          -- len(a) = len(self._array)
def obsSize (s : State α) : Nat := s.data.length
/-- `all/any/max/min` : a fold over `_data` -/
def obsReduce {β : Type} (s : State α) (f : β → α → β) (init : β) : β := s.data.foldl f init

/-! ## the list-of-rows specification -/

abbrev Rows (α : Type) := List (List α)

def setCell (rows : Rows α) (r c : Nat) (x : α) : Rows α := rows.modify r (·.set c x)

def scatterRows (rows : Rows α) : List (Nat × Nat) → List α → Rows α
  | p :: ps, x :: xs => scatterRows (setCell rows p.1 p.2 x) ps xs
  | _, _ => rows

/-- a cell `(i, j)` of a list of rows, Python indexing on both levels -/
def specCell (rows : Rows α) (p : Int × Int) : Except Err (Nat × Nat) :=
  match normIdx rows.length p.1 with
  | .error e => .error e
  | .ok r => match rows[r]? with
    | none => .error .indexError
    | some row => match normIdx row.length p.2 with
      | .error e => .error e
      | .ok c => .ok (r, c)

def specColSel (row : List α) : CSel → Except Err (List Nat)
  | .slice s => pyIndices row.length s
  | .int j => mapE (normIdx row.length) [j]
  | .list l => mapE (normIdx row.length) l

/-- the cells of one row (given by its Python row number) that a column selector addresses -/
def specRowCells (rows : Rows α) (c : CSel) (num : Int) : Except Err (List (Nat × Nat)) :=
  match normIdx rows.length num with
  | .error e => .error e
  | .ok i => match rows[i]? with
    | none => .error .indexError
    | some row => match specColSel row c with
      | .error e => .error e
      | .ok cs => .ok (cs.map fun j => (i, j))

/-- Python row numbers a row selector stands for -/
def specRowNums (n : Nat) : Sel → Except Err (List Int)
  | .slice s => match pyIndices n s with
    | .ok ix => .ok (ix.map Int.ofNat)
    | .error e => .error e
  | .list l => .ok l

/-- the cells `rows[r][c]` addressed by a 2-d index, row-major -/
def specTargets (rows : Rows α) (r : Sel) (c : CSel) : Except Err (List (Nat × Nat)) :=
  match r, c with
  | .list _, .int _ => .error .valueError      -- paired forms are `setPaired`
  | .list _, .list _ => .error .valueError
  | _, _ =>
    match specRowNums rows.length r with
    | .error e => .error e
    | .ok nums =>
      match mapE (specRowCells rows c) nums with
      | .error e => .error e
      | .ok groups => .ok groups.flatten

/-- the `True` cells of a mask, row-major -/
def specMaskTargets : List (List Bool) → List (Nat × Nat)
  | [] => []
  | row :: rest =>
    (trueIdx row 0).map (fun c => (0, c)) ++ (specMaskTargets rest).map (fun p => (p.1 + 1, p.2))

/-- value list for `t` cells (numpy: same count, or one value for all) -/
def specVals (v : Val α) (t : Nat) : Except Err (List α) :=
  match v with
  | .scalar x => .ok (List.replicate t x)
  | .flat xs => bcast xs t
  | .nested xss => bcast xss.flatten t

def specScatter (rows : Rows α) (tg : List (Nat × Nat)) (v : Val α) : Except Err (Rows α) :=
  match specVals v tg.length with
  | .error e => .error e
  | .ok vals => .ok (scatterRows rows tg vals)

def specCellAt (rows : Rows α) (p : Nat × Nat) : Except Err α :=
  match rows[p.1]? with
  | none => .error .indexError
  | some row => match row[p.2]? with
    | none => .error .indexError
    | some x => .ok x

def specGatherMap (f : α → α) (rows : Rows α) (p : Nat × Nat) : Except Err α :=
  match specCellAt rows p with
  | .error e => .error e
  | .ok x => .ok (f x)

def specStep (rows : Rows α) : Op α → Except Err (Rows α × Option (Rows α))
  | .setElem i j x =>
    match specCell rows (i, j) with
    | .error e => .error e
    | .ok p => .ok (setCell rows p.1 p.2 x, none)
  | .viewWrite i j x =>
    match specCell rows (i, j) with
    | .error e => .error e
    | .ok p => .ok (setCell rows p.1 p.2 x, none)
  | .setRow i v =>
    match normIdx rows.length i with
    | .error e => .error e
    | .ok r => .ok (rows.set r v, none)
  | .setRows sel vs _ =>
    -- numpy semantics of `rows_array[sel] = vs` on a 1-d object array of rows
    match selCount rows.length sel with
    | .error e => .error e
    | .ok m =>
      match bcastRows vs m with
      | .error e => .error e
      | .ok w =>
        match rowSel rows.length sel with
        | .error e => .error e
        | .ok idx => .ok (setMany rows idx w, none)
  | .setIntSlice i sl v =>
    match normIdx rows.length i with
    | .error e => .error e
    | .ok r => match rows[r]? with
      | none => .error .indexError
      | some row =>
        match pyIndices row.length sl with
        | .error e => .error e
        | .ok cols =>
          match (match v with
            | .nested _ => (.error .valueError : Except Err (List α))
            | _ => specVals v cols.length) with
          | .error e => .error e
          | .ok vals => .ok (rows.set r (scatter row cols vals), none)
  | .set2d r c v =>
    match specTargets rows r c with
    | .error e => .error e
    | .ok tg => match specScatter rows tg v with
      | .error e => .error e
      | .ok rows' => .ok (rows', none)
  | .setPaired r c v =>
    match pairedIis r c with
    | .error e => .error e
    | .ok iis => match mapE (specCell rows) iis with
      | .error e => .error e
      | .ok tg => match specScatter rows tg v with
        | .error e => .error e
        | .ok rows' => .ok (rows', none)
  | .setMask mask v =>
    if mask.map List.length = rows.map List.length then
      match specScatter rows (specMaskTargets mask) v with
      | .error e => .error e
      | .ok rows' => .ok (rows', none)
    else .error .indexError
  | .append vs _ =>
    match vs with
    | [] => .error .indexError           -- `values[0]`
    | _ => .ok (rows ++ vs, none)
  | .appendFlat v =>
    match v with
    | [] => .error .indexError
    | _ => .ok (rows ++ [v], none)
  | .iop f => .ok (rows.map (·.map f), none)
  | .iop2 g o =>
    if o.map List.length = rows.map List.length then
      .ok (List.zipWith (List.zipWith g) rows o, none)
    else .error .valueError
  | .iopAt r c f =>
    match specTargets rows r c with
    | .error e => .error e
    | .ok tg =>
      match mapE (specGatherMap f rows) tg with
      | .error e => .error e
      | .ok vals => .ok (scatterRows rows tg vals, none)
  | .binop f => .ok (rows, some (rows.map (·.map f)))
  | .binop2 g o =>
    if o.map List.length = rows.map List.length then
      .ok (rows, some (List.zipWith (List.zipWith g) rows o))
    else .error .valueError
  | .copyCtor _ _ => .ok (rows, none)
  | .npLeft f rebind =>
    if rebind then .ok (rows.map (·.map f), none) else .ok (rows, some (rows.map (·.map f)))

def specRun (rows : Rows α) : List (Op α) → Rows α
  | [] => rows
  | op :: ops =>
    match specStep rows op with
    | .ok (rows', _) => specRun rows' ops
    | .error _ => specRun rows ops

/-- spec observers -/
def specElem (rows : Rows α) (i j : Int) : Except Err α :=
  match specCell rows (i, j) with
  | .error e => .error e
  | .ok p => specCellAt rows p

def specRow (rows : Rows α) (i : Int) : Except Err (List α) :=
  match normIdx rows.length i with
  | .error e => .error e
  | .ok r => match rows[r]? with
    | some row => .ok row
    | none => .error .indexError

end Ens.RaggedW
