import Model.Basic
import Model.Sched
/-!
Model of `enspara.info_theory`:

* `libinfo.matrix_bincount2d` (libinfo.pyx L51-79) and the 1-D kernel `libinfo.bincount2d` (L29-48): the guard stage (the six `assert`s, in
  source order; `.max()`/`.min()` of an empty array raise `ValueError`) followed by the
  triple loop `for a_row in prange(..): for b_row: for t: jc[a_row,b_row,a[t,a_row],b[t,b_row]] += 1`.
  The loop is written as a *schedule*: a list of `(a_row, step)` pairs where a step acts on the
  slab `jc[a_row, …]` only (`Model.Sched`; `seqExec` is the source order).
* `mutual_info.joint_counts` (L212-277): default state counts `int(X.max())+1`, dtype harmonisation
  (negative ids rejected, then the wider type wins, at equal item size the unsigned one; `astype` is a
  C cast: two's-complement wrap), C-`int` conversion of the state counts.  `mi_matrix` (L23-75).
* `mutual_info.mutual_information` (L280-338), `weighted_mi` (L78-179),
  `channel_capacity_normalization` (L562-595) with `_validate_feature_states_array`,
  `entropy.shannon_entropy` (L172-196), `entropy.kl_divergence` (L199-258):
  floats are not modelled; every function returns the exact rational coefficient and the exact
  rational argument of each logarithm it takes (`(c, x)` stands for `c * log x`).

State ids are `Int` everywhere (nothing is truncated to `Nat`), arrays are index functions
with explicit shape, errors are `Except`.
-/
namespace Ens.Info

inductive Err
  | assertion | valueError | dataInvalid | overflowError | runtimeError
  deriving Repr, DecidableEq

/-! ### integer arrays -/

/-- 2-D integer array, shape `(T, F)` = (frames, features) -/
structure Arr where
  T : Nat
  F : Nat
  get : Nat → Nat → Int

def Arr.entries (a : Arr) : List Int :=
  (List.range a.T).flatMap fun t => (List.range a.F).map fun f => a.get t f

/-- numpy `.max()`; `none` = "zero-size array to reduction operation" (`ValueError`) -/
def Arr.max? (a : Arr) : Option Int := a.entries.max?
def Arr.min? (a : Arr) : Option Int := a.entries.min?

/-- concatenation along the frame axis (pooling of trajectories) -/
def Arr.append (a a' : Arr) : Arr :=
  { T := a.T + a'.T, F := a.F, get := fun t f => if t < a.T then a.get t f else a'.get (t - a.T) f }

/-- reorder frames -/
def Arr.permFrames (a : Arr) (σ : Nat → Nat) : Arr := { a with get := fun t f => a.get (σ t) f }

/-- relabel the states of every feature -/
def Arr.relabel (a : Arr) (π : Nat → Int → Int) : Arr := { a with get := fun t f => π f (a.get t f) }

/-! ### `matrix_bincount2d` -/

/-- the slab `jc[a_row, …]`: indexed by `(b_row, i, j)` -/
abbrev Slab := Nat → Int → Int → Nat

def zeroSlab : Slab := fun _ _ _ => 0

/-- `jc[a_row, y, i, j] += 1` seen from inside the slab of `a_row` -/
def bumpS (y : Nat) (i j : Int) (s : Slab) : Slab :=
  fun y' i' j' => if y' = y ∧ i' = i ∧ j' = j then s y' i' j' + 1 else s y' i' j'

/-- the cells `(b_row, i, j)` of slab `x` touched by one `prange` iteration `a_row = x`, in the
order of the two inner loops (`i = a[t, x]`, `j = b[t, y]`) -/
def writesOf (a b : Arr) (x : Nat) : List (Nat × Int × Int) :=
  (List.range b.F).flatMap fun y => (List.range a.T).map fun t => (y, a.get t x, b.get t y)

/-- the body of one `prange` iteration `a_row = x`: one `+= 1` per touched cell -/
def program (a b : Arr) (x : Nat) : List (Slab → Slab) :=
  (writesOf a b x).map fun w => bumpS w.1 w.2.1 w.2.2

/-- the per-cell programs of the `prange`: cell `x` = slab `jc[x, …]`, one program per `a_row` -/
def progs (a b : Arr) : List (List (Slab → Slab)) := (List.range a.F).map (program a b)

/-- the source order of the triple loop (`a_row` outermost) -/
def seqExec (a b : Arr) : Sched.Exec Slab := Sched.seqExec (progs a b)

/-- the `assert`s of `matrix_bincount2d`, in source order -/
def guard (a b : Arr) (nA nB : Int) : Except Err Unit := do
  if ¬ (a.F < 2 ^ 32) then throw .assertion
  if a.T ≠ b.T then throw .assertion
  match a.max? with
  | none => throw .valueError
  | some m => if ¬ (m < nA) then throw .assertion
  match b.max? with
  | none => throw .valueError
  | some m => if ¬ (m < nB) then throw .assertion
  match a.min? with
  | none => throw .valueError
  | some m => if ¬ (0 ≤ m) then throw .assertion
  match b.min? with
  | none => throw .valueError
  | some m => if ¬ (0 ≤ m) then throw .assertion

/-- joint-count table of shape `(Fa, Fb, nA, nB)` -/
structure JC where
  Fa : Nat
  Fb : Nat
  nA : Int
  nB : Int
  cnt : Nat → Nat → Int → Int → Nat

def matrixBincount2d (a b : Arr) (nA nB : Int) : Except Err JC := do
  guard a b nA nB
  pure { Fa := a.F, Fb := b.F, nA := nA, nB := nB,
         cnt := Sched.run (seqExec a b) (fun _ => zeroSlab) }

/-- the same kernel executed under an arbitrary schedule of the `prange` (the `choices` pick which
`a_row` advances by one inner step next; `Sched.schedule_isInterleaving`) -/
def matrixBincount2dSched (choices : List Nat) (a b : Arr) (nA nB : Int) : Except Err JC := do
  guard a b nA nB
  pure { Fa := a.F, Fb := b.F, nA := nA, nB := nB,
         cnt := Sched.run (Sched.schedule (progs a b) choices) (fun _ => zeroSlab) }

def JC.toLists (j : JC) : List (List (List (List Nat))) :=
  tabulate j.Fa fun x =>
    let slab := j.cnt x
    tabulate j.Fb fun y => tabulate j.nA.toNat fun u => tabulate j.nB.toNat fun v => slab y u v

/-- pointwise sum (`jc += jc_i` in `mi_matrix`) -/
def JC.add (p q : JC) : JC := { p with cnt := fun x y i j => p.cnt x y i j + q.cnt x y i j }

/-! ### `bincount2d` (the 1-D kernel, libinfo.pyx L29-48) -/

/-- a single joint-count table of shape `(nA, nB)` -/
structure Tab2 where
  nA : Int
  nB : Int
  cnt : Int → Int → Nat

/-- the cells touched by the loop `for t: H[a[t], b[t]] += 1` (1-D arrays are columns 0) -/
def writes1 (a b : Arr) : List (Nat × Int × Int) :=
  (List.range a.T).map fun t => (0, a.get t 0, b.get t 0)

/-- `np.zeros((n_a, n_b))` (negative sizes raise `ValueError`), the length assert, the range
asserts (only for non-empty input), the sequential loop -/
def bincount2d (a b : Arr) (nA nB : Int) : Except Err Tab2 := do
  if nA < 0 ∨ nB < 0 then throw .valueError
  if a.T ≠ b.T then throw .assertion
  if a.T > 0 then
    match a.max?, b.max?, a.min?, b.min? with
    | some ma, some mb, some la, some lb =>
      if ¬ (ma < nA ∧ mb < nB) then throw .assertion
      if ¬ (0 ≤ la ∧ 0 ≤ lb) then throw .assertion
    | _, _, _, _ => throw .valueError
  pure { nA := nA, nB := nB,
         cnt := Sched.runSteps ((writes1 a b).map fun w => bumpS w.1 w.2.1 w.2.2) zeroSlab 0 }

def Tab2.toLists (h : Tab2) : List (List Nat) :=
  tabulate h.nA.toNat fun u => tabulate h.nB.toNat fun v => h.cnt u v

/-! ### `joint_counts` -/

structure DType where
  bits : Nat
  signed : Bool
  deriving Repr, DecidableEq

def DType.itemsize (d : DType) : Nat := d.bits / 8

/-- conversion of an integer to the dtype as C / numpy `astype` do it (two's complement wrap) -/
def DType.cast (d : DType) (v : Int) : Int :=
  let m := v % (2 ^ d.bits : Int)
  if d.signed ∧ m ≥ 2 ^ (d.bits - 1) then m - 2 ^ d.bits else m

structure TArr where
  dt : DType
  arr : Arr

def TArr.astype (x : TArr) (d : DType) : TArr :=
  { dt := d, arr := { x.arr with get := fun t f => d.cast (x.arr.get t f) } }

/-- `int(X.max())+1` (a Python integer: no wrap) -/
def defaultN (x : TArr) : Except Err Int :=
  match x.arr.max? with
  | none => throw .valueError
  | some m => pure (m + 1)

/-- conversion of a Python integer to the C `int` parameter -/
def toCInt (n : Int) : Except Err Int :=
  if -(2 ^ 31) ≤ n ∧ n < 2 ^ 31 then pure n else throw .overflowError

/-- direct call of the fused-type kernel: both buffers must have the same dtype -/
def matrixBincount2dTyped (a b : TArr) (nA nB : Int) : Except Err JC := do
  if a.dt ≠ b.dt then throw .valueError
  let nA ← toCInt nA
  let nB ← toCInt nB
  matrixBincount2d a.arr b.arr nA nB

/-- dtype harmonisation of `joint_counts` (L257-275): negative ids are rejected before the cast;
the wider type wins, at equal item size the unsigned one -/
def harmonise (X Y : TArr) : Except Err (TArr × TArr) :=
  if X.dt = Y.dt then pure (X, Y)
  else
    -- `if X.min() < 0 or Y.min() < 0: raise DataInvalid` (short-circuit: `Y.min()` is only evaluated
    -- when `X.min() >= 0`; `.min()` of an empty array is a ValueError)
    match X.arr.min? with
    | none => throw .valueError
    | some mx =>
      if mx < 0 then throw .dataInvalid
      else match Y.arr.min? with
        | none => throw .valueError
        | some my =>
          if my < 0 then throw .dataInvalid
          else if X.dt.itemsize > Y.dt.itemsize ∨ (X.dt.itemsize = Y.dt.itemsize ∧ X.dt.signed = false) then
            pure (X, Y.astype X.dt)
          else pure (X.astype Y.dt, Y)

def jointCounts (X : TArr) (Y : Option TArr) (nx ny : Option Int) : Except Err JC := do
  let nx ← match nx with
    | some n => pure n
    | none => defaultN X
  match Y with
  | none => matrixBincount2dTyped X X nx nx
  | some Y =>
    let ny ← match ny with
      | some n => pure n
      | none => defaultN Y
    let XY ← harmonise X Y
    matrixBincount2dTyped XY.1 XY.2 nx ny

/-! ### `mutual_information` -/

/-- a term `c * log x` -/
abbrev Term := Rat × Rat

def rowSum (c : Nat → Nat → Nat) (nB : Nat) (u : Nat) : Nat := sumTo nB fun v => c u v
def colSum (c : Nat → Nat → Nat) (nA : Nat) (v : Nat) : Nat := sumTo nA fun u => c u v
def total (c : Nat → Nat → Nat) (nA nB : Nat) : Nat := sumTo nA fun u => rowSum c nB u

/-- `np.divide(k, N, where=N > 0, out=zeros)` -/
def gdiv (k N : Nat) : Rat := if N > 0 then (k : Rat) / (N : Rat) else 0

/-- one cell `(u, v)` of the quadruple loop of `mutual_information` -/
def miCell (c : Nat → Nat → Nat) (nA nB : Nat) (u v : Nat) : Option Term :=
  let N := total c nA nB
  let pxy := gdiv (c u v) N
  let px := gdiv (rowSum c nB u) N
  let py := gdiv (colSum c nA v) N
  if pxy = 0 ∨ px = 0 ∨ py = 0 then none else some (pxy, pxy / (px * py))

/-- the terms of `mi[i, j]` for the `nA × nB` table `c` -/
def miTerms (c : Nat → Nat → Nat) (nA nB : Nat) : List Term :=
  (List.range nA).flatMap fun u => (List.range nB).filterMap fun v => miCell c nA nB u v

/-- the table of one feature pair -/
def JC.table (j : JC) (x y : Nat) : Nat → Nat → Nat := fun u v => j.cnt x y (u : Int) (v : Int)

def mutualInformationTerms (j : JC) : List (List (List Term)) :=
  tabulate j.Fa fun x => tabulate j.Fb fun y => miTerms (j.table x y) j.nA.toNat j.nB.toNat

/-- `mi_matrix` before normalisation: pooled counts of the trajectories, then `mutual_information` -/
def miMatrixCounts (trajs : List (TArr × TArr)) (nx ny : Int) : Except Err JC := do
  match trajs with
  | [] => throw .valueError          -- `jc` stays `None`: AttributeError in `mutual_information`
  | (X, Y) :: rest =>
    let j0 ← jointCounts X (some Y) (some nx) (some ny)
    rest.foldlM (fun acc (XY : TArr × TArr) => do
      let ji ← jointCounts XY.1 (some XY.2) (some nx) (some ny)
      if ji.Fa ≠ acc.Fa ∨ ji.Fb ≠ acc.Fb then throw .dataInvalid
      pure (acc.add ji)) j0

/-! ### `shannon_entropy`, `kl_divergence` -/

def ratSum (l : List Rat) : Rat := l.foldl (· + ·) 0

/-- `-Σ p log p` over the positive entries; `normalize` divides by the sum first
(a zero sum gives nan in the code: `runtimeError` here) -/
def entropyTerms (p : List Rat) (normalize : Bool) : Except Err (List Term) := do
  let p ← if normalize then
      (if ratSum p = 0 then throw .runtimeError else pure (p.map (· / ratSum p)))
    else pure p
  pure (p.filterMap fun x => if x > 0 then some (-x, x) else none)

inductive KL
  | inf
  | terms (l : List Term)
  deriving Repr, DecidableEq

/-- one distribution pair of `kl_divergence` (natural-log terms; the caller divides by `log base`) -/
def klTerms (P Q : List Rat) : Except Err KL := do
  if P.length ≠ Q.length then throw .runtimeError      -- bare `raise`
  if P.any (· < 0) ∨ Q.any (· < 0) then throw .dataInvalid
  let pq := P.zip Q
  if pq.any (fun x => x.1 > 0 ∧ x.2 = 0) then pure .inf
  else pure (.terms (pq.filterMap fun x => if x.1 > 0 then some (x.1, x.1 / x.2) else none))

/-! ### `channel_capacity_normalization` -/

/-- `np.meshgrid(x, y, indexing='ij')` -/
def meshgridIJ {α} (x y : List α) : List (List α) × List (List α) :=
  (x.map fun xi => y.map fun _ => xi, x.map fun _ => y)

/-- `np.meshgrid(x, y)` (default `indexing='xy'`) -/
def meshgridXY {α} (x y : List α) : List (List α) × List (List α) :=
  (y.map fun _ => x, y.map fun yi => x.map fun _ => yi)

/-- `_validate_feature_states_array`: a scalar is broadcast, entries must be ≥ 2, length must match -/
def validateStates (n : Int ⊕ List Int) (dim : Nat) : Except Err (List Int) := do
  let l := match n with
    | .inl k => List.replicate dim k
    | .inr l => l
  if l.any (· < 2) then throw .dataInvalid
  if l.length ≠ dim then throw .dataInvalid
  pure l

/-- `np.fmin(*np.meshgrid(n_x, n_y, indexing='ij'))` -/
def ccnGrid (nx ny : List Int) : List (List Int) :=
  let g := meshgridIJ nx ny
  List.zipWith (fun r s => List.zipWith min r s) g.1 g.2

/-- the argument of the logarithm that divides entry `(i, j)` of an `rows × cols` MI matrix -/
def channelCapacityArgs (rows cols : Nat) (nx ny : Int ⊕ List Int) : Except Err (List (List Int)) := do
  let nx ← validateStates nx rows
  let ny ← validateStates ny cols
  pure (ccnGrid nx ny)

/-! ### `weighted_mi` -/

def wsum (T : Nat) (w : Nat → Rat) (p : Nat → Bool) : Rat :=
  sumTo T fun t => if p t then w t else 0

/-- cell `(u, v)` of feature pair `(f, g)`: `P_joint`, `P_prod_marg`, masked divide/log/multiply -/
def wmiCell (X : Arr) (w : Nat → Rat) (f g : Nat) (u v : Int) : Option Term :=
  let pj := wsum X.T w fun t => X.get t f = u ∧ X.get t g = v
  let pm := (wsum X.T w fun t => X.get t g = v) * (wsum X.T w fun t => X.get t f = u)
  if pm = 0 ∨ pj = 0 then none else some (pj, pj / pm)

/-- the terms of `mi_mtx[f, g]`: all state pairs `(u, v)` with `u, v < M`, in `itertools.product` order -/
def wmiTerms (X : Arr) (w : Nat → Rat) (M : Nat) (f g : Nat) : List Term :=
  (List.range M).flatMap fun (u : Nat) => (List.range M).filterMap fun (v : Nat) =>
    wmiCell X w f g (u : Int) (v : Int)

/-- `if weights.sum() != 1: weights = weights / np.linalg.norm(weights, ord=1)` (weights are ≥ 0) -/
def normWeights (wl : List Rat) : Nat → Rat :=
  let s := ratSum wl
  fun t => if s = 1 then wl.getD t 0 else wl.getD t 0 / s

structure WMI where
  terms : List (List (List Term))
  states : List Int

/-- the validation stage of `weighted_mi`: returns the state counts and their maximum.
The default state counts are `np.full(F, int(features.max()) + 1)`: a Python integer, modelled as `m + 1`
(the harness exercises ids equal to the feature dtype's maximum, where a sum taken in the feature dtype
would wrap).
Not modelled (listed in the trusted base of `harness/props/c18.py`): the trailing
`np.clip(mi_mtx, 0, inf)` — the driver prints the unclipped terms and the harness applies `max(0, ·)`
before comparing (the exact value is ≥ 0 for uniform weights by `weighted_uniform_eq_counts` and
`mi_nonneg`; for general weights non-negativity is checked on the real outputs only). -/
def wmiValidate (X : Arr) (wl : List Rat) (nfs : Option (List Int)) : Except Err (List Int × Int) := do
  if wl.any (· < 0) then throw .assertion
  if ratSum wl = 0 then throw .assertion
  if wl.length ≠ X.T then throw .dataInvalid
  let nfs ← match nfs with
    | some l => pure l
    | none => match X.max? with
      | none => throw .valueError
      | some m => pure (List.replicate X.F (m + 1))
  if nfs.length ≠ X.F then throw .dataInvalid
  match nfs.max? with
  | none => throw .valueError                -- `max([])`
  | some M =>
    -- `np.bincount(features[:, i], minlength=M)` has length max(M, column max + 1); negative ids raise;
    -- `np.vstack` needs equal lengths
    if X.entries.any (· < 0) then throw .valueError
    let lens := (List.range X.F).map fun f =>
      ((List.range X.T).map fun t => X.get t f + 1).foldl max M
    if lens.any (· ≠ lens.headD M) then throw .valueError
    pure (nfs, M)

def weightedMi (X : Arr) (wl : List Rat) (nfs : Option (List Int)) : Except Err WMI := do
  let v ← wmiValidate X wl nfs
  pure { states := v.1,
         terms := tabulate X.F fun f => tabulate X.F fun g => wmiTerms X (normWeights wl) v.2.toNat f g }

end Ens.Info
