import Model.Basic
/-!
Model of the nearest-center assignment and per-trajectory bookkeeping (property C10).

Mirrors, as written:
* `enspara/cluster/util.py` `assign_to_nearest_center` L186-205 (both branches),
  `find_cluster_centers` L228-247, `ClusterResult.partition` L135-156,
  `compute_batches` L556-566, `batch_reassign` L594-649 (bookkeeping only),
  `MolecularClusterMixin.predict` L74-84;
* `enspara/ra/ra.py` `partition_indices` L231-242, `partition_list` L364-376,
  `RaggedArray.__init__` L523-576 as used by `partition` (flat data + `lengths=`).

Frames are `0 … n-1`.  The metric is a table `D : Nat → Nat → Rat`, `D f c` = the value the
metric callable returns for frame `f` and center `c` (in the per-frame branch the callable is
invoked with the arguments swapped; the table holds whatever that call returned).
Distances live in `ERat` (`none` = `np.inf`, the fill value of `distances`).
1-D numpy arrays whose entries are only read pointwise are index functions with an explicit
size; sequences that are sliced/concatenated are `List`s.
-/
namespace Ens.Assign

inductive Err | dataInvalid | indexError | valueError | improperlyConfigured
  deriving Repr, DecidableEq

/-- float64 restricted to rationals and `+inf` (`none`). -/
abbrev ERat := Option Rat

/-- IEEE `<` on rationals ∪ {+inf}. -/
def ERat.lt : ERat → ERat → Bool
  | some a, some b => decide (a < b)
  | some _, none => true
  | none, _ => false

/-- `a ≤ b` as `¬ (b < a)` (no NaNs in the model). -/
def ERat.le (a b : ERat) : Bool := !(ERat.lt b a)

/-! ### `assign_to_nearest_center` -/

/-- the two output arrays `distances`, `assignments` -/
structure St where
  dist : Nat → ERat
  lab : Nat → Nat

/-- L186-188: `assignments = zeros`, `distances = inf`. -/
def St.init : St := ⟨fun _ => none, fun _ => 0⟩

/-- L200-203, one pass of the `else` branch for center `i`:
`inds = dist < distances; distances[inds] = dist[inds]; assignments[inds] = i`. -/
def sweepStep (D : Nat → Nat → Rat) (s : St) (i : Nat) : St :=
  { dist := fun f => if ERat.lt (some (D f i)) (s.dist f) then some (D f i) else s.dist f
    lab := fun f => if ERat.lt (some (D f i)) (s.dist f) then i else s.lab f }

/-- L199: `for i, center in enumerate(cluster_centers)` over the first `k` centers. -/
def sweep (D : Nat → Nat → Rat) : Nat → St
  | 0 => St.init
  | k+1 => sweepStep D (sweep D k) k

/-- `np.min` of `g 0 … g j` (non-empty). -/
def minUpTo (g : Nat → Rat) : Nat → Rat
  | 0 => g 0
  | j+1 => if g (j+1) < minUpTo g j then g (j+1) else minUpTo g j

/-- L194-197, the `if` branch for `j+1` centers: per frame `np.argmin(dist)`, `np.min(dist)`. -/
def perFrame (D : Nat → Nat → Rat) (j : Nat) : St :=
  { dist := fun f => some (minUpTo (D f) j)
    lab := fun f => argminTo (j+1) (D f) }

/-- `assign_to_nearest_center(trajectory, cluster_centers, distance_method)` with
`n = len(trajectory)`, `k = len(cluster_centers)`, `hasXyz = hasattr(cluster_centers,'xyz')`. -/
def assignNearest (D : Nat → Nat → Rat) (n k : Nat) (hasXyz : Bool) : St :=
  match k with
  | 0 => sweep D 0
  | j+1 => if j+1 > n && hasXyz then perFrame D j else sweep D (j+1)

/-! ### `find_cluster_centers` -/

def insertUniq (x : Int) : List Int → List Int
  | [] => [x]
  | y :: ys => if x < y then x :: y :: ys else if x = y then y :: ys else y :: insertUniq x ys

/-- `np.unique`: ascending, no repetitions. -/
def uniqueSorted (l : List Int) : List Int := l.foldr insertUniq []

/-- L242-243 fused: `assigned_frames = np.where(mask)[0]` (ascending frame ids),
`assigned_frames[np.argmin(distances[assigned_frames])]` = the first frame among the first `n`
satisfying `p` whose distance is minimal; `none` when no frame satisfies `p`
(`np.argmin` of an empty array raises). -/
def argminWhere (p : Nat → Bool) (d : Nat → ERat) : Nat → Option Nat
  | 0 => none
  | n+1 => match argminWhere p d n with
    | none => if p n then some n else none
    | some b => if p n && ERat.lt (d n) (d b) then some n else some b

/-- L236-240: the loop over the unique labels. -/
def centersFor (n : Nat) (a : Nat → Int) (d : Nat → ERat) : List Int → Except Err (List Nat)
  | [] => .ok []
  | c :: cs =>
    match argminWhere (fun f => a f == c) d n with
    | none => .error .valueError
    | some m =>
      match centersFor n a d cs with
      | .error e => .error e
      | .ok ms => .ok (m :: ms)

/-- `find_cluster_centers(assignments, distances)`; `n = len(assignments)`, `nd = len(distances)`.
Labels are `Int` and frame indices `Nat` here, i.e. the result array holds frame indices of full
width whatever dtype/container the labels come in (L234-239: `np.asarray`, `dtype=int`); the
correspondence drives int8…int64/uint8 label arrays and python lists against this. -/
def findClusterCenters (n : Nat) (a : Nat → Int) (nd : Nat) (d : Nat → ERat) :
    Except Err (List Nat) :=
  if nd ≠ n then .error .dataInvalid
  else centersFor n a d (uniqueSorted (tabulate n a))

/-- `MolecularClusterMixin.predict` L74-78: labels, distances, center indices. -/
def predict (D : Nat → Nat → Rat) (n k : Nat) (hasXyz : Bool) :
    Except Err (List Nat × List ERat × List Nat) :=
  let s := assignNearest D n k hasXyz
  match findClusterCenters n (fun f => (s.lab f : Int)) n s.dist with
  | .error e => .error e
  | .ok cs => .ok (tabulate n s.lab, tabulate n s.dist, cs)

/-! ### `partition_list`, `partition_indices` -/

/-- `l[start:stop]` for `0 ≤ start`, `0 ≤ stop` (CPython clamps to the length). -/
def pySlice {α} (l : List α) (start stop : Nat) : List α := (l.take stop).drop start

/-- ra.py L371-375: the loop with the running `start`. -/
def partitionGo {α} (l : List α) : Nat → List Nat → List (List α)
  | _, [] => []
  | start, n :: ns => pySlice l start (start + n) :: partitionGo l (start + n) ns

/-- `partition_list(list_to_partition, partition_lengths)`. -/
def partitionList {α} (l : List α) (lens : List Nat) : Except Err (List (List α)) :=
  if lens.sum ≠ l.length then .error .dataInvalid else .ok (partitionGo l 0 lens)

/-- ra.py L233-240, the inner loop for one `index`: `none` = the loop ends without `break`
(nothing appended). -/
def locate : List Nat → Int → Nat → Option (Nat × Int)
  | [], _, _ => none
  | len :: rest, index, trj =>
    if (len : Int) > index then some (trj, index) else locate rest (index - len) (trj + 1)

/-- `partition_indices(indices, traj_lengths)`. -/
def partitionIndices (inds : List Int) (lens : List Nat) : List (Nat × Int) :=
  inds.filterMap (fun i => locate lens i 0)

/-! ### `ClusterResult.partition` -/

/-- the container the code returns for `assignments` / `distances` -/
inductive Parts (α : Type) where
  /-- `np.array(partition_list(..))`: rectangular ndarray, given by its rows -/
  | square (rows : List (List α))
  /-- `ra.RaggedArray(flat, lengths=lengths)`: `_data`, `lengths`, `_array` -/
  | ragged (data : List α) (lengths : List Nat) (rows : List (List α))
  deriving Repr, DecidableEq

def Parts.rows {α} : Parts α → List (List α)
  | .square r => r
  | .ragged _ _ r => r

def Parts.isSquare {α} : Parts α → Bool
  | .square _ => true
  | .ragged .. => false

structure Partitioned (α β : Type) where
  assignments : Parts α
  distances : Parts β
  centerIndices : List (Nat × Int)
  deriving Repr, DecidableEq

/-- `RaggedArray(array, lengths=lengths)` for a flat array and lengths that are not all equal
(ra.py: `_data = np.array(array)` whenever `lengths` is given — also for an empty array —, then
`_row_views(_data, lengths)` = `partition_list`, whose DataInvalid is re-raised as DataInvalid). -/
def raggedArray {α} (data : List α) (lens : List Nat) : Except Err (Parts α) :=
  match partitionList data lens with
  | .error e => .error e
  | .ok rows => .ok (.ragged data lens rows)

/-- util.py L135: `all(lengths[0] == l for l in lengths)` for non-empty `lengths`. -/
def allEqual : List Nat → Bool
  | [] => true
  | l0 :: ls => (l0 :: ls).all (fun l => l0 == l)

/-- `ClusterResult.partition(lengths)`.  Empty `lengths`: `square` is vacuously true and the
argument `lengths[0]` of `logger.debug` raises IndexError. -/
def partition {α β} (a : List α) (d : List β) (ci : List Int) (lens : List Nat) :
    Except Err (Partitioned α β) :=
  match lens with
  | [] => .error .indexError
  | _ :: _ =>
    if allEqual lens then
      match partitionList a lens with
      | .error e => .error e
      | .ok ra =>
        match partitionList d lens with
        | .error e => .error e
        | .ok rd => .ok ⟨.square ra, .square rd, partitionIndices ci lens⟩
    else
      match raggedArray a lens with
      | .error e => .error e
      | .ok pa =>
        match raggedArray d lens with
        | .error e => .error e
        | .ok pd => .ok ⟨pa, pd, partitionIndices ci lens⟩

/-! ### `compute_batches`, `batch_reassign` -/

/-- loop state of `compute_batches`: closed batches, and the open last batch
(`batch_sizes[-1]`, `batch_indices[-1]`). -/
structure BState where
  done : List (List Nat)
  curSizes : List Nat
  curIdx : List Nat

/-- util.py L558-565, one iteration for trajectory `i` of length `l`
(`if not batch_sizes[-1] or sum(batch_sizes[-1]) + l < batch_size`). -/
def batchStep (batchSize : Nat) (s : BState) (i l : Nat) : BState :=
  if s.curSizes = [] ∨ s.curSizes.sum + l < batchSize then
    { s with curSizes := s.curSizes ++ [l], curIdx := s.curIdx ++ [i] }
  else
    { done := s.done ++ [s.curIdx], curSizes := [l], curIdx := [i] }

def batchLoop (batchSize : Nat) : BState → Nat → List Nat → BState
  | s, _, [] => s
  | s, i, l :: ls => batchLoop batchSize (batchStep batchSize s i l) (i + 1) ls

/-- `compute_batches(lengths, batch_size)`: lists of trajectory indices. -/
def computeBatches (lens : List Nat) (batchSize : Nat) : List (List Nat) :=
  let s := batchLoop batchSize ⟨[], [], []⟩ 0 lens
  s.done ++ [s.curIdx]

/-- first flat frame id of trajectory `t` (`sum(lengths[:t])`). -/
def startOf (lens : List Nat) (t : Nat) : Nat := (lens.take t).sum

/-- the global frame ids a batch loads, in load order (`load_as_concatenated`). -/
def batchFrames (lens : List Nat) (batch : List Nat) : List Nat :=
  (batch.map fun t => (List.range (lens.getD t 0)).map fun j => startOf lens t + j).flatten

/-- util.py L604-638 for one batch: load, assign, `partition_list` by the batch's lengths.
An empty batch would make `load_as_concatenated` raise IndexError (`args[0]` of an empty list);
`compute_batches` never produces one for a non-empty `lengths`. -/
def reassignBatch (D : Nat → Nat → Rat) (lens : List Nat) (k : Nat) (hasXyz : Bool)
    (batch : List Nat) : Except Err (List (List (Nat × ERat))) :=
  match batch with
  | [] => .error .indexError
  | _ :: _ =>
    let frames := batchFrames lens batch
    -- the batch trajectory's frame `p` is global frame `frames[p]`
    let Db : Nat → Nat → Rat := fun p c => D (frames.getD p 0) c
    let s := assignNearest Db frames.length k hasXyz
    partitionList (tabulate frames.length fun p => (s.lab p, s.dist p))
      (batch.map fun t => lens.getD t 0)

def reassignBatches (D : Nat → Nat → Rat) (lens : List Nat) (k : Nat) (hasXyz : Bool) :
    List (List Nat) → Except Err (List (List (Nat × ERat)))
  | [] => .ok []
  | b :: bs =>
    match reassignBatch D lens k hasXyz b with
    | .error e => .error e
    | .ok ps =>
      match reassignBatches D lens k hasXyz bs with
      | .error e => .error e
      | .ok rest => .ok (ps ++ rest)

def listMax : List Nat → Option Nat
  | [] => none
  | x :: xs => some (xs.foldl max x)

/-- `batch_reassign` with `batch_size` given (it is derived from RAM size in the code):
per trajectory the list of (label, distance) of its frames. `centers[0]` of an empty center
list raises IndexError, `max([])` ValueError. -/
def batchReassign (D : Nat → Nat → Rat) (lens : List Nat) (k : Nat) (hasXyz : Bool)
    (batchSize : Nat) : Except Err (List (List (Nat × ERat))) :=
  if k = 0 then .error .indexError else
  match listMax lens with
  | none => .error .valueError
  | some m =>
    if batchSize < m then .error .improperlyConfigured
    else reassignBatches D lens k hasXyz (computeBatches lens batchSize)

end Ens.Assign
