import Model.Counts
/-!
Model of `enspara.msm.msm.MSM` (constructor, `fit`, `config`, `save`/`load`),
`transition_matrices.TrimMapping` (`__init__`, `to_mapped`, `write`, `read`, `__eq__`),
the post-processing part of `transition_matrices.eigenspectrum`, `timescales.calc_imp_times`
/`implied_timescales` (which eigenvalues are used and the formula) and
`synthetic_data.synthetic_ensemble`.

Stages that belong to other properties are *parameters* here: the trimming stage
(`trim_disconnected`, C11), the builder (`builders.*`, C04/C12), LAPACK's `eig`, the
decimal/pickle serialisers (`mmwrite`/`mmread`, `savetxt`/`loadtxt`, `pickle`, `str`/`int`)
and `log`.
-/
namespace Ens.Msm
open Ens Ens.Counts

inductive Err
  | dataInvalid | valueError | indexError      -- raised by the counting stage
  | attributeError                              -- `getattr(builders, name)` fails
  | assertion                                   -- an `assert` fails
  | stage                                       -- the trim / builder parameter raised
  | codec                                       -- a serialiser parameter raised
  | nan                                         -- numpy produced nan/inf (division by a zero sum)
  deriving Repr, DecidableEq

def liftC {α} : Except Counts.Err α → Except Err α
  | .ok a => .ok a
  | .error .dataInvalid => .error .dataInvalid
  | .error .valueError => .error .valueError
  | .error .indexError => .error .indexError

/-! ## stable sorting

`sorted(...)` in Python is stable and `np.argsort` of a short array (< 17 elements:
insertion sort inside numpy's introsort) keeps equal keys in first-index order.  A stable
sort has exactly one possible result, so it is modelled by the structurally recursive
insertion sort (which `decide` can run). -/

def insertBy {α : Type} (le : α → α → Bool) (a : α) : List α → List α
  | [] => [a]
  | b :: l => if le a b then a :: b :: l else b :: insertBy le a l

def stableSort {α : Type} (le : α → α → Bool) : List α → List α
  | [] => []
  | a :: l => insertBy le a (stableSort le l)

/-! ## Python `dict` with integer keys/values: items in insertion order, keys distinct -/

abbrev Dict := List (Int × Int)

def Dict.lookup (d : Dict) (k : Int) : Option Int :=
  match d with
  | [] => none
  | (k', v) :: rest => if k' = k then some v else Dict.lookup rest k

/-- `d[k] = v`: an existing key keeps its position, a new key is appended -/
def Dict.insert (d : Dict) (k v : Int) : Dict :=
  match d with
  | [] => [(k, v)]
  | (k', v') :: rest => if k' = k then (k, v) :: rest else (k', v') :: Dict.insert rest k v

/-- `{k: v for k, v in ps}` -/
def Dict.ofPairs (ps : List (Int × Int)) : Dict := ps.foldl (fun d p => d.insert p.1 p.2) []

/-- `d1 == d2` for dicts: same number of items and every item of `d1` is found in `d2` -/
def Dict.beq (a b : Dict) : Bool :=
  a.length == b.length && a.all (fun p => b.lookup p.1 == some p.2)

def swap (p : Int × Int) : Int × Int := (p.2, p.1)

/-! ## `TrimMapping` -/

/-- `__slots__ = ['to_original']`: post-trim id ↦ original id -/
structure TrimMapping where
  toOriginal : Dict
  deriving Repr, DecidableEq

/-- `TrimMapping(transformations)`, `transformations` = pairs `(original, trimmed)`:
`self.to_original = {t: o for o, t in transformations}` -/
def TrimMapping.ofTransformations (ts : List (Int × Int)) : TrimMapping :=
  { toOriginal := Dict.ofPairs (ts.map swap) }

/-- `to_mapped` property: `{v: k for k, v in self.to_original.items()}` -/
def TrimMapping.toMapped (m : TrimMapping) : Dict := Dict.ofPairs (m.toOriginal.map swap)

/-- `TrimMapping(zip(range(n), range(n)))` (the untrimmed branch of `MSM.fit`) -/
def TrimMapping.identity (n : Nat) : TrimMapping :=
  TrimMapping.ofTransformations ((List.range n).map fun (i : Nat) => ((i : Int), (i : Int)))

/-- `TrimMapping.__eq__` for two TrimMappings -/
def TrimMapping.beq (a b : TrimMapping) : Bool :=
  a.toOriginal.beq b.toOriginal && a.toMapped.beq b.toMapped

/-- csv file = list of rows of cells -/
abbrev Csv := List (List String)

def csvHeader : List String := ["original", "mapped"]

/-- `write`: header, then `sorted(self.to_mapped.items(), key=lambda x: x[0])`
(Python's `sorted` is stable) -/
def TrimMapping.write (print : Int → String) (m : TrimMapping) : Csv :=
  csvHeader :: ((stableSort (fun a b => decide (a.1 ≤ b.1)) m.toMapped).map fun p => [print p.1, print p.2])

/-- one data row: `for h, v in zip(headers, row): column[h].append(int(v))` -/
def readRow (parse : String → Option Int) (row : List String) (cols : List Int × List Int) :
    Except Err (List Int × List Int) :=
  match row with
  | [] => pure cols
  | [a] => match parse a with
    | none => throw .valueError
    | some x => pure (cols.1 ++ [x], cols.2)
  | a :: b :: _ => match parse a, parse b with
    | some x, some y => pure (cols.1 ++ [x], cols.2 ++ [y])
    | _, _ => throw .valueError

def readRows (parse : String → Option Int) : List (List String) → (List Int × List Int) →
    Except Err (List Int × List Int)
  | [], cols => pure cols
  | r :: rs, cols => do
    let cols' ← readRow parse r cols
    readRows parse rs cols'

/-- `read`: `next(reader)` (StopIteration on an empty file is modelled as `indexError`),
the header assert, column collection, `TrimMapping(zip(original, mapped))` -/
def TrimMapping.read (parse : String → Option Int) (f : Csv) : Except Err TrimMapping :=
  match f with
  | [] => throw .indexError
  | hdr :: rows =>
    if hdr ≠ csvHeader then throw .assertion else do
      let (orig, mapped) ← readRows parse rows ([], [])
      pure (TrimMapping.ofTransformations (orig.zip mapped))

/-! ## `MSM` -/

/-- the `method` argument: a callable, or a name looked up in `enspara.msm.builders` -/
inductive MethodArg (F : Type) where
  | callable (f : F)
  | name (s : String)

/-- the attributes `__init__` stores -/
structure MSM (F : Type) where
  lagTime : Int
  trim : Bool
  maxNStates : Option Nat
  method : F
  slidingWindow : Bool

/-- `MSM.__init__(lag_time, method, trim=False, sliding_window=True, max_n_states=None)` -/
def mkMSM {F : Type} (builders : String → Option F) (lagTime : Int) (method : MethodArg F)
    (trim : Bool := false) (slidingWindow : Bool := true) (maxNStates : Option Nat := none) :
    Except Err (MSM F) := do
  let f ← match method with
    | .callable f => pure f
    | .name s => match builders s with
      | some f => pure f
      | none => throw .attributeError
  pure { lagTime := lagTime, trim := trim, maxNStates := maxNStates, method := f,
         slidingWindow := slidingWindow }

/-- the fitted attributes `mapping_`, `tcounts_`, `tprobs_`, `eq_probs_` -/
structure Fit (C T P : Type) where
  mapping : TrimMapping
  tcounts : C
  tprobs : T
  eqProbs : P

/-- a builder: counts ↦ `(tcounts, tprobs, eq_probs)` -/
abbrev Builder (C T P : Type) := CountMat → Except Err (C × T × P)
/-- the trimming stage: counts ↦ `(mapping, trimmed counts)` -/
abbrev Trimmer := CountMat → Except Err (TrimMapping × CountMat)

/-- `MSM.fit` -/
def MSM.fit {C T P : Type} (m : MSM (Builder C T P)) (trimF : Trimmer) (assigns : List (List Int)) :
    Except Err (Fit C T P) := do
  let tcounts ← liftC (assignsToCounts assigns m.lagTime m.maxNStates m.slidingWindow)
  let (mapping, tcounts') ←
    if m.trim then trimF tcounts
    else pure (TrimMapping.identity tcounts.n, tcounts)
  let (c, t, p) ← m.method tcounts'
  pure { mapping := mapping, tcounts := c, tprobs := t, eqProbs := p }

/-- the function pipeline written by hand (the specification side of `fit_eq_pipeline`) -/
def pipeline {C T P : Type} (lag : Int) (sliding : Bool) (maxN : Option Nat) (trim : Bool)
    (trimF : Trimmer) (builder : Builder C T P) (assigns : List (List Int)) :
    Except Err (Fit C T P) :=
  match liftC (assignsToCounts assigns lag maxN sliding) with
  | .error e => .error e
  | .ok counts =>
    if trim then
      match trimF counts with
      | .error e => .error e
      | .ok (mapping, trimmed) =>
        match builder trimmed with
        | .error e => .error e
        | .ok (c, t, p) => .ok { mapping := mapping, tcounts := c, tprobs := t, eqProbs := p }
    else
      match builder counts with
      | .error e => .error e
      | .ok (c, t, p) =>
        .ok { mapping := TrimMapping.identity counts.n, tcounts := c, tprobs := t, eqProbs := p }

/-- the `config` property: exactly these four keys (`max_n_states` is not part of it) -/
structure Config (F : Type) where
  lagTime : Int
  slidingWindow : Bool
  trim : Bool
  method : F

def MSM.config {F : Type} (m : MSM F) : Config F :=
  { lagTime := m.lagTime, slidingWindow := m.slidingWindow, trim := m.trim, method := m.method }

/-! ## `save` / `load` over an abstract record -/

/-- a serialiser pair (`mmwrite`/`mmread`, `savetxt`/`loadtxt`, `pickle.dump`/`load`) -/
structure Codec (α σ : Type) where
  enc : α → Except Err σ
  dec : σ → Except Err α

/-- whatever the writer accepts, the reader gives back unchanged -/
def Codec.Exact {α σ : Type} (c : Codec α σ) : Prop := ∀ a s, c.enc a = .ok s → c.dec s = .ok a

structure Codecs (F C T P σK σC σT σP : Type) where
  config : Codec (Config F) σK
  tcounts : Codec C σC
  tprobs : Codec T σT          -- `mmwrite(..., precision=20)`
  eqProbs : Codec P σP
  print : Int → String         -- csv.writer on ints
  parse : String → Option Int  -- `int(v)`

/-- the directory written by `save` (one field per manifest entry) -/
structure Saved (σK σC σT σP : Type) where
  mapping : Csv
  tcounts : σC
  tprobs : σT
  eqProbs : σP
  config : σK

/-- a fitted estimator -/
structure Fitted (F C T P : Type) where
  msm : MSM F
  fit : Fit C T P

def save {F C T P σK σC σT σP : Type} (cd : Codecs F C T P σK σC σT σP) (m : Fitted F C T P) :
    Except Err (Saved σK σC σT σP) := do
  let mp := m.fit.mapping.write cd.print
  let c ← cd.tcounts.enc m.fit.tcounts
  let t ← cd.tprobs.enc m.fit.tprobs
  let p ← cd.eqProbs.enc m.fit.eqProbs
  let k ← cd.config.enc m.msm.config
  pure { mapping := mp, tcounts := c, tprobs := t, eqProbs := p, config := k }

/-- `load`: `MSM(**config)` (so `max_n_states` takes its default), then the four attributes -/
def load {F C T P σK σC σT σP : Type} (cd : Codecs F C T P σK σC σT σP) (s : Saved σK σC σT σP) :
    Except Err (Fitted F C T P) := do
  let cfg ← cd.config.dec s.config
  let msm ← mkMSM (fun _ => none) cfg.lagTime (.callable cfg.method) cfg.trim cfg.slidingWindow
  let c ← cd.tcounts.dec s.tcounts
  let t ← cd.tprobs.dec s.tprobs
  let mp ← TrimMapping.read cd.parse s.mapping
  let p ← cd.eqProbs.dec s.eqProbs
  pure { msm := msm, fit := { mapping := mp, tcounts := c, tprobs := t, eqProbs := p } }

/-- the library's notion of an equal model (`MSM.__eq__`): config, populations, mapping,
counts and probabilities -/
def Fitted.Equal {F C T P : Type} (a b : Fitted F C T P) : Prop :=
  a.msm.config = b.msm.config ∧ a.fit.eqProbs = b.fit.eqProbs ∧
  a.fit.mapping.beq b.fit.mapping = true ∧ a.fit.tcounts = b.fit.tcounts ∧
  a.fit.tprobs = b.fit.tprobs

/-! ## eigen-decomposition post-processing (`eigenspectrum` after the LAPACK call) -/

/-- complex number with rational parts -/
structure Cx where
  re : Rat
  im : Rat
  deriving Repr, DecidableEq

def Cx.add (a b : Cx) : Cx := ⟨a.re + b.re, a.im + b.im⟩
def Cx.mul (a b : Cx) : Cx := ⟨a.re * b.re - a.im * b.im, a.re * b.im + a.im * b.re⟩
/-- `a / b` -/
def Cx.div (a b : Cx) : Cx :=
  let d := b.re * b.re + b.im * b.im
  ⟨(a.re * b.re + a.im * b.im) / d, (a.im * b.re - a.re * b.im) / d⟩
def Cx.zero : Cx := ⟨0, 0⟩
def cxSum (l : List Cx) : Cx := l.foldr Cx.add Cx.zero

/-- `np.argsort(-np.real(vals))` with first-index order among equal keys -/
def argsortDesc (vals : List Cx) : List Nat :=
  (stableSort (fun a b => decide (-a.2.re ≤ -b.2.re)) ((List.range vals.length).zip vals)).map (·.1)

/-- `n_eigs` handling at the top of `eigenspectrum` (`n` = `T.shape[0]`) -/
def resolveNEigs (n : Nat) (nEigs : Option Int) : Except Err Nat :=
  match nEigs with
  | none => pure n
  | some k => if k < 2 then throw .valueError else pure k.toNat

/-- lines 223–233: order, reorder values and vector columns, normalise the first vector
by its sum, truncate, take real parts.  `cols[k]` is the eigenvector of `vals[k]`. -/
def eigPost (nEigs : Nat) (vals : List Cx) (cols : List (List Cx)) :
    Except Err (List Rat × List (List Rat)) :=
  let order := argsortDesc vals
  let vals' := order.filterMap (vals[·]?)
  let cols' := order.filterMap (cols[·]?)
  match cols' with
  | [] => throw .indexError
  | c0 :: rest =>
    let s := cxSum c0
    if s = Cx.zero then throw .nan
    else
      let c0' := c0.map (fun z => z.div s)
      pure ((vals'.take nEigs).map (·.re), ((c0' :: rest).take nEigs).map (fun c => c.map (·.re)))

/-- `eigenspectrum(T, n_eigs, left)` with the decomposition itself as a parameter -/
def eigenspectrum {M : Type} (eig : M → List Cx × List (List Cx)) (transpose : M → M) (size : M → Nat)
    (T : M) (nEigs : Option Int) (left : Bool := true) : Except Err (List Rat × List (List Rat)) := do
  let k ← resolveNEigs (size T) nEigs
  let (vals, cols) := eig (if left then transpose T else T)
  eigPost k vals cols

/-! ## implied timescales -/

/-- `implied_timescales`: the number of timescales actually requested -/
def impNTimes (nStates : Nat) (nTimes : Option Nat) : Nat :=
  let k := match nTimes with
    | none => nStates / 10 + 1
    | some k => k
  if k > nStates - 1 then nStates - 1 else k

/-- `calc_imp_times` line 38: `-lag_time / np.log(e_vals[1:])` -/
def impTimes {R : Type} [Neg R] [Div R] (log : R → R) (lag : R) (eVals : List R) : List R :=
  (eVals.drop 1).map fun l => -lag / log l

/-! ## `synthetic_ensemble` -/

/-- `T_op.rmatvec(p)` for a real matrix: `(pᵀ T)_j = Σ_i p_i T_ij` -/
def rmatvec {α : Type} [Add α] [Mul α] [OfNat α 0] (n : Nat) (T : Nat → Nat → α) (p : Nat → α) :
    Nat → α :=
  fun j => sumTo n fun i => p i * T i j

/-- the loop `for i in range(n_steps-1): p = T_op.rmatvec(p); observations.append(p)`;
returns the observations after the initial one, oldest first, and the last `p` -/
def ensembleLoop {α : Type} [Add α] [Mul α] [OfNat α 0] (n : Nat) (T : Nat → Nat → α) :
    Nat → (Nat → α) → List (Nat → α) × (Nat → α)
  | 0, p => ([], p)
  | k+1, p =>
    let p' := rmatvec n T p
    let (obs, last) := ensembleLoop n T k p'
    (p' :: obs, last)

/-- `synthetic_ensemble(T, init_pops, n_steps)` without an observable: `(p, observations)` -/
def syntheticEnsemble {α : Type} [Add α] [Mul α] [OfNat α 0] (n : Nat) (T : Nat → Nat → α)
    (p0 : Nat → α) (nSteps : Int) : (Nat → α) × List (Nat → α) :=
  let (obs, last) := ensembleLoop n T (nSteps - 1).toNat p0
  (last, p0 :: obs)

/-! ## exact rational instances used by the driver (not part of the theorems' parameters) -/

def rowSum (c : CountMat) (i : Nat) : Nat := sumTo c.n fun j => c.entry i j

/-- `builders.normalize` without the populations (those come from LAPACK) -/
def normalizeQ : Builder (List (List Rat)) (List (List Rat)) Unit := fun c =>
  let T := tabulate c.n fun i => tabulate c.n fun j =>
    if rowSum c i > 0 then (c.entry i j : Rat) / (rowSum c i : Rat) else 0
  pure (tabulate c.n fun i => tabulate c.n fun j => (c.entry i j : Rat), T, ())

/-- `builders.transpose`: `(C + Cᵀ)/2`, its row normalisation, row sums over the total
(`none` = nan when there are no counts at all) -/
def transposeQ : Builder (List (List Rat)) (List (List Rat)) (List (Option Rat)) := fun c =>
  let sym : Nat → Nat → Nat := fun i j => c.entry i j + c.entry j i
  let rs : Nat → Nat := fun i => sumTo c.n fun j => sym i j
  let tot : Nat := sumTo c.n rs
  let T := tabulate c.n fun i => tabulate c.n fun j =>
    if rs i > 0 then (sym i j : Rat) / (rs i : Rat) else 0
  let eq := tabulate c.n fun i => if tot = 0 then none else some ((rs i : Rat) / (tot : Rat))
  pure (tabulate c.n fun i => tabulate c.n fun j => (sym i j : Rat) / 2, T, eq)

/-- a builder that only reports the counts it was handed -/
def countsOnly : Builder (List (List Rat)) Unit Unit := fun c =>
  pure (tabulate c.n fun i => tabulate c.n fun j => (c.entry i j : Rat), (), ())

/-- the trimming stage instantiated with an observed set of kept states (ascending):
submatrix on `keep`, mapping `zip(keep, range(len(keep)))` -/
def trimTo (keep : List Nat) : Trimmer := fun c =>
  if keep.any (· ≥ c.n) then throw .stage else
  pure (TrimMapping.ofTransformations ((keep.zip (List.range keep.length)).map
          fun p => ((p.1 : Int), (p.2 : Int))),
        { n := keep.length, entry := fun i j => c.entry (keep.getD i 0) (keep.getD j 0) })

end Ens.Msm
