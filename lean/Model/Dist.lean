import Model.Basic
import Model.Sched
import Model.Generated.FusedTypes
/-!
Model of `enspara/geometry/libdist.pyx` (distance kernels `euclidean`, `manhattan`,
`hamming`), as the code is.

Layers
* element types and C arithmetic (`DType`, `CArith`, `wrapC`, `diffC`, `squareC`): the integer
  kernels subtract in the *promoted C type* (`int` for 8/16/32-bit, `long` for 64-bit) and
  square with `__Pyx_pow_long` (64-bit, after a cast of the 32-bit difference to `long`);
  overflow is modelled as two's-complement wrap-around (what gcc emits); floats are exact
  rationals (rounding is not modelled).
* strided memory (`Arr`, `idx1`, `idx2`, `read1?`, `read2?`, `rows?`): flat buffer +
  (offset, shape, strides) in elements; `extentOk` is numpy's invariant that the extreme
  indices lie inside the buffer.
* the three kernels as per-row step programs on an `out` cell (`rowProg`): `zero`,
  `acc` for j = 0 … w-1, `finish` (sqrt / divide by n_features / nothing).
* `Sched`: an execution is ANY interleaving of the rows' programs; row `i` acts on flat
  position `offset + i*stride` of the `out` buffer (`runMem`).
* `prepare` = `_prepare_for_2d_to_1d_distance` L44-72 and `dispatch` = the fused-type
  dispatch / buffer acquisition of the `def _kernel(np.ndarray[T, ndim=2] X, …)` signatures,
  both as `Except Err`.
-/
namespace Ens.Dist
open Ens.Sched

/-! ### element types -/

inductive DType where
  | i8 | i16 | i32 | i64 | u8 | u16 | u32 | u64 | f32 | f64
  deriving DecidableEq, Repr

def DType.ofName : String → Option DType
  | "int8" => some .i8 | "int16" => some .i16 | "int32" => some .i32 | "int64" => some .i64
  | "uint8" => some .u8 | "uint16" => some .u16 | "uint32" => some .u32 | "uint64" => some .u64
  | "float32" => some .f32 | "float64" => some .f64
  | _ => none

def DType.isFloat : DType → Bool
  | .f32 | .f64 => true
  | _ => false

/-- value range of an integer element type -/
def DType.lo : DType → Int
  | .i8 => -128 | .i16 => -32768 | .i32 => -2147483648 | .i64 => -9223372036854775808
  | _ => 0
def DType.hi : DType → Int
  | .i8 => 127 | .i16 => 32767 | .i32 => 2147483647 | .i64 => 9223372036854775807
  | .u8 => 255 | .u16 => 65535 | .u32 => 4294967295 | .u64 => 18446744073709551615
  | _ => 0
def DType.inRange (t : DType) (x : Int) : Prop := t.lo ≤ x ∧ x ≤ t.hi
instance (t : DType) (x : Int) : Decidable (t.inRange x) := by unfold DType.inRange; infer_instance

/-- C integer types after the usual arithmetic conversions -/
inductive CArith where
  | s32 | u32 | s64 | u64
  deriving DecidableEq, Repr

/-- integer promotion of `a - b` for two operands of element type `t` (LP64) -/
def DType.promote : DType → Option CArith
  | .i8 | .i16 | .i32 | .u8 | .u16 => some .s32
  | .u32 => some .u32
  | .i64 => some .s64
  | .u64 => some .u64
  | .f32 | .f64 => none

/-- reduce a mathematical integer to the value a C object of that type holds
(two's complement wrap-around) -/
def wrapC : CArith → Int → Int
  | .s32, x => Int.bmod x 4294967296
  | .u32, x => x % 4294967296
  | .s64, x => Int.bmod x 18446744073709551616
  | .u64, x => x % 18446744073709551616

def CArith.lo : CArith → Int
  | .s32 => -2147483648 | .s64 => -9223372036854775808 | _ => 0
def CArith.hi : CArith → Int
  | .s32 => 2147483647 | .u32 => 4294967295 | .s64 => 9223372036854775807
  | .u64 => 18446744073709551615
def CArith.fits (c : CArith) (x : Int) : Prop := c.lo ≤ x ∧ x ≤ c.hi
instance (c : CArith) (x : Int) : Decidable (c.fits x) := by unfold CArith.fits; infer_instance

/-- the type `__Pyx_pow_*` squares in: 32-bit differences are cast to `long` first
(`__Pyx_pow_long((long)(X[i,j] - y[j]), 2)`), 64-bit ones stay (`__Pyx_pow_int64_t`) -/
def CArith.squareType : CArith → CArith
  | .s32 | .u32 | .s64 => .s64
  | .u64 => .u64

/-- `X[i,j] - y[j]` as the compiled code evaluates it -/
def diffC (c : CArith) (x y : Int) : Int := wrapC c (x - y)
/-- `(X[i,j] - y[j])**2` as the compiled code evaluates it -/
def squareC (c : CArith) (x y : Int) : Int :=
  let d := diffC c x y
  wrapC c.squareType (d * d)

/-- no intermediate result leaves the promoted C type -/
def NoOverflowDiff (c : CArith) (x y : Int) : Prop := c.fits (x - y)
def NoOverflowSq (c : CArith) (x y : Int) : Prop :=
  c.fits (x - y) ∧ c.squareType.fits ((x - y) * (x - y))
instance (c : CArith) (x y : Int) : Decidable (NoOverflowDiff c x y) := by
  unfold NoOverflowDiff; infer_instance
instance (c : CArith) (x y : Int) : Decidable (NoOverflowSq c x y) := by
  unfold NoOverflowSq; infer_instance

/-! ### the kernels on logical rows -/

inductive Kernel where
  | euclidean | manhattan | hamming
  deriving DecidableEq, Repr

def Kernel.ofName : String → Option Kernel
  | "euclidean" => some .euclidean | "manhattan" => some .manhattan | "hamming" => some .hamming
  | _ => none

/-- the compiled function behind a public wrapper -/
def Kernel.cname : Kernel → String
  | .euclidean => "_euclidean" | .manhattan => "_manhattan" | .hamming => "_hamming"
def Kernel.pyname : Kernel → String
  | .euclidean => "euclidean" | .manhattan => "manhattan" | .hamming => "hamming"

/-- content of one float64 cell of `out`.  `sqrt q` stands for the correctly rounded square
root of the rational `q ≥ 0` (the model never evaluates it); `nan` for NaN (`0/0`, `sqrt`
of a negative, NaN garbage); `untracked` for a double the model does not follow (±inf, or
arithmetic on a `sqrt` — unreachable in program order, see `rowResult_tracked`). -/
inductive Cell where
  | val (q : Rat)
  | sqrt (q : Rat)
  | nan
  | untracked
  deriving DecidableEq, Repr

/-- `out[i] = 0` -/
def stepZero : Cell → Cell := fun _ => .val 0
/-- `out[i] += v` -/
def stepAcc (v : Rat) : Cell → Cell
  | .val a => .val (a + v)
  | .nan => .nan
  | _ => .untracked
/-- `out[i] = sqrt(out[i])` -/
def stepSqrt : Cell → Cell
  | .val a => if a < 0 then .nan else .sqrt a
  | .nan => .nan
  | _ => .untracked
/-- `out[i] /= n_features` (C double division, no zero check: `0/0 = NaN`, `a/0 = ±inf`) -/
def stepDiv (w : Nat) : Cell → Cell
  | .val a => if w = 0 then (if a = 0 then .nan else .untracked) else .val (a / (w : Rat))
  | .nan => .nan
  | _ => .untracked

/-- how the source forms the integer difference (decided from the generated normalised kernels):
`native` = `X[i, j] - y[j]` in the promoted C type (the code as found);
`viaDouble` = the repaired form `<double>X[i, j] - <double>y[j]` (for int64 operands of equal
sign: `<double>(X[i, j] - y[j])`, which cannot overflow) — exact up to float rounding, which
the model does not follow -/
inductive IntArith where
  | native | viaDouble
  deriving DecidableEq, Repr

/-- normalised structure of the three kernels as found (see `normalise_kernel` in
harness/props/c13.py: parameters by position X, Y, OUT; loop variables L0, L1 by nesting depth;
size scalars (`len`, `.shape[k]`) inlined, every other typed temporary kept as `<type>(…)`;
loop variables of a type other than `long`/`Py_ssize_t` tagged `idx:`; asserts tagged by position
(`guard@pre` = before the first loop); module-level `# cython:` directives and `with cython.…` blocks
as `dec:` tags; comments, docstrings,
messages, declaration order, `while` counting loops and `with nogil:` grouping normalised away) -/
def nativeKernels : List (String × List String) :=
  [("_euclidean", ["dec:boundscheck(False)",
      "dec:wraparound(False)",
      "arg:X:FLOAT_TYPE_T:2",
      "arg:Y:FLOAT_TYPE_T:1",
      "arg:OUT:float64:1",
      "guard@pre:len(OUT)==X.shape[0]",
      "guard@pre:len(Y)==X.shape[1]",
      "loop:0|prange|len(OUT)",
      "write:1||OUT[L0]=0",
      "loop:0|prange|len(OUT)",
      "loop:1|range|len(Y)",
      "write:2||OUT[L0]+=(X[L0,L1]-Y[L1])**2",
      "loop:0|prange|len(OUT)",
      "write:1||OUT[L0]=sqrt(OUT[L0])",
      "ret:OUT.reshape(-1,1)"]),
   ("_hamming", ["dec:boundscheck(False)",
      "dec:wraparound(False)",
      "arg:X:INTEGRAL_TYPE_T:2",
      "arg:Y:INTEGRAL_TYPE_T:1",
      "arg:OUT:float64:1",
      "guard@pre:len(OUT)==X.shape[0]",
      "guard@pre:len(Y)==X.shape[1]",
      "loop:0|prange|len(OUT)",
      "write:1||OUT[L0]=0",
      "loop:1|range|len(Y)",
      "write:2|Y[L1]!=X[L0,L1]|OUT[L0]+=1",
      "write:1||OUT[L0]/=len(Y)",
      "ret:OUT"]),
   ("_manhattan", ["dec:boundscheck(False)",
      "dec:wraparound(False)",
      "arg:X:FLOAT_TYPE_T:2",
      "arg:Y:FLOAT_TYPE_T:1",
      "arg:OUT:float64:1",
      "guard@pre:len(OUT)==X.shape[0]",
      "guard@pre:len(Y)==X.shape[1]",
      "loop:0|prange|len(OUT)",
      "write:1||OUT[L0]=0",
      "loop:0|prange|len(OUT)",
      "loop:1|range|len(Y)",
      "write:2||OUT[L0]+=fabs(X[L0,L1]-Y[L1])",
      "ret:OUT.reshape(-1,1)"])]

/-- the same with the overflow repair of `proposals/C13-overflow.diff` -/
def repairedKernels : List (String × List String) :=
  [("_euclidean", ["dec:boundscheck(False)",
      "dec:wraparound(False)",
      "arg:X:FLOAT_TYPE_T:2",
      "arg:Y:FLOAT_TYPE_T:1",
      "arg:OUT:float64:1",
      "guard@pre:len(OUT)==X.shape[0]",
      "guard@pre:len(Y)==X.shape[1]",
      "loop:0|prange|len(OUT)",
      "write:1||OUT[L0]=0",
      "loop:0|prange|len(OUT)",
      "loop:1|range|len(Y)",
      "write:2|FLOAT_TYPE_T is np.int64_t and(X[L0,L1]<0)==(Y[L1]<0)|OUT[L0]+=(<double>(X[L0,L1]-Y[L1]))**2",
      "write:2|not(FLOAT_TYPE_T is np.int64_t and(X[L0,L1]<0)==(Y[L1]<0))|OUT[L0]+=(<double>X[L0,L1]-<double>Y[L1])**2",
      "loop:0|prange|len(OUT)",
      "write:1||OUT[L0]=sqrt(OUT[L0])",
      "ret:OUT.reshape(-1,1)"]),
   ("_hamming", ["dec:boundscheck(False)",
      "dec:wraparound(False)",
      "arg:X:INTEGRAL_TYPE_T:2",
      "arg:Y:INTEGRAL_TYPE_T:1",
      "arg:OUT:float64:1",
      "guard@pre:len(OUT)==X.shape[0]",
      "guard@pre:len(Y)==X.shape[1]",
      "loop:0|prange|len(OUT)",
      "write:1||OUT[L0]=0",
      "loop:1|range|len(Y)",
      "write:2|Y[L1]!=X[L0,L1]|OUT[L0]+=1",
      "write:1||OUT[L0]/=len(Y)",
      "ret:OUT"]),
   ("_manhattan", ["dec:boundscheck(False)",
      "dec:wraparound(False)",
      "arg:X:FLOAT_TYPE_T:2",
      "arg:Y:FLOAT_TYPE_T:1",
      "arg:OUT:float64:1",
      "guard@pre:len(OUT)==X.shape[0]",
      "guard@pre:len(Y)==X.shape[1]",
      "loop:0|prange|len(OUT)",
      "write:1||OUT[L0]=0",
      "loop:0|prange|len(OUT)",
      "loop:1|range|len(Y)",
      "write:2|FLOAT_TYPE_T is np.int64_t and(X[L0,L1]<0)==(Y[L1]<0)|OUT[L0]+=fabs(X[L0,L1]-Y[L1])",
      "write:2|not(FLOAT_TYPE_T is np.int64_t and(X[L0,L1]<0)==(Y[L1]<0))|OUT[L0]+=fabs(<double>X[L0,L1]-<double>Y[L1])",
      "ret:OUT.reshape(-1,1)"])]

/-- what a public wrapper does before / around the kernel call, helper calls resolved transitively
(`trace_wrapper` in c13.py): the validation predicates in order (exception type | path condition |
condition; `%raw:OUT.shape` = the message is built with a bare tuple operand, i.e. the `TypeError`
of L67-71), then the kernel call and the returned expression with the symbolic value of `out` -/
def modelledTrace (kernel : String) : List (String × String) :=
  [("raise", "DataInvalid||len(X.shape) != 2"),
   ("raise", "DataInvalid||len(Y.shape) != 1"),
   ("raise", "DataInvalid||X.shape[1] != Y.shape[0]"),
   ("raise", "DataInvalid|not (OUT is None)|OUT.dtype != np.float64"),
   ("raise", "DataInvalid|not (OUT is None)|OUT.shape[0] != X.shape[0]"),
   ("raise", "DataInvalid%raw:OUT.shape|not (OUT is None)|len(OUT.shape) != 1"),
   ("call", kernel ++ "(X, Y, np.zeros(X.shape[0], dtype=np.float64) if OUT is None else OUT)"),
   ("return", "np.zeros(X.shape[0], dtype=np.float64) if OUT is None else OUT")]

/-- a generated trace is acceptable exactly when it IS the modelled one: the modelled validation
predicates in the modelled order, nothing else (no further `raise`, which could reject valid input;
no `effect` statement, which could touch the caller's data), then the kernel call and the return -/
def traceOk (wrapper kernel : String) : Bool :=
  (Gen.wrapperTraces.lookup wrapper).getD [] == modelledTrace kernel

/-- the arithmetic the current source uses -/
def intArith : IntArith :=
  if Gen.kernels = repairedKernels then .viaDouble else .native

/-- contribution of coordinate `(x, y)` for integer element types -/
def termInt (a : IntArith) (k : Kernel) (c : CArith) (x y : Int) : Rat :=
  match k, a with
  | .hamming, _ => if y ≠ x then 1 else 0                       -- `if y[j] != X[i,j]: out[i] += 1`, L91-92
  | .euclidean, .native => ((squareC c x y : Int) : Rat)        -- `(X[i,j]-y[j])**2`, L140
  | .manhattan, .native => (((diffC c x y).natAbs : Int) : Rat) -- `fabs(X[i,j]-y[j])`, L115 (int → double)
  | .euclidean, .viaDouble => ((x : Rat) - (y : Rat)) * ((x : Rat) - (y : Rat))
  | .manhattan, .viaDouble => if (x : Rat) - (y : Rat) < 0 then -((x : Rat) - (y : Rat)) else (x : Rat) - (y : Rat)

/-- contribution of coordinate `(x, y)` for float element types (exact rationals) -/
def termRat (k : Kernel) (x y : Rat) : Rat :=
  match k with
  | .euclidean => (x - y) * (x - y)
  | .manhattan => if x - y < 0 then -(x - y) else x - y
  | .hamming => if y ≠ x then 1 else 0

/-- the last step of a row -/
def finish (k : Kernel) (w : Nat) : List (Cell → Cell) :=
  match k with
  | .euclidean => [stepSqrt]      -- L142-143
  | .manhattan => []
  | .hamming => [stepDiv w]       -- L93

/-- the steps one row performs on its `out` cell, in program order: zero, accumulate the
coordinates left to right, finish.  `terms` are the row's per-coordinate contributions. -/
def rowProg (k : Kernel) (w : Nat) (terms : List Rat) : List (Cell → Cell) :=
  stepZero :: (terms.map stepAcc ++ finish k w)

/-- per-coordinate contributions of a row `xs` against the target `ys`
(`j` runs over `range(len(y))`; validation makes `xs.length = ys.length`) -/
def rowTerms {ε} (term : ε → ε → Rat) (xs ys : List ε) : List Rat :=
  (xs.zip ys).map (fun p => term p.1 p.2)

/-- sequential result of one row, from any initial cell content -/
def rowResult (k : Kernel) (w : Nat) (terms : List Rat) (init : Cell) : Cell :=
  runSteps (rowProg k w terms) init

/-! ### strided memory -/

/-- a numpy array: flat buffer, offset / shape / strides in elements -/
structure Arr (ε : Type) where
  buf : Array ε
  offset : Int
  shape : List Nat
  strides : List Int

def idx1 (offset s0 : Int) (j : Nat) : Int := offset + (j : Int) * s0
def idx2 (offset s0 s1 : Int) (i j : Nat) : Int := offset + (i : Int) * s0 + (j : Int) * s1

/-- read the element at a flat (possibly out-of-range) index -/
def Arr.at? {ε} (a : Arr ε) (k : Int) : Option ε :=
  if 0 ≤ k then a.buf[k.toNat]? else none

def Arr.read1? {ε} (a : Arr ε) (j : Nat) : Option ε :=
  match a.strides with
  | [s0] => a.at? (idx1 a.offset s0 j)
  | _ => none
def Arr.read2? {ε} (a : Arr ε) (i j : Nat) : Option ε :=
  match a.strides with
  | [s0, s1] => a.at? (idx2 a.offset s0 s1 i j)
  | _ => none

/-- smallest / largest flat index reachable through the view (numpy's extent) -/
def extentLo (offset : Int) : List Nat → List Int → Int
  | n :: ns, s :: ss => extentLo (offset + (if s < 0 then ((n : Int) - 1) * s else 0)) ns ss
  | _, _ => offset
def extentHi (offset : Int) : List Nat → List Int → Int
  | n :: ns, s :: ss => extentHi (offset + (if s < 0 then 0 else ((n : Int) - 1) * s)) ns ss
  | _, _ => offset

/-- numpy's array invariant: same number of strides as dimensions and, unless some
dimension is empty, the extreme indices are inside the buffer -/
def Arr.extentOk {ε} (a : Arr ε) : Bool :=
  a.shape.length == a.strides.length &&
  (a.shape.any (· == 0) ||
    (decide (0 ≤ extentLo a.offset a.shape a.strides) &&
     decide (extentHi a.offset a.shape a.strides < (a.buf.size : Int))))

/-- all reads succeeded -/
def allSome {α} : List (Option α) → Option (List α)
  | [] => some []
  | none :: _ => none
  | some a :: rest => (allSome rest).map (a :: ·)

/-- logical rows of a 2-D view: `X[i, j]` for `i < n`, `j < w` (row-major lists);
`none` as soon as one index falls outside the buffer -/
def Arr.rows? {ε} (a : Arr ε) (n w : Nat) : Option (List (List ε)) :=
  allSome ((List.range n).map (fun i => allSome ((List.range w).map (fun j => a.read2? i j))))
/-- logical elements of a 1-D view -/
def Arr.elems? {ε} (a : Arr ε) (w : Nat) : Option (List ε) :=
  allSome ((List.range w).map (fun j => a.read1? j))

/-- C-ordered array holding the logical matrix `f` -/
def Arr.ofFnC {ε} (n w : Nat) (f : Nat → Nat → ε) : Arr ε :=
  { buf := Array.ofFn (n := n * w) (fun k => f (k.val / w) (k.val % w)),
    offset := 0, shape := [n, w], strides := [(w : Int), 1] }
/-- Fortran-ordered array holding the logical matrix `f` -/
def Arr.ofFnF {ε} (n w : Nat) (f : Nat → Nat → ε) : Arr ε :=
  { buf := Array.ofFn (n := n * w) (fun k => f (k.val % n) (k.val / n)),
    offset := 0, shape := [n, w], strides := [1, (n : Int)] }
/-- contiguous 1-D array holding the logical vector `g` -/
def Arr.ofFn1 {ε} (w : Nat) (g : Nat → ε) : Arr ε :=
  { buf := Array.ofFn (n := w) (fun k => g k.val), offset := 0, shape := [w], strides := [1] }
/-- basic-slicing view `a[r0 : : rs, c0 : : cs]` with `nr × nc` elements (steps may be negative) -/
def Arr.sub2 {ε} (a : Arr ε) (r0 : Nat) (rs : Int) (nr : Nat) (c0 : Nat) (cs : Int) (nc : Nat) : Arr ε :=
  match a.strides with
  | [s0, s1] => { a with offset := a.offset + (r0 : Int) * s0 + (c0 : Int) * s1,
                         shape := [nr, nc], strides := [rs * s0, cs * s1] }
  | _ => a
/-- 1-D view `a[c0 : : cs]` -/
def Arr.sub1 {ε} (a : Arr ε) (c0 : Nat) (cs : Int) (nc : Nat) : Arr ε :=
  match a.strides with
  | [s0] => { a with offset := a.offset + (c0 : Int) * s0, shape := [nc], strides := [cs * s0] }
  | _ => a

/-! ### validation and dispatch -/

inductive Err where
  | dataInvalid     -- enspara.exception.DataInvalid
  | indexError      -- `out.shape[0]` of a 0-d `out`
  | typeError       -- "No matching signature found" / the `% out.shape` formatting at L68-71
  | valueError      -- "Buffer dtype mismatch" / read-only `out`
  | badRequest      -- the request does not describe a numpy array (never produced by numpy)
  deriving DecidableEq, Repr

/-- what validation looks at: dtype name and shape -/
structure Meta where
  dtype : String
  shape : List Nat
  writable : Bool := true
  deriving Repr

/-- `_prepare_for_2d_to_1d_distance` (L44-72) for array arguments.  Returns the shape of
the `out` that the kernel will receive (`none` as input = allocate `np.zeros(X.shape[0])`). -/
def prepare (X y : Meta) (out : Option Meta) : Except Err (List Nat) :=
  match X.shape, y.shape with
  | [n, wx], [wy] =>
    if wx ≠ wy then Except.error .dataInvalid                      -- L48
    else match out with
    | none => Except.ok [n]                                      -- L56
    | some o =>
      if o.dtype ≠ "float64" then Except.error .dataInvalid       -- L59
      else match o.shape with
      | [] => Except.error .indexError                             -- `out.shape[0]`, L63
      | m :: rest =>
        if m ≠ n then Except.error .dataInvalid                    -- L63
        -- L67-71: the message is built with `% out.shape`, a tuple of ≥ 2 items here, so the
        -- intended DataInvalid surfaces as a TypeError ("not all arguments converted")
        else if rest ≠ [] then Except.error .typeError
        else Except.ok [m]
  | _, _ => Except.error .dataInvalid          -- _check_is_2d L33 / _check_is_1d L39

/-- element types a kernel is compiled for (from the generated `ctypedef fused` lists) -/
def Kernel.fusedName (k : Kernel) : Option String :=
  match (Gen.kernelSigs.lookup k.cname) with
  | some ((_, t, _) :: _) => some t
  | _ => none
def Kernel.dtypes (k : Kernel) : List DType :=
  match k.fusedName with
  | some f => ((Gen.fused.lookup f).getD []).filterMap DType.ofName
  | none => []

/-- fused dispatch + buffer acquisition of `_kernel(X, y, out)`: the specialisation is
chosen from `X`'s dtype (TypeError when there is none), then `y` must have the same
element type and `out` must be a writable float64 buffer (ValueError otherwise) -/
def dispatch (k : Kernel) (X y : Meta) (outWritable : Bool) : Except Err DType :=
  match DType.ofName X.dtype with
  | none => .error .typeError
  | some t =>
    if t ∉ k.dtypes then .error .typeError
    else if y.dtype ≠ X.dtype then .error .valueError
    else if !outWritable then .error .valueError
    else .ok t

/-! ### the whole call -/

/-- where row `i` writes: flat position of `out[i]` -/
def outPos (offset stride : Int) (i : Nat) : Nat := (idx1 offset stride i).toNat

/-- run an execution whose cells are rows against the flat `out` buffer -/
def runMem (offset stride : Int) (e : Exec Cell) (buf : Nat → Cell) : Nat → Cell :=
  run (retag (outPos offset stride) e) buf

/-- flat buffer as a store (positions beyond the buffer are never written nor reported) -/
def storeOf (buf : Array Cell) : Nat → Cell := fun k => buf.getD k .untracked

structure Result where
  /-- the `out` buffer after the call, whole base buffer -/
  buf : List Cell
  /-- the returned array's view of it -/
  offset : Int
  stride : Int
  n : Nat
  deriving Repr

def Result.values (r : Result) : List Cell :=
  (List.range r.n).map (fun i => (r.buf.getD (outPos r.offset r.stride i) .untracked))

/-- the per-row programs of a call on logical data -/
def progsOf {ε} (k : Kernel) (term : ε → ε → Rat) (rows : List (List ε)) (ys : List ε) :
    List (List (Cell → Cell)) :=
  rows.map (fun xs => rowProg k ys.length (rowTerms term xs ys))

/-- The kernel proper (`_euclidean` / `_manhattan` / `_hamming`) on validated arguments:
`n_samples = len(out)`, `n_features = len(y)`; rows are executed under the interleaving
`schedule progs choices`. -/
def kernelRun {ε} (k : Kernel) (term : ε → ε → Rat) (X y : Arr ε) (out : Arr Cell)
    (choices : List Nat) : Except Err Result :=
  match out.shape, y.shape, out.strides with
  | [n], [w], [so] =>             -- `n_samples = len(out)`, `n_features = len(y)`
    if !(X.extentOk && y.extentOk && out.extentOk) then .error .badRequest
    -- distinct rows must own distinct cells (false only for a stride-0 `as_strided` alias)
    else if so = 0 ∧ 1 < n then .error .badRequest
    else match X.rows? n w, y.elems? w with
      | some rows, some ys =>
        let progs := progsOf k term rows ys
        let final := runMem out.offset so (schedule progs choices) (storeOf out.buf)
        .ok { buf := (List.range out.buf.size).map final, offset := out.offset, stride := so, n := n }
      | _, _ => .error .badRequest
  | _, _, _ => .error .badRequest

/-- the arrays of a call, element type resolved -/
inductive Data where
  | ints (X y : Arr Int)
  | rats (X y : Arr Rat)

/-- the `out` array the kernel receives: the caller's, or `np.zeros((X.shape[0]))` (L56) -/
def outArrOf (out : Option (Meta × Arr Cell)) (oshape : List Nat) : Arr Cell :=
  match out with
  | some (_, a) => a
  | none => { buf := Array.replicate oshape.sum (.val 0), offset := 0, shape := oshape, strides := [1] }

/-- `libdist.euclidean / manhattan / hamming (X, y, out)`: `_prepare_for_2d_to_1d_distance`,
then the fused dispatch of `_kernel(X, y, out)`, then the kernel; the wrapper returns `out` -/
def call (k : Kernel) (Xm ym : Meta) (data : Data) (out : Option (Meta × Arr Cell))
    (choices : List Nat) : Except Err Result :=
  match prepare Xm ym (out.map (·.1)) with
  | .error e => .error e
  | .ok oshape =>
    match dispatch k Xm ym ((out.map (·.1.writable)).getD true) with
    | .error e => .error e
    | .ok t =>
      match t.promote, data with
      | some c, .ints X y => kernelRun k (termInt intArith k c) X y (outArrOf out oshape) choices
      | none, .rats X y => kernelRun k (termRat k) X y (outArrOf out oshape) choices
      | _, _ => .error .badRequest

end Ens.Dist
