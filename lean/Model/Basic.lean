/-
Shared, Mathlib-free definitions used by every model.
Arrays are index functions `Nat → α` with an explicit size where proofs reason
pointwise, and `List`s where the code's own list/slice structure matters.
-/
namespace Ens

/-- Σ_{k<n} f k by structural recursion (bridged to `Finset.range` in `Proofs/Basic`). -/
def sumTo {α} [Add α] [OfNat α 0] (n : Nat) (f : Nat → α) : α :=
  match n with
  | 0 => 0
  | k+1 => sumTo k f + f k

/-- materialise an index function -/
def tabulate {α} (n : Nat) (f : Nat → α) : List α := (List.range n).map f

/-- first index attaining the maximum of `f` over `0 … n-1` (numpy `argmax`); 0 when `n = 0`. -/
def argmaxTo {α} [LT α] [DecidableRel (α := α) (· < ·)] (n : Nat) (f : Nat → α) : Nat :=
  match n with
  | 0 => 0
  | k+1 => if k = 0 then 0 else
      let b := argmaxTo k f
      if f b < f k then k else b

/-- first index attaining the minimum of `f` over `0 … n-1` (numpy `argmin`). -/
def argminTo {α} [LT α] [DecidableRel (α := α) (· < ·)] (n : Nat) (f : Nat → α) : Nat :=
  match n with
  | 0 => 0
  | k+1 => if k = 0 then 0 else
      let b := argminTo k f
      if f k < f b then k else b

end Ens
