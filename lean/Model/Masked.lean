import Model.Basic
/-!
C19 — models of the three mechanisms by which a numerical routine can come to read memory it
has not initialised (and therefore return a value that depends on the call history):

(i)   a masked element-wise numpy operation `np.<ufunc>(args, where=mask[, out=buf])`
      (`enspara/info_theory/entropy.py: shannon_entropy`, `mutual_info.py: mutual_information`,
      `weighted_mi`).  Cells where the mask is false keep the *previous* content of the output
      buffer; when the caller passes no `out`, numpy allocates the buffer itself and that previous
      content is whatever the allocator hands back (parameter `g`, the "garbage").
(i')  `shannon_entropy(p, normalize=False)` built on (i), over NaN-propagating values, because
      the defect is invisible in exact arithmetic (`0 * garbage = 0`) but not in IEEE (`0 * nan = nan`).
(iii) the compiled kernels that accumulate into an output buffer:
      `enspara/geometry/libdist.pyx` `_prepare_for_2d_to_1d_distance`, `_hamming`, `_manhattan`,
      `_euclidean` (caller-supplied `out` is zeroed before the `+=` loop) and
      `enspara/info_theory/libinfo.pyx` `matrix_bincount2d` (`np.zeros` then `+= 1`).

The heap is an explicit parameter everywhere; "the result depends on the arguments only" is the
statement that the functions below do not depend on it.  Mathlib-free.
-/
namespace Ens.Masked

inductive Err | shapeMismatch | dataInvalid | assertion | valueError
  deriving Repr, DecidableEq

/-- the value of a successful call (for stating concrete instances) -/
def ok? {α} : Except Err α → Option α
  | .ok a => some a
  | .error _ => none

/-- the error kind of a failed call -/
def err? {α} : Except Err α → Option Err
  | .ok _ => none
  | .error e => some e

/-! ## allocation: the heap is a parameter

A fresh block of `n` cells holds whatever the allocator hands back: `g k` at cell `k`.
`np.empty` returns it as it is, `np.zeros` / `np.full` overwrite every cell. -/

/-- `np.empty(n)`: a block of `n` cells with previous content `g` -/
def npEmpty {β} (n : Nat) (g : Nat → β) : List β := tabulate n g

/-- `np.full(n, z)` (`np.zeros` for `z = 0`): allocate, then overwrite every cell -/
def npFull {β} (z : β) (n : Nat) (g : Nat → β) : List β := (npEmpty n g).map (fun _ => z)

/-! ## (i) masked element-wise operation -/

/-- Cells of the output buffer after a masked operation: `f args[i]` where the mask is true,
the buffer's previous content where it is false. -/
def maskedCells {α β} (f : α → β) : List Bool → List α → List β → List β
  | m :: ms, a :: as, b :: bs => (if m then f a else b) :: maskedCells f ms as bs
  | _, _, _ => []

/-- `np.<ufunc>(args, where=mask, out=out)`; `out = none` is the call without `out=`, in which
case the buffer is a fresh allocation whose previous content is `g`.  (Operands are taken
already broadcast to one common length; a mismatch is numpy's broadcasting `ValueError`.) -/
def maskedApply {α β} (f : α → β) (mask : List Bool) (args : List α)
    (out : Option (List β)) (g : List β) : Except Err (List β) :=
  let buf := match out with
    | some o => o
    | none => g
  if mask.length = args.length ∧ buf.length = args.length then
    .ok (maskedCells f mask args buf)
  else .error .shapeMismatch

/-! ## (i') `shannon_entropy(p, normalize=False)`, entropy.py L191-196 -/

/-- IEEE-like value: `none` is NaN.  Only the propagation rule matters here. -/
abbrev FV := Option Rat

def FV.mul : FV → FV → FV
  | some a, some b => some (a * b)
  | _, _ => none

def FV.add : FV → FV → FV
  | some a, some b => some (a + b)
  | _, _ => none

def FV.neg : FV → FV
  | some a => some (-a)
  | none => none

/-- `np.sum` over NaN-propagating values -/
def FV.sum (l : List FV) : FV := l.foldr FV.add (some 0)

/-- `-np.sum(p * np.log(p, where=(p > 0), out=out))`; `lg` stands for `np.log` on the cells
where it is evaluated. -/
def entropyWith (lg : Rat → FV) (p : List Rat) (out : Option (List FV)) (g : List FV) :
    Except Err FV := do
  let L ← maskedApply lg (p.map (fun x => decide (0 < x))) p out g
  pure (FV.neg (FV.sum (List.zipWith (fun x l => FV.mul (some x) l) p L)))

/-- the code as it is: `out=np.zeros(np.shape(p))`; `g` is the heap content both allocations see -/
def shannonEntropy (lg : Rat → FV) (p : List Rat) (g : Nat → FV) : Except Err FV :=
  entropyWith lg p (some (npFull (some 0) p.length g)) (npEmpty p.length g)

/-- the code before the fix (no `out=`): kept to state what the obligation on the generated site
table protects against. -/
def shannonEntropyNoOut (lg : Rat → FV) (p : List Rat) (g : Nat → FV) : Except Err FV :=
  entropyWith lg p none (npEmpty p.length g)

/-- what the routine is meant to compute: `- Σ_{p_i > 0} p_i · log p_i` -/
def entropySpec (lg : Rat → FV) (p : List Rat) : FV :=
  FV.neg (FV.sum ((p.filter (fun x => decide (0 < x))).map (fun x => FV.mul (some x) (lg x))))

/-! ## (iii) libdist.pyx -/

/-- `_prepare_for_2d_to_1d_distance` L44-72 (dtype check on `out` not modelled: one value type).
`X` is `nrows` rows of `ncols` values. -/
def prepare (X : List (List Rat)) (ncols : Nat) (y : List Rat) (out : Option (List Rat))
    (g : Nat → Rat) : Except Err (List Rat) :=
  if ncols ≠ y.length then .error .dataInvalid          -- L48
  else match out with
    | none => .ok (npFull 0 X.length g)                 -- L56 np.zeros on a block with content `g`
    | some o => if o.length ≠ X.length then .error .dataInvalid else .ok o   -- L63

def absR (q : Rat) : Rat := if q < 0 then -q else q

/-- one row of the `+=` loop started from the value already in the cell -/
def rowAcc (term : Rat → Rat → Rat) (init : Rat) (row y : List Rat) : Rat :=
  (List.zipWith term row y).foldl (fun s t => s + t) init

/-- the accumulation loops alone (L113-115 / L138-140): what the kernels would be without
their zeroing loop -/
def accumulate (term : Rat → Rat → Rat) (X : List (List Rat)) (y : List Rat) (out : List Rat) :
    List Rat :=
  List.zipWith (fun o row => rowAcc term o row y) out X

/-- the zeroing loop (L110-111, L135-136, L89) -/
def zeroed (out : List Rat) : List Rat := out.map (fun _ => 0)

/-- the two `assert`s at the top of each kernel -/
def kernelGuard (X : List (List Rat)) (ncols : Nat) (y : List Rat) (out : List Rat) : Bool :=
  decide (out.length = X.length) && decide (y.length = ncols) && X.all (fun r => decide (r.length = ncols))

/-- `_manhattan` L100-117 -/
def manhattanKernel (X : List (List Rat)) (ncols : Nat) (y : List Rat) (out : List Rat) :
    Except Err (List Rat) :=
  if kernelGuard X ncols y out then
    .ok (accumulate (fun x yj => absR (x - yj)) X y (zeroed out))
  else .error .assertion

/-- `_euclidean` L122-145; `sqrtF` stands for C `sqrt` -/
def euclideanKernel (sqrtF : Rat → Rat) (X : List (List Rat)) (ncols : Nat) (y : List Rat)
    (out : List Rat) : Except Err (List Rat) :=
  if kernelGuard X ncols y out then
    .ok ((accumulate (fun x yj => (x - yj) * (x - yj)) X y (zeroed out)).map sqrtF)
  else .error .assertion

/-- `_hamming` L77-95: `out[i] = 0`, count mismatches, divide by `n_features`
(`0/0` is NaN = `none`) -/
def hammingKernel (X : List (List Rat)) (ncols : Nat) (y : List Rat) (out : List Rat) :
    Except Err (List FV) :=
  if kernelGuard X ncols y out then
    .ok ((accumulate (fun x yj => if yj ≠ x then 1 else 0) X y (zeroed out)).map
      (fun c => if ncols = 0 then none else some (c / (ncols : Rat))))
  else .error .assertion

/-- `manhattan(X, y, out=None)` L166-183 -/
def manhattan (X : List (List Rat)) (ncols : Nat) (y : List Rat) (out : Option (List Rat))
    (g : Nat → Rat) : Except Err (List Rat) := do
  let o ← prepare X ncols y out g
  manhattanKernel X ncols y o

/-- `euclidean(X, y, out=None)` L148-164 -/
def euclidean (sqrtF : Rat → Rat) (X : List (List Rat)) (ncols : Nat) (y : List Rat)
    (out : Option (List Rat)) (g : Nat → Rat) : Except Err (List Rat) := do
  let o ← prepare X ncols y out g
  euclideanKernel sqrtF X ncols y o

/-- `hamming(X, y, out=None)` L186-203 -/
def hamming (X : List (List Rat)) (ncols : Nat) (y : List Rat) (out : Option (List Rat))
    (g : Nat → Rat) : Except Err (List FV) := do
  let o ← prepare X ncols y out g
  hammingKernel X ncols y o

/-! ## (iii) libinfo.pyx `matrix_bincount2d` L50-76 -/

/-- column `c` of a row-major table -/
def column (a : List (List Int)) (c : Nat) : List Int := a.filterMap (fun r => r[c]?)

/-- number of time points at which feature column `ca` is in state `i` and column `cb` in state `j` -/
def pairCount (ca cb : List Int) (i j : Nat) : Nat :=
  ((ca.zip cb).filter (fun p => decide (p.1 = (i : Int)) && decide (p.2 = (j : Int)))).length

/-- position of `jc[x, y, i, j]` in the C-contiguous block of shape `(fa, fb, na, nb)` -/
def flatIndex (fb na nb x y i j : Nat) : Nat := ((x * fb + y) * na + i) * nb + j

/-- the `+= 1` loop L69-74 run on the block `buf` (whatever it holds): every cell ends up with its
previous content plus the number of co-occurrences.  A position outside the block is an error (it does
not occur for the block sizes the callers build). -/
def bincountFrom (buf : List Nat) (a b : List (List Int)) (fa fb na nb : Nat) :
    Except Err (List (List (List (List Nat)))) :=
  (List.range fa).mapM fun x => (List.range fb).mapM fun y => (List.range na).mapM fun i =>
    (List.range nb).mapM fun j =>
      match buf[flatIndex fb na nb x y i j]? with
      | some v => .ok (v + pairCount (column a x) (column b y) i j)
      | none => .error .assertion

def maxOf (l : List Int) : Option Int :=
  l.foldl (fun m x => match m with
    | none => some x
    | some y => some (if y < x then x else y)) none

def minOf (l : List Int) : Option Int :=
  l.foldl (fun m x => match m with
    | none => some x
    | some y => some (if x < y then x else y)) none

/-- the assertions of `matrix_bincount2d` L56-61, in the code's order (`.max()` of an empty array is
numpy's `ValueError`) -/
def bincountGuard (a b : List (List Int)) (na nb : Nat) : Except Err Unit := do
  if a.length ≠ b.length then throw .assertion                       -- L57
  let amax ← match maxOf a.flatten with
    | none => throw .valueError
    | some m => pure m
  if ¬ amax < na then throw .assertion                               -- L58
  let bmax ← match maxOf b.flatten with
    | none => throw .valueError
    | some m => pure m
  if ¬ bmax < nb then throw .assertion                               -- L59
  if (minOf a.flatten).any (fun m => m < 0) then throw .assertion      -- L60
  if (minOf b.flatten).any (fun m => m < 0) then throw .assertion      -- L61

/-- `matrix_bincount2d(a, b, n_a, n_b)`: `a` is `T × fa`, `b` is `T' × fb`.  `g` is what the block the
allocator hands out held before; `np.zeros` (L63) overwrites every cell of it, then the loop accumulates. -/
def matrixBincount2d (a : List (List Int)) (fa : Nat) (b : List (List Int)) (fb : Nat)
    (na nb : Nat) (g : Nat → Nat) : Except Err (List (List (List (List Nat)))) := do
  bincountGuard a b na nb
  bincountFrom (npFull 0 (fa * fb * na * nb) g) a b fa fb na nb        -- L63 np.zeros, L69-74

/-- the same kernel with `np.empty` instead of `np.zeros` (what `all_alloc_sites_initialised` and
`all_accumulators_initialised` exclude): kept to show that the zeroing is what the theorem is about -/
def matrixBincount2dNoZero (a : List (List Int)) (fa : Nat) (b : List (List Int)) (fb : Nat)
    (na nb : Nat) (g : Nat → Nat) : Except Err (List (List (List (List Nat)))) := do
  bincountGuard a b na nb
  bincountFrom (npEmpty (fa * fb * na * nb) g) a b fa fb na nb

/-! ## the shape of the property -/

/-- A routine under an execution semantics: besides its arguments, an execution sees a world `W` (heap
contents, schedule, worker count, call history …); it yields a value and the arguments as the caller
finds them afterwards. -/
structure Routine (W : Type) where
  Args : Type
  Val : Type
  run : W → Args → Val × Args
  /-- documented to work in place -/
  inPlace : Bool

/-- value determined by the arguments alone; arguments untouched unless documented in place -/
def ArgumentsOnly {W} (r : Routine W) : Prop :=
  (∃ f : r.Args → r.Val, ∀ w a, (r.run w a).1 = f a) ∧ (r.inPlace = false → ∀ w a, (r.run w a).2 = a)

end Ens.Masked
