import Proofs.C06Mask
/-!
The hand-written slice arithmetic of the UNCHANGED `ra.py` (`_slice_to_list`,
`_get_iis_from_slices`) agrees with CPython's `slice.indices` on the "plain" slices:
positive (or no) step, start not below the axis (rows) / not negative (columns), row stop not beyond
the axis.  Together with "every selected row has a selected column" this puts the index in scope.
-/
namespace Ens
open Ens.RaggedW

theorem rangeAux_empty (stop step : Int) (fuel : Nat) (cur : Int) (hs : 0 < step) (h : stop ≤ cur) :
    rangeAux stop step fuel cur = [] := by
  cases fuel with
  | zero => rfl
  | succ n =>
    unfold rangeAux
    have : ¬ ((step > 0 ∧ cur < stop) ∨ (step < 0 ∧ cur > stop)) := by omega
    simp only [this, if_false]

/-- with enough fuel the enumeration does not depend on the fuel -/
theorem rangeAux_fuel (stop step : Int) (hs : 0 < step) : ∀ (f1 f2 : Nat) (cur : Int),
    (stop - cur).toNat ≤ f1 → (stop - cur).toNat ≤ f2 →
    rangeAux stop step f1 cur = rangeAux stop step f2 cur := by
  intro f1
  induction f1 with
  | zero =>
    intro f2 cur h1 _
    have : stop ≤ cur := by omega
    rw [rangeAux_empty stop step 0 cur hs this, rangeAux_empty stop step f2 cur hs this]
  | succ n ih =>
    intro f2 cur h1 h2
    by_cases hc : cur < stop
    · cases f2 with
      | zero => omega
      | succ m =>
        unfold rangeAux
        have : (step > 0 ∧ cur < stop) ∨ (step < 0 ∧ cur > stop) := Or.inl ⟨hs, hc⟩
        simp only [this, if_true]
        rw [ih m (cur + step) (by omega) (by omega)]
    · have : stop ≤ cur := by omega
      rw [rangeAux_empty stop step _ cur hs this, rangeAux_empty stop step f2 cur hs this]

/-- the shared core: as-is bounds `(start', stop')` against CPython's clamped `(a, b)` -/
theorem range_agree (n : Nat) (start' stop' a b step : Int) (hs : 0 < step)
    (h0 : 0 ≤ start') (hn : stop' ≤ n)
    (ha : a = if start' ≥ n then (n : Int) else start') (hb : b = if stop' < 0 then 0 else stop') :
    pyRange start' stop' step = rangeAux b step (n + 1) a := by
  unfold pyRange
  by_cases h1 : start' ≥ n
  · rw [rangeAux_empty stop' step _ start' hs (by omega)]
    rw [rangeAux_empty b step _ a hs (by rw [ha, hb]; simp only [h1, if_true]; split <;> omega)]
  · simp only [h1, if_false] at ha
    subst ha
    by_cases h2 : stop' < 0
    · simp only [h2, if_true] at hb
      subst hb
      rw [rangeAux_empty stop' step _ a hs (by omega), rangeAux_empty 0 step _ a hs (by omega)]
    · simp only [h2, if_false] at hb
      subst hb
      apply rangeAux_fuel b step hs
      · omega
      · omega

theorem map_toNat_ofNat (l : List Int) (h : ∀ x ∈ l, 0 ≤ x) :
    (l.map Int.toNat).map Int.ofNat = l := by
  rw [List.map_map]
  conv => rhs; rw [← List.map_id l]
  apply List.map_congr_left
  intro x hx
  simp only [Function.comp, id]
  exact Int.toNat_of_nonneg (h x hx)

/-- positive (or absent) step -/
def PosStep (s : PySlice) : Prop :=
  match s.step with
  | none => True
  | some k => 0 < k

instance (s : PySlice) : Decidable (PosStep s) := by
  unfold PosStep; split <;> infer_instance

/-- CPython's positions for a positive-step slice, as integers -/
theorem indices_pos (len : Nat) (s : PySlice) (hp : PosStep s) :
    ∃ a b c, s.adjust len = some (a, b, c) ∧ 0 < c ∧ c = s.step.getD 1 ∧
      s.indices len = some ((rangeAux b c (len + 1) a).map Int.toNat) ∧
      (∀ x ∈ rangeAux b c (len + 1) a, 0 ≤ x) := by
  have hc : 0 < s.step.getD 1 := by
    unfold PosStep at hp
    cases hs : s.step with
    | none => simp
    | some k => rw [hs] at hp; simpa using hp
  have hne : s.step.getD 1 ≠ 0 := by omega
  cases hadj : s.adjust len with
  | none =>
    unfold PySlice.adjust at hadj
    simp only [hne, if_false] at hadj
    cases hadj
  | some t =>
    obtain ⟨a, b, c⟩ := t
    have hcc : c = s.step.getD 1 := by
      unfold PySlice.adjust at hadj
      simp only [hne, if_false] at hadj
      injection hadj with hadj
      injection hadj with _ h2
      injection h2 with _ h3
      exact h3.symm
    refine ⟨a, b, c, rfl, by omega, hcc, ?_, ?_⟩
    · simp [PySlice.indices, hadj]
    · intro x hx
      obtain ⟨hpos, _, _⟩ := adjust_bounds len s a b c hadj
      rcases rangeAux_mem b c _ a x hx with ⟨h1, h2, _⟩ | ⟨h1, _, _⟩
      · have := hpos h1; omega
      · omega

namespace RaggedW

/-- row slices the unchanged `_slice_to_list` gets right -/
def PlainRowSlice (n : Nat) (s : PySlice) : Prop :=
  PosStep s ∧
  (match s.start with | none => True | some v => -(n : Int) ≤ v) ∧
  (match s.stop with | none => True | some v => v ≤ (n : Int))

instance (n : Nat) (s : PySlice) : Decidable (PlainRowSlice n s) := by
  unfold PlainRowSlice
  have : Decidable (match s.start with | none => True | some v => -(n : Int) ≤ v) := by
    split <;> infer_instance
  have : Decidable (match s.stop with | none => True | some v => v ≤ (n : Int)) := by
    split <;> infer_instance
  infer_instance

/-- column slices the unchanged `_get_iis_from_slices` gets right (for every row length) -/
def PlainColSlice (s : PySlice) : Prop :=
  PosStep s ∧ (match s.start with | none => True | some v => (0 : Int) ≤ v)

instance (s : PySlice) : Decidable (PlainColSlice s) := by
  unfold PlainColSlice
  have : Decidable (match s.start with | none => True | some v => (0 : Int) ≤ v) := by
    split <;> infer_instance
  infer_instance

theorem sliceToListAsIs_plain (n : Nat) (s : PySlice) (h : PlainRowSlice n s) :
    sliceToListAsIs s n = specRowNums n (.slice s) := by
  obtain ⟨hp, hstart', hstop'⟩ := h
  have hstart : ∀ v, s.start = some v → -(n : Int) ≤ v := by
    intro v hv; rw [hv] at hstart'; exact hstart'
  have hstop : ∀ v, s.stop = some v → v ≤ (n : Int) := by
    intro v hv; rw [hv] at hstop'; exact hstop'
  obtain ⟨a, b, c, hadj, hc, hcc, hidx, hnn⟩ := indices_pos n s hp
  unfold specRowNums pyIndices
  simp only [hidx]
  rw [map_toNat_ofNat _ hnn]
  unfold sliceToListAsIs
  simp only []
  have hne : s.step.getD 1 ≠ 0 := by omega
  simp only [hne, if_false]
  congr 1
  rw [← hcc]
  -- identify CPython's clamped bounds
  unfold PySlice.adjust at hadj
  simp only [hne, if_false] at hadj
  injection hadj with hadj
  injection hadj with ha hrest
  injection hrest with hb _
  have hcpos : ¬ (s.step.getD 1 < 0) := by omega
  apply range_agree n _ _ a b c hc
  · cases hs : s.start with
    | none => simp
    | some v =>
      have := hstart v hs
      simp only []
      split <;> omega
  · cases hs : s.stop with
    | none => simp
    | some v =>
      have := hstop v hs
      simp only []
      split <;> omega
  · rw [← ha]
    cases hs : s.start with
    | none => simp only [hcpos, if_false]; split <;> omega
    | some v =>
      have := hstart v hs
      simp only [hcpos, if_false]
      (repeat' split) <;> omega
  · rw [← hb]
    cases hs : s.stop with
    | none => simp only [hcpos, if_false]; split <;> omega
    | some v =>
      have := hstop v hs
      simp only [hcpos, if_false]
      (repeat' split) <;> omega

theorem colsAsIs_plain (l : Nat) (s : PySlice) (h : PlainColSlice s) :
    colsAsIs s l = colsPy s l := by
  obtain ⟨hp, hstart'⟩ := h
  have hstart : ∀ v, s.start = some v → (0 : Int) ≤ v := by
    intro v hv; rw [hv] at hstart'; exact hstart'
  obtain ⟨a, b, c, hadj, hc, hcc, hidx, hnn⟩ := indices_pos l s hp
  unfold colsPy pyIndices
  simp only [hidx]
  rw [map_toNat_ofNat _ hnn]
  unfold colsAsIs
  simp only []
  have hne : s.step.getD 1 ≠ 0 := by omega
  simp only [hne, if_false]
  congr 1
  rw [← hcc]
  unfold PySlice.adjust at hadj
  simp only [hne, if_false] at hadj
  injection hadj with hadj
  injection hadj with ha hrest
  injection hrest with hb _
  have hcpos : ¬ (s.step.getD 1 < 0) := by omega
  apply range_agree l _ _ a b c hc
  · cases hs : s.start with
    | none => simp
    | some v => have := hstart v hs; simpa using this
  · cases hs : s.stop with
    | none => simp
    | some v =>
      simp only []
      (repeat' split) <;> omega
  · rw [← ha]
    cases hs : s.start with
    | none => simp only [hcpos, if_false, Option.getD_none]; split <;> omega
    | some v =>
      have := hstart v hs
      simp only [hcpos, if_false, Option.getD_some]
      (repeat' split) <;> omega
  · rw [← hb]
    cases hs : s.stop with
    | none => simp only [hcpos, if_false]; split <;> omega
    | some v =>
      simp only [hcpos, if_false]
      (repeat' split) <;> omega

end RaggedW
end Ens

namespace Ens.RaggedW
variable {α : Type}

/-- the same variant of the code with the read-side repair switched on -/
def fixReads (cfg : Cfg) : Cfg := { cfg with readsFix := true }

/-- a 2-d index the UNCHANGED index helpers handle like CPython/numpy:
plain row slice (or a row list), plain column slice (or integer columns), at least one row, and for a
column slice at least one selected column in every selected row -/
def PlainIdx (ls : List Nat) (r : Sel) (c : CSel) : Prop :=
  (match r with
    | .slice rs => PlainRowSlice ls.length rs
    | .list _ => True) ∧
  (match specRowNums ls.length r with
    | .error _ => True
    | .ok nums =>
      match c with
      | .slice cs => PlainColSlice cs ∧ nums ≠ [] ∧
          ∀ num ∈ nums, ∀ l, lenAt ls num = .ok l → ∀ ix, pyIndices l cs = .ok ix → ix ≠ []
      | .int _ => nums ≠ []
      | .list l => nums ≠ [] ∧ l ≠ [])

theorem sliceToList_plain (cfg : Cfg) (n : Nat) (rs : PySlice) (h : PlainRowSlice n rs) :
    sliceToList cfg rs n = specRowNums n (.slice rs) := by
  by_cases hr : cfg.readsFix = true
  · exact sliceToList_fixed cfg hr rs n
  · unfold sliceToList
    simp only [hr, Bool.false_eq_true, if_false]
    exact sliceToListAsIs_plain n rs h

theorem rowPairs_plain (cfg : Cfg) (hr : cfg.readsFix = false) (cs : PySlice) (hc : PlainColSlice cs)
    (ls : List Nat) (num : Int) : rowPairs cfg cs ls num = rowPairs (fixReads cfg) cs ls num := by
  unfold rowPairs colsOf fixReads
  simp only [hr, Bool.false_eq_true, if_false, if_true]
  cases lenAt ls num with
  | error e => rfl
  | ok l =>
    simp only []
    rw [colsAsIs_plain l cs hc]

theorem rowPairs_fix_nonempty (cfg : Cfg) (cs : PySlice) (ls : List Nat) (num : Int) (g : List (Int × Int))
    (hg : rowPairs (fixReads cfg) cs ls num = .ok g)
    (hne : ∀ l, lenAt ls num = .ok l → ∀ ix, pyIndices l cs = .ok ix → ix ≠ []) : g ≠ [] := by
  unfold rowPairs colsOf colsPy fixReads at hg
  simp only [if_true] at hg
  cases hl : lenAt ls num with
  | error e => simp [hl] at hg
  | ok l =>
    simp only [hl] at hg
    cases hp : pyIndices l cs with
    | error e => simp [hp] at hg
    | ok ix =>
      simp only [hp] at hg
      injection hg with hg
      subst hg
      have := hne l hl ix hp
      intro hnil
      simp only [List.map_map, List.map_eq_nil_iff] at hnil
      exact this hnil

theorem getIisFromSlices_plain (cfg : Cfg) (hr : cfg.readsFix = false) (nums : List Int) (cs : PySlice)
    (ls : List Nat) (hc : PlainColSlice cs) (hnums : nums ≠ [])
    (hne : ∀ num ∈ nums, ∀ l, lenAt ls num = .ok l → ∀ ix, pyIndices l cs = .ok ix → ix ≠ []) :
    getIisFromSlices cfg nums cs ls = getIisFromSlices (fixReads cfg) nums cs ls := by
  unfold getIisFromSlices
  rw [mapE_congr nums (fun num _ => rowPairs_plain cfg hr cs hc ls num)]
  cases hm : mapE (rowPairs (fixReads cfg) cs ls) nums with
  | error e => rfl
  | ok groups =>
    have hlen := mapE_length hm
    have h1 : groups.isEmpty = false := by
      cases groups with
      | nil =>
        simp at hlen
        exact absurd (List.eq_nil_of_length_eq_zero hlen.symm) hnums
      | cons g gs => rfl
    have h2 : groups.any (·.isEmpty) = false := by
      rw [List.any_eq_false]
      intro g hg
      obtain ⟨num, hnum, hgn⟩ := mapE_ok_mem hm g hg
      have := rowPairs_fix_nonempty cfg cs ls num g hgn (hne num hnum)
      cases g with
      | nil => exact absurd rfl this
      | cons x xs => simp
    simp only [hr, Bool.false_eq_true, if_false, h1, h2, Bool.or_self, fixReads, if_true]

theorem getIisFromList_plain (cfg : Cfg) (nums cols : List Int) (hn : nums ≠ []) (hc : cols ≠ []) :
    getIisFromList cfg nums cols = getIisFromList (fixReads cfg) nums cols := by
  unfold getIisFromList
  have : (nums.flatMap fun r => cols.map fun j => (r, j)).isEmpty = false := by
    cases nums with
    | nil => exact absurd rfl hn
    | cons x xs =>
      cases cols with
      | nil => exact absurd rfl hc
      | cons y ys => simp
  simp only [this, Bool.false_and, Bool.false_eq_true, if_false]

/-- on plain indices the unchanged helpers compute what the repaired helpers compute -/
theorem iis2d_plain (cfg : Cfg) (hr : cfg.readsFix = false) (ls : List Nat) (r : Sel) (c : CSel)
    (h : PlainIdx ls r c) : iis2d cfg ls r c = iis2d (fixReads cfg) ls r c := by
  obtain ⟨hrow, hsel⟩ := h
  have hfix : (fixReads cfg).readsFix = true := rfl
  cases r with
  | slice rs =>
    simp only at hrow
    have e1 := sliceToList_plain cfg ls.length rs hrow
    have e2 := sliceToList_fixed (fixReads cfg) hfix rs ls.length
    cases hn : specRowNums ls.length (.slice rs) with
    | error e =>
      cases c <;> simp only [iis2d, e1, e2, hn]
    | ok nums =>
      rw [hn] at hsel
      cases c with
      | slice cs =>
        simp only at hsel
        simp only [iis2d, e1, e2, hn]
        exact getIisFromSlices_plain cfg hr nums cs ls hsel.1 hsel.2.1 hsel.2.2
      | int j =>
        simp only at hsel
        simp only [iis2d, e1, e2, hn]
        exact getIisFromList_plain cfg nums [j] hsel (by simp)
      | list l =>
        simp only at hsel
        simp only [iis2d, e1, e2, hn]
        exact getIisFromList_plain cfg nums l hsel.1 hsel.2
  | list nums =>
    cases c with
    | slice cs =>
      simp only [specRowNums] at hsel
      simp only [iis2d]
      exact getIisFromSlices_plain cfg hr nums cs ls hsel.1 hsel.2.1 hsel.2.2
    | int j => rfl
    | list l => rfl

/-- **the unchanged code addresses the right cells on every plain 2-d index** -/
theorem idxAgree_plain (cfg : Cfg) {s : State α} (hc : Coherent s) (r : Sel) (c : CSel)
    (h : PlainIdx s.lengths r c) : IdxAgree cfg s r c := by
  by_cases hr : cfg.readsFix = true
  · exact idxAgree_fixed cfg hr hc r c
  · have hr' : cfg.readsFix = false := by
      cases hb : cfg.readsFix with
      | false => rfl
      | true => exact absurd hb hr
    have := idxAgree_fixed (fixReads cfg) rfl hc r c
    unfold IdxAgree flatIdx at this ⊢
    rw [iis2d_plain cfg hr' s.lengths r c h]
    exact this

end Ens.RaggedW

namespace Ens.RaggedW

/-- decidable form of "every selected row has a selected column" -/
def rowsNonEmptyB (ls : List Nat) (nums : List Int) (cs : PySlice) : Bool :=
  nums.all fun num => match lenAt ls num with
    | .ok l => (match pyIndices l cs with
      | .ok ix => !ix.isEmpty
      | .error _ => true)
    | .error _ => true

theorem rowsNonEmptyB_spec (ls : List Nat) (nums : List Int) (cs : PySlice)
    (h : rowsNonEmptyB ls nums cs = true) :
    ∀ num ∈ nums, ∀ l, lenAt ls num = .ok l → ∀ ix, pyIndices l cs = .ok ix → ix ≠ [] := by
  intro num hnum l hl ix hix
  unfold rowsNonEmptyB at h
  rw [List.all_eq_true] at h
  have := h num hnum
  simp only [hl, hix] at this
  intro hnil
  subst hnil
  simp at this

/-- decidable sufficient condition for `PlainIdx` -/
def plainIdxB (ls : List Nat) (r : Sel) (c : CSel) : Bool :=
  (match r with
    | .slice rs => decide (PlainRowSlice ls.length rs)
    | .list _ => true) &&
  (match specRowNums ls.length r with
    | .error _ => true
    | .ok nums =>
      match c with
      | .slice cs => decide (PlainColSlice cs) && !nums.isEmpty && rowsNonEmptyB ls nums cs
      | .int _ => !nums.isEmpty
      | .list l => !nums.isEmpty && !l.isEmpty)

theorem plainIdx_of_B (ls : List Nat) (r : Sel) (c : CSel) (h : plainIdxB ls r c = true) :
    PlainIdx ls r c := by
  unfold plainIdxB at h
  rw [Bool.and_eq_true] at h
  obtain ⟨h1, h2⟩ := h
  refine ⟨?_, ?_⟩
  · cases r with
    | slice rs => exact of_decide_eq_true h1
    | list l => trivial
  · cases hn : specRowNums ls.length r with
    | error e => trivial
    | ok nums =>
      rw [hn] at h2
      have hne : ∀ (l : List Int), (!l.isEmpty) = true → l ≠ [] := by
        intro l hl hnil; subst hnil; simp at hl
      cases c with
      | slice cs =>
        simp only [Bool.and_eq_true] at h2
        exact ⟨of_decide_eq_true h2.1.1, hne nums h2.1.2, rowsNonEmptyB_spec ls nums cs h2.2⟩
      | int j => exact hne nums h2
      | list l =>
        simp only [Bool.and_eq_true] at h2
        exact ⟨hne nums h2.1, hne l h2.2⟩

end Ens.RaggedW
