import Proofs.C05Basic
/-! The flat-offset arithmetic of one (row, column) pair refines the cell read on the list of rows. -/
namespace Ens.Ragged
open Ens

theorem take_sum_add_le (l : List Nat) (i : Nat) (x : Nat) (h : l[i]? = some x) :
    (l.take i).sum + x ≤ l.sum := by
  induction l generalizing i with
  | nil => simp at h
  | cons y ys ih =>
    cases i with
    | zero => simp at h; subst h; simp
    | succ i =>
      simp only [List.getElem?_cons_succ] at h
      have := ih i h
      simp only [List.take_succ_cons, List.sum_cons]; omega

theorem rows_length {α} (ra : RA α) : (rows ra).length = ra.lengths.length := by
  simp [rows, partitionAux_length]

theorem rows_getElem? {α} (ra : RA α) (i : Nat) :
    (rows ra)[i]? = (ra.lengths[i]?).map fun len => (ra.data.drop ((ra.lengths.take i).sum)).take len := by
  simp [rows, partitionAux_getElem?]

theorem getElem?_take_drop {α} (l : List α) (a len j : Nat) :
    ((l.drop a).take len)[j]? = if j < len then l[a + j]? else none := by
  rw [List.getElem?_take]
  split <;> simp_all

theorem length_take_drop {α} (l : List α) (a len : Nat) (h : a + len ≤ l.length) :
    ((l.drop a).take len).length = len := by
  simp; omega

/-- the heart of C05: `starts[i] + j` after the negative-index handling and the per-row bounds
check reads exactly `rows[i][j]`, and fails exactly when the read on the list of rows fails. -/
theorem convertOne_getNat {α} (ra : RA α) (h : WF ra) (p : Int × Int) :
    bindE (convertOne ra.lengths p) (getNat ra.data) = cell (rows ra) p := by
  obtain ⟨data, lens⟩ := ra
  obtain ⟨pi, pj⟩ := p
  simp only [WF] at h
  simp only [convertOne, cell, npIndex, rows_length, bindE]
  generalize hi : (if pi < 0 then pi + (lens.length : Int) else pi) = i
  by_cases hneg : i < 0
  · simp [hneg]
  · simp only [hneg, if_false]
    rw [rows_getElem?]
    cases hlen : lens[i.toNat]? with
    | none => simp
    | some len =>
      simp only [Option.map_some]
      have hsum := take_sum_add_le lens i.toNat len hlen
      have hrl : ((data.drop ((lens.take i.toNat).sum)).take len).length = len :=
        length_take_drop _ _ _ (by omega)
      simp only [hrl]
      generalize hj : (if pj < 0 then pj + (len : Int) else pj) = j
      by_cases hjneg : j < 0
      · simp [hjneg]
      · simp only [hjneg, if_false]
        by_cases hjge : (len : Int) ≤ j
        · simp only [hjge, if_true]
          have : ((data.drop ((lens.take i.toNat).sum)).take len)[j.toNat]? = none := by
            rw [List.getElem?_eq_none]; omega
          simp [this]
        · simp only [hjge, if_false]
          have hil : i.toNat < lens.length := by
            have := List.getElem?_eq_some_iff.mp hlen; exact this.1
          rw [starts_getElem? lens i.toNat hil]
          simp only [getNat]
          rw [getElem?_take_drop]
          have : j.toNat < len := by omega
          simp [this]

/-- out-of-range column (after the single wrap) is an `IndexError` -/
theorem convertOne_col_oob (lens : List Nat) (i j : Int) (len : Nat)
    (hrow : npIndex lens i = .ok len) (hj : j < -(len : Int) ∨ (len : Int) ≤ j) :
    convertOne lens (i, j) = .error .indexError := by
  simp only [npIndex] at hrow
  simp only [convertOne]
  generalize hi : (if i < 0 then i + (lens.length : Int) else i) = i' at *
  by_cases hneg : i' < 0
  · simp [hneg] at hrow
  · simp only [hneg, if_false] at hrow ⊢
    cases hl : lens[i'.toNat]? with
    | none => simp
    | some len' =>
      simp only [hl] at hrow
      cases hrow
      simp only []
      by_cases hjn : j < 0
      · simp only [hjn, if_true]
        rcases hj with hj | hj
        · have : j + (len : Int) < 0 := by omega
          simp [this]
        · omega
      · simp only [hjn, if_false]
        rcases hj with hj | hj
        · omega
        · simp [hjn, hj]

/-- out-of-range row is an `IndexError` -/
theorem convertOne_row_oob (lens : List Nat) (i j : Int)
    (hi : i < -(lens.length : Int) ∨ (lens.length : Int) ≤ i) :
    convertOne lens (i, j) = .error .indexError := by
  simp only [convertOne]
  generalize hi' : (if i < 0 then i + (lens.length : Int) else i) = i'
  by_cases hneg : i' < 0
  · simp [hneg]
  · simp only [hneg, if_false]
    have : lens[i'.toNat]? = none := by
      rw [List.getElem?_eq_none]
      split at hi' <;> omega
    simp [this]

end Ens.Ragged
