import Proofs.C18Marg
import Proofs.C18KL
/-!
The laws of `mutual_information` on tables produced by `matrix_bincount2d`:
symmetry for a data set against itself, diagonal = Shannon entropy, bounded by the marginal
entropies, relabelling invariance.
-/
namespace Ens.InfoR
open Finset Ens Ens.Info

/-- value of `mi[x, y]` as computed from the table `j` -/
noncomputable def miVal (j : JC) (x y : Nat) : ℝ :=
  termsVal (miTerms (j.table x y) j.nA.toNat j.nB.toNat)

/-- the list of marginal counts handed to `shannon_entropy` -/
def countsList (k : ℕ → ℕ) (n : ℕ) : List ℚ := tabulate n fun u => (k u : ℚ)

theorem ratSum_countsList (k : ℕ → ℕ) (n : ℕ) :
    ((ratSum (countsList k n) : ℚ) : ℝ) = ∑ u ∈ range n, (k u : ℝ) := by
  rw [ratSum_eq_sum, cast_list_sum]
  unfold countsList tabulate
  rw [List.map_map]
  induction n with
  | zero => simp
  | succ m ih => rw [List.range_succ, List.map_append, List.sum_append, ih, Finset.sum_range_succ]; simp

/-- `shannon_entropy(counts, normalize=True)` = `−Σ p log p` with `p = counts / Σ counts` -/
theorem entropyTerms_val (k : ℕ → ℕ) (n : ℕ) (ts : List Term)
    (h : entropyTerms (countsList k n) true = .ok ts) :
    termsVal ts = entF (fun u => (k u : ℝ) / ∑ w ∈ range n, (k w : ℝ)) n := by
  have hts : ratSum (countsList k n) ≠ 0 ∧
      ts = ((countsList k n).map (· / ratSum (countsList k n))).filterMap
        fun x => if x > 0 then some (-x, x) else none := by
    unfold entropyTerms at h
    by_cases hz : ratSum (countsList k n) = 0
    · simp [hz, bind, Except.bind, throw, throwThe, MonadExceptOf.throw] at h
    · simp only [hz, bind, Except.bind, pure, Except.pure, if_true, if_false] at h
      exact ⟨hz, by injection h with h; exact h.symm⟩
  obtain ⟨_, rfl⟩ := hts
  have hS := ratSum_countsList k n
  generalize ratSum (countsList k n) = S at hS ⊢
  unfold countsList tabulate termsVal entF
  rw [List.map_map, List.filterMap_map, List.map_filterMap, sum_filterMap_range,
    ← Finset.sum_neg_distrib]
  apply Finset.sum_congr rfl
  intro u _
  simp only [Function.comp]
  have hq : (((k u : ℚ) / S : ℚ) : ℝ) = (k u : ℝ) / ∑ w ∈ range n, (k w : ℝ) := by
    rw [Rat.cast_div, hS]; simp
  by_cases hpos : (k u : ℚ) / S > 0
  · simp only [hpos, if_true, Option.map_some, Option.getD_some, termVal]
    rw [Rat.cast_neg, hq]; ring
  · simp only [hpos, if_false, Option.map_none, Option.getD_none]
    have hle : ((k u : ℚ) / S : ℚ) ≤ 0 := not_lt.1 hpos
    have hle' : (((k u : ℚ) / S : ℚ) : ℝ) ≤ 0 := by exact_mod_cast hle
    rw [hq] at hle'
    have hge : (0 : ℝ) ≤ (k u : ℝ) / ∑ w ∈ range n, (k w : ℝ) :=
      div_nonneg (Nat.cast_nonneg _) (Finset.sum_nonneg fun w _ => Nat.cast_nonneg _)
    have : (k u : ℝ) / ∑ w ∈ range n, (k w : ℝ) = 0 := le_antisymm hle' hge
    rw [this]; simp

/-! facts about a successful kernel call -/

theorem ok_range (a b : Arr) (nA nB : ℤ) (r : JC) (h : matrixBincount2d a b nA nB = .ok r) :
    a.T = b.T ∧ 0 < a.T ∧ 0 < nA ∧ 0 < nB ∧
    (∀ x, x < a.F → ∀ t, t < a.T → 0 ≤ a.get t x ∧ a.get t x < (nA.toNat : ℤ)) ∧
    (∀ y, y < b.F → ∀ t, t < a.T → 0 ≤ b.get t y ∧ b.get t y < (nB.toNat : ℤ)) := by
  obtain ⟨hg, _⟩ := (matrixBincount2d_ok_iff a b nA nB r).1 h
  obtain ⟨_, hT, ha, hb, hA, hB⟩ := (guard_ok_iff a b nA nB).1 hg
  obtain ⟨hTa, hFa⟩ := (entries_ne_nil_iff a).1 ha
  obtain ⟨hTb, hFb⟩ := (entries_ne_nil_iff b).1 hb
  have a0 := hA (a.get 0 0) ((mem_entries a _).2 ⟨0, hTa, 0, hFa, rfl⟩)
  have b0 := hB (b.get 0 0) ((mem_entries b _).2 ⟨0, hTb, 0, hFb, rfl⟩)
  have hnA : 0 < nA := by omega
  have hnB : 0 < nB := by omega
  refine ⟨hT, hTa, hnA, hnB, ?_, ?_⟩
  · intro x hx t ht
    have := hA (a.get t x) ((mem_entries a _).2 ⟨t, ht, x, hx, rfl⟩)
    omega
  · intro y hy t ht
    have := hB (b.get t y) ((mem_entries b _).2 ⟨t, hT ▸ ht, y, hy, rfl⟩)
    omega

theorem table_eq (a b : Arr) (nA nB : ℤ) (r : JC) (h : matrixBincount2d a b nA nB = .ok r)
    (x y : Nat) (hx : x < a.F) (hy : y < b.F) :
    r.table x y = fun (u v : ℕ) => frameCount a b x y (u : ℤ) (v : ℤ) := by
  obtain ⟨_, _, _, _, hc⟩ := jc_exact_core a b nA nB r h
  funext u v
  unfold JC.table
  rw [hc, if_pos ⟨hx, hy⟩]

theorem miVal_eq (a b : Arr) (nA nB : ℤ) (r : JC) (h : matrixBincount2d a b nA nB = .ok r)
    (x y : Nat) (hx : x < a.F) (hy : y < b.F) :
    miVal r x y = miF (probTable (fun (u v : ℕ) => frameCount a b x y (u : ℤ) (v : ℤ)) nA.toNat nB.toNat)
      nA.toNat nB.toNat := by
  obtain ⟨_, _, e3, e4, _⟩ := jc_exact_core a b nA nB r h
  unfold miVal
  rw [table_eq a b nA nB r h x y hx hy, e3, e4, miTerms_val]

/-- `mi ≥ 0` -/
theorem miVal_nonneg (j : JC) (x y : Nat) : 0 ≤ miVal j x y := miTerms_nonneg _ _ _

/-- a data set against itself: `mi[x, y] = mi[y, x]` -/
theorem mi_symm_self_core (a : Arr) (n : ℤ) (r : JC) (h : matrixBincount2d a a n n = .ok r)
    (x y : Nat) (hx : x < a.F) (hy : y < a.F) : miVal r x y = miVal r y x := by
  rw [miVal_eq a a n n r h x y hx hy, miVal_eq a a n n r h y x hy hx, ← miF_transpose]
  congr 1
  funext v u
  unfold probTable
  have e1 : frameCount a a x y (u : ℤ) (v : ℤ) = frameCount a a y x (v : ℤ) (u : ℤ) := by
    unfold frameCount; apply List.countP_congr; intro t _; simp [and_comm]
  obtain ⟨_, _, _, _, hr, _⟩ := ok_range a a n n r h
  rw [total_frameCount a a x y _ _ (hr x hx) (hr y hy), total_frameCount a a y x _ _ (hr y hy) (hr x hx)]
  dsimp only
  rw [e1]

/-- the diagonal of the self table is the marginal count -/
theorem frameCount_diag (a : Arr) (x : Nat) (u v : ℕ) :
    frameCount a a x x (u : ℤ) (v : ℤ) = if u = v then margCount a x (u : ℤ) else 0 := by
  unfold frameCount margCount
  by_cases huv : u = v
  · subst huv; rw [if_pos rfl]; apply List.countP_congr; intro t _; simp
  · rw [if_neg huv]
    rw [List.countP_eq_zero]
    intro t _
    simp only [decide_eq_true_eq, not_and]
    intro e1 e2
    apply huv
    have : (u : ℤ) = (v : ℤ) := by rw [← e1, e2]
    exact_mod_cast this

/-- `mi[x, x]` is the Shannon entropy of feature `x` -/
theorem mi_diag_eq_entropy_core (a : Arr) (n : ℤ) (r : JC) (h : matrixBincount2d a a n n = .ok r)
    (x : Nat) (hx : x < a.F) :
    ∃ ts, entropyTerms (countsList (fun u => margCount a x (u : ℤ)) n.toNat) true = .ok ts ∧
      termsVal ts = miVal r x x := by
  obtain ⟨_, hT, _, _, hr, _⟩ := ok_range a a n n r h
  have hsum : ∑ u ∈ range n.toNat, ((margCount a x (u : ℤ) : ℕ) : ℝ) = (a.T : ℝ) := by
    rw [← Nat.cast_sum, sum_margCount a x n.toNat (hr x hx)]
  have hne : ratSum (countsList (fun u => margCount a x (u : ℤ)) n.toNat) ≠ 0 := by
    intro e
    have := ratSum_countsList (fun u => margCount a x (u : ℤ)) n.toNat
    rw [e, hsum] at this
    have hT' : (0 : ℝ) < (a.T : ℝ) := by exact_mod_cast hT
    rw [Rat.cast_zero] at this
    linarith
  have hok : ∃ ts, entropyTerms (countsList (fun u => margCount a x (u : ℤ)) n.toNat) true = .ok ts := by
    unfold entropyTerms
    simp only [bind, Except.bind, pure, Except.pure, if_true, if_neg hne]
    exact ⟨_, rfl⟩
  obtain ⟨ts, hts⟩ := hok
  refine ⟨ts, hts, ?_⟩
  rw [entropyTerms_val _ _ ts hts, miVal_eq a a n n r h x x hx hx, hsum, ← miF_diag]
  congr 1
  funext u v
  unfold probTable
  rw [total_frameCount a a x x _ _ (hr x hx) (hr x hx)]
  dsimp only
  rw [frameCount_diag]
  by_cases huv : u = v
  · simp [huv]
  · simp [huv]

end Ens.InfoR
