import Mathlib.Analysis.SpecialFunctions.Log.Basic
import Mathlib.Algebra.BigOperators.Group.Finset.Basic
import Mathlib.Algebra.Order.BigOperators.Group.Finset
import Mathlib.Algebra.BigOperators.Ring.Finset
import Mathlib.Tactic.Ring
import Mathlib.Tactic.Linarith
import Mathlib.Tactic.FieldSimp
/-!
Real-valued information-theoretic inequalities on finite sums (no model here).
`klSum s p q = Σ_{i∈s} p i · log (p i / q i)` with Mathlib's conventions `log 0 = 0`, `x / 0 = 0`
(so cells with `p i = 0` contribute 0, as in the code; cells with `p i > 0 = q i` are excluded by
the absolute-continuity hypothesis — the code returns `inf` there).
-/
namespace Ens.InfoR
open Finset

noncomputable def klSum {ι : Type} (s : Finset ι) (p q : ι → ℝ) : ℝ :=
  ∑ i ∈ s, p i * Real.log (p i / q i)

/-- the Gibbs term inequality: `p − q ≤ p log (p/q)` -/
theorem gibbs_term (p q : ℝ) (hp : 0 ≤ p) (hq : 0 ≤ q) (hac : 0 < p → 0 < q) :
    p - q ≤ p * Real.log (p / q) := by
  rcases hp.eq_or_lt with h0 | hpos
  · subst h0; simp; exact hq
  · have hq' := hac hpos
    have h1 : Real.log (q / p) ≤ q / p - 1 := Real.log_le_sub_one_of_pos (div_pos hq' hpos)
    have h2 : Real.log (p / q) = - Real.log (q / p) := by
      rw [← Real.log_inv, inv_div]
    rw [h2]
    have h3 : p * (q / p - 1) = q - p := by field_simp
    nlinarith [mul_le_mul_of_nonneg_left h1 hpos.le]

theorem gibbs_term_eq (p q : ℝ) (hp : 0 ≤ p) (hq : 0 ≤ q) (hac : 0 < p → 0 < q)
    (h : p * Real.log (p / q) = p - q) : p = q := by
  rcases hp.eq_or_lt with h0 | hpos
  · subst h0; simp at h; linarith
  · have hq' := hac hpos
    by_contra hne
    have hne' : q / p ≠ 1 := by
      intro e; apply hne; field_simp at e; linarith
    have h1 : Real.log (q / p) < q / p - 1 := Real.log_lt_sub_one_of_pos (div_pos hq' hpos) hne'
    have h2 : Real.log (p / q) = - Real.log (q / p) := by
      rw [← Real.log_inv, inv_div]
    rw [h2] at h
    have h3 : p * (q / p - 1) = q - p := by field_simp
    nlinarith [mul_lt_mul_of_pos_left h1 hpos]

theorem klSum_ge {ι : Type} (s : Finset ι) (p q : ι → ℝ)
    (hp : ∀ i ∈ s, 0 ≤ p i) (hq : ∀ i ∈ s, 0 ≤ q i) (hac : ∀ i ∈ s, 0 < p i → 0 < q i) :
    ∑ i ∈ s, p i - ∑ i ∈ s, q i ≤ klSum s p q := by
  unfold klSum
  rw [← Finset.sum_sub_distrib]
  exact Finset.sum_le_sum fun i hi => gibbs_term (p i) (q i) (hp i hi) (hq i hi) (hac i hi)

/-- relative entropy is non-negative (Gibbs) as soon as `Σ q ≤ Σ p` -/
theorem klSum_nonneg {ι : Type} (s : Finset ι) (p q : ι → ℝ)
    (hp : ∀ i ∈ s, 0 ≤ p i) (hq : ∀ i ∈ s, 0 ≤ q i) (hac : ∀ i ∈ s, 0 < p i → 0 < q i)
    (hsum : ∑ i ∈ s, q i ≤ ∑ i ∈ s, p i) : 0 ≤ klSum s p q := by
  have := klSum_ge s p q hp hq hac
  linarith

/-- … and it vanishes exactly for equal distributions -/
theorem klSum_eq_zero_iff {ι : Type} (s : Finset ι) (p q : ι → ℝ)
    (hp : ∀ i ∈ s, 0 ≤ p i) (hq : ∀ i ∈ s, 0 ≤ q i) (hac : ∀ i ∈ s, 0 < p i → 0 < q i)
    (hsum : ∑ i ∈ s, q i = ∑ i ∈ s, p i) : klSum s p q = 0 ↔ ∀ i ∈ s, p i = q i := by
  constructor
  · intro h0
    have hterm : ∀ i ∈ s, 0 ≤ p i * Real.log (p i / q i) - (p i - q i) := fun i hi => by
      have := gibbs_term (p i) (q i) (hp i hi) (hq i hi) (hac i hi); linarith
    have hz : ∑ i ∈ s, (p i * Real.log (p i / q i) - (p i - q i)) = 0 := by
      rw [Finset.sum_sub_distrib, Finset.sum_sub_distrib]
      unfold klSum at h0
      rw [h0, hsum]; ring
    have := (Finset.sum_eq_zero_iff_of_nonneg hterm).1 hz
    intro i hi
    exact gibbs_term_eq (p i) (q i) (hp i hi) (hq i hi) (hac i hi) (by have := this i hi; linarith)
  · intro h
    unfold klSum
    apply Finset.sum_eq_zero
    intro i hi
    rw [← h i hi]
    by_cases h0 : p i = 0
    · simp [h0]
    · simp [div_self h0]

end Ens.InfoR
