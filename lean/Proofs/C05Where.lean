import Proofs.C05Forms
/-! `_convert_from_1d` inverts `_convert_from_2d`; `ra.where`; boolean ragged masks. -/
namespace Ens.Ragged
open Ens

theorem take_succ_sum (l : List Nat) (i x : Nat) (h : l[i]? = some x) :
    (l.take (i + 1)).sum = (l.take i).sum + x := by
  induction l generalizing i with
  | nil => simp at h
  | cons y ys ih =>
    cases i with
    | zero => simp at h; subst h; simp
    | succ i =>
      simp only [List.getElem?_cons_succ] at h
      simp only [List.take_succ_cons, List.sum_cons, ih i h]; omega

theorem take_sum_mono (l : List Nat) {a b : Nat} (hab : a ≤ b) : (l.take a).sum ≤ (l.take b).sum := by
  induction l generalizing a b with
  | nil => simp
  | cons y ys ih =>
    cases a with
    | zero => simp
    | succ a =>
      cases b with
      | zero => omega
      | succ b =>
        simp only [List.take_succ_cons, List.sum_cons]
        have := ih (a := a) (b := b) (by omega)
        omega

theorem lastLeAux_no_hit (t : Nat) (ss : List Nat) (k : Nat) (acc : Option Nat)
    (h : ∀ x ∈ ss, t < x) : lastLeAux t ss k acc = acc := by
  induction ss generalizing k acc with
  | nil => rfl
  | cons s rest ih =>
    simp only [lastLeAux]
    have hs := h s (by simp)
    rw [if_neg (by omega)]
    exact ih _ _ (fun x hx => h x (by simp [hx]))

theorem lastLeAux_spec (t : Nat) (ss : List Nat) (k : Nat) (acc : Option Nat) (i : Nat)
    (hi : i < ss.length)
    (hle : ∀ j, j ≤ i → ∀ x, ss[j]? = some x → x ≤ t)
    (hgt : ∀ j, i < j → ∀ x, ss[j]? = some x → t < x) :
    lastLeAux t ss k acc = some (k + i) := by
  induction ss generalizing k acc i with
  | nil => simp at hi
  | cons s rest ih =>
    simp only [lastLeAux]
    cases i with
    | zero =>
      have hs := hle 0 (by omega) s (by simp)
      rw [if_pos hs]
      rw [lastLeAux_no_hit]
      · simp
      · intro x hx
        obtain ⟨j, hj, hjx⟩ := List.getElem_of_mem hx
        exact hgt (j + 1) (by omega) x (by simp [List.getElem?_eq_getElem hj, hjx])
    | succ i =>
      rw [ih (k + 1) _ i (by simpa using hi)
        (fun j hj x hx => hle (j + 1) (by omega) x (by simpa using hx))
        (fun j hj x hx => hgt (j + 1) (by omega) x (by simpa using hx))]
      congr 1; omega

/-- flat position of cell `(i, j)` -/
theorem convertOne_nat (lens : List Nat) (i j len : Nat) (hi : lens[i]? = some len) (hj : j < len) :
    convertOne lens ((i : Int), (j : Int)) = .ok ((lens.take i).sum + j) := by
  have hil : i < lens.length := (List.getElem?_eq_some_iff.mp hi).1
  simp only [convertOne]
  have h1 : ¬ ((i : Int) < 0) := by omega
  have h2 : ¬ ((j : Int) < 0) := by omega
  simp only [h1, h2, if_false, Int.toNat_natCast, hi, starts_getElem? lens i hil]
  rw [if_neg (by omega)]

/-- `_convert_from_1d` is the inverse of the flat-offset computation -/
theorem convertFrom1d_flat (lens : List Nat) (i j len : Nat) (hi : lens[i]? = some len) (hj : j < len) :
    convertFrom1d (starts lens) ((lens.take i).sum + j) = .ok (i, j) := by
  have hil : i < lens.length := (List.getElem?_eq_some_iff.mp hi).1
  have hne : lens ≠ [] := by intro h; subst h; simp at hil
  have hsl := starts_length lens hne
  have hlast : lastLe (starts lens) ((lens.take i).sum + j) = some i := by
    have := lastLeAux_spec ((lens.take i).sum + j) (starts lens) 0 none i (by omega)
      (fun k hk x hx => by
        rw [starts_getElem? lens k (by omega)] at hx
        cases hx
        have := take_sum_mono lens hk
        omega)
      (fun k hk x hx => by
        have hkl : k < lens.length := by
          have := (List.getElem?_eq_some_iff.mp hx).1; omega
        rw [starts_getElem? lens k hkl] at hx
        cases hx
        have h1 := take_sum_mono lens (a := i + 1) (b := k) (by omega)
        have h2 := take_succ_sum lens i len hi
        omega)
    simpa [lastLe] using this
  simp only [convertFrom1d, hlast, starts_getElem? lens i hil]
  simp

end Ens.Ragged

namespace Ens.Ragged
open Ens

/-! ### `ra.where` -/

theorem trueIdxFrom_shift (l : List Bool) (k c : Nat) :
    trueIdxFrom l (k + c) = (trueIdxFrom l k).map (· + c) := by
  induction l generalizing k with
  | nil => rfl
  | cons b bs ih =>
    simp only [trueIdxFrom]
    have : k + c + 1 = (k + 1) + c := by omega
    rw [this, ih (k + 1)]
    cases b <;> simp

theorem trueIdxFrom_append (a b : List Bool) (k : Nat) :
    trueIdxFrom (a ++ b) k = trueIdxFrom a k ++ trueIdxFrom b (k + a.length) := by
  induction a generalizing k with
  | nil => simp [trueIdxFrom]
  | cons x xs ih =>
    simp only [List.cons_append, trueIdxFrom, ih, List.length_cons]
    have : k + 1 + xs.length = k + (xs.length + 1) := by omega
    rw [this]
    cases x <;> simp

theorem mem_trueIdxFrom {l : List Bool} {k t : Nat} (h : t ∈ trueIdxFrom l k) :
    k ≤ t ∧ t < k + l.length := by
  induction l generalizing k with
  | nil => simp [trueIdxFrom] at h
  | cons b bs ih =>
    simp only [trueIdxFrom] at h
    cases b with
    | false =>
      simp only [Bool.false_eq_true, if_false] at h
      have := ih h; simp only [List.length_cons]; omega
    | true =>
      simp only [if_true] at h
      rcases List.mem_cons.mp h with h | h
      · subst h; simp
      · have := ih h; simp only [List.length_cons]; omega

theorem mem_specWhereFrom {rs : List (List Bool)} {i0 : Nat} {p : Nat × Nat} (h : p ∈ specWhereFrom rs i0) :
    i0 ≤ p.1 ∧ ∃ r, rs[p.1 - i0]? = some r ∧ p.2 < r.length := by
  induction rs generalizing i0 with
  | nil => simp [specWhereFrom] at h
  | cons r rest ih =>
    simp only [specWhereFrom, List.mem_append, List.mem_map] at h
    rcases h with ⟨j, hj, rfl⟩ | h
    · have := mem_trueIdxFrom hj
      exact ⟨Nat.le_refl _, r, by simp, by simpa using this.2⟩
    · obtain ⟨h1, r', h2, h3⟩ := ih h
      refine ⟨by omega, r', ?_, h3⟩
      have : p.1 - i0 = (p.1 - (i0 + 1)) + 1 := by omega
      rw [this]; simpa using h2

/-- the flat positions of the `True` cells are the row-major (row, column) positions, flattened -/
theorem trueIdx_flatten (rs : List (List Bool)) (i0 S0 : Nat) :
    trueIdxFrom rs.flatten S0 =
      (specWhereFrom rs i0).map (fun p => S0 + ((rs.map List.length).take (p.1 - i0)).sum + p.2) := by
  induction rs generalizing i0 S0 with
  | nil => rfl
  | cons r rest ih =>
    simp only [List.flatten_cons, trueIdxFrom_append, specWhereFrom, List.map_append, List.map_map]
    congr 1
    · have := trueIdxFrom_shift r 0 S0
      simp only [Nat.zero_add] at this
      rw [this]
      simp only [trueIdx, List.map_map]
      apply List.map_congr_left
      intro j _
      simp; omega
    · rw [ih (i0 + 1) (S0 + r.length)]
      apply List.map_congr_left
      intro p hp
      have := (mem_specWhereFrom hp).1
      have e : p.1 - i0 = (p.1 - (i0 + 1)) + 1 := by omega
      simp only [Function.comp, List.map_cons, e, List.take_succ_cons, List.sum_cons]
      omega

theorem where_spec' (m : RA Bool) (h : WF m) : whereIdx m = .ok (specWhere (rows m)) := by
  have hm := ofRows_rows' m h
  generalize hrs : rows m = rs at hm
  subst hm
  simp only [whereIdx, ofRows, trueIdx, specWhere]
  rw [trueIdx_flatten rs 0 0, mapE_map]
  have : ∀ p ∈ specWhereFrom rs 0,
      convertFrom1d (starts (rs.map List.length)) (0 + ((rs.map List.length).take (p.1 - 0)).sum + p.2) =
        .ok (id p) := by
    intro p hp
    obtain ⟨_, r, hr, hj⟩ := mem_specWhereFrom hp
    simp only [Nat.sub_zero, Nat.zero_add] at hr ⊢
    exact convertFrom1d_flat (rs.map List.length) p.1 p.2 r.length (by simp [hr]) hj
  rw [mapE_ok_of_forall this]
  simp

end Ens.Ragged

namespace Ens.Ragged
open Ens

/-! ### boolean ragged mask -/

theorem lengths_eq' {α} (ra : RA α) (h : WF ra) : ra.lengths = (rows ra).map List.length := by
  simp only [WF] at h
  exact (partitionAux_map_length _ _ _ (by omega)).symm

theorem maskRow_gather {α} (pre r : List α) (mr : List Bool) (hlen : r.length = mr.length) :
    mapE (getNat (pre ++ r)) (trueIdxFrom mr pre.length) = .ok (maskRow r mr) := by
  induction mr generalizing r pre with
  | nil => cases r with
    | nil => rfl
    | cons x xs => simp at hlen
  | cons b bs ih =>
    cases r with
    | nil => simp at hlen
    | cons x xs =>
      have hl : xs.length = bs.length := by simpa using hlen
      have hstep := ih (pre ++ [x]) xs hl
      simp only [List.length_append, List.length_cons, List.length_nil, Nat.zero_add,
        List.append_assoc, List.cons_append, List.nil_append] at hstep
      simp only [trueIdxFrom, maskRow, List.zip_cons_cons, List.filterMap_cons]
      cases b with
      | false =>
        simp only [Bool.false_eq_true, if_false]
        exact hstep
      | true =>
        simp only [if_true, mapE_cons, hstep]
        have : getNat (pre ++ x :: xs) pre.length = .ok x := by simp [getNat]
        rw [this]
        rfl

theorem mask_gather {α} (pre rs : List (List α)) (ms : List (List Bool))
    (hlen : rs.map List.length = ms.map List.length) :
    mapE (fun p : Nat × Nat => cell (pre ++ rs) ((p.1 : Int), (p.2 : Int))) (specWhereFrom ms pre.length) =
      .ok ((rs.zip ms).map (fun q => maskRow q.1 q.2)).flatten := by
  induction ms generalizing rs pre with
  | nil => simp [specWhereFrom]
  | cons mr mrest ih =>
    cases rs with
    | nil => simp at hlen
    | cons r rrest =>
      simp only [List.map_cons, List.cons.injEq] at hlen
      obtain ⟨h1, h2⟩ := hlen
      simp only [specWhereFrom, mapE_append, mapE_map, List.zip_cons_cons, List.map_cons, List.flatten_cons]
      have hA : mapE (fun j : Nat => cell (pre ++ r :: rrest) ((pre.length : Int), (j : Int))) (trueIdx mr) =
          .ok (maskRow r mr) := by
        have hrow : npIndex (pre ++ r :: rrest) (pre.length : Int) = .ok r := by
          rw [npIndex_ofNat]; simp [getNat]
        simp only [cell, hrow, bindE_ok]
        have := maskRow_gather [] r mr h1
        simp only [List.nil_append, List.length_nil] at this
        rw [← this]
        apply mapE_congr
        intro j _
        exact npIndex_ofNat r j
      have hB := ih (pre ++ [r]) rrest h2
      simp only [List.length_append, List.length_cons, List.length_nil, Nat.zero_add,
        List.append_assoc, List.cons_append, List.nil_append] at hB
      rw [hA, hB]
      rfl

theorem get_mask_partial' {α} (ra : RA α) (h : WF ra) (fast : Bool) (m : RA Bool) (hm : WF m)
    (hl : m.lengths = ra.lengths) (hany : specWhere (rows m) ≠ []) :
    absE (getItem ra fast (.mask m)) = specGet (rows ra) (.mask m) := by
  simp only [getItem, specGet, where_spec' m hm, bindE_ok]
  generalize hP : specWhere (rows m) = P at hany
  rw [paired_nonempty ra _ _ (by simpa [idxArr] using hany) (by simpa [idxArr] using hany)]
  have hp : pairUp (idxArr (.list (P.map fun p => (p.1 : Int)) false)).1
      (idxArr (.list (P.map fun p => (p.2 : Int)) false)).1 =
      some (P.map fun p => ((p.1 : Int), (p.2 : Int))) := by
    show pairUp (P.map fun p => (p.1 : Int)) (P.map fun p => (p.2 : Int)) = _
    unfold pairUp
    have h1 : ¬ ((P.map fun p => (p.1 : Int)).length > 1 ∧ (P.map fun p => (p.2 : Int)).length = 1) := by
      simp only [List.length_map]; omega
    rw [if_neg h1, if_pos (by simp), List.zip_map']
  rw [hp]
  simp only [gather_eq ra h, mapE_map, absE]
  have hlen : (rows ra).map List.length = (rows m).map List.length := by
    rw [← lengths_eq' ra h, ← lengths_eq' m hm, hl]
  have := mask_gather [] (rows ra) (rows m) hlen
  simp only [List.nil_append, List.length_nil] at this
  rw [← hP]
  simp only [specWhere]
  rw [this]
  rfl

end Ens.Ragged
