import Proofs.C16Spec
import Mathlib.Logic.Relation
import Mathlib.Algebra.Order.BigOperators.Group.Finset
/-!
Uniqueness of the stationary vector of an *irreducible* row-stochastic matrix
(the Perron–Frobenius uniqueness step, proved elementarily).

Route: for a left fixed vector `u` of a non-negative matrix with unit row sums,
`|u|` is again a left fixed vector (triangle inequality, equality of the totals forces
equality in every coordinate), hence so are `|u| + u` and `|u| - u`, both non-negative.
A non-negative left fixed vector of an irreducible matrix is zero or strictly positive in
every coordinate (`p = p Tᵏ`, and some `Tᵏ` joins any two states).  So `u` is either
everywhere positive, everywhere negative, or zero; with `Σ u = 0` only zero is left.
-/
namespace Ens.Msm
open Ens

/-- powers of an entrywise non-negative matrix are entrywise non-negative -/
theorem pow_entries_nonneg {n : Nat} (T : Matrix (Fin n) (Fin n) ℝ) (hnn : ∀ i j, 0 ≤ T i j)
    (k : Nat) : ∀ i j, 0 ≤ (T ^ k) i j := by
  induction k with
  | zero =>
    intro i j
    rw [pow_zero, Matrix.one_apply]
    split <;> norm_num
  | succ k ih =>
    intro i j
    rw [pow_succ, Matrix.mul_apply]
    exact Finset.sum_nonneg fun l _ => mul_nonneg (ih i l) (hnn l j)

/-- a left fixed vector of `T` is a left fixed vector of every power of `T` -/
theorem vecMul_pow_fixed {n : Nat} (T : Matrix (Fin n) (Fin n) ℝ) (p : Fin n → ℝ)
    (hp : Matrix.vecMul p T = p) (k : Nat) : Matrix.vecMul p (T ^ k) = p := by
  induction k with
  | zero => rw [pow_zero, Matrix.vecMul_one]
  | succ k ih => rw [pow_succ, ← Matrix.vecMul_vecMul, ih, hp]

/-- Step 2: a non-negative left fixed vector of an irreducible non-negative matrix that is
positive somewhere is positive everywhere. -/
theorem fixed_nonneg_pos {n : Nat} (T : Matrix (Fin n) (Fin n) ℝ) (hnn : ∀ i j, 0 ≤ T i j)
    (hirr : ∀ i j, ∃ k : Nat, 0 < (T ^ k) i j) (p : Fin n → ℝ) (hp0 : ∀ i, 0 ≤ p i)
    (hp : Matrix.vecMul p T = p) (i0 : Fin n) (hi0 : 0 < p i0) : ∀ j, 0 < p j := by
  intro j
  obtain ⟨k, hk⟩ := hirr i0 j
  have e : p j = ∑ i, p i * (T ^ k) i j := by
    have := congrFun (vecMul_pow_fixed T p hp k) j
    simp only [Matrix.vecMul, dotProduct] at this
    exact this.symm
  rw [e]
  exact Finset.sum_pos' (fun i _ => mul_nonneg (hp0 i) (pow_entries_nonneg T hnn k i j))
    ⟨i0, Finset.mem_univ _, mul_pos hi0 hk⟩

/-- Step 1: the entrywise absolute value of a left fixed vector of a non-negative matrix with
unit row sums is a left fixed vector. -/
theorem abs_fixed {n : Nat} (T : Matrix (Fin n) (Fin n) ℝ) (hnn : ∀ i j, 0 ≤ T i j)
    (hrow : ∀ i, ∑ j, T i j = 1) (u : Fin n → ℝ) (hu : Matrix.vecMul u T = u) :
    Matrix.vecMul (fun i => |u i|) T = fun i => |u i| := by
  have e : ∀ j, u j = ∑ i, u i * T i j := by
    intro j
    have := congrFun hu j
    simp only [Matrix.vecMul, dotProduct] at this
    exact this.symm
  have hle : ∀ j ∈ (Finset.univ : Finset (Fin n)), |u j| ≤ ∑ i, |u i| * T i j := by
    intro j _
    calc |u j| = |∑ i, u i * T i j| := congrArg _ (e j)
      _ ≤ ∑ i, |u i * T i j| := Finset.abs_sum_le_sum_abs _ _
      _ = ∑ i, |u i| * T i j := by
            apply Finset.sum_congr rfl
            intro i _
            rw [abs_mul, abs_of_nonneg (hnn i j)]
  have hsum : ∑ j, |u j| = ∑ j, ∑ i, |u i| * T i j := by
    rw [Finset.sum_comm]
    simp only [← Finset.mul_sum, hrow, mul_one]
  have heq := (Finset.sum_eq_sum_iff_of_le hle).mp hsum
  funext j
  simp only [Matrix.vecMul, dotProduct]
  exact (heq j (Finset.mem_univ j)).symm

/-- a left fixed vector with zero sum of an irreducible row-stochastic matrix is zero -/
theorem fixed_sum_zero_eq_zero_irred {n : Nat} (T : Matrix (Fin n) (Fin n) ℝ)
    (hnn : ∀ i j, 0 ≤ T i j) (hrow : ∀ i, ∑ j, T i j = 1)
    (hirr : ∀ i j, ∃ k : Nat, 0 < (T ^ k) i j)
    (u : Fin n → ℝ) (hu : Matrix.vecMul u T = u) (hs : ∑ i, u i = 0) : u = 0 := by
  have ha := abs_fixed T hnn hrow u hu
  have hplus : Matrix.vecMul (fun i => |u i| + u i) T = fun i => |u i| + u i := by
    have e : (fun i => |u i| + u i) = (fun i => |u i|) + u := rfl
    rw [e, Matrix.add_vecMul, ha, hu]
  have hminus : Matrix.vecMul (fun i => |u i| - u i) T = fun i => |u i| - u i := by
    have e : (fun i => |u i| - u i) = (fun i => |u i|) - u := rfl
    rw [e, Matrix.sub_vecMul, ha, hu]
  have hnonpos : ∀ i, u i ≤ 0 := by
    by_contra hc
    push Not at hc
    obtain ⟨i0, hi0⟩ := hc
    have hall := fixed_nonneg_pos T hnn hirr (fun i => |u i| + u i)
      (fun i => by have := neg_abs_le (u i); linarith) hplus i0
      (by have := abs_nonneg (u i0); linarith)
    have hpos : ∀ j, 0 < u j := by
      intro j
      have hj := hall j
      by_contra h
      push Not at h
      simp only [abs_of_nonpos h] at hj
      linarith
    have : 0 < ∑ i, u i := Finset.sum_pos (fun i _ => hpos i) ⟨i0, Finset.mem_univ _⟩
    linarith
  have hnonneg : ∀ i, 0 ≤ u i := by
    by_contra hc
    push Not at hc
    obtain ⟨i0, hi0⟩ := hc
    have hall := fixed_nonneg_pos T hnn hirr (fun i => |u i| - u i)
      (fun i => by have := le_abs_self (u i); linarith) hminus i0
      (by have := abs_nonneg (u i0); linarith)
    have hneg : ∀ j, u j < 0 := by
      intro j
      have hj := hall j
      by_contra h
      push Not at h
      simp only [abs_of_nonneg h] at hj
      linarith
    have : ∑ i, u i < 0 := Finset.sum_neg (fun i _ => hneg i) ⟨i0, Finset.mem_univ _⟩
    linarith
  funext i
  exact le_antisymm (hnonpos i) (hnonneg i)

/-- uniqueness of the unit-sum left fixed vector of an irreducible row-stochastic matrix -/
theorem stationary_unique_irred {n : Nat} (T : Matrix (Fin n) (Fin n) ℝ)
    (hnn : ∀ i j, 0 ≤ T i j) (hrow : ∀ i, ∑ j, T i j = 1)
    (hirr : ∀ i j, ∃ k : Nat, 0 < (T ^ k) i j)
    (v w : Fin n → ℝ) (hv : Matrix.vecMul v T = v) (hw : Matrix.vecMul w T = w)
    (sv : ∑ i, v i = 1) (sw : ∑ i, w i = 1) : v = w := by
  have h := fixed_sum_zero_eq_zero_irred T hnn hrow hirr (v - w)
    (by rw [Matrix.sub_vecMul, hv, hw])
    (by simp only [Pi.sub_apply, Finset.sum_sub_distrib, sv, sw, sub_self])
  exact sub_eq_zero.mp h

/-- more generally: two left fixed vectors with the same sum coincide (so the fixed space is
at most one-dimensional) -/
theorem fixed_eq_of_sum_eq {n : Nat} (T : Matrix (Fin n) (Fin n) ℝ)
    (hnn : ∀ i j, 0 ≤ T i j) (hrow : ∀ i, ∑ j, T i j = 1)
    (hirr : ∀ i j, ∃ k : Nat, 0 < (T ^ k) i j)
    (v w : Fin n → ℝ) (hv : Matrix.vecMul v T = v) (hw : Matrix.vecMul w T = w)
    (hsum : ∑ i, v i = ∑ i, w i) : v = w := by
  have h := fixed_sum_zero_eq_zero_irred T hnn hrow hirr (v - w)
    (by rw [Matrix.sub_vecMul, hv, hw])
    (by simp only [Pi.sub_apply, Finset.sum_sub_distrib, hsum, sub_self])
  exact sub_eq_zero.mp h

/-- the unique stationary vector of an irreducible chain is strictly positive: a unit-sum left
fixed vector has all entries `> 0` -/
theorem stationary_pos_irred {n : Nat} (T : Matrix (Fin n) (Fin n) ℝ)
    (hnn : ∀ i j, 0 ≤ T i j) (hrow : ∀ i, ∑ j, T i j = 1)
    (hirr : ∀ i j, ∃ k : Nat, 0 < (T ^ k) i j)
    (v : Fin n → ℝ) (hv : Matrix.vecMul v T = v) (sv : ∑ i, v i = 1) : ∀ j, 0 < v j := by
  have ha := abs_fixed T hnn hrow v hv
  -- `|v|` and `(Σ|v|) • v` are fixed vectors with the same sum, hence equal
  have hS : 0 < ∑ i, |v i| := by
    have h1 : ∑ i, v i ≤ ∑ i, |v i| := Finset.sum_le_sum fun i _ => le_abs_self (v i)
    linarith
  have hsc : Matrix.vecMul ((∑ i, |v i|) • v) T = (∑ i, |v i|) • v := by
    rw [Matrix.smul_vecMul, hv]
  have heq := fixed_eq_of_sum_eq T hnn hrow hirr (fun i => |v i|) ((∑ i, |v i|) • v) ha hsc
    (by simp only [Pi.smul_apply, smul_eq_mul, ← Finset.mul_sum, sv, mul_one])
  have hv0 : ∀ i, 0 ≤ v i := by
    intro i
    have := congrFun heq i
    simp only [Pi.smul_apply, smul_eq_mul] at this
    have h2 : 0 ≤ (∑ i, |v i|) * v i := by rw [← this]; exact abs_nonneg _
    exact nonneg_of_mul_nonneg_right h2 hS
  obtain ⟨i0, hi0⟩ : ∃ i, 0 < v i := by
    by_contra hc
    push Not at hc
    have : ∑ i, v i ≤ 0 := Finset.sum_nonpos fun i _ => hc i
    linarith
  exact fixed_nonneg_pos T hnn hirr v hv0 hv i0 hi0

/-! ### irreducibility stated with paths -/

/-- graph formulation ⇒ power formulation: if `j` can be reached from `i` along positive
entries, some power of `T` has a positive `(i, j)` entry -/
theorem pow_pos_of_path {n : Nat} (T : Matrix (Fin n) (Fin n) ℝ) (hnn : ∀ i j, 0 ≤ T i j)
    (i j : Fin n) (h : Relation.ReflTransGen (fun a b => 0 < T a b) i j) :
    ∃ k : Nat, 0 < (T ^ k) i j := by
  induction h with
  | refl => exact ⟨0, by rw [pow_zero, Matrix.one_apply_eq]; exact one_pos⟩
  | @tail b c _ hbc ih =>
    obtain ⟨k, hk⟩ := ih
    refine ⟨k + 1, ?_⟩
    rw [pow_succ, Matrix.mul_apply]
    exact Finset.sum_pos' (fun l _ => mul_nonneg (pow_entries_nonneg T hnn k i l) (hnn l c))
      ⟨b, Finset.mem_univ _, mul_pos hk hbc⟩

/-- power formulation ⇒ graph formulation -/
theorem path_of_pow_pos {n : Nat} (T : Matrix (Fin n) (Fin n) ℝ) (hnn : ∀ i j, 0 ≤ T i j)
    (k : Nat) : ∀ i j : Fin n, 0 < (T ^ k) i j →
      Relation.ReflTransGen (fun a b => 0 < T a b) i j := by
  induction k with
  | zero =>
    intro i j h
    rw [pow_zero, Matrix.one_apply] at h
    split at h
    · rename_i e; rw [e]
    · exact absurd h (lt_irrefl _)
  | succ k ih =>
    intro i j h
    rw [pow_succ, Matrix.mul_apply] at h
    obtain ⟨l, _, hl⟩ : ∃ l ∈ (Finset.univ : Finset (Fin n)), 0 < (T ^ k) i l * T l j := by
      by_contra hc
      push Not at hc
      have : ∑ l, (T ^ k) i l * T l j ≤ 0 := Finset.sum_nonpos hc
      linarith
    have h1 : 0 < (T ^ k) i l := by
      rcases (pow_entries_nonneg T hnn k i l).lt_or_eq with h1 | h1
      · exact h1
      · rw [← h1, zero_mul] at hl; exact absurd hl (lt_irrefl _)
    have h2 : 0 < T l j := by
      rcases (hnn l j).lt_or_eq with h2 | h2
      · exact h2
      · rw [← h2, mul_zero] at hl; exact absurd hl (lt_irrefl _)
    exact Relation.ReflTransGen.tail (ih i l h1) h2

end Ens.Msm
