import Proofs.C13Arith
import Proofs.Sched
/-! What one row's program leaves in its `out` cell. -/
namespace Ens.Dist
open Ens.Sched

theorem runSteps_append {α} (p q : List (α → α)) (a : α) :
    runSteps (p ++ q) a = runSteps q (runSteps p a) := by
  simp [runSteps, List.foldl_append]

theorem runSteps_acc (terms : List Rat) (a : Rat) :
    runSteps (terms.map stepAcc) (.val a) = .val (a + terms.sum) := by
  induction terms generalizing a with
  | nil => simp [runSteps]
  | cons t ts ih =>
    have : runSteps ((t :: ts).map stepAcc) (.val a) = runSteps (ts.map stepAcc) (.val (a + t)) := rfl
    rw [this, ih, List.sum_cons]; congr 1; ring

/-- the row result does not depend on what the cell held before (`out[i] = 0` comes first) -/
theorem rowResult_init (k : Kernel) (w : Nat) (terms : List Rat) (c c' : Cell) :
    rowResult k w terms c = rowResult k w terms c' := by
  simp [rowResult, rowProg, runSteps, stepZero]

theorem rowResult_eq (k : Kernel) (w : Nat) (terms : List Rat) (c : Cell) :
    rowResult k w terms c = runSteps (finish k w) (.val terms.sum) := by
  have : rowResult k w terms c = runSteps (terms.map stepAcc ++ finish k w) (.val 0) := rfl
  rw [this, runSteps_append, runSteps_acc, zero_add]

theorem rowResult_euclidean (w : Nat) (terms : List Rat) (c : Cell) (h : 0 ≤ terms.sum) :
    rowResult .euclidean w terms c = .sqrt terms.sum := by
  rw [rowResult_eq]
  simp [finish, runSteps, stepSqrt, not_lt.mpr h]

theorem rowResult_euclidean_neg (w : Nat) (terms : List Rat) (c : Cell) (h : terms.sum < 0) :
    rowResult .euclidean w terms c = .nan := by
  rw [rowResult_eq]
  simp [finish, runSteps, stepSqrt, h]

theorem rowResult_manhattan (w : Nat) (terms : List Rat) (c : Cell) :
    rowResult .manhattan w terms c = .val terms.sum := by
  rw [rowResult_eq]; rfl

theorem rowResult_hamming (w : Nat) (terms : List Rat) (c : Cell) (hw : 0 < w) :
    rowResult .hamming w terms c = .val (terms.sum / (w : Rat)) := by
  rw [rowResult_eq]
  simp [finish, runSteps, stepDiv, Nat.pos_iff_ne_zero.mp hw]

/-- `n_features = 0`: the code computes `0.0 / 0` -/
theorem rowResult_hamming_zero (c : Cell) : rowResult .hamming 0 [] c = .nan := by
  rw [rowResult_eq]; simp [finish, runSteps, stepDiv]

/-- a row never leaves an untracked value: the result is a number, a square root or NaN -/
theorem rowResult_tracked (k : Kernel) (terms : List Rat) (c : Cell) (w : Nat) (hw : w = 0 → terms = []) :
    rowResult k w terms c ≠ .untracked := by
  rw [rowResult_eq]
  cases k
  · simp only [finish, runSteps, List.foldl, stepSqrt]; split <;> simp
  · simp [finish, runSteps]
  · simp only [finish, runSteps, List.foldl, stepDiv]
    by_cases h0 : w = 0
    · simp [h0, hw h0]
    · simp [h0]

theorem sum_map_nonneg {α} (l : List α) (f : α → Rat) (h : ∀ a ∈ l, 0 ≤ f a) : 0 ≤ (l.map f).sum := by
  induction l with
  | nil => simp
  | cons a as ih =>
    rw [List.map_cons, List.sum_cons]
    have h1 := h a (List.mem_cons_self)
    have h2 := ih (fun b hb => h b (List.mem_cons_of_mem _ hb))
    linarith

theorem sum_map_congr {α} (l : List α) (f g : α → Rat) (h : ∀ a ∈ l, f a = g a) :
    (l.map f).sum = (l.map g).sum := by
  rw [List.map_congr_left h]

end Ens.Dist
