import Proofs.C06Step
/-!
`step` refines `specStep` operation by operation (C06), and keeps the two representations coherent.
-/
namespace Ens.RaggedW
variable {α β γ : Type}

/-! ### scope -/

/-- the flat positions computed by the code's index arithmetic -/
def flatIdx (cfg : Cfg) (ls : List Nat) (r : Sel) (c : CSel) : Except Err (List Nat) :=
  bindE (iis2d cfg ls r c) (convertFrom2d ls)

/-- the flat positions of the cells the list-of-rows model addresses -/
def specFlat (rows : Rows α) (r : Sel) (c : CSel) : Except Err (List Nat) :=
  mapOk (List.map (flatOf (rows.map List.length))) (specTargets rows r c)

/-- the code's 2-d index arithmetic addresses exactly the cells `rows[r][c]` (same error otherwise) -/
def IdxAgree (cfg : Cfg) (s : State α) (r : Sel) (c : CSel) : Prop :=
  flatIdx cfg s.lengths r c = specFlat s.array r c

/-- `where(mask)` + conversion addresses exactly the `True` cells, row-major -/
def MaskAgree (cfg : Cfg) (s : State α) (mask : List (List Bool)) : Prop :=
  mask.map List.length = s.lengths ∧
  convertFrom2d s.lengths (whereMask mask) = .ok ((specMaskTargets mask).map (flatOf s.lengths)) ∧
  ValidTargets s.array (specMaskTargets mask) ∧
  (cfg.readsFix = true ∨ (whereMask mask).isEmpty = false)

def ValOK (cfg : Cfg) (v : Val α) : Prop := cfg.rowViewsFix = true ∨ v.isEmptyContainer = false

/-- numpy accepts `block[sel] = value` and does what a row-by-row assignment would do -/
def BlockOK (cfg : Cfg) (s : State α) (sel : Sel) (vs : List (List α)) (form : Form) : Prop :=
  match selCount s.array.length sel with
  | .ok m => blockAssign (s.kind cfg == .typedBlock) form m (s.lengths.headD 0) vs = .ok
  | .error _ => True

/-- The region in which the code (variant `cfg`) is claimed to behave like the list of rows.
For `Cfg.fixed` every clause is either trivial or a guard of the operation itself
(`inScope_fixed` in `Props/C06.lean`). -/
def InScope (cfg : Cfg) (s : State α) : Op α → Prop
  | .setElem _ _ _ => True
  | .viewWrite _ _ _ => True
  | .setRow _ v => cfg.rowViewsFix = true ∨ s.kind cfg = .ragged ∨ v.length = s.lengths.headD 0
  | .setRows sel vs form =>
      cfg.rowViewsFix = true ∨ s.kind cfg = .ragged ∨ BlockOK cfg s sel vs form
  | .setIntSlice _ _ _ => True
  | .set2d r c v => IdxAgree cfg s r c ∧ ValOK cfg v
  | .setPaired _ _ v => ValOK cfg v
  | .setMask mask v => MaskAgree cfg s mask ∧ ValOK cfg v
  | .append vs _ => (cfg.appendEmptyFix = true ∨ s.data ≠ []) ∧ (cfg.appendFix = true ∨ vs ≠ [])
  | .appendFlat _ => cfg.appendFix = true ∧ (cfg.appendEmptyFix = true ∨ s.data ≠ [])
  | .iop _ => s.data ≠ [] ∨ cfg.readsFix = true
  | .binop _ => s.data ≠ [] ∨ cfg.readsFix = true
  | .iop2 _ o => o.map List.length = s.lengths ∧ (s.data ≠ [] ∨ cfg.readsFix = true)
  | .binop2 _ o => o.map List.length = s.lengths ∧ (s.data ≠ [] ∨ cfg.readsFix = true)
  | .iopAt r c _ => IdxAgree cfg s r c ∧ (cfg.rowViewsFix = true ∨ noRows cfg s.lengths.length r = false)
  | .copyCtor viaFlat _ => viaFlat = false ∨ s.data ≠ [] ∨ cfg.readsFix = true
  | .npLeft _ _ => cfg.priorityFix = true ∧ (s.data ≠ [] ∨ cfg.readsFix = true)

/-- the one writer that leaves the two representations out of step -/
def StaleWrite (cfg : Cfg) (s : State α) : Op α → Prop
  | .viewWrite _ _ _ => s.kind cfg = .objBlock
  | _ => False

/-- invariant of a usable object -/
def Inv (s : State α) : Prop := Coherent s ∧ s.array ≠ []

/-! ### small facts -/

theorem length_setMany (rows : List (List α)) (idx : List Nat) (vs : List (List α)) :
    (setMany rows idx vs).length = rows.length := by
  induction idx generalizing rows vs with
  | nil => cases vs <;> rfl
  | cons i is ih =>
    cases vs with
    | nil => rfl
    | cons v vs => simp [setMany, ih]

theorem ne_nil_of_length_eq {l : List β} {l' : List γ} (h : l.length = l'.length) (hne : l' ≠ []) : l ≠ [] := by
  intro hl
  subst hl
  cases l' with
  | nil => exact hne rfl
  | cons x xs => simp at h

theorem Inv.lengths_ne {s : State α} (h : Inv s) : s.lengths ≠ [] := by
  have := h.1.lengths_eq
  intro hl
  rw [hl] at this
  have h2 : s.array = [] := by
    cases hs : s.array with
    | nil => rfl
    | cons x xs => rw [hs] at this; simp at this
  exact h.2 h2

theorem inv_of_rows (rows : List (List α)) (np obj : Bool) (h : rows ≠ []) :
    Inv (⟨rows.flatten, rows.map List.length, rows, np, obj⟩ : State α) :=
  ⟨coherent_of_rows rows np obj, h⟩

/-- `self.__init__(rows)` rebuilds exactly `rows` -/
theorem initRows_spec (rows : List (List α)) (obj : Bool) (h : rows ≠ []) :
    ∃ s', initRows rows obj = .ok s' ∧ s'.array = rows ∧ Inv s' :=
  ⟨_, initRows_eq rows obj h, rfl, inv_of_rows rows false obj h⟩

theorem initFlat_spec (cfg : Cfg) {s : State α} (h : Inv s) (d : List β) (np obj : Bool)
    (hlen : d.length = s.data.length) (hd : d ≠ [] ∨ cfg.readsFix = true) :
    ∃ s', initFlat cfg d s.lengths np obj = .ok s' ∧ s'.array = partition s.lengths d ∧ Inv s' ∧
      s'.lengths = s.lengths := by
  have hsum : s.lengths.sum = d.length := by rw [hlen]; exact h.1.1
  refine ⟨_, initFlat_eq cfg d s.lengths np obj h.lengths_ne hsum hd, rfl, ⟨⟨hsum, rfl⟩, ?_⟩, rfl⟩
  show partition s.lengths d ≠ []
  exact ne_nil_of_length_eq (l' := s.lengths) (by simp) h.lengths_ne

/-! ### element-wise operators -/

theorem mapOp_spec (cfg : Cfg) {s : State α} (h : Inv s) (f : α → β)
    (hd : s.data ≠ [] ∨ cfg.readsFix = true) :
    ∃ b, mapOp cfg f s = .ok b ∧ b.array = s.array.map (List.map f) ∧ Inv b ∧
      b.lengths = s.lengths ∧ b.data = s.data.map f := by
  have hd' : s.data.map f ≠ [] ∨ cfg.readsFix = true := by
    rcases hd with hd | hd
    · left; simpa using hd
    · right; exact hd
  obtain ⟨b, h1, h2, h3, h4⟩ := initFlat_spec cfg h (s.data.map f) true s.objDtype (by simp) hd'
  refine ⟨b, h1, ?_, h3, h4, ?_⟩
  · rw [h2, partition_map, ← h.1.2]
  · rw [initFlat_eq cfg _ _ _ _ h.lengths_ne (by simp [h.1.1]) hd'] at h1
    injection h1 with h1
    rw [← h1]

theorem zipOp_spec (cfg : Cfg) {s : State α} (h : Inv s) (g : α → β → γ) (o : List (List β))
    (ho : o.map List.length = s.lengths) (hd : s.data ≠ [] ∨ cfg.readsFix = true) :
    ∃ b, zipOp cfg g s o.flatten = .ok b ∧ b.array = List.zipWith (List.zipWith g) s.array o ∧ Inv b ∧
      b.lengths = s.lengths ∧ b.data = List.zipWith g s.data o.flatten := by
  have hlen : o.flatten.length = s.data.length := by
    rw [← sum_map_length, ho]; exact h.1.1
  have hd' : List.zipWith g s.data o.flatten ≠ [] ∨ cfg.readsFix = true := by
    rcases hd with hd | hd
    · left
      intro hz
      have := congrArg List.length hz
      simp [hlen] at this
      exact hd this
    · right; exact hd
  have hl2 : (List.zipWith g s.data o.flatten).length = s.data.length := by simp [hlen]
  obtain ⟨b, h1, h2, h3, h4⟩ := initFlat_spec cfg h (List.zipWith g s.data o.flatten) true s.objDtype hl2 hd'
  unfold zipOp
  simp only [hlen, if_true]
  refine ⟨b, h1, ?_, h3, h4, ?_⟩
  · rw [h2, partition_zipWith, ← h.1.2]
    congr 1
    rw [← ho]; exact partition_flatten o
  · rw [initFlat_eq cfg _ _ _ _ h.lengths_ne (by rw [hl2]; exact h.1.1) hd'] at h1
    injection h1 with h1
    rw [← h1]

end Ens.RaggedW

namespace Ens.RaggedW
variable {α β γ : Type}

/-- what has to be shown for one operation: refinement, and the invariant on every result -/
def StepOK (cfg : Cfg) (s : State α) (op : Op α) : Prop :=
  absR (step cfg s op) = specStep s.array op ∧
  ∀ s' o, step cfg s op = .ok (s', o) →
    (¬ StaleWrite cfg s op → Inv s') ∧ (∀ b, o = some b → Inv b ∧ b.lengths = s.lengths)

theorem specScatter_single (rows : Rows α) (p : Nat × Nat) (x : α) :
    specScatter rows [p] (.scalar x) = .ok (setCell rows p.1 p.2 x) := rfl

theorem stepOK_of_scatter (cfg : Cfg) {s : State α} (h : Inv s) (op : Op α) (iis : List (Int × Int))
    (v : Val α) (specRes : Except Err (Rows α))
    (hstep : step cfg s op = (match scatterWrite cfg s iis v with
      | .error e => .error e
      | .ok s' => .ok (s', none)))
    (hspec : specStep s.array op = (match specRes with
      | .error e => .error e
      | .ok rows' => .ok (rows', none)))
    (href : arrR (scatterWrite cfg s iis v) = specRes)
    (hcoh : ∀ s', scatterWrite cfg s iis v = .ok s' → Coherent s' ∧ s'.lengths = s.lengths) :
    StepOK cfg s op := by
  unfold StepOK
  rw [hstep, hspec]
  cases hw : scatterWrite cfg s iis v with
  | error e =>
    rw [hw] at href
    simp only [arrR] at href
    rw [← href]
    simp [absR]
  | ok s1 =>
    rw [hw] at href
    simp only [arrR] at href
    rw [← href]
    refine ⟨by simp [absR], ?_⟩
    intro s' o heq
    injection heq with heq
    injection heq with h1 h2
    subst h1 h2
    obtain ⟨hc, hl⟩ := hcoh s1 hw
    refine ⟨fun _ => ⟨hc, ?_⟩, by simp⟩
    have : s1.array.length = s1.lengths.length := by rw [hc.2]; simp
    apply ne_nil_of_length_eq (l' := s.lengths) (by rw [this, hl]) h.lengths_ne

theorem stepOK_setElem (cfg : Cfg) {s : State α} (h : Inv s) (i j : Int) (x : α) :
    StepOK cfg s (.setElem i j x) := by
  obtain ⟨href, hcoh⟩ := scatterWrite_refines cfg h.1 [(i, j)] (.scalar x) (Or.inr rfl)
  apply stepOK_of_scatter cfg h _ [(i, j)] (.scalar x)
    (bindE (mapE (specCell s.array) [(i, j)]) (fun tg => specScatter s.array tg (.scalar x)))
  · rfl
  · simp only [specStep, mapE]
    cases specCell s.array (i, j) with
    | error e => rfl
    | ok p => rfl
  · exact href
  · exact hcoh

theorem stepOK_setPaired (cfg : Cfg) {s : State α} (h : Inv s) (r c : List Int) (v : Val α)
    (hv : ValOK cfg v) : StepOK cfg s (.setPaired r c v) := by
  cases hp : pairedIis r c with
  | error e =>
    unfold StepOK
    simp [step, specStep, hp, absR]
  | ok iis =>
    obtain ⟨href, hcoh⟩ := scatterWrite_refines cfg h.1 iis v hv
    apply stepOK_of_scatter cfg h _ iis v
      (bindE (mapE (specCell s.array) iis) (fun tg => specScatter s.array tg v))
    · simp only [step, hp]
      rfl
    · simp only [specStep, hp]
      cases mapE (specCell s.array) iis with
      | error e => rfl
      | ok tg =>
        simp only [bindE_ok]
        cases specScatter s.array tg v <;> rfl
    · exact href
    · exact hcoh

end Ens.RaggedW

namespace Ens.RaggedW
variable {α β γ : Type}

theorem mapE_map_arg {δ : Type} (f : γ → Except Err δ) (g : β → γ) (l : List β) :
    mapE f (l.map g) = mapE (fun x => f (g x)) l := by
  induction l with
  | nil => rfl
  | cons x xs ih => simp only [List.map_cons, mapE, ih]

theorem IdxAgree.cases {cfg : Cfg} {s : State α} {r : Sel} {c : CSel} (hc : Coherent s)
    (h : IdxAgree cfg s r c) :
    (∃ e, specTargets s.array r c = .error e ∧
      ((iis2d cfg s.lengths r c = .error e) ∨
        ∃ iis, iis2d cfg s.lengths r c = .ok iis ∧ convertFrom2d s.lengths iis = .error e)) ∨
    (∃ tg iis, specTargets s.array r c = .ok tg ∧ iis2d cfg s.lengths r c = .ok iis ∧
      convertFrom2d s.lengths iis = .ok (tg.map (flatOf s.lengths))) := by
  unfold IdxAgree flatIdx specFlat at h
  rw [← hc.lengths_eq] at h
  cases hs : specTargets s.array r c with
  | error e =>
    left
    rw [hs] at h
    refine ⟨e, rfl, ?_⟩
    cases hi : iis2d cfg s.lengths r c with
    | error e' =>
      rw [hi] at h
      simp at h
      left; rw [h]
    | ok iis =>
      rw [hi] at h
      simp at h
      right; exact ⟨iis, rfl, h⟩
  | ok tg =>
    right
    rw [hs] at h
    cases hi : iis2d cfg s.lengths r c with
    | error e' =>
      rw [hi] at h
      simp at h
    | ok iis =>
      rw [hi] at h
      simp at h
      exact ⟨tg, iis, rfl, rfl, h⟩

theorem stepOK_set2d (cfg : Cfg) {s : State α} (h : Inv s) (r : Sel) (c : CSel) (v : Val α)
    (hi : IdxAgree cfg s r c) (hvalid : ∀ tg, specTargets s.array r c = .ok tg → ValidTargets s.array tg)
    (hv : ValOK cfg v) : StepOK cfg s (.set2d r c v) := by
  rcases hi.cases h.1 with ⟨e, hs, hm⟩ | ⟨tg, iis, hs, hi2, hflat⟩
  · unfold StepOK
    rcases hm with hm | ⟨iis, hm1, hm2⟩
    · simp [step, specStep, hs, hm, absR]
    · simp [step, specStep, hs, hm1, scatterWrite, hm2, absR]
  · obtain ⟨href, hcoh⟩ := scatterWrite_of_flat cfg h.1 iis tg hflat (hvalid tg hs) v hv
    apply stepOK_of_scatter cfg h _ iis v (specScatter s.array tg v)
    · simp only [step, hi2]
      rfl
    · simp only [specStep, hs]
      cases specScatter s.array tg v <;> rfl
    · exact href
    · exact hcoh

theorem stepOK_setMask (cfg : Cfg) {s : State α} (h : Inv s) (mask : List (List Bool)) (v : Val α)
    (hm : MaskAgree cfg s mask) (hv : ValOK cfg v) : StepOK cfg s (.setMask mask v) := by
  obtain ⟨hlen, hflat, hvalid, hne⟩ := hm
  obtain ⟨href, hcoh⟩ := scatterWrite_of_flat cfg h.1 (whereMask mask) _ hflat hvalid v hv
  have hcond : ((whereMask mask).isEmpty && !cfg.readsFix) = false := by
    rcases hne with hne | hne
    · simp [hne]
    · simp [hne]
  apply stepOK_of_scatter cfg h _ (whereMask mask) v (specScatter s.array (specMaskTargets mask) v)
  · simp only [step, hcond, Bool.false_eq_true, if_false]
    rfl
  · have : mask.map List.length = s.array.map List.length := by rw [hlen, h.1.lengths_eq]
    simp only [specStep, this, if_true]
    cases specScatter s.array (specMaskTargets mask) v <;> rfl
  · exact href
  · exact hcoh

theorem gather_eq {s : State α} (hc : Coherent s) (tg : List (Nat × Nat)) (hv : ValidTargets s.array tg)
    (f : α → α) :
    mapE (gatherMap f s.data) (tg.map (flatOf s.lengths)) = mapE (specGatherMap f s.array) tg := by
  rw [mapE_map_arg]
  apply mapE_congr
  intro p hp
  obtain ⟨row, h1, h2⟩ := hv p hp
  have := getElem?_flatten_flatOf s.array p row h1 h2
  rw [← hc.data_eq, ← hc.lengths_eq] at this
  simp only [gatherMap, specGatherMap, this, specCellAt, h1]
  have h3 : row[p.2]? = some row[p.2] := List.getElem?_eq_getElem h2
  rw [h3]

theorem stepOK_iopAt (cfg : Cfg) {s : State α} (h : Inv s) (r : Sel) (c : CSel) (f : α → α)
    (hi : IdxAgree cfg s r c) (hvalid : ∀ tg, specTargets s.array r c = .ok tg → ValidTargets s.array tg)
    (hn : cfg.rowViewsFix = true ∨ noRows cfg s.lengths.length r = false) :
    StepOK cfg s (.iopAt r c f) := by
  unfold StepOK
  rcases hi.cases h.1 with ⟨e, hs, hm⟩ | ⟨tg, iis, hs, hi2, hflat⟩
  · rcases hm with hm | ⟨iis, hm1, hm2⟩
    · simp [step, specStep, hs, hm, absR]
    · simp [step, specStep, hs, hm1, hm2, absR]
  · have hcond : (noRows cfg s.lengths.length r && !cfg.rowViewsFix) = false := by
      rcases hn with hn | hn <;> simp [hn]
    have hval := hvalid tg hs
    simp only [step, hi2, hflat, specStep, hs, gather_eq h.1 tg hval f]
    cases hg : mapE (specGatherMap f s.array) tg with
    | error e => simp [absR]
    | ok vals =>
      obtain ⟨s', h1, h2, h3, h4⟩ := rebuild_scatter h.1 tg hval vals s.objDtype
      simp only [hcond, Bool.false_eq_true, if_false, h1, absR, h2, Option.map_none, true_and]
      intro s'' o heq
      injection heq with heq
      injection heq with e1 e2
      subst e1 e2
      refine ⟨fun _ => ⟨h3, ?_⟩, by simp⟩
      have : s'.array.length = s'.lengths.length := by rw [h3.2]; simp
      exact ne_nil_of_length_eq (l' := s.lengths) (by rw [this, h4]) h.lengths_ne

end Ens.RaggedW

namespace Ens.RaggedW
variable {α β γ : Type}

/-- a step that ends in `self.__init__(rows')` -/
theorem stepOK_of_initRows (cfg : Cfg) {s : State α} (op : Op α) (rows' : Rows α) (obj : Bool)
    (hne : rows' ≠ [])
    (hstep : step cfg s op = (match initRows rows' obj with
      | .error e => .error e
      | .ok s' => .ok (s', none)))
    (hspec : specStep s.array op = .ok (rows', none)) : StepOK cfg s op := by
  unfold StepOK
  obtain ⟨s', h1, h2, h3⟩ := initRows_spec rows' obj hne
  rw [hstep, hspec, h1]
  refine ⟨by simp [absR, h2], ?_⟩
  intro s'' o heq
  injection heq with heq
  injection heq with e1 e2
  subst e1 e2
  exact ⟨fun _ => h3, by simp⟩

theorem stepOK_viewWrite (cfg : Cfg) {s : State α} (h : Inv s) (i j : Int) (x : α) :
    StepOK cfg s (.viewWrite i j x) := by
  unfold StepOK
  simp only [step, specStep, specCell]
  cases h1 : normIdx s.array.length i with
  | error e => simp [absR]
  | ok r =>
    simp only []
    cases h2 : s.array[r]? with
    | none => simp [absR]
    | some row =>
      simp only []
      cases h3 : normIdx row.length j with
      | error e => simp [absR]
      | ok c =>
        simp only []
        have hr : r < s.array.length := normIdx_lt h1
        have hc : c < row.length := normIdx_lt h3
        have hrow : s.array[r] = row := by
          rcases List.getElem?_eq_some_iff.mp h2 with ⟨_, he⟩
          exact he
        by_cases hk : (s.kind cfg == Kind.objBlock) = true
        · simp only [hk, if_true, absR, Option.map_none, setCell, true_and]
          intro s' o heq
          injection heq with heq
          injection heq with e1 e2
          subst e1 e2
          refine ⟨fun hst => absurd ?_ hst, by simp⟩
          simp only [StaleWrite]
          exact eq_of_beq hk
        · simp only [hk, Bool.false_eq_true, if_false, absR, Option.map_none, setCell, true_and]
          intro s' o heq
          injection heq with heq
          injection heq with e1 e2
          subst e1 e2
          refine ⟨fun _ => ⟨?_, ?_⟩, by simp⟩
          · rw [coherent_iff]
            refine ⟨?_, ?_⟩
            · show s.data.set (startOf s.lengths r + c) x = (s.array.modify r (·.set c x)).flatten
              have := flatten_setCell s.array r c x hr (by rw [hrow]; exact hc)
              unfold setCell at this
              rw [this, ← h.1.data_eq, ← h.1.lengths_eq]
            · show s.lengths = (s.array.modify r (·.set c x)).map List.length
              have := setCell_map_length s.array r c x
              unfold setCell at this
              rw [this]; exact h.1.lengths_eq
          · show s.array.modify r (·.set c x) ≠ []
            exact ne_nil_of_length_eq (l' := s.array) (by simp) h.2

theorem stepOK_setRow (cfg : Cfg) {s : State α} (h : Inv s) (i : Int) (v : List α)
    (hs : cfg.rowViewsFix = true ∨ s.kind cfg = .ragged ∨ v.length = s.lengths.headD 0) :
    StepOK cfg s (.setRow i v) := by
  cases h1 : normIdx s.array.length i with
  | error e =>
    unfold StepOK
    simp [step, specStep, h1, absR]
  | ok r =>
    have hcond : (cfg.rowViewsFix || s.kind cfg == Kind.ragged || v.length == s.lengths.headD 0) = true := by
      rcases hs with hs | hs | hs
      · simp [hs]
      · simp [hs]
      · simp [hs]
    apply stepOK_of_initRows cfg _ (s.array.set r v) (leak cfg s)
    · exact ne_nil_of_length_eq (l' := s.array) (by simp) h.2
    · simp only [step, h1, hcond, if_true]
      rfl
    · simp only [specStep, h1]

theorem bcastRows_length {vs w : List (List α)} {m : Nat} (h : bcastRows vs m = .ok w) : w.length = m := by
  unfold bcastRows at h
  split at h
  · injection h with h; subst h; assumption
  · split at h
    · injection h with h; subst h; simp
    · cases h

theorem blockAssign_ok_bcast (typed : Bool) (form : Form) (m L : Nat) (vs : List (List α))
    (h : blockAssign typed form m L vs = .ok) : ∃ w, bcastRows vs m = .ok w := by
  have key : (vs.length = m ∨ vs.length = 1) → ∃ w, bcastRows vs m = .ok w := by
    intro hk
    unfold bcastRows
    by_cases h1 : vs.length = m
    · exact ⟨vs, by simp [h1]⟩
    · rcases hk with hk | hk
      · exact absurd hk h1
      · match vs, hk with
        | [v], _ => exact ⟨List.replicate m v, by rw [if_neg h1]⟩
  unfold blockAssign at h
  simp only at h
  by_cases hk : vs.length = m ∨ vs.length = 1
  · exact key hk
  · exfalso
    split at h
    · cases h
    · cases form <;> (repeat' split at h) <;> first | cases h | skip

theorem bcastRows_error {vs : List (List α)} {m : Nat} {e : Err} (he : bcastRows vs m = .error e) :
    e = .valueError := by
  unfold bcastRows at he
  split at he
  · cases he
  · split at he
    · cases he
    · injection he with he; exact he.symm

theorem stepOK_setRows (cfg : Cfg) {s : State α} (h : Inv s) (sel : Sel) (vs : List (List α)) (form : Form)
    (hs : cfg.rowViewsFix = true ∨ s.kind cfg = .ragged ∨ BlockOK cfg s sel vs form) :
    StepOK cfg s (.setRows sel vs form) := by
  cases hm : selCount s.array.length sel with
  | error e =>
    unfold StepOK
    simp [step, specStep, hm, absR]
  | ok m =>
    -- the class computed by the code is `.ok` exactly when numpy accepts the row count
    have hcls : (∃ w, bcastRows vs m = .ok w ∧ rowClass cfg s form m vs = .ok) ∨
        (rowClass cfg s form m vs = .valueError ∧ bcastRows vs m = .error .valueError) := by
      unfold rowClass
      by_cases hb : (cfg.rowViewsFix || s.kind cfg == Kind.ragged) = true
      · rw [if_pos hb]
        cases hbc : bcastRows vs m with
        | ok w => left; exact ⟨w, rfl, rfl⟩
        | error e =>
          have := bcastRows_error hbc
          subst this
          right; exact ⟨rfl, rfl⟩
      · rw [if_neg hb]
        have hblock : blockAssign (s.kind cfg == Kind.typedBlock) form m (s.lengths.headD 0) vs = .ok := by
          rcases hs with hs | hs | hs
          · simp [hs] at hb
          · simp [hs] at hb
          · unfold BlockOK at hs; rw [hm] at hs; exact hs
        obtain ⟨w, hw⟩ := blockAssign_ok_bcast _ _ _ _ _ hblock
        left; exact ⟨w, hw, hblock⟩
    rcases hcls with ⟨w, hw, hc⟩ | ⟨hc, he⟩
    · cases hsel : rowSel s.array.length sel with
      | error e =>
        unfold StepOK
        simp only [step, hm, specStep, hw, hsel, hc, setRowsWith]
        simp [absR]
      | ok idx =>
        apply stepOK_of_initRows cfg _ (setMany s.array idx w)
          (leak cfg s || (leakVal cfg form vs && s.kind cfg != .typedBlock))
        · exact ne_nil_of_length_eq (l' := s.array) (length_setMany _ _ _) h.2
        · simp only [step, hm, hw, hsel, hc, setRowsWith]
          rfl
        · simp only [specStep, hm, hw, hsel]
    · unfold StepOK
      simp only [step, hm, specStep, he, hc, setRowsWith]
      simp [absR]

theorem stepOK_setIntSlice (cfg : Cfg) {s : State α} (h : Inv s) (i : Int) (sl : PySlice) (v : Val α) :
    StepOK cfg s (.setIntSlice i sl v) := by
  cases h1 : normIdx s.array.length i with
  | error e =>
    unfold StepOK
    simp [step, specStep, h1, absR]
  | ok r =>
    cases h2 : s.array[r]? with
    | none =>
      unfold StepOK
      simp [step, specStep, h1, h2, absR]
    | some row =>
      cases h3 : pyIndices row.length sl with
      | error e =>
        unfold StepOK
        simp [step, specStep, h1, h2, h3, absR]
      | ok cols =>
        cases v with
        | nested xss =>
          unfold StepOK
          simp [step, specStep, h1, h2, h3, absR]
        | scalar x =>
          apply stepOK_of_initRows cfg _ (s.array.set r (scatter row cols (List.replicate cols.length x))) (leak cfg s)
          · exact ne_nil_of_length_eq (l' := s.array) (by simp) h.2
          · simp only [step, h1, h2, h3]
            rfl
          · simp only [specStep, h1, h2, h3, specVals]
        | flat xs =>
          cases hb : bcast xs cols.length with
          | error e =>
            unfold StepOK
            simp [step, specStep, h1, h2, h3, specVals, hb, absR]
          | ok vals =>
            apply stepOK_of_initRows cfg _ (s.array.set r (scatter row cols vals)) (leak cfg s)
            · exact ne_nil_of_length_eq (l' := s.array) (by simp) h.2
            · simp only [step, h1, h2, h3, hb]
              rfl
            · simp only [specStep, h1, h2, h3, specVals, hb]

end Ens.RaggedW

namespace Ens.RaggedW
variable {α β γ : Type}

theorem isEmpty_false_of_ne {l : List β} (h : l ≠ []) : l.isEmpty = false := by
  cases l with
  | nil => exact absurd rfl h
  | cons x xs => rfl

/-- the common end of `append`: new flat data and lengths, `_array` rebuilt -/
theorem rebuild_append {s : State α} (h : Inv s) (vs : Rows α) (obj : Bool) :
    ∃ s', rebuild (s.data ++ vs.flatten) (s.lengths ++ vs.map List.length) obj = .ok s' ∧
      s'.array = s.array ++ vs ∧ Inv s' := by
  have hsum : (s.lengths ++ vs.map List.length).sum = (s.data ++ vs.flatten).length := by
    rw [List.sum_append, List.length_append, h.1.1, sum_map_length]
  refine ⟨_, rebuild_eq _ _ obj hsum, ?_, ⟨hsum, rfl⟩, ?_⟩
  · show partition (s.lengths ++ vs.map List.length) (s.data ++ vs.flatten) = s.array ++ vs
    rw [partition_append _ _ _ _ h.1.1, ← h.1.2, partition_flatten]
  · show partition (s.lengths ++ vs.map List.length) (s.data ++ vs.flatten) ≠ []
    rw [partition_append _ _ _ _ h.1.1, ← h.1.2]
    intro hc
    exact h.2 (List.append_eq_nil_iff.mp hc).1

theorem blankTest_false (cfg : Cfg) {s : State α} (h : Inv s)
    (hd : cfg.appendEmptyFix = true ∨ s.data ≠ []) : blankTest cfg s = false := by
  unfold blankTest
  by_cases hf : cfg.appendEmptyFix = true
  · simp only [hf, if_true]
    exact isEmpty_false_of_ne h.lengths_ne
  · rcases hd with hd | hd
    · exact absurd hd hf
    · simp only [hf, Bool.false_eq_true, if_false]
      exact isEmpty_false_of_ne hd

theorem stepOK_append (cfg : Cfg) {s : State α} (h : Inv s) (vs : Rows α) (form : Form)
    (hd : cfg.appendEmptyFix = true ∨ s.data ≠ []) (hv : cfg.appendFix = true ∨ vs ≠ []) :
    StepOK cfg s (.append vs form) := by
  unfold StepOK
  cases vs with
  | nil =>
    rcases hv with hv | hv
    · simp [step, blankTest_false cfg h hd, specStep, absR, hv]
    · exact absurd rfl hv
  | cons v vs =>
    obtain ⟨s', h1, h2, h3⟩ := rebuild_append h (v :: vs) (s.objDtype || leakVal cfg form (v :: vs))
    simp only [step, blankTest_false cfg h hd, Bool.false_eq_true, if_false, h1, specStep, absR, h2,
      Option.map_none, true_and]
    intro s'' o heq
    injection heq with heq
    injection heq with e1 e2
    subst e1 e2
    exact ⟨fun _ => h3, by simp⟩

theorem stepOK_appendFlat (cfg : Cfg) {s : State α} (h : Inv s) (v : List α)
    (hf : cfg.appendFix = true) (hd : cfg.appendEmptyFix = true ∨ s.data ≠ []) :
    StepOK cfg s (.appendFlat v) := by
  unfold StepOK
  cases v with
  | nil => simp [step, specStep, blankTest_false cfg h hd, hf, absR]
  | cons x xs =>
    obtain ⟨s', h1, h2, h3⟩ := rebuild_append h [x :: xs] s.objDtype
    simp only [List.flatten_cons, List.flatten_nil, List.append_nil, List.map_cons, List.map_nil] at h1
    simp only [step, blankTest_false cfg h hd, Bool.false_eq_true, if_false, hf, if_true, h1, specStep,
      absR, h2, Option.map_none, true_and]
    intro s'' o heq
    injection heq with heq
    injection heq with e1 e2
    subst e1 e2
    exact ⟨fun _ => h3, by simp⟩

theorem stepOK_iop (cfg : Cfg) {s : State α} (h : Inv s) (f : α → α)
    (hd : s.data ≠ [] ∨ cfg.readsFix = true) : StepOK cfg s (.iop f) := by
  unfold StepOK
  obtain ⟨b, h1, h2, h3, _⟩ := mapOp_spec cfg h f hd
  simp only [step, h1, specStep, absR, h2, Option.map_none, true_and]
  intro s'' o heq
  injection heq with heq
  injection heq with e1 e2
  subst e1 e2
  exact ⟨fun _ => h3, by simp⟩

theorem stepOK_binop (cfg : Cfg) {s : State α} (h : Inv s) (f : α → α)
    (hd : s.data ≠ [] ∨ cfg.readsFix = true) : StepOK cfg s (.binop f) := by
  unfold StepOK
  obtain ⟨b, h1, h2, h3, h4, _⟩ := mapOp_spec cfg h f hd
  simp only [step, h1, specStep, absR, h2, Option.map_some, true_and]
  intro s'' o heq
  injection heq with heq
  injection heq with e1 e2
  subst e1 e2
  refine ⟨fun _ => h, ?_⟩
  intro b' hb
  injection hb with hb
  subst hb
  exact ⟨h3, h4⟩

theorem stepOK_iop2 (cfg : Cfg) {s : State α} (h : Inv s) (g : α → α → α) (o : Rows α)
    (ho : o.map List.length = s.lengths) (hd : s.data ≠ [] ∨ cfg.readsFix = true) :
    StepOK cfg s (.iop2 g o) := by
  unfold StepOK
  obtain ⟨b, h1, h2, h3, _⟩ := zipOp_spec cfg h g o ho hd
  have ho' : o.map List.length = s.array.map List.length := by rw [ho, h.1.lengths_eq]
  simp only [step, h1, specStep, ho', if_true, absR, h2, Option.map_none, true_and]
  intro s'' o' heq
  injection heq with heq
  injection heq with e1 e2
  subst e1 e2
  exact ⟨fun _ => h3, by simp⟩

theorem stepOK_binop2 (cfg : Cfg) {s : State α} (h : Inv s) (g : α → α → α) (o : Rows α)
    (ho : o.map List.length = s.lengths) (hd : s.data ≠ [] ∨ cfg.readsFix = true) :
    StepOK cfg s (.binop2 g o) := by
  unfold StepOK
  obtain ⟨b, h1, h2, h3, h4, _⟩ := zipOp_spec cfg h g o ho hd
  have ho' : o.map List.length = s.array.map List.length := by rw [ho, h.1.lengths_eq]
  simp only [step, h1, specStep, ho', if_true, absR, h2, Option.map_some, true_and]
  intro s'' o' heq
  injection heq with heq
  injection heq with e1 e2
  subst e1 e2
  refine ⟨fun _ => h, ?_⟩
  intro b' hb
  injection hb with hb
  subst hb
  exact ⟨h3, h4⟩

theorem stepOK_copyCtor (cfg : Cfg) {s : State α} (h : Inv s) (viaFlat np : Bool)
    (hd : viaFlat = false ∨ s.data ≠ [] ∨ cfg.readsFix = true) : StepOK cfg s (.copyCtor viaFlat np) := by
  unfold StepOK
  cases viaFlat with
  | false =>
    obtain ⟨s', h1, h2, h3⟩ := initRows_spec s.array false h.2
    simp only [step, Bool.false_eq_true, if_false, h1, specStep, absR, h2, Option.map_none, true_and]
    intro s'' o heq
    injection heq with heq
    injection heq with e1 e2
    subst e1 e2
    exact ⟨fun _ => h3, by simp⟩
  | true =>
    have hd' : s.data ≠ [] ∨ cfg.readsFix = true := by
      rcases hd with hd | hd
      · cases hd
      · exact hd
    obtain ⟨s', h1, h2, h3, _⟩ := initFlat_spec cfg h s.data np false rfl hd'
    simp only [step, if_true, h1, specStep, absR, h2, ← h.1.2, Option.map_none, true_and]
    intro s'' o heq
    injection heq with heq
    injection heq with e1 e2
    subst e1 e2
    exact ⟨fun _ => h3, by simp⟩

theorem stepOK_npLeft (cfg : Cfg) {s : State α} (h : Inv s) (f : α → α) (rebind : Bool)
    (hp : cfg.priorityFix = true) (hd : s.data ≠ [] ∨ cfg.readsFix = true) :
    StepOK cfg s (.npLeft f rebind) := by
  unfold StepOK
  obtain ⟨b, h1, h2, h3, h4, _⟩ := mapOp_spec cfg h f hd
  cases rebind with
  | true =>
    simp only [step, npLeftStep, hp, if_true, h1, specStep, absR, h2, Option.map_none, true_and]
    intro s'' o heq
    injection heq with heq
    injection heq with e1 e2
    subst e1 e2
    exact ⟨fun _ => h3, by simp⟩
  | false =>
    simp only [step, npLeftStep, hp, if_true, h1, Bool.false_eq_true, if_false, specStep, absR, h2,
      Option.map_some, true_and]
    intro s'' o heq
    injection heq with heq
    injection heq with e1 e2
    subst e1 e2
    refine ⟨fun _ => h, ?_⟩
    intro b' hb
    injection hb with hb
    subst hb
    exact ⟨h3, h4⟩

/-- every operation in scope refines the list-of-rows model and keeps the invariant -/
theorem stepOK_of_inScope (cfg : Cfg) {s : State α} (h : Inv s) (op : Op α) (hs : InScope cfg s op)
    (hvalid : ∀ r c tg, specTargets s.array r c = .ok tg → ValidTargets s.array tg) :
    StepOK cfg s op := by
  cases op with
  | setElem i j x => exact stepOK_setElem cfg h i j x
  | viewWrite i j x => exact stepOK_viewWrite cfg h i j x
  | setRow i v => exact stepOK_setRow cfg h i v hs
  | setRows sel vs form => exact stepOK_setRows cfg h sel vs form hs
  | setIntSlice i sl v => exact stepOK_setIntSlice cfg h i sl v
  | set2d r c v => exact stepOK_set2d cfg h r c v hs.1 (hvalid r c) hs.2
  | setPaired r c v => exact stepOK_setPaired cfg h r c v hs
  | setMask mask v => exact stepOK_setMask cfg h mask v hs.1 hs.2
  | append vs form => exact stepOK_append cfg h vs form hs.1 hs.2
  | appendFlat v => exact stepOK_appendFlat cfg h v hs.1 hs.2
  | iop f => exact stepOK_iop cfg h f hs
  | iop2 g o => exact stepOK_iop2 cfg h g o hs.1 hs.2
  | iopAt r c f => exact stepOK_iopAt cfg h r c f hs.1 (hvalid r c) hs.2
  | binop f => exact stepOK_binop cfg h f hs
  | binop2 g o => exact stepOK_binop2 cfg h g o hs.1 hs.2
  | copyCtor viaFlat np => exact stepOK_copyCtor cfg h viaFlat np hs
  | npLeft f rebind => exact stepOK_npLeft cfg h f rebind hs.1 hs.2

end Ens.RaggedW

namespace Ens.RaggedW
variable {α : Type}

/-! ### decidability (for the concrete witnesses in `Props/C06.lean`) -/

instance {ε β : Type} [DecidableEq ε] [DecidableEq β] : DecidableEq (Except ε β)
  | .ok a, .ok b => if h : a = b then isTrue (by rw [h]) else isFalse (by intro hh; injection hh; contradiction)
  | .error a, .error b => if h : a = b then isTrue (by rw [h]) else isFalse (by intro hh; injection hh; contradiction)
  | .ok _, .error _ => isFalse (by intro hh; cases hh)
  | .error _, .ok _ => isFalse (by intro hh; cases hh)

instance [DecidableEq α] (s : State α) : Decidable (Coherent s) := by
  unfold Coherent; infer_instance

instance [DecidableEq α] (s : State α) : Decidable (Inv s) := by
  unfold Inv; infer_instance

def validB (rows : List (List α)) (tg : List (Nat × Nat)) : Bool :=
  tg.all fun p => match rows[p.1]? with
    | some row => decide (p.2 < row.length)
    | none => false

theorem validTargets_iff (rows : List (List α)) (tg : List (Nat × Nat)) :
    ValidTargets rows tg ↔ validB rows tg = true := by
  unfold validB
  rw [List.all_eq_true]
  constructor
  · intro h p hp
    obtain ⟨row, h1, h2⟩ := h p hp
    simp only [h1]; exact decide_eq_true h2
  · intro h p hp
    have := h p hp
    cases hr : rows[p.1]? with
    | none => simp [hr] at this
    | some row =>
      simp only [hr] at this
      exact ⟨row, rfl, of_decide_eq_true this⟩

instance (rows : List (List α)) (tg : List (Nat × Nat)) : Decidable (ValidTargets rows tg) :=
  decidable_of_iff _ (validTargets_iff rows tg).symm

instance [DecidableEq α] (cfg : Cfg) (s : State α) (r : Sel) (c : CSel) : Decidable (IdxAgree cfg s r c) := by
  unfold IdxAgree; infer_instance

instance (cfg : Cfg) (s : State α) (mask : List (List Bool)) : Decidable (MaskAgree cfg s mask) := by
  unfold MaskAgree; infer_instance

instance (cfg : Cfg) (v : Val α) : Decidable (ValOK cfg v) := by
  unfold ValOK; infer_instance

instance (cfg : Cfg) (s : State α) (sel : Sel) (vs : List (List α)) (form : Form) :
    Decidable (BlockOK cfg s sel vs form) := by
  unfold BlockOK; split <;> infer_instance

instance [DecidableEq α] (cfg : Cfg) (s : State α) : (op : Op α) → Decidable (InScope cfg s op)
  | .setElem _ _ _ => isTrue trivial
  | .viewWrite _ _ _ => isTrue trivial
  | .setRow _ v => inferInstanceAs (Decidable (cfg.rowViewsFix = true ∨ s.kind cfg = .ragged ∨ v.length = s.lengths.headD 0))
  | .setRows sel vs form => inferInstanceAs (Decidable (cfg.rowViewsFix = true ∨ s.kind cfg = .ragged ∨ BlockOK cfg s sel vs form))
  | .setIntSlice _ _ _ => isTrue trivial
  | .set2d r c v => inferInstanceAs (Decidable (IdxAgree cfg s r c ∧ ValOK cfg v))
  | .setPaired _ _ v => inferInstanceAs (Decidable (ValOK cfg v))
  | .setMask mask v => inferInstanceAs (Decidable (MaskAgree cfg s mask ∧ ValOK cfg v))
  | .append vs _ => inferInstanceAs (Decidable ((cfg.appendEmptyFix = true ∨ s.data ≠ []) ∧ (cfg.appendFix = true ∨ vs ≠ [])))
  | .appendFlat _ => inferInstanceAs (Decidable (cfg.appendFix = true ∧ (cfg.appendEmptyFix = true ∨ s.data ≠ [])))
  | .iop _ => inferInstanceAs (Decidable (s.data ≠ [] ∨ cfg.readsFix = true))
  | .binop _ => inferInstanceAs (Decidable (s.data ≠ [] ∨ cfg.readsFix = true))
  | .iop2 _ o => inferInstanceAs (Decidable (o.map List.length = s.lengths ∧ (s.data ≠ [] ∨ cfg.readsFix = true)))
  | .binop2 _ o => inferInstanceAs (Decidable (o.map List.length = s.lengths ∧ (s.data ≠ [] ∨ cfg.readsFix = true)))
  | .iopAt r c _ => inferInstanceAs (Decidable (IdxAgree cfg s r c ∧ (cfg.rowViewsFix = true ∨ noRows cfg s.lengths.length r = false)))
  | .copyCtor viaFlat _ => inferInstanceAs (Decidable (viaFlat = false ∨ s.data ≠ [] ∨ cfg.readsFix = true))
  | .npLeft _ _ => inferInstanceAs (Decidable (cfg.priorityFix = true ∧ (s.data ≠ [] ∨ cfg.readsFix = true)))

instance (cfg : Cfg) (s : State α) : (op : Op α) → Decidable (StaleWrite cfg s op)
  | .viewWrite _ _ _ => inferInstanceAs (Decidable (s.kind cfg = .objBlock))
  | .setElem _ _ _ | .setRow _ _ | .setRows _ _ _ | .setIntSlice _ _ _ | .set2d _ _ _
  | .setPaired _ _ _ | .setMask _ _ | .append _ _ | .appendFlat _ | .iop _ | .iop2 _ _
  | .iopAt _ _ _ | .binop _ | .binop2 _ _ | .copyCtor _ _ | .npLeft _ _ => isFalse (fun h => h)

end Ens.RaggedW
