import Proofs.C02Facts

/-! Concrete tables used as non-vacuity witnesses / counterexamples by `Props/C02.lean`, and the
observable `view` of a result (what the correspondence run compares). -/
namespace Ens.KC

/-- observable part of a result -/
structure View where
  centerIndices : List Nat
  centers : List Nat
  labels : List Int
  distances : List ERat
  trace : List (Nat × ERat)
  radius : ERat
  deriving DecidableEq

def view (n : Nat) (r : Except Err Result) : Option View :=
  match r with
  | .ok r => some ⟨r.st.ctrInds, r.st.centers, (List.range n).map r.st.assign,
      (List.range n).map r.st.dist, r.trace, r.radius⟩
  | .error _ => none

/-- calls that agree on the frames have the same observable result (or both fail) -/
theorem ResAgree_view {n : Nat} {a b : Except Err Result} (h : ResAgree n a b) :
    view n a = view n b := by
  cases a with
  | error e =>
    cases b with
    | error e' => rfl
    | ok r => exact h.elim
  | ok r1 =>
    cases b with
    | error e' => exact h.elim
    | ok r2 =>
      obtain ⟨⟨h1, h2, h3⟩, h4, h5⟩ := h
      simp only [view, Option.some.injEq, View.mk.injEq]
      refine ⟨h1, h2, ?_, ?_, h4, h5⟩
      · apply List.map_congr_left
        intro f hf; exact (h3 f (List.mem_range.mp hf)).2
      · apply List.map_congr_left
        intro f hf; exact (h3 f (List.mem_range.mp hf)).1

/-- points on a line: `D f c = |pos f - pos c|` -/
def lineTable (pos : Nat → Int) : Table := fun f c => ((Int.natAbs (pos f - pos c) : Nat) : Rat)

/-- every line table is symmetric and obeys the triangle inequality -/
theorem lineTable_symm (pos : Nat → Int) (x y : Nat) : lineTable pos x y = lineTable pos y x := by
  unfold lineTable
  congr 1
  omega

theorem lineTable_tri (pos : Nat → Int) (x y z : Nat) :
    lineTable pos x z ≤ lineTable pos x y + lineTable pos y z := by
  unfold lineTable
  have : Int.natAbs (pos x - pos z) ≤ Int.natAbs (pos x - pos y) + Int.natAbs (pos y - pos z) := by
    omega
  exact_mod_cast this

/-- the 5-point line used as non-vacuity witness: frames at positions 0, 4, 1, 3, 2 -/
def pos5 : Nat → Int
  | 0 => 0 | 1 => 4 | 2 => 1 | 3 => 3 | _ => 2
def line5 : Table := lineTable pos5

/-- 4 points on a line at 0, 1, 3, 2: frames 0,1,2 are the data, point 3 (at 2) is an initial
center that is not a frame of the data -/
def posOff : Nat → Int
  | 0 => 0 | 1 => 1 | 2 => 3 | _ => 2
def lineOff : Table := lineTable posOff

end Ens.KC
