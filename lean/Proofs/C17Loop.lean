/- C17 helper: the `paths` loop — unfolding, monotone fluxes, flux sum, count, termination. -/
import Proofs.C17Paths

namespace Ens.Paths
open Ens

section
variable (n : Nat) (S T : List Nat) (sch : Scheme) (np : Option Nat) (cn : Int) (cd : Nat)
  (tot : Nat)

/-- one iteration of the loop, for a run that returns normally -/
theorem pathsLoop_succ_ok (fuel : Nat) (G : Nat → Nat → Nat) (c e : Nat)
    (r : List (List Nat × Nat))
    (h : pathsLoop n S T sch np cn cd tot (fuel + 1) G c e = .ok r) :
    (countReached np c = true ∧ r = []) ∨
    (countReached np c = false ∧ ∃ p fl, topPath n G S T = .ok (p, fl) ∧ (∀ f, fl ≠ Ext.fin f) ∧ r = []) ∨
    (countReached np c = false ∧ ∃ p f, topPath n G S T = .ok (p, Ext.fin f) ∧
      ((stopNow np cn cd tot (c + 1) (e + f) = true ∧ r = [(p, f)]) ∨
       (stopNow np cn cd tot (c + 1) (e + f) = false ∧ ∃ G' rest,
          removePath sch G p = .ok G' ∧
          pathsLoop n S T sch np cn cd tot fuel (freeze n G') (c + 1) (e + f) = .ok rest ∧
          r = (p, f) :: rest))) := by
  unfold pathsLoop at h
  split at h
  · next hc => cases h; exact Or.inl ⟨hc, rfl⟩
  · next hc =>
    have hc' : countReached np c = false := by simpa using hc
    right
    split at h
    · cases h
    · next p f htp =>
      right
      refine ⟨hc', p, f, htp, ?_⟩
      split at h
      · next hs => cases h; exact Or.inl ⟨hs, rfl⟩
      · next hs =>
        right
        refine ⟨by simpa using hs, ?_⟩
        split at h
        · cases h
        · next G' hrem =>
          simp only at h
          split at h
          · cases h
          · next rest hrest =>
            cases h
            exact ⟨G', rest, hrem, hrest, rfl⟩
    · next p fl hfl htp =>
      left
      cases h
      exact ⟨hc', p, fl, htp, fun f hf => hfl f (by rw [hf]), rfl⟩

/-- every returned pathway is the top path of some matrix below the current one -/
theorem pathsLoop_each : ∀ (fuel : Nat) (G : Nat → Nat → Nat) (c e : Nat)
    (r : List (List Nat × Nat)), pathsLoop n S T sch np cn cd tot fuel G c e = .ok r →
    ∀ pf ∈ r, ∃ G', (∀ i j, G' i j ≤ G i j) ∧ topPath n G' S T = .ok (pf.1, Ext.fin pf.2)
  | 0, G, c, e, r, h => by simp [pathsLoop] at h
  | fuel + 1, G, c, e, r, h => by
    rcases pathsLoop_succ_ok n S T sch np cn cd tot fuel G c e r h with
      ⟨-, rfl⟩ | ⟨-, p, fl, -, -, rfl⟩ | ⟨-, p, f, htp, ⟨-, rfl⟩ | ⟨-, G', rest, hrem, hrest, rfl⟩⟩
    · intro pf hpf; cases hpf
    · intro pf hpf; cases hpf
    · intro pf hpf
      simp only [List.mem_singleton] at hpf
      subst hpf
      exact ⟨G, fun _ _ => Nat.le_refl _, htp⟩
    · intro pf hpf
      rcases List.mem_cons.1 hpf with rfl | hpf
      · exact ⟨G, fun _ _ => Nat.le_refl _, htp⟩
      · obtain ⟨G'', hle, h2⟩ := pathsLoop_each fuel _ _ _ rest hrest pf hpf
        have hspec := topPath_spec n G S T p (Ext.fin f) htp
        obtain ⟨G1, hG1, hR⟩ := removePath_spec sch G p hspec.edges_ne
        rw [hrem] at hG1
        cases hG1
        exact ⟨G'', fun i j => le_trans (hle i j) (le_trans (freeze_le n G' i j) (hR.le i j)), h2⟩

/-- a removal step: the frozen new matrix is below the old one and has fewer positive entries -/
theorem removed_step {G G' : Nat → Nat → Nat} {p : List Nat} {f : Nat}
    (hspec : TopSpec n G S T p (Ext.fin f)) (hrem : removePath sch G p = .ok G') :
    (∀ i j, freeze n G' i j ≤ G i j) ∧ posEdges n (freeze n G') < posEdges n G := by
  obtain ⟨G1, hG1, hR⟩ := removePath_spec sch G p hspec.edges_ne
  rw [hrem] at hG1
  cases hG1
  have hle : ∀ i j, freeze n G' i j ≤ G i j := fun i j =>
    le_trans (freeze_le n G' i j) (hR.le i j)
  refine ⟨hle, ?_⟩
  obtain ⟨e, he, hz⟩ := hR.zeroed
  have hmem := mem_edges p e he
  have h1 := hspec.all_lt e.1 hmem.1
  have h2 := hspec.all_lt e.2 hmem.2
  exact posEdges_step e.1 e.2 h1 h2 hle (adj_edges G p hspec.adj e he)
    (by rw [freeze_eq n G' _ _ h1 h2]; exact hz)

/-- pathway fluxes never increase -/
theorem pathsLoop_antitone : ∀ (fuel : Nat) (G : Nat → Nat → Nat) (c e : Nat)
    (r : List (List Nat × Nat)), pathsLoop n S T sch np cn cd tot fuel G c e = .ok r →
    r.Pairwise (fun a b => b.2 ≤ a.2)
  | 0, G, c, e, r, h => by simp [pathsLoop] at h
  | fuel + 1, G, c, e, r, h => by
    rcases pathsLoop_succ_ok n S T sch np cn cd tot fuel G c e r h with
      ⟨-, rfl⟩ | ⟨-, p, fl, -, -, rfl⟩ | ⟨-, p, f, htp, ⟨-, rfl⟩ | ⟨-, G', rest, hrem, hrest, rfl⟩⟩
    · exact List.Pairwise.nil
    · exact List.Pairwise.nil
    · exact List.pairwise_singleton _ _
    · refine List.Pairwise.cons ?_ (pathsLoop_antitone fuel _ _ _ rest hrest)
      intro pf hpf
      have hspec := topPath_spec n G S T p (Ext.fin f) htp
      obtain ⟨hle, -⟩ := removed_step n S T sch hspec hrem
      obtain ⟨G'', hle2, h2⟩ := pathsLoop_each n S T sch np cn cd tot fuel _ _ _ rest hrest pf hpf
      have hspec2 := topPath_spec n G'' S T pf.1 (Ext.fin pf.2) h2
      obtain ⟨s, y, rest', hq, hs, hb⟩ := hspec2.fin_head
      obtain ⟨t, hlast, ht⟩ := hspec2.last_mem
      have hGle : ∀ i j, G'' i j ≤ G i j := fun i j => le_trans (hle2 i j) (hle i j)
      have hw := hspec.widest pf.1 s t (by rw [hq]; rfl) hs hlast ht
        (adj_mono G G'' hGle pf.1 hspec2.adj) hspec2.all_lt
      have := le_trans (bneck_mono G G'' hGle pf.1) hw
      rw [hb] at this
      exact (Ext.fin_le_fin _ _).1 this

/-- sum of the returned fluxes -/
def fluxSum (r : List (List Nat × Nat)) : Nat := (r.map (·.2)).sum

/-- with the `subtract` scheme the pathway fluxes sum to at most the outflow of the sources -/
theorem pathsLoop_sum_le : ∀ (fuel : Nat) (G : Nat → Nat → Nat) (c e : Nat)
    (r : List (List Nat × Nat)), pathsLoop n S T .subtract np cn cd tot fuel G c e = .ok r →
    fluxSum r ≤ outflow n G S
  | 0, G, c, e, r, h => by simp [pathsLoop] at h
  | fuel + 1, G, c, e, r, h => by
    rcases pathsLoop_succ_ok n S T .subtract np cn cd tot fuel G c e r h with
      ⟨-, rfl⟩ | ⟨-, p, fl, -, -, rfl⟩ | ⟨-, p, f, htp, hcases⟩
    · simp [fluxSum]
    · simp [fluxSum]
    · have hspec := topPath_spec n G S T p (Ext.fin f) htp
      obtain ⟨s, y, rest', hq, hs, hb⟩ := hspec.fin_head
      have hsn : s < n := hspec.all_lt s (by rw [hq]; simp)
      have hyn : y < n := hspec.all_lt y (by rw [hq]; simp)
      obtain ⟨hmin, hex⟩ := bneck_fin_iff G p f hb
      have hsy : (s, y) ∈ edges p := by rw [hq, edges_cons_cons]; exact List.mem_cons_self
      rcases hcases with ⟨-, rfl⟩ | ⟨-, G', rest, hrem, hrest, rfl⟩
      · have h1 := hmin (s, y) hsy
        have h2 := le_outflow (n := n) (F := G) (S := S) s y hs hsn hyn
        simp only [fluxSum, List.map_cons, List.map_nil, List.sum_cons, List.sum_nil]
        simp only at h1
        omega
      · have ih := pathsLoop_sum_le fuel _ _ _ rest hrest
        obtain ⟨G1, hG1, hR, hsub⟩ := subtractPath_spec G p hspec.edges_ne
        have hrem' : subtractPath G p = .ok G' := hrem
        rw [hrem'] at hG1
        cases hG1
        have hd := hsub f hmin hex (s, y) hsy
        have hstep := outflow_step (n := n) (F := G) (G := freeze n G') (S := S) s y f hs hsn hyn
          (fun i j => le_trans (freeze_le n G' i j) (hR.le i j))
          (by rw [freeze_eq n G' s y hsn hyn]; exact hd)
        simp only [fluxSum, List.map_cons, List.sum_cons] at ih ⊢
        omega

/-- `num_paths` is respected, for every request including 0 -/
theorem pathsLoop_count (N : Nat) : ∀ (fuel : Nat) (G : Nat → Nat → Nat) (c e : Nat)
    (r : List (List Nat × Nat)), pathsLoop n S T sch (some N) cn cd tot fuel G c e = .ok r →
    c + r.length ≤ max c N
  | 0, G, c, e, r, h => by simp [pathsLoop] at h
  | fuel + 1, G, c, e, r, h => by
    rcases pathsLoop_succ_ok n S T sch (some N) cn cd tot fuel G c e r h with
      ⟨-, rfl⟩ | ⟨-, p, fl, -, -, rfl⟩ | ⟨hc, p, f, htp, ⟨-, rfl⟩ | ⟨hstop, G', rest, hrem, hrest, rfl⟩⟩
    · simp only [List.length_nil]; omega
    · simp only [List.length_nil]; omega
    · have hN : ¬ N ≤ c := by
        intro hle
        simp [countReached, hle] at hc
      simp only [List.length_singleton]; omega
    · have ih := pathsLoop_count N fuel _ _ _ rest hrest
      have hN : ¬ N ≤ c + 1 := by
        intro hle
        simp [stopNow, countReached, hle] at hstop
      simp only [List.length_cons]
      omega

/-- with valid source / sink lists and enough fuel the loop returns normally -/
theorem pathsLoop_ok (hS : ∀ s ∈ S, s < n) (hT : ∀ t ∈ T, t < n) (hne : T ≠ []) :
    ∀ (fuel : Nat) (G : Nat → Nat → Nat) (c e : Nat), posEdges n G < fuel →
    ∃ r, pathsLoop n S T sch np cn cd tot fuel G c e = .ok r
  | 0, G, c, e, h => by omega
  | fuel + 1, G, c, e, h => by
    rcases topPath_cases n G S T with ⟨-, hbad⟩ | ⟨-, -, hbad⟩ | ⟨p, fl, htp, -, -, -⟩
    · exact absurd ⟨hS, hT⟩ hbad
    · exact absurd hbad hne
    · unfold pathsLoop
      split
      · exact ⟨[], rfl⟩
      rw [htp]
      cases fl with
      | ninf => exact ⟨[], rfl⟩
      | pinf => exact ⟨[], rfl⟩
      | fin f =>
        simp only
        split
        · exact ⟨_, rfl⟩
        · have hspec := topPath_spec n G S T p (Ext.fin f) htp
          obtain ⟨G', hG', -⟩ := removePath_spec sch G p hspec.edges_ne
          obtain ⟨-, hlt⟩ := removed_step n S T sch hspec hG'
          obtain ⟨rest, hrest⟩ := pathsLoop_ok hS hT hne fuel (freeze n G') (c + 1) (e + f)
            (by omega)
          rw [hG']
          simp only
          have : (Mat.ofFn n G').get = freeze n G' := rfl
          rw [this, hrest]
          exact ⟨_, rfl⟩

/-- with an invalid source / sink list the first `top_path` call raises and so does `paths` -/
theorem pathsLoop_err (fuel : Nat) (G : Nat → Nat → Nat) (c e : Nat) (err : Err)
    (hc : countReached np c = false) (h : topPath n G S T = .error err) :
    pathsLoop n S T sch np cn cd tot (fuel + 1) G c e = .error err := by
  unfold pathsLoop
  rw [hc, h]
  rfl

/-- the count limit already reached (only `num_paths = 0` at the start): nothing is searched -/
theorem pathsLoop_reached (fuel : Nat) (G : Nat → Nat → Nat) (c e : Nat)
    (hc : countReached np c = true) :
    pathsLoop n S T sch np cn cd tot (fuel + 1) G c e = .ok [] := by
  unfold pathsLoop
  rw [hc]
  rfl

end

theorem countReached_zero (np : Option Nat) : countReached np 0 = true ↔ np = some 0 := by
  cases np with
  | none => simp [countReached]
  | some N => simp [countReached]

/-- `paths` is its loop once the source indices passed `net_flux[sources, :]` -/
theorem paths_ok_loop {n : Nat} {F : Nat → Nat → Nat} {S T : List Nat} {sch : Scheme}
    {np : Option Nat} {cn : Int} {cd : Nat} {r : List (List Nat × Nat)}
    (h : paths n F S T sch np cn cd = .ok r) :
    (∀ s ∈ S, s < n) ∧
      pathsLoop n S T sch np cn cd (totalFlux n F S) (posEdges n F + 1) F 0 0 = .ok r := by
  unfold paths at h
  split at h
  · cases h
  · next hg =>
    refine ⟨?_, h⟩
    simpa using hg

end Ens.Paths
