import Proofs.C12OptModel
import Mathlib.Tactic.FinCases
import Mathlib.Tactic.NormNum

/-!
# C12 optimality: a concrete fixed point (non-vacuity)

Counts `C = [[1,1],[2,4]]` (not symmetric), `C_rs = (2,6)`.  The state `X = [[1,1],[1,2]]`,
`X_rs = (2,3)` is a fixed point of the sweep over ℝ with `Real.sqrt`: the diagonal updates write
`1·(2−1)/(2−1) = 1` and `4·(3−2)/(6−4) = 2`; for the pair `(0,1)`: `a = 5`, `b = 1`, `c = −6`,
`√(1 + 120) = 11`, `v = (−1 + 11)/10 = 1`.  The estimate is `T = [[1/2,1/2],[1/3,2/3]]`, which
differs from the transpose-symmetrised estimate `[[2/5,3/5],[3/11,8/11]]`.
-/

namespace Ens.C12P
open Ens Ens.Mle

def exCf (i j : Fin 2) : ℝ := if i = 0 then 1 else if j = 0 then 2 else 4
def exXf (i j : Fin 2) : ℝ := if i = 0 then 1 else if j = 0 then 1 else 2
def exC : Mat ℝ 2 := Vector.ofFn fun i => Vector.ofFn fun j => exCf i j
def exCrs : Vec ℝ 2 := Vector.ofFn fun i => if i = 0 then 2 else 6
def exSt : St ℝ 2 :=
  { X := Vector.ofFn fun i => Vector.ofFn fun j => exXf i j
    rs := Vector.ofFn fun i => if i = 0 then 2 else 3 }

theorem exC_get (i j : Fin 2) : mget exC i j = exCf i j := mget_ofFn _ i j
theorem exX_get (i j : Fin 2) : mget exSt.X i j = exXf i j := mget_ofFn _ i j
theorem exCrs_get (i : Fin 2) : vget exCrs i = if i = 0 then 2 else 6 := vget_ofFn _ i
theorem exrs_get (i : Fin 2) : vget exSt.rs i = if i = 0 then 2 else 3 := vget_ofFn _ i

theorem exData : Data exC exCrs := by
  constructor
  · intro i j; rw [exC_get]; unfold exCf; split_ifs <;> norm_num
  · intro i
    rw [exCrs_get, Fin.sum_univ_two, exC_get, exC_get]
    fin_cases i <;> simp [exCf] <;> norm_num

theorem exConn : Conn exC := by
  constructor
  · intro i
    fin_cases i
    · exact ⟨1, by decide, by rw [exC_get]; simp [exCf]⟩
    · exact ⟨0, by decide, by rw [exC_get]; simp [exCf]⟩
  · intro i
    fin_cases i
    · exact ⟨1, by decide, by rw [exC_get]; simp [exCf]⟩
    · exact ⟨0, by decide, by rw [exC_get]; simp [exCf]⟩

theorem exInv : Inv exSt := by
  constructor
  · intro i j; rw [exX_get, exX_get]; fin_cases i <;> fin_cases j <;> simp [exXf]
  · intro i j; rw [exX_get]; unfold exXf; split_ifs <;> norm_num
  · intro i
    rw [exrs_get, Fin.sum_univ_two, exX_get, exX_get]
    fin_cases i <;> simp [exXf] <;> norm_num

theorem exPos : Pos exC exSt := by
  constructor
  · intro i j _ _; rw [exX_get]; unfold exXf; split_ifs <;> norm_num
  · intro i _; rw [exX_get]; unfold exXf; split_ifs <;> norm_num

theorem ex_rs_pos (i : Fin 2) : 0 < vget exSt.rs i := by
  rw [exrs_get]; split_ifs <;> norm_num

theorem sqrt_121 : Real.sqrt 121 = 11 := by
  rw [show (121 : ℝ) = 11 ^ 2 by norm_num]
  exact Real.sqrt_sq (by norm_num)

theorem ex_diag (i : Fin 2) : diagStep exC exCrs exSt i = exSt := by
  apply diagStep_eq_self
  have hden : 0 < vget exCrs i - mget exC i i := exConn.offdiag_pos exData i
  unfold diagStep
  simp only [hden, if_true, mget_mset, and_self]
  simp only [exC_get, exX_get, exCrs_get, exrs_get]
  fin_cases i
  · simp [exCf, exXf]
    norm_num
  · simp [exCf, exXf]
    norm_num

theorem ex_newV (i j : Fin 2) (hij : i ≠ j) :
    newV Real.sqrt exC exCrs exSt i j = mget exSt.X i j := by
  unfold newV coefA coefB coefC
  simp only [exC_get, exX_get, exCrs_get, exrs_get]
  fin_cases i <;> fin_cases j
  · exact absurd rfl hij
  · simp [exCf, exXf]
    norm_num
    rw [sqrt_121]; norm_num
  · simp [exCf, exXf]
    norm_num
    rw [sqrt_121]; norm_num
  · exact absurd rfl hij

/-- the sweep returns the state it was given -/
theorem fixed_example (log : ℝ → ℝ) :
    ∃ q, sweep Real.sqrt log exC exCrs exSt = .ok q ∧ q.1.X = exSt.X := by
  obtain ⟨q, h1, h2⟩ := sweep_gen (sqrt := Real.sqrt) (log := log) (C := exC) (Crs := exCrs)
    (fun s => s = exSt)
    (fun st i h => by subst h; exact ex_diag i)
    (fun st i j h hij => by
      subst h
      exact ⟨exSt, pairStep_eq_self exData exInv hij (ex_newV i j hij), rfl⟩)
    (st := exSt) rfl
  exact ⟨q, h1, by rw [h2]⟩

/-- there is no pair with `a = 0` in the example -/
theorem ex_coefA (i j : Fin 2) (hij : i ≠ j) : coefA exC exCrs i j ≠ 0 := by
  unfold coefA
  simp only [exC_get, exCrs_get]
  fin_cases i <;> fin_cases j
  · exact absurd rfl hij
  · simp [exCf]; norm_num
  · simp [exCf]; norm_num
  · exact absurd rfl hij

end Ens.C12P
