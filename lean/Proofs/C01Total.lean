import Proofs.C01Argmin
/-!
C01 helper lemmas, part 7: the k-centers loop stops within `n` further iterations (so the model's `fuel`
error does not occur and `kcenters_consistent` is never vacuous).
-/
namespace Ens.Cluster

theorem nodup_of_Inj {l : List Nat} (h : Inj l) : l.Nodup := by
  rw [List.nodup_iff_getElem?_ne_getElem?]
  intro i j hij hj he
  have hi : i < l.length := lt_trans hij hj
  have e1 : l[i]? = some l[i] := List.getElem?_eq_getElem hi
  have e2 : l[j]? = some l[i] := by rw [← he]; exact e1
  have := h i j _ e1 e2
  omega

theorem length_le_of_Inj {l : List Nat} {n : Nat} (h : Inj l) (hlt : ∀ c ∈ l, c < n) : l.length ≤ n := by
  have hsub : l ⊆ List.range n := fun c hc => List.mem_range.mpr (hlt c hc)
  have := (List.subperm_of_subset (nodup_of_Inj h) hsub).length_le
  simpa using this

theorem kcentersLoop_total {D : Table} {n : Nat} (T : TableOK D n) (hn : 0 < n)
    {nClusters : Option Nat} {cutoff : Rat} (hc : 0 ≤ cutoff) :
    ∀ (fuel : Nat) {s : St}, KInv D n s → n ≤ fuel + s.ctrInds.length →
      ∃ s', kcentersLoop D n nClusters cutoff fuel s = .ok s' := by
  intro fuel
  induction fuel with
  | zero =>
    intro s hs hfuel
    unfold kcentersLoop
    by_cases hgo : kcentersGoOn n nClusters cutoff s = true
    · have h1 := hs.iter T hn hc hgo
      have := length_le_of_Inj h1.inj h1.inds_lt
      simp [kcentersIter] at this
      omega
    · simp only [hgo]; exact ⟨s, rfl⟩
  | succ k ih =>
    intro s hs hfuel
    unfold kcentersLoop
    by_cases hgo : kcentersGoOn n nClusters cutoff s = true
    · simp only [hgo, if_true]
      have h1 := hs.iter T hn hc hgo
      exact ih h1 (by simp [kcentersIter]; omega)
    · simp only [hgo]; exact ⟨s, rfl⟩

end Ens.Cluster

namespace Ens.Cluster

/-- what `_kmedoids_pam_update` needs from its proposal source to get through one sweep over `k` centers:
an explicit list of `k` frames of the data, or at least `need` recorded random draws -/
def PropsOK (n k : Nat) (props : Option (List Nat)) (orc : List Nat) (need : Nat) : Prop :=
  match props with
  | some ps => ps.length = k ∧ ∀ p ∈ ps, p < n
  | none => need ≤ orc.length

theorem propose_total {D : Table} {n : Nat} {s : St} (hs : Consistent D n s) {cid : Nat}
    (hcid : cid < s.ctrInds.length) {props : Option (List Nat)} {orc : List Nat} {need : Nat}
    (hp : PropsOK n s.ctrInds.length props orc (need + 1)) :
    ∃ p orc', propose n s cid props orc = .ok (p, orc') ∧ PropsOK n s.ctrInds.length props orc' need := by
  unfold propose
  cases props with
  | some ps =>
    obtain ⟨hl, hlt⟩ := hp
    have hc : cid < ps.length := hl ▸ hcid
    have e : ps[cid]? = some ps[cid] := List.getElem?_eq_getElem hc
    simp only [e, hlt _ (List.getElem_mem hc), if_true]
    exact ⟨_, _, rfl, hl, hlt⟩
  | none =>
    simp only [PropsOK] at hp
    cases orc with
    | nil => simp at hp
    | cons o orc' =>
      have hcen : s.ctrInds[cid]? = some s.ctrInds[cid] := List.getElem?_eq_getElem hcid
      have hmem : s.ctrInds[cid] ∈ (List.range n).filter (fun f => decide (s.arr.assign f = (cid : Nat))) := by
        simp only [List.mem_filter, List.mem_range, decide_eq_true_eq]
        exact ⟨hs.inds_lt _ (List.getElem_mem hcid), (hs.own cid _ hcen).1⟩
      have hpos : 0 < ((List.range n).filter (fun f => decide (s.arr.assign f = (cid : Nat)))).length :=
        List.length_pos_of_mem hmem
      have hlt := Nat.mod_lt o hpos
      have hne : ((List.range n).filter (fun f => decide (s.arr.assign f = (cid : Nat)))).isEmpty = false := by
        cases hm : (List.range n).filter (fun f => decide (s.arr.assign f = (cid : Nat))) with
        | nil => rw [hm] at hpos; simp at hpos
        | cons _ _ => rfl
      simp only [hne, Bool.false_eq_true, if_false]
      rw [List.getElem?_eq_getElem hlt]
      refine ⟨_, _, rfl, ?_⟩
      simp only [PropsOK]
      simp at hp; omega

theorem pamLoop_total {D : Table} {n : Nat} (T : TableOK D n) {props : Option (List Nat)} :
    ∀ (cids : List Nat) {s : St} {orc : List Nat} {extra : Nat}, Consistent D n s →
      (∀ c ∈ cids, c < s.ctrInds.length) → PropsOK n s.ctrInds.length props orc (cids.length + extra) →
      ∃ s' orc' tr, pamLoop D n props cids s orc = .ok (s', orc', tr) ∧
        s'.ctrInds.length = s.ctrInds.length ∧ PropsOK n s.ctrInds.length props orc' extra := by
  intro cids
  induction cids with
  | nil =>
    intro s orc extra _ _ hp
    exact ⟨s, orc, [], rfl, rfl, by simpa using hp⟩
  | cons cid rest ih =>
    intro s orc extra hs hc hp
    have hcid := hc cid List.mem_cons_self
    obtain ⟨p, orc1, h1, hp1⟩ := propose_total (need := rest.length + extra) hs hcid
      (by simpa [Nat.add_right_comm] using hp)
    have hpn := propose_lt h1
    obtain ⟨st, h2⟩ := pamStep_total T hs hcid hpn
    have hs1 := pamStep_consistent T hs hcid hpn h2
    have hlen : st.after.ctrInds.length = s.ctrInds.length :=
      (pamStep_shape (k := s.ctrInds.length) ⟨rfl, hs.frames, hs.inds_lt⟩ hpn h2).len
    obtain ⟨s', orc', tr, h3, hl3, hp3⟩ := ih (extra := extra) hs1
      (fun c hc' => by rw [hlen]; exact hc c (List.mem_cons_of_mem _ hc')) (by rw [hlen]; exact hp1)
    refine ⟨s', orc', st :: tr, ?_, by rw [hl3, hlen], by rw [← hlen]; exact hp3⟩
    simp only [pamLoop, bind, Except.bind, h1, h2, h3, pure, Except.pure]

theorem pamUpdate_total {D : Table} {n : Nat} (T : TableOK D n) (hn : 0 < n) {s : St} (hs : Consistent D n s)
    {props : Option (List Nat)} {orc : List Nat} {extra : Nat}
    (hp : PropsOK n s.ctrInds.length props orc (s.ctrInds.length + extra)) :
    ∃ s' orc' tr, pamUpdate D n s props orc = .ok (s', orc', tr) ∧
      s'.ctrInds.length = s.ctrInds.length ∧ PropsOK n s.ctrInds.length props orc' extra := by
  have hne : s.ctrInds ≠ [] := by
    intro e
    obtain ⟨k, c, _, h2, _⟩ := hs.lab 0 hn
    rw [e] at h2; simp at h2
  have hany : (s.ctrInds.any fun c => decide (n ≤ c)) = false := by
    rw [List.any_eq_false]; intro c hc; simpa using hs.inds_lt c hc
  obtain ⟨s', orc', tr, h, hl, hp'⟩ := pamLoop_total T (List.range s.ctrInds.length) (extra := extra)
    hs.resetFrames (fun c hc => by simpa using hc) (by simpa using hp)
  refine ⟨s', orc', tr, ?_, hl, hp'⟩
  unfold pamUpdate
  have h0 : n ≠ 0 := Nat.pos_iff_ne_zero.mp hn
  cases props with
  | none =>
    simp only [bind, Except.bind, h0, if_false, hne, hany, hs.notFresh]
    exact h
  | some ps =>
    have hl' : ps.length = s.ctrInds.length := hp.1
    simp only [bind, Except.bind, h0, if_false, hne, hany, hs.notFresh, hl', ne_eq,
      not_true_eq_false]
    exact h

/-- from a consistent state, with `k` valid explicit proposals or `nIters·k` recorded random draws, all the
sweeps run through (no assert trips, no empty cluster, no index error) -/
theorem sweepsFrom_total {D : Table} {n : Nat} (T : TableOK D n) (hn : 0 < n) {props : Option (List Nat)} :
    ∀ (m : Nat) {s : St} {orc : List Nat}, Consistent D n s →
      PropsOK n s.ctrInds.length props orc (m * s.ctrInds.length) →
      ∃ r, sweepsFrom D n props m s orc = .ok r := by
  intro m
  induction m with
  | zero => intro s orc _ _; exact ⟨_, rfl⟩
  | succ m ih =>
    intro s orc hs hp
    obtain ⟨s', orc', tr, h1, hl, hp'⟩ := pamUpdate_total T hn hs (extra := m * s.ctrInds.length)
      (by rw [Nat.succ_mul, Nat.add_comm] at hp; exact hp)
    have hs' := pamUpdate_consistent T hs h1
    obtain ⟨r, h2⟩ := ih hs' (by rw [hl]; exact hp')
    refine ⟨{ r with trace := tr ++ r.trace, sweeps := s' :: r.sweeps }, ?_⟩
    simp only [sweepsFrom, bind, Except.bind, h1, h2, pure, Except.pure]

end Ens.Cluster
