import Model.Store
/-!
C15, part 1: zero-padded node names sort in row order.

`str(i).zfill(w)` for `i < nrows`, `w = len(str(nrows)) + 1`, is a list of exactly `w` decimal
digit characters whose value is `i`; on equal-length digit strings the lexicographic order on
code points is the numeric order.  Core Lean only.
-/
namespace Ens.Store

open Nat (ofDigitChars toDigits)

/-- value of a digit string -/
def dval (l : List Char) : Nat := ofDigitChars 10 l 0

def AllDigits (l : List Char) : Prop := ∀ c ∈ l, c.isDigit = true

theorem isDigit_iff (c : Char) : c.isDigit = true ↔ 48 ≤ c.toNat ∧ c.toNat ≤ 57 := by
  simp only [Char.isDigit, Bool.and_eq_true, decide_eq_true_eq, Char.toNat, UInt32.le_iff_toNat_le]
  constructor <;> intro h <;> exact ⟨by simpa using h.1, by simpa using h.2⟩

theorem char_lt_iff (a b : Char) : a < b ↔ a.toNat < b.toNat := by
  simp only [Char.lt_def, Char.toNat, UInt32.lt_iff_toNat_lt]

theorem char_eq_of_toNat_eq {a b : Char} (h : a.toNat = b.toNat) : a = b := by
  apply Char.ext
  apply UInt32.toNat_inj.mp
  exact h

theorem allDigits_pyStr (n : Nat) : AllDigits (pyStr n) := fun _ hc =>
  Nat.isDigit_of_mem_toDigits (by decide) (by decide) hc

theorem dval_pyStr (n : Nat) : dval (pyStr n) = n := Nat.ofDigitChars_ten_toDigits

theorem dval_cons (c : Char) (l : List Char) :
    dval (c :: l) = 10 ^ l.length * (c.toNat - 48) + dval l := by
  unfold dval
  rw [Nat.ofDigitChars_cons, Nat.ofDigitChars_eq_ofDigitChars_zero]
  simp

theorem dval_lt_pow : ∀ (l : List Char), AllDigits l → dval l < 10 ^ l.length
  | [], _ => by simp [dval]
  | c :: l, h => by
    have hc := (isDigit_iff c).mp (h c (by simp))
    have ih := dval_lt_pow l (fun d hd => h d (by simp [hd]))
    rw [dval_cons, List.length_cons, Nat.pow_succ]
    have : 10 ^ l.length * (c.toNat - 48) ≤ 10 ^ l.length * 9 := Nat.mul_le_mul_left _ (by omega)
    omega

/-- equal-length digit strings: smaller value ⇒ lexicographically smaller -/
theorem lex_of_dval_lt : ∀ (a b : List Char), AllDigits a → AllDigits b → a.length = b.length →
    dval a < dval b → a < b
  | [], [], _, _, _, h => by simp [dval] at h
  | [], _ :: _, _, _, h, _ => by simp at h
  | _ :: _, [], _, _, h, _ => by simp at h
  | x :: as, y :: bs, ha, hb, hlen, h => by
    have hx := (isDigit_iff x).mp (ha x (by simp))
    have hy := (isDigit_iff y).mp (hb y (by simp))
    have ha' : AllDigits as := fun d hd => ha d (by simp [hd])
    have hb' : AllDigits bs := fun d hd => hb d (by simp [hd])
    have hl : as.length = bs.length := by simpa using hlen
    have ba := dval_lt_pow as ha'
    have bb := dval_lt_pow bs hb'
    rw [dval_cons, dval_cons, hl] at h
    rw [hl] at ba
    rw [List.cons_lt_cons_iff]
    rcases Nat.lt_trichotomy (x.toNat - 48) (y.toNat - 48) with hlt | heq | hgt
    · left; rw [char_lt_iff]; omega
    · right
      refine ⟨char_eq_of_toNat_eq (by omega), ?_⟩
      apply lex_of_dval_lt as bs ha' hb' hl
      rw [heq] at h
      omega
    · exfalso
      have : 10 ^ bs.length * (y.toNat - 48 + 1) ≤ 10 ^ bs.length * (x.toNat - 48) :=
        Nat.mul_le_mul_left _ hgt
      rw [Nat.mul_add, Nat.mul_one] at this
      omega

theorem length_pyStr_mono {i n : Nat} (h : i ≤ n) : (pyStr i).length ≤ (pyStr n).length := by
  unfold pyStr
  have hpos : 0 < (toDigits 10 n).length := Nat.length_toDigits_pos
  have hn : n < 10 ^ (toDigits 10 n).length :=
    (Nat.length_toDigits_le_iff (by decide) hpos).mp (Nat.le_refl _)
  exact (Nat.length_toDigits_le_iff (by decide) hpos).mpr (by omega)

theorem length_zfill (w : Nat) (s : List Char) (h : s.length ≤ w) : (zfill w s).length = w := by
  simp [zfill]; omega

theorem allDigits_zfill (w : Nat) (s : List Char) (h : AllDigits s) : AllDigits (zfill w s) := by
  intro c hc
  simp only [zfill, List.mem_append, List.mem_replicate] at hc
  rcases hc with ⟨_, rfl⟩ | hc
  · decide
  · exact h c hc

theorem dval_zfill (w : Nat) (s : List Char) : dval (zfill w s) = dval s := by
  simp [dval, zfill, Nat.ofDigitChars_append]

/-- the padded index of a row is `w` digits long, `w = nZeros nrows` -/
theorem length_padded {i nrows : Nat} (h : i < nrows) :
    (zfill (nZeros nrows) (pyStr i)).length = nZeros nrows := by
  apply length_zfill
  have := length_pyStr_mono (Nat.le_of_lt h)
  unfold nZeros; omega

theorem keyName_lt_of_lt (tag : Name) {i j nrows : Nat} (hj : j < nrows) (hij : i < j) :
    keyName tag i nrows < keyName tag j nrows := by
  unfold keyName keyNameW
  apply List.append_left_lt
  rw [List.cons_lt_cons_iff]
  right
  refine ⟨rfl, ?_⟩
  apply lex_of_dval_lt
  · exact allDigits_zfill _ _ (allDigits_pyStr i)
  · exact allDigits_zfill _ _ (allDigits_pyStr j)
  · rw [length_padded (Nat.lt_trans hij hj), length_padded hj]
  · rw [dval_zfill, dval_zfill, dval_pyStr, dval_pyStr]; exact hij

/-- **zfill order**: among the rows of one array, names compare as the row numbers do. -/
theorem keyName_lt_iff (tag : Name) {i j nrows : Nat} (hi : i < nrows) (hj : j < nrows) :
    keyName tag i nrows < keyName tag j nrows ↔ i < j := by
  constructor
  · intro h
    rcases Nat.lt_trichotomy i j with hlt | heq | hgt
    · exact hlt
    · subst heq; exact absurd h (List.lt_irrefl _)
    · exact absurd h (List.lt_asymm (keyName_lt_of_lt tag hi hgt))
  · exact keyName_lt_of_lt tag hj

theorem keyName_injective (tag : Name) {i j nrows : Nat} (hi : i < nrows) (hj : j < nrows)
    (h : keyName tag i nrows = keyName tag j nrows) : i = j := by
  rcases Nat.lt_trichotomy i j with hlt | heq | hgt
  · have := keyName_lt_of_lt tag hj hlt
    rw [h] at this; exact absurd this (List.lt_irrefl _)
  · exact heq
  · have := keyName_lt_of_lt tag hi hgt
    rw [h] at this; exact absurd this (List.lt_irrefl _)

/-- the names `save` creates, in creation order -/
def rowNames (tag : Name) (nrows : Nat) : List Name := (List.range nrows).map fun i => keyName tag i nrows

theorem rowNames_pairwise_lt (tag : Name) (nrows : Nat) : (rowNames tag nrows).Pairwise (· < ·) := by
  unfold rowNames
  rw [List.pairwise_map]
  have h : (List.range nrows).Pairwise (· < ·) := List.pairwise_lt_range
  refine List.Pairwise.imp_of_mem ?_ h
  intro a b _ hb hab
  exact keyName_lt_of_lt tag (List.mem_range.mp hb) hab

theorem rowNames_nodup (tag : Name) (nrows : Nat) : (rowNames tag nrows).Nodup := by
  refine (rowNames_pairwise_lt tag nrows).imp ?_
  intro a b hab heq
  subst heq
  exact List.lt_irrefl _ hab

theorem name_le_trans (a b c : Name) : decide (a ≤ b) = true → decide (b ≤ c) = true → decide (a ≤ c) = true := by
  simp only [decide_eq_true_eq]
  exact List.le_trans

theorem name_le_total (a b : Name) : (decide (a ≤ b) || decide (b ≤ a)) = true := by
  simp only [Bool.or_eq_true, decide_eq_true_eq]
  exact List.le_total a b

/-- a strictly increasing list of names is the unique sorted arrangement of its elements -/
theorem listNodes_of_perm_sorted {l t : List Name} (ht : t.Pairwise (· < ·)) (hp : l.Perm t) :
    listNodes l = t := by
  unfold listNodes
  have hs := List.pairwise_mergeSort (le := fun a b => decide (a ≤ b)) name_le_trans name_le_total l
  have ht' : t.Pairwise (fun a b => decide (a ≤ b) = true) := by
    refine ht.imp ?_
    intro a b hab
    simp only [decide_eq_true_eq]
    exact List.le_of_lt hab
  refine List.Perm.eq_of_pairwise (le := fun a b => decide (a ≤ b) = true) ?_ hs ht' ((List.mergeSort_perm l _).trans hp)
  intro a b _ _ hab hba
  simp only [decide_eq_true_eq] at hab hba
  exact List.le_antisymm hab hba

/-- **listed order is row order**: whatever order the nodes are stored in, listing them
returns `key 0, key 1, …, key (nrows-1)`. -/
theorem listNodes_rowNames (tag : Name) (nrows : Nat) (l : List Name) (hp : l.Perm (rowNames tag nrows)) :
    listNodes l = rowNames tag nrows :=
  listNodes_of_perm_sorted (rowNames_pairwise_lt tag nrows) hp

end Ens.Store
