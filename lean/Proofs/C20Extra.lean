import Proofs.C20Hyst
/-!
C20, part 5: the specification automaton is deterministic; with a zero buffer the automaton is
plain binning; whole-function statements about `rotamers`; helpers for the concrete examples.
-/
namespace Ens.Rotamer

/-- hypotheses on one angle sequence (the property's quantifier) -/
def AnglesOK (hb : List Rat) (b : Rat) (angles : List Rat) : Prop :=
  ∀ a ∈ angles, 0 ≤ a ∧ a < 360 ∧ AvoidsGates hb b a

theorem specStep_det {hb : List Rat} (hs : hb.Pairwise (· < ·)) {b a : Rat} {s s1 s2 : Nat}
    (h1 : SpecStep hb b s a s1) (h2 : SpecStep hb b s a s2) : s1 = s2 := by
  by_cases hin : InWidened hb b s a
  · rw [h1.1 hin, h2.1 hin]
  · exact isBasin_unique hs (h1.2 hin) (h2.2 hin)

theorem specFrom_det {hb : List Rat} (hs : hb.Pairwise (· < ·)) {b : Rat} (as : List Rat) :
    ∀ {s : Nat} {l1 l2 : List Nat}, SpecFrom hb b s as l1 → SpecFrom hb b s as l2 → l1 = l2 := by
  induction as with
  | nil =>
    intro s l1 l2 h1 h2
    cases l1 <;> cases l2 <;> simp_all [SpecFrom]
  | cons a as ih =>
    intro s l1 l2 h1 h2
    cases l1 with
    | nil => simp [SpecFrom] at h1
    | cons x1 t1 =>
      cases l2 with
      | nil => simp [SpecFrom] at h2
      | cons x2 t2 =>
        simp only [SpecFrom] at h1 h2
        have e := specStep_det hs h1.1 h2.1
        subst e
        rw [ih h1.2 h2.2]

theorem specRun_det {hb : List Rat} (hs : hb.Pairwise (· < ·)) {b : Rat} {angles : List Rat}
    {l1 l2 : List Nat} (h1 : SpecRun hb b angles l1) (h2 : SpecRun hb b angles l2) : l1 = l2 := by
  cases angles with
  | nil => simp [SpecRun] at h1
  | cons a0 as =>
    cases l1 with
    | nil => simp [SpecRun] at h1
    | cons x1 t1 =>
      cases l2 with
      | nil => simp [SpecRun] at h2
      | cons x2 t2 =>
        simp only [SpecRun] at h1 h2
        have e := isBasin_unique hs h1.1 h2.1
        subst e
        rw [specFrom_det hs as h1.2 h2.2]

/-- the whole function refines the automaton -/
theorem rotamers_spec {hb : List Rat} {b : Rat} (hg : GoodSet hb = true) (hacc : Accepted hb b)
    (hns : NoSelfWrap hb b) {angles : List Rat} (hne : angles ≠ []) (hok : AnglesOK hb b angles) :
    ∃ states : List Nat, rotamers angles hb b = .ok (states.map Int.ofNat) ∧
      SpecRun hb b angles states ∧ ∀ t ∈ states, t + 1 < hb.length := by
  obtain ⟨_, hh, hl, _, _⟩ := goodSet_iff.1 hg
  cases angles with
  | nil => exact absurd rfl hne
  | cons a0 rest =>
    obtain ⟨h0, h1, _⟩ := hok a0 (by simp)
    obtain ⟨i, e0, hi⟩ := firstFrame_isBasin hh hl h0 h1
    obtain ⟨ss, e1, sp, hv⟩ := loop_spec hg hacc hns rest (fun x hx => hok x (by simp [hx]))
      (isBasin_lt_length hi)
    refine ⟨i :: ss, ?_, ⟨hi, sp⟩, ?_⟩
    · unfold rotamers
      simp only [validate_ok hg hacc, e0, e1, bind, Except.bind, pure, Except.pure]
      rfl
    · intro t ht
      rcases List.mem_cons.1 ht with rfl | ht
      · exact isBasin_lt_length hi
      · exact hv t ht

/-- validity of every state for every accepted buffer (no gate hypothesis, no `NoSelfWrap`) -/
theorem rotamers_valid {hb : List Rat} {b : Rat} (hg : GoodSet hb = true) (hacc : Accepted hb b)
    {angles : List Rat} (hne : angles ≠ []) (hok : ∀ a ∈ angles, 0 ≤ a ∧ a < 360) :
    ∃ states : List Nat, rotamers angles hb b = .ok (states.map Int.ofNat) ∧
      states.length = angles.length ∧ ∀ t ∈ states, t + 1 < hb.length := by
  obtain ⟨_, hh, hl, _, _⟩ := goodSet_iff.1 hg
  cases angles with
  | nil => exact absurd rfl hne
  | cons a0 rest =>
    obtain ⟨h0, h1⟩ := hok a0 (by simp)
    obtain ⟨i, e0, hi⟩ := firstFrame_isBasin hh hl h0 h1
    obtain ⟨ss, e1, hlen, hv⟩ := loop_valid (b := b) hg rest (fun x hx => hok x (by simp [hx]))
      (isBasin_lt_length hi)
    refine ⟨i :: ss, ?_, by simp [hlen], ?_⟩
    · unfold rotamers
      simp only [validate_ok hg hacc, e0, e1, bind, Except.bind, pure, Except.pure]
      rfl
    · intro t ht
      rcases List.mem_cons.1 ht with rfl | ht
      · exact isBasin_lt_length hi
      · exact hv t ht

/-- whatever follows, a successful run starts in the basin that contains the first angle -/
theorem rotamers_first {hb : List Rat} {b a0 : Rat} {rest : List Rat} {s0 : Int} {tl : List Int}
    (hg : GoodSet hb = true) (h0 : 0 ≤ a0) (h1 : a0 < 360)
    (h : rotamers (a0 :: rest) hb b = .ok (s0 :: tl)) :
    ∃ i : Nat, s0 = (i : Int) ∧ IsBasin hb i a0 := by
  obtain ⟨_, hh, hl, _, _⟩ := goodSet_iff.1 hg
  obtain ⟨i, e0, hi⟩ := firstFrame_isBasin hh hl h0 h1
  refine ⟨i, ?_, hi⟩
  unfold rotamers at h
  cases hv : validate hb b with
  | error e => simp [hv, bind, Except.bind] at h
  | ok u =>
    cases hlp : loop hb b (firstFrame a0 hb) rest with
    | error e => simp [hv, hlp, bind, Except.bind] at h
    | ok l =>
      simp [hv, hlp, bind, Except.bind, pure, Except.pure] at h
      rw [← h.1, e0]

/-- the argument validation: a buffer outside `[0, 360 / n_basins)` is rejected -/
theorem rotamers_rejects {hb : List Rat} {b : Rat} (angles : List Rat) (h2 : 2 ≤ hb.length)
    (hbad : b < 0 ∨ b ≥ 360 / (((hb.length : Int) - 1 : Int) : Rat)) :
    rotamers angles hb b = .error .dataInvalid := by
  unfold rotamers validate
  have hn : ¬ ((hb.length : Int) - 1 = 0) := by omega
  simp only [hn, if_false, bind, Except.bind, pure, Except.pure]
  rw [if_pos hbad]
  rfl

/-! zero buffer -/

theorem inWidened_zero_isBasin {hb : List Rat} (hg : GoodSet hb = true) {s : Nat} {a : Rat}
    (ha0 : 0 ≤ a) (ha : a < 360) (hav : AvoidsGates hb 0 a) (h : InWidened hb 0 s a) :
    IsBasin hb s a := by
  obtain ⟨lo, hi, h1, h2, k, hk1, hk2⟩ := h
  have bf := basinFacts hg h1 h2
  have g := hav hi bf.hi_mem
  refine ⟨lo, hi, h1, h2, ?_, ?_⟩
  · rcases int_tri k with hk | hk | hk
    · have := bf.lo_nonneg; linarith
    · subst hk; push_cast at hk1; linarith
    · exfalso
      apply (g k).2
      apply le_antisymm (by linarith)
      have := bf.hi_le
      linarith
  · rcases int_tri k with hk | hk | hk
    · have := bf.lo_nonneg; linarith
    · subst hk
      have e := (g 0).2
      push_cast at hk2 e
      exact lt_of_le_of_ne (by linarith) (fun hh => e (by linarith))
    · exfalso
      apply (g k).2
      apply le_antisymm (by linarith)
      have := bf.hi_le
      linarith

theorem specFrom_zero_binning {hb : List Rat} (hg : GoodSet hb = true) (as : List Rat)
    (hok : AnglesOK hb 0 as) :
    ∀ {s : Nat} {ss : List Nat}, SpecFrom hb 0 s as ss →
      ∀ (n : Nat) (a : Rat) (t : Nat), as[n]? = some a → ss[n]? = some t → IsBasin hb t a := by
  induction as with
  | nil =>
    intro s ss _ n a t h
    simp at h
  | cons x xs ih =>
    intro s ss h n a t h1 h2
    cases ss with
    | nil => simp [SpecFrom] at h
    | cons y ys =>
      simp only [SpecFrom] at h
      obtain ⟨x0, x1, xav⟩ := hok x (by simp)
      cases n with
      | zero =>
        simp at h1 h2
        subst h1; subst h2
        by_cases hin : InWidened hb 0 s x
        · rw [h.1.1 hin]
          exact inWidened_zero_isBasin hg x0 x1 xav hin
        · exact h.1.2 hin
      | succ n =>
        simp at h1 h2
        exact ih (fun z hz => hok z (by simp [hz])) h.2 n a t h1 h2

theorem specRun_zero_binning {hb : List Rat} (hg : GoodSet hb = true) {angles : List Rat}
    (hok : AnglesOK hb 0 angles) {states : List Nat} (h : SpecRun hb 0 angles states) :
    ∀ (n : Nat) (a : Rat) (t : Nat), angles[n]? = some a → states[n]? = some t → IsBasin hb t a := by
  cases angles with
  | nil => simp [SpecRun] at h
  | cons a0 rest =>
    cases states with
    | nil => simp [SpecRun] at h
    | cons s0 ss =>
      simp only [SpecRun] at h
      intro n a t h1 h2
      cases n with
      | zero =>
        simp at h1 h2
        subst h1; subst h2
        exact h.1
      | succ n =>
        simp at h1 h2
        exact specFrom_zero_binning hg rest (fun z hz => hok z (by simp [hz])) h.2 n a t h1 h2

theorem specFrom_length {hb : List Rat} {b : Rat} (as : List Rat) :
    ∀ {s : Nat} {ss : List Nat}, SpecFrom hb b s as ss → ss.length = as.length := by
  induction as with
  | nil => intro s ss h; cases ss <;> simp_all [SpecFrom]
  | cons x xs ih =>
    intro s ss h
    cases ss with
    | nil => simp [SpecFrom] at h
    | cons y ys => simp only [SpecFrom] at h; simp [ih h.2]

theorem specRun_length {hb : List Rat} {b : Rat} {angles : List Rat} {states : List Nat}
    (h : SpecRun hb b angles states) : states.length = angles.length := by
  cases angles with
  | nil => simp [SpecRun] at h
  | cons a0 rest =>
    cases states with
    | nil => simp [SpecRun] at h
    | cons s0 ss => simp only [SpecRun] at h; simp [specFrom_length rest h.2]

theorem accepted_zero {hb : List Rat} (hg : GoodSet hb = true) : Accepted hb 0 := by
  obtain ⟨_, _, _, h3, _⟩ := goodSet_iff.1 hg
  refine ⟨le_refl _, ?_⟩
  apply div_pos (by norm_num)
  have : (0 : Int) < (hb.length : Int) - 1 := by omega
  exact_mod_cast this

theorem noSelfWrap_zero {hb : List Rat} (hg : GoodSet hb = true) : NoSelfWrap hb 0 := by
  intro i lo hi h1 h2
  have bf := basinFacts hg h1 h2
  have := bf.lo_nonneg
  have := bf.hi_le
  linarith

/-! helper for concrete examples: an angle with a proper quarter part avoids all gates of integer
boundaries and an integer buffer -/
theorem avoidsGates_quarter {hb : List Rat} {b a : Rat} (n : Int) (ha : a = (n : Rat) / 4)
    (hn : n % 4 ≠ 0) (hbi : ∃ m : Int, b = (m : Rat)) (hvi : ∀ v ∈ hb, ∃ m : Int, v = (m : Rat)) :
    AvoidsGates hb b a := by
  obtain ⟨mb, rfl⟩ := hbi
  intro v hv k
  obtain ⟨mv, rfl⟩ := hvi v hv
  subst ha
  constructor
  · intro h
    have h' : (n : Rat) = 4 * ((mv : Rat) - (mb : Rat) - 360 * (k : Rat)) := by linarith
    have h'' : n = 4 * (mv - mb - 360 * k) := by exact_mod_cast h'
    omega
  · intro h
    have h' : (n : Rat) = 4 * ((mv : Rat) + (mb : Rat) - 360 * (k : Rat)) := by linarith
    have h'' : n = 4 * (mv + mb - 360 * k) := by exact_mod_cast h'
    omega

theorem anglesOK_quarter {hb : List Rat} {b : Rat} {angles : List Rat} (hbi : ∃ m : Int, b = (m : Rat))
    (hvi : ∀ v ∈ hb, ∃ m : Int, v = (m : Rat))
    (h : ∀ a ∈ angles, ∃ n : Int, a = (n : Rat) / 4 ∧ n % 4 ≠ 0 ∧ 0 ≤ n ∧ n < 1440) :
    AnglesOK hb b angles := by
  intro a ha
  obtain ⟨n, rfl, h4, h0, h1⟩ := h a ha
  have h0' : (0 : Rat) ≤ (n : Rat) := by exact_mod_cast h0
  have h1' : (n : Rat) < 1440 := by exact_mod_cast h1
  exact ⟨by linarith, by linarith, avoidsGates_quarter n rfl h4 hbi hvi⟩

/-- integer angle, integer buffer, integer boundaries: gate avoidance is a congruence condition -/
theorem avoidsGates_int {hb : List Rat} {b a : Rat} (n mb : Int) (ha : a = (n : Rat)) (hbb : b = (mb : Rat))
    (h : ∀ v ∈ hb, ∃ mv : Int, v = (mv : Rat) ∧ (n - mv + mb) % 360 ≠ 0 ∧ (n - mv - mb) % 360 ≠ 0) :
    AvoidsGates hb b a := by
  subst ha; subst hbb
  intro v hv k
  obtain ⟨mv, rfl, h1, h2⟩ := h v hv
  constructor
  · intro hh
    have : n + 360 * k = mv - mb := by exact_mod_cast hh
    omega
  · intro hh
    have : n + 360 * k = mv + mb := by exact_mod_cast hh
    omega

end Ens.Rotamer
