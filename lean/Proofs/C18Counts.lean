import Model.Info
import Proofs.Sched
/-!
Counting lemmas for `Model.Info.matrixBincount2d` (core Lean only).
-/
namespace Ens.Info
open Ens.Sched

/-- the property's own words: the number of frames `t` with `a[t,x] = i` and `b[t,y] = j` -/
def frameCount (a b : Arr) (x y : Nat) (i j : Int) : Nat :=
  (List.range a.T).countP fun t => a.get t x = i ∧ b.get t y = j

theorem runSteps_nil {α} (s : α) : runSteps ([] : List (α → α)) s = s := rfl
theorem runSteps_cons {α} (f : α → α) (fs : List (α → α)) (s : α) :
    runSteps (f :: fs) s = runSteps fs (f s) := rfl
theorem runSteps_append {α} (l₁ l₂ : List (α → α)) (s : α) :
    runSteps (l₁ ++ l₂) s = runSteps l₂ (runSteps l₁ s) := by
  simp [runSteps, List.foldl_append]

/-- a list of `+= 1` steps adds, to every cell, the number of times the cell is named -/
theorem runSteps_bump (ws : List (Nat × Int × Int)) (s : Slab) (y : Nat) (i j : Int) :
    runSteps (ws.map fun w => bumpS w.1 w.2.1 w.2.2) s y i j = s y i j + ws.count (y, i, j) := by
  induction ws generalizing s with
  | nil => simp [runSteps_nil]
  | cons w ws ih =>
    rw [List.map_cons, runSteps_cons, ih, List.count_cons]
    obtain ⟨wy, wi, wj⟩ := w
    by_cases h : y = wy ∧ i = wi ∧ j = wj
    · obtain ⟨rfl, rfl, rfl⟩ := h
      simp [bumpS]; omega
    · have h2 : ¬ ((wy, wi, wj) = (y, i, j)) := by
        intro e; apply h; cases e; exact ⟨rfl, rfl, rfl⟩
      have h3 : ((wy, wi, wj) == (y, i, j)) = false := by simpa using h2
      simp [bumpS, h, h3]

theorem count_inner (y' : Nat) (f g : Nat → Int) (T : Nat) (y : Nat) (i j : Int) :
    ((List.range T).map fun t => (y', f t, g t)).count (y, i, j)
      = if y' = y then (List.range T).countP (fun t => f t = i ∧ g t = j) else 0 := by
  induction T with
  | zero => simp
  | succ n ih =>
    rw [List.range_succ, List.map_append, List.count_append, ih, List.countP_append]
    by_cases h : y' = y
    · subst h
      by_cases h2 : f n = i ∧ g n = j
      · simp [h2]
      · have : ¬ ((y', f n, g n) = (y', i, j)) := by
          intro e; apply h2; cases e; exact ⟨rfl, rfl⟩
        simp [this, h2]
    · have : ¬ ((y', f n, g n) = (y, i, j)) := by
        intro e; apply h; cases e; rfl
      simp [h, this]

theorem count_writesOf_aux (a b : Arr) (x n : Nat) (y : Nat) (i j : Int) :
    ((List.range n).flatMap fun y' => (List.range a.T).map fun t => (y', a.get t x, b.get t y')).count (y, i, j)
      = if y < n then frameCount a b x y i j else 0 := by
  induction n with
  | zero => simp
  | succ n ih =>
    rw [List.range_succ, List.flatMap_append, List.count_append, ih]
    simp only [List.flatMap_cons, List.flatMap_nil, List.append_nil]
    rw [count_inner]
    by_cases h1 : y < n
    · have : ¬ n = y := by omega
      have : y < n + 1 := by omega
      simp [*]
    · by_cases h2 : n = y
      · subst h2; simp [frameCount]
      · have : ¬ y < n + 1 := by omega
        simp [*]

theorem count_writesOf (a b : Arr) (x y : Nat) (i j : Int) :
    (writesOf a b x).count (y, i, j) = if y < b.F then frameCount a b x y i j else 0 :=
  count_writesOf_aux a b x b.F y i j

theorem progOf_progs (a b : Arr) (x : Nat) :
    progOf (progs a b) x = if x < a.F then program a b x else [] := by
  unfold progOf progs
  by_cases h : x < a.F
  · simp [h, List.getD]
  · simp [h, List.getD]

/-- what ANY interleaving of the prange iterations leaves in cell `(x, y, i, j)` -/
theorem run_interleaving_count (a b : Arr) (e : Exec Slab) (h : IsInterleaving (progs a b) e)
    (x y : Nat) (i j : Int) :
    run e (fun _ => zeroSlab) x y i j
      = if x < a.F ∧ y < b.F then frameCount a b x y i j else 0 := by
  rw [run_of_interleaving (progs a b) e _ h x, progOf_progs]
  by_cases hx : x < a.F
  · simp only [hx, if_true, program, true_and]
    rw [runSteps_bump, count_writesOf]; simp [zeroSlab]
  · simp [hx, runSteps_nil, zeroSlab]

end Ens.Info
