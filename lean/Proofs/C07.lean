import Proofs.C07Basic
/-!
C07 core lemmas in `Finset.sum` form: first-step equations of committors and MFPTs from the
solver contracts, the discrete maximum principle, the fundamental-matrix identity.
-/
open Finset

namespace Ens.Tpt
open LinSolveT

/-! ### committors -/

section committor
variable {n : Nat} {T : Mat} {sources sinks : List Nat} {B : Mat}

/-- on absorbing rows `B = R` -/
theorem B_source_row (hB : CommittorSolve n T sources sinks B) {s k : Nat}
    (hs : s ∈ sources) (hsn : s < n) (hk : k < sinks.length) : B s k = 0 := by
  have := sol_abs_row hB hsn (List.mem_append_left _ hs) hk
  rw [this]; simp [Rmat, setRows, hs]

theorem B_sink_row (hB : CommittorSolve n T sources sinks B) {s k : Nat}
    (hs : s ∈ sinks) (hns : s ∉ sources) (hsn : s < n) (hk : k < sinks.length) : B s k = 1 := by
  have := sol_abs_row hB hsn (List.mem_append_right _ hs) hk
  rw [this]; simp [Rmat, setRows, hs, hns]

/-- What the row sum of `B` means at a sink: `R[sinks] = 1.0` fills whole rows, so the row sum
is the NUMBER of sinks, not 1 — this is why `committors[sinks] = 1.0` is needed. -/
theorem rowSums_sink (hB : CommittorSolve n T sources sinks B) {s : Nat}
    (hs : s ∈ sinks) (hns : s ∉ sources) (hsn : s < n) :
    rowSums B sinks.length s = sinks.length := by
  unfold rowSums
  rw [sumTo_eq_sum, sum_congr rfl (fun k hk => B_sink_row hB hs hns hsn (mem_range.1 hk))]
  simp

theorem rowSums_source (hB : CommittorSolve n T sources sinks B) {s : Nat}
    (hs : s ∈ sources) (hsn : s < n) : rowSums B sinks.length s = 0 := by
  unfold rowSums
  rw [sumTo_eq_sum, sum_congr rfl (fun k hk => B_source_row hB hs hsn (mem_range.1 hk))]
  simp

/-- summed over the sink columns, a free row reads
`q̃ i − Σ_{j ∉ abs} T i j q̃ j = Σ_{s ∈ sinks} T i s` -/
theorem rowSums_free (hB : CommittorSolve n T sources sinks B)
    (hsnk : ∀ s ∈ sinks, s < n) (hnd : sinks.Nodup) {i : Nat} (hi : i < n)
    (h1 : i ∉ sources) (h2 : i ∉ sinks) :
    rowSums B sinks.length i
      - ∑ j ∈ range n, (if j ∈ sources ++ sinks then 0 else T i j * rowSums B sinks.length j)
      = ∑ j ∈ range n, (if j ∈ sinks then T i j else 0) := by
  have hfree : i ∉ sources ++ sinks := by simp [h1, h2]
  have hk : ∀ k ∈ range sinks.length,
      B i k - ∑ j ∈ range n, (if j ∈ sources ++ sinks then 0 else T i j * B j k)
        = T i (sinks.getD k 0) := by
    intro k hk
    rw [sol_free_row hB hi hfree (mem_range.1 hk)]
    simp [Rmat, setRows, pickCols, h1, h2]
  rw [← sum_pick n (fun j => T i j) sinks hnd hsnk, ← sum_congr rfl hk, sum_sub_distrib]
  unfold rowSums
  simp only [sumTo_eq_sum]
  congr 1
  rw [sum_comm]
  refine sum_congr rfl fun j _ => ?_
  by_cases hj : j ∈ sources ++ sinks
  · simp [hj]
  · simp only [hj, if_false, mul_sum]

theorem committor_first_step_fin
    (hsrc : ∀ s ∈ sources, s < n) (hsnk : ∀ s ∈ sinks, s < n)
    (hdisj : ∀ s ∈ sources, s ∉ sinks) (hnd : sinks.Nodup)
    (hB : CommittorSolve n T sources sinks B) :
    (∀ s ∈ sources, committorsFrom B sinks s = 0) ∧
    (∀ s ∈ sinks, committorsFrom B sinks s = 1) ∧
    (∀ i, i < n → i ∉ sources → i ∉ sinks →
      committorsFrom B sinks i = ∑ j ∈ range n, T i j * committorsFrom B sinks j) := by
  refine ⟨?_, ?_, ?_⟩
  · intro s hs
    simp [committorsFrom, hdisj s hs, rowSums_source hB hs (hsrc s hs)]
  · intro s hs
    simp [committorsFrom, hs]
  · intro i hi h1 h2
    have key := rowSums_free hB hsnk hnd hi h1 h2
    have e : ∀ j ∈ range n, T i j * committorsFrom B sinks j
        = (if j ∈ sources ++ sinks then 0 else T i j * rowSums B sinks.length j)
          + (if j ∈ sinks then T i j else 0) := by
      intro j hj
      by_cases hjs : j ∈ sinks
      · simp [committorsFrom, hjs]
      · by_cases hjo : j ∈ sources
        · simp [committorsFrom, hjs, hjo, rowSums_source hB hjo (mem_range.1 hj)]
        · simp [committorsFrom, hjs, hjo]
    rw [sum_congr rfl e, sum_add_distrib, ← key]
    simp [committorsFrom, h2]

end committor

/-! ### discrete maximum principle -/

theorem harmonic_le {n : Nat} {T : Mat} {A : List Nat} {q : Vec} {c : Rat}
    (hnn : ∀ i, i < n → ∀ j, j < n → 0 ≤ T i j)
    (hrow : ∀ i, i < n → ∑ j ∈ range n, T i j = 1)
    (hreach : ∀ i, i < n → Reach n T A i)
    (hA : ∀ a ∈ A, q a ≤ c)
    (hharm : ∀ i, i < n → i ∉ A → q i = ∑ j ∈ range n, T i j * q j) :
    ∀ i, i < n → q i ≤ c := by
  intro i0 hi0
  have hne : (range n).Nonempty := ⟨i0, mem_range.2 hi0⟩
  obtain ⟨im, him, hmax⟩ := exists_max_image (range n) q hne
  have him' := mem_range.1 him
  by_contra hcon
  have hcM : c < q im := lt_of_lt_of_le (not_le.1 hcon) (hmax i0 (mem_range.2 hi0))
  have claim : ∀ i, Reach n T A i → i < n → q i < q im := by
    intro i hr
    induction hr with
    | base ha => intro _; exact lt_of_le_of_lt (hA _ ha) hcM
    | @step i j hj hpos _ ih =>
      intro hi
      by_cases hiA : i ∈ A
      · exact lt_of_le_of_lt (hA _ hiA) hcM
      · have hq := hharm i hi hiA
        have hpos' : 0 < ∑ k ∈ range n, T i k * (q im - q k) := by
          apply sum_pos'
          · intro k hk
            exact mul_nonneg (hnn i hi k (mem_range.1 hk)) (sub_nonneg.2 (hmax k hk))
          · exact ⟨j, mem_range.2 hj, mul_pos hpos (sub_pos.2 (ih hj))⟩
        have e : ∑ k ∈ range n, T i k * (q im - q k) = q im - q i := by
          simp only [mul_sub, sum_sub_distrib, ← sum_mul, hrow i hi, one_mul, ← hq]
        linarith
  exact lt_irrefl _ (claim im (hreach im him') him')

theorem harmonic_ge {n : Nat} {T : Mat} {A : List Nat} {q : Vec} {c : Rat}
    (hnn : ∀ i, i < n → ∀ j, j < n → 0 ≤ T i j)
    (hrow : ∀ i, i < n → ∑ j ∈ range n, T i j = 1)
    (hreach : ∀ i, i < n → Reach n T A i)
    (hA : ∀ a ∈ A, c ≤ q a)
    (hharm : ∀ i, i < n → i ∉ A → q i = ∑ j ∈ range n, T i j * q j) :
    ∀ i, i < n → c ≤ q i := by
  intro i hi
  have := harmonic_le (q := fun i => - q i) (c := -c) hnn hrow hreach
    (fun a ha => neg_le_neg (hA a ha))
    (fun i hi hiA => by simp only [mul_neg, sum_neg_distrib, neg_inj]; exact hharm i hi hiA) i hi
  linarith

/-! ### mean first-passage times to a sink set -/

theorem mfpt_sinks_fin {n : Nat} {T : Mat} {sinks : List Nat} {t : Vec} (lag : Rat)
    (hsnk : ∀ s ∈ sinks, s < n) (ht : MfptSolve n T sinks t) :
    (∀ s ∈ sinks, mfptSinksFrom lag t s = 0) ∧
    (∀ i, i < n → i ∉ sinks →
      mfptSinksFrom lag t i = lag + ∑ j ∈ range n, T i j * mfptSinksFrom lag t j) := by
  have hz : ∀ s ∈ sinks, t s = 0 := by
    intro s hs
    have := sol_abs_row ht (hsnk s hs) hs Nat.zero_lt_one
    simpa [cVec, hs] using this
  refine ⟨fun s hs => by simp [mfptSinksFrom, hz s hs], ?_⟩
  intro i hi his
  have := sol_free_row ht hi his Nat.zero_lt_one
  simp only [cVec, his, if_false] at this
  have e : ∀ j ∈ range n, (if j ∈ sinks then (0 : Rat) else T i j * t j) = T i j * t j := by
    intro j _
    by_cases hj : j ∈ sinks <;> simp [hj, hz]
  rw [sum_congr rfl e] at this
  have e2 : ∑ j ∈ range n, T i j * mfptSinksFrom lag t j = lag * ∑ j ∈ range n, T i j * t j := by
    rw [mul_sum]; exact sum_congr rfl fun j _ => by simp only [mfptSinksFrom]; ring
  rw [e2]
  simp only [mfptSinksFrom]
  linear_combination lag * this

/-! ### all-pairs table from the fundamental matrix -/

section allpairs
variable {n : Nat} {T : Mat} {π : Vec} {Z : Mat}

/-- `π (I − T + W) = π` and `(I − T + W) Z = 1` give `π Z = π` -/
theorem pi_Z (hrowless : ∀ j, j < n → ∑ i ∈ range n, π i * T i j = π j)
    (hsum : ∑ i ∈ range n, π i = 1) (hZ : FundInv n T π Z) {k : Nat} (hk : k < n) :
    ∑ j ∈ range n, π j * Z j k = π k := by
  have hZ' := (isSolution_iff _ _ _ _ _).1 hZ
  have h1 : ∑ i ∈ range n, π i * (∑ j ∈ range n, fundA T π i j * Z j k) = π k := by
    rw [sum_congr rfl (fun i hi => by rw [hZ' i (mem_range.1 hi) k hk])]
    simp only [eye, mul_ite, mul_one, mul_zero]
    rw [sum_ite_eq']; simp [hk]
  rw [← h1]
  simp only [mul_sum]
  rw [sum_comm]
  refine sum_congr rfl fun j hj => ?_
  have hj' := mem_range.1 hj
  have : ∑ i ∈ range n, π i * fundA T π i j = π j := by
    have e : ∀ i ∈ range n, π i * fundA T π i j
        = (if j = i then π i else 0) - π i * T i j + π i * π j := by
      intro i _
      unfold fundA eyeMinus Wmat
      by_cases h : i = j
      · subst h; simp; ring
      · have : j ≠ i := fun e => h e.symm
        simp [h, this]; ring
    rw [sum_congr rfl e, sum_add_distrib, sum_sub_distrib, sum_ite_eq, ← sum_mul, hsum,
      hrowless j hj']
    simp [hj']
  rw [← this, sum_mul]
  exact sum_congr rfl fun i _ => by ring

/-- `Z − T Z = 1 − W` entrywise -/
theorem Z_sub_TZ (hrowless : ∀ j, j < n → ∑ i ∈ range n, π i * T i j = π j)
    (hsum : ∑ i ∈ range n, π i = 1) (hZ : FundInv n T π Z) {i k : Nat} (hi : i < n) (hk : k < n) :
    Z i k - ∑ j ∈ range n, T i j * Z j k = (if i = k then 1 else 0) - π k := by
  have hZ' := (isSolution_iff _ _ _ _ _).1 hZ i hi k hk
  have e : ∀ j ∈ range n, fundA T π i j * Z j k
      = (if i = j then Z j k else 0) - T i j * Z j k + π j * Z j k := by
    intro j _
    unfold fundA eyeMinus Wmat
    by_cases h : i = j <;> simp [h] <;> ring
  rw [sum_congr rfl e, sum_add_distrib, sum_sub_distrib, sum_ite_eq, pi_Z hrowless hsum hZ hk] at hZ'
  simp only [mem_range, hi, if_true] at hZ'
  simp only [eye] at hZ'
  linarith

theorem mfpt_all_fin (lag : Rat)
    (hrow : ∀ i, i < n → ∑ j ∈ range n, T i j = 1)
    (hstat : ∀ j, j < n → ∑ i ∈ range n, π i * T i j = π j)
    (hsum : ∑ i ∈ range n, π i = 1) (hZ : FundInv n T π Z) {j : Nat} (hj : j < n)
    (hπ : π j ≠ 0) :
    mfptAll lag Z π j j = 0 ∧
    ∀ i, i < n → i ≠ j →
      mfptAll lag Z π i j = lag + ∑ k ∈ range n, T i k * mfptAll lag Z π k j := by
  refine ⟨by simp [mfptAll], ?_⟩
  intro i hi hij
  have h := Z_sub_TZ hstat hsum hZ hi hj
  simp only [hij, if_false] at h
  have e : ∑ k ∈ range n, T i k * mfptAll lag Z π k j
      = lag * (Z j j * ∑ k ∈ range n, T i k - ∑ k ∈ range n, T i k * Z k j) * (π j)⁻¹ := by
    rw [mul_sum, ← sum_sub_distrib, mul_sum, sum_mul]
    exact sum_congr rfl fun k _ => by simp only [mfptAll, Wmat]; ring
  rw [e, hrow i hi]
  simp only [mfptAll, Wmat]
  field_simp
  linear_combination (-lag) * h

end allpairs

end Ens.Tpt
