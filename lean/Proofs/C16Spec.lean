import Model.Msm
import Proofs.C16Fit
import Mathlib.Analysis.SpecialFunctions.Log.Basic
import Mathlib.Analysis.Complex.Basic
import Mathlib.Data.Matrix.Mul
import Mathlib.Algebra.BigOperators.Fin
import Mathlib.Algebra.BigOperators.Field
import Mathlib.Tactic.Ring
import Mathlib.Tactic.FieldSimp
import Mathlib.Tactic.Linarith
/-!
Spectrum post-processing, the eigenvalue bound for row-stochastic matrices, the implied
timescale formula and ensemble propagation.
-/
namespace Ens.Msm
open Ens

/-! ### `eigPost`: ordering -/

theorem zip_range_getElem? (vals : List Cx) (p : Nat × Cx)
    (hp : p ∈ (List.range vals.length).zip vals) : vals[p.1]? = some p.2 := by
  obtain ⟨k, hk, he⟩ := List.mem_iff_getElem.mp hp
  have hk' : k < vals.length := by
    simp only [List.length_zip, List.length_range, Nat.min_self] at hk; exact hk
  rw [List.getElem_zip] at he
  rw [← he]
  simp only [List.getElem_range]
  exact List.getElem?_eq_getElem hk'

theorem filterMap_fst_eq_snd (vals : List Cx) (l : List (Nat × Cx))
    (h : ∀ p ∈ l, vals[p.1]? = some p.2) :
    (l.map (·.1)).filterMap (vals[·]?) = l.map (·.2) := by
  induction l with
  | nil => rfl
  | cons p rest ih =>
    have h1 := h p List.mem_cons_self
    simp only [List.map_cons, List.filterMap_cons, h1]
    rw [ih (fun q hq => h q (List.mem_cons_of_mem _ hq))]

/-- the pairs (index, value) sorted by the code's key -/
def sortedPairs (vals : List Cx) : List (Nat × Cx) :=
  stableSort (fun a b => decide (-a.2.re ≤ -b.2.re)) ((List.range vals.length).zip vals)

theorem sortedPairs_perm (vals : List Cx) :
    (sortedPairs vals).Perm ((List.range vals.length).zip vals) := stableSort_perm _ _

theorem sortedPairs_pairwise (vals : List Cx) :
    (sortedPairs vals).Pairwise (fun a b => b.2.re ≤ a.2.re) := by
  have := stableSort_pairwise (fun (a b : Nat × Cx) => decide (-a.2.re ≤ -b.2.re))
    (by intro a b c h1 h2
        simp only [decide_eq_true_eq] at h1 h2 ⊢
        exact le_trans h1 h2)
    (by intro a b
        simp only [decide_eq_true_eq]
        exact le_total _ _)
    ((List.range vals.length).zip vals)
  exact this.imp (by intro a b h; simp only [decide_eq_true_eq] at h; linarith)

theorem reordered_vals (vals : List Cx) :
    (argsortDesc vals).filterMap (vals[·]?) = (sortedPairs vals).map (·.2) := by
  apply filterMap_fst_eq_snd
  intro p hp
  exact zip_range_getElem? vals p ((sortedPairs_perm vals).mem_iff.mp hp)

theorem snd_zip_range (vals : List Cx) : ((List.range vals.length).zip vals).map (·.2) = vals := by
  rw [List.map_snd_zip]
  simp

/-- all real parts, in the order the code puts them -/
def sortedReals (vals : List Cx) : List Rat := ((sortedPairs vals).map (·.2)).map (·.re)

theorem sortedReals_perm (vals : List Cx) : (sortedReals vals).Perm (vals.map (·.re)) := by
  have := ((sortedPairs_perm vals).map (·.2)).map (·.re)
  rwa [snd_zip_range] at this

theorem sortedReals_desc (vals : List Cx) : (sortedReals vals).Pairwise (· ≥ ·) := by
  simp only [sortedReals, List.pairwise_map]
  exact (sortedPairs_pairwise vals).imp (by intro a b h; exact h)

theorem eigPost_vals (k : Nat) (vals : List Cx) (cols : List (List Cx))
    (v : List Rat) (c : List (List Rat)) (h : eigPost k vals cols = .ok (v, c)) :
    v = (sortedReals vals).take k := by
  simp only [eigPost] at h
  split at h
  · cases h
  · split at h
    · cases h
    · simp only [pure, Except.pure, Except.ok.injEq, Prod.mk.injEq] at h
      rw [← h.1, reordered_vals, sortedReals, List.map_take]

/-! ### `eigPost`: the first vector -/

theorem cxSum_cons (z : Cx) (l : List Cx) : cxSum (z :: l) = z.add (cxSum l) := rfl

theorem sum_div_re (s : Cx) (c0 : List Cx) :
    (c0.map fun z => (z.div s).re).sum =
      ((cxSum c0).re * s.re + (cxSum c0).im * s.im) / (s.re * s.re + s.im * s.im) := by
  induction c0 with
  | nil => simp [cxSum, Cx.zero]
  | cons z rest ih =>
    simp only [List.map_cons, List.sum_cons, cxSum_cons]
    rw [ih]
    simp only [Cx.add, Cx.div]
    ring

theorem normSq_ne_zero (s : Cx) (hs : s ≠ Cx.zero) : s.re * s.re + s.im * s.im ≠ 0 := by
  intro h
  have h1 : 0 ≤ s.re * s.re := mul_self_nonneg _
  have h2 : 0 ≤ s.im * s.im := mul_self_nonneg _
  have hr : s.re * s.re = 0 := by linarith
  have hi : s.im * s.im = 0 := by linarith
  apply hs
  cases s with
  | mk re im =>
    simp only [Cx.zero, Cx.mk.injEq]
    exact ⟨mul_self_eq_zero.mp hr, mul_self_eq_zero.mp hi⟩

theorem first_sums_to_one (c0 : List Cx) (hs : cxSum c0 ≠ Cx.zero) :
    (c0.map fun z => (z.div (cxSum c0)).re).sum = 1 := by
  rw [sum_div_re]
  exact div_self (normSq_ne_zero _ hs)

theorem eigPost_cols (k : Nat) (vals : List Cx) (cols : List (List Cx))
    (v : List Rat) (c : List (List Rat)) (h : eigPost k vals cols = .ok (v, c)) :
    ∃ c0 rest, (argsortDesc vals).filterMap (cols[·]?) = c0 :: rest ∧ cxSum c0 ≠ Cx.zero ∧
      c = (((c0.map fun z => z.div (cxSum c0)) :: rest).take k).map (fun col => col.map (·.re)) := by
  simp only [eigPost] at h
  split at h
  · cases h
  · rename_i c0 rest heq
    split at h
    · cases h
    · rename_i hs
      simp only [pure, Except.pure, Except.ok.injEq, Prod.mk.injEq] at h
      exact ⟨c0, rest, heq, hs, h.2.symm⟩

/-- a purely real column (what LAPACK returns for a real eigenvalue) is divided by the
sum of its real parts -/
theorem cxSum_real (c0 : List Cx) (hre : ∀ z ∈ c0, z.im = 0) :
    cxSum c0 = ⟨(c0.map (·.re)).sum, 0⟩ := by
  induction c0 with
  | nil => rfl
  | cons z rest ih =>
    rw [cxSum_cons, ih (fun w hw => hre w (List.mem_cons_of_mem _ hw))]
    simp [Cx.add, hre z List.mem_cons_self]

theorem div_real (z s : Cx) (hz : z.im = 0) (hs : s.im = 0) : (z.div s).re = z.re / s.re := by
  simp only [Cx.div, hz, hs, mul_zero, add_zero, zero_mul]
  by_cases h : s.re = 0
  · simp [h]
  · field_simp

theorem first_real (c0 : List Cx) (hre : ∀ z ∈ c0, z.im = 0) :
    (c0.map fun z => (z.div (cxSum c0)).re) = c0.map fun z => z.re / (c0.map (·.re)).sum := by
  apply List.map_congr_left
  intro z hz
  rw [div_real z _ (hre z hz) (by rw [cxSum_real c0 hre])]
  rw [cxSum_real c0 hre]

/-- `Cx` is ℂ restricted to rational parts: the division the model performs is complex division -/
noncomputable def toC (z : Cx) : ℂ := ⟨(z.re : ℝ), (z.im : ℝ)⟩

theorem toC_div (a b : Cx) : toC (a.div b) = toC a / toC b := by
  apply Complex.ext
  · simp only [toC, Cx.div, Complex.div_re, Complex.normSq_mk]
    push_cast
    ring
  · simp only [toC, Cx.div, Complex.div_im, Complex.normSq_mk]
    push_cast
    ring

/-! ### scaling keeps a left eigenvector -/

theorem vecMul_div_scale {K : Type} [Field K] {n : Nat} (T : Matrix (Fin n) (Fin n) K)
    (v : Fin n → K) (lam s : K) (h : Matrix.vecMul v T = lam • v) :
    Matrix.vecMul (fun i => v i / s) T = lam • (fun i => v i / s) := by
  have e : (fun i => v i / s) = s⁻¹ • v := by
    funext i; simp [div_eq_inv_mul]
  rw [e, Matrix.smul_vecMul, h, smul_comm]

theorem sum_div_scale {K : Type} [Field K] {n : Nat} (v : Fin n → K) (hs : (∑ i, v i) ≠ 0) :
    ∑ i, v i / (∑ i, v i) = 1 := by
  rw [← Finset.sum_div]; exact div_self hs

/-! ### eigenvalues of a row-(sub)stochastic matrix -/

/-- 1-norm argument for left eigenvectors -/
theorem norm_le_one_of_left {K : Type} [NormedField K] {n : Nat} (T : Matrix (Fin n) (Fin n) K)
    (hrow : ∀ i, ∑ j, ‖T i j‖ ≤ 1) (v : Fin n → K) (lam : K) (hv : v ≠ 0)
    (h : Matrix.vecMul v T = lam • v) : ‖lam‖ ≤ 1 := by
  have hpos : 0 < ∑ i, ‖v i‖ := by
    obtain ⟨i, hi⟩ : ∃ i, v i ≠ 0 := by
      by_contra hc
      push Not at hc
      exact hv (funext hc)
    exact Finset.sum_pos' (fun i _ => norm_nonneg _) ⟨i, Finset.mem_univ _, norm_pos_iff.mpr hi⟩
  have key : ‖lam‖ * ∑ j, ‖v j‖ ≤ 1 * ∑ i, ‖v i‖ := by
    calc ‖lam‖ * ∑ j, ‖v j‖ = ∑ j, ‖lam * v j‖ := by
            rw [Finset.mul_sum]; simp only [norm_mul]
      _ = ∑ j, ‖∑ i, v i * T i j‖ := by
            apply Finset.sum_congr rfl
            intro j _
            have := congrFun h j
            simp only [Matrix.vecMul, dotProduct, Pi.smul_apply, smul_eq_mul] at this
            rw [this]
      _ ≤ ∑ j, ∑ i, ‖v i‖ * ‖T i j‖ := by
            apply Finset.sum_le_sum
            intro j _
            calc ‖∑ i, v i * T i j‖ ≤ ∑ i, ‖v i * T i j‖ := norm_sum_le _ _
              _ = ∑ i, ‖v i‖ * ‖T i j‖ := by simp only [norm_mul]
      _ = ∑ i, ‖v i‖ * ∑ j, ‖T i j‖ := by
            rw [Finset.sum_comm]
            simp only [Finset.mul_sum]
      _ ≤ ∑ i, ‖v i‖ * 1 := by
            apply Finset.sum_le_sum
            intro i _
            exact mul_le_mul_of_nonneg_left (hrow i) (norm_nonneg _)
      _ = 1 * ∑ i, ‖v i‖ := by simp
  exact le_of_mul_le_mul_right key hpos

/-- max-norm argument for right eigenvectors -/
theorem norm_le_one_of_right {K : Type} [NormedField K] {n : Nat} (T : Matrix (Fin n) (Fin n) K)
    (hrow : ∀ i, ∑ j, ‖T i j‖ ≤ 1) (v : Fin n → K) (lam : K) (hv : v ≠ 0)
    (h : Matrix.mulVec T v = lam • v) : ‖lam‖ ≤ 1 := by
  obtain ⟨i0, hi0⟩ : ∃ i, v i ≠ 0 := by
    by_contra hc
    push Not at hc
    exact hv (funext hc)
  obtain ⟨m, _, hm⟩ := Finset.exists_max_image Finset.univ (fun i => ‖v i‖) ⟨i0, Finset.mem_univ _⟩
  have hpos : 0 < ‖v m‖ := lt_of_lt_of_le (norm_pos_iff.mpr hi0) (hm i0 (Finset.mem_univ _))
  have key : ‖lam‖ * ‖v m‖ ≤ 1 * ‖v m‖ := by
    calc ‖lam‖ * ‖v m‖ = ‖lam * v m‖ := (norm_mul _ _).symm
      _ = ‖∑ j, T m j * v j‖ := by
            have := congrFun h m
            simp only [Matrix.mulVec, dotProduct, Pi.smul_apply, smul_eq_mul] at this
            rw [this]
      _ ≤ ∑ j, ‖T m j * v j‖ := norm_sum_le _ _
      _ = ∑ j, ‖T m j‖ * ‖v j‖ := by simp only [norm_mul]
      _ ≤ ∑ j, ‖T m j‖ * ‖v m‖ := by
            apply Finset.sum_le_sum
            intro j _
            exact mul_le_mul_of_nonneg_left (hm j (Finset.mem_univ _)) (norm_nonneg _)
      _ = (∑ j, ‖T m j‖) * ‖v m‖ := by rw [Finset.sum_mul]
      _ ≤ 1 * ‖v m‖ := mul_le_mul_of_nonneg_right (hrow m) (norm_nonneg _)
  exact le_of_mul_le_mul_right key hpos

theorem stochastic_row_norms {n : Nat} (T : Matrix (Fin n) (Fin n) ℝ) (hnn : ∀ i j, 0 ≤ T i j)
    (hrow : ∀ i, ∑ j, T i j = 1) : ∀ i, ∑ j, ‖T i j‖ ≤ 1 := by
  intro i
  have : ∑ j, ‖T i j‖ = ∑ j, T i j := by
    apply Finset.sum_congr rfl
    intro j _
    rw [Real.norm_eq_abs, abs_of_nonneg (hnn i j)]
  rw [this, hrow i]

theorem stochastic_row_norms_complex {n : Nat} (T : Matrix (Fin n) (Fin n) ℝ) (hnn : ∀ i j, 0 ≤ T i j)
    (hrow : ∀ i, ∑ j, T i j = 1) : ∀ i, ∑ j, ‖(T.map (fun x => (x : ℂ))) i j‖ ≤ 1 := by
  intro i
  have : ∑ j, ‖(T.map (fun x => (x : ℂ))) i j‖ = ∑ j, T i j := by
    apply Finset.sum_congr rfl
    intro j _
    rw [Matrix.map_apply, Complex.norm_real, Real.norm_eq_abs, abs_of_nonneg (hnn i j)]
  rw [this, hrow i]

theorem ones_right_eigvec {n : Nat} (T : Matrix (Fin n) (Fin n) ℝ) (hrow : ∀ i, ∑ j, T i j = 1) :
    Matrix.mulVec T (fun _ => (1 : ℝ)) = (1 : ℝ) • (fun _ => (1 : ℝ)) := by
  funext i
  simp [Matrix.mulVec, dotProduct, hrow i]

/-! ### implied timescales -/

theorem imp_time_pos (lag l : ℝ) (hlag : 0 < lag) (h0 : 0 < l) (h1 : l < 1) :
    0 < -lag / Real.log l := by
  have hl : Real.log l < 0 := Real.log_neg h0 h1
  have : -lag / Real.log l = lag / (-Real.log l) := by rw [div_neg, neg_div]
  rw [this]
  exact div_pos hlag (by linarith)

/-- the defining relation `λ = exp(−τ / t)` of the implied timescale `t` -/
theorem imp_time_defining (lag l : ℝ) (hlag : 0 < lag) (h0 : 0 < l) (h1 : l < 1) :
    Real.exp (-lag / (-lag / Real.log l)) = l := by
  have hl : Real.log l ≠ 0 := ne_of_lt (Real.log_neg h0 h1)
  have hlag' : lag ≠ 0 := ne_of_gt hlag
  have : -lag / (-lag / Real.log l) = Real.log l := by field_simp
  rw [this, Real.exp_log h0]

/-! ### ensemble propagation -/

theorem sumTo_eq_sum_range {α : Type} [AddCommMonoid α] (n : Nat) (f : Nat → α) :
    sumTo n f = ∑ i ∈ Finset.range n, f i := by
  induction n with
  | zero => rfl
  | succ k ih => rw [Finset.sum_range_succ, ← ih]; rfl

/-- a `Fin n`-indexed matrix / vector seen through natural-number indices -/
def extM {R : Type} [Zero R] {n : Nat} (T : Matrix (Fin n) (Fin n) R) : Nat → Nat → R :=
  fun i j => if h : i < n ∧ j < n then T ⟨i, h.1⟩ ⟨j, h.2⟩ else 0
def extV {R : Type} [Zero R] {n : Nat} (p : Fin n → R) : Nat → R :=
  fun i => if h : i < n then p ⟨i, h⟩ else 0
def restrict {R : Type} (n : Nat) (p : Nat → R) : Fin n → R := fun i => p i

theorem restrict_extV {R : Type} [Zero R] {n : Nat} (p : Fin n → R) : restrict n (extV p) = p := by
  funext i; simp [restrict, extV]

theorem restrict_rmatvec {R : Type} [Semiring R] {n : Nat} (T : Matrix (Fin n) (Fin n) R)
    (p : Nat → R) : restrict n (rmatvec n (extM T) p) = Matrix.vecMul (restrict n p) T := by
  funext j
  simp only [restrict, rmatvec, Matrix.vecMul, dotProduct]
  rw [sumTo_eq_sum_range, ← Fin.sum_univ_eq_sum_range (fun i => p i * extM T i j) n]
  apply Finset.sum_congr rfl
  intro i _
  simp [extM]

theorem ensembleLoop_spec {R : Type} [Semiring R] {n : Nat} (T : Matrix (Fin n) (Fin n) R)
    (k : Nat) (p : Nat → R) :
    restrict n (ensembleLoop n (extM T) k p).2 = Matrix.vecMul (restrict n p) (T ^ k) ∧
    (ensembleLoop n (extM T) k p).1.length = k ∧
    ∀ t, t < k → ((ensembleLoop n (extM T) k p).1[t]?).map (restrict n)
        = some (Matrix.vecMul (restrict n p) (T ^ (t + 1))) := by
  induction k generalizing p with
  | zero => simp [ensembleLoop]
  | succ k ih =>
    obtain ⟨h1, h2, h3⟩ := ih (rmatvec n (extM T) p)
    simp only [ensembleLoop]
    refine ⟨?_, ?_, ?_⟩
    · rw [h1, restrict_rmatvec, Matrix.vecMul_vecMul, pow_succ']
    · simp [h2]
    · intro t ht
      cases t with
      | zero => simp [restrict_rmatvec]
      | succ t =>
        simp only [List.getElem?_cons_succ]
        rw [h3 t (by omega), restrict_rmatvec, Matrix.vecMul_vecMul, ← pow_succ']

/-! ### uniqueness of the stationary vector (entrywise positive matrices) -/

theorem fixed_sum_zero_eq_zero {n : Nat} (T : Matrix (Fin n) (Fin n) ℝ) (hpos : ∀ i j, 0 < T i j)
    (hrow : ∀ i, ∑ j, T i j = 1) (u : Fin n → ℝ) (hu : Matrix.vecMul u T = u)
    (hs : ∑ i, u i = 0) : u = 0 := by
  by_contra hne
  obtain ⟨ip, hip⟩ : ∃ i, 0 < u i := by
    by_contra hc
    push Not at hc
    have := (Finset.sum_eq_zero_iff_of_nonpos (fun i _ => hc i)).mp hs
    exact hne (funext fun i => this i (Finset.mem_univ i))
  obtain ⟨im, him⟩ : ∃ i, u i < 0 := by
    by_contra hc
    push Not at hc
    have := (Finset.sum_eq_zero_iff_of_nonneg (fun i _ => hc i)).mp hs
    exact hne (funext fun i => this i (Finset.mem_univ i))
  have strict : ∀ j, |u j| < ∑ i, |u i| * T i j := by
    intro j
    have e : u j = ∑ i, u i * T i j := by
      have := congrFun hu j
      simp only [Matrix.vecMul, dotProduct] at this
      exact this.symm
    have h1 : 0 < ∑ i, (|u i| + u i) * T i j := by
      apply Finset.sum_pos'
      · intro i _
        exact mul_nonneg (by have := neg_abs_le (u i); linarith) (le_of_lt (hpos i j))
      · exact ⟨ip, Finset.mem_univ _, mul_pos (by have := abs_nonneg (u ip); linarith) (hpos ip j)⟩
    have h2 : 0 < ∑ i, (|u i| - u i) * T i j := by
      apply Finset.sum_pos'
      · intro i _
        exact mul_nonneg (by have := le_abs_self (u i); linarith) (le_of_lt (hpos i j))
      · exact ⟨im, Finset.mem_univ _, mul_pos (by have := abs_nonneg (u im); linarith) (hpos im j)⟩
    simp only [add_mul, sub_mul, Finset.sum_add_distrib, Finset.sum_sub_distrib] at h1 h2
    rw [abs_lt]
    constructor <;> linarith
  have hlt : ∑ j, |u j| < ∑ j, ∑ i, |u i| * T i j :=
    Finset.sum_lt_sum_of_nonempty ⟨ip, Finset.mem_univ _⟩ (fun j _ => strict j)
  rw [Finset.sum_comm] at hlt
  simp only [← Finset.mul_sum, hrow, mul_one] at hlt
  exact lt_irrefl _ hlt

theorem stationary_unique_pos {n : Nat} (T : Matrix (Fin n) (Fin n) ℝ) (hpos : ∀ i j, 0 < T i j)
    (hrow : ∀ i, ∑ j, T i j = 1) (v w : Fin n → ℝ) (hv : Matrix.vecMul v T = v)
    (hw : Matrix.vecMul w T = w) (sv : ∑ i, v i = 1) (sw : ∑ i, w i = 1) : v = w := by
  have h := fixed_sum_zero_eq_zero T hpos hrow (v - w)
    (by rw [Matrix.sub_vecMul, hv, hw])
    (by simp only [Pi.sub_apply, Finset.sum_sub_distrib, sv, sw, sub_self])
  exact sub_eq_zero.mp h

end Ens.Msm
