import Model.PySlice
import Mathlib.Tactic.Ring
import Mathlib.Tactic.Linarith
import Mathlib.Algebra.Order.Group.Nat
/-! Characterisation of `rangeAux` (Python `range`) for positive steps. -/
namespace Ens

/-- the elements are `cur + k*step` in order -/
theorem rangeAux_eq_map (stop step : Int) :
    ∀ (fuel : Nat) (cur : Int),
      rangeAux stop step fuel cur
        = (List.range (rangeAux stop step fuel cur).length).map (fun k : Nat => cur + k * step) := by
  intro fuel
  induction fuel with
  | zero => intro cur; simp [rangeAux]
  | succ n ih =>
    intro cur
    unfold rangeAux
    split
    · rename_i h
      rw [List.length_cons, List.range_succ_eq_map, List.map_cons, List.map_map]
      congr 1
      · simp
      · rw [ih (cur + step)]
        simp only [List.length_map, List.length_range]
        apply List.map_congr_left
        intro k _
        simp only [Function.comp, Nat.succ_eq_add_one]
        push_cast; ring
    · simp

/-- `k` is a position of the result iff it is within fuel and `cur + k*step < stop` -/
theorem rangeAux_length_iff (stop step : Int) (hs : 0 < step) :
    ∀ (fuel : Nat) (cur : Int) (k : Nat),
      k < (rangeAux stop step fuel cur).length ↔ (k < fuel ∧ cur + k * step < stop) := by
  intro fuel
  induction fuel with
  | zero => intro cur k; simp [rangeAux]
  | succ n ih =>
    intro cur k
    unfold rangeAux
    split
    · rename_i h
      have hlt : cur < stop := by
        rcases h with h | h
        · exact h.2
        · omega
      cases k with
      | zero => simp [hlt]
      | succ k =>
        rw [List.length_cons, Nat.succ_lt_succ_iff, ih (cur + step) k]
        constructor
        · rintro ⟨h1, h2⟩
          refine ⟨by omega, ?_⟩
          push_cast; linarith
        · rintro ⟨h1, h2⟩
          refine ⟨by omega, ?_⟩
          push_cast at h2; linarith
    · rename_i h
      have hge : ¬ cur < stop := by
        intro hc; exact h (Or.inl ⟨hs, hc⟩)
      simp only [List.length_nil, Nat.not_lt_zero, false_iff, not_and]
      intro _
      have : (0:Int) ≤ (k:Int) * step := by positivity
      omega

/-- With enough fuel the length of `range(0, d, s)` is `⌈d/s⌉`. -/
theorem rangeAux_length_nat (d s fuel : Nat) (hs : 0 < s) (hf : d ≤ fuel) (c : Nat) :
    (rangeAux ((c + d : Nat) : Int) (s : Int) (fuel + 1) (c : Int)).length = (d + s - 1) / s := by
  have hs' : (0:Int) < (s:Int) := by exact_mod_cast hs
  have key := rangeAux_length_iff ((c + d : Nat) : Int) (s:Int) hs' (fuel + 1) (c:Int)
  apply Nat.le_antisymm
  · by_contra hcon
    have hcon := Nat.lt_of_not_le hcon
    have := (key ((d + s - 1) / s)).mp hcon
    have h2 : (c:Int) + (((d + s - 1) / s : Nat) : Int) * (s:Int) < ((c + d : Nat) : Int) := this.2
    have h3 : ((d + s - 1) / s) * s < d := by
      have : ((c + ((d + s - 1) / s) * s : Nat) : Int) < ((c + d : Nat) : Int) := by
        push_cast; push_cast at h2; linarith
      have := Int.ofNat_lt.mp this
      omega
    have h4 : d + s - 1 < ((d + s - 1) / s + 1) * s := by
      have := Nat.lt_succ_self ((d + s - 1) / s)
      exact (Nat.div_lt_iff_lt_mul hs).mp this
    have : ((d + s - 1) / s + 1) * s = ((d + s - 1) / s) * s + s := by ring
    omega
  · by_contra hcon
    have hcon : (rangeAux ((c + d : Nat) : Int) (s : Int) (fuel + 1) (c : Int)).length
        < (d + s - 1) / s := Nat.lt_of_not_le hcon
    generalize (rangeAux ((c + d : Nat) : Int) (s : Int) (fuel + 1) (c : Int)).length = L at key hcon
    have hnot : ¬ (L < fuel + 1 ∧ (c:Int) + (L:Int) * (s:Int) < ((c + d : Nat) : Int)) := by
      intro h; have := (key L).mpr h; omega
    have h6 : ((d + s - 1) / s) * s ≤ d + s - 1 := Nat.div_mul_le_self _ _
    have h7 : (L + 1) * s ≤ ((d + s - 1) / s) * s := Nat.mul_le_mul_right s (by omega)
    have h8 : (L + 1) * s = L * s + s := by ring
    have h5 : L * s < d := by omega
    apply hnot
    constructor
    · have : L ≤ L * s := Nat.le_mul_of_pos_right L hs
      omega
    · have : ((c + L * s : Nat) : Int) < ((c + d : Nat) : Int) := by exact_mod_cast (by omega : c + L * s < c + d)
      push_cast at this; push_cast; linarith

end Ens
