import Proofs.C07
/-!
C07/C08: the executable reference `Tpt.committors` (certified exact solver plugged in) satisfies
the first-step equations — from `solve_sound` and `committor_first_step_fin`.
-/
open Finset

namespace Ens.Tpt
open LinSolveT

theorem committors_ok_first_step {n : Nat} {T : Mat} {sources sinks : List Nat} {q : Vec}
    (hdisj : ∀ s ∈ sources, s ∉ sinks) (hnd : sinks.Nodup)
    (hq : committors n T sources sinks = .ok q) :
    (∀ s ∈ sources, q s = 0) ∧ (∀ s ∈ sinks, q s = 1) ∧
    (∀ i, i < n → i ∉ sources → i ∉ sinks → q i = ∑ j ∈ range n, T i j * q j) := by
  unfold committors at hq
  split at hq
  · rename_i hidx
    simp only [Bool.and_eq_true, idxOk, List.all_eq_true, decide_eq_true_eq] at hidx
    split at hq
    · exact absurd hq (by simp)
    · rename_i B hsol
      have : committorsFrom B sinks = q := by simpa using hq
      subst this
      exact committor_first_step_fin hidx.1 hidx.2 hdisj hnd (solve_sound hsol)
  · exact absurd hq (by simp)

end Ens.Tpt
