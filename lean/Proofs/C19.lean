import Model.Masked
/-!
Lemmas for C19.  Core Lean only (no Mathlib needed).
-/
namespace Ens.Masked

/-! ### allocation -/

theorem npEmpty_length {β} (n : Nat) (g : Nat → β) : (npEmpty n g).length = n := by
  simp [npEmpty, tabulate]

/-- overwriting every cell erases what the block held: `np.full` is the constant list -/
theorem npFull_eq_replicate {β} (z : β) (n : Nat) (g : Nat → β) : npFull z n g = List.replicate n z := by
  simp only [npFull, npEmpty, tabulate, List.map_map]
  induction n with
  | zero => rfl
  | succ k ih =>
    rw [List.range_succ, List.map_append, ih, List.replicate_succ']
    rfl

theorem npFull_heap_independent {β} (z : β) (n : Nat) (g1 g2 : Nat → β) : npFull z n g1 = npFull z n g2 := by
  rw [npFull_eq_replicate, npFull_eq_replicate]

/-- a constant heap: `np.empty` then shows that constant everywhere -/
theorem npEmpty_const {β} (n : Nat) (b : β) : npEmpty n (fun _ => b) = List.replicate n b := by
  simp only [npEmpty, tabulate]
  induction n with
  | zero => rfl
  | succ k ih =>
    rw [List.range_succ, List.map_append, ih, List.replicate_succ']
    rfl

/-! ### masked cells -/

theorem maskedCells_length {α β} (f : α → β) :
    ∀ (mask : List Bool) (args : List α) (buf : List β),
      mask.length = args.length → buf.length = args.length →
      (maskedCells f mask args buf).length = args.length
  | [], [], [], _, _ => rfl
  | m :: ms, a :: as, b :: bs, h1, h2 => by
      simp only [maskedCells, List.length_cons] at *
      rw [maskedCells_length f ms as bs (by omega) (by omega)]
  | [], _ :: _, _, h1, _ => by simp at h1
  | _ :: _, [], _, h1, _ => by simp at h1
  | _ :: _, _ :: _, [], _, h2 => by simp at h2
  | [], [], _ :: _, _, h2 => by simp at h2

/-- cell `i` of the result: the function value where the mask is true, the old buffer content
where it is false -/
theorem maskedCells_getElem? {α β} (f : α → β) :
    ∀ (mask : List Bool) (args : List α) (buf : List β) (i : Nat) (m : Bool) (a : α) (b : β),
      mask[i]? = some m → args[i]? = some a → buf[i]? = some b →
      (maskedCells f mask args buf)[i]? = some (if m then f a else b)
  | m0 :: ms, a0 :: as, b0 :: bs, 0, m, a, b, hm, ha, hb => by
      simp only [List.getElem?_cons_zero, Option.some.injEq] at hm ha hb
      subst hm ha hb
      simp [maskedCells]
  | m0 :: ms, a0 :: as, b0 :: bs, i + 1, m, a, b, hm, ha, hb => by
      simp only [List.getElem?_cons_succ] at hm ha hb
      simp only [maskedCells, List.getElem?_cons_succ]
      exact maskedCells_getElem? f ms as bs i m a b hm ha hb
  | [], _, _, _, _, _, _, hm, _, _ => by simp at hm
  | _ :: _, [], _, _, _, _, _, _, ha, _ => by simp at ha
  | _ :: _, _ :: _, [], _, _, _, _, _, _, hb => by simp at hb

/-- all mask cells true ⇒ the old buffer content is irrelevant -/
theorem maskedCells_all_true {α β} (f : α → β) :
    ∀ (mask : List Bool) (args : List α) (g1 g2 : List β),
      (∀ m ∈ mask, m = true) → g1.length = args.length → g2.length = args.length →
      maskedCells f mask args g1 = maskedCells f mask args g2
  | [], _, _, _, _, _, _ => by simp [maskedCells]
  | _ :: _, [], _, _, _, _, _ => by simp [maskedCells]
  | _ :: _, _ :: _, [], [], _, _, _ => by simp [maskedCells]
  | _ :: _, _ :: _, [], _ :: _, _, h1, _ => by simp at h1
  | _ :: _, _ :: _, _ :: _, [], _, _, h2 => by simp at h2
  | m :: ms, a :: as, b1 :: bs1, b2 :: bs2, hall, h1, h2 => by
      have hm : m = true := hall m (by simp)
      subst hm
      simp only [maskedCells, if_true, List.cons.injEq, true_and]
      exact maskedCells_all_true f ms as bs1 bs2
        (fun m hm => hall m (List.mem_cons_of_mem _ hm))
        (by simpa using h1) (by simpa using h2)

/-- some mask cell false ⇒ two constant garbage buffers with different values give different
results -/
theorem maskedCells_some_false {α β} (f : α → β) (b1 b2 : β) (hb : b1 ≠ b2) :
    ∀ (mask : List Bool) (args : List α),
      mask.length = args.length → false ∈ mask →
      maskedCells f mask args (List.replicate args.length b1) ≠
      maskedCells f mask args (List.replicate args.length b2)
  | [], _, _, hf => by simp at hf
  | _ :: _, [], hl, _ => by simp at hl
  | m :: ms, a :: as, hl, hf => by
      simp only [List.length_cons, List.replicate_succ, maskedCells]
      intro heq
      simp only [List.cons.injEq] at heq
      cases m with
      | false => exact hb (by simpa using heq.1)
      | true =>
        have hf' : false ∈ ms := by simpa using hf
        exact maskedCells_some_false f b1 b2 hb ms as (by simpa using hl) hf' heq.2

theorem maskedApply_none_ok {α β} (f : α → β) (mask : List Bool) (args : List α) (g : List β)
    (hm : mask.length = args.length) (hg : g.length = args.length) :
    maskedApply f mask args none g = .ok (maskedCells f mask args g) := by
  simp [maskedApply, hm, hg]

theorem maskedApply_some_ok {α β} (f : α → β) (mask : List Bool) (args : List α) (o g : List β)
    (hm : mask.length = args.length) (ho : o.length = args.length) :
    maskedApply f mask args (some o) g = .ok (maskedCells f mask args o) := by
  simp [maskedApply, hm, ho]

/-- without `out`: independence of the heap content ⇔ no cell is masked out -/
theorem maskedApply_none_independent_iff {α β} (f : α → β) (mask : List Bool) (args : List α)
    (hm : mask.length = args.length) (b1 b2 : β) (hb : b1 ≠ b2) :
    (∀ g1 g2 : List β, g1.length = args.length → g2.length = args.length →
        maskedApply f mask args none g1 = maskedApply f mask args none g2)
      ↔ ∀ m ∈ mask, m = true := by
  constructor
  · intro h m hmem
    cases m with
    | true => rfl
    | false =>
      exfalso
      have h' := h (List.replicate args.length b1) (List.replicate args.length b2)
        (by simp) (by simp)
      rw [maskedApply_none_ok f mask args _ hm (by simp),
          maskedApply_none_ok f mask args _ hm (by simp)] at h'
      exact maskedCells_some_false f b1 b2 hb mask args hm hmem (by simpa using h')
  · intro hall g1 g2 h1 h2
    rw [maskedApply_none_ok f mask args g1 hm h1, maskedApply_none_ok f mask args g2 hm h2,
        maskedCells_all_true f mask args g1 g2 hall h1 h2]

/-! ### entropy -/

theorem FV.add_zero_left (x : FV) : FV.add (some 0) x = x := by
  cases x with
  | none => rfl
  | some r => simp [FV.add, Rat.zero_add]

theorem FV.mul_zero_right (x : Rat) : FV.mul (some x) (some 0) = some 0 := by
  simp [FV.mul, Rat.mul_zero]

/-- with the zero-initialised `out`, the weighted sum over all cells is the sum over the
cells with `p_i > 0` -/
theorem entropy_cells_eq_spec (lg : Rat → FV) :
    ∀ p : List Rat,
      FV.sum (List.zipWith (fun x l => FV.mul (some x) l) p
        (maskedCells lg (p.map (fun x => decide (0 < x))) p (List.replicate p.length (some 0))))
      = FV.sum ((p.filter (fun x => decide (0 < x))).map (fun x => FV.mul (some x) (lg x)))
  | [] => by simp [maskedCells, FV.sum]
  | x :: xs => by
      have ih := entropy_cells_eq_spec lg xs
      simp only [FV.sum] at ih
      by_cases hx : 0 < x
      · simp only [List.map_cons, List.length_cons, List.replicate_succ, maskedCells, hx,
          decide_true, if_true, List.zipWith_cons_cons, FV.sum, List.foldr_cons,
          List.filter_cons_of_pos]
        rw [ih]
      · simp only [List.map_cons, List.length_cons, List.replicate_succ, maskedCells, hx,
          decide_false, List.zipWith_cons_cons, FV.sum, List.foldr_cons, Bool.false_eq_true,
          if_false, FV.mul_zero_right, FV.add_zero_left, not_false_eq_true,
          List.filter_cons_of_neg]
        rw [ih]

theorem shannonEntropy_eq_spec (lg : Rat → FV) (p : List Rat) (g : Nat → FV) :
    shannonEntropy lg p g = .ok (entropySpec lg p) := by
  unfold shannonEntropy entropyWith
  rw [npFull_eq_replicate, maskedApply_some_ok lg _ p _ _ (by simp) (by simp)]
  simp only [entropySpec]
  show Except.ok _ = Except.ok _
  rw [entropy_cells_eq_spec lg p]

theorem FV.sum_none_of_mem : ∀ l : List FV, none ∈ l → FV.sum l = none
  | [], h => by simp at h
  | x :: xs, h => by
      simp only [FV.sum, List.foldr_cons]
      cases x with
      | none => rfl
      | some r =>
        have h' : none ∈ xs := by simpa using h
        have := FV.sum_none_of_mem xs h'
        simp only [FV.sum] at this
        rw [this]; rfl

/-- without `out`, NaN garbage under a masked-out cell makes the whole sum NaN -/
theorem entropy_cells_nan (lg : Rat → FV) :
    ∀ p : List Rat, (∃ x ∈ p, ¬ 0 < x) →
      none ∈ List.zipWith (fun x l => FV.mul (some x) l) p
        (maskedCells lg (p.map (fun x => decide (0 < x))) p (List.replicate p.length none))
  | [], h => by simp at h
  | x :: xs, h => by
      by_cases hx : 0 < x
      · have h' : ∃ y ∈ xs, ¬ 0 < y := by
          obtain ⟨y, hy, hny⟩ := h
          rcases List.mem_cons.mp hy with rfl | hy'
          · exact absurd hx hny
          · exact ⟨y, hy', hny⟩
        have ih := entropy_cells_nan lg xs h'
        simp only [List.map_cons, List.length_cons, List.replicate_succ, maskedCells,
          List.zipWith_cons_cons]
        exact List.mem_cons_of_mem _ ih
      · simp only [List.map_cons, List.length_cons, List.replicate_succ, maskedCells, hx,
          decide_false, Bool.false_eq_true, if_false, List.zipWith_cons_cons, FV.mul]
        exact List.mem_cons_self

theorem shannonEntropyNoOut_nan (lg : Rat → FV) (p : List Rat) (h : ∃ x ∈ p, ¬ 0 < x) :
    shannonEntropyNoOut lg p (fun _ => none) = .ok none := by
  unfold shannonEntropyNoOut entropyWith
  rw [npEmpty_const, maskedApply_none_ok lg _ p _ (by simp) (by simp)]
  show Except.ok _ = Except.ok _
  rw [FV.sum_none_of_mem _ (entropy_cells_nan lg p h)]
  rfl

/-- finite logarithms ⇒ the specified entropy is finite -/
theorem FV.sum_isSome : ∀ l : List FV, (∀ x ∈ l, x.isSome) → (FV.sum l).isSome
  | [], _ => rfl
  | x :: xs, h => by
      have hx := h x (by simp)
      have hr := FV.sum_isSome xs (fun y hy => h y (List.mem_cons_of_mem _ hy))
      simp only [FV.sum, List.foldr_cons] at hr ⊢
      cases x with
      | none => simp at hx
      | some r =>
        cases hs : List.foldr FV.add (some 0) xs with
        | none => rw [hs] at hr; simp at hr
        | some s => rfl

theorem entropySpec_isSome (lg : Rat → FV) (p : List Rat)
    (hlg : ∀ x, 0 < x → (lg x).isSome) : (entropySpec lg p).isSome := by
  unfold entropySpec
  have : (FV.sum ((p.filter (fun x => decide (0 < x))).map
      (fun x => FV.mul (some x) (lg x)))).isSome := by
    apply FV.sum_isSome
    intro y hy
    obtain ⟨x, hx, rfl⟩ := List.mem_map.mp hy
    have hpos : 0 < x := by simpa using (List.mem_filter.mp hx).2
    have := hlg x hpos
    cases hl : lg x with
    | none => rw [hl] at this; simp at this
    | some r => rfl
  cases hs : FV.sum ((p.filter (fun x => decide (0 < x))).map
      (fun x => FV.mul (some x) (lg x))) with
  | none => rw [hs] at this; simp at this
  | some s => rfl

/-! ### libdist kernels -/

theorem zeroed_eq_replicate (out : List Rat) : zeroed out = List.replicate out.length 0 := by
  induction out with
  | nil => rfl
  | cons x xs ih => simp [zeroed, List.replicate_succ] at ih ⊢; exact ih

theorem zeroed_congr (o1 o2 : List Rat) (h : o1.length = o2.length) : zeroed o1 = zeroed o2 := by
  rw [zeroed_eq_replicate, zeroed_eq_replicate, h]

theorem kernelGuard_congr (X : List (List Rat)) (ncols : Nat) (y o1 o2 : List Rat)
    (h : o1.length = o2.length) : kernelGuard X ncols y o1 = kernelGuard X ncols y o2 := by
  simp [kernelGuard, h]

theorem manhattanKernel_congr (X : List (List Rat)) (ncols : Nat) (y o1 o2 : List Rat)
    (h : o1.length = o2.length) : manhattanKernel X ncols y o1 = manhattanKernel X ncols y o2 := by
  simp only [manhattanKernel, kernelGuard_congr X ncols y o1 o2 h, zeroed_congr o1 o2 h]

theorem euclideanKernel_congr (sqrtF : Rat → Rat) (X : List (List Rat)) (ncols : Nat)
    (y o1 o2 : List Rat) (h : o1.length = o2.length) :
    euclideanKernel sqrtF X ncols y o1 = euclideanKernel sqrtF X ncols y o2 := by
  simp only [euclideanKernel, kernelGuard_congr X ncols y o1 o2 h, zeroed_congr o1 o2 h]

theorem hammingKernel_congr (X : List (List Rat)) (ncols : Nat) (y o1 o2 : List Rat)
    (h : o1.length = o2.length) : hammingKernel X ncols y o1 = hammingKernel X ncols y o2 := by
  simp only [hammingKernel, kernelGuard_congr X ncols y o1 o2 h, zeroed_congr o1 o2 h]

/-- a wrapper `prepare >>= kernel` depends on a supplied `out` only through its length, and
agrees with the call without `out` when the length is right -/
theorem wrapper_congr {γ} (k : List Rat → Except Err γ)
    (hk : ∀ o1 o2 : List Rat, o1.length = o2.length → k o1 = k o2)
    (X : List (List Rat)) (ncols : Nat) (y o1 o2 : List Rat) (g1 g2 : Nat → Rat)
    (h : o1.length = o2.length) :
    (prepare X ncols y (some o1) g1 >>= k) = (prepare X ncols y (some o2) g2 >>= k) := by
  unfold prepare
  by_cases hc : ncols ≠ y.length
  · simp [hc]
  · by_cases hl : o2.length ≠ X.length
    · simp [hc, hl, h]
    · simp only [hc, h, hl, if_false]
      show k o1 = k o2
      exact hk o1 o2 h

theorem wrapper_none {γ} (k : List Rat → Except Err γ)
    (hk : ∀ o1 o2 : List Rat, o1.length = o2.length → k o1 = k o2)
    (X : List (List Rat)) (ncols : Nat) (y o : List Rat) (g1 g2 : Nat → Rat) (h : o.length = X.length) :
    (prepare X ncols y (some o) g1 >>= k) = (prepare X ncols y none g2 >>= k) := by
  unfold prepare
  by_cases hc : ncols ≠ y.length
  · simp [hc]
  · have hl : ¬ o.length ≠ X.length := by simp [h]
    simp only [hc, hl, if_false]
    show k o = k (npFull 0 X.length g2)
    exact hk _ _ (by simp [h, npFull_eq_replicate])

/-- without `out`: the block `np.zeros` received is irrelevant -/
theorem wrapper_fresh {γ} (k : List Rat → Except Err γ)
    (X : List (List Rat)) (ncols : Nat) (y : List Rat) (g1 g2 : Nat → Rat) :
    (prepare X ncols y none g1 >>= k) = (prepare X ncols y none g2 >>= k) := by
  unfold prepare
  rw [npFull_heap_independent 0 X.length g1 g2]

/-! ### libinfo -/

theorem matrixBincount2d_heap_independent (a : List (List Int)) (fa : Nat) (b : List (List Int))
    (fb na nb : Nat) (g1 g2 : Nat → Nat) :
    matrixBincount2d a fa b fb na nb g1 = matrixBincount2d a fa b fb na nb g2 := by
  unfold matrixBincount2d
  rw [npFull_heap_independent 0 _ g1 g2]

end Ens.Masked
