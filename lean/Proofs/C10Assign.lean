import Model.Assign
/-! Lemmas for C10: the order on `ERat`, the running-minimum sweep, the per-frame argmin. -/
namespace Ens.Assign

/-! ### order facts on `ERat` (`none` = +inf) -/

theorem ERat.lt_irrefl (a : ERat) : ERat.lt a a = false := by
  cases a <;> simp [ERat.lt]

theorem ERat.le_refl (a : ERat) : ERat.le a a = true := by
  simp [ERat.le, ERat.lt_irrefl]

theorem ERat.lt_trans {a b c : ERat} (h1 : ERat.lt a b = true) (h2 : ERat.lt b c = true) :
    ERat.lt a c = true := by
  cases a <;> cases b <;> cases c <;> simp_all [ERat.lt] <;> grind

theorem ERat.lt_of_lt_of_le {a b c : ERat} (h1 : ERat.lt a b = true) (h2 : ERat.le b c = true) :
    ERat.lt a c = true := by
  cases a <;> cases b <;> cases c <;> simp_all [ERat.lt, ERat.le] <;> grind

theorem ERat.le_of_lt {a b : ERat} (h : ERat.lt a b = true) : ERat.le a b = true := by
  cases a <;> cases b <;> simp_all [ERat.lt, ERat.le] <;> grind

theorem ERat.le_trans {a b c : ERat} (h1 : ERat.le a b = true) (h2 : ERat.le b c = true) :
    ERat.le a c = true := by
  cases a <;> cases b <;> cases c <;> simp_all [ERat.lt, ERat.le] <;> grind

theorem ERat.le_some_some {a b : Rat} : ERat.le (some a) (some b) = true ↔ a ≤ b := by
  simp [ERat.le, ERat.lt, Rat.not_lt]

theorem ERat.lt_some_some {a b : Rat} : ERat.lt (some a) (some b) = true ↔ a < b := by
  simp [ERat.lt]

/-! ### first minimiser -/

/-- `c` is the first index among `0 … k-1` at which `g` is minimal. -/
def IsFirstMin (g : Nat → Rat) (k c : Nat) : Prop :=
  c < k ∧ (∀ c', c' < k → g c ≤ g c') ∧ (∀ c', c' < c → g c < g c')

theorem IsFirstMin.unique {g : Nat → Rat} {k c c' : Nat}
    (h : IsFirstMin g k c) (h' : IsFirstMin g k c') : c = c' := by
  obtain ⟨hc, hmin, hfirst⟩ := h
  obtain ⟨hc', hmin', hfirst'⟩ := h'
  rcases Nat.lt_trichotomy c c' with hlt | heq | hgt
  · have := hfirst' c hlt; have := hmin c' hc'; grind
  · exact heq
  · have := hfirst c' hgt; have := hmin' c hc; grind

theorem isFirstMin_step {g : Nat → Rat} {k b : Nat} (h : IsFirstMin g (k+1) b) :
    IsFirstMin g (k+2) (if g (k+1) < g b then k+1 else b) := by
  obtain ⟨hb, hmin, hfirst⟩ := h
  split
  · rename_i hlt
    refine ⟨by omega, ?_, ?_⟩
    · intro c' hc'
      by_cases hk : c' = k+1
      · subst hk; exact Rat.le_refl
      · have := hmin c' (by omega); grind
    · intro c' hc'
      have := hmin c' hc'; grind
  · rename_i hnl
    refine ⟨by omega, ?_, hfirst⟩
    intro c' hc'
    by_cases hk : c' = k+1
    · subst hk; grind
    · exact hmin c' (by omega)

theorem argminTo_isFirstMin (g : Nat → Rat) (j : Nat) : IsFirstMin g (j+1) (argminTo (j+1) g) := by
  induction j with
  | zero =>
    refine ⟨by simp [argminTo], ?_, ?_⟩
    · intro c' hc'
      have : c' = 0 := by omega
      subst this; simp [argminTo]
    · intro c' hc'; simp [argminTo] at hc'
  | succ j ih =>
    have h := isFirstMin_step ih
    have e : argminTo (j+1+1) g = (if g (j+1) < g (argminTo (j+1) g) then j+1 else argminTo (j+1) g) := by
      rw [argminTo]; simp
    rw [e]; exact h

theorem minUpTo_eq (g : Nat → Rat) (j : Nat) : minUpTo g j = g (argminTo (j+1) g) := by
  induction j with
  | zero => simp [minUpTo, argminTo]
  | succ j ih =>
    have e : argminTo (j+1+1) g = (if g (j+1) < g (argminTo (j+1) g) then j+1 else argminTo (j+1) g) := by
      rw [argminTo]; simp
    rw [e, minUpTo, ih]
    split <;> rfl

/-! ### the sweep -/

theorem sweep_zero (D : Nat → Nat → Rat) (f : Nat) :
    (sweep D 0).dist f = none ∧ (sweep D 0).lab f = 0 := ⟨rfl, rfl⟩

theorem sweep_spec (D : Nat → Nat → Rat) (j f : Nat) :
    IsFirstMin (D f) (j+1) ((sweep D (j+1)).lab f) ∧
    (sweep D (j+1)).dist f = some (D f ((sweep D (j+1)).lab f)) := by
  induction j with
  | zero =>
    simp only [sweep, sweepStep, St.init, ERat.lt]
    refine ⟨⟨by simp, ?_, ?_⟩, by simp⟩
    · intro c' hc'
      have : c' = 0 := by omega
      subst this; simp
    · intro c' hc'; simp at hc'
  | succ j ih =>
    obtain ⟨hmin, hdist⟩ := ih
    have h := isFirstMin_step hmin
    have hl : (sweep D (j+1+1)).lab f =
        (if D f (j+1) < D f ((sweep D (j+1)).lab f) then j+1 else (sweep D (j+1)).lab f) := by
      conv => lhs; rw [sweep]
      simp only [sweepStep, hdist, ERat.lt, decide_eq_true_eq]
    have hd : (sweep D (j+1+1)).dist f =
        (if D f (j+1) < D f ((sweep D (j+1)).lab f) then some (D f (j+1))
         else some (D f ((sweep D (j+1)).lab f))) := by
      conv => lhs; rw [sweep]
      simp only [sweepStep, hdist, ERat.lt, decide_eq_true_eq]
    refine ⟨by rw [hl]; exact h, ?_⟩
    rw [hd, hl]
    split <;> rfl

theorem perFrame_spec (D : Nat → Nat → Rat) (j f : Nat) :
    IsFirstMin (D f) (j+1) ((perFrame D j).lab f) ∧
    (perFrame D j).dist f = some (D f ((perFrame D j).lab f)) := by
  refine ⟨argminTo_isFirstMin (D f) j, ?_⟩
  simp only [perFrame, minUpTo_eq]

/-- both code branches compute the same arrays -/
theorem perFrame_eq_sweep (D : Nat → Nat → Rat) (j f : Nat) :
    (perFrame D j).lab f = (sweep D (j+1)).lab f ∧
    (perFrame D j).dist f = (sweep D (j+1)).dist f := by
  have hp := perFrame_spec D j f
  have hs := sweep_spec D j f
  have e := IsFirstMin.unique hp.1 hs.1
  refine ⟨e, ?_⟩
  rw [hp.2, hs.2, e]

theorem assignNearest_eq_sweep (D : Nat → Nat → Rat) (n k : Nat) (x : Bool) (f : Nat) :
    (assignNearest D n k x).lab f = (sweep D k).lab f ∧
    (assignNearest D n k x).dist f = (sweep D k).dist f := by
  cases k with
  | zero => exact ⟨rfl, rfl⟩
  | succ j =>
    simp only [assignNearest]
    split
    · exact perFrame_eq_sweep D j f
    · exact ⟨rfl, rfl⟩

/-- the sweep looks at row `f` of the table only (used for batching) -/
theorem sweep_pointwise (D D' : Nat → Nat → Rat) (f f' : Nat) (h : ∀ c, D f c = D' f' c) (k : Nat) :
    (sweep D k).lab f = (sweep D' k).lab f' ∧ (sweep D k).dist f = (sweep D' k).dist f' := by
  induction k with
  | zero => exact ⟨rfl, rfl⟩
  | succ k ih =>
    simp only [sweep, sweepStep, h, ih.1, ih.2, and_self]

end Ens.Assign
