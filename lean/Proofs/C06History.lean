import Proofs.C06Fixed
/-!
Histories and observers for C06.
-/
namespace Ens.RaggedW
variable {α β : Type}

/-- every operation of the history is in scope at the state it is applied to, and none of them is
the stale row-view write -/
def AllInScope (cfg : Cfg) : State α → List (Op α) → Prop
  | _, [] => True
  | s, op :: ops => InScope cfg s op ∧ ¬ StaleWrite cfg s op ∧
      (match step cfg s op with
        | .ok (s', _) => AllInScope cfg s' ops
        | .error _ => AllInScope cfg s ops)

theorem run_refines (cfg : Cfg) (ops : List (Op α)) : ∀ (s : State α), Inv s → AllInScope cfg s ops →
    (run cfg s ops).array = specRun s.array ops ∧ Inv (run cfg s ops) := by
  induction ops with
  | nil => intro s h _; exact ⟨rfl, h⟩
  | cons op ops ih =>
    intro s h hall
    obtain ⟨hin, hst, hrest⟩ := hall
    obtain ⟨href, hinv⟩ := stepOK_of_inScope cfg h op hin (fun r c tg => specTargets_valid)
    simp only [run, specRun]
    cases hs : step cfg s op with
    | error e =>
      rw [hs] at href hrest
      simp only [absR] at href
      rw [← href]
      exact ih s h hrest
    | ok res =>
      obtain ⟨s', o⟩ := res
      rw [hs] at href hrest
      simp only [absR] at href
      rw [← href]
      exact ih s' ((hinv s' o hs).1 hst) hrest

/-! ### observers -/

theorem obsRow_eq (s : State α) (i : Int) : obsRow s i = specRow s.array i := rfl

theorem obsElem_eq {s : State α} (h : Coherent s) (i j : Int) : obsElem s i j = specElem s.array i j := by
  unfold obsElem specElem
  rw [h.lengths_eq, convertOne_eq_specCell]
  cases hc : specCell s.array (i, j) with
  | error e => rfl
  | ok p =>
    obtain ⟨row, h1, h2⟩ := specCell_valid hc
    simp only [mapOk_ok, specCellAt, h1]
    rw [h.data_eq, getElem?_flatten_flatOf s.array p row h1 h2]
    rw [List.getElem?_eq_getElem h2]

theorem obsIterAux_eq (s : State α) : ∀ (fuel i : Nat), s.array.length - i < fuel →
    obsIterAux s fuel i = s.array.drop i := by
  intro fuel
  induction fuel with
  | zero => intro i h; omega
  | succ n ih =>
    intro i h
    unfold obsIterAux obsRow
    by_cases hi : i < s.array.length
    · have h1 : normIdx s.array.length (i : Int) = .ok i := normIdx_ofNat hi
      have h2 : s.array[i]? = some s.array[i] := List.getElem?_eq_getElem hi
      simp only [h1, h2]
      rw [ih (i + 1) (by omega)]
      exact (List.drop_eq_getElem_cons hi).symm
    · have h1 : normIdx s.array.length (i : Int) = .error .indexError := by
        unfold normIdx
        have : (0 : Int) ≤ (i : Int) := Int.natCast_nonneg i
        have h3 : ¬ ((i : Int) < (s.array.length : Int)) := by
          intro hlt
          exact hi (by exact_mod_cast hlt)
        simp only [this, if_true, h3, if_false]
      simp only [h1]
      rw [List.drop_eq_nil_of_le (by omega)]

/-- iterating the object (`for row in a`) yields the rows -/
theorem obsIter_eq (s : State α) : obsIter s = s.array := by
  unfold obsIter
  rw [obsIterAux_eq s _ 0 (by omega)]
  rfl

theorem obsFlat_eq {s : State α} (h : Coherent s) : obsFlat s = s.array.flatten := h.data_eq
theorem obsLengths_eq {s : State α} (h : Coherent s) : obsLengths s = s.array.map List.length := h.lengths_eq
theorem obsLen_eq (s : State α) : obsLen s = s.array.length := rfl
theorem obsSize_eq {s : State α} (h : Coherent s) : obsSize s = (s.array.map List.length).sum := by
  unfold obsSize
  rw [h.data_eq, sum_map_length]
theorem obsReduce_eq {s : State α} (h : Coherent s) (f : β → α → β) (init : β) :
    obsReduce s f init = s.array.flatten.foldl f init := by
  unfold obsReduce
  rw [h.data_eq]
/-- `starts[r]` is the number of cells in the rows before `r` -/
theorem obsStarts_eq {s : State α} (h : Coherent s) (r : Nat) (hr : r < s.array.length) :
    (obsStarts s)[r]? = some ((s.array.take r).map List.length).sum := by
  unfold obsStarts
  rw [starts_getElem? _ _ (by rw [h.lengths_eq]; simpa using hr), h.lengths_eq]
  simp [startOf, List.map_take]

/-! ### representation kinds -/

theorem kind_ne_objBlock (cfg : Cfg) (h : cfg.arrayViewsFix = true) (s : State α) :
    s.kind cfg ≠ .objBlock := by
  unfold State.kind
  split
  · split
    · simp
    · simp [h]
  · simp

theorem not_stale_of_fix (cfg : Cfg) (h : cfg.arrayViewsFix = true) (s : State α) (op : Op α) :
    ¬ StaleWrite cfg s op := by
  cases op <;> simp [StaleWrite]
  exact kind_ne_objBlock cfg h s

end Ens.RaggedW
