/- C17 helper: path removal and the `paths` loop. -/
import Proofs.C17TopPath

namespace Ens.Paths
open Ens

theorem freeze_get (n : Nat) (F : Nat → Nat → Nat) (i j : Nat) :
    freeze n F i j = if i < n ∧ j < n then F i j else 0 := by
  simp only [freeze, Mat.get, Mat.ofFn]
  by_cases hi : i < n
  · by_cases hj : j < n
    · simp [hi, hj]
    · simp [hi, hj]
  · simp [hi]

theorem freeze_le (n : Nat) (F : Nat → Nat → Nat) (i j : Nat) : freeze n F i j ≤ F i j := by
  rw [freeze_get]; split <;> omega

theorem freeze_eq (n : Nat) (F : Nat → Nat → Nat) (i j : Nat) (hi : i < n) (hj : j < n) :
    freeze n F i j = F i j := by
  rw [freeze_get, if_pos ⟨hi, hj⟩]

/-! ### edges -/

theorem edges_cons_cons (a b : Nat) (t : List Nat) : edges (a :: b :: t) = (a, b) :: edges (b :: t) := by
  simp [edges]

theorem mem_edges (p : List Nat) (e : Nat × Nat) (h : e ∈ edges p) : e.1 ∈ p ∧ e.2 ∈ p := by
  obtain ⟨a, b⟩ := e
  have := List.of_mem_zip h
  exact ⟨this.1, List.mem_of_mem_tail this.2⟩

theorem adj_edges (F : Nat → Nat → Nat) : ∀ (p : List Nat), Adj F p →
    ∀ e ∈ edges p, 0 < F e.1 e.2
  | [], _, e, he => by simp [edges] at he
  | [x], _, e, he => by simp [edges] at he
  | a :: b :: t, h, e, he => by
    rw [edges_cons_cons] at he
    rcases List.mem_cons.1 he with rfl | he
    · exact h.1
    · exact adj_edges F (b :: t) h.2 e he

theorem adj_of_edges (F : Nat → Nat → Nat) : ∀ (q : List Nat),
    (∀ e ∈ edges q, 0 < F e.1 e.2) → Adj F q
  | [], _ => trivial
  | [_], _ => trivial
  | a :: b :: t, h => by
    rw [edges_cons_cons] at h
    exact ⟨h (a, b) List.mem_cons_self,
      adj_of_edges F (b :: t) (fun e he => h e (List.mem_cons_of_mem _ he))⟩

/-! ### what a removal step does to the matrix -/

structure Removed (F G : Nat → Nat → Nat) (p : List Nat) : Prop where
  le : ∀ i j, G i j ≤ F i j
  zeroed : ∃ e ∈ edges p, G e.1 e.2 = 0

theorem removeBottleneck_spec (F : Nat → Nat → Nat) (p : List Nat) (hne : edges p ≠ []) :
    ∃ G, removeBottleneck F p = .ok G ∧ Removed F G p := by
  unfold removeBottleneck
  cases hm : firstMin F (edges p) with
  | none => exact absurd ((firstMin_eq_none _ _).1 hm) hne
  | some e =>
    refine ⟨_, rfl, ?_, e, (firstMin_spec F _ e hm).1, ?_⟩
    · intro i j; simp only [setZero]; split <;> omega
    · simp [setZero]

/-- `subtract`: every edge of the path loses at least the minimal flux `m` on the path -/
theorem subtractPath_spec (F : Nat → Nat → Nat) (p : List Nat) (hne : edges p ≠ []) :
    ∃ G, subtractPath F p = .ok G ∧ Removed F G p ∧
      ∀ m, (∀ e ∈ edges p, m ≤ F e.1 e.2) → (∃ e ∈ edges p, F e.1 e.2 = m) →
        ∀ e ∈ edges p, G e.1 e.2 + m ≤ F e.1 e.2 := by
  unfold subtractPath
  cases hm : firstMin F (edges p) with
  | none => exact absurd ((firstMin_eq_none _ _).1 hm) hne
  | some e0 =>
    simp only
    cases hm' : firstMin (fun i j => if (edges p).contains (i, j) = true then F i j - F e0.1 e0.2
        else F i j) (edges p) with
    | none => exact absurd ((firstMin_eq_none _ _).1 hm') hne
    | some e' =>
      obtain ⟨h0mem, h0min⟩ := firstMin_spec F _ e0 hm
      refine ⟨_, rfl, ⟨?_, e', (firstMin_spec _ _ e' hm').1, ?_⟩, ?_⟩
      · intro i j; simp only [setZero]; split
        · omega
        · split <;> omega
      · simp [setZero]
      · intro m hle ⟨em, hem, hemv⟩ e he
        have hm0 : F e0.1 e0.2 = m := by
          have h1 := hle e0 h0mem
          have h2 := h0min em hem
          omega
        have hc : (edges p).contains (e.1, e.2) = true := by
          simp only [List.contains_iff_mem]; exact he
        have := hle e he
        simp only [setZero]
        split
        · omega
        · omega

theorem removePath_spec (sch : Scheme) (F : Nat → Nat → Nat) (p : List Nat) (hne : edges p ≠ []) :
    ∃ G, removePath sch F p = .ok G ∧ Removed F G p := by
  cases sch with
  | subtract =>
    obtain ⟨G, h1, h2, -⟩ := subtractPath_spec F p hne
    exact ⟨G, h1, h2⟩
  | bottleneck => exact removeBottleneck_spec F p hne

/-! ### a successful finite `topPath` result -/

section
variable {n : Nat} {F : Nat → Nat → Nat} {S T : List Nat} {p : List Nat} {f : Nat}

theorem TopSpec.fin_head (h : TopSpec n F S T p (Ext.fin f)) :
    ∃ s y rest, p = s :: y :: rest ∧ s ∈ S ∧ bneck F p = Ext.fin f := by
  rcases h.head_cases with ⟨s, hh, hs, hb⟩ | ⟨h1, _⟩
  · cases p with
    | nil => simp at hh
    | cons a t =>
      cases t with
      | nil => simp [bneck] at hb
      | cons b t' =>
        simp only [List.head?_cons, Option.some.injEq] at hh
        subst hh
        exact ⟨a, b, t', rfl, hs, hb⟩
  · cases h1

theorem TopSpec.edges_ne (h : TopSpec n F S T p (Ext.fin f)) : edges p ≠ [] := by
  obtain ⟨s, y, rest, rfl, -, -⟩ := h.fin_head
  rw [edges_cons_cons]; simp

end

/-! ### outflow and positive-edge count -/

/-- total flux leaving the set of sources (each source once) -/
def outflow (n : Nat) (F : Nat → Nat → Nat) (S : List Nat) : Nat :=
  sumTo n (fun i => if i ∈ S then sumTo n (F i) else 0)

theorem outflow_step {n : Nat} {F G : Nat → Nat → Nat} {S : List Nat} (s y d : Nat)
    (hs : s ∈ S) (hsn : s < n) (hyn : y < n) (hle : ∀ i j, G i j ≤ F i j)
    (hd : G s y + d ≤ F s y) : outflow n G S + d ≤ outflow n F S := by
  unfold outflow
  apply sumTo_add_le n _ _ s d hsn
  · rw [if_pos hs, if_pos hs]
    exact sumTo_add_le n _ _ y d hyn hd (fun j _ => hle s j)
  · intro i _
    split
    · exact sumTo_le_sumTo n _ _ (fun j _ => hle i j)
    · exact Nat.le_refl _

theorem le_outflow {n : Nat} {F : Nat → Nat → Nat} {S : List Nat} (s y : Nat)
    (hs : s ∈ S) (hsn : s < n) (hyn : y < n) : F s y ≤ outflow n F S := by
  have := outflow_step (n := n) (F := F) (G := fun i j => if i = s ∧ j = y then 0 else F i j)
    (S := S) s y (F s y) hs hsn hyn (fun i j => by split <;> omega) (by simp)
  omega

theorem posEdges_step {n : Nat} {F G : Nat → Nat → Nat} (a b : Nat) (ha : a < n) (hb : b < n)
    (hle : ∀ i j, G i j ≤ F i j) (hpos : 0 < F a b) (hz : G a b = 0) :
    posEdges n G < posEdges n F := by
  unfold posEdges
  have : ∀ i j, (if 0 < G i j then 1 else 0) ≤ (if 0 < F i j then 1 else 0) := by
    intro i j
    have := hle i j
    split <;> split <;> omega
  have h := sumTo_add_le n (fun i => sumTo n (fun j => if 0 < G i j then 1 else 0))
    (fun i => sumTo n (fun j => if 0 < F i j then 1 else 0)) a 1 ha
    (sumTo_add_le n _ _ b 1 hb (by simp [hz, hpos]) (fun j _ => this a j))
    (fun i _ => sumTo_le_sumTo n _ _ (fun j _ => this i j))
  omega

end Ens.Paths
