import Model.Store
/-!
C15, part 2: the strided selection `l[::s]`.
`strideSel s l` has `⌈|l|/s⌉ = (|l| + s - 1) / s` elements, its `i`-th element is `l[i*s]`,
it commutes with `map`, and it coincides with the shared CPython slice model `PySlice`.
Core Lean only.
-/
namespace Ens.Store

theorem strideAux_nil {α} (s k : Nat) : strideAux s k ([] : List α) = [] := by
  cases k <;> rfl

theorem strideAux_zero_cons {α} (s : Nat) (x : α) (xs : List α) :
    strideAux s 0 (x :: xs) = x :: strideAux s (s - 1) xs := rfl

theorem strideAux_succ_cons {α} (s k : Nat) (x : α) (xs : List α) :
    strideAux s (k + 1) (x :: xs) = strideAux s k xs := rfl

/-- skipping `k` elements first = dropping them -/
theorem strideAux_eq_drop {α} (s : Nat) : ∀ (k : Nat) (l : List α), strideAux s k l = strideAux s 0 (l.drop k)
  | 0, l => by simp
  | k + 1, [] => by simp [strideAux_nil]
  | k + 1, x :: xs => by
    rw [strideAux_succ_cons, List.drop_succ_cons]
    exact strideAux_eq_drop s k xs

private theorem div_step (m s : Nat) (hs : 0 < s) : (m - (s - 1) + s - 1) / s + 1 = (m + 1 + s - 1) / s := by
  by_cases h : s - 1 ≤ m
  · have e1 : m - (s - 1) + s - 1 = m := by omega
    have e2 : m + 1 + s - 1 = m + s := by omega
    rw [e1, e2, Nat.add_div_right _ hs]
  · have e1 : m - (s - 1) + s - 1 = s - 1 := by omega
    rw [e1, Nat.div_eq_of_lt (by omega)]
    have e2 : m + 1 + s - 1 = m + s := by omega
    rw [e2, Nat.add_div_right _ hs, Nat.div_eq_of_lt (by omega)]

theorem length_strideAux {α} (s : Nat) (hs : 0 < s) :
    ∀ (l : List α) (k : Nat), (strideAux s k l).length = (l.length - k + s - 1) / s
  | [], k => by
    rw [strideAux_nil]
    simp only [List.length_nil, Nat.zero_sub, Nat.zero_add]
    exact (Nat.div_eq_of_lt (by omega)).symm
  | x :: xs, 0 => by
    rw [strideAux_zero_cons, List.length_cons, length_strideAux s hs xs (s - 1)]
    simp only [List.length_cons, Nat.sub_zero]
    exact div_step xs.length s hs
  | x :: xs, k + 1 => by
    rw [strideAux_succ_cons, length_strideAux s hs xs k]
    simp only [List.length_cons, Nat.add_sub_add_right]

/-- **stride length**: `len(l[::s]) = (len(l) + s - 1) // s` -/
theorem length_strideSel {α} (s : Nat) (hs : 0 < s) (l : List α) :
    (strideSel s l).length = ceilDiv l.length s := by
  unfold strideSel ceilDiv
  rw [length_strideAux s hs l 0, Nat.sub_zero]

theorem getElem?_strideAux {α} (s : Nat) (hs : 0 < s) :
    ∀ (l : List α) (k i : Nat), (strideAux s k l)[i]? = l[k + i * s]?
  | [], k, i => by rw [strideAux_nil]; simp
  | x :: xs, 0, 0 => by simp [strideAux_zero_cons]
  | x :: xs, 0, i + 1 => by
    rw [strideAux_zero_cons, List.getElem?_cons_succ, getElem?_strideAux s hs xs (s - 1) i]
    have e : 0 + (i + 1) * s = (s - 1 + i * s) + 1 := by
      rw [Nat.succ_mul]; omega
    rw [e, List.getElem?_cons_succ]
  | x :: xs, k + 1, i => by
    rw [strideAux_succ_cons, getElem?_strideAux s hs xs k i]
    have e : k + 1 + i * s = (k + i * s) + 1 := by omega
    rw [e, List.getElem?_cons_succ]

/-- the `i`-th selected element is element `i*s` -/
theorem getElem?_strideSel {α} (s : Nat) (hs : 0 < s) (l : List α) (i : Nat) :
    (strideSel s l)[i]? = l[i * s]? := by
  unfold strideSel
  rw [getElem?_strideAux s hs l 0 i, Nat.zero_add]

theorem strideSel_one {α} : ∀ (l : List α), strideSel 1 l = l
  | [] => rfl
  | x :: xs => by
    unfold strideSel
    rw [strideAux_zero_cons]
    exact congrArg (x :: ·) (strideSel_one xs)

theorem strideAux_map {α γ} (f : α → γ) (s : Nat) :
    ∀ (l : List α) (k : Nat), strideAux s k (l.map f) = (strideAux s k l).map f
  | [], k => by simp [strideAux_nil]
  | x :: xs, 0 => by
    simp only [List.map_cons, strideAux_zero_cons]
    rw [strideAux_map f s xs (s - 1)]
  | x :: xs, k + 1 => by
    simp only [List.map_cons, strideAux_succ_cons]
    exact strideAux_map f s xs k

theorem strideSel_map {α γ} (f : α → γ) (s : Nat) (l : List α) :
    strideSel s (l.map f) = (strideSel s l).map f := strideAux_map f s l 0

theorem strideSel_ne_nil {α} (s : Nat) {l : List α} (h : l ≠ []) : strideSel s l ≠ [] := by
  cases l with
  | nil => exact absurd rfl h
  | cons x xs => simp [strideSel, strideAux_zero_cons]

/-! ### agreement with the shared CPython slice model -/

theorem rangeAux_pos_step (n s : Nat) (hs : 0 < s) :
    ∀ (fuel c : Nat), n - c ≤ fuel →
      (rangeAux (n : Int) (s : Int) fuel (c : Int)).map Int.toNat = strideAux s 0 (List.range' c (n - c))
  | 0, c, h => by
    have : n - c = 0 := by omega
    simp [rangeAux, this, strideAux_nil]
  | fuel + 1, c, h => by
    unfold rangeAux
    by_cases hc : c < n
    · have hcond : ((s : Int) > 0 ∧ (c : Int) < (n : Int)) ∨ ((s : Int) < 0 ∧ (c : Int) > (n : Int)) := by
        left; omega
      rw [if_pos hcond]
      have hm : n - c = (n - c - 1) + 1 := by omega
      rw [hm, List.range'_succ, strideAux_zero_cons, strideAux_eq_drop, List.drop_range']
      have hcast : (c : Int) + (s : Int) = ((c + s : Nat) : Int) := by push_cast; rfl
      rw [List.map_cons, hcast, rangeAux_pos_step n s hs fuel (c + s) (by omega)]
      have e1 : c + 1 + (s - 1) = c + s := by omega
      have e2 : n - c - 1 - (s - 1) = n - (c + s) := by omega
      simp only [Int.toNat_natCast, e1, e2, Nat.mul_one]
    · have hcond : ¬ (((s : Int) > 0 ∧ (c : Int) < (n : Int)) ∨ ((s : Int) < 0 ∧ (c : Int) > (n : Int))) := by
        omega
      rw [if_neg hcond]
      have : n - c = 0 := by omega
      simp [this, strideAux_nil]

/-- `range(*slice(None, None, s).indices(n))` = positions `0, s, 2s, …` -/
theorem pySlice_indices_stride (n s : Nat) (hs : 0 < s) :
    (PySlice.mk none none (some (s : Int))).indices n = some (strideSel s (List.range n)) := by
  have hne : ¬ ((s : Int) = 0) := by omega
  have hneg : ¬ ((s : Int) < 0) := by omega
  simp only [PySlice.indices, PySlice.adjust, Option.getD_some, hne, hneg, if_false, Option.map_some]
  have := rangeAux_pos_step n s hs (n + 1) 0 (by omega)
  simp only [Int.ofNat_zero, Nat.sub_zero] at this
  rw [this, strideSel, List.range_eq_range']

/-- **`strideSel` is CPython's `l[::s]`** (the shared `PySlice` model, itself compared with
CPython exhaustively on a small scope in the correspondence). -/
theorem pySlice_apply_stride {α} [Inhabited α] (l : List α) (s : Nat) (hs : 0 < s) :
    (PySlice.mk none none (some (s : Int))).apply l = some (strideSel s l) := by
  unfold PySlice.apply
  rw [pySlice_indices_stride l.length s hs, Option.map_some]
  congr 1
  rw [← strideSel_map]
  congr 1
  apply List.ext_getElem
  · simp
  · intro i h1 h2
    simp at h1
    simp [h1]

end Ens.Store
