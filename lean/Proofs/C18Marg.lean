import Proofs.C18Jc2
import Proofs.C18Bridge
/-!
Marginals of the joint-count table: row sums, column sums and the total of the table of one
feature pair are the marginal frame counts and the number of frames.
-/
namespace Ens.InfoR
open Finset Ens Ens.Info

/-- number of frames in which feature `x` of `a` is in state `u` -/
def margCount (a : Arr) (x : Nat) (u : Int) : Nat :=
  (List.range a.T).countP fun t => a.get t x = u

theorem sum_ite_int_eq (z : ℤ) (n : ℕ) :
    (∑ v ∈ range n, if z = (v : ℤ) then 1 else 0) = if 0 ≤ z ∧ z < n then 1 else 0 := by
  by_cases h : 0 ≤ z ∧ z < n
  · rw [if_pos h]
    have hm : z.toNat ∈ range n := by
      rw [mem_range]; omega
    rw [Finset.sum_eq_single_of_mem z.toNat hm]
    · have : z = (z.toNat : ℤ) := by omega
      rw [if_pos this]
    · intro b _ hb
      have : ¬ z = (b : ℤ) := by
        intro e; apply hb; omega
      rw [if_neg this]
  · rw [if_neg h]
    apply Finset.sum_eq_zero
    intro v hv
    have hv' := mem_range.1 hv
    have : ¬ z = (v : ℤ) := by
      intro e; apply h; omega
    rw [if_neg this]

/-- frames are partitioned by the state of one feature -/
theorem sum_countP_partition (l : List ℕ) (g : ℕ → ℤ) (n : ℕ) (q : ℕ → Bool)
    (h : ∀ t ∈ l, 0 ≤ g t ∧ g t < n) :
    ∑ v ∈ range n, l.countP (fun t => q t && decide (g t = (v : ℤ))) = l.countP q := by
  induction l with
  | nil => simp
  | cons t ts ih =>
    have ih' := ih (fun s hs => h s (List.mem_cons_of_mem _ hs))
    have ht := h t List.mem_cons_self
    simp only [List.countP_cons]
    rw [Finset.sum_add_distrib, ih']
    congr 1
    cases hq : q t with
    | false => simp
    | true =>
      simp only [Bool.true_and, decide_eq_true_eq, if_true]
      rw [sum_ite_int_eq, if_pos ht]

theorem frameCount_eq (a b : Arr) (x y : Nat) (i j : Int) :
    frameCount a b x y i j
      = (List.range a.T).countP (fun t => decide (a.get t x = i) && decide (b.get t y = j)) := by
  unfold frameCount
  apply List.countP_congr
  intro t _
  simp

/-- row sums of the table of `(x, y)` are the marginal counts of `x` -/
theorem rowSum_frameCount (a b : Arr) (x y : Nat) (nB : ℕ) (u : ℕ)
    (hb : ∀ t, t < a.T → 0 ≤ b.get t y ∧ b.get t y < nB) :
    rowSum (fun u v => frameCount a b x y (u : ℤ) (v : ℤ)) nB u = margCount a x u := by
  unfold rowSum
  rw [sumTo_eq_sum]
  simp only [frameCount_eq]
  rw [sum_countP_partition (List.range a.T) (fun t => b.get t y) nB (fun t => decide (a.get t x = (u : ℤ)))
    (fun t ht => hb t (List.mem_range.1 ht))]
  rfl

theorem colSum_frameCount (a b : Arr) (x y : Nat) (nA : ℕ) (v : ℕ)
    (ha : ∀ t, t < a.T → 0 ≤ a.get t x ∧ a.get t x < nA) :
    colSum (fun u v => frameCount a b x y (u : ℤ) (v : ℤ)) nA v
      = (List.range a.T).countP fun t => b.get t y = (v : ℤ) := by
  unfold colSum
  rw [sumTo_eq_sum]
  simp only [frameCount_eq]
  have : ∀ u : ℕ, (List.range a.T).countP (fun t => decide (a.get t x = (u : ℤ)) && decide (b.get t y = (v : ℤ)))
      = (List.range a.T).countP (fun t => decide (b.get t y = (v : ℤ)) && decide (a.get t x = (u : ℤ))) := by
    intro u; apply List.countP_congr; intro t _; simp [and_comm]
  simp only [this]
  rw [sum_countP_partition (List.range a.T) (fun t => a.get t x) nA (fun t => decide (b.get t y = (v : ℤ)))
    (fun t ht => ha t (List.mem_range.1 ht))]

theorem sum_margCount (a : Arr) (x : Nat) (nA : ℕ)
    (ha : ∀ t, t < a.T → 0 ≤ a.get t x ∧ a.get t x < nA) :
    ∑ u ∈ range nA, margCount a x (u : ℤ) = a.T := by
  unfold margCount
  have := sum_countP_partition (List.range a.T) (fun t => a.get t x) nA (fun _ => true)
    (fun t ht => ha t (List.mem_range.1 ht))
  simp only [Bool.true_and] at this
  rw [this]
  simp

/-- the total of the table of one feature pair is the number of frames -/
theorem total_frameCount (a b : Arr) (x y : Nat) (nA nB : ℕ)
    (ha : ∀ t, t < a.T → 0 ≤ a.get t x ∧ a.get t x < nA)
    (hb : ∀ t, t < a.T → 0 ≤ b.get t y ∧ b.get t y < nB) :
    total (fun u v => frameCount a b x y (u : ℤ) (v : ℤ)) nA nB = a.T := by
  unfold total
  rw [sumTo_eq_sum]
  simp only [rowSum_frameCount a b x y nB _ hb]
  exact sum_margCount a x nA ha

end Ens.InfoR
