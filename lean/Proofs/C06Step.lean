import Proofs.C06Partition
/-!
Per-operation refinement and coherence lemmas for C06 (`step` vs `specStep`).
-/
namespace Ens.RaggedW
variable {α β γ : Type}

/-! ### Except plumbing (named, so that statements do not mention anonymous matchers) -/

def mapOk (g : β → γ) : Except Err β → Except Err γ
  | .ok y => .ok (g y)
  | .error e => .error e

def bindE (x : Except Err β) (f : β → Except Err γ) : Except Err γ :=
  match x with
  | .ok y => f y
  | .error e => .error e

@[simp] theorem mapOk_ok (g : β → γ) (y : β) : mapOk g (.ok y : Except Err β) = .ok (g y) := rfl
@[simp] theorem mapOk_error (g : β → γ) (e : Err) : mapOk g (.error e : Except Err β) = .error e := rfl
@[simp] theorem bindE_ok (y : β) (f : β → Except Err γ) : bindE (.ok y) f = f y := rfl
@[simp] theorem bindE_error (e : Err) (f : β → Except Err γ) : bindE (.error e) f = .error e := rfl

/-! ### mapE -/

theorem mapE_congr {f g : β → Except Err γ} (l : List β) (h : ∀ x ∈ l, f x = g x) :
    mapE f l = mapE g l := by
  induction l with
  | nil => rfl
  | cons x xs ih =>
    simp only [mapE]
    rw [h x (by simp), ih (fun y hy => h y (by simp [hy]))]

theorem mapE_map_ok {f : β → Except Err γ} {g : γ → α} (l : List β) :
    mapE (fun x => mapOk g (f x)) l = mapOk (List.map g) (mapE f l) := by
  induction l with
  | nil => rfl
  | cons x xs ih =>
    simp only [mapE]
    cases hx : f x with
    | error e => simp
    | ok y =>
      simp only [mapOk_ok]
      rw [ih]
      cases mapE f xs with
      | error e => simp
      | ok ys => simp

theorem mapE_ok_mem {f : β → Except Err γ} {l : List β} {ys : List γ} (h : mapE f l = .ok ys) :
    ∀ y ∈ ys, ∃ x ∈ l, f x = .ok y := by
  induction l generalizing ys with
  | nil =>
    simp [mapE] at h
    subst h
    simp
  | cons x xs ih =>
    simp only [mapE] at h
    cases hx : f x with
    | error e => simp [hx] at h
    | ok y =>
      simp only [hx] at h
      cases hxs : mapE f xs with
      | error e => simp [hxs] at h
      | ok zs =>
        simp only [hxs] at h
        injection h with h
        subst h
        intro z hz
        rcases List.mem_cons.mp hz with rfl | hz'
        · exact ⟨x, by simp, hx⟩
        · obtain ⟨w, hw, hfw⟩ := ih hxs z hz'
          exact ⟨w, by simp [hw], hfw⟩

theorem mapE_length {f : β → Except Err γ} {l : List β} {ys : List γ} (h : mapE f l = .ok ys) :
    ys.length = l.length := by
  induction l generalizing ys with
  | nil =>
    simp [mapE] at h
    subst h
    rfl
  | cons x xs ih =>
    simp only [mapE] at h
    cases hx : f x with
    | error e => simp [hx] at h
    | ok y =>
      simp only [hx] at h
      cases hxs : mapE f xs with
      | error e => simp [hxs] at h
      | ok zs =>
        simp only [hxs] at h
        injection h with h
        subst h
        simp [ih hxs]

/-! ### index conversion on a coherent state = cell lookup on the rows -/

theorem convertOne_eq_specCell (rows : List (List α)) (p : Int × Int) :
    convertOne (rows.map List.length) p = mapOk (flatOf (rows.map List.length)) (specCell rows p) := by
  simp only [convertOne, specCell, List.length_map]
  cases normIdx rows.length p.1 with
  | error e => rfl
  | ok r =>
    simp only [List.getElem?_map]
    cases rows[r]? with
    | none => rfl
    | some row =>
      simp only [Option.map_some]
      cases normIdx row.length p.2 with
      | error e => rfl
      | ok c => rfl

theorem convertFrom2d_eq (rows : List (List α)) (iis : List (Int × Int)) :
    convertFrom2d (rows.map List.length) iis =
      mapOk (List.map (flatOf (rows.map List.length))) (mapE (specCell rows) iis) := by
  unfold convertFrom2d
  rw [mapE_congr iis (fun p _ => convertOne_eq_specCell rows p)]
  exact mapE_map_ok (f := specCell rows) (g := flatOf (rows.map List.length)) iis

theorem normIdx_lt {n : Nat} {i : Int} {r : Nat} (h : normIdx n i = .ok r) : r < n := by
  unfold normIdx at h
  split at h
  · split at h
    · injection h with h; omega
    · cases h
  · split at h
    · injection h with h; omega
    · cases h

theorem specCell_valid {rows : List (List α)} {p : Int × Int} {q : Nat × Nat}
    (h : specCell rows p = .ok q) : ∃ row, rows[q.1]? = some row ∧ q.2 < row.length := by
  simp only [specCell] at h
  cases h1 : normIdx rows.length p.1 with
  | error e => simp [h1] at h
  | ok r =>
    simp only [h1] at h
    cases h2 : rows[r]? with
    | none => simp [h2] at h
    | some row =>
      simp only [h2] at h
      cases h3 : normIdx row.length p.2 with
      | error e => simp [h3] at h
      | ok c =>
        simp only [h3] at h
        injection h with h
        subst h
        exact ⟨row, h2, normIdx_lt h3⟩

theorem mapE_specCell_valid {rows : List (List α)} {iis : List (Int × Int)} {tg : List (Nat × Nat)}
    (h : mapE (specCell rows) iis = .ok tg) : ValidTargets rows tg := by
  intro q hq
  obtain ⟨p, _, hp⟩ := mapE_ok_mem h q hq
  exact specCell_valid hp

/-! ### the shared end of every scatter write -/

/-- result of a write seen from the rows -/
def absR : Except Err (State α × Option (State α)) → Except Err (Rows α × Option (Rows α))
  | .ok (s, o) => .ok (s.array, o.map (·.array))
  | .error e => .error e

theorem rebuild_scatter {s : State α} (h : Coherent s) (tg : List (Nat × Nat))
    (hv : ValidTargets s.array tg) (vals : List α) (obj : Bool) :
    ∃ s', rebuild (scatter s.data (tg.map (flatOf s.lengths)) vals) s.lengths obj = .ok s' ∧
      s'.array = scatterRows s.array tg vals ∧ Coherent s' ∧ s'.lengths = s.lengths := by
  have hsum : s.lengths.sum = (scatter s.data (tg.map (flatOf s.lengths)) vals).length := by
    rw [length_scatter]; exact h.1
  refine ⟨_, rebuild_eq _ _ obj hsum, ?_, ⟨hsum, rfl⟩, rfl⟩
  show partition s.lengths (scatter s.data (tg.map (flatOf s.lengths)) vals) = scatterRows s.array tg vals
  have hd := h.data_eq
  have hl := h.lengths_eq
  rw [hd, hl, ← flatten_scatterRows _ _ _ hv, ← scatterRows_map_length s.array tg vals]
  exact partition_flatten _

/-- an empty container as value takes the `value[0]` path of the unpatched code -/
def Val.isEmptyContainer : Val α → Bool
  | .flat [] => true
  | .nested [] => true
  | _ => false

theorem resolve_eq_specVals (cfg : Cfg) (v : Val α) (t : Nat)
    (h : cfg.rowViewsFix = true ∨ v.isEmptyContainer = false) :
    v.resolve cfg t = specVals v t := by
  cases v with
  | scalar x => rfl
  | flat xs =>
    cases xs with
    | nil =>
      rcases h with h | h
      · simp [Val.resolve, specVals, h]
      · simp [Val.isEmptyContainer] at h
    | cons x xs => simp [Val.resolve, specVals]
  | nested xss =>
    cases xss with
    | nil =>
      rcases h with h | h
      · simp [Val.resolve, specVals, h]
      · simp [Val.isEmptyContainer] at h
    | cons x xs => simp [Val.resolve, specVals]

/-- the rows of a result state -/
def arrR : Except Err (State α) → Except Err (Rows α)
  | .ok s => .ok s.array
  | .error e => .error e

/-- the conversion of `iis` lands exactly on the cells `tg` of the rows -/
theorem scatterWrite_refines (cfg : Cfg) {s : State α} (h : Coherent s) (iis : List (Int × Int))
    (v : Val α) (hval : cfg.rowViewsFix = true ∨ v.isEmptyContainer = false) :
    arrR (scatterWrite cfg s iis v) =
      bindE (mapE (specCell s.array) iis) (fun tg => specScatter s.array tg v) ∧
    ∀ s', scatterWrite cfg s iis v = .ok s' → Coherent s' ∧ s'.lengths = s.lengths := by
  have hl := h.lengths_eq
  unfold scatterWrite
  rw [hl, convertFrom2d_eq s.array iis, ← hl]
  cases hm : mapE (specCell s.array) iis with
  | error e => simp [arrR]
  | ok tg =>
    simp only [mapOk_ok, bindE_ok, List.length_map, specScatter]
    rw [resolve_eq_specVals cfg v tg.length hval]
    cases specVals v tg.length with
    | error e => simp [arrR]
    | ok vals =>
      obtain ⟨s', h1, h2, h3, h4⟩ := rebuild_scatter h tg (mapE_specCell_valid hm) vals s.objDtype
      simp only [h1, arrR, h2, true_and]
      intro s'' hs
      injection hs with hs
      subst hs
      exact ⟨h3, h4⟩

end Ens.RaggedW

namespace Ens.RaggedW
variable {α β γ : Type}

/-- variant of `scatterWrite_refines` when the flat indices are already known to be the cells `tg` -/
theorem scatterWrite_of_flat (cfg : Cfg) {s : State α} (h : Coherent s) (iis : List (Int × Int))
    (tg : List (Nat × Nat)) (hflat : convertFrom2d s.lengths iis = .ok (tg.map (flatOf s.lengths)))
    (hv : ValidTargets s.array tg)
    (v : Val α) (hval : cfg.rowViewsFix = true ∨ v.isEmptyContainer = false) :
    arrR (scatterWrite cfg s iis v) = specScatter s.array tg v ∧
    ∀ s', scatterWrite cfg s iis v = .ok s' → Coherent s' ∧ s'.lengths = s.lengths := by
  unfold scatterWrite
  rw [hflat]
  simp only [List.length_map, specScatter]
  rw [resolve_eq_specVals cfg v tg.length hval]
  cases specVals v tg.length with
  | error e => simp [arrR]
  | ok vals =>
    obtain ⟨s', h1, h2, h3, h4⟩ := rebuild_scatter h tg hv vals s.objDtype
    simp only [h1, arrR, h2, true_and]
    intro s'' hs
    injection hs with hs
    subst hs
    exact ⟨h3, h4⟩

/-- a cell of the rows read through the flat data -/
theorem getElem?_flatten_flatOf (rows : List (List α)) (p : Nat × Nat) (row : List α)
    (h1 : rows[p.1]? = some row) (h2 : p.2 < row.length) :
    rows.flatten[flatOf (rows.map List.length) p]? = row[p.2]? := by
  obtain ⟨r, c⟩ := p
  simp only [flatOf] at *
  induction rows generalizing r with
  | nil => simp at h1
  | cons x xs ih =>
    cases r with
    | zero =>
      simp only [List.getElem?_cons_zero, Option.some.injEq] at h1
      subst h1
      simp only [List.map_cons, startOf_zero, Nat.zero_add, List.flatten_cons]
      rw [List.getElem?_append_left h2]
    | succ r =>
      simp only [List.getElem?_cons_succ] at h1
      simp only [List.map_cons, startOf_cons_succ, List.flatten_cons]
      rw [List.getElem?_append_right (by omega)]
      have := ih r h1
      rw [← this]
      congr 1
      omega

theorem allEq_eq_replicate : ∀ (ls : List Nat) (l0 : Nat), allEq (l0 :: ls) = true →
    l0 :: ls = List.replicate (ls.length + 1) l0 := by
  intro ls l0 h
  simp only [allEq, List.all_eq_true, beq_iff_eq] at h
  rw [List.replicate_succ]
  congr 1
  exact List.eq_replicate_iff.mpr ⟨rfl, h⟩

theorem sum_replicate_nat (n l : Nat) : (List.replicate n l).sum = n * l := by
  induction n with
  | zero => simp
  | succ n ih => simp [List.replicate_succ, ih, Nat.succ_mul, Nat.add_comm]

/-- on consistent input every constructor path with `lengths` builds the partition -/
theorem initFlat_eq (cfg : Cfg) (d : List α) (ls : List Nat) (np obj : Bool)
    (hne : ls ≠ []) (hsum : ls.sum = d.length) (hd : d ≠ [] ∨ cfg.readsFix = true) :
    initFlat cfg d ls np obj = .ok ⟨d, ls, partition ls d, np, obj⟩ := by
  unfold initFlat
  have h0 : (d.isEmpty && !cfg.readsFix) = false := by
    rcases hd with hd | hd
    · cases d with
      | nil => exact absurd rfl hd
      | cons x xs => simp
    · simp [hd]
  rw [h0]
  cases ls with
  | nil => exact absurd rfl hne
  | cons l0 ls =>
    simp only [Bool.false_eq_true, if_false]
    by_cases hb : (np && allEq (l0 :: ls)) = true
    · simp only [hb, if_true]
      have hnp : np = true := by
        cases np <;> simp_all
      have hall : allEq (l0 :: ls) = true := by
        cases np <;> simp_all
      have hrep := allEq_eq_replicate ls l0 hall
      have hs : (ls.length + 1) * l0 = d.length := by
        rw [← hsum, hrep, sum_replicate_nat]
      by_cases hr : cfg.readsFix = true
      · simp only [hr, if_true, List.length_cons, hs, hnp]
      · simp only [hr, Bool.false_eq_true, if_false]
        have hdne : d ≠ [] := by
          rcases hd with hd | hd
          · exact hd
          · exact absurd hd hr
        have hl0 : l0 ≠ 0 := by
          intro hz
          subst hz
          simp at hs
          exact hdne (List.eq_nil_of_length_eq_zero hs.symm)
        simp only [hl0, if_false]
        have hmod : d.length % l0 = 0 := by
          rw [← hs]; exact Nat.mul_mod_left _ _
        simp only [hmod, if_true]
        have hdiv : d.length / l0 = ls.length + 1 := by
          rw [← hs]; exact Nat.mul_div_cancel _ (Nat.pos_of_ne_zero hl0)
        rw [hdiv, ← hrep, hnp]
    · simp only [hb, Bool.false_eq_true, if_false]
      rw [partitionList_of_sum _ _ hsum]

end Ens.RaggedW
