import Proofs.C13Call
/-! The mathematical distances and the row sums of the model. -/
namespace Ens.Dist
open Ens.Sched

/-- Σ_j (x_j − y_j)²  (squared 2-norm of x − y) -/
def sqDist (xs ys : List Rat) : Rat := ((xs.zip ys).map (fun p => (p.1 - p.2) ^ 2)).sum
/-- Σ_j |x_j − y_j|  (1-norm of x − y) -/
def l1Dist (xs ys : List Rat) : Rat := ((xs.zip ys).map (fun p => |p.1 - p.2|)).sum
/-- #{ j | x_j ≠ y_j } -/
def hammingCount (xs ys : List Int) : Nat := ((xs.zip ys).filter (fun p => p.1 ≠ p.2)).length
/-- integer data seen as rationals -/
def toRat (l : List Int) : List Rat := l.map (fun (z : Int) => (z : Rat))

theorem sqDist_nonneg (xs ys : List Rat) : 0 ≤ sqDist xs ys :=
  sum_map_nonneg _ _ (fun p _ => sq_nonneg _)

theorem zip_toRat (xs ys : List Int) :
    (toRat xs).zip (toRat ys) = (xs.zip ys).map (fun p => (((p.1 : Int) : Rat), ((p.2 : Int) : Rat))) := by
  simp [toRat, List.zip_map]

theorem sum_euclid_rat (xs ys : List Rat) :
    (rowTerms (termRat .euclidean) xs ys).sum = sqDist xs ys := by
  unfold rowTerms sqDist
  apply sum_map_congr
  intro p _; simp only [termRat]; ring

theorem sum_manhattan_rat (xs ys : List Rat) :
    (rowTerms (termRat .manhattan) xs ys).sum = l1Dist xs ys := by
  unfold rowTerms l1Dist
  apply sum_map_congr
  intro p _; exact termRat_manhattan p.1 p.2

theorem sum_euclid_int (c : CArith) (xs ys : List Int)
    (h : ∀ p ∈ xs.zip ys, NoOverflowSq c p.1 p.2) :
    (rowTerms (termInt .native .euclidean c) xs ys).sum = sqDist (toRat xs) (toRat ys) := by
  unfold rowTerms sqDist
  rw [zip_toRat, List.map_map]
  apply sum_map_congr
  intro p hp
  simp only [Function.comp, termInt_euclid c p.1 p.2 (h p hp)]; ring

theorem sum_manhattan_int (c : CArith) (xs ys : List Int)
    (h : ∀ p ∈ xs.zip ys, NoOverflowDiff c p.1 p.2) :
    (rowTerms (termInt .native .manhattan c) xs ys).sum = l1Dist (toRat xs) (toRat ys) := by
  unfold rowTerms l1Dist
  rw [zip_toRat, List.map_map]
  apply sum_map_congr
  intro p hp
  simp only [Function.comp, termInt_manhattan c p.1 p.2 (h p hp)]

theorem sum_ite_eq_filter_length {α} (l : List α) (P : α → Prop) [DecidablePred P] :
    (l.map (fun a => if P a then (1 : Rat) else 0)).sum = ((l.filter (fun a => decide (P a))).length : Rat) := by
  induction l with
  | nil => simp
  | cons a as ih =>
    rw [List.map_cons, List.sum_cons, ih, List.filter_cons]
    by_cases h : P a
    · simp [h]; ring
    · simp [h]

theorem sum_euclid_int_viaDouble (c : CArith) (xs ys : List Int) :
    (rowTerms (termInt .viaDouble .euclidean c) xs ys).sum = sqDist (toRat xs) (toRat ys) := by
  unfold rowTerms sqDist
  rw [zip_toRat, List.map_map]
  apply sum_map_congr
  intro p _
  simp only [Function.comp, termInt_euclid_viaDouble]; ring

theorem sum_manhattan_int_viaDouble (c : CArith) (xs ys : List Int) :
    (rowTerms (termInt .viaDouble .manhattan c) xs ys).sum = l1Dist (toRat xs) (toRat ys) := by
  unfold rowTerms l1Dist
  rw [zip_toRat, List.map_map]
  apply sum_map_congr
  intro p _
  simp only [Function.comp, termInt_manhattan_viaDouble]

theorem sum_hamming_int (a : IntArith) (c : CArith) (xs ys : List Int) :
    (rowTerms (termInt a .hamming c) xs ys).sum = (hammingCount xs ys : Rat) := by
  unfold rowTerms hammingCount
  have : (xs.zip ys).map (fun p => termInt a .hamming c p.1 p.2)
      = (xs.zip ys).map (fun p => if p.1 ≠ p.2 then (1 : Rat) else 0) := by
    apply List.map_congr_left; intro p _; exact termInt_hamming a c p.1 p.2
  rw [this, sum_ite_eq_filter_length]

theorem mem_zip_inRange (t : DType) (xs ys : List Int)
    (hx : ∀ x ∈ xs, t.inRange x) (hy : ∀ y ∈ ys, t.inRange y) (p : Int × Int) (hp : p ∈ xs.zip ys) :
    t.inRange p.1 ∧ t.inRange p.2 := by
  have := List.of_mem_zip hp
  exact ⟨hx _ this.1, hy _ this.2⟩

theorem rowTerms_length {ε} (term : ε → ε → Rat) (xs ys : List ε) (h : xs.length = ys.length) :
    (rowTerms term xs ys).length = ys.length := by
  simp [rowTerms, h]

/-! ### independence of the initial buffer content, call level -/

theorem kernelRun_init_independent {ε} (k : Kernel) (term : ε → ε → Rat) (X y : Arr ε)
    (out1 out2 : Arr Cell) (choices1 choices2 : List Nat) (r1 r2 : Result)
    (hoff : out1.offset = out2.offset) (hsh : out1.shape = out2.shape) (hst : out1.strides = out2.strides)
    (h1 : kernelRun k term X y out1 choices1 = .ok r1)
    (h2 : kernelRun k term X y out2 choices2 = .ok r2) :
    ∃ n so, out1.shape = [n] ∧ out1.strides = [so] ∧
      ∀ i, i < n → r1.buf[outPos out1.offset so i]? = r2.buf[outPos out1.offset so i]?
                   ∧ (r1.buf[outPos out1.offset so i]?).isSome := by
  obtain ⟨n, w, so, rows, ys, s1⟩ := kernelRun_spec k term X y out1 choices1 r1 h1
  obtain ⟨n', w', so', rows', ys', s2⟩ := kernelRun_spec k term X y out2 choices2 r2 h2
  have e1 : n = n' := by
    have := s1.hshape; rw [hsh, s2.hshape] at this; simpa using this.symm
  have e2 : so = so' := by
    have := s1.hstr; rw [hst, s2.hstr] at this; simpa using this.symm
  have e3 : w = w' := by
    have := s1.hy; rw [s2.hy] at this; simpa using this.symm
  subst e1 e2 e3
  have e4 : rows = rows' := by
    have := s1.hrows; rw [s2.hrows] at this; simpa using this.symm
  have e5 : ys = ys' := by
    have := s1.hys; rw [s2.hys] at this; simpa using this.symm
  subst e4 e5
  refine ⟨n, so, s1.hshape, s1.hstr, fun i hi => ?_⟩
  have hlt : i < rows.length := by rw [s1.hrowsLen]; exact hi
  obtain ⟨i1, _, hr1⟩ := s1.hrow i rows[i] (List.getElem?_eq_getElem hlt)
  obtain ⟨i2, _, hr2⟩ := s2.hrow i rows[i] (List.getElem?_eq_getElem hlt)
  rw [← hoff] at hr2
  rw [hr1, hr2, rowResult_init k w _ i1 i2]
  exact ⟨rfl, rfl⟩

end Ens.Dist
