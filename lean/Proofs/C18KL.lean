import Proofs.C18Bridge
import Mathlib.Algebra.BigOperators.Fin
/-!
`kl_divergence`: the value of the model's term list is `klSum` over the positions of the two
vectors; non-negativity and the equality case.
-/
namespace Ens.InfoR
open Finset Ens Ens.Info

theorem foldl_add_eq (l : List ℚ) (a : ℚ) : l.foldl (· + ·) a = a + l.sum := by
  induction l generalizing a with
  | nil => simp
  | cons x xs ih => simp [List.foldl_cons, ih, add_assoc]

theorem ratSum_eq_sum (l : List ℚ) : ratSum l = l.sum := by
  unfold ratSum; rw [foldl_add_eq]; simp

theorem cast_list_sum (l : List ℚ) : ((l.sum : ℚ) : ℝ) = (List.map (fun q : ℚ => (q : ℝ)) l).sum := by
  induction l with
  | nil => simp
  | cons x xs ih => simp [ih]

/-- what a successful `klTerms` call establishes -/
theorem klTerms_ok (P Q : List ℚ) (ts : List Term) (h : klTerms P Q = .ok (.terms ts)) :
    P.length = Q.length ∧ (∀ p ∈ P, 0 ≤ p) ∧ (∀ q ∈ Q, 0 ≤ q) ∧
    (∀ x ∈ P.zip Q, 0 < x.1 → x.2 ≠ 0) ∧
    ts = (P.zip Q).filterMap fun x => if x.1 > 0 then some (x.1, x.1 / x.2) else none := by
  unfold klTerms at h
  simp only [bind, Except.bind, pure, Except.pure, throw, throwThe, MonadExceptOf.throw] at h
  split at h
  · cases h
  · rename_i h1
    split at h
    · cases h
    · rename_i h2
      split at h
      · cases h
      · rename_i h3
        have hts : ts = (P.zip Q).filterMap fun x => if x.1 > 0 then some (x.1, x.1 / x.2) else none := by
          injection h with h; injection h with h; exact h.symm
        refine ⟨by omega, ?_, ?_, ?_, hts⟩
        · intro p hp
          by_contra hneg
          apply h2; left
          exact List.any_eq_true.2 ⟨p, hp, by simpa using lt_of_not_ge hneg⟩
        · intro q hq
          by_contra hneg
          apply h2; right
          exact List.any_eq_true.2 ⟨q, hq, by simpa using lt_of_not_ge hneg⟩
        · intro x hx hpos h0
          apply h3
          exact List.any_eq_true.2 ⟨x, hx, by simp [hpos, h0]⟩

theorem termsVal_klList (l : List (ℚ × ℚ)) (h0 : ∀ x ∈ l, 0 ≤ x.1) :
    termsVal (l.filterMap fun x => if x.1 > 0 then some (x.1, x.1 / x.2) else none)
      = (l.map fun x => (x.1 : ℝ) * Real.log ((x.1 : ℝ) / (x.2 : ℝ))).sum := by
  induction l with
  | nil => simp [termsVal]
  | cons x xs ih =>
    have ih' := ih (fun y hy => h0 y (List.mem_cons_of_mem _ hy))
    have hx := h0 x List.mem_cons_self
    unfold termsVal at ih' ⊢
    by_cases hpos : x.1 > 0
    · simp only [List.filterMap_cons, hpos, if_true, List.map_cons, List.sum_cons, ih']
      simp [termVal, Rat.cast_div]
    · have : x.1 = 0 := le_antisymm (not_lt.1 hpos) hx
      simp only [List.filterMap_cons, hpos, if_false, List.map_cons, List.sum_cons, ih']
      simp [this]

/-- the value of the term list as a `klSum` over positions -/
theorem klTerms_val (P Q : List ℚ) (ts : List Term) (h : klTerms P Q = .ok (.terms ts)) :
    termsVal ts = klSum (univ : Finset (Fin (P.zip Q).length))
      (fun i => (((P.zip Q)[i.1]).1 : ℝ)) (fun i => (((P.zip Q)[i.1]).2 : ℝ)) := by
  obtain ⟨_, hP, _, _, rfl⟩ := klTerms_ok P Q ts h
  rw [termsVal_klList]
  · unfold klSum
    exact (Fin.sum_univ_fun_getElem (P.zip Q)
      (fun x => (x.1 : ℝ) * Real.log ((x.1 : ℝ) / (x.2 : ℝ)))).symm
  · intro x hx
    exact hP x.1 (List.of_mem_zip hx).1

theorem sum_fst_zip (P Q : List ℚ) (hl : P.length = Q.length) :
    ∑ i : Fin (P.zip Q).length, (((P.zip Q)[i.1]).1 : ℝ) = ((ratSum P : ℚ) : ℝ) := by
  rw [Fin.sum_univ_fun_getElem (P.zip Q) (fun x => (x.1 : ℝ)), ratSum_eq_sum, cast_list_sum]
  have : (P.zip Q).map (fun x => (x.1 : ℝ)) = List.map (fun q : ℚ => (q : ℝ)) (List.map Prod.fst (P.zip Q)) := by
    rw [List.map_map]; rfl
  rw [this, List.map_fst_zip (by omega)]

theorem sum_snd_zip (P Q : List ℚ) (hl : P.length = Q.length) :
    ∑ i : Fin (P.zip Q).length, (((P.zip Q)[i.1]).2 : ℝ) = ((ratSum Q : ℚ) : ℝ) := by
  rw [Fin.sum_univ_fun_getElem (P.zip Q) (fun x => (x.2 : ℝ)), ratSum_eq_sum, cast_list_sum]
  have : (P.zip Q).map (fun x => (x.2 : ℝ)) = List.map (fun q : ℚ => (q : ℝ)) (List.map Prod.snd (P.zip Q)) := by
    rw [List.map_map]; rfl
  rw [this, List.map_snd_zip (by omega)]

theorem kl_hyps (P Q : List ℚ) (ts : List Term) (h : klTerms P Q = .ok (.terms ts)) :
    (∀ i ∈ (univ : Finset (Fin (P.zip Q).length)), (0 : ℝ) ≤ (((P.zip Q)[i.1]).1 : ℝ)) ∧
    (∀ i ∈ (univ : Finset (Fin (P.zip Q).length)), (0 : ℝ) ≤ (((P.zip Q)[i.1]).2 : ℝ)) ∧
    (∀ i ∈ (univ : Finset (Fin (P.zip Q).length)), (0 : ℝ) < (((P.zip Q)[i.1]).1 : ℝ) →
        (0 : ℝ) < (((P.zip Q)[i.1]).2 : ℝ)) := by
  obtain ⟨_, hP, hQ, hac, _⟩ := klTerms_ok P Q ts h
  refine ⟨?_, ?_, ?_⟩
  · intro i _
    exact_mod_cast hP _ (List.of_mem_zip (List.getElem_mem i.2)).1
  · intro i _
    exact_mod_cast hQ _ (List.of_mem_zip (List.getElem_mem i.2)).2
  · intro i _ hpos
    have hp : (0 : ℚ) < ((P.zip Q)[i.1]).1 := by exact_mod_cast hpos
    have hq0 : (0 : ℚ) ≤ ((P.zip Q)[i.1]).2 := hQ _ (List.of_mem_zip (List.getElem_mem i.2)).2
    have hne := hac _ (List.getElem_mem i.2) hp
    have : (0 : ℚ) < ((P.zip Q)[i.1]).2 := lt_of_le_of_ne hq0 (Ne.symm hne)
    exact_mod_cast this

/-- relative entropy is non-negative whenever `Σ Q ≤ Σ P` (in particular for two distributions) -/
theorem kl_nonneg_core (P Q : List ℚ) (ts : List Term) (h : klTerms P Q = .ok (.terms ts))
    (hsum : ratSum Q ≤ ratSum P) : 0 ≤ termsVal ts := by
  rw [klTerms_val P Q ts h]
  obtain ⟨hl, _⟩ := klTerms_ok P Q ts h
  obtain ⟨a, b, c⟩ := kl_hyps P Q ts h
  apply klSum_nonneg _ _ _ a b c
  rw [sum_fst_zip P Q hl, sum_snd_zip P Q hl]
  exact_mod_cast hsum

/-- … and zero exactly for equal distributions -/
theorem kl_eq_zero_iff_core (P Q : List ℚ) (ts : List Term) (h : klTerms P Q = .ok (.terms ts))
    (hsum : ratSum Q = ratSum P) : termsVal ts = 0 ↔ P = Q := by
  rw [klTerms_val P Q ts h]
  obtain ⟨hl, _⟩ := klTerms_ok P Q ts h
  obtain ⟨a, b, c⟩ := kl_hyps P Q ts h
  rw [klSum_eq_zero_iff _ _ _ a b c (by rw [sum_fst_zip P Q hl, sum_snd_zip P Q hl, hsum])]
  constructor
  · intro hall
    apply List.ext_getElem hl
    intro i h1 h2
    have hi : i < (P.zip Q).length := by simp [List.length_zip]; omega
    have := hall ⟨i, hi⟩ (Finset.mem_univ _)
    simp only [List.getElem_zip] at this
    exact_mod_cast this
  · intro e i _
    subst e
    simp [List.getElem_zip]

end Ens.InfoR
