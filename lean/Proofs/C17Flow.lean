/- C17 helper: acyclic conserved flows — the `subtract` scheme decomposes them completely. -/
import Proofs.C17Loop

namespace Ens.Paths
open Ens

/-! ### successor / predecessor of a state on a simple path -/

theorem mem_edges_tail (p : List Nat) (e : Nat × Nat) (h : e ∈ edges p) : e.2 ∈ p.tail := by
  obtain ⟨a, b⟩ := e
  exact (List.of_mem_zip h).2

theorem edges_succ_unique : ∀ (p : List Nat), p.Nodup → ∀ v j j', (v, j) ∈ edges p →
    (v, j') ∈ edges p → j = j'
  | [], _, v, j, j', h, _ => by simp [edges] at h
  | [x], _, v, j, j', h, _ => by simp [edges] at h
  | a :: b :: t, hnd, v, j, j', h, h' => by
    rw [edges_cons_cons] at h h'
    have hat : a ∉ b :: t := (List.nodup_cons.1 hnd).1
    rcases List.mem_cons.1 h with h | h <;> rcases List.mem_cons.1 h' with h' | h'
    · cases h; cases h'; rfl
    · cases h; exact absurd (mem_edges _ _ h').1 hat
    · cases h'; exact absurd (mem_edges _ _ h).1 hat
    · exact edges_succ_unique (b :: t) (List.nodup_cons.1 hnd).2 v j j' h h'

theorem edges_pred_unique : ∀ (p : List Nat), p.Nodup → ∀ v i i', (i, v) ∈ edges p →
    (i', v) ∈ edges p → i = i'
  | [], _, v, i, i', h, _ => by simp [edges] at h
  | [x], _, v, i, i', h, _ => by simp [edges] at h
  | a :: b :: t, hnd, v, i, i', h, h' => by
    rw [edges_cons_cons] at h h'
    have hbt : b ∉ t := (List.nodup_cons.1 (List.nodup_cons.1 hnd).2).1
    rcases List.mem_cons.1 h with h | h <;> rcases List.mem_cons.1 h' with h' | h'
    · cases h; cases h'; rfl
    · cases h; exact absurd (mem_edges_tail _ _ h') hbt
    · cases h'; exact absurd (mem_edges_tail _ _ h) hbt
    · exact edges_pred_unique (b :: t) (List.nodup_cons.1 hnd).2 v i i' h h'

theorem mem_succ : ∀ (p : List Nat) (v : Nat), v ∈ p → p.getLast? ≠ some v →
    ∃ j, (v, j) ∈ edges p
  | [], v, h, _ => by cases h
  | [x], v, h, hl => by
    simp only [List.mem_singleton] at h
    subst h
    simp at hl
  | a :: b :: t, v, h, hl => by
    rw [edges_cons_cons]
    rcases List.mem_cons.1 h with rfl | h
    · exact ⟨b, List.mem_cons_self⟩
    · rw [List.getLast?_cons_cons] at hl
      obtain ⟨j, hj⟩ := mem_succ (b :: t) v h hl
      exact ⟨j, List.mem_cons_of_mem _ hj⟩

theorem mem_pred : ∀ (p : List Nat) (v : Nat), v ∈ p → p.head? ≠ some v →
    ∃ i, (i, v) ∈ edges p
  | [], v, h, _ => by cases h
  | [x], v, h, hh => by
    simp only [List.mem_singleton] at h
    subst h
    simp at hh
  | a :: b :: t, v, h, hh => by
    rw [edges_cons_cons]
    have hva : v ≠ a := by
      intro e; subst e; simp at hh
    rcases List.mem_cons.1 h with rfl | h
    · exact absurd rfl hva
    · by_cases hvb : v = b
      · subst hvb; exact ⟨a, List.mem_cons_self⟩
      · obtain ⟨i, hi⟩ := mem_pred (b :: t) v h (by simp; exact fun e => hvb e.symm)
        exact ⟨i, List.mem_cons_of_mem _ hi⟩

/-! ### the `subtract` step, exactly -/

theorem subtractPath_exact (G : Nat → Nat → Nat) (p : List Nat) (m : Nat)
    (hne : edges p ≠ []) (hle : ∀ e ∈ edges p, m ≤ G e.1 e.2) (hex : ∃ e ∈ edges p, G e.1 e.2 = m) :
    ∃ G', subtractPath G p = .ok G' ∧
      ∀ i j, G' i j = if (i, j) ∈ edges p then G i j - m else G i j := by
  unfold subtractPath
  cases hm : firstMin G (edges p) with
  | none => exact absurd ((firstMin_eq_none _ _).1 hm) hne
  | some e0 =>
    simp only
    obtain ⟨h0mem, h0min⟩ := firstMin_spec G _ e0 hm
    have hm0 : G e0.1 e0.2 = m := by
      obtain ⟨em, hem, hemv⟩ := hex
      have h1 := hle e0 h0mem
      have h2 := h0min em hem
      omega
    cases hm' : firstMin (fun i j => if (edges p).contains (i, j) = true then G i j - G e0.1 e0.2
        else G i j) (edges p) with
    | none => exact absurd ((firstMin_eq_none _ _).1 hm') hne
    | some e' =>
      refine ⟨_, rfl, ?_⟩
      obtain ⟨h'mem, h'min⟩ := firstMin_spec _ _ e' hm'
      have hz := h'min e0 h0mem
      have hc0 : (edges p).contains (e0.1, e0.2) = true := by
        simp only [List.contains_iff_mem]; exact h0mem
      simp only [hc0, if_true, Nat.sub_self, Nat.le_zero_eq] at hz
      intro i j
      simp only [setZero, List.contains_iff_mem, hm0]
      split
      · next hij =>
        obtain ⟨rfl, rfl⟩ := hij
        simp only [List.contains_iff_mem, hm0] at hz
        exact hz.symm
      · rfl

/-- row and column sums after subtracting `m` along a simple path -/
theorem row_sub {n : Nat} (G G' : Nat → Nat → Nat) (p : List Nat) (m : Nat) (hnd : p.Nodup)
    (hlt : ∀ x ∈ p, x < n) (hle : ∀ e ∈ edges p, m ≤ G e.1 e.2)
    (hG' : ∀ i j, G' i j = if (i, j) ∈ edges p then G i j - m else G i j) (v : Nat) :
    ((∃ j, (v, j) ∈ edges p) → sumTo n (G' v) + m = sumTo n (G v)) ∧
    ((¬ ∃ j, (v, j) ∈ edges p) → sumTo n (G' v) = sumTo n (G v)) := by
  constructor
  · rintro ⟨w, hw⟩
    have hwn : w < n := hlt w (mem_edges p _ hw).2
    have := sumTo_update n (G v) (G' v) w hwn (fun j _ hne => by
      rw [hG', if_neg]
      intro hj
      exact hne (edges_succ_unique p hnd v j w hj hw))
    have h1 : G' v w = G v w - m := by rw [hG', if_pos hw]
    have h2 := hle (v, w) hw
    simp only at h2
    omega
  · intro hno
    apply sumTo_congr
    intro j _
    rw [hG', if_neg]
    intro hj
    exact hno ⟨j, hj⟩

theorem col_sub {n : Nat} (G G' : Nat → Nat → Nat) (p : List Nat) (m : Nat) (hnd : p.Nodup)
    (hlt : ∀ x ∈ p, x < n) (hle : ∀ e ∈ edges p, m ≤ G e.1 e.2)
    (hG' : ∀ i j, G' i j = if (i, j) ∈ edges p then G i j - m else G i j) (v : Nat) :
    ((∃ i, (i, v) ∈ edges p) → sumTo n (fun i => G' i v) + m = sumTo n (fun i => G i v)) ∧
    ((¬ ∃ i, (i, v) ∈ edges p) → sumTo n (fun i => G' i v) = sumTo n (fun i => G i v)) := by
  constructor
  · rintro ⟨w, hw⟩
    have hwn : w < n := hlt w (mem_edges p _ hw).1
    have := sumTo_update n (fun i => G i v) (fun i => G' i v) w hwn (fun i _ hne => by
      show G' i v = G i v
      rw [hG', if_neg]
      intro hi
      exact hne (edges_pred_unique p hnd v i w hi hw))
    have h1 : G' w v = G w v - m := by rw [hG', if_pos hw]
    have h2 := hle (w, v) hw
    simp only at h2 this
    omega
  · intro hno
    apply sumTo_congr
    intro i _
    show G' i v = G i v
    rw [hG', if_neg]
    intro hi
    exact hno ⟨i, hi⟩

/-! ### acyclic conserved flows -/

/-- `G` is an acyclic flow from `S` to `T` on `[0,n)`: positive entries go up in `rank`, never enter
a source or leave a sink, and every other state is balanced -/
structure Flow (n : Nat) (G : Nat → Nat → Nat) (S T : List Nat) (rank : Nat → Nat) : Prop where
  supp : ∀ i j, 0 < G i j → i < n ∧ j < n ∧ rank i < rank j ∧ j ∉ S ∧ i ∉ T
  cons : ∀ v, v < n → v ∉ S → v ∉ T → sumTo n (fun i => G i v) = sumTo n (G v)

theorem sumTo_pos (n : Nat) (f : Nat → Nat) (h : 0 < sumTo n f) : ∃ k, k < n ∧ 0 < f k := by
  induction n with
  | zero => simp [sumTo] at h
  | succ m ih =>
    simp only [sumTo] at h
    by_cases hm : 0 < f m
    · exact ⟨m, by omega, hm⟩
    · obtain ⟨k, hk, hfk⟩ := ih (by omega)
      exact ⟨k, by omega, hfk⟩

/-- from a state with positive outflow one can walk to a sink -/
theorem Flow.walk_to_sink {n : Nat} {G : Nat → Nat → Nat} {S T : List Nat} {rank : Nat → Nat}
    (h : Flow n G S T rank) (K : Nat) (hK : ∀ v, v < n → rank v ≤ K) :
    ∀ (d v : Nat), K - rank v ≤ d → v < n → 0 < sumTo n (G v) →
      ∃ q t, q.head? = some v ∧ q.getLast? = some t ∧ t ∈ T ∧ Adj G q ∧ ∀ x ∈ q, x < n
  | 0, v, hd, hv, hpos => by
    obtain ⟨w, hw, hvw⟩ := sumTo_pos n (G v) hpos
    obtain ⟨-, -, hr, -, -⟩ := h.supp v w hvw
    have := hK w hw
    omega
  | d + 1, v, hd, hv, hpos => by
    obtain ⟨w, hw, hvw⟩ := sumTo_pos n (G v) hpos
    obtain ⟨-, -, hr, hwS, -⟩ := h.supp v w hvw
    by_cases hwT : w ∈ T
    · exact ⟨[v, w], w, rfl, rfl, hwT, ⟨hvw, trivial⟩, by
        intro x hx
        simp only [List.mem_cons, List.not_mem_nil, or_false] at hx
        rcases hx with rfl | rfl <;> assumption⟩
    · have hcol : 0 < sumTo n (fun i => G i w) :=
        Nat.lt_of_lt_of_le hvw (le_sumTo n (fun i => G i w) v hv)
      rw [h.cons w hw hwS hwT] at hcol
      obtain ⟨q, t, hh, hl, ht, hadj, hlt⟩ := h.walk_to_sink K hK d w (by omega) hw hcol
      cases q with
      | nil => simp at hh
      | cons a rest =>
        simp only [List.head?_cons, Option.some.injEq] at hh
        subst hh
        refine ⟨v :: a :: rest, t, rfl, by rw [List.getLast?_cons_cons]; exact hl, ht,
          ⟨hvw, hadj⟩, ?_⟩
        intro x hx
        rcases List.mem_cons.1 hx with rfl | hx
        · exact hv
        · exact hlt x hx

/-- positive outflow of the sources ⇒ a source-to-sink walk exists -/
theorem Flow.walk_of_outflow {n : Nat} {G : Nat → Nat → Nat} {S T : List Nat} {rank : Nat → Nat}
    (h : Flow n G S T rank) (hpos : 0 < outflow n G S) :
    ∃ q s t, q.head? = some s ∧ s ∈ S ∧ q.getLast? = some t ∧ t ∈ T ∧ Adj G q ∧ ∀ x ∈ q, x < n := by
  obtain ⟨s, hs, hrow⟩ := sumTo_pos n _ hpos
  by_cases hsS : s ∈ S
  · rw [if_pos hsS] at hrow
    obtain ⟨q, t, h1, h2, h3, h4, h5⟩ := h.walk_to_sink (sumTo n rank)
      (fun v hv => le_sumTo n rank v hv) _ s (Nat.le_refl _) hs hrow
    exact ⟨q, s, t, h1, hsS, h2, h3, h4, h5⟩
  · rw [if_neg hsS] at hrow; omega

/-- one `subtract` step keeps the flow a flow and lowers the outflow of the sources by exactly `f` -/
theorem Flow.subtract_step {n : Nat} {G G' : Nat → Nat → Nat} {S T : List Nat} {rank : Nat → Nat}
    {p : List Nat} {f : Nat} (h : Flow n G S T rank) (hspec : TopSpec n G S T p (Ext.fin f))
    (hrem : subtractPath G p = .ok G') :
    Flow n (freeze n G') S T rank ∧ outflow n (freeze n G') S + f = outflow n G S := by
  obtain ⟨s, y, rest, hq, hsS, hb⟩ := hspec.fin_head
  obtain ⟨hmin, hex⟩ := bneck_fin_iff G p f hb
  obtain ⟨G1, hG1, hexact⟩ := subtractPath_exact G p f hspec.edges_ne hmin hex
  rw [hrem] at hG1
  cases hG1
  obtain ⟨t, hlast, htT⟩ := hspec.last_mem
  have hle : ∀ i j, freeze n G' i j ≤ G i j := by
    intro i j
    refine le_trans (freeze_le n G' i j) ?_
    rw [hexact]; split <;> omega
  have hrowF : ∀ v, v < n → sumTo n (freeze n G' v) = sumTo n (G' v) := fun v hv =>
    sumTo_congr n _ _ (fun j hj => freeze_eq n G' v j hv hj)
  have hcolF : ∀ v, v < n → sumTo n (fun i => freeze n G' i v) = sumTo n (fun i => G' i v) :=
    fun v hv => sumTo_congr n _ _ (fun i hi => freeze_eq n G' i v hi hv)
  have hrow := row_sub (n := n) G G' p f hspec.nodup hspec.all_lt hmin hexact
  have hcol := col_sub (n := n) G G' p f hspec.nodup hspec.all_lt hmin hexact
  have hpos := adj_edges G p hspec.adj
  refine ⟨⟨?_, ?_⟩, ?_⟩
  · intro i j hij
    exact h.supp i j (Nat.lt_of_lt_of_le hij (hle i j))
  · intro v hv hvS hvT
    rw [hrowF v hv, hcolF v hv]
    have hc := h.cons v hv hvS hvT
    by_cases hvp : v ∈ p
    · have hhead : p.head? ≠ some v := by
        rw [hq]; simp only [List.head?_cons, ne_eq, Option.some.injEq]
        intro e; subst e; exact hvS hsS
      have hlast' : p.getLast? ≠ some v := by
        rw [hlast]; simp only [ne_eq, Option.some.injEq]
        intro e; subst e; exact hvT htT
      have h1 := (hrow v).1 (mem_succ p v hvp hlast')
      have h2 := (hcol v).1 (mem_pred p v hvp hhead)
      omega
    · have h1 := (hrow v).2 (fun ⟨j, hj⟩ => hvp (mem_edges p _ hj).1)
      have h2 := (hcol v).2 (fun ⟨i, hi⟩ => hvp (mem_edges p _ hi).2)
      omega
  · unfold outflow
    have hsn : s < n := hspec.all_lt s (by rw [hq]; simp)
    have hsy : (s, y) ∈ edges p := by rw [hq, edges_cons_cons]; exact List.mem_cons_self
    have := sumTo_update n (fun i => if i ∈ S then sumTo n (G i) else 0)
      (fun i => if i ∈ S then sumTo n (freeze n G' i) else 0) s hsn (fun i hi hne => by
        by_cases hiS : i ∈ S
        · simp only [if_pos hiS]
          rw [hrowF i hi]
          apply (hrow i).2
          rintro ⟨j, hj⟩
          -- a source other than the head of the path is not on the path
          have hip : i ∈ p := (mem_edges p _ hj).1
          have hhead : p.head? ≠ some i := by
            rw [hq]; simp only [List.head?_cons, ne_eq, Option.some.injEq]
            exact fun e => hne e.symm
          obtain ⟨i', hi'⟩ := mem_pred p i hip hhead
          exact (h.supp i' i (hpos _ hi')).2.2.2.1 hiS
        · simp only [if_neg hiS])
    simp only [if_pos hsS] at this
    rw [hrowF s hsn] at this
    have h1 := (hrow s).1 ⟨y, hsy⟩
    omega

/-- `net_flux[sources, :].sum()` is the outflow of the source set when no source is repeated -/
theorem totalFlux_eq_outflow (n : Nat) (F : Nat → Nat → Nat) : ∀ (S : List Nat), S.Nodup →
    (∀ s ∈ S, s < n) → totalFlux n F S = outflow n F S
  | [], _, _ => by
    unfold totalFlux outflow
    have : sumTo n (fun i => if i ∈ ([] : List Nat) then sumTo n (F i) else 0) =
        sumTo n (fun _ => 0) := sumTo_congr n _ _ (fun i _ => by simp)
    rw [this]
    have := sumTo_le_mul n 0 (fun _ => 0) (fun _ _ => Nat.le_refl _)
    simp only [List.map_nil, List.sum_nil]
    omega
  | a :: S', hnd, hlt => by
    have ih := totalFlux_eq_outflow n F S' (List.nodup_cons.1 hnd).2
      (fun s hs => hlt s (List.mem_cons_of_mem _ hs))
    have haS : a ∉ S' := (List.nodup_cons.1 hnd).1
    have han : a < n := hlt a List.mem_cons_self
    unfold totalFlux outflow at *
    have := sumTo_update n (fun i => if i ∈ S' then sumTo n (F i) else 0)
      (fun i => if i ∈ a :: S' then sumTo n (F i) else 0) a han (fun i _ hne => by
        simp only [List.mem_cons, hne, false_or])
    simp only [if_neg haS, List.mem_cons_self, if_true] at this
    simp only [List.map_cons, List.sum_cons]
    omega

section
variable (n : Nat) (S T : List Nat) (cn : Int) (cd : Nat) (tot : Nat)

/-- on an acyclic conserved flow the `subtract` loop without a path-count limit only stops once the
requested fraction of `tot = e + outflow` is explained -/
theorem pathsLoop_fraction (rank : Nat → Nat) (hdisj : ∀ s ∈ S, s ∉ T) (hc : cn ≤ (cd : Int)) :
    ∀ (fuel : Nat) (G : Nat → Nat → Nat) (c e : Nat) (r : List (List Nat × Nat)),
    Flow n G S T rank → e + outflow n G S = tot →
    pathsLoop n S T .subtract none cn cd tot fuel G c e = .ok r →
    cn * (tot : Int) ≤ ((e + fluxSum r : Nat) : Int) * (cd : Int)
  | 0, G, c, e, r, _, _, h => by simp [pathsLoop] at h
  | fuel + 1, G, c, e, r, hflow, htot, h => by
    rcases pathsLoop_succ_ok n S T .subtract none cn cd tot fuel G c e r h with
      ⟨hc0, -⟩ | ⟨-, p, fl, htp, hfl, rfl⟩ | ⟨-, p, f, htp, hcases⟩
    · simp [countReached] at hc0
    · -- no finite top path: then nothing flows out of the sources any more
      have hspec := topPath_spec n G S T p fl htp
      have hout : outflow n G S = 0 := by
        by_contra hne
        obtain ⟨q, s, t, h1, h2, h3, h4, h5, h6⟩ := hflow.walk_of_outflow (Nat.pos_of_ne_zero hne)
        have hw := hspec.widest q s t h1 h2 h3 h4 h5 h6
        cases fl with
        | fin f => exact hfl f rfl
        | ninf =>
          rw [Ext.le_ninf_iff] at hw
          exact bneck_ne_ninf G q hw
        | pinf =>
          -- `+inf` means a source is a sink
          rcases hspec.head_cases with ⟨s', hh, hs', hb⟩ | ⟨h', -⟩
          · obtain ⟨t', hl, ht'⟩ := hspec.last_mem
            cases p with
            | nil => simp at hh
            | cons a rest =>
              cases rest with
              | nil =>
                simp only [List.head?_cons, Option.some.injEq] at hh
                simp only [List.getLast?_singleton, Option.some.injEq] at hl
                subst hh; subst hl
                exact hdisj _ hs' ht'
              | cons b rest' =>
                simp only [bneck] at hb
                have := min_le_left (Ext.fin (G a b)) (bneck G (b :: rest'))
                rw [hb, Ext.pinf_le_iff] at this
                cases this
          · cases h'
      have he : e = tot := by omega
      subst he
      simp only [fluxSum, List.map_nil, List.sum_nil, Nat.add_zero]
      rw [Int.mul_comm (e : Int) (cd : Int)]
      exact Int.mul_le_mul_of_nonneg_right hc (Int.natCast_nonneg e)
    · have hspec := topPath_spec n G S T p (Ext.fin f) htp
      rcases hcases with ⟨hstop, rfl⟩ | ⟨-, G', rest, hrem, hrest, rfl⟩
      · simp only [stopNow, countReached, Bool.false_or, decide_eq_true_eq] at hstop
        simp only [fluxSum, List.map_cons, List.map_nil, List.sum_cons, List.sum_nil, Nat.add_zero]
        exact hstop
      · have hrem' : subtractPath G p = .ok G' := hrem
        obtain ⟨hflow', hout'⟩ := hflow.subtract_step hspec hrem'
        have ih := pathsLoop_fraction rank hdisj hc fuel (freeze n G') (c + 1) (e + f) rest hflow'
          (by omega) hrest
        simp only [fluxSum, List.map_cons, List.sum_cons] at ih ⊢
        have : e + f + (List.map (fun x => x.2) rest).sum = e + (f + (List.map (fun x => x.2) rest).sum) := by
          omega
        rw [this] at ih
        exact ih

end
end Ens.Paths
