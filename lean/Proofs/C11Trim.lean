import Proofs.C11Scc
/-!
C11, part 3: what `trimDisconnected` returns — entries, strong connectivity of the trimmed
matrix (paths between kept states never leave the component), the mapping.
-/
namespace Ens.Trim

section
variable {C : Nat → Nat → Nat} {n : Nat} {thr : Int} {labels : Nat → Nat} {nsub : Nat}

/-! ### inversion of the two branches -/

theorem trim_error_iff (renumber : Bool) :
    (∃ err, trimDisconnected C n labels nsub renumber = .error err) ↔ nsub = 0 := by
  unfold trimDisconnected
  by_cases h : nsub = 0
  · simp [h]
  · cases renumber <;> simp [h]

theorem trim_inv_renumber {r : Result} (h : trimDisconnected C n labels nsub true = .ok r) :
    nsub ≠ 0 ∧ r.keep = keepStates C n labels nsub ∧ r.shape = r.keep.length ∧
    (∀ a b, r.entry a b = match r.keep[a]?, r.keep[b]? with
        | some i, some j => C i j
        | _, _ => 0) ∧
    r.mapping = TrimMapping.ofTransformations (r.keep.zip (List.range r.keep.length)) := by
  unfold trimDisconnected at h
  split at h
  · cases h
  · rename_i h0
    simp only [if_true, Except.ok.injEq] at h
    subst h
    exact ⟨h0, rfl, rfl, fun _ _ => rfl, rfl⟩

theorem trim_inv_inplace {r : Result} (h : trimDisconnected C n labels nsub false = .ok r) :
    nsub ≠ 0 ∧ r.keep = keepStates C n labels nsub ∧ r.shape = n ∧
    (∀ i j, r.entry i j =
        if labels i != argmaxTo nsub (subgraphPop C n labels) ||
           labels j != argmaxTo nsub (subgraphPop C n labels) then 0 else C i j) ∧
    r.mapping = TrimMapping.ofTransformations (r.keep.zip r.keep) := by
  unfold trimDisconnected at h
  split at h
  · cases h
  · rename_i h0
    simp only [Bool.false_eq_true, if_false, Except.ok.injEq] at h
    subst h
    exact ⟨h0, rfl, rfl, fun _ _ => rfl, rfl⟩

theorem trim_keep {C : Nat → Nat → Nat} {n : Nat} {labels : Nat → Nat} {nsub : Nat} {renumber : Bool}
    {r : Result} (h : trimDisconnected C n labels nsub renumber = .ok r) :
    nsub ≠ 0 ∧ r.keep = keepStates C n labels nsub := by
  cases renumber
  · exact ⟨(trim_inv_inplace h).1, (trim_inv_inplace h).2.1⟩
  · exact ⟨(trim_inv_renumber h).1, (trim_inv_renumber h).2.1⟩

/-! ### entries -/

theorem renumber_entry {r : Result} (h : trimDisconnected C n labels nsub true = .ok r)
    {a b : Nat} (ha : a < r.keep.length) (hb : b < r.keep.length) :
    r.entry a b = C r.keep[a] r.keep[b] := by
  obtain ⟨_, _, _, he, _⟩ := trim_inv_renumber h
  rw [he, List.getElem?_eq_getElem ha, List.getElem?_eq_getElem hb]

theorem inplace_entry_in {r : Result} (h : trimDisconnected C n labels nsub false = .ok r)
    {i j : Nat} (hi : i ∈ r.keep) (hj : j ∈ r.keep) : r.entry i j = C i j := by
  obtain ⟨_, hk, _, he, _⟩ := trim_inv_inplace h
  rw [hk] at hi hj
  have h1 := (mem_members.1 hi).2
  have h2 := (mem_members.1 hj).2
  rw [he]; simp [h1, h2]

theorem inplace_entry_out {r : Result} (h : trimDisconnected C n labels nsub false = .ok r)
    {i j : Nat} (hi : i < n) (hj : j < n) (hout : i ∉ r.keep ∨ j ∉ r.keep) : r.entry i j = 0 := by
  obtain ⟨_, hk, _, he, _⟩ := trim_inv_inplace h
  rw [hk] at hout
  rw [he]
  have : labels i ≠ argmaxTo nsub (subgraphPop C n labels) ∨
      labels j ≠ argmaxTo nsub (subgraphPop C n labels) := by
    rcases hout with h' | h'
    · left; intro hh; exact h' (mem_members.2 ⟨hi, hh⟩)
    · right; intro hh; exact h' (mem_members.2 ⟨hj, hh⟩)
  rcases this with h' | h' <;> simp [h']

/-! ### paths between states of one SCC stay inside it -/

theorem edge_congr {C C' : Nat → Nat → Nat} {thr : Int} {a b a' b' : Nat} (h : C a b = C' a' b') :
    edge C thr a b = edge C' thr a' b' := by
  simp only [edge, h]

theorem rtg_lift {α β : Type} {r : α → α → Prop} {p : β → β → Prop} (f : α → β)
    (h : ∀ a b, r a b → p (f a) (f b)) {a b : α} (hab : Relation.ReflTransGen r a b) :
    Relation.ReflTransGen p (f a) (f b) := by
  induction hab with
  | refl => exact Relation.ReflTransGen.refl
  | tail _ hbc ih => exact Relation.ReflTransGen.tail ih (h _ _ hbc)

/-- a walk from `i` to `j`, with `j` reaching back to `i`, only visits states mutually reachable
    with `i`, and only uses edges between such states -/
theorem reach_restrict {e : Nat → Nat → Bool} {i j : Nat} (h1 : Reach n e i j) (h2 : Reach n e j i) :
    Relation.ReflTransGen (fun a b => Edge n e a b ∧ MutReach n e i a ∧ MutReach n e i b) i j := by
  induction h1 with
  | refl => exact Relation.ReflTransGen.refl
  | @tail b c hib hbc ih =>
    have hbi : Reach n e b i := Relation.ReflTransGen.head hbc h2
    have hic : Reach n e i c := Relation.ReflTransGen.tail hib hbc
    exact Relation.ReflTransGen.tail (ih hbi) ⟨hbc, ⟨hib, hbi⟩, ⟨hic, h2⟩⟩

/-- kept states are pairwise mutually reachable through kept states only -/
theorem keep_restricted_reach (v : Valid n (edge C thr) labels nsub) {i j : Nat}
    (hi : i ∈ keepStates C n labels nsub) (hj : j ∈ keepStates C n labels nsub) :
    Relation.ReflTransGen (fun a b => Edge n (edge C thr) a b ∧
      a ∈ keepStates C n labels nsub ∧ b ∈ keepStates C n labels nsub) i j := by
  have hin := (mem_members.1 hi).1
  have hS := keepStates_eq_sccOf v hi
  have hmr : MutReach n (edge C thr) i j := by
    rw [hS] at hj; exact ((mem_sccOf hin).1 hj).2
  refine rtg_lift id ?_ (reach_restrict hmr.1 hmr.2)
  rintro a b ⟨hab, ha, hb⟩
  refine ⟨hab, ?_, ?_⟩
  · rw [hS]; exact (mem_sccOf hin).2 ⟨hab.1, ha⟩
  · rw [hS]; exact (mem_sccOf hin).2 ⟨hab.2.1, hb⟩

theorem inplace_strongly_connected (v : Valid n (edge C thr) labels nsub) {r : Result}
    (h : trimDisconnected C n labels nsub false = .ok r) {i j : Nat}
    (hi : i ∈ r.keep) (hj : j ∈ r.keep) : Reach n (edge r.entry thr) i j := by
  have hk := (trim_inv_inplace h).2.1
  rw [hk] at hi hj
  refine rtg_lift id ?_ (keep_restricted_reach v hi hj)
  rintro a b ⟨⟨ha, hb, hab⟩, hak, hbk⟩
  refine ⟨ha, hb, ?_⟩
  rw [← hk] at hak hbk
  simp only [id]
  rw [edge_congr (inplace_entry_in h hak hbk)]; exact hab

theorem renumber_strongly_connected (v : Valid n (edge C thr) labels nsub) {r : Result}
    (h : trimDisconnected C n labels nsub true = .ok r) {a b : Nat}
    (ha : a < r.keep.length) (hb : b < r.keep.length) :
    Reach r.keep.length (edge r.entry thr) a b := by
  have hk := (trim_inv_renumber h).2.1
  have hnd : r.keep.Nodup := by
    rw [hk]; exact (members_pairwise _ _ _).imp (fun h => Nat.ne_of_lt h)
  have hma : r.keep[a] ∈ keepStates C n labels nsub := hk ▸ List.getElem_mem ha
  have hmb : r.keep[b] ∈ keepStates C n labels nsub := hk ▸ List.getElem_mem hb
  have key := rtg_lift (p := Edge r.keep.length (edge r.entry thr))
    (fun x => r.keep.idxOf x) ?_ (keep_restricted_reach v hma hmb)
  · unfold Reach; simpa [hnd.idxOf_getElem] using key
  · rintro x y ⟨⟨_, _, hxy⟩, hxk, hyk⟩
    rw [← hk] at hxk hyk
    have hx := List.idxOf_lt_length_of_mem hxk
    have hy := List.idxOf_lt_length_of_mem hyk
    refine ⟨hx, hy, ?_⟩
    rw [edge_congr (C' := C) (a' := x) (b' := y)
      (by rw [renumber_entry h hx hy, List.getElem_idxOf, List.getElem_idxOf])]
    exact hxy

/-- removed states carry no edge at all in the in-place result -/
theorem inplace_no_edge_out {r : Result} (h : trimDisconnected C n labels nsub false = .ok r)
    {i j : Nat} (hi : i < n) (hj : j < n) (hout : i ∉ r.keep ∨ j ∉ r.keep) :
    edge r.entry thr i j = false := by
  simp [edge, inplace_entry_out h hi hj hout]

end

/-! ### dictionaries and the mapping -/

theorem dictInsert_fresh {d : List (Nat × Nat)} {k v : Nat} (h : k ∉ d.map Prod.fst) :
    dictInsert d k v = d ++ [(k, v)] := by
  unfold dictInsert
  have : d.any (fun p => p.1 == k) = false := by
    rw [Bool.eq_false_iff]; intro hh
    simp only [List.any_eq_true, beq_iff_eq] at hh
    obtain ⟨p, hp, rfl⟩ := hh
    exact h (List.mem_map.2 ⟨p, hp, rfl⟩)
  simp [this]

theorem foldl_dictInsert_nodup (l : List (Nat × Nat)) :
    ∀ acc : List (Nat × Nat), ((acc ++ l).map Prod.fst).Nodup →
      l.foldl (fun d p => dictInsert d p.1 p.2) acc = acc ++ l := by
  induction l with
  | nil => intro acc _; simp
  | cons p l ih =>
    intro acc h
    have hfresh : p.1 ∉ acc.map Prod.fst := by
      simp only [List.map_append, List.map_cons, List.nodup_append, List.nodup_cons] at h
      intro hh
      exact h.2.2 _ hh _ (List.mem_cons_self) rfl
    rw [List.foldl_cons, dictInsert_fresh hfresh, ih]
    · simp
    · simpa using h

/-- a list of pairs with distinct keys is its own dict -/
theorem dictOf_nodup {l : List (Nat × Nat)} (h : (l.map Prod.fst).Nodup) : dictOf l = l := by
  unfold dictOf
  rw [foldl_dictInsert_nodup l [] (by simpa using h)]; simp

theorem dictGet_iff {l : List (Nat × Nat)} (h : (l.map Prod.fst).Nodup) (k v : Nat) :
    dictGet l k = some v ↔ (k, v) ∈ l := by
  induction l with
  | nil => simp [dictGet]
  | cons p l ih =>
    simp only [List.map_cons, List.nodup_cons] at h
    unfold dictGet at ih ⊢
    rw [List.find?_cons]
    by_cases hp : p.1 = k
    · subst hp
      simp only [beq_self_eq_true, Option.map_some, Option.some.injEq, List.mem_cons]
      constructor
      · intro hv; left; rw [← hv]
      · rintro (hv | hv)
        · rw [← hv]
        · exact absurd (List.mem_map.2 ⟨_, hv, rfl⟩) h.1
    · have hb : (p.1 == k) = false := by simpa using hp
      simp only [hb, List.mem_cons]
      rw [ih h.2]
      constructor
      · exact Or.inr
      · rintro (hv | hv)
        · exact absurd (by rw [← hv]) hp
        · exact hv

theorem swap_swap (p : Nat × Nat) : swap (swap p) = p := rfl

theorem map_swap_swap (l : List (Nat × Nat)) : (l.map swap).map swap = l := by
  simp [List.map_map, Function.comp_def, swap_swap]

theorem mem_map_swap {l : List (Nat × Nat)} {a b : Nat} : (a, b) ∈ l.map swap ↔ (b, a) ∈ l := by
  simp only [List.mem_map]
  constructor
  · rintro ⟨p, hp, h⟩
    have : p = (b, a) := by
      cases p; simp only [swap, Prod.mk.injEq] at h; simp [h.1, h.2]
    exact this ▸ hp
  · intro h; exact ⟨(b, a), h, rfl⟩

theorem map_fst_map_swap (l : List (Nat × Nat)) : (l.map swap).map Prod.fst = l.map Prod.snd := by
  simp [List.map_map, Function.comp_def, swap]

theorem map_snd_map_swap (l : List (Nat × Nat)) : (l.map swap).map Prod.snd = l.map Prod.fst := by
  simp [List.map_map, Function.comp_def, swap]

/-- a mapping built from pairs that are injective in both directions -/
theorem ofTransformations_lookup {ts : List (Nat × Nat)} (h1 : (ts.map Prod.fst).Nodup)
    (h2 : (ts.map Prod.snd).Nodup) :
    (TrimMapping.ofTransformations ts).toOriginal = ts.map swap ∧
    (TrimMapping.ofTransformations ts).toMapped = ts ∧
    (∀ t o, (TrimMapping.ofTransformations ts).originalOf t = some o ↔ (o, t) ∈ ts) ∧
    (∀ o t, (TrimMapping.ofTransformations ts).mappedOf o = some t ↔ (o, t) ∈ ts) := by
  have hk : ((ts.map swap).map Prod.fst).Nodup := by rw [map_fst_map_swap]; exact h2
  have e1 : (TrimMapping.ofTransformations ts).toOriginal = ts.map swap := by
    simp only [TrimMapping.ofTransformations]; exact dictOf_nodup hk
  have e2 : (TrimMapping.ofTransformations ts).toMapped = ts := by
    simp only [TrimMapping.toMapped, e1, map_swap_swap]; exact dictOf_nodup h1
  refine ⟨e1, e2, ?_, ?_⟩
  · intro t o
    simp only [TrimMapping.originalOf, e1]
    rw [dictGet_iff hk, mem_map_swap]
  · intro o t
    simp only [TrimMapping.mappedOf, e2]
    rw [dictGet_iff h1]

theorem mem_zip_range {l : List Nat} {o t : Nat} :
    (o, t) ∈ l.zip (List.range l.length) ↔ l[t]? = some o := by
  rw [List.range_eq_range', ← List.zipIdx_eq_zip_range', List.mem_zipIdx_iff_getElem?]

theorem mem_zip_self {l : List Nat} {o t : Nat} : (o, t) ∈ l.zip l ↔ o = t ∧ o ∈ l := by
  have : l.zip l = l.map (fun a => (a, a)) := by
    have := List.zip_map' (f := fun a : Nat => a) (g := fun a : Nat => a) (l := l)
    simpa using this
  rw [this]; simp only [List.mem_map, Prod.mk.injEq]
  constructor
  · rintro ⟨a, ha, rfl, rfl⟩; exact ⟨rfl, ha⟩
  · rintro ⟨rfl, h⟩; exact ⟨o, h, rfl, rfl⟩

end Ens.Trim
