import Model.Sched
/-!
Theorems about `Model.Sched` (core Lean only).

* `run_cell`                      the final content of cell `i` depends only on the steps addressed to `i`
* `run_interleaving_independent`  two executions with the same per-cell step lists give the same store
* `run_of_interleaving`           any interleaving of `progs` leaves `runSteps progs[i]` in cell `i`
* `seqExec_isInterleaving`, `schedule_isInterleaving`   the sequential order and every `schedule … choices` are interleavings
* `run_eq_seq`                    every interleaving computes what the sequential loop computes
* `cellSteps_retag`, `run_retag`, `run_retag_other`     cells re-addressed through an injective map
-/
namespace Ens.Sched

variable {α : Type}

theorem cellSteps_nil (i : Nat) : cellSteps ([] : Exec α) i = [] := rfl

theorem cellSteps_cons (p : Nat × (α → α)) (e : Exec α) (i : Nat) :
    cellSteps (p :: e) i = if p.1 = i then p.2 :: cellSteps e i else cellSteps e i := by
  unfold cellSteps
  by_cases h : p.1 = i
  · simp [h]
  · have : (p.1 == i) = false := by simpa using h
    simp [this, h]

theorem cellSteps_append (e1 e2 : Exec α) (i : Nat) :
    cellSteps (e1 ++ e2) i = cellSteps e1 i ++ cellSteps e2 i := by
  simp [cellSteps, List.filter_append]

theorem run_nil (out : Nat → α) : run ([] : Exec α) out = out := rfl

theorem run_cons (p : Nat × (α → α)) (e : Exec α) (out : Nat → α) :
    run (p :: e) out = run e (applyAt out p.1 p.2) := rfl

theorem run_append (e1 e2 : Exec α) (out : Nat → α) :
    run (e1 ++ e2) out = run e2 (run e1 out) := by
  simp [run, List.foldl_append]

/-- the final content of cell `i` is obtained by running, on its initial content, exactly
the steps addressed to `i` — steps addressed to other cells are invisible to it -/
theorem run_cell (exec : Exec α) (out : Nat → α) (i : Nat) :
    run exec out i = runSteps (cellSteps exec i) (out i) := by
  induction exec generalizing out with
  | nil => rfl
  | cons p ps ih =>
    rw [run_cons, ih, cellSteps_cons]
    by_cases h : p.1 = i
    · simp [h, applyAt, runSteps]
    · have h' : ¬ i = p.1 := fun e => h e.symm
      simp [h, h', applyAt]

/-- any two executions with the same per-cell programs give the same result -/
theorem run_interleaving_independent (e1 e2 : Exec α) (out : Nat → α)
    (h : ∀ i, cellSteps e1 i = cellSteps e2 i) : run e1 out = run e2 out := by
  funext i; rw [run_cell, run_cell, h]

theorem progOf_of_ge (progs : List (List (α → α))) (i : Nat) (h : progs.length ≤ i) :
    progOf progs i = [] := by
  simp [progOf, List.getD, List.getElem?_eq_none h]

/-- every interleaving of `progs` leaves in cell `i` the result of `progs[i]` -/
theorem run_of_interleaving (progs : List (List (α → α))) (e : Exec α) (out : Nat → α)
    (h : IsInterleaving progs e) (i : Nat) :
    run e out i = runSteps (progOf progs i) (out i) := by
  rw [run_cell, h i]

/-- cells that have no program are never changed -/
theorem run_of_interleaving_ge (progs : List (List (α → α))) (e : Exec α) (out : Nat → α)
    (h : IsInterleaving progs e) (i : Nat) (hi : progs.length ≤ i) :
    run e out i = out i := by
  rw [run_of_interleaving progs e out h i, progOf_of_ge progs i hi]; rfl

theorem cellSteps_tagged (k i : Nat) (steps : List (α → α)) :
    cellSteps (tagged k steps) i = if k = i then steps else [] := by
  induction steps with
  | nil => simp [tagged, cellSteps]
  | cons f fs ih =>
    have : tagged k (f :: fs) = (k, f) :: tagged k fs := rfl
    rw [this, cellSteps_cons, ih]
    by_cases h : k = i <;> simp [h]

theorem cellSteps_seqFrom (progs : List (List (α → α))) (k i : Nat) :
    cellSteps (seqFrom k progs) i = if i < k then [] else progOf progs (i - k) := by
  induction progs generalizing k with
  | nil => simp [seqFrom, cellSteps, progOf]
  | cons p ps ih =>
    simp only [seqFrom, cellSteps_append, cellSteps_tagged, ih]
    by_cases h1 : k = i
    · subst h1; simp [progOf]
    · by_cases h2 : i < k
      · have : i < k + 1 := by omega
        simp [h1, h2, this]
      · have h3 : ¬ i < k + 1 := by omega
        have h4 : i - k = (i - (k + 1)) + 1 := by omega
        simp [h1, h2, h3, progOf, h4]

/-- the sequential loop order is an interleaving -/
theorem seqExec_isInterleaving (progs : List (List (α → α))) :
    IsInterleaving progs (seqExec progs) := by
  intro i; simp [seqExec, cellSteps_seqFrom]

theorem progOf_set (progs : List (List (α → α))) (k i : Nat) (p : List (α → α)) (hk : k < progs.length) :
    progOf (progs.set k p) i = if i = k then p else progOf progs i := by
  unfold progOf
  by_cases h : i = k
  · subst h; simp [List.getD, hk]
  · have h' : ¬ k = i := fun e => h e.symm
    simp [List.getD, h, h']

/-- every execution produced by the executable scheduler is an interleaving -/
theorem schedule_isInterleaving (progs : List (List (α → α))) (choices : List Nat) :
    IsInterleaving progs (schedule progs choices) := by
  induction choices generalizing progs with
  | nil => exact seqExec_isInterleaving progs
  | cons c cs ih =>
    intro i
    unfold schedule
    generalize hk : c % progs.length = k
    simp only
    cases hp : progs[k]? with
    | none => exact ih progs i
    | some st =>
      cases st with
      | nil => exact ih progs i
      | cons f fs =>
        have hlt : k < progs.length := by
          rcases Nat.lt_or_ge k progs.length with hlt | hge
          · exact hlt
          · have : progs[k]? = none := List.getElem?_eq_none hge
            rw [this] at hp; cases hp
        simp only
        rw [cellSteps_cons, ih (progs.set k fs) i, progOf_set progs k i fs hlt]
        by_cases h : k = i
        · subst h
          simp [progOf, List.getD, hp]
        · have h' : ¬ i = k := fun e => h e.symm
          simp [h, h']

/-- every interleaving computes exactly what the sequential loop computes -/
theorem run_eq_seq (progs : List (List (α → α))) (e : Exec α) (out : Nat → α)
    (h : IsInterleaving progs e) : run e out = run (seqExec progs) out :=
  run_interleaving_independent e (seqExec progs) out
    (fun i => by rw [h i, seqExec_isInterleaving progs i])

/-- an interleaving only mentions cells that have a program -/
theorem tag_lt_of_isInterleaving (progs : List (List (α → α))) (e : Exec α)
    (h : IsInterleaving progs e) (p : Nat × (α → α)) (hp : p ∈ e) : p.1 < progs.length := by
  rcases Nat.lt_or_ge p.1 progs.length with hlt | hge
  · exact hlt
  exfalso
  have h0 := h p.1
  rw [progOf_of_ge progs p.1 hge] at h0
  have : p.2 ∈ cellSteps e p.1 := by
    unfold cellSteps
    apply List.mem_map.mpr
    exact ⟨p, List.mem_filter.mpr ⟨hp, by simp⟩, rfl⟩
  rw [h0] at this
  cases this

/-- re-addressing through a map that is injective on the cells mentioned: the steps that
reach `pos i` are exactly the steps of `i` -/
theorem cellSteps_retag (pos : Nat → Nat) (e : Exec α) (i : Nat)
    (hinj : ∀ p ∈ e, pos p.1 = pos i → p.1 = i) :
    cellSteps (retag pos e) (pos i) = cellSteps e i := by
  induction e with
  | nil => rfl
  | cons p ps ih =>
    have ih' := ih (fun q hq => hinj q (List.mem_cons_of_mem _ hq))
    have hp := hinj p (List.mem_cons_self)
    have : retag pos (p :: ps) = (pos p.1, p.2) :: retag pos ps := rfl
    rw [this, cellSteps_cons, cellSteps_cons, ih']
    by_cases h : p.1 = i
    · simp [h]
    · have : ¬ pos p.1 = pos i := fun e => h (hp e)
      simp [h, this]

/-- a position that no mentioned cell maps to receives no step -/
theorem cellSteps_retag_other (pos : Nat → Nat) (e : Exec α) (c : Nat)
    (hc : ∀ p ∈ e, pos p.1 ≠ c) : cellSteps (retag pos e) c = [] := by
  induction e with
  | nil => rfl
  | cons p ps ih =>
    have ih' := ih (fun q hq => hc q (List.mem_cons_of_mem _ hq))
    have hp := hc p (List.mem_cons_self)
    have : retag pos (p :: ps) = (pos p.1, p.2) :: retag pos ps := rfl
    rw [this, cellSteps_cons, ih']
    simp [hp]

/-- memory-level result: if row `i` writes position `pos i` and `pos` is injective on the
rows, then after ANY interleaving position `pos i` holds the result of row `i`'s program -/
theorem run_retag (pos : Nat → Nat) (progs : List (List (α → α))) (e : Exec α) (buf : Nat → α)
    (h : IsInterleaving progs e)
    (hinj : ∀ i j, i < progs.length → j < progs.length → pos i = pos j → i = j)
    (i : Nat) (hi : i < progs.length) :
    run (retag pos e) buf (pos i) = runSteps (progOf progs i) (buf (pos i)) := by
  rw [run_cell, cellSteps_retag pos e i, h i]
  intro p hp heq
  exact hinj p.1 i (tag_lt_of_isInterleaving progs e h p hp) hi heq

/-- … and every position that is not some row's position keeps its initial content -/
theorem run_retag_other (pos : Nat → Nat) (progs : List (List (α → α))) (e : Exec α) (buf : Nat → α)
    (h : IsInterleaving progs e) (c : Nat) (hc : ∀ i, i < progs.length → pos i ≠ c) :
    run (retag pos e) buf c = buf c := by
  rw [run_cell, cellSteps_retag_other pos e c]
  · rfl
  · intro p hp
    exact hc p.1 (tag_lt_of_isInterleaving progs e h p hp)

end Ens.Sched
