/- C17 helper: invariants of the `top_path` search loop. -/
import Proofs.C17Sum

namespace Ens.Paths
open Ens

/-- number of visited states `< n` -/
def nvis (n : Nat) (vis : Nat → Bool) : Nat := sumTo n (fun i => if vis i = true then 1 else 0)

theorem nvis_le (n : Nat) (vis : Nat → Bool) : nvis n vis ≤ n := by
  have := sumTo_le_mul n 1 (fun i => if vis i = true then 1 else 0) (fun i _ => by split <;> omega)
  simpa [nvis] using this

/-- edges of a walk are positive -/
def Adj (F : Nat → Nat → Nat) : List Nat → Prop
  | a :: b :: t => 0 < F a b ∧ Adj F (b :: t)
  | _ => True

/-- bottleneck of a walk: minimum flux over its edges (`+inf` for a single state) -/
def bneck (F : Nat → Nat → Nat) : List Nat → Ext
  | a :: b :: t => min (Ext.fin (F a b)) (bneck F (b :: t))
  | _ => Ext.pinf

/-- state after `queue.pop(argmax)` and `visited[u] = True` -/
def popSt (st : St) (k u : Nat) : St :=
  { st with queue := st.queue.eraseIdx k, visited := fun x => if x = u then true else st.visited x }

/-- state after the relaxation of the edges leaving `u` -/
def relaxSt (n : Nat) (F : Nat → Nat → Nat) (st : St) (k u : Nat) : St :=
  let visited : Nat → Bool := fun x => if x = u then true else st.visited x
  let ind := improved n F visited st.lab u
  { queue := st.queue.eraseIdx k ++ ind
    visited := visited
    prev := fun j => if ind.contains j then some u else st.prev j
    lab := fun j => if ind.contains j then relax (F u j) (st.lab u) else st.lab j }

theorem loop_succ (n : Nat) (F : Nat → Nat → Nat) (T : List Nat) (fuel : Nat) (st : St) :
    loop n F T (fuel + 1) st =
      match best st.lab st.queue with
      | none => some st
      | some (k, u) =>
        if T.all (popSt st k u).visited then some (popSt st k u)
        else if neighbors n F u = [] then loop n F T fuel (popSt st k u)
        else loop n F T fuel (relaxSt n F st k u) := rfl

section
variable (n : Nat) (F : Nat → Nat → Nat) (S : List Nat)

structure InvW (st : St) : Prop where
  vis_lt : ∀ v, st.visited v = true → v < n
  prev_spec : ∀ v u, st.prev v = some u →
    st.visited u = true ∧ 0 < F u v ∧ st.lab v = relax (F u v) (st.lab u) ∧ v ∉ S ∧ v < n
  src_lab : ∀ v, v ∈ S → st.lab v = Ext.pinf
  none_lab : ∀ v, st.prev v = none → v ∉ S → st.lab v = Ext.ninf
  rank : ∃ rank : Nat → Nat,
    (∀ v, st.visited v = true → rank v < nvis n st.visited) ∧
    (∀ v, st.visited v = false → rank v = nvis n st.visited) ∧
    (∀ v u, st.prev v = some u → rank u < rank v)
  vis_lab : ∀ v, st.visited v = true → st.lab v ≠ Ext.ninf

structure InvS (st : St) : Prop extends InvW n F S st where
  q_lt : ∀ z ∈ st.queue, z < n ∧ st.lab z ≠ Ext.ninf
  q_mem : ∀ z, st.visited z = false → st.lab z ≠ Ext.ninf → z ∈ st.queue
  mono : ∀ y z, st.visited y = true → st.visited z = false → st.lab z ≤ st.lab y
  fix : ∀ x y, st.visited x = true → y < n → 0 < F x y → relax (F x y) (st.lab x) ≤ st.lab y

variable {n F S}

theorem mem_improved (vis : Nat → Bool) (lab : Nat → Ext) (u j : Nat) :
    j ∈ improved n F vis lab u ↔
      j < n ∧ 0 < F u j ∧ vis j = false ∧ lab j < relax (F u j) (lab u) := by
  simp only [improved, neighbors, List.mem_filter, List.mem_range, Bool.and_eq_true,
    Bool.not_eq_eq_eq_not, Bool.not_true, decide_eq_true_eq]
  constructor
  · rintro ⟨⟨a, b⟩, c, d⟩; exact ⟨a, b, c, d⟩
  · rintro ⟨a, b, c, d⟩; exact ⟨⟨a, b⟩, c, d⟩

theorem improved_length_le (vis : Nat → Bool) (lab : Nat → Ext) (u : Nat) :
    (improved n F vis lab u).length ≤ n := by
  unfold improved neighbors
  calc _ ≤ ((List.range n).filter _).length := List.length_filter_le _ _
    _ ≤ (List.range n).length := List.length_filter_le _ _
    _ = n := List.length_range

/-- popping an already visited state relaxes nothing -/
theorem improved_stale {st : St} (h : InvS n F S st) (u : Nat) (hu : st.visited u = true)
    (vis : Nat → Bool) : improved n F vis st.lab u = [] := by
  apply List.eq_nil_iff_forall_not_mem.2
  intro j hj
  have hj' := (mem_improved vis st.lab u j).1 hj
  exact absurd hj'.2.2.2 (not_lt.2 (h.fix u j hu hj'.1 hj'.2.1))

theorem nvis_fresh (st : St) (u : Nat) (hun : u < n) (hu : st.visited u = false) :
    nvis n (fun x => if x = u then true else st.visited x) = nvis n st.visited + 1 := by
  have := sumTo_update n (fun i => if st.visited i = true then 1 else 0)
    (fun i => if (if i = u then true else st.visited i) = true then 1 else 0) u hun
    (fun i _ hne => by simp [hne])
  simp [hu] at this
  simpa [nvis] using this

theorem nvis_stale (st : St) (u : Nat) (hu : st.visited u = true) :
    nvis n (fun x => if x = u then true else st.visited x) = nvis n st.visited := by
  apply sumTo_congr
  intro i _
  by_cases hi : i = u
  · subst hi; simp [hu]
  · simp [hi]

/-- the weak invariant survives `visited[u] = True` -/
theorem popSt_invW {st : St} (h : InvS n F S st) (k u : Nat) (hu : u ∈ st.queue) :
    InvW n F S (popSt st k u) := by
  have hun := (h.q_lt u hu).1
  refine ⟨?_, ?_, h.src_lab, h.none_lab, ?_, ?_⟩
  rotate_right
  · intro v hv
    simp only [popSt] at hv
    show st.lab v ≠ Ext.ninf
    split at hv
    · next hvu => rw [hvu]; exact (h.q_lt u hu).2
    · exact h.vis_lab v hv
  · intro v hv
    simp only [popSt] at hv
    split at hv
    · next hvu => rw [hvu]; exact hun
    · exact h.vis_lt v hv
  · intro v w hp
    obtain ⟨h1, h2⟩ := h.prev_spec v w hp
    refine ⟨?_, h2⟩
    simp only [popSt]
    split
    · rfl
    · exact h1
  · obtain ⟨rank, r1, r2, r3⟩ := h.rank
    cases hvu : st.visited u with
    | true =>
      refine ⟨rank, ?_, ?_, r3⟩
      · intro v hv
        simp only [popSt] at hv ⊢
        rw [nvis_stale st u hvu]
        split at hv
        · next hvu' => rw [hvu']; exact r1 u hvu
        · exact r1 v hv
      · intro v hv
        simp only [popSt] at hv ⊢
        rw [nvis_stale st u hvu]
        split at hv
        · simp at hv
        · exact r2 v hv
    | false =>
      refine ⟨fun x => if (if x = u then true else st.visited x) = true then rank x
        else nvis n st.visited + 1, ?_, ?_, ?_⟩
      · intro v hv
        simp only [popSt] at hv ⊢
        rw [nvis_fresh st u hun hvu, if_pos hv]
        split at hv
        · next hvu' => rw [hvu', r2 u hvu]; omega
        · have := r1 v hv; omega
      · intro v hv
        simp only [popSt] at hv ⊢
        rw [nvis_fresh st u hun hvu, if_neg (by simp [hv])]
      · intro v w hp
        have hw := (h.prev_spec v w hp).1
        have hwu : (if w = u then true else st.visited w) = true := by simp [hw]
        show (if (if w = u then true else st.visited w) = true then rank w
            else nvis n st.visited + 1) <
          (if (if v = u then true else st.visited v) = true then rank v
            else nvis n st.visited + 1)
        rw [if_pos hwu]
        have := r1 w hw
        by_cases hv : (if v = u then true else st.visited v) = true
        · rw [if_pos hv]; exact r3 v w hp
        · rw [if_neg hv]; omega

theorem not_mem_improved_of_vis (vis : Nat → Bool) (lab : Nat → Ext) (u x : Nat)
    (h : vis x = true) : x ∉ improved n F vis lab u := by
  intro hx
  have := ((mem_improved vis lab u x).1 hx).2.2.1
  rw [h] at this
  cases this

/-- facts about the popped state used by every preservation proof -/
theorem pop_facts {st : St} (h : InvS n F S st) (k u : Nat)
    (hb : best st.lab st.queue = some (k, u)) :
    u ∈ st.queue ∧ u < n ∧ st.lab u ≠ Ext.ninf ∧
      (∀ z, st.visited z = false → st.lab z ≤ st.lab u ∨ st.visited u = true) ∧
      (∀ z, z ∈ st.queue → z ≠ u → z ∈ st.queue.eraseIdx k) := by
  have hu := best_mem st.lab st.queue k u hb
  have hsp := best_spec st.lab st.queue k u hb
  refine ⟨hu, (h.q_lt u hu).1, (h.q_lt u hu).2, ?_, ?_⟩
  · intro z hz
    by_cases hl : st.lab z = Ext.ninf
    · left; rw [hl]; exact Ext.ninf_le _
    · left; exact hsp.2 z (h.q_mem z hz hl)
  · intro z hz hne
    obtain ⟨i, hi, rfl⟩ := List.getElem_of_mem hz
    rw [List.mem_eraseIdx_iff_getElem]
    refine ⟨i, hi, ?_, rfl⟩
    intro hik
    subst hik
    have := hsp.1
    rw [List.getElem?_eq_getElem hi] at this
    exact hne (Option.some.inj this)

/-- all unvisited labels are bounded by the label of the popped state -/
theorem pop_max {st : St} (h : InvS n F S st) (k u : Nat)
    (hb : best st.lab st.queue = some (k, u)) :
    ∀ z, st.visited z = false → st.lab z ≤ st.lab u := by
  intro z hz
  cases hvu : st.visited u with
  | true => exact h.mono u z hvu hz
  | false =>
    rcases (pop_facts h k u hb).2.2.2.1 z hz with h1 | h1
    · exact h1
    · rw [hvu] at h1; cases h1

theorem relaxSt_invS {st : St} (h : InvS n F S st) (k u : Nat)
    (hb : best st.lab st.queue = some (k, u)) : InvS n F S (relaxSt n F st k u) := by
  obtain ⟨hu, hun, hul, -, hq⟩ := pop_facts h k u hb
  have hmax := pop_max h k u hb
  have hW := popSt_invW h k u hu
  -- abbreviations
  let vis' : Nat → Bool := fun x => if x = u then true else st.visited x
  let ind := improved n F vis' st.lab u
  have hvis' : ∀ x, vis' x = true ↔ x = u ∨ st.visited x = true := by
    intro x; simp only [vis']; split <;> simp [*]
  have hvisu : vis' u = true := (hvis' u).2 (Or.inl rfl)
  have hind : ∀ j, j ∈ ind ↔ j < n ∧ 0 < F u j ∧ vis' j = false ∧
      st.lab j < relax (F u j) (st.lab u) := fun j => mem_improved vis' st.lab u j
  have hnv : ∀ x, vis' x = true → x ∉ ind := fun x hx =>
    not_mem_improved_of_vis vis' st.lab u x hx
  have hstale : st.visited u = true → ind = [] := fun hvu => improved_stale h u hvu vis'
  have hlab : ∀ j, (relaxSt n F st k u).lab j =
      if j ∈ ind then relax (F u j) (st.lab u) else st.lab j := by
    intro j; simp only [relaxSt, List.contains_iff_mem]; rfl
  have hprev : ∀ j, (relaxSt n F st k u).prev j = if j ∈ ind then some u else st.prev j := by
    intro j; simp only [relaxSt, List.contains_iff_mem]; rfl
  have hvisE : (relaxSt n F st k u).visited = vis' := rfl
  have hqE : (relaxSt n F st k u).queue = st.queue.eraseIdx k ++ ind := rfl
  have hlab_vis : ∀ x, vis' x = true → (relaxSt n F st k u).lab x = st.lab x := by
    intro x hx; rw [hlab, if_neg (hnv x hx)]
  have hlab_ge : ∀ x, st.lab x ≤ (relaxSt n F st k u).lab x := by
    intro x; rw [hlab]; split
    · next hx => exact le_of_lt ((hind x).1 hx).2.2.2
    · exact le_refl _
  have hsrc_ind : ∀ v, v ∈ S → v ∉ ind := by
    intro v hv hvi
    have := ((hind v).1 hvi).2.2.2
    rw [h.src_lab v hv] at this
    exact Ext.not_pinf_lt _ this
  refine { vis_lt := hW.vis_lt, prev_spec := ?_, src_lab := ?_, none_lab := ?_, rank := ?_,
           q_lt := ?_, q_mem := ?_, mono := ?_, fix := ?_, vis_lab := ?_ }
  · -- prev_spec
    intro v w hp
    rw [hprev] at hp
    rw [hvisE]
    by_cases hv : v ∈ ind
    · rw [if_pos hv] at hp
      cases hp
      have hv' := (hind v).1 hv
      refine ⟨hvisu, hv'.2.1, ?_, fun hs => hsrc_ind v hs hv, hv'.1⟩
      rw [hlab, if_pos hv, hlab_vis u hvisu]
    · rw [if_neg hv] at hp
      obtain ⟨h1, h2, h3, h4, h5⟩ := hW.prev_spec v w hp
      refine ⟨h1, h2, ?_, h4, h5⟩
      rw [hlab, if_neg hv, hlab_vis w h1]
      exact h3
  · -- src_lab
    intro v hv
    rw [hlab, if_neg (hsrc_ind v hv)]
    exact h.src_lab v hv
  · -- none_lab
    intro v hp hs
    rw [hprev] at hp
    by_cases hv : v ∈ ind
    · rw [if_pos hv] at hp; cases hp
    · rw [if_neg hv] at hp
      rw [hlab, if_neg hv]
      exact h.none_lab v hp hs
  · -- rank
    obtain ⟨rank, r1, r2, r3⟩ := hW.rank
    refine ⟨rank, r1, r2, ?_⟩
    intro v w hp
    rw [hprev] at hp
    by_cases hv : v ∈ ind
    · rw [if_pos hv] at hp
      cases hp
      have h1 := r1 u hvisu
      have h2 := r2 v ((hind v).1 hv).2.2.1
      omega
    · rw [if_neg hv] at hp
      exact r3 v w hp
  · -- vis_lab
    intro v hv
    rw [hvisE] at hv
    rw [hlab_vis v hv]
    rcases (hvis' v).1 hv with rfl | hvv
    · exact hul
    · exact h.vis_lab v hvv
  · -- q_lt
    intro z hz
    rw [hqE, List.mem_append] at hz
    rcases hz with hz | hz
    · have := h.q_lt z (List.mem_of_mem_eraseIdx hz)
      refine ⟨this.1, ?_⟩
      intro he
      have := hlab_ge z
      rw [he, Ext.le_ninf_iff] at this
      exact (h.q_lt z (List.mem_of_mem_eraseIdx hz)).2 this
    · refine ⟨((hind z).1 hz).1, ?_⟩
      rw [hlab, if_pos hz]
      exact relax_ne_ninf _ _ hul
  · -- q_mem
    intro z hz hl
    rw [hvisE] at hz
    rw [hqE, List.mem_append]
    by_cases hzi : z ∈ ind
    · exact Or.inr hzi
    · left
      rw [hlab, if_neg hzi] at hl
      have hzu : z ≠ u := by
        intro he; rw [he, hvisu] at hz; cases hz
      have hzv : st.visited z = false := by
        cases hc : st.visited z with
        | false => rfl
        | true => rw [(hvis' z).2 (Or.inr hc)] at hz; cases hz
      exact hq z (h.q_mem z hzv hl) hzu
  · -- mono
    intro y z hy hz
    rw [hvisE] at hy hz
    rw [hlab_vis y hy]
    have hzv : st.visited z = false := by
      cases hc : st.visited z with
      | false => rfl
      | true => rw [(hvis' z).2 (Or.inr hc)] at hz; cases hz
    have huy : st.lab u ≤ st.lab y ∨ ind = [] := by
      rcases (hvis' y).1 hy with rfl | hyv
      · exact Or.inl (le_refl _)
      · cases hvu : st.visited u with
        | true => exact Or.inr (hstale hvu)
        | false => exact Or.inl (h.mono y u hyv hvu)
    rw [hlab]
    by_cases hzi : z ∈ ind
    · rw [if_pos hzi]
      rcases huy with huy | huy
      · exact le_trans (relax_le_left _ _) huy
      · rw [huy] at hzi; cases hzi
    · rw [if_neg hzi]
      rcases (hvis' y).1 hy with rfl | hyv
      · exact hmax z hzv
      · exact h.mono y z hyv hzv
  · -- fix
    intro x y hx hy hpos
    rw [hvisE] at hx
    rw [hlab_vis x hx]
    rcases (hvis' x).1 hx with rfl | hxv
    · -- the state just relaxed
      rw [hlab]
      by_cases hyi : y ∈ ind
      · rw [if_pos hyi]
      · rw [if_neg hyi]
        by_cases hlt : st.lab y < relax (F x y) (st.lab x)
        · -- then y is visited (else it would be in `ind`)
          have hvy : vis' y = true := by
            cases hc : vis' y with
            | true => rfl
            | false => exact absurd ((hind y).2 ⟨hy, hpos, hc, hlt⟩) hyi
          rcases (hvis' y).1 hvy with rfl | hyv
          · exact relax_le_left _ _
          · cases hvu : st.visited x with
            | true => exact h.fix x y hvu hy hpos
            | false => exact le_trans (relax_le_left _ _) (h.mono y x hyv hvu)
        · exact not_lt.1 hlt
    · exact le_trans (h.fix x y hxv hy hpos) (hlab_ge y)

/-- `if len(neighbors) == 0: continue` is the relaxation step with nothing to relax -/
theorem popSt_eq_relaxSt (st : St) (k u : Nat) (hn : neighbors n F u = []) :
    popSt st k u = relaxSt n F st k u := by
  have hi : ∀ vis, improved n F vis st.lab u = [] := by
    intro vis; simp [improved, hn]
  simp only [popSt, relaxSt, hi, List.append_nil, List.contains_nil]
  rfl

/-- along a walk that starts in a visited state, labels dominate `min (label of the start) (bottleneck)` -/
theorem walk_bound {st : St} (h : InvS n F S st) (u : Nat)
    (hmax : ∀ z, st.visited z = false → st.lab z ≤ st.lab u) :
    ∀ (q : List Nat) (a : Nat), q.head? = some a → st.visited a = true → q.getLast? = some u →
      Adj F q → (∀ x ∈ q, x < n) → min (st.lab a) (bneck F q) ≤ st.lab u
  | [], a, hh, _, _, _, _ => by simp at hh
  | [x], a, hh, _, hl, _, _ => by
    simp only [List.head?_cons, Option.some.injEq] at hh
    simp only [List.getLast?_singleton, Option.some.injEq] at hl
    subst hh; subst hl
    exact min_le_left _ _
  | x :: y :: rest, a, hh, hva, hl, hadj, hlt => by
    simp only [List.head?_cons, Option.some.injEq] at hh
    subst hh
    rw [List.getLast?_cons_cons] at hl
    have hyn : y < n := hlt y (by simp)
    have hfix := h.fix x y hva hyn hadj.1
    rw [relax_eq] at hfix
    simp only [bneck]
    cases hvy : st.visited y with
    | true =>
      have ih := walk_bound h u hmax (y :: rest) y rfl hvy hl hadj.2
        (fun z hz => hlt z (List.mem_cons_of_mem _ hz))
      refine le_trans ?_ ih
      rw [← min_assoc]
      exact min_le_min_right _ hfix
    | false =>
      have := hmax y hvy
      refine le_trans ?_ (le_trans hfix this)
      rw [← min_assoc]
      exact min_le_left _ _

/-- `lab u` dominates the bottleneck of every walk from a source to `u` -/
def Opt (n : Nat) (F : Nat → Nat → Nat) (S : List Nat) (lab : Nat → Ext) (u : Nat) : Prop :=
  ∀ (q : List Nat) (s : Nat), q.head? = some s → s ∈ S → q.getLast? = some u → Adj F q →
    (∀ x ∈ q, x < n) → bneck F q ≤ lab u

theorem opt_of_max {st : St} (h : InvS n F S st) (u : Nat)
    (hmax : ∀ z, st.visited z = false → st.lab z ≤ st.lab u) : Opt n F S st.lab u := by
  intro q s hh hs hl hadj hlt
  cases hvs : st.visited s with
  | true =>
    have := walk_bound h u hmax q s hh hvs hl hadj hlt
    rwa [h.src_lab s hs, Ext.pinf_min] at this
  | false =>
    have := hmax s hvs
    rw [h.src_lab s hs, Ext.pinf_le_iff] at this
    rw [this]; exact Ext.le_pinf _

/-- what the search loop establishes -/
theorem loop_spec (T : List Nat) : ∀ (fuel : Nat) (st st' : St), InvS n F S st →
    loop n F T fuel st = some st' → InvW n F S st' ∧ ∀ t ∈ T, Opt n F S st'.lab t
  | 0, st, st', _, hl => by simp [loop] at hl
  | fuel + 1, st, st', h, hl => by
    rw [loop_succ] at hl
    split at hl
    · next hb =>
      -- queue empty
      cases hl
      have hq := (best_eq_none _ _).1 hb
      refine ⟨h.toInvW, fun t _ => opt_of_max h t ?_⟩
      intro z hz
      by_cases hlz : st.lab z = Ext.ninf
      · rw [hlz]; exact Ext.ninf_le _
      · have := h.q_mem z hz hlz
        rw [hq] at this; cases this
    · next k u hb =>
      have hu := best_mem st.lab st.queue k u hb
      split at hl
      · next hall =>
        cases hl
        refine ⟨popSt_invW h k u hu, ?_⟩
        intro t ht
        have hvt : (popSt st k u).visited t = true := List.all_eq_true.1 hall t ht
        show Opt n F S st.lab t
        apply opt_of_max h t
        have hvt' : t = u ∨ st.visited t = true := by
          simp only [popSt] at hvt
          split at hvt
          · next e => exact Or.inl e
          · exact Or.inr hvt
        rcases hvt' with rfl | hvt'
        · exact pop_max h k t hb
        · exact fun z hz => h.mono t z hvt' hz
      · split at hl
        · next hn =>
          rw [popSt_eq_relaxSt st k u hn] at hl
          exact loop_spec T fuel _ st' (relaxSt_invS h k u hb) hl
        · exact loop_spec T fuel _ st' (relaxSt_invS h k u hb) hl

/-! ### termination of the search loop -/

/-- `(n+1)`·(number of unvisited states) + queue length -/
def measure (n : Nat) (st : St) : Nat :=
  sumTo n (fun i => if st.visited i = true then 0 else n + 1) + st.queue.length

theorem measure_relaxSt {st : St} (h : InvS n F S st) (k u : Nat)
    (hb : best st.lab st.queue = some (k, u)) :
    measure n (relaxSt n F st k u) < measure n st := by
  obtain ⟨hu, hun, -, -, -⟩ := pop_facts h k u hb
  have hk : k < st.queue.length := by
    have := (best_spec st.lab st.queue k u hb).1
    exact (List.getElem?_eq_some_iff.1 this).1
  have hlen : (relaxSt n F st k u).queue.length =
      st.queue.length - 1 + (improved n F (relaxSt n F st k u).visited st.lab u).length := by
    simp only [relaxSt, List.length_append, List.length_eraseIdx, if_pos hk]
  have hil := improved_length_le (n := n) (F := F) (relaxSt n F st k u).visited st.lab u
  unfold measure
  rw [hlen]
  cases hvu : st.visited u with
  | true =>
    have hnil : improved n F (relaxSt n F st k u).visited st.lab u = [] := improved_stale h u hvu _
    have hsum : sumTo n (fun i => if (relaxSt n F st k u).visited i = true then 0 else n + 1) =
        sumTo n (fun i => if st.visited i = true then 0 else n + 1) := by
      apply sumTo_congr
      intro i _
      simp only [relaxSt]
      by_cases hi : i = u
      · subst hi; simp [hvu]
      · simp [hi]
    rw [hsum, hnil]
    simp only [List.length_nil]
    omega
  | false =>
    have hupd := sumTo_update n (fun i => if st.visited i = true then 0 else n + 1)
      (fun i => if (relaxSt n F st k u).visited i = true then 0 else n + 1) u hun
      (fun i _ hne => by simp [relaxSt, hne])
    have h1 : (if st.visited u = true then 0 else n + 1) = n + 1 := by simp [hvu]
    have h2 : (if (relaxSt n F st k u).visited u = true then 0 else n + 1) = 0 := by
      simp [relaxSt]
    rw [h1, h2] at hupd
    omega

theorem loop_isSome (T : List Nat) : ∀ (fuel : Nat) (st : St), InvS n F S st →
    measure n st < fuel → ∃ st', loop n F T fuel st = some st'
  | 0, _, _, hm => by omega
  | fuel + 1, st, h, hm => by
    rw [loop_succ]
    split
    · exact ⟨st, rfl⟩
    · next k u hb =>
      split
      · exact ⟨_, rfl⟩
      · have hlt := measure_relaxSt h k u hb
        split
        · next hn =>
          rw [popSt_eq_relaxSt st k u hn]
          exact loop_isSome T fuel _ (relaxSt_invS h k u hb) (by omega)
        · exact loop_isSome T fuel _ (relaxSt_invS h k u hb) (by omega)

end
end Ens.Paths
