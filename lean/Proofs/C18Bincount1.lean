import Proofs.C18Jc
/-!
`libinfo.bincount2d` (1-D kernel): exactness and guard soundness.  Core Lean only.
-/
namespace Ens.Info
open Ens.Sched

/-- what a successful call establishes, and the table in closed form -/
theorem bincount2d_ok (a b : Arr) (nA nB : Int) (h : Tab2) (hk : bincount2d a b nA nB = .ok h) :
    0 ≤ nA ∧ 0 ≤ nB ∧ a.T = b.T ∧
    (0 < a.T → ∀ v ∈ a.entries, 0 ≤ v ∧ v < nA) ∧ (0 < a.T → ∀ v ∈ b.entries, 0 ≤ v ∧ v < nB) ∧
    h = { nA := nA, nB := nB,
          cnt := runSteps ((writes1 a b).map fun w => bumpS w.1 w.2.1 w.2.2) zeroSlab 0 } := by
  unfold bincount2d at hk
  simp only [bind, Except.bind, pure, Except.pure, throw, throwThe, MonadExceptOf.throw] at hk
  split at hk
  · cases hk
  · rename_i h1
    split at hk
    · cases hk
    · rename_i h2
      by_cases hT : a.T > 0
      · rw [if_pos hT] at hk
        cases hma : a.max? <;> cases hmb : b.max? <;> cases hla : a.min? <;> cases hlb : b.min? <;>
          simp only [hma, hmb, hla, hlb] at hk <;> try (cases hk; done)
        rename_i ma mb la lb
        split at hk
        · cases hk
        · rename_i h3
          split at hk
          · cases hk
          · rename_i h4
            cases hk
            have h3' : ma < nA ∧ mb < nB := Decidable.of_not_not h3
            have h4' : 0 ≤ la ∧ 0 ≤ lb := Decidable.of_not_not h4
            refine ⟨by omega, by omega, by omega, ?_, ?_, rfl⟩
            · intro _ v hv
              exact ⟨(le_min?_iff' _ _ 0 hla).1 h4'.1 v hv, (max?_lt_iff _ _ nA hma).1 h3'.1 v hv⟩
            · intro _ v hv
              exact ⟨(le_min?_iff' _ _ 0 hlb).1 h4'.2 v hv, (max?_lt_iff _ _ nB hmb).1 h3'.2 v hv⟩
      · rw [if_neg hT] at hk
        cases hk
        refine ⟨by omega, by omega, by omega, fun h0 => absurd h0 hT, fun h0 => absurd h0 hT, rfl⟩

theorem count_writes1 (a b : Arr) (i j : Int) :
    (writes1 a b).count (0, i, j) = frameCount a b 0 0 i j := by
  unfold writes1 frameCount
  rw [count_inner 0 (fun t => a.get t 0) (fun t => b.get t 0) a.T 0 i j]
  simp

/-- `H[i, j]` is the exact number of frames `t` with `a[t] = i` and `b[t] = j` -/
theorem bincount2d_exact_core (a b : Arr) (nA nB : Int) (h : Tab2) (hk : bincount2d a b nA nB = .ok h) :
    h.nA = nA ∧ h.nB = nB ∧ ∀ i j, h.cnt i j = frameCount a b 0 0 i j := by
  obtain ⟨_, _, _, _, _, rfl⟩ := bincount2d_ok a b nA nB h hk
  refine ⟨rfl, rfl, ?_⟩
  intro i j
  show runSteps _ zeroSlab 0 i j = _
  rw [runSteps_bump, count_writes1]; simp [zeroSlab]

/-- guard ok ⇒ equal lengths and every write `H[a[t], b[t]]` inside the `(nA, nB)` table
(`F ≥ 1`: the 1-D arrays are the columns 0) -/
theorem bincount2d_guard_sound_core (a b : Arr) (nA nB : Int) (h : Tab2) (hFa : 0 < a.F) (hFb : 0 < b.F)
    (hk : bincount2d a b nA nB = .ok h) :
    a.T = b.T ∧ ∀ w ∈ writes1 a b, 0 ≤ w.2.1 ∧ w.2.1 < nA ∧ 0 ≤ w.2.2 ∧ w.2.2 < nB := by
  obtain ⟨_, _, hT, hA, hB, _⟩ := bincount2d_ok a b nA nB h hk
  refine ⟨hT, ?_⟩
  intro w hw
  unfold writes1 at hw
  obtain ⟨t, ht, rfl⟩ := List.mem_map.1 hw
  have ht' : t < a.T := List.mem_range.1 ht
  have hpos : 0 < a.T := by omega
  have h1 := hA hpos (a.get t 0) ((mem_entries a _).2 ⟨t, ht', 0, hFa, rfl⟩)
  have h2 := hB hpos (b.get t 0) ((mem_entries b _).2 ⟨t, hT ▸ ht', 0, hFb, rfl⟩)
  exact ⟨h1.1, h1.2, h2.1, h2.2⟩

end Ens.Info
