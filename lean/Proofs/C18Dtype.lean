import Proofs.C18Jc2
/-!
`joint_counts`: the dtype harmonisation is lossless on arrays whose entries fit their own dtype
(which every numpy array does), hence `joint_counts` is exact for every pair of integer dtypes.
Core Lean only.
-/
namespace Ens.Info
open Ens.Sched

/-- the eight integer element types of `libinfo.pyx` -/
def DType.std (d : DType) : Prop := d.bits = 8 ∨ d.bits = 16 ∨ d.bits = 32 ∨ d.bits = 64

/-- `v` is representable in the dtype -/
def DType.holds (d : DType) (v : Int) : Prop :=
  if d.signed then -(2 ^ (d.bits - 1) : Int) ≤ v ∧ v < 2 ^ (d.bits - 1) else 0 ≤ v ∧ v < 2 ^ d.bits

instance (d : DType) (v : Int) : Decidable (d.holds v) := by
  unfold DType.holds; infer_instance

/-- every entry of the array is representable in its dtype -/
def TArr.valid (x : TArr) : Prop := x.dt.std ∧ ∀ v ∈ x.arr.entries, x.dt.holds v

/-- the rule of `harmonise`: which of the two dtypes is kept -/
def winsOver (d e : DType) : Prop := d.itemsize > e.itemsize ∨ (d.itemsize = e.itemsize ∧ d.signed = false)

/-- a non-negative value representable in `e` survives the cast to a dtype `d` that is wider, or
as wide and unsigned, or as wide and of the same signedness -/
theorem cast_of_nonneg (d e : DType) (hd : d.std) (he : e.std) (v : Int) (hv : e.holds v) (h0 : 0 ≤ v)
    (hw : d.itemsize > e.itemsize ∨ (d.itemsize = e.itemsize ∧ (d.signed = false ∨ e.signed = true))) :
    d.cast v = v := by
  obtain ⟨db, ds⟩ := d
  obtain ⟨eb, es⟩ := e
  unfold DType.std at hd he
  unfold DType.holds at hv
  unfold DType.itemsize at hw
  unfold DType.cast
  simp only at hd he hv hw ⊢
  rcases hd with rfl | rfl | rfl | rfl <;> rcases he with rfl | rfl | rfl | rfl <;>
    cases ds <;> cases es <;> simp at hv hw ⊢ <;> omega

end Ens.Info

namespace Ens.Info
open Ens.Sched

theorem min?_le_mem (l : List Int) (m : Int) (h : l.min? = some m) (v : Int) (hv : v ∈ l) : m ≤ v :=
  (le_min?_iff' l m m h).1 (Int.le_refl m) v hv

/-- the two arrays agree on their common shape -/
def Arr.agree (a a' : Arr) : Prop :=
  a'.T = a.T ∧ a'.F = a.F ∧ ∀ t, t < a.T → ∀ f, f < a.F → a'.get t f = a.get t f

theorem astype_agree (x : TArr) (d : DType) (h : ∀ v ∈ x.arr.entries, d.cast v = v) :
    x.arr.agree (x.astype d).arr :=
  ⟨rfl, rfl, fun t ht f hf => h _ ((mem_entries x.arr _).2 ⟨t, ht, f, hf, rfl⟩)⟩

theorem agree_refl (a : Arr) : a.agree a := ⟨rfl, rfl, fun _ _ _ _ => rfl⟩

/-- on valid arrays the harmonisation changes no value (and makes the dtypes equal) -/
theorem harmonise_lossless (X Y : TArr) (hX : X.valid) (hY : Y.valid) (X' Y' : TArr)
    (h : harmonise X Y = .ok (X', Y')) :
    X.arr.agree X'.arr ∧ Y.arr.agree Y'.arr ∧ X'.dt = Y'.dt := by
  unfold harmonise at h
  by_cases hdt : X.dt = Y.dt
  · rw [if_pos hdt] at h
    cases h
    exact ⟨agree_refl _, agree_refl _, hdt⟩
  · rw [if_neg hdt] at h
    cases hmx : X.arr.min? with
    | none => rw [hmx] at h; cases h
    | some mx =>
      rw [hmx] at h
      simp only at h
      by_cases hnx : mx < 0
      · rw [if_pos hnx] at h; cases h
      · rw [if_neg hnx] at h
        cases hmy : Y.arr.min? with
        | none => rw [hmy] at h; cases h
        | some my =>
          rw [hmy] at h
          simp only at h
          by_cases hny : my < 0
          · rw [if_pos hny] at h; cases h
          · rw [if_neg hny] at h
            have hneg : ¬ (mx < 0 ∨ my < 0) := by omega
            have hx0 : ∀ v ∈ X.arr.entries, 0 ≤ v := fun v hv => by
              have := min?_le_mem _ _ hmx v hv; omega
            have hy0 : ∀ v ∈ Y.arr.entries, 0 ≤ v := fun v hv => by
              have := min?_le_mem _ _ hmy v hv; omega
            by_cases hw : X.dt.itemsize > Y.dt.itemsize ∨ (X.dt.itemsize = Y.dt.itemsize ∧ X.dt.signed = false)
            · rw [if_pos hw] at h
              cases h
              refine ⟨agree_refl _, ?_, rfl⟩
              apply astype_agree
              intro v hv
              apply cast_of_nonneg X.dt Y.dt hX.1 hY.1 v (hY.2 v hv) (hy0 v hv)
              rcases hw with hw | hw
              · exact Or.inl hw
              · exact Or.inr ⟨hw.1, Or.inl hw.2⟩
            · rw [if_neg hw] at h
              cases h
              refine ⟨?_, agree_refl _, rfl⟩
              apply astype_agree
              intro v hv
              apply cast_of_nonneg Y.dt X.dt hY.1 hX.1 v (hX.2 v hv) (hx0 v hv)
              by_cases hlt : Y.dt.itemsize > X.dt.itemsize
              · exact Or.inl hlt
              · right
                have heq : Y.dt.itemsize = X.dt.itemsize := by
                  rcases Nat.lt_or_ge Y.dt.itemsize X.dt.itemsize with h1 | h1
                  · exact absurd (Or.inl h1) hw
                  · omega
                refine ⟨heq, Or.inr ?_⟩
                cases hs : X.dt.signed with
                | true => rfl
                | false => exact absurd (Or.inr ⟨heq.symm, hs⟩) hw

theorem frameCount_agree (a a' b b' : Arr) (ha : a.agree a') (hb : b.agree b') (hT : a.T = b.T)
    (x y : Nat) (hx : x < a.F) (hy : y < b.F) (i j : Int) :
    frameCount a' b' x y i j = frameCount a b x y i j := by
  unfold frameCount
  rw [ha.1]
  apply List.countP_congr
  intro t ht
  have ht' : t < a.T := List.mem_range.1 ht
  rw [ha.2.2 t ht' x hx, hb.2.2 t (hT ▸ ht') y hy]

theorem mem_entries_agree (a a' : Arr) (h : a.agree a') (v : Int) : v ∈ a'.entries ↔ v ∈ a.entries := by
  simp only [mem_entries]
  constructor
  · rintro ⟨t, ht, f, hf, rfl⟩
    exact ⟨t, h.1 ▸ ht, f, h.2.1 ▸ hf, (h.2.2 t (h.1 ▸ ht) f (h.2.1 ▸ hf)).symm⟩
  · rintro ⟨t, ht, f, hf, rfl⟩
    exact ⟨t, h.1.symm ▸ ht, f, h.2.1.symm ▸ hf, h.2.2 t ht f hf⟩

theorem toCInt_ok (n m : Int) (h : toCInt n = .ok m) : m = n := by
  unfold toCInt at h
  split at h
  · cases h; rfl
  · cases h

theorem typed_ok (a b : TArr) (nA nB : Int) (r : JC) (h : matrixBincount2dTyped a b nA nB = .ok r) :
    matrixBincount2d a.arr b.arr nA nB = .ok r := by
  unfold matrixBincount2dTyped at h
  by_cases hd : a.dt ≠ b.dt
  · simp [hd, bind, Except.bind, throw, throwThe, MonadExceptOf.throw] at h
  · cases h1 : toCInt nA with
    | error e => simp [hd, h1, bind, Except.bind] at h
    | ok m =>
      cases h2 : toCInt nB with
      | error e => simp [hd, h1, h2, bind, Except.bind] at h
      | ok m' =>
        have e1 := toCInt_ok _ _ h1
        have e2 := toCInt_ok _ _ h2
        subst e1 e2
        simpa [hd, h1, h2, bind, Except.bind, pure, Except.pure] using h

/-- `joint_counts(X, Y, n_x, n_y)` is exact for every pair of integer dtypes -/
theorem jointCounts_exact (X Y : TArr) (hX : X.valid) (hY : Y.valid) (nx ny : Int) (r : JC)
    (h : jointCounts X (some Y) (some nx) (some ny) = .ok r) :
    r.Fa = X.arr.F ∧ r.Fb = Y.arr.F ∧ r.nA = nx ∧ r.nB = ny ∧
    ∀ x y i j, r.cnt x y i j =
      if x < X.arr.F ∧ y < Y.arr.F then frameCount X.arr Y.arr x y i j else 0 := by
  unfold jointCounts at h
  simp only [bind, Except.bind, pure, Except.pure] at h
  cases hh : harmonise X Y with
  | error e => rw [hh] at h; cases h
  | ok XY =>
    rw [hh] at h
    simp only at h
    obtain ⟨X', Y'⟩ := XY
    obtain ⟨ax, ay, _⟩ := harmonise_lossless X Y hX hY X' Y' hh
    have hk := typed_ok X' Y' nx ny r h
    obtain ⟨c1, c2, c3, c4, hc⟩ := jc_exact_core _ _ nx ny r hk
    obtain ⟨hg, _⟩ := (matrixBincount2d_ok_iff _ _ nx ny r).1 hk
    have hT' : X'.arr.T = Y'.arr.T := ((guard_ok_iff _ _ nx ny).1 hg).2.1
    have hT : X.arr.T = Y.arr.T := by rw [← ax.1, ← ay.1]; exact hT'
    refine ⟨by rw [c1, ax.2.1], by rw [c2, ay.2.1], c3, c4, ?_⟩
    intro x y i j
    rw [hc, ax.2.1, ay.2.1]
    by_cases hxy : x < X.arr.F ∧ y < Y.arr.F
    · rw [if_pos hxy, if_pos hxy, frameCount_agree _ _ _ _ ax ay hT x y hxy.1 hxy.2]
    · rw [if_neg hxy, if_neg hxy]

end Ens.Info
