import Model.Msm
/-!
Estimator = pipeline, identity mapping, TrimMapping csv round trip, save/load.
Core Lean only.
-/
namespace Ens.Msm
open Ens Ens.Counts

/-! ### the stable sort -/

theorem insertBy_perm {α : Type} (le : α → α → Bool) (a : α) (l : List α) :
    (insertBy le a l).Perm (a :: l) := by
  induction l with
  | nil => exact List.Perm.refl _
  | cons b l ih =>
    simp only [insertBy]
    split
    · exact List.Perm.refl _
    · exact (List.Perm.cons b ih).trans (List.Perm.swap a b l)

theorem stableSort_perm {α : Type} (le : α → α → Bool) (l : List α) : (stableSort le l).Perm l := by
  induction l with
  | nil => exact List.Perm.refl _
  | cons a l ih => exact (insertBy_perm le a _).trans (List.Perm.cons a ih)

theorem insertBy_pairwise {α : Type} (le : α → α → Bool)
    (trans : ∀ a b c, le a b = true → le b c = true → le a c = true)
    (total : ∀ a b, le a b = true ∨ le b a = true) (a : α) (l : List α)
    (h : l.Pairwise (fun x y => le x y = true)) :
    (insertBy le a l).Pairwise (fun x y => le x y = true) := by
  induction l with
  | nil => simp [insertBy]
  | cons b l ih =>
    simp only [insertBy]
    have hb := List.pairwise_cons.mp h
    split
    · rename_i hab
      refine List.pairwise_cons.mpr ⟨?_, h⟩
      intro x hx
      rcases List.mem_cons.mp hx with e | hm
      · rw [e]; exact hab
      · exact trans _ _ _ hab (hb.1 x hm)
    · rename_i hab
      have hba : le b a = true := by
        rcases total a b with h1 | h1
        · exact absurd h1 hab
        · exact h1
      refine List.pairwise_cons.mpr ⟨?_, ih hb.2⟩
      intro x hx
      rcases List.mem_cons.mp ((insertBy_perm le a l).mem_iff.mp hx) with e | hm
      · rw [e]; exact hba
      · exact hb.1 x hm

theorem stableSort_pairwise {α : Type} (le : α → α → Bool)
    (trans : ∀ a b c, le a b = true → le b c = true → le a c = true)
    (total : ∀ a b, le a b = true ∨ le b a = true) (l : List α) :
    (stableSort le l).Pairwise (fun x y => le x y = true) := by
  induction l with
  | nil => exact List.Pairwise.nil
  | cons a l ih => exact insertBy_pairwise le trans total a _ ih

theorem stableSort_of_pairwise {α : Type} (le : α → α → Bool) (l : List α)
    (h : l.Pairwise (fun x y => le x y = true)) : stableSort le l = l := by
  induction l with
  | nil => rfl
  | cons a l ih =>
    have ha := List.pairwise_cons.mp h
    simp only [stableSort, ih ha.2]
    cases l with
    | nil => rfl
    | cons b l' => simp only [insertBy, ha.1 b List.mem_cons_self, if_true]

/-! ### fit = pipeline -/

theorem fit_pipeline_callable {C T P : Type} (builders : String → Option (Builder C T P))
    (lag : Int) (f : Builder C T P) (trim sliding : Bool) (maxN : Option Nat)
    (trimF : Trimmer) (rows : List (List Int)) :
    (mkMSM builders lag (.callable f) trim sliding maxN >>= fun m => m.fit trimF rows)
      = pipeline lag sliding maxN trim trimF f rows := by
  simp only [mkMSM, MSM.fit, pipeline, bind, Except.bind, pure, Except.pure]
  cases hc : liftC (assignsToCounts rows lag maxN sliding) with
  | error e => rfl
  | ok c =>
    cases trim with
    | false =>
      simp only [Bool.false_eq_true, if_false]
      cases hb : f c with
      | error e => rfl
      | ok r => obtain ⟨a, b, d⟩ := r; rfl
    | true =>
      simp only [if_true]
      cases ht : trimF c with
      | error e => rfl
      | ok mc =>
        obtain ⟨mp, c'⟩ := mc
        simp only []
        cases hb : f c' with
        | error e => rfl
        | ok r => obtain ⟨a, b, d⟩ := r; rfl

theorem fit_pipeline_name {C T P : Type} (builders : String → Option (Builder C T P))
    (lag : Int) (s : String) (f : Builder C T P) (hs : builders s = some f)
    (trim sliding : Bool) (maxN : Option Nat) (trimF : Trimmer) (rows : List (List Int)) :
    (mkMSM builders lag (.name s) trim sliding maxN >>= fun m => m.fit trimF rows)
      = pipeline lag sliding maxN trim trimF f rows := by
  rw [← fit_pipeline_callable builders lag f trim sliding maxN trimF rows]
  simp only [mkMSM, hs]

theorem mk_name_missing {F : Type} (builders : String → Option F) (lag : Int) (s : String)
    (hs : builders s = none) (trim sliding : Bool) (maxN : Option Nat) :
    mkMSM builders lag (.name s) trim sliding maxN = .error .attributeError := by
  simp only [mkMSM, hs]; rfl

/-- every constructor argument is stored unchanged -/
theorem mk_stores {F : Type} (builders : String → Option F) (lag : Int) (f : F)
    (trim sliding : Bool) (maxN : Option Nat) :
    mkMSM builders lag (.callable f) trim sliding maxN =
      .ok { lagTime := lag, trim := trim, maxNStates := maxN, method := f, slidingWindow := sliding } := rfl

/-! ### dictionaries -/

theorem Dict.insert_fresh (d : Dict) (k v : Int) (h : k ∉ d.map (·.1)) :
    Dict.insert d k v = d ++ [(k, v)] := by
  induction d with
  | nil => rfl
  | cons p rest ih =>
    obtain ⟨k', v'⟩ := p
    simp only [List.map_cons, List.mem_cons, not_or] at h
    have hne : ¬ k' = k := fun e => h.1 e.symm
    simp only [Dict.insert, hne, if_false, List.cons_append, ih h.2]

theorem Dict.foldl_insert_nodup (ps acc : List (Int × Int))
    (h : ((acc ++ ps).map (·.1)).Nodup) :
    ps.foldl (fun d p => Dict.insert d p.1 p.2) acc = acc ++ ps := by
  induction ps generalizing acc with
  | nil => simp
  | cons p rest ih =>
    have hfresh : p.1 ∉ acc.map (·.1) := by
      simp only [List.map_append, List.map_cons] at h
      have := (List.nodup_append.mp h).2.2
      intro hm
      exact this _ hm _ (List.mem_cons_self) rfl
    simp only [List.foldl_cons, Dict.insert_fresh acc p.1 p.2 hfresh]
    have : acc ++ [(p.1, p.2)] ++ rest = acc ++ p :: rest := by simp
    rw [ih (acc ++ [(p.1, p.2)]) (by rw [this]; exact h), this]

theorem Dict.ofPairs_nodup (ps : List (Int × Int)) (h : (ps.map (·.1)).Nodup) :
    Dict.ofPairs ps = ps := by
  have := Dict.foldl_insert_nodup ps [] (by simpa using h)
  simpa [Dict.ofPairs] using this

theorem Dict.lookup_of_mem (d : Dict) (h : (d.map (·.1)).Nodup) (p : Int × Int) (hp : p ∈ d) :
    Dict.lookup d p.1 = some p.2 := by
  induction d with
  | nil => cases hp
  | cons q rest ih =>
    obtain ⟨k', v'⟩ := q
    simp only [List.map_cons, List.nodup_cons] at h
    rcases List.mem_cons.mp hp with e | hm
    · subst e; simp [Dict.lookup]
    · have hne : ¬ k' = p.1 := by
        intro e
        apply h.1
        rw [e]
        exact List.mem_map.mpr ⟨p, hm, rfl⟩
      simp only [Dict.lookup, hne, if_false]
      exact ih h.2 hm

theorem Dict.beq_of_perm (a b : Dict) (hp : a.Perm b) (hb : (b.map (·.1)).Nodup) :
    Dict.beq a b = true := by
  simp only [Dict.beq, Bool.and_eq_true, beq_iff_eq, List.all_eq_true]
  refine ⟨hp.length_eq, ?_⟩
  intro p hpa
  exact Dict.lookup_of_mem b hb p (hp.mem_iff.mp hpa)

theorem map_swap_swap (l : List (Int × Int)) : (l.map swap).map swap = l := by
  induction l with
  | nil => rfl
  | cons p rest ih => simp [swap, ih]

theorem map_fst_swap (l : List (Int × Int)) : (l.map swap).map (·.1) = l.map (·.2) := by
  induction l with
  | nil => rfl
  | cons p rest ih => simp [swap]

theorem map_snd_swap (l : List (Int × Int)) : (l.map swap).map (·.2) = l.map (·.1) := by
  induction l with
  | nil => rfl
  | cons p rest ih => simp [swap]

/-! ### identity mapping -/

theorem nodup_range_cast (n : Nat) : ((List.range n).map fun (i : Nat) => (i : Int)).Nodup := by
  rw [List.nodup_iff_pairwise_ne, List.pairwise_map]
  exact (List.nodup_range (n := n)).imp (by intro a b h e; exact h (by exact_mod_cast e))

theorem identity_toOriginal (n : Nat) :
    (TrimMapping.identity n).toOriginal = (List.range n).map fun (i : Nat) => ((i : Int), (i : Int)) := by
  simp only [TrimMapping.identity, TrimMapping.ofTransformations]
  have hsw : ((List.range n).map fun (i : Nat) => ((i : Int), (i : Int))).map swap
      = (List.range n).map fun (i : Nat) => ((i : Int), (i : Int)) := by
    simp [swap, Function.comp_def]
  rw [hsw]
  apply Dict.ofPairs_nodup
  simpa [Function.comp_def] using nodup_range_cast n

theorem identity_lookup (n i : Nat) (h : i < n) :
    Dict.lookup (TrimMapping.identity n).toOriginal i = some (i : Int) := by
  rw [identity_toOriginal]
  have hn : (((List.range n).map fun (i : Nat) => ((i : Int), (i : Int))).map (·.1)).Nodup := by
    simpa [Function.comp_def] using nodup_range_cast n
  exact Dict.lookup_of_mem _ hn ((i : Int), (i : Int))
    (List.mem_map.mpr ⟨i, List.mem_range.mpr h, rfl⟩)

theorem identity_length (n : Nat) : (TrimMapping.identity n).toOriginal.length = n := by
  rw [identity_toOriginal]; simp

theorem fit_untrimmed_mapping {C T P : Type} (m : MSM (Builder C T P)) (hm : m.trim = false)
    (trimF : Trimmer) (rows : List (List Int)) (r : Fit C T P) (h : m.fit trimF rows = .ok r) :
    ∃ c, liftC (assignsToCounts rows m.lagTime m.maxNStates m.slidingWindow) = .ok c ∧
      r.mapping = TrimMapping.identity c.n := by
  simp only [MSM.fit, hm, bind, Except.bind, pure, Except.pure, Bool.false_eq_true, if_false] at h
  cases hc : liftC (assignsToCounts rows m.lagTime m.maxNStates m.slidingWindow) with
  | error e => rw [hc] at h; cases h
  | ok c =>
    rw [hc] at h
    refine ⟨c, rfl, ?_⟩
    simp only [] at h
    cases hb : m.method c with
    | error e => rw [hb] at h; cases h
    | ok t =>
      rw [hb] at h
      obtain ⟨a, b, d⟩ := t
      simp only [Except.ok.injEq] at h
      rw [← h]

/-! ### TrimMapping csv round trip -/

/-- keys distinct (a dict) and values distinct (the mapping is injective) -/
def TrimMapping.WellFormed (m : TrimMapping) : Prop :=
  (m.toOriginal.map (·.1)).Nodup ∧ (m.toOriginal.map (·.2)).Nodup

theorem toMapped_wf (m : TrimMapping) (wf : m.WellFormed) : m.toMapped = m.toOriginal.map swap := by
  apply Dict.ofPairs_nodup
  rw [map_fst_swap]; exact wf.2

def rowOf (print : Int → String) (p : Int × Int) : List String := [print p.1, print p.2]

theorem readRows_rows (print : Int → String) (parse : String → Option Int)
    (hpp : ∀ i, parse (print i) = some i) (l : List (Int × Int)) (a b : List Int) :
    readRows parse (l.map (rowOf print)) (a, b) = .ok (a ++ l.map (·.1), b ++ l.map (·.2)) := by
  induction l generalizing a b with
  | nil => simp [readRows, pure, Except.pure]
  | cons p rest ih =>
    simp only [List.map_cons, readRows, rowOf, readRow, hpp, bind, Except.bind, pure, Except.pure]
    have := ih (a ++ [p.1]) (b ++ [p.2])
    rw [this]
    simp

theorem zip_fst_snd (l : List (Int × Int)) : (l.map (·.1)).zip (l.map (·.2)) = l := by
  induction l with
  | nil => rfl
  | cons p rest ih => simp [ih]

/-- what `read (write m)` is, for a well-formed mapping -/
theorem read_write (print : Int → String) (parse : String → Option Int)
    (hpp : ∀ i, parse (print i) = some i) (m : TrimMapping) (wf : m.WellFormed) :
    TrimMapping.read parse (m.write print) =
      .ok { toOriginal := (stableSort (fun a b => decide (a.1 ≤ b.1)) (m.toOriginal.map swap)).map swap } := by
  have hperm := stableSort_perm (fun a b => decide (a.1 ≤ b.1)) (m.toOriginal.map swap)
  generalize hs : stableSort (fun a b => decide (a.1 ≤ b.1)) (m.toOriginal.map swap) = sorted at hperm
  have hw : m.write print = csvHeader :: sorted.map (rowOf print) := by
    simp only [TrimMapping.write, toMapped_wf m wf, hs]; rfl
  rw [hw]
  simp only [TrimMapping.read, ne_eq, not_true_eq_false, if_false, bind, Except.bind]
  rw [readRows_rows print parse hpp sorted [] []]
  simp only [List.nil_append, pure, Except.pure, zip_fst_snd, TrimMapping.ofTransformations]
  congr 2
  apply Dict.ofPairs_nodup
  rw [map_fst_swap]
  have : (sorted.map (·.2)).Perm ((m.toOriginal.map swap).map (·.2)) := hperm.map _
  rw [this.nodup_iff, map_snd_swap]
  exact wf.1

theorem read_write_perm (m : TrimMapping) :
    ((stableSort (fun a b => decide (a.1 ≤ b.1)) (m.toOriginal.map swap)).map swap).Perm m.toOriginal := by
  have := (stableSort_perm (fun a b => decide (a.1 ≤ b.1)) (m.toOriginal.map swap)).map swap
  rwa [map_swap_swap] at this

theorem roundtrip_beq (print : Int → String) (parse : String → Option Int)
    (hpp : ∀ i, parse (print i) = some i) (m : TrimMapping) (wf : m.WellFormed) :
    ∃ m', TrimMapping.read parse (m.write print) = .ok m' ∧ m'.beq m = true ∧
      m'.toOriginal.Perm m.toOriginal := by
  refine ⟨_, read_write print parse hpp m wf, ?_, read_write_perm m⟩
  have hp := read_write_perm m
  generalize hd : (stableSort (fun a b => decide (a.1 ≤ b.1)) (m.toOriginal.map swap)).map swap = d' at hp
  have wf' : TrimMapping.WellFormed ⟨d'⟩ :=
    ⟨((hp.map (·.1)).nodup_iff).mpr wf.1, ((hp.map (·.2)).nodup_iff).mpr wf.2⟩
  simp only [TrimMapping.beq, Bool.and_eq_true]
  refine ⟨Dict.beq_of_perm _ _ hp wf.1, ?_⟩
  rw [toMapped_wf m wf, toMapped_wf ⟨d'⟩ wf']
  apply Dict.beq_of_perm _ _ (hp.map swap)
  rw [map_fst_swap]; exact wf.2

/-- mappings as produced by `MSM.fit` (identity, or `zip(keep_states, range(k))` with
`keep_states` ascending) are written in their own order: the round trip is literal -/
theorem roundtrip_sorted (print : Int → String) (parse : String → Option Int)
    (hpp : ∀ i, parse (print i) = some i) (m : TrimMapping) (wf : m.WellFormed)
    (hsorted : (m.toOriginal.map (·.2)).Pairwise (· ≤ ·)) :
    TrimMapping.read parse (m.write print) = .ok m := by
  rw [read_write print parse hpp m wf]
  have : stableSort (fun a b => decide (a.1 ≤ b.1)) (m.toOriginal.map swap) = m.toOriginal.map swap := by
    apply stableSort_of_pairwise
    rw [List.pairwise_map] at hsorted ⊢
    exact hsorted.imp (by intro a b h; simp only [swap]; exact decide_eq_true h)
  rw [this, map_swap_swap]

/-! ### save / load -/

theorem load_save {F C T P σK σC σT σP : Type} (cd : Codecs F C T P σK σC σT σP)
    (hK : cd.config.Exact) (hC : cd.tcounts.Exact) (hT : cd.tprobs.Exact) (hP : cd.eqProbs.Exact)
    (hpp : ∀ i, cd.parse (cd.print i) = some i)
    (m : Fitted F C T P) (wf : m.fit.mapping.WellFormed)
    (s : Saved σK σC σT σP) (hs : save cd m = .ok s) :
    ∃ m', load cd s = .ok m' ∧ m'.Equal m ∧ m'.msm.maxNStates = none ∧
      m'.fit.mapping.toOriginal.Perm m.fit.mapping.toOriginal := by
  simp only [save, bind, Except.bind, pure, Except.pure] at hs
  cases h1 : cd.tcounts.enc m.fit.tcounts with
  | error e => rw [h1] at hs; cases hs
  | ok c =>
  rw [h1] at hs; simp only [] at hs
  cases h2 : cd.tprobs.enc m.fit.tprobs with
  | error e => rw [h2] at hs; cases hs
  | ok t =>
  rw [h2] at hs; simp only [] at hs
  cases h3 : cd.eqProbs.enc m.fit.eqProbs with
  | error e => rw [h3] at hs; cases hs
  | ok p =>
  rw [h3] at hs; simp only [] at hs
  cases h4 : cd.config.enc m.msm.config with
  | error e => rw [h4] at hs; cases hs
  | ok k =>
  rw [h4] at hs; simp only [Except.ok.injEq] at hs
  subst hs
  obtain ⟨m', hr, hbeq, hperm⟩ := roundtrip_beq cd.print cd.parse hpp m.fit.mapping wf
  refine ⟨{ msm := { lagTime := m.msm.lagTime, trim := m.msm.trim, maxNStates := none,
                     method := m.msm.method, slidingWindow := m.msm.slidingWindow },
            fit := { mapping := m', tcounts := m.fit.tcounts, tprobs := m.fit.tprobs,
                     eqProbs := m.fit.eqProbs } }, ?_, ?_, rfl, hperm⟩
  · simp only [load, bind, Except.bind, pure, Except.pure, hK _ _ h4, hC _ _ h1, hT _ _ h2,
      hP _ _ h3, hr, mkMSM, MSM.config]
  · exact ⟨rfl, rfl, hbeq, rfl, rfl⟩

end Ens.Msm
