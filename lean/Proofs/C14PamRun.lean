import Proofs.C14PamSweep
import Proofs.C14Mean
/-!
C14, distributed PAM, part 3: several sweeps; the round-robin trajectory layout; reassembly with
`assemble_striped_ragged_array` / `convert_local_indices`.
-/
namespace Ens.MpiPam
open Ens Ens.Cluster Ens.Mpi

/-! ### traces -/

theorem forall₂_map_eq {α β γ : Type} {R : α → β → Prop} {l : List α} {l' : List β}
    (h : List.Forall₂ R l l') (f : α → γ) (g : β → γ) (H : ∀ a b, R a b → f a = g b) :
    l.map f = l'.map g := by
  induction h with
  | nil => rfl
  | cons a _ ih => simp only [List.map_cons, ih, H _ _ a]

/-- every proposal used by a loop that returned was a frame of its owner, and the frame that was
    broadcast is that frame -/
theorem loop_trace_valid {lay : Layout} {D : Table} {props : Option (List (Nat × Nat))} :
    ∀ (cids : List Nat) {ms : PState} {orc : List Nat} {ms' : PState} {orc' : List Nat} {tr : List MStep},
      mpiPamLoop lay D props cids ms orc = .ok (ms', orc', tr) →
      ∀ st ∈ tr, st.p.1 < lay.w ∧ st.p.2 < lay.m st.p.1 ∧ st.y = lay.X st.p.1 st.p.2 := by
  intro cids
  induction cids with
  | nil =>
    intro ms orc ms' orc' tr h
    simp only [mpiPamLoop] at h
    injection h with h
    injection h with _ h
    injection h with _ h3
    subst h3
    simp
  | cons cid rest ih =>
    intro ms orc ms' orc' tr h
    obtain ⟨p, orc1, st, tr2, _, h2, h3, rfl⟩ := mpiPamLoop_cons_ok h
    obtain ⟨_, e2, hd⟩ := mpiPamStep_ok h2
    intro x hx
    rcases List.mem_cons.mp hx with rfl | hx'
    · rw [e2]; exact distribute_ok hd
    · exact ih h3 x hx'

theorem update_trace_valid {lay : Layout} {N : Nat} (hb : LayoutBij lay N) {D : Table} {ms : PState} {ss : St}
    (hr : Striped lay ms ss) {props : Option (List (Nat × Nat))} {orc orc' : List Nat} {ms' : PState}
    {tr : List MStep} (h : mpiPamUpdate lay D ms props orc = .ok (ms', orc', tr)) :
    ∀ st ∈ tr, st.p.1 < lay.w ∧ st.p.2 < lay.m st.p.1 ∧ st.y = lay.X st.p.1 st.p.2 :=
  loop_trace_valid _ (update_ok hb hr h).2.2

/-! ### several sweeps -/

theorem sweeps_succ_ok {lay : Layout} {D : Table} {props : Option (List (Nat × Nat))} {k : Nat} {s : PState}
    {orc : List Nat} {r : MRun} (h : mpiSweepsFrom lay D props (k+1) s orc = .ok r) :
    ∃ s' orc' tr r', mpiPamUpdate lay D s props orc = .ok (s', orc', tr) ∧
      mpiSweepsFrom lay D props k s' orc' = .ok r' ∧
      r.final = r'.final ∧ r.oracle = r'.oracle ∧ r.trace = tr ++ r'.trace ∧ r.sweeps = s' :: r'.sweeps := by
  simp only [mpiSweepsFrom] at h
  cases hp : mpiPamUpdate lay D s props orc with
  | error e => simp [hp] at h
  | ok v =>
    obtain ⟨s', orc', tr⟩ := v
    simp only [hp] at h
    cases hr : mpiSweepsFrom lay D props k s' orc' with
    | error e => simp [hr] at h
    | ok r' =>
      simp only [hr] at h
      injection h with h
      subst h
      exact ⟨s', orc', tr, r', rfl, hr, rfl, rfl, rfl, rfl⟩

theorem iterations_ok {lay : Layout} {D : Table} {nIters : Nat} {s : PState}
    {props : Option (List (Nat × Nat))} {orc : List Nat} {r : MRun}
    (h : mpiKmedoidsIterations lay D nIters s props orc = .ok r) :
    ∃ k, nIters = k + 1 ∧ mpiSweepsFrom lay D props (k+1) s orc = .ok r := by
  unfold mpiKmedoidsIterations at h
  cases nIters with
  | zero => simp at h
  | succ k => exact ⟨k, rfl, by simpa using h⟩

/-- any number of distributed sweeps, any source of proposals: the final distributed state is
    the striped view of a serial state `ss'` with the same number of centers; the global cost
    after every accept/reject decision never increases and ends at its minimum; and if the
    start was consistent, so are the result and the state after every sweep -/
theorem sweeps_inv {lay : Layout} {N : Nat} (hb : LayoutBij lay N) (hm : MeanOK lay N) (D : Table)
    (props : Option (List (Nat × Nat))) :
    ∀ (k : Nat) {ms : PState} {ss : St} {orc : List Nat} {r : MRun}, Striped lay ms ss →
      mpiSweepsFrom lay D props k ms orc = .ok r →
      ∃ (ss' : St) (cs : List Rat), Striped lay r.final ss' ∧
        ss'.ctrInds.length = ss.ctrInds.length ∧
        costsAfter lay r.trace = cs.map .ok ∧
        (cost N ss.arr.dist :: cs).Pairwise (fun x y => y ≤ x) ∧
        (∀ x ∈ cost N ss.arr.dist :: cs, cost N ss'.arr.dist ≤ x) ∧
        (TableOK D N → Consistent D N ss →
          Consistent D N ss' ∧ ∀ x ∈ r.sweeps, ∃ sx, Striped lay x sx ∧ Consistent D N sx ∧
            sx.ctrInds.length = ss.ctrInds.length) := by
  intro k
  induction k with
  | zero =>
    intro ms ss orc r hr h
    simp only [mpiSweepsFrom] at h
    injection h with h
    subst h
    exact ⟨ss, [], hr, rfl, rfl, by simp, by simp, fun _ hs => ⟨hs, by simp⟩⟩
  | succ k ih =>
    intro ms ss orc r hr h
    obtain ⟨s', orc', tr, r', h1, h2, e1, _, e3, e4⟩ := sweeps_succ_ok h
    obtain ⟨ss1, tr1, k1, k2, k3⟩ := update_refines hb hm D hr h1
    obtain ⟨p1, l1⟩ := pamUpdate_costs k1
    obtain ⟨ss', cs, i1, i2, i3, p2, l2, i6⟩ := ih k2 h2
    refine ⟨ss', costsOf N tr1 ++ cs, by rw [e1]; exact i1, by rw [i2]; exact (pamUpdate_shape k1).len, ?_, ?_, ?_, ?_⟩
    · rw [e3]
      simp only [costsAfter, List.map_append] at i3 ⊢
      rw [i3]
      have := costsAfter_eq hb hm k3
      simp only [costsAfter] at this
      rw [this]
    · rw [← List.cons_append]
      refine List.pairwise_append.mpr ⟨p1, (List.pairwise_cons.mp p2).2, ?_⟩
      intro a ha b hb'
      exact le_trans ((List.pairwise_cons.mp p2).1 b hb') (l1 a ha)
    · intro x hx
      rw [← List.cons_append] at hx
      rcases List.mem_append.mp hx with hx' | hx'
      · exact le_trans (l2 _ List.mem_cons_self) (l1 x hx')
      · exact l2 x (List.mem_cons_of_mem _ hx')
    · intro T hs
      have hs1 := pamUpdate_consistent T hs k1
      obtain ⟨j1, j2⟩ := i6 T hs1
      refine ⟨j1, ?_⟩
      intro x hx
      rw [e4] at hx
      rcases List.mem_cons.mp hx with rfl | hx'
      · exact ⟨ss1, k2, hs1, (pamUpdate_shape k1).len⟩
      · obtain ⟨sx, a1, a2, a3⟩ := j2 x hx'
        exact ⟨sx, a1, a2, by rw [a3]; exact (pamUpdate_shape k1).len⟩

/-- explicit proposals: the distributed sweeps are the serial sweeps with the proposals'
    global frames, sweep by sweep and step by step -/
theorem sweeps_refines_explicit {lay : Layout} {N : Nat} (hb : LayoutBij lay N) (hm : MeanOK lay N)
    (D : Table) (ps : List (Nat × Nat)) :
    ∀ (k : Nat) {ms : PState} {ss : St} {orc : List Nat} {r : MRun}, Striped lay ms ss →
      mpiSweepsFrom lay D (some ps) k ms orc = .ok r →
      ∃ sr, sweepsFrom D N (some (ps.map fun p => lay.X p.1 p.2)) k ss [] = .ok sr ∧
        Striped lay r.final sr.final ∧ List.Forall₂ (StepRel lay) r.trace sr.trace ∧
        List.Forall₂ (Striped lay) r.sweeps sr.sweeps := by
  intro k
  induction k with
  | zero =>
    intro ms ss orc r hr h
    simp only [mpiSweepsFrom] at h
    injection h with h
    subst h
    exact ⟨_, rfl, hr, List.Forall₂.nil, List.Forall₂.nil⟩
  | succ k ih =>
    intro ms ss orc r hr h
    obtain ⟨s', orc', tr, r', h1, h2, e1, _, e3, e4⟩ := sweeps_succ_ok h
    obtain ⟨ss1, tr1, k1, k2, k3, _⟩ := update_refines_explicit hb hm D hr h1
    obtain ⟨sr, j1, j2, j3, j4⟩ := ih k2 h2
    refine ⟨{ sr with trace := tr1 ++ sr.trace, sweeps := ss1 :: sr.sweeps }, ?_, by rw [e1]; exact j2, ?_, ?_⟩
    · simp only [sweepsFrom, bind, Except.bind, k1, j1, pure, Except.pure]
    · rw [e3]; exact List.rel_append k3 j3
    · rw [e4]; exact List.Forall₂.cons k2 j4

/-- from a consistent state and valid explicit proposals every sweep runs through -/
theorem sweeps_total {lay : Layout} {N : Nat} (hb : LayoutBij lay N) (hm : MeanOK lay N) {D : Table}
    (T : TableOK D N) {ps : List (Nat × Nat)} (hv : ∀ p ∈ ps, p.1 < lay.w ∧ p.2 < lay.m p.1) :
    ∀ (k : Nat) {ms : PState} {ss : St} (orc : List Nat), Striped lay ms ss → Consistent D N ss →
      ps.length = ms.ctrs.length → ∃ r, mpiSweepsFrom lay D (some ps) k ms orc = .ok r := by
  intro k
  induction k with
  | zero => intro ms ss orc _ _ _; exact ⟨_, rfl⟩
  | succ k ih =>
    intro ms ss orc hr hs hl
    obtain ⟨out, h1⟩ := update_total hb hm T hr hs hl hv orc
    obtain ⟨s', orc', tr⟩ := out
    obtain ⟨ss1, k2, hs1, hl1⟩ := update_consistent hb hm T hr hs h1
    have hl' : ps.length = s'.ctrs.length := by rw [k2.len_ctrs, hl1, ← hr.len_ctrs]; exact hl
    obtain ⟨r, h2⟩ := ih orc' k2 hs1 hl'
    refine ⟨{ r with trace := tr ++ r.trace, sweeps := s' :: r.sweeps }, ?_⟩
    simp only [mpiSweepsFrom, h1, h2]

/-! ### the round-robin trajectory layout -/

theorem meanOK_stripeLayout (w : Nat) (hw : 0 < w) (L : List Nat) (hN : 0 < L.sum) :
    MeanOK (stripeLayout w L) L.sum := by
  intro f
  have e : (fun r => tabulate ((stripeLayout w L).m r) (fun i => f ((stripeLayout w L).X r i))) =
      fun r => (localFrames w L r).map f := by
    funext r; exact tabulate_local w L f r
  show stripedMean w _ = _
  rw [e, stripedMean_eq w hw _ ((List.range L.sum).map f)]
  · rw [← sumTo_eq_sum_map]; simp
  · have h := (localFrames_perm w hw L).map f
    rw [List.map_flatMap] at h
    exact h.symm
  · intro h
    have := congrArg List.length h
    simp at this
    omega

theorem sum_pos_of (w : Nat) (hw : 0 < w) (L : List Nat) (hT : w ≤ L.length) (hpos : ∀ l ∈ L, 0 < l) :
    0 < L.sum := by
  have h0 : 0 < L.length := by omega
  have := hpos _ (List.getElem_mem h0)
  have hle := sum_take_add_le L 0 L[0] (List.getElem?_eq_getElem h0)
  omega

/-! ### reassembly -/

theorem toList_eq_tabulate (a : Array Rat) : a.toList = tabulate a.size (fun i => a.getD i 0) := by
  apply List.ext_getElem
  · simp [tabulate]
  · intro i h1 h2
    have hi : i < a.size := by simpa using h1
    simp [tabulate, Array.getD, hi]

theorem toList_eq_tabulate_int (a : Array Int) : a.toList = tabulate a.size (fun i => a.getD i 0) := by
  apply List.ext_getElem
  · simp [tabulate]
  · intro i h1 h2
    have hi : i < a.size := by simpa using h1
    simp [tabulate, Array.getD, hi]

theorem getD_toArray_tabulate {α : Type} (n : Nat) (g : Nat → α) (d : α) {f : Nat} (hf : f < n) :
    (tabulate n g).toArray.getD f d = g f := by
  simp [tabulate, Array.getD, hf]

/-- two states that agree on the frames `0 … n-1` are consistent together -/
theorem consistent_congr {D : Table} {n : Nat} {s t : St} (h : Consistent D n s)
    (h1 : t.arr.fresh = false) (h2 : t.ctrInds = s.ctrInds) (h3 : t.ctrFrames = s.ctrFrames)
    (hd : ∀ f, f < n → t.arr.dist f = s.arr.dist f) (ha : ∀ f, f < n → t.arr.assign f = s.arr.assign f) :
    Consistent D n t where
  notFresh := h1
  frames := by rw [h2, h3]; exact h.frames
  inds_lt := by rw [h2]; exact h.inds_lt
  lab := by
    intro f hf
    rw [h2, hd f hf, ha f hf]; exact h.lab f hf
  best := by
    intro f hf k c hk
    rw [h2] at hk
    rw [hd f hf]; exact h.best f hf k c hk
  own := by
    intro k c hk
    rw [h2] at hk
    have hc := h.inds_lt c (List.mem_of_getElem? hk)
    rw [hd c hc, ha c hc]; exact h.own k c hk

/-- the library's reassembly of a striped view returns the serial state (on the frames of the data) -/
theorem reassemble_of_striped (w : Nat) (hw : 0 < w) (L : List Nat) (hT : w ≤ L.length)
    {ms : PState} {ss : St} (hr : Striped (stripeLayout w L) ms ss) :
    ∃ rs, reassemble w L ms = .ok rs ∧ rs.arr.fresh = false ∧ rs.ctrInds = ss.ctrInds ∧
      rs.ctrFrames = ss.ctrFrames ∧
      rs.arr.distA = (tabulate L.sum ss.arr.dist).toArray ∧
      rs.arr.assignA = (tabulate L.sum ss.arr.assign).toArray ∧
      (∀ f, f < L.sum → rs.arr.dist f = ss.arr.dist f) ∧
      (∀ f, f < L.sum → rs.arr.assign f = ss.arr.assign f) := by
  have hd : assembleStripedRagged w L (fun r => (ms.arr r).distA.toList) = .ok (tabulate L.sum ss.arr.dist) := by
    rw [assembleStripedRagged_congr w hw L _
      (fun r => tabulate ((stripeLayout w L).m r) ((ms.arr r).dist))]
    · exact assemble_of_rel w hw L hT ss.arr.dist (fun r => (ms.arr r).dist) hr.dist
    · intro r hr'
      rw [toList_eq_tabulate, hr.sizeD r hr']
      rfl
  have ha : assembleStripedRagged w L (fun r => (ms.arr r).assignA.toList) = .ok (tabulate L.sum ss.arr.assign) := by
    rw [assembleStripedRagged_congr w hw L _
      (fun r => tabulate ((stripeLayout w L).m r) ((ms.arr r).assign))]
    · exact assemble_of_rel w hw L hT ss.arr.assign (fun r => (ms.arr r).assign) hr.assign
    · intro r hr'
      rw [toList_eq_tabulate_int, hr.sizeA r hr']
      rfl
  have hc : convertLocalIndices w L ms.ctrs = .ok ss.ctrInds := by
    rw [convert_of_valid w hw L hT ms.ctrs hr.valid, hr.ctrs]
  refine ⟨{ arr := { fresh := false, distA := (tabulate L.sum ss.arr.dist).toArray,
                     assignA := (tabulate L.sum ss.arr.assign).toArray },
            ctrInds := ss.ctrInds, ctrFrames := ms.coords },
    by unfold reassemble; rw [hd, ha, hc], rfl, rfl, hr.coords, rfl, rfl, ?_, ?_⟩
  · intro f hf
    exact getD_toArray_tabulate L.sum ss.arr.dist 0 hf
  · intro f hf
    exact getD_toArray_tabulate L.sum ss.arr.assign 0 hf

/-- the library's reassembly of the distributed state `ms` (`assemble_striped_ragged_array` of
    the local distances and of the local labels, `convert_local_indices` of the medoid pairs)
    succeeds and returns exactly the serial state `ss` on the frames `0 … sum L - 1`: the same
    center indices and coordinates, and distance / label arrays equal, entry by entry, to the
    serial ones -/
def ReassemblesTo (w : Nat) (L : List Nat) (ms : PState) (ss : St) : Prop :=
  ∃ rs, reassemble w L ms = .ok rs ∧ rs.arr.fresh = false ∧ rs.ctrInds = ss.ctrInds ∧
    rs.ctrFrames = ss.ctrFrames ∧
    rs.arr.distA = (tabulate L.sum ss.arr.dist).toArray ∧
    rs.arr.assignA = (tabulate L.sum ss.arr.assign).toArray

theorem reassemblesTo_of_striped (w : Nat) (hw : 0 < w) (L : List Nat) (hT : w ≤ L.length)
    {ms : PState} {ss : St} (hr : Striped (stripeLayout w L) ms ss) : ReassemblesTo w L ms ss := by
  obtain ⟨rs, h1, h2, h3, h4, h5, h6, _⟩ := reassemble_of_striped w hw L hT hr
  exact ⟨rs, h1, h2, h3, h4, h5, h6⟩

/-- …and the reassembled state is consistent whenever the serial one is -/
theorem reassembled_consistent (w : Nat) (hw : 0 < w) (L : List Nat) (hT : w ≤ L.length) {D : Table}
    {ms : PState} {ss : St} (hr : Striped (stripeLayout w L) ms ss) (hs : Consistent D L.sum ss) :
    ∃ rs, reassemble w L ms = .ok rs ∧ Consistent D L.sum rs ∧ rs.ctrInds = ss.ctrInds := by
  obtain ⟨rs, h1, h2, h3, h4, _, _, h7, h8⟩ := reassemble_of_striped w hw L hT hr
  exact ⟨rs, h1, consistent_congr hs h2 h3 h4 h7 h8, h3⟩

/-- `scatter` produces a striped view -/
theorem scatter_striped {lay : Layout} {ss : St} (hfr : ss.arr.fresh = false) (ctrs : List (Nat × Nat))
    (hv : ∀ p ∈ ctrs, p.1 < lay.w ∧ p.2 < lay.m p.1)
    (hc : ctrs.map (fun p => lay.X p.1 p.2) = ss.ctrInds) : Striped lay (scatter lay ss ctrs) ss where
  sfresh := hfr
  mfresh := fun r h => by unfold scatter; rw [arr_tabulate _ _ _ _ h]; exact hfr
  sizeD := fun r h => by unfold scatter; rw [arr_tabulate _ _ _ _ h]; simp
  sizeA := fun r h => by unfold scatter; rw [arr_tabulate _ _ _ _ h]; simp
  dist := fun r i h h' => by unfold scatter; rw [arr_tabulate _ _ _ _ h, tab_dist _ _ _ h']
  assign := fun r i h h' => by unfold scatter; rw [arr_tabulate _ _ _ _ h, tab_assign _ _ _ h']
  ctrs := hc
  valid := hv
  coords := rfl

/-! ### random proposals; the `kmedoids` front -/

/-- a random proposal under MPI (`randind` over the local member lists, then the owner's
    `state_inds[idx]`) is a frame of its owner that carries the label of the cluster being
    updated (kmedoids.py L612, L501-508) -/
theorem mpiPropose_random_member {lay : Layout} {s : PState} {cid : Nat} {orc orc' : List Nat}
    {p : Nat × Nat} (h : mpiPropose lay s cid none orc = .ok (p, orc')) :
    p.1 < lay.w ∧ p.2 < lay.m p.1 ∧ (s.arr p.1).assign p.2 = (cid : Nat) ∧ ∃ o, orc = o :: orc' := by
  unfold mpiPropose at h
  simp only [] at h
  split at h
  · cases h
  · rename_i hsum
    split at h
    · cases h
    · rename_i o orc1
      split at h
      · cases h
      · rename_i r idx hri
        split at h
        · cases h
        · rename_i i hi
          injection h with h
          injection h with h1 h2
          subst h1; subst h2
          have hmem := List.mem_of_getElem? hi
          simp only [members, List.mem_filter, List.mem_range, decide_eq_true_eq] at hmem
          refine ⟨?_, hmem.1, hmem.2, o, rfl⟩
          have hN : 1 ≤ ((List.range lay.w).map fun r => (members lay s cid r).length).sum := by omega
          obtain ⟨a, ha, _⟩ := findRC_some ((randind_ok_iff _ hN _ r idx).mp hri)
          have hr : r < (randindTable ((List.range lay.w).map fun r => (members lay s cid r).length)).length :=
            (List.getElem?_eq_some_iff.mp ha).1
          have hw : 0 < ((List.range lay.w).map fun r => (members lay s cid r).length).length := by
            rcases Nat.eq_zero_or_pos lay.w with h0 | h0
            · rw [h0] at hN; simp at hN
            · simpa using h0
          have hl := congrArg List.length (randindTable_perm _ hw).2
          simp only [List.length_map, List.length_range] at hl
          omega

/-- the warm-start front of `kmedoids` under MPI only converts the centers and checks them:
    a run that returns is a run of `_kmedoids_iterations` from the converted `(rank, index)` pairs -/
theorem mpiKmedoids_ok {w : Nat} {L : List Nat} {D : Table} {nIters : Nat} {arrs : List Arr}
    {centers : List (Nat × Nat) ⊕ List Nat} {props : Option (List (Nat × Nat))} {orc : List Nat} {r : MRun}
    (h : mpiKmedoids w L D nIters arrs centers props orc = .ok r) :
    ∃ ctrs, warmCenters w L centers = .ok ctrs ∧
      mpiKmedoidsIterations (stripeLayout w L) D nIters { arrs := arrs, ctrs := ctrs, coords := [] } props orc = .ok r := by
  unfold mpiKmedoids at h
  cases hc : warmCenters w L centers with
  | error e => simp [hc] at h
  | ok ctrs =>
    simp only [hc] at h
    split at h
    · cases h
    · split at h
      · cases h
      · exact ⟨ctrs, rfl, h⟩


/-- a sweep re-broadcasts the medoid frames from the medoid pairs: the `medoid_coords` a state
    carries on entry are never read -/
theorem mpiPamUpdate_coords (lay : Layout) (D : Table) (s : PState) (c : List Nat)
    (props : Option (List (Nat × Nat))) (orc : List Nat) :
    mpiPamUpdate lay D { s with coords := c } props orc = mpiPamUpdate lay D s props orc := rfl

theorem mpiKmedoidsIterations_coords (lay : Layout) (D : Table) (nIters : Nat) (s : PState) (c : List Nat)
    (props : Option (List (Nat × Nat))) (orc : List Nat) :
    mpiKmedoidsIterations lay D nIters { s with coords := c } props orc =
      mpiKmedoidsIterations lay D nIters s props orc := by
  unfold mpiKmedoidsIterations
  cases nIters with
  | zero => rfl
  | succ k => simp only [Nat.succ_ne_zero, if_false, mpiSweepsFrom, mpiPamUpdate_coords]

end Ens.MpiPam
