import Proofs.C14Order
/-! Distributed k-centers refines serial k-centers (abstract layout). -/
namespace Ens.Mpi
set_option linter.unusedSectionVars false

variable {α : Type} [LT α] [DecidableRel (α := α) (· < ·)] [StrictTotal α]

/-- the frames `0 … N-1` are dealt to the ranks without loss or duplication, every rank
    holds at least one frame and frame 0 is rank 0's first frame -/
structure LayoutBij (lay : Layout) (N : Nat) : Prop where
  wpos : 0 < lay.w
  nonempty : ∀ r, r < lay.w → 0 < lay.m r
  lt : ∀ r i, r < lay.w → i < lay.m r → lay.X r i < N
  inj : ∀ r i r' i', r < lay.w → i < lay.m r → r' < lay.w → i' < lay.m r' →
    lay.X r i = lay.X r' i' → r = r' ∧ i = i'
  surj : ∀ g, g < N → ∃ r i, r < lay.w ∧ i < lay.m r ∧ lay.X r i = g
  first : lay.X 0 0 = 0

/-- tie-free table: zero diagonal, positive and finite elsewhere, all off-diagonal entries
    distinct (up to the transposed position) -/
structure TieFree (N : Nat) (D : Nat → Nat → α) (zero top : α) : Prop where
  diag : ∀ g, g < N → D g g = zero
  pos : ∀ g c, g < N → c < N → g ≠ c → zero < D g c
  fin : ∀ g c, g < N → c < N → D g c < top
  distinct : ∀ a b c d, a < N → b < N → c < N → d < N → a ≠ b → c ≠ d → D a b = D c d →
    (a = c ∧ b = d) ∨ (a = d ∧ b = c)

/-- the distributed state is the serial state seen through the layout -/
structure Rel (lay : Layout) (ms : MState α) (ss : SState α) : Prop where
  dist : ∀ r i, r < lay.w → i < lay.m r → ms.dist r i = ss.dist (lay.X r i)
  assign : ∀ r i, r < lay.w → i < lay.m r → ms.assign r i = ss.assign (lay.X r i)
  ctrs : ms.ctrs.map (fun p => lay.X p.1 p.2) = ss.ctrs
  valid : ∀ p ∈ ms.ctrs, p.1 < lay.w ∧ p.2 < lay.m p.1

/-- the pair chosen by the gathered-argmax is valid and maximal over all ranks -/
theorem mpiArgmax_spec (lay : Layout) (N : Nat) (hb : LayoutBij lay N) (d : Nat → Nat → α) :
    let locs := fun r => Ens.argmaxTo (lay.m r) (d r)
    let owner := Ens.argmaxTo lay.w (fun r => d r (locs r))
    owner < lay.w ∧ locs owner < lay.m owner ∧
    ∀ r i, r < lay.w → i < lay.m r → ¬ d owner (locs owner) < d r i := by
  intro locs owner
  obtain ⟨h1, h2, _⟩ := argmaxTo_spec lay.w hb.wpos (fun r => d r (locs r))
  obtain ⟨h3, _, _⟩ := argmaxTo_spec (lay.m owner) (hb.nonempty owner h1) (d owner)
  refine ⟨h1, h3, ?_⟩
  intro r i hr hi
  obtain ⟨_, h5, _⟩ := argmaxTo_spec (lay.m r) (hb.nonempty r hr) (d r)
  exact st_ge_trans (h2 r hr) (h5 i hi)

/-- allreduce(MAX) of the local maxima = the serial maximum -/
theorem mpiMax_eq_serialMax (lay : Layout) (N : Nat) (hN : 0 < N) (hb : LayoutBij lay N)
    (ms : MState α) (ss : SState α) (hr : Rel lay ms ss) :
    mpiMax lay ms.dist = serialMax N ss.dist := by
  obtain ⟨h1, h2, h3⟩ := mpiArgmax_spec lay N hb ms.dist
  obtain ⟨a1, a2, _⟩ := argmaxTo_spec N hN ss.dist
  unfold mpiMax serialMax
  apply st_eq_of_ge_of_ge
  · -- mpi max ≥ serial max
    obtain ⟨r, i, hr', hi, hx⟩ := hb.surj _ a1
    have := h3 r i hr' hi
    rw [hr.dist r i hr' hi, hx] at this
    exact this
  · have := a2 _ (hb.lt _ _ h1 h2)
    rw [← hr.dist _ _ h1 h2] at this
    exact this

/-- one iteration: if the distributed choice is the serial choice, the states stay related -/
theorem iter_rel (lay : Layout) (N : Nat) (D : Nat → Nat → α)
    (ms : MState α) (ss : SState α) (hr : Rel lay ms ss)
    (hv : (mpiPick lay ms).1 < lay.w ∧ (mpiPick lay ms).2 < lay.m (mpiPick lay ms).1)
    (hpick : lay.X (mpiPick lay ms).1 (mpiPick lay ms).2 = Ens.argmaxTo N ss.dist) :
    Rel lay (mpiIter lay D ms) (serialIter N D ss) := by
  have hlen : ms.ctrs.length = ss.ctrs.length := by
    have := congrArg List.length hr.ctrs; simpa using this
  constructor
  · intro r i hr' hi
    simp only [mpiIter, serialIter, hpick, hr.dist r i hr' hi]
  · intro r i hr' hi
    simp only [mpiIter, serialIter, hpick, hr.dist r i hr' hi, hr.assign r i hr' hi, hlen]
  · simp only [mpiIter, serialIter, List.map_append, hr.ctrs, List.map_cons, List.map_nil, hpick]
  · intro p hp
    simp only [mpiIter, List.mem_append, List.mem_singleton] at hp
    rcases hp with hp | hp
    · exact hr.valid p hp
    · subst hp; exact hv

/-- invariant of the serial state on a tie-free table -/
inductive Inv (N : Nat) (D : Nat → Nat → α) (zero top : α) (ss : SState α) : Prop
  | init : ss.ctrs = [] → (∀ g, g < N → ss.dist g = top) → Inv N D zero top ss
  | run : ss.ctrs ≠ [] → (∀ c ∈ ss.ctrs, c < N) →
      (∀ g, g < N → ∃ c ∈ ss.ctrs, ss.dist g = D g c) → (∀ c ∈ ss.ctrs, ss.dist c = zero) →
      Inv N D zero top ss

theorem st_not_lt_of_lt {a b : α} (h : a < b) : ¬ b < a := fun h' => st_irrefl a (st_trans h h')

theorem inv_iter (N : Nat) (hN : 0 < N) (D : Nat → Nat → α) (zero top : α) (ht : TieFree N D zero top)
    (ss : SState α) (hi : Inv N D zero top ss) : Inv N D zero top (serialIter N D ss) := by
  obtain ⟨hc, _, _⟩ := argmaxTo_spec N hN ss.dist
  have hnz : ∀ g, g < N → ¬ D g (Ens.argmaxTo N ss.dist) < zero := by
    intro g hg
    by_cases e : g = Ens.argmaxTo N ss.dist
    · rw [← e, ht.diag g hg]; exact st_irrefl _
    · exact st_not_lt_of_lt (ht.pos g _ hg hc e)
  cases hi with
  | init h0 htop =>
    refine Inv.run ?_ ?_ ?_ ?_
    · simp [serialIter]
    · intro c hcm
      simp only [serialIter, h0, List.nil_append, List.mem_singleton] at hcm
      subst hcm; exact hc
    · intro g hg
      refine ⟨Ens.argmaxTo N ss.dist, by simp [serialIter], ?_⟩
      simp only [serialIter, htop g hg, ht.fin g _ hg hc, if_true]
    · intro c hcm
      simp only [serialIter, h0, List.nil_append, List.mem_singleton] at hcm
      subst hcm
      have hf := ht.fin _ _ hc hc
      rw [ht.diag _ hc] at hf
      simp only [serialIter, htop _ hc, ht.diag _ hc, hf, if_true]
  | run hne hlt hex hzero =>
    refine Inv.run ?_ ?_ ?_ ?_
    · simp [serialIter]
    · intro c hcm
      simp only [serialIter, List.mem_append, List.mem_singleton] at hcm
      rcases hcm with h | h
      · exact hlt c h
      · subst h; exact hc
    · intro g hg
      simp only [serialIter]
      by_cases hlt' : D g (Ens.argmaxTo N ss.dist) < ss.dist g
      · exact ⟨Ens.argmaxTo N ss.dist, by simp, by simp only [hlt', if_true]⟩
      · obtain ⟨c, hcm, hd⟩ := hex g hg
        exact ⟨c, by simp [hcm], by rw [if_neg hlt']; exact hd⟩
    · intro c hcm
      simp only [serialIter, List.mem_append, List.mem_singleton] at hcm
      simp only [serialIter]
      rcases hcm with h | h
      · have hcN := hlt c h
        rw [hzero c h]
        simp only [hnz c hcN, if_false]
      · subst h
        by_cases hlt' : D (Ens.argmaxTo N ss.dist) (Ens.argmaxTo N ss.dist) < ss.dist (Ens.argmaxTo N ss.dist)
        · rw [if_pos hlt', ht.diag _ hc]
        · rw [if_neg hlt']
          rw [ht.diag _ hc] at hlt'
          obtain ⟨c', hcm', hd⟩ := hex _ hc
          by_cases e : Ens.argmaxTo N ss.dist = c'
          · rw [hd, ← e, ht.diag _ hc]
          · rw [hd] at hlt'
            exact absurd (ht.pos _ _ hc (hlt c' hcm') e) hlt'

/-- on a tie-free table a positive maximum of the running distances is attained exactly once -/
theorem unique_max (N : Nat) (D : Nat → Nat → α) (zero top : α) (ht : TieFree N D zero top)
    (ss : SState α) (hne : ss.ctrs ≠ []) (hlt : ∀ c ∈ ss.ctrs, c < N)
    (hex : ∀ g, g < N → ∃ c ∈ ss.ctrs, ss.dist g = D g c) (hzero : ∀ c ∈ ss.ctrs, ss.dist c = zero)
    (g g' : Nat) (hg : g < N) (hg' : g' < N) (heq : ss.dist g = ss.dist g') (hpos : zero < ss.dist g) :
    g = g' := by
  obtain ⟨c, hc, hd⟩ := hex g hg
  obtain ⟨c', hc', hd'⟩ := hex g' hg'
  have hgc : g ≠ c := by
    intro e; rw [hd, ← e, ht.diag g hg] at hpos; exact st_irrefl _ hpos
  have hgc' : g' ≠ c' := by
    intro e; rw [heq, hd', ← e, ht.diag g' hg'] at hpos; exact st_irrefl _ hpos
  have hD : D g c = D g' c' := by rw [← hd, ← hd', heq]
  rcases ht.distinct g c g' c' hg (hlt c hc) hg' (hlt c' hc') hgc hgc' hD with ⟨e, _⟩ | ⟨e, _⟩
  · exact e
  · rw [e, hzero c' hc'] at hpos
    exact absurd hpos (st_irrefl _)

theorem st_lt_of_ge_of_lt {a b c : α} (h1 : ¬ b < a) (h2 : b < c) : a < c := by
  rcases st_tri a b with h | h | h
  · exact st_trans h h2
  · subst h; exact h2
  · exact (h1 h).elim

theorem argmaxTo_const (N : Nat) (hN : 0 < N) (f : Nat → α) (c : α) (h : ∀ g, g < N → f g = c) :
    Ens.argmaxTo N f = 0 := by
  obtain ⟨h1, _, h3⟩ := argmaxTo_spec N hN f
  by_contra hne
  have := h3 0 (by omega)
  rw [h 0 hN, h _ h1] at this
  exact st_irrefl _ this

/-- whenever the loop runs, the distributed choice is the serial choice -/
theorem pick_eq (lay : Layout) (N : Nat) (hN : 0 < N) (hb : LayoutBij lay N) (D : Nat → Nat → α)
    (zero top : α) (ht : TieFree N D zero top) (ms : MState α) (ss : SState α) (hr : Rel lay ms ss)
    (hi : Inv N D zero top ss) (hpos : zero < serialMax N ss.dist) :
    ((mpiPick lay ms).1 < lay.w ∧ (mpiPick lay ms).2 < lay.m (mpiPick lay ms).1) ∧
    lay.X (mpiPick lay ms).1 (mpiPick lay ms).2 = Ens.argmaxTo N ss.dist := by
  have hlen : ms.ctrs.length = ss.ctrs.length := by
    have := congrArg List.length hr.ctrs; simpa using this
  cases hi with
  | init h0 htop =>
    have : ms.ctrs.length = 0 := by rw [hlen, h0]; rfl
    simp only [mpiPick, this, if_true]
    refine ⟨⟨hb.wpos, hb.nonempty 0 hb.wpos⟩, ?_⟩
    rw [hb.first, argmaxTo_const N hN ss.dist top htop]
  | run hne hlt hex hzero =>
    have : ms.ctrs.length ≠ 0 := by
      rw [hlen]; intro h; exact hne (List.length_eq_zero_iff.mp h)
    simp only [mpiPick, this, if_false]
    generalize ho : (Ens.argmaxTo lay.w fun r => ms.dist r (Ens.argmaxTo (lay.m r) (ms.dist r))) = owner
    generalize hj : Ens.argmaxTo (lay.m owner) (ms.dist owner) = idx
    have hs := mpiArgmax_spec lay N hb ms.dist
    simp only [ho, hj] at hs
    obtain ⟨h1, h2, h3⟩ := hs
    refine ⟨⟨h1, h2⟩, ?_⟩
    obtain ⟨a1, a2, _⟩ := argmaxTo_spec N hN ss.dist
    have hx := hb.lt _ _ h1 h2
    -- both are maximisers of ss.dist, hence have equal (positive) distance
    have e : ss.dist (lay.X owner idx) = ss.dist (Ens.argmaxTo N ss.dist) := by
      apply st_eq_of_ge_of_ge
      · obtain ⟨r, i, hr', hi', hxx⟩ := hb.surj _ a1
        have := h3 r i hr' hi'
        rw [hr.dist r i hr' hi', hxx, hr.dist _ _ h1 h2] at this
        exact this
      · exact a2 _ hx
    exact unique_max N D zero top ht ss hne hlt hex hzero _ _ hx a1 e (by rw [e]; exact hpos)

/-- the two loops run in lock-step -/
theorem loop_refines (lay : Layout) (N : Nat) (hN : 0 < N) (hb : LayoutBij lay N) (D : Nat → Nat → α)
    (zero top : α) (ht : TieFree N D zero top) (k : Option Nat) (cutoff : α) (hcut : ¬ cutoff < zero)
    (fuel : Nat) (ms : MState α) (ss : SState α) (hr : Rel lay ms ss) (hi : Inv N D zero top ss) :
    (∃ ms' ss', mpiLoop lay D k cutoff fuel ms = .ok ms' ∧ serialLoop N D k cutoff fuel ss = .ok ss' ∧
        Rel lay ms' ss' ∧ Inv N D zero top ss') ∨
    (mpiLoop lay D k cutoff fuel ms = .error .fuel ∧ serialLoop N D k cutoff fuel ss = .error .fuel) := by
  induction fuel generalizing ms ss with
  | zero =>
    have hlen : ms.ctrs.length = ss.ctrs.length := by
      have := congrArg List.length hr.ctrs; simpa using this
    have hmax := mpiMax_eq_serialMax lay N hN hb ms ss hr
    unfold mpiLoop serialLoop
    rw [hlen, hmax]
    by_cases hc : underK k ss.ctrs.length = true ∧ cutoff < serialMax N ss.dist
    · rw [if_pos hc, if_pos hc]; exact Or.inr ⟨rfl, rfl⟩
    · rw [if_neg hc, if_neg hc]; exact Or.inl ⟨ms, ss, rfl, rfl, hr, hi⟩
  | succ fuel ih =>
    have hlen : ms.ctrs.length = ss.ctrs.length := by
      have := congrArg List.length hr.ctrs; simpa using this
    have hmax := mpiMax_eq_serialMax lay N hN hb ms ss hr
    unfold mpiLoop serialLoop
    rw [hlen, hmax]
    by_cases hc : underK k ss.ctrs.length = true ∧ cutoff < serialMax N ss.dist
    · rw [if_pos hc, if_pos hc]
      have hpos : zero < serialMax N ss.dist := st_lt_of_ge_of_lt hcut hc.2
      obtain ⟨hv, hpick⟩ := pick_eq lay N hN hb D zero top ht ms ss hr hi hpos
      exact ih _ _ (iter_rel lay N D ms ss hr hv hpick) (inv_iter N hN D zero top ht ss hi)
    · rw [if_neg hc, if_neg hc]; exact Or.inl ⟨ms, ss, rfl, rfl, hr, hi⟩

/-- distributed k-centers and serial k-centers end in related states (or both run out of
    the same fuel) -/
theorem kcenters_refines (lay : Layout) (N : Nat) (hN : 0 < N) (hb : LayoutBij lay N)
    (D : Nat → Nat → α) (zero top : α) (ht : TieFree N D zero top) (k : Option Nat) (cutoff : α)
    (hcut : ¬ cutoff < zero) (fuel : Nat) :
    (∃ ms ss, mpiKcenters lay D top k cutoff fuel = .ok ms ∧
        serialKcenters N D top k cutoff fuel = .ok ss ∧ Rel lay ms ss) ∨
    (mpiKcenters lay D top k cutoff fuel = .error .fuel ∧
        serialKcenters N D top k cutoff fuel = .error .fuel) := by
  have herr : firstErr lay.w (fun r => if lay.m r = 0 then some Err.valueError else none) = none := by
    unfold firstErr
    rw [List.findSome?_eq_none_iff]
    intro r hr
    have := hb.nonempty r (List.mem_range.mp hr)
    have hne : lay.m r ≠ 0 := by omega
    simp [hne]
  have hN0 : N ≠ 0 := by omega
  unfold mpiKcenters serialKcenters
  rw [herr]
  simp only [hN0, if_false]
  have hr0 : Rel lay (mpiInit top : MState α) (serialInit top) := by
    constructor
    · intro r i _ _; rfl
    · intro r i _ _; rfl
    · rfl
    · intro p hp; simp [mpiInit] at hp
  have hi0 : Inv N D zero top (serialInit top : SState α) := Inv.init rfl (fun _ _ => rfl)
  rcases loop_refines lay N hN hb D zero top ht k cutoff hcut fuel _ _ hr0 hi0 with
    ⟨ms, ss, h1, h2, h3, _⟩ | ⟨h1, h2⟩
  · exact Or.inl ⟨ms, ss, h1, h2, h3⟩
  · exact Or.inr ⟨h1, h2⟩

end Ens.Mpi
