import Proofs.C02Loop
import Mathlib.Data.Finset.Card
import Mathlib.Order.Interval.Finset.Nat

/-! Whole runs: unpacking `kcenters … = .ok res`, the radius sequence, termination. -/
namespace Ens.KC

theorem guard_iff (nc : Option Int) (cut : ERat) (n : Nat) (s : St) :
    guard nc cut n s = true ↔
      (∀ k, nc = some k → (s.ctrInds.length : Int) < k) ∧ toWT cut < toWT (radius n s) := by
  unfold guard
  rw [Bool.and_eq_true, ltE_iff]
  cases nc with
  | none => simp
  | some k => simp

theorem guard_false_iff (nc : Option Int) (cut : ERat) (n : Nat) (s : St) :
    guard nc cut n s = false ↔
      (∃ k, nc = some k ∧ k ≤ (s.ctrInds.length : Int)) ∨ toWT (radius n s) ≤ toWT cut := by
  rw [← Bool.not_eq_true, guard_iff]
  cases nc with
  | none => simp
  | some k =>
    simp only [Option.some.injEq, forall_eq', not_and, not_lt, exists_eq_left']
    constructor
    · intro h
      by_cases hk : (s.ctrInds.length : Int) < k
      · right; exact h hk
      · left; omega
    · rintro (h | h) hk
      · omega
      · exact h

/-- what a successful call went through -/
theorem kcentersFuel_ok {D : Table} {n : Nat} {cfg : Cfg} {fuel : Option Nat} {res : Result}
    (h : kcentersFuel D n cfg fuel = .ok res) :
    ∃ nc cut, normalise cfg.nClusters cfg.cutoff = .ok (nc, cut) ∧ cfg.randomFirst = false ∧ 0 < n ∧
      loop D n cfg.tri nc cut (fuel.getD (fuelFor n nc (initState D n cfg.init)))
        (initState D n cfg.init) = .ok (res.st, res.trace) ∧
      res.radius = radius n res.st := by
  unfold kcentersFuel at h
  cases hn : normalise cfg.nClusters cfg.cutoff with
  | error e => rw [hn] at h; cases h
  | ok p =>
    obtain ⟨nc, cut⟩ := p
    rw [hn] at h
    dsimp only at h
    split at h
    · cases h
    · rename_i hrf
      split at h
      · cases h
      · rename_i hn0
        split at h
        · cases h
        · rename_i sf tr hl
          injection h with h
          subst h
          exact ⟨nc, cut, rfl, by simpa using hrf, Nat.pos_of_ne_zero hn0, hl, rfl⟩

theorem kcenters_ok {D : Table} {n : Nat} {cfg : Cfg} {res : Result}
    (h : kcenters D n cfg = .ok res) :
    ∃ nc cut, normalise cfg.nClusters cfg.cutoff = .ok (nc, cut) ∧ cfg.randomFirst = false ∧ 0 < n ∧
      loop D n cfg.tri nc cut (fuelFor n nc (initState D n cfg.init))
        (initState D n cfg.init) = .ok (res.st, res.trace) ∧
      res.radius = radius n res.st := kcentersFuel_ok h

/-! ### radii along the loop -/

theorem loop_radii {D : Table} {n : Nat} (hn : 0 < n) {tri : Bool} {nc : Option Int} {cut : ERat} :
    ∀ (fuel : Nat) (s sf : St) (tr : List (Nat × ERat)),
      loop D n tri nc cut fuel s = .ok (sf, tr) →
      (∀ f, toWT (sf.dist f) ≤ toWT (s.dist f)) ∧
      (∀ r ∈ tr.map Prod.snd ++ [radius n sf], toWT r ≤ toWT (radius n s)) ∧
      (tr.map Prod.snd ++ [radius n sf]).Pairwise (fun a b => toWT b ≤ toWT a) := by
  intro fuel
  induction fuel with
  | zero =>
    intro s sf tr h
    simp only [loop] at h
    split at h
    · cases h
    · injection h with h
      injection h with h1 h2
      subst h1; subst h2
      simp
  | succ fuel ih =>
    intro s sf tr h
    simp only [loop] at h
    split at h
    · cases h1 : iter D n tri s with
      | error e => rw [h1] at h; cases h
      | ok s1 =>
        rw [h1] at h
        dsimp only at h
        cases h2 : loop D n tri nc cut fuel s1 with
        | error e => rw [h2] at h; cases h
        | ok r =>
          obtain ⟨sf', tr'⟩ := r
          rw [h2] at h
          dsimp only at h
          injection h with h
          injection h with e1 e2
          subst e1; subst e2
          obtain ⟨a, b, c⟩ := ih s1 sf' tr' h2
          have hr1 : toWT (radius n s1) ≤ toWT (radius n s) :=
            radius_mono hn (fun f _ => iter_dist_le h1 f)
          refine ⟨fun f => le_trans (a f) (iter_dist_le h1 f), ?_, ?_⟩
          · intro r hr
            simp only [List.map_cons, List.cons_append, List.mem_cons] at hr
            rcases hr with hr | hr
            · subst hr; exact le_refl _
            · exact le_trans (b r hr) hr1
          · simp only [List.map_cons, List.cons_append, List.pairwise_cons]
            exact ⟨fun r hr => le_trans (b r hr) hr1, c⟩
    · injection h with h
      injection h with h1 h2
      subst h1; subst h2
      simp

/-! ### termination -/

theorem loop_no_oof_fin {D : Table} {n : Nat} {tri : Bool} {cut : ERat} (k : Int) :
    ∀ (fuel : Nat) (s : St), (k - (s.ctrInds.length : Int)).toNat ≤ fuel →
      loop D n tri (some k) cut fuel s ≠ .error .outOfFuel := by
  intro fuel
  induction fuel with
  | zero =>
    intro s hf
    simp only [loop]
    split
    · rename_i hg
      rw [guard_iff] at hg
      have := hg.1 k rfl
      omega
    · simp
  | succ fuel ih =>
    intro s hf
    simp only [loop]
    split
    · rename_i hg
      rw [guard_iff] at hg
      have hlt := hg.1 k rfl
      cases h1 : iter D n tri s with
      | error e =>
        dsimp only
        intro hc
        injection hc with hc
        subst hc
        exact iter_ne_outOfFuel D n tri s h1
      | ok s1 =>
        dsimp only
        have hlen : s1.ctrInds.length = s.ctrInds.length + 1 := by
          rw [iter_ctrInds h1]; simp
        have := ih s1 (by rw [hlen]; push_cast; omega)
        cases h2 : loop D n tri (some k) cut fuel s1 with
        | error e =>
          dsimp only
          intro hc; injection hc with hc; subst hc; exact this h2
        | ok r => obtain ⟨a, b⟩ := r; simp
    · simp

/-- number of frames still farther than the cutoff from every center -/
def farCount (n : Nat) (cut : ERat) (s : St) : Nat :=
  ((Finset.range n).filter (fun f => toWT cut < toWT (s.dist f))).card

theorem farCount_le (n : Nat) (cut : ERat) (s : St) : farCount n cut s ≤ n := by
  unfold farCount
  exact le_trans (Finset.card_filter_le _ _) (by simp)

/-- a plain iteration whose guard held removes the chosen frame from the far set for good,
provided a frame is within the cutoff of itself -/
theorem farCount_iterPlain {D : Table} {n : Nat} (hn : 0 < n) {q : ℚ}
    (hdiag : ∀ c, c < n → D c c ≤ q) (s : St) (hg : toWT (some q) < toWT (radius n s)) :
    farCount n (some q) (iterPlain D n s) < farCount n (some q) s := by
  unfold farCount
  apply Finset.card_lt_card
  have hc := argmaxE_lt hn s.dist
  rw [Finset.ssubset_iff_of_subset]
  · refine ⟨argmaxE n s.dist, ?_, ?_⟩
    · simp only [Finset.mem_filter, Finset.mem_range]
      exact ⟨hc, hg⟩
    · simp only [Finset.mem_filter, Finset.mem_range, not_and, not_lt]
      intro _
      unfold iterPlain
      rw [update_dist_min]
      apply le_trans (min_le_left _ _)
      simp only [toWT_some, WithTop.coe_le_coe]
      exact hdiag _ hc
  · intro f
    simp only [Finset.mem_filter, Finset.mem_range]
    rintro ⟨hf, hlt⟩
    refine ⟨hf, lt_of_lt_of_le hlt ?_⟩
    unfold iterPlain
    exact update_dist_le _ _ _ _ _

theorem loop_no_oof_cut {D : Table} {n : Nat} (hn : 0 < n) {q : ℚ}
    (hdiag : ∀ c, c < n → D c c ≤ q) {nc : Option Int} :
    ∀ (fuel : Nat) (s : St), farCount n (some q) s ≤ fuel →
      loop D n false nc (some q) fuel s ≠ .error .outOfFuel := by
  intro fuel
  induction fuel with
  | zero =>
    intro s hf
    simp only [loop]
    split
    · rename_i hg
      rw [guard_iff] at hg
      have hc := argmaxE_lt hn s.dist
      have : 0 < farCount n (some q) s := by
        unfold farCount
        apply Finset.card_pos.mpr
        exact ⟨argmaxE n s.dist, by simp only [Finset.mem_filter, Finset.mem_range]; exact ⟨hc, hg.2⟩⟩
      omega
    · simp
  | succ fuel ih =>
    intro s hf
    simp only [loop]
    split
    · rename_i hg
      rw [guard_iff] at hg
      rw [iter_plain]
      dsimp only
      have hdec := farCount_iterPlain hn hdiag s hg.2
      have := ih (iterPlain D n s) (by omega)
      cases h2 : loop D n false nc (some q) fuel (iterPlain D n s) with
      | error e =>
        dsimp only
        intro hc; injection hc with hc; subst hc; exact this h2
      | ok r => obtain ⟨a, b⟩ := r; simp
    · simp

end Ens.KC
