import Model.Mpi
import Mathlib.Order.Defs.LinearOrder
import Mathlib.Algebra.Order.Ring.Unbundled.Rat
/-! `StrictTotal` instances, `argmaxTo` / `listMax` specifications. -/
namespace Ens.Mpi
set_option linter.unusedSectionVars false

/-- every Mathlib linear order (ℕ, ℤ, ℚ, …) is a `StrictTotal` -/
instance (priority := 100) strictTotalOfLinearOrder {α : Type} [LinearOrder α] : StrictTotal α where
  irrefl := lt_irrefl
  trans := lt_trans
  tri := lt_trichotomy

instance : StrictTotal Dist where
  irrefl := by
    intro a h
    cases a with
    | fin x => exact lt_irrefl x h
    | inf => exact h
  trans := by
    intro a b c h1 h2
    cases a with
    | fin x =>
      cases b with
      | fin y =>
        cases c with
        | fin z => exact lt_trans (α := ℚ) h1 h2
        | inf => trivial
      | inf => exact False.elim h2
    | inf => exact False.elim h1
  tri := by
    intro a b
    cases a with
    | fin x =>
      cases b with
      | fin y =>
        rcases lt_trichotomy x y with h | h | h
        · exact Or.inl h
        · exact Or.inr (Or.inl (by rw [h]))
        · exact Or.inr (Or.inr h)
      | inf => exact Or.inl trivial
    | inf =>
      cases b with
      | fin y => exact Or.inr (Or.inr trivial)
      | inf => exact Or.inr (Or.inl rfl)

variable {α : Type} [LT α] [DecidableRel (α := α) (· < ·)] [StrictTotal α]

theorem st_irrefl (a : α) : ¬ a < a := StrictTotal.irrefl a
theorem st_trans {a b c : α} (h1 : a < b) (h2 : b < c) : a < c := StrictTotal.trans h1 h2
theorem st_tri (a b : α) : a < b ∨ a = b ∨ b < a := StrictTotal.tri a b

/-- `a ≥ b`, `b ≥ c` ⟹ `a ≥ c`, phrased with `¬ <` -/
theorem st_ge_trans {a b c : α} (h1 : ¬ a < b) (h2 : ¬ b < c) : ¬ a < c := by
  intro h
  rcases st_tri b c with hbc | hbc | hbc
  · exact h2 hbc
  · subst hbc; exact h1 h
  · exact h1 (st_trans h hbc)

theorem st_lt_of_lt_of_ge {a b c : α} (h1 : a < b) (h2 : ¬ c < b) : a < c := by
  rcases st_tri b c with h | h | h
  · exact st_trans h1 h
  · subst h; exact h1
  · exact (h2 h).elim

theorem st_eq_of_ge_of_ge {a b : α} (h1 : ¬ a < b) (h2 : ¬ b < a) : a = b := by
  rcases st_tri a b with h | h | h
  · exact (h1 h).elim
  · exact h
  · exact (h2 h).elim

/-- `np.argmax`: the FIRST index attaining the maximum -/
theorem argmaxTo_spec (n : Nat) (hn : 0 < n) (f : Nat → α) :
    Ens.argmaxTo n f < n ∧ (∀ i, i < n → ¬ f (Ens.argmaxTo n f) < f i) ∧
    (∀ i, i < Ens.argmaxTo n f → f i < f (Ens.argmaxTo n f)) := by
  induction n with
  | zero => omega
  | succ k ih =>
    unfold Ens.argmaxTo
    by_cases hk : k = 0
    · subst hk
      simp only [if_true]
      refine ⟨by omega, ?_, ?_⟩
      · intro i hi
        have : i = 0 := by omega
        subst this; exact st_irrefl _
      · intro i hi; omega
    · simp only [hk, if_false]
      obtain ⟨h1, h2, h3⟩ := ih (by omega)
      by_cases hlt : f (Ens.argmaxTo k f) < f k
      · simp only [hlt, if_true]
        refine ⟨by omega, ?_, ?_⟩
        · intro i hi
          by_cases hik : i = k
          · subst hik; exact st_irrefl _
          · intro h
            exact h2 i (by omega) (st_trans hlt h)
        · intro i hi
          rcases st_tri (f i) (f (Ens.argmaxTo k f)) with h | h | h
          · exact st_trans h hlt
          · rw [h]; exact hlt
          · exact (h2 i hi h).elim
      · simp only [hlt, if_false]
        refine ⟨by omega, ?_, h3⟩
        intro i hi
        by_cases hik : i = k
        · subst hik; exact hlt
        · exact h2 i (by omega)

/-! ### `max` of a list, `striped_array_max` -/

theorem foldl_max_spec (xs : List α) (x : α) :
    (xs.foldl (fun m y => if m < y then y else m) x = x ∨
      xs.foldl (fun m y => if m < y then y else m) x ∈ xs) ∧
    ¬ xs.foldl (fun m y => if m < y then y else m) x < x ∧
    ∀ y ∈ xs, ¬ xs.foldl (fun m y => if m < y then y else m) x < y := by
  induction xs generalizing x with
  | nil => simp [st_irrefl]
  | cons y ys ih =>
    simp only [List.foldl_cons]
    obtain ⟨h1, h2, h3⟩ := ih (if x < y then y else x)
    by_cases hxy : x < y
    · simp only [hxy, if_true] at h1 h2 h3 ⊢
      refine ⟨?_, ?_, ?_⟩
      · rcases h1 with h | h
        · exact Or.inr (by rw [h]; exact List.mem_cons_self)
        · exact Or.inr (List.mem_cons_of_mem _ h)
      · intro h; exact h2 (st_trans h hxy)
      · intro z hz
        rcases List.mem_cons.mp hz with rfl | hz
        · exact h2
        · exact h3 z hz
    · simp only [hxy, if_false] at h1 h2 h3 ⊢
      refine ⟨?_, h2, ?_⟩
      · rcases h1 with h | h
        · exact Or.inl h
        · exact Or.inr (List.mem_cons_of_mem _ h)
      · intro z hz
        rcases List.mem_cons.mp hz with rfl | hz
        · exact st_ge_trans h2 hxy
        · exact h3 z hz

theorem listMax_spec {xs : List α} {M : α} (h : listMax xs = some M) :
    M ∈ xs ∧ ∀ y ∈ xs, ¬ M < y := by
  cases xs with
  | nil => simp [listMax] at h
  | cons x xs =>
    simp only [listMax, Option.some.injEq] at h
    obtain ⟨h1, h2, h3⟩ := foldl_max_spec xs x
    rw [h] at h1 h2 h3
    refine ⟨?_, ?_⟩
    · rcases h1 with h1 | h1
      · rw [h1]; exact List.mem_cons_self
      · exact List.mem_cons_of_mem _ h1
    · intro y hy
      rcases List.mem_cons.mp hy with rfl | hy
      · exact h2
      · exact h3 y hy

theorem listMax_isSome {xs : List α} (h : xs ≠ []) : ∃ M, listMax xs = some M := by
  cases xs with
  | nil => exact absurd rfl h
  | cons x xs => exact ⟨_, rfl⟩

theorem max_unique {xs : List α} {M M' : α} (hM : M ∈ xs) (hmax : ∀ y ∈ xs, ¬ M < y)
    (hM' : M' ∈ xs) (hmax' : ∀ y ∈ xs, ¬ M' < y) : M = M' :=
  st_eq_of_ge_of_ge (hmax M' hM') (hmax' M hM)

theorem stripedMax_spec (w : Nat) (locals : Nat → List α) (M : α) (h : stripedMax w locals = .ok M) :
    (∃ r, r < w ∧ M ∈ locals r) ∧ ∀ r, r < w → ∀ x ∈ locals r, ¬ M < x := by
  unfold stripedMax at h
  split at h
  · cases h
  · rename_i herr
    split at h
    · rename_i m hm
      injection h with h
      subst h
      obtain ⟨hmem, hmax⟩ := listMax_spec hm
      simp only [List.mem_filterMap, List.mem_range] at hmem
      obtain ⟨r, hr, hmr⟩ := hmem
      obtain ⟨hin, _⟩ := listMax_spec hmr
      refine ⟨⟨r, hr, hin⟩, ?_⟩
      intro r' hr' x hx
      have hne : locals r' ≠ [] := List.ne_nil_of_mem hx
      obtain ⟨m', hm'⟩ := listMax_isSome hne
      obtain ⟨_, hmax'⟩ := listMax_spec hm'
      have : m' ∈ (List.range w).filterMap fun r => listMax (locals r) := by
        simp only [List.mem_filterMap, List.mem_range]
        exact ⟨r', hr', hm'⟩
      exact st_ge_trans (hmax m' this) (hmax' x hx)
    · cases h

/-- `striped_array_max` returns the maximum of the whole (concatenated, in any order) array -/
theorem stripedMax_eq_listMax (w : Nat) (locals : Nat → List α) (xs : List α)
    (hp : xs.Perm ((List.range w).flatMap locals)) (M : α) (h : stripedMax w locals = .ok M) :
    listMax xs = some M := by
  obtain ⟨⟨r, hr, hM⟩, hmax⟩ := stripedMax_spec w locals M h
  have hMx : M ∈ xs := hp.mem_iff.mpr (List.mem_flatMap.mpr ⟨r, List.mem_range.mpr hr, hM⟩)
  have hmaxx : ∀ y ∈ xs, ¬ M < y := by
    intro y hy
    obtain ⟨r', hr', hy'⟩ := List.mem_flatMap.mp (hp.mem_iff.mp hy)
    exact hmax r' (List.mem_range.mp hr') y hy'
  obtain ⟨M', hM'⟩ := listMax_isSome (List.ne_nil_of_mem hMx)
  obtain ⟨h1, h2⟩ := listMax_spec hM'
  rw [hM', max_unique h1 h2 hMx hmaxx]

theorem stripedMax_ok (w : Nat) (hw : 0 < w) (locals : Nat → List α) (hne : ∀ r, r < w → locals r ≠ []) :
    ∃ M, stripedMax w locals = .ok M := by
  unfold stripedMax
  have herr : firstErr w (fun r => if (locals r).isEmpty then some Err.valueError else none) = none := by
    unfold firstErr
    rw [List.findSome?_eq_none_iff]
    intro r hr
    have := hne r (List.mem_range.mp hr)
    simp [this]
  rw [herr]
  obtain ⟨m0, hm0⟩ := listMax_isSome (hne 0 hw)
  have hne2 : ((List.range w).filterMap fun r => listMax (locals r)) ≠ [] := by
    apply List.ne_nil_of_mem (a := m0)
    simp only [List.mem_filterMap, List.mem_range]
    exact ⟨0, hw, hm0⟩
  obtain ⟨M, hM⟩ := listMax_isSome hne2
  exact ⟨M, by simp only [hM]⟩

end Ens.Mpi
