import Model.Rotamer
import Mathlib.Tactic.Linarith
/-!
C20, part 4: `disorder.transitions`.  The wrapped difference of two in-range values is zero iff
they are equal; the 1-D result lists exactly the positions whose successor differs; the 2-D
result (when the ragged array can be built) is the list of the per-row 1-D results.
-/
namespace Ens.Rotamer

theorem modulus_pos (d : DType) : 0 < d.modulus := by
  unfold DType.modulus
  positivity

/-- a multiple of `M` strictly between `-M` and `M` is zero -/
theorem eq_zero_of_emod {M v : Int} (h0 : v % M = 0) (h1 : -M < v) (h2 : v < M) : v = 0 := by
  have hd : M ∣ v := Int.dvd_of_emod_eq_zero h0
  apply Int.eq_zero_of_dvd_of_natAbs_lt_natAbs hd
  omega

theorem wrap_sub_eq_zero_iff (d : DType) {x y : Int} (hx : d.InRange x) (hy : d.InRange y) :
    d.wrap (y - x) = 0 ↔ x = y := by
  have hM := modulus_pos d
  unfold DType.InRange at hx hy
  unfold DType.wrap
  constructor
  · intro h
    by_cases hs : d.signed = true
    · simp only [hs, if_true] at hx hy h
      have hh : 0 ≤ d.modulus / 2 := Int.ediv_nonneg (le_of_lt hM) (by omega)
      have hh2 : d.modulus / 2 < d.modulus := Int.ediv_lt_of_lt_mul (by omega) (by omega)
      have h' : (y - x + d.modulus / 2) % d.modulus = (d.modulus / 2) % d.modulus := by
        rw [Int.emod_eq_of_lt hh hh2]; omega
      have h'' := Int.emod_eq_emod_iff_emod_sub_eq_zero.1 h'
      have hz : (y - x) % d.modulus = 0 := by
        have : y - x + d.modulus / 2 - d.modulus / 2 = y - x := by omega
        rw [this] at h''
        exact h''
      have hd : 2 * (d.modulus / 2) ≤ d.modulus := Int.mul_ediv_self_le (by omega)
      have := eq_zero_of_emod hz (by omega) (by omega)
      omega
    · simp only [hs] at hx hy h
      simp only [Bool.false_eq_true, if_false] at hx hy h
      have := eq_zero_of_emod h (by omega) (by omega)
      omega
  · rintro rfl
    by_cases hs : d.signed = true
    · simp only [hs, if_true]
      simp only [hs, if_true] at hx
      have hh : 0 ≤ d.modulus / 2 := Int.ediv_nonneg (le_of_lt hM) (by omega)
      have hh2 : d.modulus / 2 < d.modulus := Int.ediv_lt_of_lt_mul (by omega) (by omega)
      simp only [sub_self, zero_add]
      rw [Int.emod_eq_of_lt hh hh2]; omega
    · simp [hs]

theorem mem_nonzeroIdxFrom {l : List Int} {k n : Nat} :
    n ∈ nonzeroIdxFrom k l ↔ ∃ j v, n = k + j ∧ l[j]? = some v ∧ v ≠ 0 := by
  induction l generalizing k with
  | nil => simp [nonzeroIdxFrom]
  | cons x t ih =>
    unfold nonzeroIdxFrom
    constructor
    · intro h
      by_cases hx : x ≠ 0
      · rw [if_pos hx] at h
        rcases List.mem_cons.1 h with rfl | h
        · exact ⟨0, x, rfl, by simp, hx⟩
        · obtain ⟨j, v, e, hv, hne⟩ := ih.1 h
          exact ⟨j + 1, v, by omega, by simpa using hv, hne⟩
      · rw [if_neg hx] at h
        obtain ⟨j, v, e, hv, hne⟩ := ih.1 h
        exact ⟨j + 1, v, by omega, by simpa using hv, hne⟩
    · rintro ⟨j, v, e, hv, hne⟩
      cases j with
      | zero =>
        simp at hv
        subst hv
        rw [if_pos hne]
        simp [e]
      | succ j =>
        simp at hv
        have : n ∈ nonzeroIdxFrom (k + 1) t := ih.2 ⟨j, v, by omega, hv, hne⟩
        by_cases hx : x ≠ 0
        · rw [if_pos hx]; exact List.mem_cons_of_mem _ this
        · rw [if_neg hx]; exact this

theorem nonzeroIdxFrom_ge {l : List Int} {k n : Nat} (h : n ∈ nonzeroIdxFrom k l) : k ≤ n := by
  obtain ⟨j, _, e, _⟩ := mem_nonzeroIdxFrom.1 h
  omega

/-- positions are reported in increasing order, each once (numpy's `where` order) -/
theorem nonzeroIdxFrom_sorted (l : List Int) (k : Nat) : (nonzeroIdxFrom k l).Pairwise (· < ·) := by
  induction l generalizing k with
  | nil => simp [nonzeroIdxFrom]
  | cons x t ih =>
    unfold nonzeroIdxFrom
    by_cases hx : x ≠ 0
    · rw [if_pos hx, List.pairwise_cons]
      refine ⟨fun n hn => ?_, ih (k + 1)⟩
      have := nonzeroIdxFrom_ge hn
      omega
    · rw [if_neg hx]; exact ih (k + 1)

theorem getElem?_diffs (d : DType) (xs : List Int) (j : Nat) (v : Int) :
    (diffs d xs)[j]? = some v ↔ ∃ x y, xs[j]? = some x ∧ xs[j + 1]? = some y ∧ v = d.wrap (y - x) := by
  induction xs generalizing j with
  | nil => simp [diffs]
  | cons x t ih =>
    cases t with
    | nil => simp [diffs]
    | cons y t' =>
      unfold diffs
      cases j with
      | zero =>
        simp
        constructor
        · intro h; exact h.symm
        · intro h; exact h.symm
      | succ j =>
        simp only [List.getElem?_cons_succ]
        exact ih j

/-- `transitions` (1-D): `n` is reported iff frames `n` and `n+1` exist and differ -/
theorem mem_transitions1d (d : DType) (xs : List Int) (hr : ∀ x ∈ xs, d.InRange x) (n : Nat) :
    n ∈ transitions1d d xs ↔ ∃ x y, xs[n]? = some x ∧ xs[n + 1]? = some y ∧ x ≠ y := by
  unfold transitions1d
  rw [mem_nonzeroIdxFrom]
  constructor
  · rintro ⟨j, v, e, hv, hne⟩
    have : n = j := by omega
    subst this
    obtain ⟨x, y, h1, h2, hvv⟩ := (getElem?_diffs d xs n v).1 hv
    refine ⟨x, y, h1, h2, fun hxy => hne ?_⟩
    rw [hvv]
    exact (wrap_sub_eq_zero_iff d (hr x (List.mem_of_getElem? h1)) (hr y (List.mem_of_getElem? h2))).2 hxy
  · rintro ⟨x, y, h1, h2, hne⟩
    refine ⟨n, d.wrap (y - x), by omega, (getElem?_diffs d xs n _).2 ⟨x, y, h1, h2, rfl⟩, fun h0 => hne ?_⟩
    exact (wrap_sub_eq_zero_iff d (hr x (List.mem_of_getElem? h1)) (hr y (List.mem_of_getElem? h2))).1 h0

/-! #### 2-D -/

theorem wherePairs_snd (r : Nat) (dm : List (List Int)) :
    (wherePairsFrom r dm).map (·.2) = (dm.map (nonzeroIdxFrom 0)).flatten := by
  induction dm generalizing r with
  | nil => rfl
  | cons row t ih =>
    simp only [wherePairsFrom, List.map_append, List.map_map, List.map_cons, List.flatten_cons, ih]
    congr 1
    simp [Function.comp_def]

theorem wherePairs_fst_count (r : Nat) (dm : List (List Int)) (i : Nat) :
    ((wherePairsFrom r dm).map (·.1)).count i =
      if r ≤ i then ((dm.map (nonzeroIdxFrom 0))[i - r]?.map List.length).getD 0 else 0 := by
  induction dm generalizing r with
  | nil => simp [wherePairsFrom]
  | cons row t ih =>
    simp only [wherePairsFrom, List.map_append, List.map_map, List.count_append, ih]
    have hc : (List.map ((fun x => x.1) ∘ fun c => (r, c)) (nonzeroIdxFrom 0 row)) =
        List.replicate (nonzeroIdxFrom 0 row).length r := by
      simp [Function.comp_def, List.map_const']
    rw [hc, List.count_replicate]
    by_cases h1 : r = i
    · subst h1
      simp
    · by_cases h2 : r + 1 ≤ i
      · have : r ≤ i := by omega
        have e : i - r = (i - (r + 1)) + 1 := by omega
        simp [h1, h2, this, e]
      · have : ¬ r ≤ i := by omega
        simp [h1, h2, this]

theorem wherePairs_fst_lt (r : Nat) (dm : List (List Int)) :
    ∀ x ∈ (wherePairsFrom r dm).map (·.1), x < r + dm.length := by
  induction dm generalizing r with
  | nil => simp [wherePairsFrom]
  | cons row t ih =>
    intro x hx
    simp only [wherePairsFrom, List.map_append, List.map_map, List.mem_append] at hx
    rcases hx with hx | hx
    · simp [Function.comp_def] at hx
      obtain ⟨_, _, rfl⟩ := hx
      simp
    · have := ih (r + 1) x hx
      simp only [List.length_cons]
      omega

theorem bincount_of_lt (xs : List Nat) (m : Nat) (h : ∀ x ∈ xs, x < m) :
    bincount xs m = tabulate m (fun i => xs.count i) := by
  unfold bincount
  cases hm : xs.max? with
  | none => rfl
  | some mx =>
    have := h mx (List.max?_mem hm)
    have e : max m (mx + 1) = m := by omega
    simp only [e]

theorem bincount_wherePairs (dm : List (List Int)) :
    bincount ((wherePairsFrom 0 dm).map (·.1)) dm.length = (dm.map (nonzeroIdxFrom 0)).map List.length := by
  rw [bincount_of_lt _ _ (by simpa using wherePairs_fst_lt 0 dm)]
  apply List.ext_getElem
  · simp [tabulate]
  · intro i h1 h2
    simp only [tabulate, List.getElem_map, List.getElem_range]
    rw [wherePairs_fst_count]
    simp at h2
    simp [h2]

theorem partition_flatten (L : List (List Nat)) : partition L.flatten (L.map List.length) = L := by
  induction L with
  | nil => rfl
  | cons l t ih =>
    simp only [List.flatten_cons, List.map_cons, partition, List.take_left, List.drop_left, ih]

/-- the row-wise 1-D results -/
def perRow (d : DType) (rows : List (List Int)) : List (List Nat) := rows.map (transitions1d d)

theorem transitions2d_eq (guard : Bool) (d : DType) (rows : List (List Int)) :
    transitions2d guard d rows =
      if guard && (perRow d rows).flatten.isEmpty then .ok ((perRow d rows).map (fun _ => []))
      else mkRA (perRow d rows).flatten ((perRow d rows).map List.length) := by
  unfold transitions2d
  have e1 : (wherePairsFrom 0 (rows.map (diffs d))).map (·.2) = (perRow d rows).flatten := by
    rw [wherePairs_snd, List.map_map]; rfl
  have e2 : bincount ((wherePairsFrom 0 (rows.map (diffs d))).map (·.1)) rows.length =
      (perRow d rows).map List.length := by
    have := bincount_wherePairs (rows.map (diffs d))
    simp only [List.length_map] at this
    rw [this]; simp only [perRow, List.map_map]; rfl
  simp only [e1, e2, List.map_map]
  rfl

/-- some trajectory has a transition -/
def HasTransition (d : DType) (rows : List (List Int)) : Prop := (perRow d rows).flatten ≠ []

theorem transitions2d_ok (guard : Bool) (d : DType) (rows : List (List Int))
    (h : guard = true ∨ HasTransition d rows) :
    transitions2d guard d rows = .ok (perRow d rows) := by
  rw [transitions2d_eq]
  by_cases hne : (perRow d rows).flatten = []
  · have hg : guard = true := by
      rcases h with h | h
      · exact h
      · exact absurd hne h
    simp only [hg, hne, List.isEmpty_nil, Bool.and_self, if_true]
    congr 1
    have : ∀ l ∈ perRow d rows, l = [] := by
      intro l hl
      exact List.flatten_eq_nil_iff.1 hne l hl
    apply List.ext_getElem
    · simp
    · intro i h1 h2
      simp only [List.getElem_map]
      exact (this _ (List.getElem_mem _)).symm
  · have hemp : (perRow d rows).flatten.isEmpty = false := by
      cases hf : (perRow d rows).flatten with
      | nil => exact absurd hf hne
      | cons _ _ => rfl
    simp only [hemp, Bool.and_false, Bool.false_eq_true, if_false]
    unfold mkRA
    simp only [hemp, Bool.false_eq_true, if_false]
    have : ¬ ((List.map List.length (perRow d rows)).sum ≠ (perRow d rows).flatten.length) := by
      simp [List.length_flatten]
    rw [if_neg this, partition_flatten]

/-- without a guard, the all-quiet input is an error (the open finding) -/
theorem transitions2d_all_quiet_error (d : DType) (rows : List (List Int))
    (h : ¬ HasTransition d rows) : ∃ e, transitions2d false d rows = .error e := by
  rw [transitions2d_eq]
  have hne : (perRow d rows).flatten = [] := by
    unfold HasTransition at h
    exact Classical.not_not.1 h
  simp only [Bool.false_and, Bool.false_eq_true, if_false, hne]
  unfold mkRA
  simp only [List.isEmpty_nil, if_true]
  split
  · exact ⟨_, rfl⟩
  · exact ⟨_, rfl⟩

end Ens.Rotamer
