import Proofs.C15Names
import Proofs.C15Stride
import Proofs.C15Buf
/-!
C15, part 4: `ra.load` — the several-keys branch returns the concatenation of the strided
nodes with the `⌈len/stride⌉` lengths; loading what `ra.save` wrote returns the rows.
Core Lean only.
-/
namespace Ens.Store

variable {α : Type}

/-! ### generic helpers -/

theorem mapM_ok {ε γ δ : Type} (f : γ → Except ε δ) (g : γ → δ) :
    ∀ (l : List γ), (∀ a ∈ l, f a = .ok (g a)) → l.mapM f = .ok (l.map g)
  | [], _ => rfl
  | a :: l, h => by
    rw [List.mapM_cons, h a (by simp), mapM_ok f g l (fun b hb => h b (by simp [hb]))]
    rfl

theorem getNode_of_mem : ∀ (f : H5File α) (k : Name) (nd : Node α),
    (names f).Nodup → (k, nd) ∈ f → getNode f k = some nd
  | [], _, _, _, h => by simp at h
  | (k', nd') :: f, k, nd, hnd, hmem => by
    simp only [names, List.map_cons, List.nodup_cons] at hnd
    rcases List.mem_cons.mp hmem with heq | htail
    · simp only [Prod.mk.injEq] at heq
      obtain ⟨rfl, rfl⟩ := heq
      simp [getNode]
    · have hne : k' ≠ k := by
        intro e; subst e
        exact hnd.1 (List.mem_map.mpr ⟨(k', nd), htail, rfl⟩)
      have ih := getNode_of_mem f k nd hnd.2 htail
      simp only [getNode, List.find?_cons] at ih ⊢
      have : ((k' == k) = false) := by simpa using hne
      simp only [this]
      exact ih

/-! ### the several-keys branch -/

theorem lengths_eq_map_length (nodes : List (Node α)) (s : Nat) (hs : 0 < s) :
    (nodes.map fun nd => ceilDiv nd.data.length s)
      = (nodes.map fun nd => strideSel s nd.data).map List.length := by
  rw [List.map_map]
  apply List.map_congr_left
  intro nd _
  exact (length_strideSel s hs nd.data).symm

/-- When the checks pass, the result is the concatenation of the strided nodes (in key order),
cut at the lengths `(len + stride - 1) / stride`; the zero-initialised buffer is filled
completely (no cell keeps its initial zero, none is written twice). -/
theorem loadMany_of_check [Inhabited α] (nodes : List (Node α)) (n0 : Node α) (s : Nat) (hs : 0 < s)
    (hc : checkNodes nodes = .ok n0) :
    loadMany nodes s = .ok (.ragged n0.dtype n0.inner
      (nodes.map fun nd => strideSel s nd.data).flatten
      (nodes.map fun nd => ceilDiv nd.data.length s)) := by
  unfold loadMany
  rw [hc]
  simp only
  rw [if_neg (by omega)]
  rw [lengths_eq_map_length nodes s hs]
  obtain ⟨b, hb, hflat⟩ := fillSeq_result (nodes.map fun nd => strideSel s nd.data) (fun _ => (default : α))
  rw [hb]
  simp only
  rw [hflat]

theorem loadMany_of_check_error [Inhabited α] (nodes : List (Node α)) (e : Err) (s : Nat)
    (hc : checkNodes nodes = .error e) : loadMany nodes s = .error e := by
  unfold loadMany; rw [hc]

/-- rows of the several-keys result -/
theorem rows_loadMany (n0 : Node α) (nodes : List (Node α)) (s : Nat) (hs : 0 < s) :
    (Loaded.ragged n0.dtype n0.inner (nodes.map fun nd => strideSel s nd.data).flatten
      (nodes.map fun nd => ceilDiv nd.data.length s)).rows = nodes.map fun nd => strideSel s nd.data := by
  simp only [Loaded.rows]
  rw [lengths_eq_map_length nodes s hs, rowsOf_flatten]

/-- **load with a stride = `[:, ::stride]` of the full load** (any file, any key list, error
branches included: the checks do not depend on the stride). -/
theorem load_stride_rows [Inhabited α] (f : H5File α) (keys : Keys) (s : Nat) (hs : 0 < s) :
    (load f keys s).map Loaded.rows = (load f keys 1).map (fun r => r.rows.map (strideSel s)) := by
  unfold load
  split
  · -- one key
    split
    · rfl
    · rw [if_neg (by omega), if_neg (by omega)]
      simp [Except.map, Loaded.rows, strideSel_one]
  · split
    · rfl
    · rename_i nodes _
      cases hc : checkNodes nodes with
      | error e => rw [loadMany_of_check_error _ _ _ hc, loadMany_of_check_error _ _ _ hc]; rfl
      | ok n0 =>
        rw [loadMany_of_check nodes n0 s hs hc, loadMany_of_check nodes n0 1 (by omega) hc]
        simp only [Except.map]
        rw [rows_loadMany n0 nodes s hs, rows_loadMany n0 nodes 1 (by omega)]
        simp [strideSel_one, List.map_map]

/-- the lengths of a strided load are the `⌈len/stride⌉` of the lengths of the full load -/
theorem load_stride_lengths [Inhabited α] (f : H5File α) (keys : Keys) (s : Nat) (hs : 0 < s) :
    (load f keys s).map Loaded.lengths = (load f keys 1).map (fun r => r.lengths.map (ceilDiv · s)) := by
  have c1 : ∀ n : Nat, ceilDiv n 1 = n := by intro n; simp [ceilDiv]
  unfold load
  split
  · split
    · rfl
    · rw [if_neg (by omega), if_neg (by omega)]
      simp [Except.map, Loaded.lengths, strideSel_one, length_strideSel s hs]
  · split
    · rfl
    · rename_i nodes _
      cases hc : checkNodes nodes with
      | error e => rw [loadMany_of_check_error _ _ _ hc, loadMany_of_check_error _ _ _ hc]; rfl
      | ok n0 =>
        rw [loadMany_of_check nodes n0 s hs hc, loadMany_of_check nodes n0 1 (by omega) hc]
        simp [Except.map, Loaded.lengths, List.map_map, c1]

/-! ### files written by `save` -/

section saved
variable (tag : Name) (dt : String) (inner : List Nat) (rows : List (List α))

/-- the file `save` writes for a ragged array (when PyTables accepts all shapes) -/
abbrev savedFile : H5File α := mkNodes tag (nZeros rows.length) dt inner rows

/-- the key of row `i` -/
def rowKey (i : Fin rows.length) : Name := keyName tag i.val rows.length

def rowNode (i : Fin rows.length) : Node α := { dtype := dt, inner := inner, data := rows[i] }

theorem names_mkNodes (w : Nat) : names (mkNodes tag w dt inner rows) = (List.range rows.length).map (keyNameW tag w) := by
  apply List.ext_getElem
  · simp [names, mkNodes]
  · intro i h1 h2
    simp [names, mkNodes]

theorem names_savedFile : names (savedFile tag dt inner rows) = rowNames tag rows.length :=
  names_mkNodes tag dt inner rows _

theorem mem_savedFile (i : Fin rows.length) :
    (keyName tag i rows.length, rowNode dt inner rows i) ∈ savedFile tag dt inner rows := by
  simp only [savedFile, mkNodes, List.mem_map]
  refine ⟨(rows[i], i.val), ?_, rfl⟩
  rw [List.mem_zipIdx_iff_getElem?]
  simp

theorem getNode_savedFile (i : Fin rows.length) :
    getNode (savedFile tag dt inner rows) (keyName tag i rows.length) = some (rowNode dt inner rows i) := by
  apply getNode_of_mem
  · rw [names_savedFile]; exact rowNames_nodup tag rows.length
  · exact mem_savedFile tag dt inner rows i

theorem lookupAll_savedFile (idx : List (Fin rows.length)) :
    lookupAll (savedFile tag dt inner rows) (idx.map (rowKey tag rows))
      = .ok (idx.map (rowNode dt inner rows)) := by
  unfold lookupAll
  rw [List.mapM_map]  -- mapM over a mapped list
  rw [mapM_ok _ (rowNode dt inner rows)]
  intro i _
  simp only [Function.comp, rowKey]
  rw [getNode_savedFile]

theorem checkNodes_rowNodes (i0 : Fin rows.length) (idx : List (Fin rows.length)) :
    checkNodes ((i0 :: idx).map (rowNode dt inner rows)) = .ok (rowNode dt inner rows i0) := by
  simp [checkNodes, rowNode]

/-- all names, as `Fin`-indexed list -/
theorem rowNames_eq_finRange :
    rowNames tag rows.length = (List.finRange rows.length).map (rowKey tag rows) := by
  apply List.ext_getElem
  · simp [rowNames]
  · intro i h1 h2
    simp [rowNames, rowKey]

theorem map_finRange_rows (g : List α → List α) :
    (List.finRange rows.length).map (fun i => g rows[i]) = rows.map g := by
  apply List.ext_getElem
  · simp
  · intro i h1 h2
    simp

/-- Loading any non-empty list of saved rows (a key subset, in any order, repetitions
allowed) with any stride `≥ 1`. -/
theorem load_saved_subset [Inhabited α] (idx : List (Fin rows.length)) (hne : idx ≠ []) (s : Nat) (hs : 0 < s) :
    ∃ r, load (savedFile tag dt inner rows) (.list (idx.map (rowKey tag rows))) s = .ok r
      ∧ r.rows = idx.map (fun i => strideSel s rows[i])
      ∧ r.lengths = idx.map (fun i => ceilDiv rows[i].length s)
      ∧ r.dtype = dt ∧ r.inner = inner
      ∧ (r.isPlain = true ↔ idx.length = 1) := by
  match idx, hne with
  | [i], _ =>
    refine ⟨.plain dt inner (strideSel s rows[i]), ?_, rfl, ?_, rfl, rfl, by simp [Loaded.isPlain]⟩
    · simp only [load, resolveKeys, List.map_cons, List.map_nil, rowKey]
      rw [getNode_savedFile]
      simp only
      rw [if_neg (by omega)]
      rfl
    · simp [Loaded.lengths, length_strideSel s hs]
  | i :: j :: rest, _ =>
    have hl := lookupAll_savedFile tag dt inner rows (i :: j :: rest)
    have hc := checkNodes_rowNodes dt inner rows i (j :: rest)
    refine ⟨Loaded.ragged (rowNode dt inner rows i).dtype (rowNode dt inner rows i).inner
      (((i :: j :: rest).map (rowNode dt inner rows)).map fun nd => strideSel s nd.data).flatten
      (((i :: j :: rest).map (rowNode dt inner rows)).map fun nd => ceilDiv nd.data.length s),
      ?_, ?_, ?_, ?_, ?_, ?_⟩
    · simp only [load, resolveKeys]
      simp only [List.map_cons] at hl ⊢
      rw [hl]
      simp only
      exact loadMany_of_check _ _ s hs hc
    · rw [rows_loadMany _ _ s hs, List.map_map]; rfl
    · simp only [Loaded.lengths, List.map_map]; rfl
    · rfl
    · rfl
    · simp [Loaded.isPlain]

/-- `keys = ...` resolves to all rows in row order -/
theorem resolveKeys_all_savedFile :
    resolveKeys (savedFile tag dt inner rows) .all = (List.finRange rows.length).map (rowKey tag rows) := by
  simp only [resolveKeys]
  rw [names_savedFile, listNodes_rowNames tag rows.length _ (List.Perm.refl _), rowNames_eq_finRange]

theorem load_all_eq_subset [Inhabited α] (s : Nat) :
    load (savedFile tag dt inner rows) .all s
      = load (savedFile tag dt inner rows) (.list ((List.finRange rows.length).map (rowKey tag rows))) s := by
  unfold load
  rw [resolveKeys_all_savedFile]
  rfl

end saved

end Ens.Store
