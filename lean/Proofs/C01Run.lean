import Proofs.C01Sweep
/-!
C01/C09 helper lemmas, part 4: a sweep from `_kmedoids_pam_update`, several sweeps, the k-centers loop.
-/
namespace Ens.Cluster

/-! ### one sweep, as `_kmedoids_pam_update` runs it -/

theorem Consistent.resetFrames {D : Table} {n : Nat} {s : St} (h : Consistent D n s) :
    Consistent D n { s with ctrFrames := s.ctrInds } :=
  { notFresh := h.notFresh, frames := rfl, inds_lt := h.inds_lt, lab := h.lab, best := h.best, own := h.own }

theorem pamUpdate_consistent {D : Table} {n : Nat} (T : TableOK D n) {s s' : St} {props : Option (List Nat)}
    {orc orc' : List Nat} {tr : List PamStep} (hs : Consistent D n s)
    (h : pamUpdate D n s props orc = .ok (s', orc', tr)) : Consistent D n s' := by
  obtain ⟨_, _, _, _, _, hl⟩ := pamUpdate_ok h
  exact pamLoop_consistent T _ (fun c hc => by simpa using hc) hs.resetFrames hl

theorem pamUpdate_shape {D : Table} {n : Nat} {s s' : St} {props : Option (List Nat)}
    {orc orc' : List Nat} {tr : List PamStep}
    (h : pamUpdate D n s props orc = .ok (s', orc', tr)) : Shape n s.ctrInds.length s' := by
  obtain ⟨_, _, hlt, _, _, hl⟩ := pamUpdate_ok h
  exact pamLoop_shape (s := { s with ctrFrames := s.ctrInds }) _ ⟨rfl, rfl, hlt⟩ hl

theorem pamUpdate_costs {D : Table} {n : Nat} {s s' : St} {props : Option (List Nat)}
    {orc orc' : List Nat} {tr : List PamStep}
    (h : pamUpdate D n s props orc = .ok (s', orc', tr)) :
    (cost n s.arr.dist :: costsOf n tr).Pairwise (fun x y => y ≤ x) ∧
    (∀ x ∈ cost n s.arr.dist :: costsOf n tr, cost n s'.arr.dist ≤ x) := by
  obtain ⟨_, _, _, _, _, hl⟩ := pamUpdate_ok h
  exact pamLoop_costs (s := { s with ctrFrames := s.ctrInds }) _ hl

/-! ### several sweeps -/

theorem sweepsFrom_succ_ok {D : Table} {n : Nat} {props : Option (List Nat)} {k : Nat} {s : St}
    {orc : List Nat} {r : Run} (h : sweepsFrom D n props (k+1) s orc = .ok r) :
    ∃ s' orc' tr r', pamUpdate D n s props orc = .ok (s', orc', tr) ∧
      sweepsFrom D n props k s' orc' = .ok r' ∧
      r.final = r'.final ∧ r.oracle = r'.oracle ∧ r.trace = tr ++ r'.trace ∧ r.sweeps = s' :: r'.sweeps := by
  simp only [sweepsFrom, bind, Except.bind] at h
  cases hp : pamUpdate D n s props orc with
  | error e => simp [hp] at h
  | ok v =>
    obtain ⟨s', orc', tr⟩ := v
    simp only [hp] at h
    cases hr : sweepsFrom D n props k s' orc' with
    | error e => simp [hr] at h
    | ok r' =>
      simp only [hr, pure, Except.pure] at h
      injection h with h
      subst h
      exact ⟨s', orc', tr, r', rfl, hr, rfl, rfl, rfl, rfl⟩

theorem sweepsFrom_consistent {D : Table} {n : Nat} (T : TableOK D n) {props : Option (List Nat)} :
    ∀ (k : Nat) {s : St} {orc : List Nat} {r : Run}, Consistent D n s →
      sweepsFrom D n props k s orc = .ok r →
      Consistent D n r.final ∧ ∀ x ∈ r.sweeps, Consistent D n x := by
  intro k
  induction k with
  | zero => intro s orc r hs h; simp [sweepsFrom] at h; subst h; exact ⟨hs, by simp⟩
  | succ k ih =>
    intro s orc r hs h
    obtain ⟨s', orc', tr, r', h1, h2, e1, _, _, e4⟩ := sweepsFrom_succ_ok h
    have hs' := pamUpdate_consistent T hs h1
    obtain ⟨i1, i2⟩ := ih hs' h2
    rw [e1, e4]
    refine ⟨i1, ?_⟩
    intro x hx
    rcases List.mem_cons.mp hx with rfl | hx'
    · exact hs'
    · exact i2 x hx'

theorem sweepsFrom_shape {D : Table} {n m : Nat} {props : Option (List Nat)} :
    ∀ (k : Nat) {s : St} {orc : List Nat} {r : Run}, Shape n m s →
      sweepsFrom D n props k s orc = .ok r → Shape n m r.final ∧ ∀ x ∈ r.sweeps, Shape n m x := by
  intro k
  induction k with
  | zero => intro s orc r hs h; simp [sweepsFrom] at h; subst h; exact ⟨hs, by simp⟩
  | succ k ih =>
    intro s orc r hs h
    obtain ⟨s', orc', tr, r', h1, h2, e1, _, _, e4⟩ := sweepsFrom_succ_ok h
    have hs' : Shape n m s' := hs.len ▸ pamUpdate_shape h1
    obtain ⟨i1, i2⟩ := ih hs' h2
    rw [e1, e4]
    refine ⟨i1, ?_⟩
    intro x hx
    rcases List.mem_cons.mp hx with rfl | hx'
    · exact hs'
    · exact i2 x hx'

theorem sweepsFrom_costs {D : Table} {n : Nat} {props : Option (List Nat)} :
    ∀ (k : Nat) {s : St} {orc : List Nat} {r : Run},
      sweepsFrom D n props k s orc = .ok r →
      (cost n s.arr.dist :: costsOf n r.trace).Pairwise (fun x y => y ≤ x) ∧
      (∀ x ∈ cost n s.arr.dist :: costsOf n r.trace, cost n r.final.arr.dist ≤ x) := by
  intro k
  induction k with
  | zero => intro s orc r h; simp [sweepsFrom] at h; subst h; simp [costsOf]
  | succ k ih =>
    intro s orc r h
    obtain ⟨s', orc', tr, r', h1, h2, e1, _, e3, _⟩ := sweepsFrom_succ_ok h
    obtain ⟨p1, l1⟩ := pamUpdate_costs h1
    obtain ⟨p2, l2⟩ := ih h2
    rw [e1, e3]
    have hmap : costsOf n (tr ++ r'.trace) = costsOf n tr ++ costsOf n r'.trace := by simp [costsOf]
    rw [hmap, ← List.cons_append]
    constructor
    · refine List.pairwise_append.mpr ⟨p1, (List.pairwise_cons.mp p2).2, ?_⟩
      intro a ha b hb
      exact le_trans ((List.pairwise_cons.mp p2).1 b hb) (l1 a ha)
    · intro x hx
      rcases List.mem_append.mp hx with hx' | hx'
      · exact le_trans (l2 _ List.mem_cons_self) (l1 x hx')
      · exact l2 x (List.mem_cons_of_mem _ hx')

theorem kmedoidsIterations_ok {D : Table} {n nIters : Nat} {s : St} {props : Option (List Nat)}
    {orc : List Nat} {r : Run} (h : kmedoidsIterations D n nIters s props orc = .ok r) :
    ∃ k, nIters = k + 1 ∧ sweepsFrom D n props (k+1) s orc = .ok r := by
  unfold kmedoidsIterations at h
  cases nIters with
  | zero => simp at h
  | succ k => exact ⟨k, rfl, by simpa using h⟩

/-! ### k-centers -/

theorem argmaxTo_lt {f : Nat → Rat} : ∀ {n : Nat}, 0 < n → argmaxTo n f < n := by
  intro n
  induction n with
  | zero => intro h; cases h
  | succ k ih =>
    intro _
    unfold argmaxTo
    by_cases hk : k = 0
    · simp [hk]
    · simp only [hk, if_false]
      have := ih (Nat.pos_of_ne_zero hk)
      split <;> omega

/-- loop invariant of `kcenters`: coordinates in lock-step with indices, indices are distinct frames,
arrays are the running minimum over the centers found so far -/
structure KInv (D : Table) (n : Nat) (s : St) : Prop where
  frames : s.ctrFrames = s.ctrInds
  inds_lt : ∀ c ∈ s.ctrInds, c < n
  inj : Inj s.ctrInds
  rm : RunMin D n s.ctrInds s.arr

theorem KInv.cold (D : Table) (n : Nat) : KInv D n (St.cold n) :=
  { frames := rfl, inds_lt := by simp [St.cold], inj := by intro i j c h; simp [St.cold] at h,
    rm := by simp only [St.cold]; exact RunMin.nil D n _ _ }

theorem KInv.consistent {D : Table} {n : Nat} (T : TableOK D n) {s : St} (h : KInv D n s)
    (hne : s.ctrInds ≠ []) : Consistent D n s := by
  have := Consistent.of_runMin T h.rm hne h.inj h.inds_lt
  exact { notFresh := this.notFresh, frames := h.frames, inds_lt := h.inds_lt, lab := this.lab,
          best := this.best, own := this.own }

theorem KInv.iter {D : Table} {n : Nat} (T : TableOK D n) (hn : 0 < n) {s : St} (h : KInv D n s)
    {nClusters : Option Nat} {cutoff : Rat} (hc : 0 ≤ cutoff)
    (hgo : kcentersGoOn n nClusters cutoff s = true) : KInv D n (kcentersIter D n s) := by
  have hlt : argmaxDist n s.arr < n := by
    unfold argmaxDist; split
    · exact hn
    · exact argmaxTo_lt hn
  have hnew : ∀ j : Nat, s.ctrInds[j]? ≠ some (argmaxDist n s.arr) := by
    intro j hj
    have hne : s.ctrInds ≠ [] := by intro e; rw [e] at hj; simp at hj
    have hcons := h.consistent T hne
    have hfr := hcons.notFresh
    have h0 := (hcons.own j _ hj).2
    unfold kcentersGoOn at hgo
    simp only [Bool.and_eq_true] at hgo
    have hm := hgo.2
    unfold maxDist at hm
    simp only [hfr] at hm
    simp only [Bool.false_eq_true, if_false, decide_eq_true_eq] at hm
    unfold argmaxDist at h0
    simp only [hfr, Bool.false_eq_true, if_false] at h0
    rw [h0] at hm
    exact absurd hm (not_lt.mpr hc)
  refine { frames := by simp [kcentersIter, h.frames], inds_lt := ?_, inj := ?_, rm := h.rm.relax _ }
  · intro c hc'
    simp only [kcentersIter, List.mem_append, List.mem_singleton] at hc'
    rcases hc' with h' | h'
    · exact h.inds_lt c h'
    · exact h' ▸ hlt
  · intro i j c hi hj
    simp only [kcentersIter] at hi hj
    rcases Nat.lt_or_ge i s.ctrInds.length with hi' | hi' <;>
      rcases Nat.lt_or_ge j s.ctrInds.length with hj' | hj'
    · rw [List.getElem?_append_left hi'] at hi
      rw [List.getElem?_append_left hj'] at hj
      exact h.inj i j c hi hj
    · rw [List.getElem?_append_left hi'] at hi
      rw [List.getElem?_append_right hj'] at hj
      have : c = argmaxDist n s.arr := by
        rcases Nat.eq_zero_or_pos (j - s.ctrInds.length) with h0 | h0
        · rw [h0] at hj; simpa using hj.symm
        · rw [List.getElem?_eq_none (by simp; omega)] at hj; cases hj
      exact absurd (this ▸ hi) (hnew i)
    · rw [List.getElem?_append_right hi'] at hi
      rw [List.getElem?_append_left hj'] at hj
      have : c = argmaxDist n s.arr := by
        rcases Nat.eq_zero_or_pos (i - s.ctrInds.length) with h0 | h0
        · rw [h0] at hi; simpa using hi.symm
        · rw [List.getElem?_eq_none (by simp; omega)] at hi; cases hi
      exact absurd (this ▸ hj) (hnew j)
    · have hi2 := getElem?_lt hi
      have hj2 := getElem?_lt hj
      simp at hi2 hj2; omega

theorem kcentersLoop_inv {D : Table} {n : Nat} (T : TableOK D n) (hn : 0 < n)
    {nClusters : Option Nat} {cutoff : Rat} (hc : 0 ≤ cutoff) :
    ∀ (fuel : Nat) {s s' : St}, KInv D n s → kcentersLoop D n nClusters cutoff fuel s = .ok s' →
      KInv D n s' ∧ kcentersGoOn n nClusters cutoff s' = false := by
  intro fuel
  induction fuel with
  | zero =>
    intro s s' hs h
    unfold kcentersLoop at h
    by_cases hgo : kcentersGoOn n nClusters cutoff s = true
    · simp [hgo] at h
    · simp only [hgo] at h; injection h with h; subst h
      exact ⟨hs, by simpa using hgo⟩
  | succ k ih =>
    intro s s' hs h
    unfold kcentersLoop at h
    by_cases hgo : kcentersGoOn n nClusters cutoff s = true
    · simp only [hgo, if_true] at h
      exact ih (hs.iter T hn hc hgo) h
    · simp only [hgo] at h; injection h with h; subst h
      exact ⟨hs, by simpa using hgo⟩

/-- when the loop has stopped and at least one cluster was asked for, there is a center -/
theorem stopped_nonempty {D : Table} {n : Nat} {s : St} (h : KInv D n s) {nClusters : Option Nat} {cutoff : Rat}
    (hk : nClusters ≠ some 0) (hstop : kcentersGoOn n nClusters cutoff s = false) : s.ctrInds ≠ [] := by
  intro e
  have hfr : s.arr.fresh = true := h.rm.fresh_iff.mpr e
  unfold kcentersGoOn maxDist at hstop
  simp only [hfr, if_true, Bool.and_true] at hstop
  cases nClusters with
  | none => simp at hstop
  | some k =>
    simp only [e, List.length_nil, decide_eq_false_iff_not, not_lt, Nat.le_zero] at hstop
    exact hk (by rw [hstop])

end Ens.Cluster
