import Proofs.C01Find
/-!
C01 helper lemmas, part 6: the per-frame `argmin` branch of `assign_to_nearest_center`, the warm
starts of `kcenters` and `kmedoids`, totality of a PAM step on consistent states.
-/
namespace Ens.Cluster

theorem argminFrom_spec (g : Nat → Rat) : ∀ (cs pre : List Nat) (b : Nat × Rat),
    (∃ c, pre[b.1]? = some c ∧ b.2 = g c) → (∀ (j c : Nat), pre[j]? = some c → ¬ g c < b.2) →
    (∃ c, (pre ++ cs)[(argminFrom g cs pre.length b).1]? = some c ∧ (argminFrom g cs pre.length b).2 = g c) ∧
    (∀ (j c : Nat), (pre ++ cs)[j]? = some c → ¬ g c < (argminFrom g cs pre.length b).2) := by
  intro cs
  induction cs with
  | nil => intro pre b h1 h2; simp only [argminFrom, List.append_nil]; exact ⟨h1, h2⟩
  | cons c cs ih =>
    intro pre b h1 h2
    have key := ih (pre ++ [c]) (if g c < b.2 then (pre.length, g c) else b) ?_ ?_
    · simpa [argminFrom, List.append_assoc] using key
    · by_cases hlt : g c < b.2
      · simp only [hlt, if_true]; exact ⟨c, by simp, rfl⟩
      · simp only [hlt, if_false]
        obtain ⟨c0, e1, e2⟩ := h1
        exact ⟨c0, by rw [List.getElem?_append_left (getElem?_lt e1)]; exact e1, e2⟩
    · intro j c' hj
      rcases Nat.lt_or_ge j pre.length with hj' | hj'
      · rw [List.getElem?_append_left hj'] at hj
        have := h2 j c' hj
        by_cases hlt : g c < b.2
        · rw [if_pos hlt]; intro h'; exact this (lt_trans h' hlt)
        · rw [if_neg hlt]; exact this
      · rw [List.getElem?_append_right hj'] at hj
        have : c' = c := by
          rcases Nat.eq_zero_or_pos (j - pre.length) with h0 | h0
          · rw [h0] at hj; simpa using hj.symm
          · rw [List.getElem?_eq_none (by simp; omega)] at hj; cases hj
        subst this
        by_cases hlt : g c' < b.2
        · rw [if_pos hlt]; exact lt_irrefl _
        · rw [if_neg hlt]; exact hlt

/-- the `argmin` branch computes a nearest-center assignment as well -/
theorem RunMin.assignArgmin {D : Table} {n : Nat} {cs : List Nat} {a : Arr}
    (h : assignArgmin D n cs = .ok a) (hne : cs ≠ []) : RunMin D n cs a := by
  cases cs with
  | nil => exact absurd rfl hne
  | cons c cs' =>
    simp only [Cluster.assignArgmin] at h
    injection h with h
    subst h
    refine ⟨by simp, ?_, ?_⟩
    · intro _ f hf
      rw [tab_dist _ _ _ hf, tab_assign _ _ _ hf]
      obtain ⟨⟨c0, e1, e2⟩, _⟩ := argminFrom_spec (D f) cs' [c] (0, D f c) ⟨c, by simp, rfl⟩
        (by intro j c' hj
            cases j with
            | zero => simp at hj; subst hj; exact lt_irrefl _
            | succ j => simp at hj)
      exact ⟨_, c0, rfl, by simpa using e1, by simpa using e2⟩
    · intro f hf k c' hk
      rw [tab_dist _ _ _ hf]
      obtain ⟨_, hb⟩ := argminFrom_spec (D f) cs' [c] (0, D f c) ⟨c, by simp, rfl⟩
        (by intro j c' hj
            cases j with
            | zero => simp at hj; subst hj; exact lt_irrefl _
            | succ j => simp at hj)
      have := hb k c' (by simpa using hk)
      simpa using this

/-- `assign_to_nearest_center`, whichever branch runs -/
theorem RunMin.assignToNearestCenter {D : Table} {n : Nat} {cs : List Nat} {xyz : Bool} {a : Arr}
    (h : assignToNearestCenter D n cs xyz = .ok a) (hne : cs ≠ []) : RunMin D n cs a := by
  unfold Cluster.assignToNearestCenter at h
  split at h
  · exact RunMin.assignArgmin h hne
  · injection h with h; subst h; exact RunMin.assignNearest D n cs

/-! ### warm starts -/

theorem kcentersWarm_ok {D : Table} {n : Nat} (T : TableOK D n) {init : List Nat}
    (hne : init ≠ []) (hnd : init.Nodup) (hlt : ∀ c ∈ init, c < n) :
    kcentersWarm D n init = .ok { arr := assignNearest D n init, ctrInds := init, ctrFrames := init } := by
  unfold kcentersWarm
  have hany : (init.any fun c => decide (n ≤ c)) = false := by
    rw [List.any_eq_false]; intro c hc; simpa using hlt c hc
  have hcons := Consistent.of_runMin T (RunMin.assignNearest D n init) hne (Inj_of_nodup hnd) hlt
  have := findClusterCenters_eq T hcons
  simp only [hany] at *
  simp [this]

/-- what `kmedoids` may be started from: distinct frame indices (arrays are then computed), a full
consistent state, or the arrays of a consistent state (indices are then inferred) -/
def WarmOK (D : Table) (n : Nat) : Option (List Nat) → Option Arr → Prop
  | some ci, none => ci ≠ [] ∧ ci.Nodup ∧ ∀ c ∈ ci, c < n
  | some ci, some a => Consistent D n { arr := a, ctrInds := ci, ctrFrames := ci }
  | none, some a => ∃ ci, Consistent D n { arr := a, ctrInds := ci, ctrFrames := ci }
  | none, none => False

theorem kmedoidsStart_ok {D : Table} {n : Nat} {ci : List Nat} {ad : Option Arr} {s : St}
    (h : kmedoidsStart D n ci ad = .ok s) :
    s = { arr := startArr D n ci ad, ctrInds := ci, ctrFrames := ci } := by
  unfold kmedoidsStart at h
  simp only [] at h
  split_ifs at h with c1 c2
  injection h with h; exact h.symm

theorem kmedoids_start {D : Table} {n nIters : Nat} (T : TableOK D n) {inds : Option (List Nat)}
    {ad : Option Arr} {props : Option (List Nat)} {orc : List Nat} {r : Run}
    (hw : WarmOK D n inds ad) (h : kmedoids D n nIters inds ad props orc = .ok r) :
    ∃ s, Consistent D n s ∧ kmedoidsIterations D n nIters s props orc = .ok r := by
  unfold kmedoids at h
  simp only [bind, Except.bind] at h
  split at h
  · cases h
  · cases hc : kmedoidsCenters n inds ad with
    | error e => simp [hc] at h
    | ok ci =>
      simp only [hc] at h
      cases hs : kmedoidsStart D n ci ad with
      | error e => simp [hs] at h
      | ok s =>
        simp only [hs] at h
        refine ⟨s, ?_, h⟩
        rw [kmedoidsStart_ok hs]
        cases inds with
        | some ci' =>
          simp only [kmedoidsCenters] at hc
          injection hc with hc; subst hc
          cases ad with
          | none =>
            obtain ⟨hne, hnd, hlt⟩ := hw
            exact Consistent.of_runMin T (RunMin.assignNearest D n ci') hne (Inj_of_nodup hnd) hlt
          | some a => exact hw
        | none =>
          cases ad with
          | none => exact absurd hw (by simp [WarmOK])
          | some a =>
            obtain ⟨ci0, hcons⟩ := hw
            have hf := findClusterCenters_eq T hcons
            simp only [] at hf
            simp only [kmedoidsCenters, hf] at hc
            injection hc with hc; subst hc
            exact hcons

/-! ### a PAM step on a consistent state never trips the asserts -/

theorem pamStep_total {D : Table} {n : Nat} (T : TableOK D n) {s : St} (hs : Consistent D n s)
    {cid p : Nat} (hcid : cid < s.ctrInds.length) (hp : p < n) : ∃ st, pamStep D n s cid p = .ok st := by
  obtain ⟨hl, _⟩ := cand_lab_best (p := p) hs hcid
  have hany : ((List.range n).any fun f =>
      decide ((pamCandidate D n s cid p).arr.assign f < 0) || decide ((pamCandidate D n s cid p).arr.dist f < 0)) = false := by
    rw [List.any_eq_false]
    intro f hf
    have hf' : f < n := List.mem_range.mp hf
    obtain ⟨k, c, e1, e2, e3⟩ := hl f hf'
    have hc : c < n := by
      rcases List.mem_or_eq_of_mem_set (getElem?_mem' e2) with h | h
      · exact hs.inds_lt c h
      · exact h ▸ hp
    have h0 := T.nonneg f c hf' hc
    simp only [e1, e3, Bool.or_eq_true, decide_eq_true_eq, not_or, not_lt]
    exact ⟨by omega, h0⟩
  unfold pamStep
  simp only [hany]
  exact ⟨_, rfl⟩

end Ens.Cluster
