import Proofs.C07Uniq
/-!
Concrete 3- and 4-state chains used by the non-vacuity `example`s of `Props/C07.lean` and
`Props/C08.lean` (tests, not property theorems).
-/
open Ens Ens.Tpt Ens.LinSolveT

namespace Ens.Tpt.Ex

/-! ### concrete chains for the non-vacuity examples -/

/-- reversible 3-state chain -/
def T3 : Mat := fun i j =>
  match i, j with
  | 0, 0 => 1/2 | 0, 1 => 1/2
  | 1, 0 => 1/4 | 1, 1 => 1/2 | 1, 2 => 1/4
  | 2, 1 => 1/2 | 2, 2 => 1/2
  | _, _ => 0
def π3 : Vec := fun i => match i with | 0 => 1/4 | 1 => 1/2 | 2 => 1/4 | _ => 0
/-- non-reversible 4-state chain -/
def T4 : Mat := fun i j =>
  match i, j with
  | 0, 0 => 1/2 | 0, 1 => 1/4 | 0, 2 => 1/4
  | 1, 0 => 1/4 | 1, 1 => 1/4 | 1, 2 => 1/4 | 1, 3 => 1/4
  | 2, 1 => 1/4 | 2, 2 => 1/2 | 2, 3 => 1/4
  | 3, 0 => 1/4 | 3, 2 => 1/4 | 3, 3 => 1/2
  | _, _ => 0
/-- solver output for `T4`, sources `[0]`, sinks `[2, 3]` (two sink columns) -/
def B4 : Mat := fun i _ => match i with | 1 => 1/3 | 2 => 1 | 3 => 1 | _ => 0
/-- solver output for `T3`, sink `[2]` -/
def t3 : Vec := fun i => match i with | 0 => 8 | 1 => 6 | _ => 0
/-- `(I − T3 + W)⁻¹` -/
def Z3 : Mat := fun i j =>
  match i, j with
  | 0, 0 => 3/2 | 0, 2 => -1/2
  | 1, 1 => 1
  | 2, 0 => -1/2 | 2, 2 => 3/2
  | _, _ => 0

/-- committors of `T3` for sources `[0]`, sinks `[2]` -/
def q3 : Vec := fun i => match i with | 1 => 1/2 | 2 => 1 | _ => 0

/-- observe one entry of an executable-reference result (functions are not comparable as a whole) -/
def okVal (e : Except Err Vec) (i : Nat) : Option Rat :=
  match e with | .ok q => some (q i) | .error _ => none
def okEntry (e : Except Err Mat) (i j : Nat) : Option Rat :=
  match e with | .ok m => some (m i j) | .error _ => none

theorem reach_T4 : ∀ i, i < 4 → Reach 4 T4 ([0] ++ [2, 3]) i := by
  intro i hi
  match i, hi with
  | 0, _ => exact .base (by decide +kernel)
  | 1, _ => exact .step (j := 0) (by decide +kernel) (by decide +kernel) (.base (by decide +kernel))
  | 2, _ => exact .base (by decide +kernel)
  | 3, _ => exact .base (by decide +kernel)

theorem reach_T3 : ∀ i, i < 3 → Reach 3 T3 [2] i := by
  intro i hi
  match i, hi with
  | 0, _ => exact .step (j := 1) (by decide +kernel) (by decide +kernel)
              (.step (j := 2) (by decide +kernel) (by decide +kernel) (.base (by decide +kernel)))
  | 1, _ => exact .step (j := 2) (by decide +kernel) (by decide +kernel) (.base (by decide +kernel))
  | 2, _ => exact .base (by decide +kernel)

end Ens.Tpt.Ex
