import Model.Store
/-!
C15, part 3: cell writes into a buffer.

Every cell of the result buffer is written exactly once (the windows are disjoint and tile
`[0, total)`), hence *any* permutation of the individual cell writes — in particular any
interleaving of the workers' window writes and any completion order — leaves the buffer equal
to the concatenation.  Core Lean only.
-/
namespace Ens.Store

variable {β : Type}

theorem runCells_nil (buf : Nat → β) : runCells [] buf = buf := rfl

theorem runCells_cons (c : Nat × β) (cs : List (Nat × β)) (buf : Nat → β) :
    runCells (c :: cs) buf = runCells cs (setCell buf c) := rfl

theorem runCells_append (a b : List (Nat × β)) (buf : Nat → β) :
    runCells (a ++ b) buf = runCells b (runCells a buf) := by
  simp [runCells, List.foldl_append]

/-- a position nobody writes keeps its content -/
theorem runCells_untouched : ∀ (cells : List (Nat × β)) (buf : Nat → β) (k : Nat),
    (∀ c ∈ cells, c.1 ≠ k) → runCells cells buf k = buf k
  | [], _, _, _ => rfl
  | c :: cs, buf, k, h => by
    rw [runCells_cons, runCells_untouched cs _ k (fun d hd => h d (by simp [hd]))]
    have : c.1 ≠ k := h c (by simp)
    simp only [setCell]
    rw [if_neg (fun e => this e.symm)]

/-- a position written exactly once holds the written value, wherever the write occurs -/
theorem runCells_written : ∀ (cells : List (Nat × β)) (buf : Nat → β) (p : Nat) (x : β),
    (cells.map (·.1)).Nodup → (p, x) ∈ cells → runCells cells buf p = x
  | [], _, _, _, _, h => by simp at h
  | c :: cs, buf, p, x, hnd, hmem => by
    rw [List.map_cons, List.nodup_cons] at hnd
    rw [runCells_cons]
    rcases List.mem_cons.mp hmem with heq | htail
    · subst heq
      rw [runCells_untouched cs _ p]
      · simp [setCell]
      · intro d hd hp
        exact hnd.1 (List.mem_map.mpr ⟨d, hd, hp⟩)
    · exact runCells_written cs _ p x hnd.2 htail

/-- **order independence of cell writes**: two arrangements of the same writes, no position
written twice, give the same buffer. -/
theorem runCells_perm {c1 c2 : List (Nat × β)} (hp : c1.Perm c2) (hnd : (c1.map (·.1)).Nodup)
    (buf : Nat → β) : runCells c1 buf = runCells c2 buf := by
  funext k
  have hnd2 : (c2.map (·.1)).Nodup := (hp.map _).nodup_iff.mp hnd
  by_cases h : ∃ c ∈ c1, c.1 = k
  · obtain ⟨⟨p, x⟩, hc, hk⟩ := h
    simp only at hk
    subst hk
    rw [runCells_written c1 buf p x hnd hc, runCells_written c2 buf p x hnd2 (hp.subset hc)]
  · have h1 : ∀ c ∈ c1, c.1 ≠ k := fun c hc e => h ⟨c, hc, e⟩
    have h2 : ∀ c ∈ c2, c.1 ≠ k := fun c hc e => h ⟨c, hp.symm.subset hc, e⟩
    rw [runCells_untouched c1 buf k h1, runCells_untouched c2 buf k h2]

/-! ### windows -/

theorem blockCells_positions (pos : Nat) (xs : List β) :
    (blockCells pos xs).map (·.1) = List.range' pos xs.length := by
  unfold blockCells
  rw [List.map_map]
  have : ((fun (c : Nat × β) => c.1) ∘ fun (x : β × Nat) => (x.2, x.1)) = Prod.snd := by
    funext x; rfl
  rw [this, List.zipIdx_map_snd]

theorem blockCells_nodup (pos : Nat) (xs : List β) : ((blockCells pos xs).map (·.1)).Nodup := by
  rw [blockCells_positions]
  exact List.nodup_range'

theorem mem_blockCells {pos p : Nat} {x : β} {xs : List β} :
    (p, x) ∈ blockCells pos xs ↔ pos ≤ p ∧ xs[p - pos]? = some x := by
  unfold blockCells
  rw [List.mem_map]
  constructor
  · rintro ⟨⟨y, q⟩, hm, heq⟩
    simp only [Prod.mk.injEq] at heq
    obtain ⟨rfl, rfl⟩ := heq
    exact List.mem_zipIdx_iff_le_and_getElem?_sub.mp hm
  · intro h
    exact ⟨(x, p), List.mem_zipIdx_iff_le_and_getElem?_sub.mpr h, rfl⟩

theorem blockCells_append (pos : Nat) (xs ys : List β) :
    blockCells pos (xs ++ ys) = blockCells pos xs ++ blockCells (pos + xs.length) ys := by
  simp [blockCells, List.zipIdx_append]

/-- the writes issued for consecutive windows starting at `off` -/
def cellsFrom (off : Nat) : List (List β) → List (Nat × β)
  | [] => []
  | xs :: rest => blockCells off xs ++ cellsFrom (off + xs.length) rest

/-- consecutive windows tile the buffer: together they are the cell writes of the concatenation -/
theorem cellsFrom_eq_block : ∀ (xss : List (List β)) (off : Nat),
    cellsFrom off xss = blockCells off xss.flatten
  | [], off => by simp [cellsFrom, blockCells]
  | xs :: rest, off => by
    rw [cellsFrom, List.flatten_cons, blockCells_append, cellsFrom_eq_block rest]

/-- **reading back**: after any arrangement of the cell writes of `flat` (each cell once), the
first `|flat|` cells of the buffer are `flat`, whatever the buffer held before. -/
theorem tabulate_runCells (flat : List β) (cells : List (Nat × β)) (hp : cells.Perm (blockCells 0 flat))
    (buf : Nat → β) : (List.range flat.length).map (runCells cells buf) = flat := by
  have hnd : (cells.map (·.1)).Nodup := (hp.map _).nodup_iff.mpr (blockCells_nodup 0 flat)
  apply List.ext_getElem
  · simp
  · intro i h1 h2
    simp only [List.getElem_map, List.getElem_range]
    apply runCells_written cells buf i flat[i] hnd
    apply hp.symm.subset
    rw [mem_blockCells]
    exact ⟨Nat.zero_le _, by simp [h2]⟩

/-! ### window writes -/

theorem writeWindow_ok (total : Nat) (buf : Nat → β) (pos : Nat) (xs : List β)
    (h : pos + xs.length ≤ total) :
    writeWindow total buf pos xs = .ok (runCells (blockCells pos xs) buf) := by
  simp [writeWindow, h]

/-- a write that is clipped by the end of the buffer: error, or (one frame into an empty
window) nothing happens -/
theorem writeWindow_clipped (total : Nat) (buf : Nat → β) (pos : Nat) (xs : List β)
    (h : total < pos + xs.length) :
    writeWindow total buf pos xs = if xs.length = 1 then .ok buf else .error .valueError := by
  simp [writeWindow, Nat.not_le.mpr h]

theorem length_sum_cons (xs : List β) (rest : List (List β)) :
    ((xs :: rest).map List.length).sum = xs.length + (rest.map List.length).sum := by simp

/-- the sequential fill of `ra.load` performs exactly the cell writes of the concatenation -/
theorem fillSeq_ok (total : Nat) : ∀ (xss : List (List β)) (start : Nat) (buf : Nat → β),
    start + (xss.map List.length).sum ≤ total →
    fillSeq total xss start buf = .ok (runCells (cellsFrom start xss) buf)
  | [], _, _, _ => rfl
  | xs :: rest, start, buf, h => by
    rw [length_sum_cons] at h
    rw [fillSeq, writeWindow_ok total buf start xs (by omega)]
    simp only [bind, Except.bind]
    rw [fillSeq_ok total rest (start + xs.length) _ (by omega), cellsFrom, runCells_append]

theorem length_flatten_eq (xss : List (List β)) : xss.flatten.length = (xss.map List.length).sum := by
  simp [List.length_flatten]

/-- `ra.load`'s buffer after the fill = concatenation of the (strided) nodes -/
theorem fillSeq_result (xss : List (List β)) (buf : Nat → β) :
    ∃ b, fillSeq (xss.map List.length).sum xss 0 buf = .ok b ∧
      (List.range (xss.map List.length).sum).map b = xss.flatten := by
  refine ⟨_, fillSeq_ok _ xss 0 buf (by omega), ?_⟩
  rw [← length_flatten_eq]
  apply tabulate_runCells
  rw [cellsFrom_eq_block]

/-! ### cutting a concatenation back into rows -/

theorem rowsOf_flatten : ∀ (xss : List (List β)), rowsOf xss.flatten (xss.map List.length) = xss
  | [] => rfl
  | xs :: rest => by
    simp only [List.flatten_cons, List.map_cons, rowsOf, List.take_left', List.drop_left']
    rw [rowsOf_flatten rest]

end Ens.Store
