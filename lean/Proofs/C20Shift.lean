import Proofs.C20Arc
/-!
C20, part 7: the angle preparation of the wrappers.  `dihedral_angles` maps degrees in [-180, 180] into
[0, 360); the psi shift keeps angles in [0, 360) and commutes with the basin test: the shifted angle lies
in `[lo, hi)` iff the unshifted angle lies in `[lo + s, hi + s)` on the circle.
-/
namespace Ens.Rotamer

theorem normalizeAngle_range {a : Rat} (h0 : -180 ≤ a) (h1 : a ≤ 180) :
    0 ≤ normalizeAngle a ∧ normalizeAngle a < 360 := by
  unfold normalizeAngle
  by_cases h : a < 0
  · simp only [h, if_true]
    split <;> constructor <;> norm_num <;> linarith
  · simp only [h, if_false]
    split <;> constructor <;> norm_num <;> linarith

/-- outside the clamped sliver (-0.5, 0) the angle itself (mod 360) is kept; inside it the code reports 359.5
(same basin for every generated boundary list, whose last interior boundary is far below 359.5) -/
theorem normalizeAngle_congr {a : Rat} (_h0 : -180 ≤ a) (h1 : a ≤ 180) (hc : a < 0 → a ≤ -1 / 2) :
    ∃ k : Int, normalizeAngle a = a + 360 * (k : Rat) := by
  unfold normalizeAngle
  by_cases h : a < 0
  · refine ⟨1, ?_⟩
    simp only [h, if_true]
    have := hc h
    have : ¬ (a + 360 > 359.5) := by norm_num; linarith
    rw [if_neg this]; push_cast; linarith
  · refine ⟨0, ?_⟩
    simp only [h, if_false]
    have : ¬ (a > 359.5) := by norm_num; linarith
    rw [if_neg this]; simp

theorem shiftAngle_range {s a : Rat} (ha0 : 0 ≤ a) (ha : a < 360) (hs0 : 0 ≤ s) (hs : s ≤ 360) :
    0 ≤ shiftAngle s a ∧ shiftAngle s a < 360 := by
  unfold shiftAngle
  by_cases h : a - s < 0
  · simp only [h, if_true]; constructor <;> linarith
  · simp only [h, if_false]; constructor <;> linarith

theorem shiftAngle_basin {s a lo hi : Rat} (ha0 : 0 ≤ a) (ha : a < 360) (hs0 : 0 ≤ s) (hs : s ≤ 360)
    (hlo : 0 ≤ lo) (hhi : hi ≤ 360) :
    (lo ≤ shiftAngle s a ∧ shiftAngle s a < hi) ↔
      ∃ k : Int, lo + s ≤ a + 360 * (k : Rat) ∧ a + 360 * (k : Rat) < hi + s := by
  unfold shiftAngle
  by_cases h : a - s < 0
  · simp only [h, if_true]
    constructor
    · rintro ⟨h1, h2⟩
      exact ⟨1, by push_cast; linarith, by push_cast; linarith⟩
    · rintro ⟨k, h1, h2⟩
      rcases int_tri (k - 1) with hk | hk | hk
      · push_cast at hk; exfalso; linarith
      · have : k = 1 := by omega
        subst this; push_cast at h1 h2; constructor <;> linarith
      · push_cast at hk; exfalso; linarith
  · simp only [h, if_false]
    constructor
    · rintro ⟨h1, h2⟩
      exact ⟨0, by push_cast; linarith, by push_cast; linarith⟩
    · rintro ⟨k, h1, h2⟩
      rcases int_tri k with hk | hk | hk
      · exfalso; linarith
      · subst hk; push_cast at h1 h2; constructor <;> linarith
      · exfalso; linarith

end Ens.Rotamer
