import Proofs.C05Basic
/-! Ranges and slices: where the code's hand arithmetic agrees with CPython's `slice.indices`. -/
namespace Ens.Ragged
open Ens

/-! ### rangeAux -/

theorem rangeAux_pos_mem {stop step : Int} (hs : 0 < step) {fuel : Nat} {cur x : Int}
    (h : x ∈ rangeAux stop step fuel cur) : cur ≤ x ∧ x < stop := by
  induction fuel generalizing cur with
  | zero => simp [rangeAux] at h
  | succ f ih =>
    simp only [rangeAux] at h
    split at h
    · rename_i hc
      rcases List.mem_cons.mp h with h | h
      · subst h; omega
      · have := ih h; omega
    · simp at h

theorem rangeAux_neg_mem {stop step : Int} (hs : step < 0) {fuel : Nat} {cur x : Int}
    (h : x ∈ rangeAux stop step fuel cur) : x ≤ cur ∧ stop < x := by
  induction fuel generalizing cur with
  | zero => simp [rangeAux] at h
  | succ f ih =>
    simp only [rangeAux] at h
    split at h
    · rename_i hc
      rcases List.mem_cons.mp h with h | h
      · subst h; omega
      · have := ih h; omega
    · simp at h

theorem rangeAux_pos_empty {stop step : Int} (hs : 0 < step) (fuel : Nat) {cur : Int} (h : stop ≤ cur) :
    rangeAux stop step fuel cur = [] := by
  cases fuel with
  | zero => rfl
  | succ f =>
    simp only [rangeAux]
    rw [if_neg]; omega

/-- with a positive step the fuel does not matter once it covers the distance -/
theorem rangeAux_pos_fuel {stop step : Int} (hs : 0 < step) (f₁ f₂ : Nat) (cur : Int)
    (h₁ : (stop - cur).toNat ≤ f₁) (h₂ : (stop - cur).toNat ≤ f₂) :
    rangeAux stop step f₁ cur = rangeAux stop step f₂ cur := by
  induction f₁ generalizing f₂ cur with
  | zero =>
    have : stop ≤ cur := by omega
    rw [rangeAux_pos_empty hs _ this, rangeAux_pos_empty hs _ this]
  | succ f ih =>
    by_cases hc : cur < stop
    · cases f₂ with
      | zero => omega
      | succ g =>
        simp only [rangeAux]
        rw [if_pos (Or.inl ⟨hs, hc⟩), if_pos (Or.inl ⟨hs, hc⟩)]
        congr 1
        exact ih g (cur + step) (by omega) (by omega)
    · have : stop ≤ cur := by omega
      rw [rangeAux_pos_empty hs _ this, rangeAux_pos_empty hs _ this]

/-- every position produced by `slice.indices(len)` is a valid position -/
theorem indices_lt {len : Nat} {s : PySlice} {ix : List Nat} (h : s.indices len = some ix) :
    ∀ k ∈ ix, k < len := by
  intro k hk
  simp only [PySlice.indices, PySlice.adjust] at h
  split at h
  · simp at h
  · rename_i hstep
    simp only [Option.map_some, Option.some.injEq] at h
    subst h
    simp only [List.mem_map] at hk
    obtain ⟨x, hx, rfl⟩ := hk
    by_cases hpos : 0 < s.step.getD 1
    · have := rangeAux_pos_mem hpos hx
      revert this
      cases s.start <;> cases s.stop <;> simp only [] <;> intro this <;> (repeat' split at this) <;> omega
    · have hneg : s.step.getD 1 < 0 := by omega
      have := rangeAux_neg_mem hneg hx
      revert this
      cases s.start <;> cases s.stop <;> simp only [] <;> intro this <;> (repeat' split at this) <;> omega

/-! ### the regions where the hand arithmetic is right -/

/-- row slice: positive step, bounds within `[-n, n]` (no clipping needed) -/
def RowSliceOK (n : Nat) (rs : PySlice) : Prop :=
  (∀ v, rs.step = some v → 0 < v) ∧
  (∀ v, rs.start = some v → -(n : Int) ≤ v ∧ v ≤ n) ∧
  (∀ v, rs.stop = some v → -(n : Int) ≤ v ∧ v ≤ n)

/-- column slice: positive step, non-negative start -/
def ColSliceOK (cs : PySlice) : Prop :=
  (∀ v, cs.step = some v → 0 < v) ∧ (∀ v, cs.start = some v → 0 ≤ v)

theorem step_pos_of {s : PySlice} (h : ∀ v, s.step = some v → 0 < v) : 0 < s.step.getD 1 := by
  cases hs : s.step with
  | none => simp
  | some v => simpa using h v hs

theorem map_ofNat_toNat {l : List Int} (h : ∀ x ∈ l, 0 ≤ x) : (l.map Int.toNat).map Int.ofNat = l := by
  induction l with
  | nil => rfl
  | cons x xs ih =>
    simp only [List.map_cons]
    rw [ih (fun y hy => h y (by simp [hy]))]
    congr 1
    have := h x (by simp)
    show ((x.toNat : Nat) : Int) = x
    omega

/-- same range, computed with the code's fuel and with `slice.indices`' fuel, as naturals -/
theorem range_code_eq_indices {step : Int} (hpos : 0 < step) (n : Nat) {A B : Int}
    (hA0 : 0 ≤ A) (hB : B ≤ n) :
    rangeAux B step (B - A).natAbs A = ((rangeAux B step (n + 1) A).map Int.toNat).map Int.ofNat := by
  rw [map_ofNat_toNat (fun x hx => by have := rangeAux_pos_mem hpos hx; omega)]
  exact rangeAux_pos_fuel hpos _ _ _ (by omega) (by omega)

/-- `_slice_to_list` agrees with `slice.indices` on `RowSliceOK` slices -/
theorem sliceToList_eq_indices {n : Nat} {rs : PySlice} (h : RowSliceOK n rs) :
    ∃ ix, rs.indices n = some ix ∧ sliceToList rs n = .ok (ix.map Int.ofNat) := by
  obtain ⟨hstep, hstart, hstop⟩ := h
  have hpos := step_pos_of hstep
  have hne : ¬ (rs.step.getD 1 = 0) := by omega
  have hlt : ¬ (rs.step.getD 1 < 0) := by omega
  simp only [PySlice.indices, PySlice.adjust, sliceToList, if_neg hne, Option.map_some, pyRange, hlt,
    if_false]
  refine ⟨_, rfl, ?_⟩
  congr 1
  cases hs : rs.start with
  | none =>
    cases ht : rs.stop with
    | none => simp only []; exact range_code_eq_indices hpos n (by omega) (by omega)
    | some w =>
      have hw := hstop w ht
      simp only []
      have e : (if w < 0 then (if w + (n : Int) < 0 then 0 else w + n) else if w ≥ n then (n : Int) else w)
          = (if w < 0 then (n : Int) + w else w) := by split <;> split <;> omega
      rw [e]
      exact range_code_eq_indices hpos n (by omega) (by split <;> omega)
  | some v =>
    have hv := hstart v hs
    have e1 : (if v < 0 then (if v + (n : Int) < 0 then 0 else v + n) else if v ≥ n then (n : Int) else v)
        = (if v < 0 then (n : Int) + v else v) := by split <;> split <;> omega
    cases ht : rs.stop with
    | none =>
      simp only []
      rw [e1]
      exact range_code_eq_indices hpos n (by split <;> omega) (by omega)
    | some w =>
      have hw := hstop w ht
      simp only []
      have e : (if w < 0 then (if w + (n : Int) < 0 then 0 else w + n) else if w ≥ n then (n : Int) else w)
          = (if w < 0 then (n : Int) + w else w) := by split <;> split <;> omega
      rw [e, e1]
      exact range_code_eq_indices hpos n (by split <;> omega) (by split <;> omega)

/-- one row of `_get_iis_from_slices`: `arange(start, min(stop', len), step)` as a function of the
code's clipped stop -/
def colStop (cs : PySlice) (len : Nat) : Int :=
  let st : Int := match cs.stop with
    | none => (len : Int)
    | some v => if v < 0 then (len : Int) + v else v
  if st > (len : Int) then (len : Int) else st

theorem colStops_eq (cs : PySlice) (lens : List Nat) : colStops cs lens = lens.map (colStop cs) := rfl

/-- two positive-step ranges from the same start agree when their stops agree or both are `≤ start` -/
theorem range_stop_irrel {step : Int} (hpos : 0 < step) (n : Nat) {S T B : Int} (hS0 : 0 ≤ S)
    (hB : B ≤ n) (h : T = B ∨ (T ≤ S ∧ B ≤ S)) :
    rangeAux T step (T - S).natAbs S = ((rangeAux B step (n + 1) S).map Int.toNat).map Int.ofNat := by
  rcases h with h | ⟨h1, h2⟩
  · subst h; exact range_code_eq_indices hpos n hS0 hB
  · rw [rangeAux_pos_empty hpos _ h1, rangeAux_pos_empty hpos _ h2]; rfl

/-- the per-row column range of `_get_iis_from_slices` agrees with `slice.indices(len)` on `ColSliceOK` -/
theorem colRange_eq_indices {cs : PySlice} (h : ColSliceOK cs) (len : Nat) :
    ∃ ix, cs.indices len = some ix ∧
      pyRange (cs.start.getD 0) (colStop cs len) (cs.step.getD 1) = ix.map Int.ofNat := by
  obtain ⟨hstep, hstart⟩ := h
  have hpos := step_pos_of hstep
  have hne : ¬ (cs.step.getD 1 = 0) := by omega
  have hlt : ¬ (cs.step.getD 1 < 0) := by omega
  simp only [PySlice.indices, PySlice.adjust, if_neg hne, Option.map_some, pyRange, hlt, if_false, colStop]
  refine ⟨_, rfl, ?_⟩
  cases hs : cs.start with
  | none =>
    cases ht : cs.stop with
    | none =>
      simp only [Option.getD_none]
      repeat' split
      all_goals first
        | exact range_stop_irrel hpos len (by omega) (by omega) (by omega)
        | (rw [rangeAux_pos_empty hpos _ (by omega), rangeAux_pos_empty hpos _ (by omega)]; rfl)
        | omega
    | some w =>
      simp only [Option.getD_none]
      repeat' split
      all_goals first
        | exact range_stop_irrel hpos len (by omega) (by omega) (by omega)
        | (rw [rangeAux_pos_empty hpos _ (by omega), rangeAux_pos_empty hpos _ (by omega)]; rfl)
        | omega
  | some v =>
    have hv := hstart v hs
    cases ht : cs.stop with
    | none =>
      simp only [Option.getD_some]
      repeat' split
      all_goals first
        | exact range_stop_irrel hpos len (by omega) (by omega) (by omega)
        | (rw [rangeAux_pos_empty hpos _ (by omega), rangeAux_pos_empty hpos _ (by omega)]; rfl)
        | omega
    | some w =>
      simp only [Option.getD_some]
      repeat' split
      all_goals first
        | exact range_stop_irrel hpos len (by omega) (by omega) (by omega)
        | (rw [rangeAux_pos_empty hpos _ (by omega), rangeAux_pos_empty hpos _ (by omega)]; rfl)
        | omega

end Ens.Ragged
