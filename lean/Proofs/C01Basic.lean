import Model.Cluster
import Mathlib.Algebra.Order.Field.Rat
import Mathlib.Tactic.Linarith
/-!
C01/C09 helper lemmas, part 1: array reads, the running-minimum invariant of
`assign_to_nearest_center` / `_kcenters_iteration`, the predicates `TableOK` and `Consistent`.
-/
namespace Ens.Cluster

/-! ### reading materialised arrays -/

@[simp] theorem tab_fresh (n : Nat) (fr : Bool) (d : Nat → Rat) (l : Nat → Int) :
    (Arr.tab n fr d l).fresh = fr := rfl

theorem tab_dist {n : Nat} (fr : Bool) (d : Nat → Rat) (l : Nat → Int) {f : Nat} (h : f < n) :
    (Arr.tab n fr d l).dist f = d f := by
  simp [Arr.tab, Arr.dist, Array.getD, h]

theorem tab_assign {n : Nat} (fr : Bool) (d : Nat → Rat) (l : Nat → Int) {f : Nat} (h : f < n) :
    (Arr.tab n fr d l).assign f = l f := by
  simp [Arr.tab, Arr.assign, Array.getD, h]

/-! ### the distance table a property talks about -/

/-- distinct points under a distance: zero exactly on the diagonal, never negative.
(Symmetry and the triangle inequality are *not* needed for C01/C09.) -/
structure TableOK (D : Table) (n : Nat) : Prop where
  self : ∀ i, i < n → D i i = 0
  nonneg : ∀ i j, i < n → j < n → 0 ≤ D i j
  distinct : ∀ i j, i < n → j < n → D i j = 0 → i = j

/-- positions determine entries: the list has no repeated entry -/
def Inj (l : List Nat) : Prop := ∀ (i j c : Nat), l[i]? = some c → l[j]? = some c → i = j

theorem Inj_of_nodup {l : List Nat} (h : l.Nodup) : Inj l := by
  intro i j c hi hj
  have hi' : i < l.length := by
    rcases Nat.lt_or_ge i l.length with h' | h'
    · exact h'
    · rw [List.getElem?_eq_none h'] at hi; cases hi
  exact (List.getElem?_inj hi' h).mp (hi.trans hj.symm)

/-- running-minimum invariant: `a` is what the relax loop has computed after the centers `pre`
(labels = positions in `pre`). -/
structure RunMin (D : Table) (n : Nat) (pre : List Nat) (a : Arr) : Prop where
  fresh_iff : a.fresh = true ↔ pre = []
  lab : pre ≠ [] → ∀ f, f < n → ∃ (k c : Nat), a.assign f = (k : Nat) ∧ pre[k]? = some c ∧ a.dist f = D f c
  best : ∀ f, f < n → ∀ (k c : Nat), pre[k]? = some c → ¬ D f c < a.dist f

theorem RunMin.nil (D : Table) (n : Nat) (d : Nat → Rat) (l : Nat → Int) :
    RunMin D n [] (Arr.tab n true d l) := by
  refine ⟨by simp, fun h => absurd rfl h, ?_⟩
  intro f _ k c h; simp at h

theorem relax_dist {D : Table} {n : Nat} (a : Arr) (lbl : Int) (c : Nat) {f : Nat} (h : f < n) :
    (a.relax D n lbl c).dist f = if a.fresh || decide (D f c < a.dist f) then D f c else a.dist f := by
  unfold Arr.relax; rw [tab_dist _ _ _ h]

theorem relax_assign {D : Table} {n : Nat} (a : Arr) (lbl : Int) (c : Nat) {f : Nat} (h : f < n) :
    (a.relax D n lbl c).assign f = if a.fresh || decide (D f c < a.dist f) then lbl else a.assign f := by
  unfold Arr.relax; rw [tab_assign _ _ _ h]

theorem RunMin.relax {D : Table} {n : Nat} {pre : List Nat} {a : Arr} (h : RunMin D n pre a) (c : Nat) :
    RunMin D n (pre ++ [c]) (a.relax D n (pre.length : Nat) c) := by
  refine ⟨by simp [Arr.relax], ?_, ?_⟩
  · intro _ f hf
    rw [relax_dist a _ c hf, relax_assign a _ c hf]
    by_cases hc : (a.fresh || decide (D f c < a.dist f)) = true
    · simp only [hc, if_true]
      exact ⟨pre.length, c, rfl, by simp, rfl⟩
    · simp only [hc]
      have hfr : a.fresh = false := by
        cases hx : a.fresh <;> simp_all
      have hne : pre ≠ [] := fun e => by
        have := h.fresh_iff.mpr e; simp [hfr] at this
      obtain ⟨k, c', h1, h2, h3⟩ := h.lab hne f hf
      refine ⟨k, c', h1, ?_, h3⟩
      have hk : k < pre.length := by
        rcases Nat.lt_or_ge k pre.length with h' | h'
        · exact h'
        · rw [List.getElem?_eq_none h'] at h2; cases h2
      rw [List.getElem?_append_left hk]; exact h2
  · intro f hf k c' hk
    rw [relax_dist a _ c hf]
    by_cases hc : (a.fresh || decide (D f c < a.dist f)) = true
    · simp only [hc, if_true]
      rcases Nat.lt_or_ge k pre.length with h' | h'
      · rw [List.getElem?_append_left h'] at hk
        have hb := h.best f hf k c' hk
        have hfr : a.fresh = false := by
          cases hx : a.fresh
          · rfl
          · have := h.fresh_iff.mp hx; subst this; simp at h'
        simp [hfr] at hc
        intro hlt; exact hb (lt_trans hlt hc)
      · rw [List.getElem?_append_right h'] at hk
        have : k - pre.length = 0 := by
          rcases Nat.eq_zero_or_pos (k - pre.length) with h0 | h0
          · exact h0
          · rw [List.getElem?_eq_none (by simp; omega)] at hk; cases hk
        rw [this] at hk; simp at hk; subst hk; exact lt_irrefl _
    · simp only [hc]
      have hfr : a.fresh = false := by
        cases hx : a.fresh <;> simp_all
      have hnlt : ¬ D f c < a.dist f := by simpa [hfr] using hc
      rcases Nat.lt_or_ge k pre.length with h' | h'
      · rw [List.getElem?_append_left h'] at hk; exact h.best f hf k c' hk
      · rw [List.getElem?_append_right h'] at hk
        have : k - pre.length = 0 := by
          rcases Nat.eq_zero_or_pos (k - pre.length) with h0 | h0
          · exact h0
          · rw [List.getElem?_eq_none (by simp; omega)] at hk; cases hk
        rw [this] at hk; simp at hk; subst hk; exact hnlt

theorem RunMin.assignLoop {D : Table} {n : Nat} (cs : List Nat) :
    ∀ {pre : List Nat} {a : Arr}, RunMin D n pre a → RunMin D n (pre ++ cs) (assignLoop D n cs pre.length a) := by
  induction cs with
  | nil => intro pre a h; simpa [Cluster.assignLoop] using h
  | cons c cs ih =>
    intro pre a h
    have h1 := h.relax c
    have h2 := ih h1
    simpa [Cluster.assignLoop, List.append_assoc] using h2

/-- `assign_to_nearest_center` (loop branch) computes a nearest-center assignment -/
theorem RunMin.assignNearest (D : Table) (n : Nat) (cs : List Nat) : RunMin D n cs (assignNearest D n cs) := by
  have := RunMin.assignLoop (D := D) (n := n) cs (RunMin.nil D n (fun _ => 0) (fun _ => 0))
  simpa [Cluster.assignNearest, Arr.init0] using this

end Ens.Cluster
