import Proofs.C12Step

/-! Invariants through a sweep, the iteration loop and the whole estimator. -/

set_option linter.unusedSectionVars false

namespace Ens.C12P
open Ens Ens.Mle

variable {K : Type} [Field K] [LinearOrder K] [IsStrictOrderedRing K] {n : Nat}

theorem pairs_lt {n : Nat} {p : Fin n × Fin n} (hp : p ∈ pairs n) : p.1 < p.2 := by
  unfold pairs at hp
  simp only [List.mem_flatMap, List.mem_map, List.mem_filter, List.mem_finRange, true_and,
    decide_eq_true_eq] at hp
  obtain ⟨i, j, hij, rfl⟩ := hp
  exact hij

theorem pairs_ne {n : Nat} {p : Fin n × Fin n} (hp : p ∈ pairs n) : p.1 ≠ p.2 :=
  ne_of_lt (pairs_lt hp)

theorem mem_pairs {n : Nat} {i j : Fin n} (h : i < j) : (i, j) ∈ pairs n := by
  unfold pairs
  simp only [List.mem_flatMap, List.mem_map, List.mem_filter, List.mem_finRange, true_and,
    decide_eq_true_eq]
  exact ⟨i, j, h, rfl⟩

/-! ### generic preservation: any predicate kept by both kinds of step is kept by sweeps -/

section generic
variable {sqrt log : K → K} {C : Mat K n} {Crs : Vec K n} (I : St K n → Prop)

theorem diagFold_gen (hdiag : ∀ st i, I st → I (diagStep C Crs st i))
    (l : List (Fin n)) (p : St K n × K) (h : I p.1) :
    I (l.foldl (fun p i =>
      let st' := diagStep C Crs p.1 i
      (st', diagLogl log C st' i p.2)) p).1 := by
  induction l generalizing p with
  | nil => exact h
  | cons i rest ih =>
    simp only [List.foldl_cons]
    exact ih _ (hdiag _ i h)

theorem pairPhaseOn_gen
    (hpair : ∀ st i j, I st → i ≠ j → ∃ st', pairStep sqrt C Crs st i j = .ok st' ∧ I st')
    (l : List (Fin n × Fin n)) (hl : ∀ p ∈ l, p.1 ≠ p.2)
    (p : St K n × K) (h : I p.1) :
    ∃ q, pairPhaseOn sqrt log C Crs l p = .ok q ∧ I q.1 := by
  induction l generalizing p with
  | nil => exact ⟨p, rfl, h⟩
  | cons ij rest ih =>
    obtain ⟨i, j⟩ := ij
    have hij : i ≠ j := hl (i, j) (List.mem_cons_self)
    obtain ⟨st', hok, hinv⟩ := hpair p.1 i j h hij
    simp only [pairPhaseOn, hok]
    exact ih (fun p hp => hl p (List.mem_cons_of_mem _ hp)) _ hinv

theorem sweep_gen (hdiag : ∀ st i, I st → I (diagStep C Crs st i))
    (hpair : ∀ st i j, I st → i ≠ j → ∃ st', pairStep sqrt C Crs st i j = .ok st' ∧ I st')
    {st : St K n} (h : I st) :
    ∃ q, sweep sqrt log C Crs st = .ok q ∧ I q.1 := by
  unfold sweep
  exact pairPhaseOn_gen I hpair _ (fun p hp => pairs_ne hp) _
    (diagFold_gen (log := log) I hdiag _ (st, 0) h)

theorem sweepsN_gen (hdiag : ∀ st i, I st → I (diagStep C Crs st i))
    (hpair : ∀ st i j, I st → i ≠ j → ∃ st', pairStep sqrt C Crs st i j = .ok st' ∧ I st')
    (k : Nat) {st : St K n} (h : I st) :
    ∃ st', sweepsN sqrt log C Crs k st = .ok st' ∧ I st' := by
  induction k generalizing st with
  | zero => exact ⟨st, rfl, h⟩
  | succ k ih =>
    obtain ⟨q, hq, hinv⟩ := sweep_gen (log := log) I hdiag hpair h
    obtain ⟨st', logl⟩ := q
    simp only [sweepsN, hq]
    exact ih hinv

theorem loop_gen (tol : K) (hdiag : ∀ st i, I st → I (diagStep C Crs st i))
    (hpair : ∀ st i j, I st → i ≠ j → ∃ st', pairStep sqrt C Crs st i j = .ok st' ∧ I st')
    (fuel k : Nat) (st : St K n) (old : K) (h : I st) :
    ∃ st' k', loop sqrt log tol C Crs fuel k st old = .ok (st', k') ∧ I st' ∧
      k ≤ k' ∧ k' + 1 ≤ k + max fuel 1 := by
  induction fuel generalizing k st old with
  | zero => exact ⟨st, k, rfl, h, le_refl _, by simp⟩
  | succ fuel ih =>
    obtain ⟨q, hq, hinv⟩ := sweep_gen (log := log) I hdiag hpair h
    obtain ⟨st', logl⟩ := q
    simp only [loop, hq]
    by_cases hc : tol < absV (logl - old)
    · simp only [hc, if_true]
      by_cases hf : fuel = 0
      · subst hf
        exact ⟨st', k, by simp, hinv, le_refl _, by simp⟩
      · simp only [hf, if_false]
        obtain ⟨st'', k', h1, h2, h3, h4⟩ := ih (k + 1) st' logl hinv
        refine ⟨st'', k', h1, h2, by omega, ?_⟩
        have : max fuel 1 = fuel := by omega
        have : max (fuel + 1) 1 = fuel + 1 := by omega
        omega
    · simp only [hc, if_false]
      exact ⟨st', k, rfl, hinv, le_refl _, by omega⟩

end generic

/-! ### instances for the symmetric / non-negative / row-sum invariant -/

theorem inv_pair {sqrt : K → K} (hs : SqrtSpec sqrt) {C : Mat K n} {Crs : Vec K n}
    (hD : Data C Crs) (st : St K n) (i j : Fin n) (h : Inv st) (hij : i ≠ j) :
    ∃ st', pairStep sqrt C Crs st i j = .ok st' ∧ Inv st' :=
  ⟨_, pairStep_ok hD h i j, pairStep_inv hs hD h hij (pairStep_ok hD h i j)⟩

/-- `sweep_invariants`, one sweep: no assertion fires and the invariant is kept -/
theorem sweep_inv {sqrt log : K → K} (hs : SqrtSpec sqrt) {C : Mat K n} {Crs : Vec K n}
    (hD : Data C Crs) {st : St K n} (h : Inv st) :
    ∃ q, sweep sqrt log C Crs st = .ok q ∧ Inv q.1 :=
  sweep_gen Inv (fun _ i h => diagStep_inv hD h i) (inv_pair hs hD) h

theorem sweepsN_inv {sqrt log : K → K} (hs : SqrtSpec sqrt) {C : Mat K n} {Crs : Vec K n}
    (hD : Data C Crs) (k : Nat) {st : St K n} (h : Inv st) :
    ∃ st', sweepsN sqrt log C Crs k st = .ok st' ∧ Inv st' :=
  sweepsN_gen Inv (fun _ i h => diagStep_inv hD h i) (inv_pair hs hD) k h

theorem loop_inv {sqrt log : K → K} (hs : SqrtSpec sqrt) (tol : K) {C : Mat K n} {Crs : Vec K n}
    (hD : Data C Crs) (fuel k : Nat) (st : St K n) (old : K) (h : Inv st) :
    ∃ st' k', loop sqrt log tol C Crs fuel k st old = .ok (st', k') ∧ Inv st' ∧
      k ≤ k' ∧ k' + 1 ≤ k + max fuel 1 :=
  loop_gen Inv tol (fun _ i h => diagStep_inv hD h i) (inv_pair hs hD) fuel k st old h

/-- the initial state satisfies the invariant -/
theorem init_inv {C : Mat K n} (hC : ∀ i j, 0 ≤ mget C i j) {Crs : Vec K n} {st0 : St K n}
    (h : init C = .ok (Crs, st0)) :
    Data C Crs ∧ Inv st0 ∧ (∀ i, 0 < vget st0.rs i) ∧ (∀ i, 0 < vget Crs i) := by
  unfold init at h
  dsimp only at h
  split at h
  · rename_i hcond
    injection h with h
    injection h with h1 h2
    subst h1; subst h2
    simp only [Bool.and_eq_true, List.all_eq_true, List.mem_finRange, decide_eq_true_eq,
      true_imp_iff] at hcond
    refine ⟨⟨hC, ?_⟩, ⟨?_, ?_, ?_⟩, hcond.1, hcond.2⟩
    · intro i; rw [vget_ofFn, rowSumF_eq]
    · intro i j; simp only [mget_ofFn]; exact add_comm _ _
    · intro i j; simp only [mget_ofFn]; exact add_nonneg (hC i j) (hC j i)
    · intro i; rw [vget_ofFn, rowSumF_eq]
  · cases h

/-- `init` succeeds exactly when all row sums of `C + Cᵀ` and of `C` are positive -/
theorem init_ok {C : Mat K n}
    (h1 : ∀ i, 0 < ∑ j, (mget C i j + mget C j i)) (h2 : ∀ i, 0 < ∑ j, mget C i j) :
    ∃ Crs st0, init C = .ok (Crs, st0) := by
  unfold init
  dsimp only
  have hc : ((List.finRange n).all (fun i => decide (0 < vget (Vector.ofFn fun i =>
        rowSumF (Vector.ofFn fun i => Vector.ofFn fun j => mget C i j + mget C j i : Mat K n) i : Vec K n) i))
      && (List.finRange n).all (fun i => decide (0 < vget (Vector.ofFn fun i => rowSumF C i : Vec K n) i)))
      = true := by
    simp only [Bool.and_eq_true, List.all_eq_true, List.mem_finRange, decide_eq_true_eq,
      true_imp_iff, vget_ofFn, rowSumF_eq, mget_ofFn]
    exact ⟨h1, h2⟩
  simp only [hc, if_true]
  exact ⟨_, _, rfl⟩

end Ens.C12P
