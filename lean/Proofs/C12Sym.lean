import Proofs.C12Final
import Mathlib.Analysis.Real.Sqrt
import Mathlib.Tactic.FinCases
import Mathlib.Tactic.NormNum

/-! States that a sweep leaves unchanged from the very start: the loop returns them, whatever the
convergence test does.  Two uses: (i) a one-state chain `C = [[c]]` (outside `Conn`), (ii) a
symmetric count matrix, for which `init` is already a fixed point (non-vacuity of
`optimal_output`). -/

set_option linter.unusedSectionVars false

namespace Ens.C12P
open Ens Ens.Mle

variable {K : Type} [Field K] [LinearOrder K] [IsStrictOrderedRing K] {n : Nat}

/-- a state that one sweep maps to itself is what the loop returns -/
theorem loop_of_fixed {sqrt log : K → K} (tol : K) {C : Mat K n} {Crs : Vec K n} {st : St K n}
    (hfix : ∃ l, sweep sqrt log C Crs st = .ok (st, l)) (fuel k : Nat) (old : K) :
    ∃ k', loop sqrt log tol C Crs fuel k st old = .ok (st, k') ∧ k ≤ k' ∧
      k' + 1 ≤ k + max fuel 1 := by
  obtain ⟨l, hl⟩ := hfix
  induction fuel generalizing k old with
  | zero => exact ⟨k, rfl, le_refl _, by simp⟩
  | succ fuel ih =>
    simp only [loop, hl]
    by_cases hc : tol < absV (l - old)
    · simp only [hc, if_true]
      by_cases hf : fuel = 0
      · subst hf; exact ⟨k, by simp, le_refl _, by simp⟩
      · simp only [hf, if_false]
        obtain ⟨k', h1, h2, h3⟩ := ih (k + 1) l
        refine ⟨k', h1, by omega, ?_⟩
        have : max fuel 1 = fuel := by omega
        have : max (fuel + 1) 1 = fuel + 1 := by omega
        omega
    · simp only [hc, if_false]
      exact ⟨k, rfl, le_refl _, by omega⟩

/-- if the initial state is a fixed point of the sweep, `run` is `finish` on the initial state -/
theorem run_of_fixed_init {P : Params K} (hmax : 0 < P.maxIter) {C : Mat K n} {Crs : Vec K n}
    {st0 : St K n} (hinit : init C = .ok (Crs, st0))
    (hfix : ∃ l, sweep P.sqrt P.log C Crs st0 = .ok (st0, l)) :
    ∃ k, k + 1 ≤ P.maxIter ∧ run P C = finish P st0 k := by
  obtain ⟨k, hk, _, hk2⟩ := loop_of_fixed P.tol hfix P.maxIter 0 0
  refine ⟨k, ?_, ?_⟩
  · have : max P.maxIter 1 = P.maxIter := by omega
    omega
  · unfold run
    simp only [hinit, Nat.ne_of_gt hmax, if_false, hk]

/-- what `init` puts into the state -/
theorem init_entries {C : Mat K n} {Crs : Vec K n} {st0 : St K n}
    (h : init C = .ok (Crs, st0)) :
    (∀ i j, mget st0.X i j = mget C i j + mget C j i) ∧
    (∀ i, vget st0.rs i = ∑ j, (mget C i j + mget C j i)) ∧
    (∀ i, vget Crs i = ∑ j, mget C i j) := by
  unfold init at h
  dsimp only at h
  split at h
  · injection h with h
    injection h with h1 h2
    subst h1; subst h2
    refine ⟨fun i j => by simp only [mget_ofFn], fun i => ?_, fun i => ?_⟩
    · rw [vget_ofFn, rowSumF_eq]; simp only [mget_ofFn]
    · rw [vget_ofFn, rowSumF_eq]
  · cases h

/-! ### one state -/

/-- on a one-state chain every sweep is the identity -/
theorem sweep_one_state {sqrt log : K → K} {C : Mat K 1} {Crs : Vec K 1} (hD : Data C Crs)
    (st : St K 1) : ∃ l, sweep sqrt log C Crs st = .ok (st, l) := by
  have hden : ¬ (0 < vget Crs 0 - mget C 0 0) := by
    rw [hD.crs 0, Fin.sum_univ_one, sub_self]; exact lt_irrefl 0
  obtain ⟨q, h1, h2⟩ := sweep_gen (sqrt := sqrt) (log := log) (C := C) (Crs := Crs)
    (fun s => s = st)
    (fun s i h => by
      subst h
      apply diagStep_eq_self
      have hi : i = 0 := Subsingleton.elim _ _
      subst hi
      unfold diagStep
      simp only [hden, if_false])
    (fun s i j _ hij => absurd (Subsingleton.elim i j) hij)
    (st := st) rfl
  obtain ⟨s', l⟩ := q
  simp only at h2
  subst h2
  exact ⟨l, h1⟩

/-- **One state** (`C = [[c]]`, `c > 0`; outside `Conn`): the estimator returns `T = [[1]]`,
`π = [1]` (or, with the swapped `warnings.warn` call and `max_iter = 1`, the `TypeError`). -/
theorem run_one_state {P : Params K} (hP : ParamsOK P) (hmax : 0 < P.maxIter)
    (hw : P.warnSwapped = false) {C : Mat K 1} (hc : 0 < mget C 0 0) :
    ∃ r, run P C = .ok r ∧ mget r.T 0 0 = 1 ∧ vget r.pi 0 = 1 := by
  have hC : ∀ i j : Fin 1, 0 ≤ mget C i j := by
    intro i j
    rw [Subsingleton.elim i 0, Subsingleton.elim j 0]; exact le_of_lt hc
  obtain ⟨Crs, st0, hinit⟩ := init_ok (C := C)
    (by intro i; rw [Fin.sum_univ_one, Subsingleton.elim i 0]; exact add_pos hc hc)
    (by intro i; rw [Fin.sum_univ_one, Subsingleton.elim i 0]; exact hc)
  obtain ⟨hD, hinv, hrs, _⟩ := init_inv hC hinit
  obtain ⟨k, _, hrun⟩ := run_of_fixed_init hmax hinit (sweep_one_state hD st0)
  rcases finish_spec hP (by decide : 0 < 1) hinv hrs k with ⟨_, hw', _⟩ | ⟨_, r, hr, hv⟩
  · rw [hw] at hw'; cases hw'
  · refine ⟨r, by rw [hrun]; exact hr, ?_, ?_⟩
    · rw [hv.T, hinv.rs 0, Fin.sum_univ_one]
      have : 0 < mget st0.X 0 0 := by
        have := hrs 0
        rwa [hinv.rs 0, Fin.sum_univ_one] at this
      exact div_self (ne_of_gt this)
    · rw [hv.pi, Fin.sum_univ_one]
      exact div_self (ne_of_gt (hrs 0))

/-! ### a symmetric count matrix: `init` is already the fixed point -/

/-- the all-ones 2×2 count matrix (symmetric) -/
def sym2 : Mat ℝ 2 := Vector.ofFn fun _ => Vector.ofFn fun _ => 1

theorem sym2_get (i j : Fin 2) : mget sym2 i j = 1 := by simp [sym2, mget_ofFn]

theorem sqrt_64 : Real.sqrt 64 = 8 := by
  rw [show (64 : ℝ) = 8 ^ 2 by norm_num]
  exact Real.sqrt_sq (by norm_num)

/-- from the initial state of `sym2` a sweep changes nothing -/
theorem sym2_fixed (log : ℝ → ℝ) {Crs : Vec ℝ 2} {st0 : St ℝ 2}
    (hinit : init sym2 = .ok (Crs, st0)) :
    ∃ l, sweep Real.sqrt log sym2 Crs st0 = .ok (st0, l) := by
  obtain ⟨hX, hrs, hcrs⟩ := init_entries hinit
  obtain ⟨hD, hinv, _, _⟩ := init_inv (fun i j => by rw [sym2_get]; norm_num) hinit
  have eX : ∀ i j, mget st0.X i j = 2 := fun i j => by rw [hX, sym2_get, sym2_get]; norm_num
  have ers : ∀ i, vget st0.rs i = 4 := fun i => by
    rw [hrs, Fin.sum_univ_two]; simp only [sym2_get]; norm_num
  have ecrs : ∀ i, vget Crs i = 2 := fun i => by
    rw [hcrs, Fin.sum_univ_two]; simp only [sym2_get]; norm_num
  obtain ⟨q, h1, h2⟩ := sweep_gen (sqrt := Real.sqrt) (log := log) (C := sym2) (Crs := Crs)
    (fun s => s = st0)
    (fun s i h => by
      subst h
      apply diagStep_eq_self
      unfold diagStep
      simp only [ecrs, ers, eX, sym2_get]
      norm_num [mget_mset])
    (fun s i j h hij => by
      subst h
      refine ⟨s, pairStep_eq_self hD hinv hij ?_, rfl⟩
      unfold newV coefA coefB coefC
      simp only [ecrs, ers, eX, sym2_get]
      norm_num
      rw [sqrt_64]; norm_num)
    (st := st0) rfl
  obtain ⟨s', l⟩ := q
  simp only at h2
  subst h2
  exact ⟨l, h1⟩

end Ens.C12P
