import Mathlib.Algebra.BigOperators.Ring.Finset
import Mathlib.Algebra.Order.BigOperators.Group.Finset
import Mathlib.Algebra.Order.Field.Rat
import Mathlib.Tactic.Linarith
import Mathlib.Tactic.Ring
import Mathlib.Tactic.FieldSimp
import Mathlib.Tactic.LinearCombination
import Model.Tpt
/-!
Bridges for the TPT proofs (C07/C08): `sumTo` ↔ `Finset.sum`, soundness of the certified
solver (from its residual check only), row shapes of `ImQ`, the column-pick sum.
-/
open Finset

namespace Ens

theorem sumTo_eq_sum (n : Nat) (f : Nat → Rat) : sumTo n f = ∑ i ∈ range n, f i := by
  induction n with
  | zero => simp [sumTo]
  | succ k ih => rw [sum_range_succ, ← ih]; rfl

namespace LinSolveT

theorem isSolution_iff (n m : Nat) (A X B : Nat → Nat → Rat) :
    IsSolution n m A X B ↔
      ∀ i, i < n → ∀ k, k < m → ∑ j ∈ range n, A i j * X j k = B i k := by
  unfold IsSolution
  simp only [sumTo_eq_sum]

theorem residualOk_iff (n m : Nat) (A X B : Nat → Nat → Rat) :
    residualOk n m A X B = true ↔ IsSolution n m A X B := by
  unfold residualOk IsSolution
  simp only [List.all_eq_true, List.mem_range, decide_eq_true_eq]

/-- The certified solver is sound, whatever the elimination did. -/
theorem solve_sound {n m : Nat} {A B X : Nat → Nat → Rat} (h : solve n m A B = some X) :
    IsSolution n m A X B := by
  unfold solve at h
  split at h
  · exact absurd h (by simp)
  · split at h
    · rename_i X' _ hres
      have : X' = X := by simpa using h
      subst this
      exact (residualOk_iff n m A X' B).1 hres
    · exact absurd h (by simp)

end LinSolveT

namespace Tpt
open LinSolveT

theorem ImQ_abs_row (T : Mat) (S : List Nat) {i : Nat} (hi : i ∈ S) (j : Nat) :
    ImQ T S i j = if i = j then 1 else 0 := by
  unfold ImQ oneDiag zeroRows
  by_cases hij : i = j
  · subst hij; simp [hi]
  · simp [hij, hi]

theorem ImQ_free_row (T : Mat) (S : List Nat) {i : Nat} (hi : i ∉ S) (j : Nat) :
    ImQ T S i j = if j ∈ S then 0 else (if i = j then 1 else 0) - T i j := by
  unfold ImQ oneDiag zeroRows zeroCols eyeMinus
  simp [hi]

/-- absorbing rows of `(I−Q) X = B` read `X i k = B i k` -/
theorem sol_abs_row {n m : Nat} {T : Mat} {S : List Nat} {X B : Mat}
    (h : IsSolution n m (ImQ T S) X B) {i k : Nat} (hi : i < n) (hS : i ∈ S) (hk : k < m) :
    X i k = B i k := by
  have := (isSolution_iff _ _ _ _ _).1 h i hi k hk
  rw [← this]
  simp only [ImQ_abs_row T S hS, ite_mul, one_mul, zero_mul]
  rw [sum_ite_eq]
  simp [hi]

/-- non-absorbing rows of `(I−Q) X = B` read `X i k − Σ_{j ∉ S} T i j X j k = B i k` -/
theorem sol_free_row {n m : Nat} {T : Mat} {S : List Nat} {X B : Mat}
    (h : IsSolution n m (ImQ T S) X B) {i k : Nat} (hi : i < n) (hS : i ∉ S) (hk : k < m) :
    X i k - ∑ j ∈ range n, (if j ∈ S then 0 else T i j * X j k) = B i k := by
  have := (isSolution_iff _ _ _ _ _).1 h i hi k hk
  rw [← this]
  simp only [ImQ_free_row T S hS]
  have e : ∀ j ∈ range n, (if j ∈ S then (0 : Rat) else (if i = j then 1 else 0) - T i j) * X j k
      = (if i = j then X j k else 0) - (if j ∈ S then 0 else T i j * X j k) := by
    intro j _
    by_cases hj : j ∈ S
    · have : i ≠ j := fun e => hS (e ▸ hj)
      simp [hj, this]
    · by_cases hij : i = j <;> simp [hj, hij, sub_mul]
  rw [sum_congr rfl e, sum_sub_distrib, sum_ite_eq]
  simp [hi]

/-- `Σ_k g (l[k]) = Σ_{j<n} [j ∈ l] g j` for a duplicate-free list of indices below `n`. -/
theorem sum_pick (n : Nat) (g : Nat → Rat) :
    ∀ (l : List Nat), l.Nodup → (∀ s ∈ l, s < n) →
      ∑ k ∈ range l.length, g (l.getD k 0) = ∑ j ∈ range n, (if j ∈ l then g j else 0)
  | [], _, _ => by simp
  | a :: l, hnd, hlt => by
    have hnd' := List.nodup_cons.1 hnd
    have ih := sum_pick n g l hnd'.2 (fun s hs => hlt s (List.mem_cons_of_mem _ hs))
    rw [List.length_cons, sum_range_succ']
    simp only [List.getD_cons_succ, List.getD_cons_zero]
    rw [ih]
    have e : ∀ j ∈ range n, (if j ∈ a :: l then g j else 0)
        = (if j ∈ l then g j else 0) + (if a = j then g j else 0) := by
      intro j _
      by_cases hja : a = j
      · subst hja; simp [hnd'.1]
      · have : j ≠ a := fun e => hja e.symm
        simp [hja, this]
    rw [sum_congr rfl e, sum_add_distrib, sum_ite_eq]
    simp [hlt a List.mem_cons_self]

end Tpt
end Ens
