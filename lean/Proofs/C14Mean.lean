import Model.Mpi
import Mathlib.Algebra.Order.Ring.Rat
import Mathlib.Algebra.BigOperators.Group.List.Basic
/-! `striped_array_mean` equals the mean of the whole array. -/
namespace Ens.Mpi

theorem sumTo_eq_sum_map {β : Type} [AddMonoid β] (w : Nat) (f : Nat → β) :
    Ens.sumTo w f = ((List.range w).map f).sum := by
  induction w with
  | zero => rfl
  | succ k ih =>
    show Ens.sumTo k f + f k = _
    rw [ih, List.range_succ, List.map_append, List.sum_append]
    simp

theorem sum_flatMap_rat (l : List Nat) (f : Nat → List Rat) :
    (l.flatMap f).sum = (l.map fun r => (f r).sum).sum := by
  induction l with
  | nil => rfl
  | cons a l ih => simp [List.flatMap_cons, List.sum_append, ih]

theorem length_flatMap_nat {γ : Type} (l : List Nat) (f : Nat → List γ) :
    (l.flatMap f).length = (l.map fun r => (f r).length).sum := by
  induction l with
  | nil => rfl
  | cons a l ih => simp [List.flatMap_cons, ih]

/-- the striped mean is the mean of the whole array, in whatever order it is concatenated -/
theorem stripedMean_eq (w : Nat) (hw : 0 < w) (locals : Nat → List Rat) (xs : List Rat)
    (hp : xs.Perm ((List.range w).flatMap locals)) (hne : xs ≠ []) :
    stripedMean w locals = .ok (xs.sum / (xs.length : Rat)) := by
  have hsum : xs.sum = ((List.range w).map fun r => (locals r).sum).sum := by
    rw [hp.sum_eq, sum_flatMap_rat]
  have hlen : xs.length = ((List.range w).map fun r => (locals r).length).sum := by
    rw [hp.length_eq, length_flatMap_nat]
  have hpos : 0 < xs.length := List.length_pos_iff.mpr hne
  unfold stripedMean
  by_cases h1 : w = 1
  · subst h1
    simp only [if_true]
    have e1 : ((List.range 1).map fun r => (locals r).sum).sum = (locals 0).sum := by simp
    have e2 : ((List.range 1).map fun r => (locals r).length).sum = (locals 0).length := by simp
    rw [e1] at hsum
    rw [e2] at hlen
    have : (locals 0).length ≠ 0 := by omega
    simp only [this, if_false]
    rw [hsum, hlen]
  · simp only [h1, if_false]
    rw [sumTo_eq_sum_map, sumTo_eq_sum_map, ← hsum, ← hlen]
    have : xs.length ≠ 0 := by omega
    simp only [this, if_false]

/-- an empty striped array has no mean (`nan`) -/
theorem stripedMean_empty (w : Nat) (hw : 0 < w) (locals : Nat → List Rat)
    (he : ∀ r, r < w → locals r = []) : stripedMean w locals = .error .nan := by
  unfold stripedMean
  by_cases h1 : w = 1
  · subst h1; simp [he 0 hw]
  · simp only [h1, if_false]
    have : (Ens.sumTo w fun r => (locals r).length) = 0 := by
      rw [sumTo_eq_sum_map]
      apply List.sum_eq_zero
      intro x hx
      obtain ⟨r, hr, rfl⟩ := List.mem_map.mp hx
      rw [he r (List.mem_range.mp hr)]; rfl
    simp [this]

end Ens.Mpi
