import Proofs.C10Assign
/-! Lemmas for C10: `np.unique`, the per-label argmin of `find_cluster_centers`. -/
namespace Ens.Assign

theorem mem_insertUniq (x y : Int) (l : List Int) : y ∈ insertUniq x l ↔ y = x ∨ y ∈ l := by
  induction l with
  | nil => simp [insertUniq]
  | cons a as ih =>
    simp only [insertUniq]
    split
    · simp
    · split
      · rename_i h; subst h; simp
      · simp [ih]; grind

theorem pairwise_insertUniq (x : Int) (l : List Int) (h : l.Pairwise (· < ·)) :
    (insertUniq x l).Pairwise (· < ·) := by
  induction l with
  | nil => simp [insertUniq]
  | cons a as ih =>
    simp only [insertUniq]
    rw [List.pairwise_cons] at h
    split
    · rename_i hlt
      rw [List.pairwise_cons]
      refine ⟨?_, List.pairwise_cons.2 h⟩
      intro z hz
      rcases List.mem_cons.1 hz with hz | hz
      · omega
      · have := h.1 z hz; omega
    · split
      · exact List.pairwise_cons.2 h
      · rename_i hnl hne
        rw [List.pairwise_cons]
        refine ⟨?_, ih h.2⟩
        intro z hz
        rcases (mem_insertUniq x z as).1 hz with hz | hz
        · omega
        · exact h.1 z hz

theorem mem_uniqueSorted (l : List Int) (y : Int) : y ∈ uniqueSorted l ↔ y ∈ l := by
  induction l with
  | nil => simp [uniqueSorted]
  | cons a as ih =>
    have : uniqueSorted (a :: as) = insertUniq a (uniqueSorted as) := rfl
    rw [this, mem_insertUniq, ih]; simp

theorem pairwise_uniqueSorted (l : List Int) : (uniqueSorted l).Pairwise (· < ·) := by
  induction l with
  | nil => simp [uniqueSorted]
  | cons a as ih =>
    have : uniqueSorted (a :: as) = insertUniq a (uniqueSorted as) := rfl
    rw [this]; exact pairwise_insertUniq a _ ih

theorem mem_tabulate {α} (n : Nat) (g : Nat → α) (y : α) : y ∈ tabulate n g ↔ ∃ f, f < n ∧ g f = y := by
  simp [tabulate]

/-- `m` is the first frame among `0 … n-1` satisfying `p` whose distance is minimal among them -/
def IsFirstMinWhere (p : Nat → Bool) (d : Nat → ERat) (n m : Nat) : Prop :=
  m < n ∧ p m = true ∧ (∀ f, f < n → p f = true → ERat.le (d m) (d f) = true) ∧
    (∀ f, f < m → p f = true → ERat.lt (d m) (d f) = true)

theorem argminWhere_spec (p : Nat → Bool) (d : Nat → ERat) (n : Nat) :
    match argminWhere p d n with
    | none => ∀ f, f < n → p f = false
    | some m => IsFirstMinWhere p d n m := by
  induction n with
  | zero => simp [argminWhere]
  | succ n ih =>
    simp only [argminWhere]
    cases hr : argminWhere p d n with
    | none =>
      rw [hr] at ih
      simp only
      by_cases hp : p n = true
      · simp only [hp, if_true]
        refine ⟨by omega, hp, ?_, ?_⟩
        · intro f hf hpf
          by_cases hfn : f = n
          · subst hfn; exact ERat.le_refl _
          · have := ih f (by omega); simp [this] at hpf
        · intro f hf hpf
          have := ih f hf; simp [this] at hpf
      · simp only [hp]
        intro f hf
        by_cases hfn : f = n
        · subst hfn; simpa using hp
        · exact ih f (by omega)
    | some b =>
      rw [hr] at ih
      obtain ⟨hb, hpb, hmin, hfirst⟩ := ih
      simp only
      by_cases hc : (p n && ERat.lt (d n) (d b)) = true
      · simp only [hc, if_true]
        simp only [Bool.and_eq_true] at hc
        refine ⟨by omega, hc.1, ?_, ?_⟩
        · intro f hf hpf
          by_cases hfn : f = n
          · subst hfn; exact ERat.le_refl _
          · exact ERat.le_of_lt (ERat.lt_of_lt_of_le hc.2 (hmin f (by omega) hpf))
        · intro f hf hpf
          exact ERat.lt_of_lt_of_le hc.2 (hmin f hf hpf)
      · simp only [hc]
        refine ⟨by omega, hpb, ?_, hfirst⟩
        intro f hf hpf
        by_cases hfn : f = n
        · subst hfn
          simp only [Bool.and_eq_true, not_and, Bool.not_eq_true] at hc
          have := hc hpf
          simp [ERat.le, this]
        · exact hmin f (by omega) hpf

theorem IsFirstMinWhere.unique {p : Nat → Bool} {d : Nat → ERat} {n m m' : Nat}
    (h : IsFirstMinWhere p d n m) (h' : IsFirstMinWhere p d n m') : m = m' := by
  obtain ⟨hm, hp, hmin, hfirst⟩ := h
  obtain ⟨hm', hp', hmin', hfirst'⟩ := h'
  rcases Nat.lt_trichotomy m m' with hlt | heq | hgt
  · have h1 := hfirst' m hlt hp
    have h2 := hmin m' hm' hp'
    simp [ERat.le, h1] at h2
  · exact heq
  · have h1 := hfirst m' hgt hp'
    have h2 := hmin' m hm hp
    simp [ERat.le, h1] at h2

/-- the loop over labels succeeds when every label occurs, and each entry is the first
minimal-distance member of its label -/
theorem centersFor_spec (n : Nat) (a : Nat → Int) (d : Nat → ERat) (cs : List Int)
    (h : ∀ c ∈ cs, ∃ f, f < n ∧ a f = c) :
    ∃ ms, centersFor n a d cs = .ok ms ∧ ms.length = cs.length ∧
      ∀ (i : Nat) (c : Int), cs[i]? = some c → ∃ m, ms[i]? = some m ∧ IsFirstMinWhere (fun f => a f == c) d n m := by
  induction cs with
  | nil => exact ⟨[], rfl, rfl, by simp⟩
  | cons c cs ih =>
    obtain ⟨ms, hms, hlen, hspec⟩ := ih (fun c' hc' => h c' (by simp [hc']))
    have hs := argminWhere_spec (fun f => a f == c) d n
    cases hr : argminWhere (fun f => a f == c) d n with
    | none =>
      rw [hr] at hs
      obtain ⟨f, hf, hfa⟩ := h c (by simp)
      have := hs f hf
      simp [hfa] at this
    | some m =>
      rw [hr] at hs
      refine ⟨m :: ms, by simp [centersFor, hr, hms], by simp [hlen], ?_⟩
      intro i c' hi
      cases i with
      | zero => simp at hi; subst hi; exact ⟨m, by simp, hs⟩
      | succ i => simpa using hspec i c' (by simpa using hi)

end Ens.Assign
