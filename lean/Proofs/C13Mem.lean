import Model.Dist
import Mathlib.Tactic.Linarith
import Mathlib.Tactic.Ring
/-! Strided memory: extents, in-bounds reads, C / Fortran layouts and basic-slicing views. -/
namespace Ens.Dist

/-! ### `allSome` -/

theorem allSome_eq_some_iff {α} (l : List (Option α)) (r : List α) :
    allSome l = some r ↔ l = r.map some := by
  induction l generalizing r with
  | nil => cases r <;> simp [allSome]
  | cons o os ih =>
    cases o with
    | none => cases r <;> simp [allSome]
    | some a =>
      cases r with
      | nil => simp [allSome]
      | cons b bs =>
        simp only [allSome, Option.map_eq_some_iff, List.map_cons, List.cons.injEq, Option.some.injEq]
        constructor
        · rintro ⟨t, ht, rfl, rfl⟩; exact ⟨rfl, (ih t).mp ht⟩
        · rintro ⟨rfl, h⟩; exact ⟨bs, (ih bs).mpr h, rfl, rfl⟩

theorem allSome_map_some {α} (r : List α) : allSome (r.map some) = some r :=
  (allSome_eq_some_iff _ _).mpr rfl

/-- if every read succeeds, the gathered list exists and lists the reads in order -/
theorem allSome_range {α} (n : Nat) (f : Nat → Option α) (h : ∀ k, k < n → (f k).isSome) :
    ∃ r, allSome ((List.range n).map f) = some r ∧ r.length = n ∧ ∀ k, k < n → r[k]? = f k := by
  refine ⟨(List.range n).filterMap f, ?_, ?_, ?_⟩
  · rw [allSome_eq_some_iff]
    induction n with
    | zero => simp
    | succ m ih =>
      have hm := ih (fun k hk => h k (by omega))
      rw [List.range_succ, List.map_append, List.filterMap_append, List.map_append, hm]
      obtain ⟨v, hv⟩ := Option.isSome_iff_exists.mp (h m (by omega))
      simp [hv]
  · induction n with
    | zero => simp
    | succ m ih =>
      have hm := ih (fun k hk => h k (by omega))
      obtain ⟨v, hv⟩ := Option.isSome_iff_exists.mp (h m (by omega))
      rw [List.range_succ, List.filterMap_append, List.length_append, hm]
      simp [hv]
  · induction n with
    | zero => intro k hk; omega
    | succ m ih =>
      have hm := ih (fun k hk => h k (by omega))
      have hlen : ((List.range m).filterMap f).length = m := by
        clear hm ih
        induction m with
        | zero => simp
        | succ p ihp =>
          obtain ⟨v, hv⟩ := Option.isSome_iff_exists.mp (h p (by omega))
          rw [List.range_succ, List.filterMap_append, List.length_append, ihp (fun k hk => h k (by omega))]
          simp [hv]
      intro k hk
      obtain ⟨v, hv⟩ := Option.isSome_iff_exists.mp (h m (by omega))
      rw [List.range_succ, List.filterMap_append]
      by_cases hkm : k < m
      · rw [List.getElem?_append_left (by omega)]; exact hm k hkm
      · have : k = m := by omega
        subst this
        rw [List.getElem?_append_right (by omega)]
        simp [hlen, hv]

/-- a gathered list, when it exists, lists the reads in order -/
theorem allSome_range_get {α} (n : Nat) (f : Nat → Option α) (r : List α)
    (h : allSome ((List.range n).map f) = some r) : r.length = n ∧ ∀ k, k < n → f k = r[k]? := by
  rw [allSome_eq_some_iff] at h
  have hl : r.length = n := by
    have := congrArg List.length h
    simpa using this.symm
  refine ⟨hl, fun k hk => ?_⟩
  have := congrArg (fun l => l[k]?) h
  simp only [List.getElem?_map, List.getElem?_range hk, Option.map_some] at this
  cases hr : r[k]? with
  | none => simp [hr] at this
  | some v => simpa [hr] using this

/-! ### extents -/

theorem mul_stride_bounds (i n : Nat) (s : Int) (h : i < n) :
    (if s < 0 then ((n : Int) - 1) * s else 0) ≤ (i : Int) * s ∧
    (i : Int) * s ≤ (if s < 0 then 0 else ((n : Int) - 1) * s) := by
  have hi : (i : Int) ≤ (n : Int) - 1 := by omega
  have h0 : (0 : Int) ≤ i := by omega
  by_cases hs : s < 0
  · simp only [hs, if_true]
    constructor
    · nlinarith
    · nlinarith
  · simp only [hs, if_false]
    have : 0 ≤ s := not_lt.mp hs
    constructor
    · nlinarith
    · nlinarith

/-- in bounds of the flat buffer -/
def Arr.InBuf {ε} (a : Arr ε) (k : Int) : Prop := 0 ≤ k ∧ k < (a.buf.size : Int)

theorem at?_of_inBuf {ε} (a : Arr ε) (k : Int) (h : a.InBuf k) :
    ∃ v, a.at? k = some v := by
  obtain ⟨h0, h1⟩ := h
  have : k.toNat < a.buf.size := by omega
  exact ⟨a.buf[k.toNat], by simp [Arr.at?, h0, this]⟩

theorem inBuf_of_at? {ε} (a : Arr ε) (k : Int) (v : ε) (h : a.at? k = some v) : a.InBuf k := by
  unfold Arr.at? at h
  by_cases h0 : 0 ≤ k
  · simp only [h0, if_true] at h
    have := (Array.getElem?_eq_some_iff.mp h).1
    exact ⟨h0, by omega⟩
  · simp [h0] at h

/-- numpy's invariant gives in-bounds indices for every logical 2-D position -/
theorem extent2_inBuf {ε} (a : Arr ε) (n w : Nat) (s0 s1 : Int)
    (hs : a.shape = [n, w]) (hst : a.strides = [s0, s1]) (hok : a.extentOk = true)
    (i j : Nat) (hi : i < n) (hj : j < w) : a.InBuf (idx2 a.offset s0 s1 i j) := by
  have hn : n ≠ 0 := by omega
  have hw : w ≠ 0 := by omega
  simp [Arr.extentOk, hs, hst, extentLo, extentHi, hn, hw] at hok
  obtain ⟨hlo, hhi⟩ := hok
  have b0 := mul_stride_bounds i n s0 hi
  have b1 := mul_stride_bounds j w s1 hj
  unfold Arr.InBuf idx2
  constructor <;> omega

theorem extent1_inBuf {ε} (a : Arr ε) (w : Nat) (s0 : Int)
    (hs : a.shape = [w]) (hst : a.strides = [s0]) (hok : a.extentOk = true)
    (j : Nat) (hj : j < w) : a.InBuf (idx1 a.offset s0 j) := by
  have hw : w ≠ 0 := by omega
  simp [Arr.extentOk, hs, hst, extentLo, extentHi, hw] at hok
  obtain ⟨hlo, hhi⟩ := hok
  have b1 := mul_stride_bounds j w s0 hj
  unfold Arr.InBuf idx1
  constructor <;> omega

theorem extentOk_strides_length {ε} (a : Arr ε) (hok : a.extentOk = true) :
    a.strides.length = a.shape.length := by
  unfold Arr.extentOk at hok
  simp only [Bool.and_eq_true, beq_iff_eq] at hok
  exact hok.1.symm

theorem read2?_isSome {ε} (a : Arr ε) (n w : Nat) (hs : a.shape = [n, w]) (hok : a.extentOk = true)
    (i j : Nat) (hi : i < n) (hj : j < w) : (a.read2? i j).isSome := by
  have hl := extentOk_strides_length a hok
  rw [hs] at hl
  match hst : a.strides, hl with
  | [s0, s1], _ =>
    obtain ⟨v, hv⟩ := at?_of_inBuf a _ (extent2_inBuf a n w s0 s1 hs hst hok i j hi hj)
    simp [Arr.read2?, hst, hv]

theorem read1?_isSome {ε} (a : Arr ε) (w : Nat) (hs : a.shape = [w]) (hok : a.extentOk = true)
    (j : Nat) (hj : j < w) : (a.read1? j).isSome := by
  have hl := extentOk_strides_length a hok
  rw [hs] at hl
  match hst : a.strides, hl with
  | [s0], _ =>
    obtain ⟨v, hv⟩ := at?_of_inBuf a _ (extent1_inBuf a w s0 hs hst hok j hj)
    simp [Arr.read1?, hst, hv]

/-! ### layouts -/

theorem read2?_ofFnC {ε} (n w : Nat) (f : Nat → Nat → ε) (i j : Nat) (hi : i < n) (hj : j < w) :
    (Arr.ofFnC n w f).read2? i j = some (f i j) := by
  have hlt : i * w + j < n * w := by
    calc i * w + j < i * w + w := by omega
      _ = (i + 1) * w := by ring
      _ ≤ n * w := Nat.mul_le_mul_right w (by omega)
  have hidx : idx2 0 (w : Int) 1 i j = ((i * w + j : Nat) : Int) := by
    unfold idx2; push_cast; ring
  have hw : 0 < w := by omega
  simp only [Arr.read2?, Arr.ofFnC, Arr.at?, hidx]
  simp only [Int.natCast_nonneg, if_true, Int.toNat_natCast]
  rw [Array.getElem?_ofFn]
  simp only [hlt, dite_true]
  congr 2
  · rw [Nat.mul_comm, Nat.mul_add_div hw, Nat.div_eq_of_lt hj, Nat.add_zero]
  · rw [Nat.mul_comm, Nat.mul_add_mod, Nat.mod_eq_of_lt hj]

theorem read2?_ofFnF {ε} (n w : Nat) (f : Nat → Nat → ε) (i j : Nat) (hi : i < n) (hj : j < w) :
    (Arr.ofFnF n w f).read2? i j = some (f i j) := by
  have hlt : i + j * n < n * w := by
    calc i + j * n < n + j * n := by omega
      _ = n * (j + 1) := by ring
      _ ≤ n * w := Nat.mul_le_mul_left n (by omega)
  have hidx : idx2 0 1 (n : Int) i j = ((i + j * n : Nat) : Int) := by
    unfold idx2; push_cast; ring
  have hn : 0 < n := by omega
  simp only [Arr.read2?, Arr.ofFnF, Arr.at?, hidx]
  simp only [Int.natCast_nonneg, if_true, Int.toNat_natCast]
  rw [Array.getElem?_ofFn]
  simp only [hlt, dite_true]
  congr 2
  · rw [Nat.add_comm, Nat.mul_comm, Nat.mul_add_mod, Nat.mod_eq_of_lt hi]
  · rw [Nat.add_comm, Nat.mul_comm, Nat.mul_add_div hn, Nat.div_eq_of_lt hi, Nat.add_zero]

theorem read1?_ofFn1 {ε} (w : Nat) (g : Nat → ε) (j : Nat) (hj : j < w) :
    (Arr.ofFn1 w g).read1? j = some (g j) := by
  have hidx : idx1 0 1 j = ((j : Nat) : Int) := by unfold idx1; ring
  simp only [Arr.read1?, Arr.ofFn1, Arr.at?, hidx]
  simp only [Int.natCast_nonneg, if_true, Int.toNat_natCast]
  rw [Array.getElem?_ofFn]
  simp [hj]

/-- a basic-slicing view reads the base array at the sliced logical position -/
theorem read2?_sub2 {ε} (a : Arr ε) (s0 s1 : Int) (hst : a.strides = [s0, s1])
    (r0 : Nat) (rs : Int) (nr : Nat) (c0 : Nat) (cs : Int) (nc : Nat) (i j i' j' : Nat)
    (hi : (r0 : Int) + (i : Int) * rs = (i' : Int)) (hj : (c0 : Int) + (j : Int) * cs = (j' : Int)) :
    (a.sub2 r0 rs nr c0 cs nc).read2? i j = a.read2? i' j' := by
  simp only [Arr.sub2, hst, Arr.read2?, Arr.at?]
  have : idx2 (a.offset + (r0 : Int) * s0 + (c0 : Int) * s1) (rs * s0) (cs * s1) i j
      = idx2 a.offset s0 s1 i' j' := by
    unfold idx2; rw [← hi, ← hj]; ring
  rw [this]

theorem read1?_sub1 {ε} (a : Arr ε) (s0 : Int) (hst : a.strides = [s0])
    (c0 : Nat) (cs : Int) (nc : Nat) (j j' : Nat)
    (hj : (c0 : Int) + (j : Int) * cs = (j' : Int)) :
    (a.sub1 c0 cs nc).read1? j = a.read1? j' := by
  simp only [Arr.sub1, hst, Arr.read1?, Arr.at?]
  have : idx1 (a.offset + (c0 : Int) * s0) (cs * s0) j = idx1 a.offset s0 j' := by
    unfold idx1; rw [← hj]; ring
  rw [this]

/-- gathering a view whose reads are all known gives exactly the logical table -/
theorem rows?_of_reads {ε} (a : Arr ε) (n w : Nat) (g : Nat → Nat → ε)
    (h : ∀ i j, i < n → j < w → a.read2? i j = some (g i j)) :
    a.rows? n w = some ((List.range n).map (fun i => (List.range w).map (fun j => g i j))) := by
  unfold Arr.rows?
  have : (List.range n).map (fun i => allSome ((List.range w).map (fun j => a.read2? i j)))
      = ((List.range n).map (fun i => (List.range w).map (fun j => g i j))).map some := by
    rw [List.map_map]
    apply List.map_congr_left
    intro i hi
    have hi' : i < n := List.mem_range.mp hi
    have : (List.range w).map (fun j => a.read2? i j) = ((List.range w).map (fun j => g i j)).map some := by
      rw [List.map_map]
      apply List.map_congr_left
      intro j hj
      exact h i j hi' (List.mem_range.mp hj)
    simp only [Function.comp, this, allSome_map_some]
  rw [this, allSome_map_some]

theorem elems?_of_reads {ε} (a : Arr ε) (w : Nat) (g : Nat → ε)
    (h : ∀ j, j < w → a.read1? j = some (g j)) :
    a.elems? w = some ((List.range w).map g) := by
  unfold Arr.elems?
  have : (List.range w).map (fun j => a.read1? j) = ((List.range w).map g).map some := by
    rw [List.map_map]
    apply List.map_congr_left
    intro j hj
    exact h j (List.mem_range.mp hj)
  rw [this, allSome_map_some]

end Ens.Dist
