import Proofs.C05Where
import Proofs.C05ColSlice
import Proofs.C05Attrs
/-! Refinement for the repaired variant (`getItemF`): every index form, no excluded region. -/
namespace Ens.Ragged
open Ens

/-- fast-path side condition after the repair: lengths all equal (zero allowed) -/
def FastOKF {α} (ra : RA α) (fast : Bool) : Prop :=
  fast = true → ∃ L, ∀ x ∈ ra.lengths, x = L

theorem arrayViewF_eq_rows {α} (ra : RA α) (h : WF ra) (fast : Bool) (hf : FastOKF ra fast) :
    arrayViewF ra fast = .ok (rows ra) := by
  obtain ⟨data, lens⟩ := ra
  simp only [WF] at h
  cases fast with
  | false => simp [arrayViewF, partitionList, h, rows]
  | true =>
    obtain ⟨L, hall⟩ := hf rfl
    simp only at hall
    have hrep := eq_replicate_of_all hall
    cases lens with
    | nil => simp [arrayViewF, partitionList, h, rows]
    | cons x xs =>
      have hx : x = L := hall x (by simp)
      subst hx
      simp only [arrayViewF, rows, ↓reduceIte]
      have hsum : data.length = (xs.length + 1) * x := by
        rw [← h, hrep]; simp
      rw [if_neg (by simp [hsum])]
      congr 1
      rw [hrep, partitionAux_replicate]
      simp

theorem mapE_ok_exists {α β ε} {f : α → Except ε β} (l : List α) (hf : ∀ x ∈ l, ∃ y, f x = .ok y) :
    ∃ ys, mapE f l = .ok ys := by
  induction l with
  | nil => exact ⟨[], rfl⟩
  | cons x xs ih =>
    obtain ⟨y, hy⟩ := hf x (by simp)
    obtain ⟨ys, hys⟩ := ih (fun z hz => hf z (by simp [hz]))
    exact ⟨y :: ys, by simp [mapE_cons, hy, hys]⟩

theorem mapE_comp_ok {α β γ ε} {f : α → Except ε β} {g : β → Except ε γ} (l : List α)
    (hf : ∀ x ∈ l, ∃ y, f x = .ok y) :
    bindE (mapE f l) (mapE g) = mapE (fun x => bindE (f x) g) l := by
  induction l with
  | nil => rfl
  | cons x xs ih =>
    obtain ⟨y, hy⟩ := hf x (by simp)
    have hxs := fun z hz => hf z (List.mem_cons_of_mem x hz)
    have ih' := ih hxs
    obtain ⟨ys, hm⟩ := mapE_ok_exists xs hxs
    rw [hm] at ih'
    simp only [bindE_ok] at ih'
    simp only [mapE_cons, hy, hm, bindE_ok]
    rw [ih']

theorem finishF_eq {α β} (ra : RA α) (h : WF ra) (X : List β) (rowOf : β → Int) (cols : β → List Int) :
    absE (finishF ra (.ok (X.flatMap (fun x => (cols x).map fun j => (rowOf x, j)),
                           X.map fun x => (cols x).length))) =
      bindE (mapE (fun x => mapE (fun j => cell (rows ra) (rowOf x, j)) (cols x)) X)
        fun out => .ok (SRes.rows out) := by
  simp only [finishF, absE, bindE_ok, gather_eq ra h, mapE_flatMap, mapE_map]
  cases hm : mapE (fun x => mapE (fun j => cell (rows ra) (rowOf x, j)) (cols x)) X with
  | error e => rfl
  | ok rs =>
    simp only [bindE_ok]
    have hl := mapE_inner_lengths hm
    have hlen : rs.flatten.length = (X.map fun x => (cols x).length).sum := by
      rw [List.length_flatten, hl]
    simp only [ofFlatF]
    rw [if_neg (by rw [hlen]; simp)]
    simp only [bindE_ok, Res.abs]
    rw [← hl]
    exact congrArg (fun r => Except.ok (SRes.rows r)) (rows_ofRows' rs)

theorem getNat_rows_ok {α} (ra : RA α) (h : WF ra) {k : Nat} (hk : k < ra.lengths.length) :
    ∃ row, getNat (rows ra) k = .ok row ∧ ra.lengths[k]? = some row.length := by
  have hl : ra.lengths[k]? = some ra.lengths[k] := List.getElem?_eq_getElem hk
  obtain ⟨row, h1, h2⟩ := rows_getNat ra h hl
  exact ⟨row, h1, by rw [hl, h2]⟩

/-! ### row slice × list / int -/

theorem slice_list_coreF {α} (ra : RA α) (h : WF ra) (rs : PySlice) (l : List Int) :
    absE (bindE (sliceToListF rs ra.lengths.length) fun first =>
        finishF ra (.ok (getIisFromListF first l))) =
      bindE (npSlice (rows ra) rs) fun sel =>
        bindE (mapE (fun row => npTake row l) sel) fun out => .ok (SRes.rows out) := by
  simp only [sliceToListF, npSlice, rows_length]
  cases hix : rs.indices ra.lengths.length with
  | none => rfl
  | some ix =>
    have hlt := indices_lt hix
    simp only [bindE_ok, getIisFromListF]
    have hrep : List.replicate (ix.map Int.ofNat).length l.length =
        (ix.map Int.ofNat).map (fun _ => l.length) := by
      rw [List.map_const']
    rw [hrep]
    have hfin := finishF_eq ra h (ix.map Int.ofNat) (fun x => x) (fun _ => l)
    rw [hfin, ← bindE_assoc, mapE_comp_ok ix (fun k hk => by
      obtain ⟨row, hr, _⟩ := getNat_rows_ok ra h (hlt k hk); exact ⟨row, hr⟩)]
    rw [mapE_map]
    congr 1
    apply mapE_congr
    intro k hk
    obtain ⟨row, hr, _⟩ := getNat_rows_ok ra h (hlt k hk)
    have hrow : npIndex (rows ra) (Int.ofNat k) = .ok row := by
      show npIndex (rows ra) (k : Int) = _
      rw [npIndex_ofNat]; exact hr
    simp only [cell, hrow, hr, bindE_ok, npTake]

theorem get_slice_list_F {α} (ra : RA α) (h : WF ra) (fast : Bool) (rs : PySlice) (l : List Int) (b : Bool) :
    absE (getItemF ra fast (.two (.slice rs) (.list l b))) =
      specGet (rows ra) (.two (.slice rs) (.list l b)) := by
  simp only [getItemF, specGet, colSel]
  exact slice_list_coreF ra h rs l

theorem get_slice_int_F {α} (ra : RA α) (h : WF ra) (fast : Bool) (rs : PySlice) (j : Int) :
    absE (getItemF ra fast (.two (.slice rs) (.int j))) =
      specGet (rows ra) (.two (.slice rs) (.int j)) := by
  simp only [getItemF, specGet, colSel]
  exact slice_list_coreF ra h rs [j]

/-! ### column slices -/

theorem indices_isSome {s : PySlice} (hs : s.step ≠ some 0) (len : Nat) : ∃ ix, s.indices len = some ix := by
  simp only [PySlice.indices, PySlice.adjust]
  have : ¬ (s.step.getD 1 = 0) := by
    cases hst : s.step with
    | none => simp
    | some v => simp only [Option.getD_some]; intro h0; apply hs; rw [hst, h0]
  rw [if_neg this]
  exact ⟨_, rfl⟩

theorem colIx_specF {cs : PySlice} (hs : cs.step ≠ some 0) (len : Nat) :
    cs.indices len = some (colIx cs len) := by
  obtain ⟨ix, h1⟩ := indices_isSome hs len
  simp [colIx, h1]

theorem npSlice_errorF {β} {cs : PySlice} (hs : cs.step ≠ some 0) (row : List β) (e : Err)
    (h : npSlice row cs = .error e) : e = .indexError := by
  simp only [npSlice, colIx_specF hs row.length] at h
  exact mapE_error_same (getNat_error row) h

theorem slices_coreF {α} (ra : RA α) (h : WF ra) (first : List Int) (cs : PySlice) (hs : cs.step ≠ some 0)
    (hin : ∀ i ∈ first, ∃ k, normIdx ra.lengths.length i = some k) :
    absE (finishF ra (getIisFromSlicesF first cs ra.lengths)) =
      bindE (mapE (fun i => bindE (npIndex (rows ra) i) fun row => npSlice row cs) first)
        fun out => .ok (SRes.rows out) := by
  have hsplits : mapE (colRangeF cs ra.lengths) first =
      .ok (first.map fun i => (i, (colIx cs (lenOf ra.lengths i)).map Int.ofNat)) := by
    apply mapE_ok_of_forall
    intro i hi
    obtain ⟨k, hk⟩ := hin i hi
    obtain ⟨e1, _⟩ := npIndex_of_norm_some hk
    have hlen := lenOf_spec hk
    simp only [colRangeF, e1, getNat, hlen, bindE_ok, colIx_specF hs]
  simp only [getIisFromSlicesF, hsplits, bindE_ok]
  have hfin := finishF_eq ra h
    (first.map fun i => (i, (colIx cs (lenOf ra.lengths i)).map Int.ofNat)) (fun p => p.1) (fun p => p.2)
  rw [hfin]
  congr 1
  rw [mapE_map]
  apply mapE_congr
  intro i hi
  obtain ⟨k, hk⟩ := hin i hi
  have hk' : normIdx (rows ra).length i = some k := by rw [rows_length]; exact hk
  obtain ⟨e1, _⟩ := npIndex_of_norm_some hk'
  obtain ⟨row, hrowk, hrl⟩ := rows_getNat ra h (lenOf_spec hk)
  simp only [mapE_map, cell, e1, hrowk, bindE_ok, npSlice, hrl, colIx_specF hs]
  apply mapE_congr
  intro j _
  exact npIndex_ofNat row j

theorem get_slice_slice_F {α} (ra : RA α) (h : WF ra) (fast : Bool) (rs cs : PySlice)
    (hs : cs.step ≠ some 0) :
    absE (getItemF ra fast (.two (.slice rs) (.slice cs))) =
      specGet (rows ra) (.two (.slice rs) (.slice cs)) := by
  simp only [getItemF, specGet, colSel, sliceToListF, npSlice, rows_length]
  cases hix : rs.indices ra.lengths.length with
  | none => rfl
  | some ix =>
    have hlt := indices_lt hix
    simp only [bindE_ok]
    rw [slices_coreF ra h (ix.map Int.ofNat) cs hs]
    · rw [← bindE_assoc]
      have e := mapE_comp_ok (f := getNat (rows ra)) (g := fun row => npSlice row cs) ix (fun k hk => by
        obtain ⟨row, hr, _⟩ := getNat_rows_ok ra h (hlt k hk); exact ⟨row, hr⟩)
      simp only [npSlice] at e
      rw [e, mapE_map]
      congr 1
    · intro i hi
      simp only [List.mem_map] at hi
      obtain ⟨k, hk, rfl⟩ := hi
      exact ⟨k, normIdx_ofNat (hlt k hk)⟩

theorem get_list_slice_F {α} (ra : RA α) (h : WF ra) (fast : Bool) (l : List Int) (b : Bool)
    (cs : PySlice) (hs : cs.step ≠ some 0) :
    absE (getItemF ra fast (.two (.list l b) (.slice cs))) =
      specGet (rows ra) (.two (.list l b) (.slice cs)) := by
  simp only [getItemF, specGet]
  by_cases hin : ∀ i ∈ l, ∃ k, normIdx ra.lengths.length i = some k
  · exact slices_coreF ra h l cs hs hin
  · have hex : ∃ i ∈ l, normIdx ra.lengths.length i = none := by
      apply Classical.byContradiction
      intro hcon
      apply hin
      intro i hi
      cases hn : normIdx ra.lengths.length i with
      | some k => exact ⟨k, rfl⟩
      | none => exact absurd ⟨i, hi, hn⟩ hcon
    obtain ⟨i, hi, hn⟩ := hex
    have hmodel : getIisFromSlicesF l cs ra.lengths = .error .indexError := by
      simp only [getIisFromSlicesF]
      rw [mapE_error_of_mem (e0 := Err.indexError)]
      · rfl
      · intro x e he
        simp only [colRangeF] at he
        cases hx : npIndex ra.lengths x with
        | error e' => rw [hx] at he; cases he; exact npIndex_error _ _ _ hx
        | ok len => rw [hx] at he; simp only [bindE_ok, colIx_specF hs] at he; cases he
      · refine ⟨i, hi, .indexError, ?_⟩
        simp only [colRangeF, npIndex_of_norm_none hn]; rfl
    have hspec : mapE (fun i => bindE (npIndex (rows ra) i) fun row => npSlice row cs) l =
        .error .indexError := by
      apply mapE_error_of_mem
      · intro x e he
        cases hx : npIndex (rows ra) x with
        | error e' => rw [hx] at he; cases he; exact npIndex_error _ _ _ hx
        | ok row => rw [hx] at he; exact npSlice_errorF hs row e he
      · refine ⟨i, hi, .indexError, ?_⟩
        have hn' : normIdx (rows ra).length i = none := by rw [rows_length]; exact hn
        rw [npIndex_of_norm_none hn']; rfl
    rw [hmodel, hspec]
    rfl

end Ens.Ragged

namespace Ens.Ragged
open Ens

/-! ### the forms numpy handles on the row view -/

theorem get_row_F {α} (ra : RA α) (h : WF ra) (fast : Bool) (hf : FastOKF ra fast) (i : Int) :
    absE (getItemF ra fast (.one (.int i))) = specGet (rows ra) (.one (.int i)) := by
  simp only [getItemF, specGet, absE, arrayViewF_eq_rows ra h fast hf, bindE_ok]
  cases npIndex (rows ra) i <;> rfl

theorem get_row_slice_F {α} (ra : RA α) (h : WF ra) (fast : Bool) (hf : FastOKF ra fast) (s : PySlice) :
    absE (getItemF ra fast (.one (.slice s))) = specGet (rows ra) (.one (.slice s)) := by
  simp only [getItemF, specGet, absE, arrayViewF_eq_rows ra h fast hf, bindE_ok]
  cases npSlice (rows ra) s with
  | error e => rfl
  | ok sel => simp only [bindE_ok, Res.abs, rows_ofRows']

theorem get_row_list_F {α} (ra : RA α) (h : WF ra) (fast : Bool) (hf : FastOKF ra fast) (l : List Int) (b : Bool) :
    absE (getItemF ra fast (.one (.list l b))) = specGet (rows ra) (.one (.list l b)) := by
  simp only [getItemF, specGet, absE, arrayViewF_eq_rows ra h fast hf, bindE_ok]
  cases npTake (rows ra) l with
  | error e => rfl
  | ok sel => simp only [bindE_ok, Res.abs, rows_ofRows']

theorem get_int_slice_F {α} (ra : RA α) (h : WF ra) (fast : Bool) (hf : FastOKF ra fast) (i : Int) (cs : PySlice) :
    absE (getItemF ra fast (.two (.int i) (.slice cs))) = specGet (rows ra) (.two (.int i) (.slice cs)) := by
  simp only [getItemF, specGet, absE, arrayViewF_eq_rows ra h fast hf, bindE_ok, colSel]
  cases npIndex (rows ra) i with
  | error e => rfl
  | ok row =>
    simp only [bindE_ok]
    cases npSlice row cs <;> rfl

theorem iterF_eq_rows {α} (ra : RA α) (h : WF ra) (fast : Bool) (hf : FastOKF ra fast) :
    iterF ra fast = .ok (rows ra) := by
  simp only [iterF, arrayViewF_eq_rows ra h fast hf, bindE_ok]
  rw [iterAux_eq_drop _ _ _ (by omega)]
  rfl

theorem lenF_eq {α} (ra : RA α) (h : WF ra) (fast : Bool) (hf : FastOKF ra fast) :
    lenF ra fast = .ok (rows ra).length := by
  simp only [lenF, arrayViewF_eq_rows ra h fast hf, bindE_ok]

/-! ### tuples without slices -/

theorem pairedCoreF_zip {α} (ra : RA α) (f s0 : List Int) (hlen : f.length = s0.length) :
    pairedCoreF ra f s0 = bindE (gather ra (f.zip s0)) fun d => .ok (Res.arr d) := by
  unfold pairedCoreF
  have hc : ¬ (f.length ≠ 1 ∧ s0.length = 1) := by omega
  simp only [hc, if_false]
  rw [if_pos hlen]

theorem zip_replicate_eq {β γ} (l : List β) (c : γ) : l.zip (List.replicate l.length c) = l.map (fun x => (x, c)) := by
  induction l with
  | nil => rfl
  | cons x xs ih => simp [List.replicate_succ, ih]

theorem pairedCoreF_col {α} (ra : RA α) (f : List Int) (j : Int) :
    pairedCoreF ra f [j] = bindE (gather ra (f.map fun i => (i, j))) fun d => .ok (Res.arr d) := by
  by_cases h1 : f.length = 1
  · rw [pairedCoreF_zip ra f [j] (by simpa using h1)]
    cases f with
    | nil => simp at h1
    | cons x xs =>
      cases xs with
      | nil => rfl
      | cons y ys => simp at h1
  · unfold pairedCoreF
    have hc : f.length ≠ 1 ∧ [j].length = 1 := ⟨h1, rfl⟩
    rw [if_pos hc]
    simp only [List.length_replicate, if_true, List.headD_cons, zip_replicate_eq]

theorem pairedCoreF_row {α} (ra : RA α) (i : Int) (s0 : List Int) :
    pairedCoreF ra [i] s0 =
      if s0 = [] then bindE (npIndex ra.lengths i) fun _ => .ok (Res.arr [])
      else bindE (gather ra (s0.map fun j => (i, j))) fun d => .ok (Res.arr d) := by
  cases s0 with
  | nil => rfl
  | cons j js =>
    cases js with
    | nil => rfl
    | cons j2 js2 =>
      unfold pairedCoreF
      simp

theorem get_elem_F {α} (ra : RA α) (h : WF ra) (fast : Bool) (i j : Int) :
    absE (getItemF ra fast (.two (.int i) (.int j))) = specGet (rows ra) (.two (.int i) (.int j)) := by
  simp only [getItemF, specGet, absE, pairedF, idxArr, pairedCoreF_col, gather_eq ra h]
  cases hc : cell (rows ra) (i, j) <;> simp [mapE_cons, hc, Res.abs]

theorem get_paired_F {α} (ra : RA α) (h : WF ra) (fast : Bool) (l l2 : List Int) (b b2 : Bool)
    (hlen : l.length = l2.length) :
    absE (getItemF ra fast (.two (.list l b) (.list l2 b2))) =
      specGet (rows ra) (.two (.list l b) (.list l2 b2)) := by
  simp only [getItemF, specGet, absE, pairedF, idxArr]
  rw [pairedCoreF_zip ra l l2 hlen, if_pos hlen]
  simp only [gather_eq ra h]
  cases mapE (cell (rows ra)) (l.zip l2) <;> rfl

theorem get_list_int_F {α} (ra : RA α) (h : WF ra) (fast : Bool) (l : List Int) (b : Bool) (j : Int) :
    absE (getItemF ra fast (.two (.list l b) (.int j))) = specGet (rows ra) (.two (.list l b) (.int j)) := by
  simp only [getItemF, specGet, absE, pairedF, idxArr, pairedCoreF_col, gather_eq ra h, mapE_map]
  cases mapE (fun i => cell (rows ra) (i, j)) l <;> rfl

theorem npIndex_unit_congr {β γ δ} (l1 : List β) (l2 : List γ) (hl : l1.length = l2.length) (i : Int)
    (c : Except Err δ) :
    bindE (npIndex l1 i) (fun _ => c) = bindE (npIndex l2 i) (fun _ => c) := by
  cases hn : normIdx l1.length i with
  | none =>
    have hn2 : normIdx l2.length i = none := by rw [← hl]; exact hn
    rw [npIndex_of_norm_none hn, npIndex_of_norm_none hn2]; rfl
  | some k =>
    have hn2 : normIdx l2.length i = some k := by rw [← hl]; exact hn
    obtain ⟨e1, hk1⟩ := npIndex_of_norm_some hn
    obtain ⟨e2, hk2⟩ := npIndex_of_norm_some hn2
    rw [e1, e2]
    simp [getNat, List.getElem?_eq_getElem hk1, List.getElem?_eq_getElem hk2]

theorem get_int_list_F {α} (ra : RA α) (h : WF ra) (fast : Bool) (i : Int) (l : List Int) (b : Bool) :
    absE (getItemF ra fast (.two (.int i) (.list l b))) = specGet (rows ra) (.two (.int i) (.list l b)) := by
  simp only [getItemF, specGet, absE, pairedF, idxArr, colSel, pairedCoreF_row]
  by_cases hl : l = []
  · subst hl
    simp only [if_true, npTake, mapE_nil, bindE_ok]
    have := npIndex_unit_congr ra.lengths (rows ra) (rows_length ra).symm i
      (Except.ok (Res.arr ([] : List α)))
    rw [this]
    cases npIndex (rows ra) i <;> rfl
  · rw [if_neg hl]
    simp only [gather_eq ra h, mapE_map, cell, npTake]
    rw [mapE_bind_const _ _ hl]
    cases npIndex (rows ra) i with
    | error e => rfl
    | ok row =>
      simp only [bindE_ok]
      cases mapE (npIndex row) l <;> rfl

theorem get_mask_F {α} (ra : RA α) (h : WF ra) (fast : Bool) (m : RA Bool) (hm : WF m)
    (hl : m.lengths = ra.lengths) :
    absE (getItemF ra fast (.mask m)) = specGet (rows ra) (.mask m) := by
  simp only [getItemF, specGet, where_spec' m hm, bindE_ok]
  generalize hP : specWhere (rows m) = P
  simp only [pairedF, idxArr]
  rw [pairedCoreF_zip ra _ _ (by simp), List.zip_map']
  simp only [gather_eq ra h, mapE_map, absE]
  have hlen : (rows ra).map List.length = (rows m).map List.length := by
    rw [← lengths_eq' ra h, ← lengths_eq' m hm, hl]
  have := mask_gather [] (rows ra) (rows m) hlen
  simp only [List.nil_append, List.length_nil] at this
  rw [← hP]
  simp only [specWhere]
  rw [this]
  rfl

end Ens.Ragged

namespace Ens.Ragged
open Ens

theorem get_elem_F_of_convert_error {α} (ra : RA α) (fast : Bool) (i j : Int) (e : Err)
    (h : convertOne ra.lengths (i, j) = .error e) :
    getItemF ra fast (.two (.int i) (.int j)) = .error e := by
  simp only [getItemF, pairedF, idxArr, pairedCoreF_col, gather, convertFrom2d, List.map_cons, List.map_nil,
    mapE_cons, h, bindE_error]

end Ens.Ragged

namespace Ens.Ragged
open Ens

/-- `a[[i…], [j]]`: a one-element column list is broadcast over the row list -/
theorem get_paired_bcast_col_F {α} (ra : RA α) (h : WF ra) (fast : Bool) (l : List Int) (b b2 : Bool) (j : Int)
    (hl : l.length ≠ 1) :
    absE (getItemF ra fast (.two (.list l b) (.list [j] b2))) =
      specGet (rows ra) (.two (.list l b) (.list [j] b2)) := by
  simp only [getItemF, specGet, absE, pairedF, idxArr, pairedCoreF_col, gather_eq ra h, mapE_map,
    List.length_cons, List.length_nil, List.headD_cons]
  rw [if_neg (by simpa using hl), if_pos trivial]
  cases mapE (fun i => cell (rows ra) (i, j)) l <;> rfl

/-- `a[[i], [j…]]`: a one-element row list is broadcast over a non-empty column list -/
theorem get_paired_bcast_row_F {α} (ra : RA α) (h : WF ra) (fast : Bool) (i : Int) (l2 : List Int) (b b2 : Bool)
    (hl : l2.length ≠ 1) (hne : l2 ≠ []) :
    absE (getItemF ra fast (.two (.list [i] b) (.list l2 b2))) =
      specGet (rows ra) (.two (.list [i] b) (.list l2 b2)) := by
  simp only [getItemF, specGet, absE, pairedF, idxArr, pairedCoreF_row, List.length_cons, List.length_nil,
    List.headD_cons]
  rw [if_neg hne, if_neg (by intro h1; exact hl h1.symm), if_neg hl, if_pos ⟨trivial, hne⟩]
  simp only [gather_eq ra h, mapE_map]
  cases mapE (fun j => cell (rows ra) (i, j)) l2 <;> rfl

end Ens.Ragged
