import Proofs.C18Marg
import Proofs.C18KL
import Mathlib.Tactic.FieldSimp
import Mathlib.Tactic.Ring
/-!
`weighted_mi` under uniform weights computes, cell by cell, exactly the terms that
`mutual_information` computes from the joint counts of the data set against itself.
-/
namespace Ens.InfoR
open Finset Ens Ens.Info

theorem wsum_const (T : ℕ) (w : ℕ → ℚ) (c : ℚ) (p : ℕ → Bool) (hw : ∀ t, t < T → w t = c) :
    wsum T w (fun t => p t) = c * ((List.range T).countP p : ℕ) := by
  unfold wsum
  induction T with
  | zero => simp [sumTo]
  | succ n ih =>
    have ih' := ih (fun t ht => hw t (by omega))
    show sumTo n _ + _ = _
    rw [ih', List.range_succ, List.countP_append]
    simp only []
    rw [hw n (by omega)]
    by_cases hp : p n = true
    · simp [hp]; ring
    · simp [hp]

theorem ratSum_replicate (n : ℕ) (c : ℚ) : ratSum (List.replicate n c) = n * c := by
  rw [ratSum_eq_sum]; simp

/-- uniform weights (any positive constant) are normalised to `1 / T` -/
theorem normWeights_replicate (T : ℕ) (c : ℚ) (hc : 0 < c) (hT : 0 < T) (t : ℕ) (ht : t < T) :
    normWeights (List.replicate T c) t = 1 / (T : ℚ) := by
  unfold normWeights
  simp only [ratSum_replicate]
  have hg : (List.replicate T c).getD t 0 = c := by simp [List.getD, ht]
  rw [hg]
  have hT' : (T : ℚ) ≠ 0 := by exact_mod_cast hT.ne'
  by_cases h1 : (T : ℚ) * c = 1
  · rw [if_pos h1]
    field_simp
    linarith
  · rw [if_neg h1]
    field_simp

/-- cell by cell: the weighted estimator with weights `1/T` = the counts estimator -/
theorem wmiCell_uniform (X : Arr) (w : ℕ → ℚ) (f g : ℕ) (M : ℕ) (u v : ℕ) (hT : 0 < X.T)
    (hw : ∀ t, t < X.T → w t = 1 / (X.T : ℚ))
    (hf : ∀ t, t < X.T → 0 ≤ X.get t f ∧ X.get t f < (M : ℤ))
    (hg : ∀ t, t < X.T → 0 ≤ X.get t g ∧ X.get t g < (M : ℤ)) :
    wmiCell X w f g (u : ℤ) (v : ℤ)
      = miCell (fun (u v : ℕ) => frameCount X X f g (u : ℤ) (v : ℤ)) M M u v := by
  have hT' : (X.T : ℚ) ≠ 0 := by exact_mod_cast hT.ne'
  unfold wmiCell miCell
  simp only
  rw [total_frameCount X X f g M M hf hg, rowSum_frameCount X X f g M u hg,
    colSum_frameCount X X f g M v hf]
  have e1 : wsum X.T w (fun t => decide (X.get t f = (u : ℤ) ∧ X.get t g = (v : ℤ)))
      = gdiv (frameCount X X f g (u : ℤ) (v : ℤ)) X.T := by
    rw [wsum_const X.T w _ (fun t => decide (X.get t f = (u : ℤ) ∧ X.get t g = (v : ℤ))) hw]
    unfold gdiv frameCount
    rw [if_pos hT]; field_simp
  have e2 : wsum X.T w (fun t => decide (X.get t f = (u : ℤ))) = gdiv (margCount X f (u : ℤ)) X.T := by
    rw [wsum_const X.T w _ (fun t => decide (X.get t f = (u : ℤ))) hw]
    unfold gdiv margCount
    rw [if_pos hT]; field_simp
  have e3 : wsum X.T w (fun t => decide (X.get t g = (v : ℤ)))
      = gdiv ((List.range X.T).countP fun t => X.get t g = (v : ℤ)) X.T := by
    rw [wsum_const X.T w _ (fun t => decide (X.get t g = (v : ℤ))) hw]
    unfold gdiv
    rw [if_pos hT]; field_simp
  rw [e1, e2, e3]
  generalize gdiv (frameCount X X f g (u : ℤ) (v : ℤ)) X.T = pxy
  generalize gdiv (margCount X f (u : ℤ)) X.T = px
  generalize gdiv ((List.range X.T).countP fun t => X.get t g = (v : ℤ)) X.T = py
  have hc : (py * px = 0 ∨ pxy = 0) ↔ (pxy = 0 ∨ px = 0 ∨ py = 0) := by
    rw [mul_eq_zero]; tauto
  by_cases h : pxy = 0 ∨ px = 0 ∨ py = 0
  · rw [if_pos h, if_pos (hc.2 h)]
  · rw [if_neg h, if_neg (fun h' => h (hc.1 h')), mul_comm py px]

/-- the weighted estimator under uniform weights equals the counts-based estimator, term by term -/
theorem wmiTerms_uniform (X : Arr) (c : ℚ) (hc : 0 < c) (f g : ℕ) (M : ℕ) (hT : 0 < X.T)
    (hf : ∀ t, t < X.T → 0 ≤ X.get t f ∧ X.get t f < (M : ℤ))
    (hg : ∀ t, t < X.T → 0 ≤ X.get t g ∧ X.get t g < (M : ℤ)) :
    wmiTerms X (normWeights (List.replicate X.T c)) M f g
      = miTerms (fun (u v : ℕ) => frameCount X X f g (u : ℤ) (v : ℤ)) M M := by
  unfold wmiTerms miTerms
  congr 1
  funext u
  congr 1
  funext v
  exact wmiCell_uniform X _ f g M u v hT (fun t ht => normWeights_replicate X.T c hc hT t ht) hf hg

end Ens.InfoR

namespace Ens.InfoR
open Finset Ens Ens.Info

/-- what a successful `weighted_mi` call returns: for every feature pair the terms over all state
pairs below the largest declared state count -/
theorem weightedMi_ok (X : Arr) (wl : List ℚ) (nfs : Option (List ℤ)) (res : WMI)
    (h : weightedMi X wl nfs = .ok res) :
    ∃ v, wmiValidate X wl nfs = .ok v ∧ res.states = v.1 ∧
      res.terms = tabulate X.F fun f => tabulate X.F fun g =>
        wmiTerms X (normWeights wl) v.2.toNat f g := by
  unfold weightedMi at h
  simp only [bind, Except.bind, pure, Except.pure] at h
  cases hv : wmiValidate X wl nfs with
  | error e => rw [hv] at h; cases h
  | ok v =>
    rw [hv] at h
    cases h
    exact ⟨v, rfl, rfl, rfl⟩

theorem mem_zip_self (l : List ℚ) (x : ℚ × ℚ) (hx : x ∈ l.zip l) : x.1 = x.2 := by
  induction l with
  | nil => cases hx
  | cons a as ih =>
    rw [List.zip_cons_cons] at hx
    rcases List.mem_cons.1 hx with rfl | h'
    · rfl
    · exact ih h'

/-- the `inf` branch of `kl_divergence` (some `p > 0` where `q = 0`) only occurs for `P ≠ Q` -/
theorem kl_inf_ne (P Q : List ℚ) (h : klTerms P Q = .ok .inf) : P ≠ Q := by
  unfold klTerms at h
  simp only [bind, Except.bind, pure, Except.pure, throw, throwThe, MonadExceptOf.throw] at h
  split at h
  · cases h
  · split at h
    · cases h
    · split at h
      · rename_i h3
        obtain ⟨x, hx, hp⟩ := List.any_eq_true.1 h3
        simp only [decide_eq_true_eq] at hp
        intro e
        subst e
        have := mem_zip_self P x hx
        rw [← this] at hp
        linarith [hp.1, hp.2]
      · cases h

end Ens.InfoR
