import Model.Mle
import Mathlib.Algebra.BigOperators.Fin
import Mathlib.Algebra.BigOperators.Field
import Mathlib.Algebra.Order.BigOperators.Ring.Finset
import Mathlib.Algebra.Order.Field.Basic
import Mathlib.Tactic.Ring
import Mathlib.Tactic.FieldSimp
import Mathlib.Tactic.Linarith
import Mathlib.Tactic.Positivity
import Mathlib.Tactic.LinearCombination

/-! Plumbing for C12: `get`/`set` on the `Vector`-based matrices of `Model.Mle`, and the bridge
from the model's `sumFin` to `Finset.univ.sum`. -/

set_option linter.unusedSectionVars false

namespace Ens.C12P
open Ens Ens.Mle

section plumbing
variable {α : Type} {n : Nat}

theorem vget_vset (x : Vec α n) (i a : Fin n) (v : α) :
    vget (vset x i v) a = if a = i then v else vget x a := by
  unfold vset vget
  rw [Vector.getElem_set]
  by_cases h : a = i
  · subst h; simp
  · have : i.val ≠ a.val := fun e => h (Fin.ext e.symm)
    simp [h, this]

theorem mget_mset (X : Mat α n) (i j a b : Fin n) (v : α) :
    mget (mset X i j v) a b = if a = i ∧ b = j then v else mget X a b := by
  unfold mset mget
  rw [Vector.getElem_set]
  by_cases h : a = i
  · subst h
    simp only [↓reduceIte, true_and]
    rw [Vector.getElem_set]
    by_cases h2 : b = j
    · subst h2; simp
    · have : j.val ≠ b.val := fun e => h2 (Fin.ext e.symm)
      simp [h2, this]
  · have : i.val ≠ a.val := fun e => h (Fin.ext e.symm)
    simp [h, this]

theorem vget_ofFn (f : Fin n → α) (i : Fin n) : vget (Vector.ofFn f : Vec α n) i = f i := by
  simp [vget]

theorem mget_ofFn (f : Fin n → Fin n → α) (i j : Fin n) :
    mget (Vector.ofFn (fun i => Vector.ofFn (f i)) : Mat α n) i j = f i j := by
  simp [mget]

end plumbing

section sums
variable {K : Type} [Field K]

theorem sumFin_eq_sum : ∀ (n : Nat) (f : Fin n → K), sumFin n f = ∑ k, f k
  | 0, f => by simp [sumFin]
  | n+1, f => by
    rw [sumFin, sumFin_eq_sum n, Fin.sum_univ_castSucc]

theorem rowSumF_eq {n : Nat} (X : Mat K n) (i : Fin n) : rowSumF X i = ∑ j, mget X i j :=
  sumFin_eq_sum n _

/-- replacing one summand -/
theorem sum_update_one {n : Nat} (f : Fin n → K) (b : Fin n) (v : K) :
    ∑ j, (if j = b then v else f j) = ∑ j, f j + (v - f b) := by
  have h : ∀ j, (if j = b then v else f j) = f j + (if j = b then v - f b else 0) := by
    intro j; by_cases hj : j = b
    · subst hj; simp
    · simp [hj]
  simp only [h, Finset.sum_add_distrib, Finset.sum_ite_eq', Finset.mem_univ, if_true]

end sums
end Ens.C12P
