import Proofs.C14Stripe
import Mathlib.Data.List.Nodup
/-! Correctness of the reassembly / index-conversion / reduction models. -/
namespace Ens.Mpi

variable {α β : Type}

/-! ### membership in a stripe of `range n` -/

theorem mem_stripeIdx (w : Nat) (hw : 0 < w) (n r i : Nat) (hr : r < w) :
    i ∈ stripeIdx w n r ↔ i < n ∧ i % w = r := by
  unfold stripeIdx
  rw [List.mem_iff_getElem?]
  constructor
  · rintro ⟨j, hj⟩
    rw [getElem?_stripe w hw] at hj
    have h1 : r + j * w < n := by
      by_contra hc
      rw [List.getElem?_eq_none (by simpa using Nat.le_of_not_lt hc)] at hj
      cases hj
    rw [List.getElem?_range h1] at hj
    injection hj with hj
    subst hj
    refine ⟨h1, ?_⟩
    rw [Nat.add_mul_mod_self_right, Nat.mod_eq_of_lt hr]
  · rintro ⟨hi, rfl⟩
    refine ⟨i / w, ?_⟩
    rw [getElem?_stripe w hw]
    have : i % w + i / w * w = i := by rw [Nat.mul_comm]; exact Nat.mod_add_div i w
    rw [this, List.getElem?_range hi]

/-! ### `assemble_striped_ragged_array` -/

theorem assemble_ragged_ok (w : Nat) (hw : 0 < w) (L : List Nat) (hT : w ≤ L.length)
    (xs : List α) (hx : xs.length = L.sum) :
    assembleStripedRagged w L (fun r => (stripe w (splitBy L xs) r).flatten) = .ok xs := by
  have hrows : (splitBy L xs).map List.length = L := map_length_splitBy L xs (by omega)
  have hll : ∀ r, stripe w L r = (stripe w (splitBy L xs) r).map List.length := by
    intro r; rw [← stripe_map, hrows]
  have hpos : ∀ r, r < w → 0 < (stripe w (splitBy L xs) r).length := by
    intro r hr
    exact length_stripe_pos w hw _ r (by rw [length_splitBy]; omega)
  have herr : firstErr w (raggedErr w L fun r => (stripe w (splitBy L xs) r).flatten) = none := by
    rw [firstErr_eq_none]
    intro r hr
    have := hpos r hr
    unfold raggedErr
    simp only [hll r, List.length_map, List.length_flatten]
    split
    · simp
    · split
      · rfl
      · omega
  have hrws : ∀ r, r < w → raggedRows w L (fun r => (stripe w (splitBy L xs) r).flatten) r
      = stripe w (splitBy L xs) r := by
    intro r hr
    have := hpos r hr
    unfold raggedRows
    simp only [hll r, List.length_map]
    split
    · exact splitBy_lengths_flatten _
    · match hs : stripe w (splitBy L xs) r with
      | [] => rw [hs] at this; simp at this
      | [a] => simp
      | a :: b :: l => rename_i hne; rw [hs] at hne; simp at hne
  unfold assembleStripedRagged
  rw [herr]
  simp only
  rw [unstripe_congr w L.length hw _ _ hrws]
  have : L.length = (splitBy L xs).length := by simp
  rw [this, unstripe_stripe w hw, flatten_splitBy L xs (by omega)]

/-! ### `convert_local_indices` -/

theorem localFrames_map (w : Nat) (L : List Nat) (f : Nat → α) (r : Nat) :
    (stripe w (splitBy L ((List.range L.sum).map f)) r).flatten = (localFrames w L r).map f := by
  unfold localFrames
  rw [splitBy_map, stripe_map, List.map_flatten]

theorem localFrames_perm (w : Nat) (hw : 0 < w) (L : List Nat) :
    ((List.range w).flatMap (localFrames w L)).Perm (List.range L.sum) := by
  have h := (stripe_perm w hw (splitBy L (List.range L.sum))).flatten
  rw [flatten_splitBy L _ (by simp)] at h
  have e : ((List.range w).flatMap fun r => stripe w (splitBy L (List.range L.sum)) r).flatten
      = (List.range w).flatMap (localFrames w L) := by
    simp only [List.flatMap_def, List.flatten_flatten, List.map_map]
    rfl
  rw [e] at h
  exact h

theorem convertLocal_ok_iff (w : Nat) (L : List Nat) (r i g : Nat) (hr : r < L.length) (hw : 0 < w) :
    convertLocal w L (r, i) = .ok g ↔ (localFrames w L r)[i]? = some g := by
  unfold convertLocal
  have : (stripe w L r).length ≠ 0 := by
    have := length_stripe_pos w hw L r hr; omega
  simp only [this, if_false]
  cases h : (localFrames w L r)[i]? <;> simp

/-! ### positions in a duplicate-free concatenation -/

theorem nodup_flatten_pair_inj {rows : List (List β)} (h : rows.flatten.Nodup)
    {r r' i i' : Nat} {a a' : List β} {b : β}
    (h1 : rows[r]? = some a) (h2 : a[i]? = some b) (h1' : rows[r']? = some a') (h2' : a'[i']? = some b) :
    r = r' ∧ i = i' := by
  rw [List.nodup_flatten] at h
  obtain ⟨hn, hp⟩ := h
  rw [List.pairwise_iff_getElem] at hp
  obtain ⟨hr, rfl⟩ := List.getElem?_eq_some_iff.mp h1
  obtain ⟨hr', rfl⟩ := List.getElem?_eq_some_iff.mp h1'
  have hb : b ∈ rows[r] := List.mem_of_getElem? h2
  have hb' : b ∈ rows[r'] := List.mem_of_getElem? h2'
  have hrr : r = r' := by
    rcases Nat.lt_trichotomy r r' with hlt | heq | hgt
    · exact absurd hb' ((hp r r' hr hr' hlt) hb)
    · exact heq
    · exact absurd hb ((hp r' r hr' hr hgt) hb')
  subst hrr
  refine ⟨rfl, ?_⟩
  have hnd : rows[r].Nodup := hn _ (List.getElem_mem hr)
  obtain ⟨hi, e1⟩ := List.getElem?_eq_some_iff.mp h2
  obtain ⟨hi', e2⟩ := List.getElem?_eq_some_iff.mp h2'
  exact (List.Nodup.getElem_inj_iff hnd).mp (e1.trans e2.symm)

theorem mem_flatten_iff_getElem? {rows : List (List β)} {b : β} :
    b ∈ rows.flatten ↔ ∃ (r : Nat) (a : List β) (i : Nat), rows[r]? = some a ∧ a[i]? = some b := by
  rw [List.mem_flatten]
  constructor
  · rintro ⟨a, ha, hb⟩
    obtain ⟨r, hr⟩ := List.mem_iff_getElem?.mp ha
    obtain ⟨i, hi⟩ := List.mem_iff_getElem?.mp hb
    exact ⟨r, a, i, hr, hi⟩
  · rintro ⟨r, a, i, hr, hi⟩
    exact ⟨a, List.mem_of_getElem? hr, List.mem_of_getElem? hi⟩

/-- the rows `localFrames 0 … w-1` as a list -/
theorem localFrames_rows_nodup (w : Nat) (hw : 0 < w) (L : List Nat) :
    (((List.range w).map (localFrames w L)).flatten).Nodup := by
  rw [← List.flatMap_def]
  exact (localFrames_perm w hw L).nodup_iff.mpr List.nodup_range

/-- every global frame is held by exactly one `(rank, local index)` -/
theorem localFrames_bijective (w : Nat) (hw : 0 < w) (L : List Nat) :
    (∀ g, g < L.sum → ∃ (r i : Nat), r < w ∧ (localFrames w L r)[i]? = some g) ∧
    (∀ (r i r' i' g : Nat), r < w → r' < w → (localFrames w L r)[i]? = some g →
        (localFrames w L r')[i']? = some g → r = r' ∧ i = i') ∧
    (∀ (r i g : Nat), r < w → (localFrames w L r)[i]? = some g → g < L.sum) := by
  have hperm := localFrames_perm w hw L
  refine ⟨?_, ?_, ?_⟩
  · intro g hg
    have : g ∈ (List.range w).flatMap (localFrames w L) := hperm.mem_iff.mpr (List.mem_range.mpr hg)
    obtain ⟨r, hr, hm⟩ := List.mem_flatMap.mp this
    obtain ⟨i, hi⟩ := List.mem_iff_getElem?.mp hm
    exact ⟨r, i, List.mem_range.mp hr, hi⟩
  · intro r i r' i' g hr hr' h1 h2
    have hrow : ∀ r, r < w → ((List.range w).map (localFrames w L))[r]? = some (localFrames w L r) := by
      intro r hr; simp [hr]
    exact nodup_flatten_pair_inj (localFrames_rows_nodup w hw L) (hrow r hr) h1 (hrow r' hr') h2
  · intro r i g hr h
    have : g ∈ (List.range w).flatMap (localFrames w L) :=
      List.mem_flatMap.mpr ⟨r, List.mem_range.mpr hr, List.mem_of_getElem? h⟩
    exact List.mem_range.mp (hperm.mem_iff.mp this)

/-! ### `randind` -/

theorem findRC_some {rows : List (List Nat)} {g r i : Nat} (h : findRC rows g = some (r, i)) :
    ∃ a, rows[r]? = some a ∧ a[i]? = some g := by
  induction rows generalizing r with
  | nil => simp [findRC] at h
  | cons row rows ih =>
    unfold findRC at h
    cases hx : row.idxOf? g with
    | some j =>
      rw [hx] at h
      simp only [Option.some.injEq, Prod.mk.injEq] at h
      obtain ⟨rfl, rfl⟩ := h
      refine ⟨row, by simp, ?_⟩
      obtain ⟨hj, hje, _⟩ := List.idxOf?_eq_some_iff.mp hx
      rw [List.getElem?_eq_getElem hj, hje]
    | none =>
      rw [hx] at h
      simp only [Option.map_eq_some_iff] at h
      obtain ⟨⟨r0, i0⟩, hp, he⟩ := h
      simp only [Prod.mk.injEq] at he
      obtain ⟨rfl, rfl⟩ := he
      obtain ⟨a, ha, hg⟩ := ih hp
      exact ⟨a, by simpa using ha, hg⟩

theorem findRC_isSome {rows : List (List Nat)} {g : Nat} (h : g ∈ rows.flatten) :
    ∃ p, findRC rows g = some p := by
  induction rows with
  | nil => simp at h
  | cons row rows ih =>
    unfold findRC
    cases hx : row.idxOf? g with
    | some j => exact ⟨_, rfl⟩
    | none =>
      have hnot : g ∉ row := List.idxOf?_eq_none_iff.mp hx
      simp only [List.flatten_cons, List.mem_append] at h
      rcases h with h | h
      · exact absurd h hnot
      · obtain ⟨p, hp⟩ := ih h
        exact ⟨_, by rw [hp]; rfl⟩

theorem randindTable_perm (lens : List Nat) (hw : 0 < lens.length) :
    (randindTable lens).flatten.Perm (List.range lens.sum) ∧
    (randindTable lens).map List.length = lens := by
  unfold randindTable
  have hp := stripe_perm lens.length hw (List.range lens.sum)
  have hl : ((List.range lens.length).flatMap fun r => stripeIdx lens.length lens.sum r).length = lens.sum := by
    have := hp.length_eq
    simpa [stripeIdx] using this
  constructor
  · simp only
    rw [flatten_splitBy _ _ (by omega)]
    exact hp
  · exact map_length_splitBy _ _ (by omega)

theorem randind_ok_iff (lens : List Nat) (hN : 1 ≤ lens.sum) (g r i : Nat) :
    randind lens g = .ok (r, i) ↔ findRC (randindTable lens) g = some (r, i) := by
  unfold randind
  have : ¬ lens.sum < 1 := by omega
  simp only [this, if_false]
  cases h : findRC (randindTable lens) g <;> simp

/-- the draw `g ↦ (owner, local index)` is a bijection from `0 … N-1` onto the elements of
    the striped array, whatever the local lengths (packed or not) -/
theorem randind_bijective (lens : List Nat) (hw : 0 < lens.length) (hN : 1 ≤ lens.sum) :
    (∀ g, g < lens.sum → ∃ (r i l : Nat), randind lens g = .ok (r, i) ∧ lens[r]? = some l ∧ i < l) ∧
    (∀ (g g' : Nat) (p : Nat × Nat), randind lens g = .ok p → randind lens g' = .ok p → g = g') ∧
    (∀ (r i l : Nat), lens[r]? = some l → i < l → ∃ g, g < lens.sum ∧ randind lens g = .ok (r, i)) := by
  obtain ⟨hperm, hlen⟩ := randindTable_perm lens hw
  have hnd : (randindTable lens).flatten.Nodup := hperm.nodup_iff.mpr List.nodup_range
  have hrowlen : ∀ (r : Nat) (a : List Nat), (randindTable lens)[r]? = some a → lens[r]? = some a.length := by
    intro r a ha
    have : ((randindTable lens).map List.length)[r]? = some a.length := by simp [ha]
    rwa [hlen] at this
  refine ⟨?_, ?_, ?_⟩
  · intro g hg
    have hm : g ∈ (randindTable lens).flatten := hperm.mem_iff.mpr (List.mem_range.mpr hg)
    obtain ⟨⟨r, i⟩, hp⟩ := findRC_isSome hm
    obtain ⟨a, ha, hi⟩ := findRC_some hp
    refine ⟨r, i, a.length, (randind_ok_iff lens hN g r i).mpr hp, hrowlen r a ha, ?_⟩
    exact (List.getElem?_eq_some_iff.mp hi).1
  · rintro g g' ⟨r, i⟩ h1 h2
    obtain ⟨a, ha, hi⟩ := findRC_some ((randind_ok_iff lens hN g r i).mp h1)
    obtain ⟨a', ha', hi'⟩ := findRC_some ((randind_ok_iff lens hN g' r i).mp h2)
    rw [ha] at ha'
    injection ha' with ha'
    subst ha'
    rw [hi] at hi'
    injection hi'
  · intro r i l hl hi
    have hr : r < (randindTable lens).length := by
      have : r < lens.length := (List.getElem?_eq_some_iff.mp hl).1
      have e : (randindTable lens).length = lens.length := by
        have := congrArg List.length hlen; simpa using this
      omega
    have ha : (randindTable lens)[r]? = some (randindTable lens)[r] := List.getElem?_eq_getElem hr
    have hal := hrowlen r _ ha
    rw [hl] at hal
    injection hal with hal
    have hi2 : i < ((randindTable lens)[r]).length := by omega
    have hg : ((randindTable lens)[r])[i]? = some ((randindTable lens)[r])[i] := List.getElem?_eq_getElem hi2
    refine ⟨((randindTable lens)[r])[i], ?_, ?_⟩
    · have hm : ((randindTable lens)[r])[i] ∈ (randindTable lens).flatten :=
        mem_flatten_iff_getElem?.mpr ⟨r, _, i, ha, hg⟩
      exact List.mem_range.mp (hperm.mem_iff.mp hm)
    · have hm : ((randindTable lens)[r])[i] ∈ (randindTable lens).flatten :=
        mem_flatten_iff_getElem?.mpr ⟨r, _, i, ha, hg⟩
      obtain ⟨⟨r', i'⟩, hp⟩ := findRC_isSome hm
      obtain ⟨a', ha', hi'⟩ := findRC_some hp
      obtain ⟨e1, e2⟩ := nodup_flatten_pair_inj hnd ha' hi' ha hg
      subst e1; subst e2
      exact (randind_ok_iff lens hN _ _ _).mpr hp

/-! ### `ctr_ids_mpi` is inverse to `convert_local_indices` -/

theorem getElem?_flatten_offset (S : List (List β)) (j f : Nat) (a : List β)
    (hj : S[j]? = some a) (hf : f < a.length) :
    S.flatten[((S.take j).map List.length).sum + f]? = a[f]? := by
  induction S generalizing j with
  | nil => simp at hj
  | cons b S ih =>
    cases j with
    | zero =>
      simp only [List.getElem?_cons_zero, Option.some.injEq] at hj
      subst hj
      simp [List.getElem?_append_left hf]
    | succ j =>
      simp only [List.getElem?_cons_succ] at hj
      simp only [List.flatten_cons, List.take_succ_cons, List.map_cons, List.sum_cons]
      rw [List.getElem?_append_right (by omega)]
      have : b.length + ((S.take j).map List.length).sum + f - b.length
          = ((S.take j).map List.length).sum + f := by omega
      rw [this]
      exact ih j hj

theorem getElem?_splitBy (L : List Nat) (xs : List β) (t l : Nat) (ht : L[t]? = some l) :
    (splitBy L xs)[t]? = some ((xs.drop (L.take t).sum).take l) := by
  induction L generalizing xs t with
  | nil => simp at ht
  | cons l0 ls ih =>
    cases t with
    | zero =>
      simp only [List.getElem?_cons_zero, Option.some.injEq] at ht
      subst ht
      simp [splitBy]
    | succ t =>
      simp only [List.getElem?_cons_succ] at ht
      simp only [splitBy, List.getElem?_cons_succ, List.take_succ_cons, List.sum_cons]
      rw [ih _ t ht, List.drop_drop]

theorem sum_take_add_le (L : List Nat) (t l : Nat) (ht : L[t]? = some l) :
    (L.take t).sum + l ≤ L.sum := by
  induction L generalizing t with
  | nil => simp at ht
  | cons l0 ls ih =>
    cases t with
    | zero =>
      simp only [List.getElem?_cons_zero, Option.some.injEq] at ht
      subst ht; simp
    | succ t =>
      simp only [List.getElem?_cons_succ] at ht
      have := ih t ht
      simp only [List.take_succ_cons, List.sum_cons]; omega

/-- `(traj t, frame f)` ↦ `(rank, local index)` ↦ global frame id is `offset t + f` -/
theorem ctrIdMpi_inverse (w : Nat) (hw : 0 < w) (L : List Nat) (t f l : Nat)
    (ht : L[t]? = some l) (hf : f < l) :
    ∃ p, ctrIdMpi w L (t, f) = .ok p ∧ p.1 < w ∧ convertLocal w L p = .ok ((L.take t).sum + f) := by
  have htl : t < L.length := (List.getElem?_eq_some_iff.mp ht).1
  have hidx : t % w + t / w * w = t := by rw [Nat.mul_comm]; exact Nat.mod_add_div t w
  have hown : (stripe w L (t % w))[t / w]? = some l := by
    rw [getElem?_stripe w hw, hidx]; exact ht
  refine ⟨(t % w, ((stripe w L (t % w)).take (t / w)).sum + f), ?_, Nat.mod_lt t hw, ?_⟩
  · unfold ctrIdMpi
    simp only [hown, hf, if_true]
  · have hr : t % w < L.length := Nat.lt_of_le_of_lt (Nat.mod_le t w) htl
    rw [convertLocal_ok_iff w L _ _ _ hr hw]
    unfold localFrames
    have hrows : (splitBy L (List.range L.sum)).map List.length = L :=
      map_length_splitBy L _ (by simp)
    have hrow : (splitBy L (List.range L.sum))[t]? =
        some (((List.range L.sum).drop (L.take t).sum).take l) := getElem?_splitBy L _ t l ht
    have hS : (stripe w (splitBy L (List.range L.sum)) (t % w))[t / w]? =
        some (((List.range L.sum).drop (L.take t).sum).take l) := by
      rw [getElem?_stripe w hw, hidx]; exact hrow
    have hle := sum_take_add_le L t l ht
    have hlen : (((List.range L.sum).drop (L.take t).sum).take l).length = l := by
      simp only [List.length_take, List.length_drop, List.length_range]; omega
    have hll : stripe w L (t % w) = (stripe w (splitBy L (List.range L.sum)) (t % w)).map List.length := by
      rw [← stripe_map, hrows]
    rw [hll, ← List.map_take]
    rw [getElem?_flatten_offset _ (t / w) f _ hS (by omega)]
    rw [List.getElem?_take_of_lt hf, List.getElem?_drop, List.getElem?_range (by omega)]

/-! ### flat global ids -/

theorem locate_spec (L : List Nat) (g : Nat) (hg : g < L.sum) :
    ∃ t f l, locate L g = some (t, f) ∧ L[t]? = some l ∧ f < l ∧ (L.take t).sum + f = g := by
  induction L generalizing g with
  | nil => simp at hg
  | cons l0 ls ih =>
    unfold locate
    by_cases h : g < l0
    · exact ⟨0, g, l0, by simp [h], by simp, h, by simp⟩
    · simp only [h, if_false]
      have hg' : g - l0 < ls.sum := by simp only [List.sum_cons] at hg; omega
      obtain ⟨t, f, l, h1, h2, h3, h4⟩ := ih (g - l0) hg'
      refine ⟨t + 1, f, l, by simp [h1], by simpa using h2, h3, ?_⟩
      simp only [List.take_succ_cons, List.sum_cons]; omega

theorem locate_none (L : List Nat) (g : Nat) (hg : L.sum ≤ g) : locate L g = none := by
  induction L generalizing g with
  | nil => rfl
  | cons l0 ls ih =>
    simp only [List.sum_cons] at hg
    unfold locate
    have h : ¬ g < l0 := by omega
    simp only [h, if_false, ih (g - l0) (by omega), Option.map_none]

/-- a flat global frame id is sent to a `(rank, local index)` that converts back to it -/
theorem ctrIdMpi_flat_inverse (w : Nat) (hw : 0 < w) (L : List Nat) (g : Nat) (hg : g < L.sum) :
    ∃ p, ctrIdsMpiFlat w L [g] = .ok [p] ∧ p.1 < w ∧ convertLocal w L p = .ok g := by
  obtain ⟨t, f, l, h1, h2, h3, h4⟩ := locate_spec L g hg
  obtain ⟨p, hp, hpw, hc⟩ := ctrIdMpi_inverse w hw L t f l h2 h3
  refine ⟨p, ?_, hpw, by rw [hc, h4]⟩
  unfold ctrIdsMpiFlat
  simp only [List.mapM_cons, List.mapM_nil, h1, hp]
  rfl

/-! ### `assemble_striped_array` -/

theorem length_stripe_congr {β γ : Type} (w : Nat) (xs : List β) (ys : List γ) (h : xs.length = ys.length) (r : Nat) :
    (stripe w xs r).length = (stripe w ys r).length := by
  induction xs generalizing ys r with
  | nil =>
    cases ys with
    | nil => simp
    | cons y ys => simp at h
  | cons x xs ih =>
    cases ys with
    | nil => simp at h
    | cons y ys =>
      have h' : xs.length = ys.length := by simpa using h
      cases r with
      | zero => simp only [stripe, List.length_cons, ih ys h']
      | succ r => simp only [stripe]; exact ih ys h' r

theorem stripe_one (xs : List β) : stripe 1 xs 0 = xs := by
  induction xs with
  | nil => rfl
  | cons a l ih => simp only [stripe]; rw [ih]

theorem sumTo_length_stripe (w : Nat) (hw : 0 < w) (xs : List β) :
    Ens.sumTo w (fun r => (stripe w xs r).length) = xs.length := by
  have h := (stripe_perm w hw xs).length_eq
  rw [List.length_flatMap] at h
  rw [← h]
  clear h
  induction w with
  | zero => rfl
  | succ k _ =>
    have : ∀ (m : Nat) (f : Nat → Nat), Ens.sumTo m f = ((List.range m).map f).sum := by
      intro m f
      induction m with
      | zero => rfl
      | succ j ihj =>
        show Ens.sumTo j f + f j = _
        rw [ihj, List.range_succ, List.map_append, List.sum_append]; simp
    exact this _ _

theorem firstErr_eq_some {w : Nat} {chk : Nat → Option Err} {e : Err} (r0 : Nat) (hr0 : r0 < w)
    (h0 : chk r0 = some e) (hall : ∀ r, r < w → chk r = none ∨ chk r = some e) : firstErr w chk = some e := by
  unfold firstErr
  cases hf : (List.range w).findSome? chk with
  | none =>
    rw [List.findSome?_eq_none_iff] at hf
    have := hf r0 (List.mem_range.mpr hr0)
    rw [h0] at this; cases this
  | some e' =>
    obtain ⟨r, hr, he⟩ := List.exists_of_findSome?_eq_some hf
    rcases hall r (List.mem_range.mp hr) with h | h
    · rw [h] at he; cases he
    · rw [h] at he; exact he.symm ▸ rfl

/-- gathering the stripes of a positive integer array gives the array back on every rank;
    a non-positive entry raises ImproperlyConfigured (world size > 1) -/
theorem assembleStripedArray_stripes (w : Nat) (hw : 0 < w) (xs : List Int) :
    ((∀ x ∈ xs, 0 < x) → assembleStripedArray w (fun r => stripe w xs r) = .ok xs) ∧
    (w ≠ 1 → (∃ x ∈ xs, x ≤ 0) →
      assembleStripedArray w (fun r => stripe w xs r) = .error .improperlyConfigured) := by
  constructor
  · intro hpos
    unfold assembleStripedArray
    by_cases h1 : w = 1
    · subst h1; simp only [if_true]; rw [stripe_one]
    · simp only [h1, if_false]
      rw [sumTo_length_stripe w hw xs]
      have e1 : firstErr w (fun r => if (stripe w xs r).all (fun x => decide (0 < x)) then none
          else some Err.improperlyConfigured) = none := by
        rw [firstErr_eq_none]
        intro r _
        have : (stripe w xs r).all (fun x => decide (0 < x)) = true := by
          rw [List.all_eq_true]
          intro x hx
          exact decide_eq_true (hpos x (mem_stripe hx))
        simp only [this, if_true]
      have e2 : firstErr w (fun r => if (stripe w xs r).length = (stripeIdx w xs.length r).length then none
          else some Err.valueError) = none := by
        rw [firstErr_eq_none]
        intro r _
        have : (stripe w xs r).length = (stripeIdx w xs.length r).length := by
          unfold stripeIdx
          exact length_stripe_congr w xs (List.range xs.length) (by simp) r
        simp only [this, if_true]
      rw [e1]
      simp only
      rw [e2]
      simp only
      rw [unstripe_stripe w hw xs]
  · intro h1 hbad
    obtain ⟨x, hx, hx0⟩ := hbad
    unfold assembleStripedArray
    simp only [h1, if_false]
    have hm : x ∈ (List.range w).flatMap fun r => stripe w xs r := (stripe_perm w hw xs).mem_iff.mpr hx
    obtain ⟨r0, hr0, hxr⟩ := List.mem_flatMap.mp hm
    have e1 : firstErr w (fun r => if (stripe w xs r).all (fun x => decide (0 < x)) then none
        else some Err.improperlyConfigured) = some Err.improperlyConfigured := by
      apply firstErr_eq_some r0 (List.mem_range.mp hr0)
      · have : (stripe w xs r0).all (fun x => decide (0 < x)) = false := by
          rw [List.all_eq_false]
          exact ⟨x, hxr, by simp; omega⟩
        simp only [this]; rfl
      · intro r _
        by_cases hc : (stripe w xs r).all (fun x => decide (0 < x)) = true
        · left; simp only [hc, if_true]
        · right; simp only [hc]; rfl
    rw [e1]

end Ens.Mpi
