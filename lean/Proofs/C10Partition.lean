import Model.Assign
/-! Lemmas for C10: `partition_list`, `partition_indices`, `ClusterResult.partition`. -/
namespace Ens.Assign

deriving instance DecidableEq for Except

/-- the slicing loop written with `take`/`drop` on the remaining list -/
def splitBy {α} : List α → List Nat → List (List α)
  | _, [] => []
  | l, n :: ns => l.take n :: splitBy (l.drop n) ns

theorem partitionGo_eq_splitBy {α} (l : List α) (lens : List Nat) (start : Nat) :
    partitionGo l start lens = splitBy (l.drop start) lens := by
  induction lens generalizing start with
  | nil => rfl
  | cons n ns ih =>
    simp only [partitionGo, splitBy, pySlice, ih, List.drop_drop]
    rw [List.drop_take]
    congr 2; omega

theorem splitBy_flatten {α} (l : List α) (lens : List Nat) :
    (splitBy l lens).flatten = l.take lens.sum := by
  induction lens generalizing l with
  | nil => simp [splitBy]
  | cons n ns ih =>
    simp only [splitBy, List.flatten_cons, ih, List.sum_cons]
    rw [List.take_add]

theorem splitBy_lengths {α} (l : List α) (lens : List Nat) (h : lens.sum ≤ l.length) :
    (splitBy l lens).map List.length = lens := by
  induction lens generalizing l with
  | nil => simp [splitBy]
  | cons n ns ih =>
    simp only [List.sum_cons] at h
    simp only [splitBy, List.map_cons, List.length_take]
    rw [ih (l.drop n) (by simp; omega)]
    congr 1; omega

theorem splitBy_length {α} (l : List α) (lens : List Nat) : (splitBy l lens).length = lens.length := by
  induction lens generalizing l with
  | nil => rfl
  | cons n ns ih => simp [splitBy, ih]

/-- splitting the concatenation of pieces by their lengths gives the pieces back -/
theorem splitBy_flatten_self {α} (ps : List (List α)) :
    splitBy ps.flatten (ps.map List.length) = ps := by
  induction ps with
  | nil => rfl
  | cons p ps ih => simp [splitBy, ih]

theorem partitionList_ok {α} (l : List α) (lens : List Nat) (h : lens.sum = l.length) :
    partitionList l lens = .ok (splitBy l lens) := by
  simp [partitionList, h, partitionGo_eq_splitBy]

theorem partitionList_err {α} (l : List α) (lens : List Nat) (h : lens.sum ≠ l.length) :
    partitionList l lens = .error .dataInvalid := by
  simp [partitionList, h]

theorem partitionList_flatten_self {α} (ps : List (List α)) :
    partitionList ps.flatten (ps.map List.length) = .ok ps := by
  rw [partitionList_ok _ _ (by simp [List.length_flatten]), splitBy_flatten_self]

/-! ### `partition_indices` -/

theorem startOf_succ (lens : List Nat) (t : Nat) (L : Nat) (h : lens[t]? = some L) :
    startOf lens (t+1) = startOf lens t + L := by
  unfold startOf
  induction lens generalizing t with
  | nil => simp at h
  | cons a as ih =>
    cases t with
    | zero => simp at h; simp [h]
    | succ t =>
      simp only [List.getElem?_cons_succ] at h
      have := ih t h
      simp only [List.take_succ_cons, List.sum_cons] at this ⊢
      omega

theorem startOf_cons_succ (a : Nat) (as : List Nat) (t : Nat) :
    startOf (a :: as) (t+1) = a + startOf as t := by
  simp [startOf]

theorem startOf_zero (lens : List Nat) : startOf lens 0 = 0 := by simp [startOf]

/-- in-range flat index: found, in trajectory `t` at frame `f`, with `starts t + f = i` -/
theorem locate_inrange (lens : List Nat) (i : Int) (trj : Nat) (h0 : 0 ≤ i) (h1 : i < lens.sum) :
    ∃ (t f L : Nat), locate lens i trj = some (trj + t, (f : Int)) ∧ lens[t]? = some L ∧ f < L ∧
      ((startOf lens t + f : Nat) : Int) = i := by
  induction lens generalizing i trj with
  | nil => simp at h1; omega
  | cons a as ih =>
    simp only [locate]
    split
    · rename_i hlt
      refine ⟨0, i.toNat, a, ?_, by simp, by omega, ?_⟩
      · simp; omega
      · simp [startOf_zero]; omega
    · rename_i hge
      simp only [List.sum_cons] at h1
      obtain ⟨t, f, L, hl, hL, hf, hs⟩ := ih (i - a) (trj + 1) (by omega) (by omega)
      refine ⟨t+1, f, L, ?_, by simpa using hL, hf, ?_⟩
      · rw [hl]; congr 2; omega
      · rw [startOf_cons_succ]; omega

/-- flat index at or beyond the total: the inner loop ends without `break`, nothing is appended -/
theorem locate_beyond (lens : List Nat) (i : Int) (trj : Nat) (h : (lens.sum : Int) ≤ i) :
    locate lens i trj = none := by
  induction lens generalizing i trj with
  | nil => rfl
  | cons a as ih =>
    simp only [List.sum_cons] at h
    simp only [locate]
    rw [if_neg (by omega)]
    exact ih _ _ (by omega)

/-- negative index: the first trajectory "contains" it (the code returns `(0, index)`) -/
theorem locate_negative (a : Nat) (as : List Nat) (i : Int) (trj : Nat) (h : i < 0) :
    locate (a :: as) i trj = some (trj, i) := by
  simp only [locate]; rw [if_pos (by omega)]

theorem locate_none_iff (lens : List Nat) (i : Int) (trj : Nat) :
    locate lens i trj = none ↔ (lens = [] ∨ (lens.sum : Int) ≤ i) := by
  constructor
  · intro h
    cases lens with
    | nil => exact Or.inl rfl
    | cons a as =>
      right
      by_cases hneg : i < 0
      · rw [locate_negative a as i trj hneg] at h; simp at h
      · by_cases hlt : i < ((a :: as).sum : Nat)
        · obtain ⟨t, f, L, hl, _⟩ := locate_inrange (a :: as) i trj (by omega) hlt
          rw [hl] at h; simp at h
        · omega
  · rintro (h | h)
    · subst h; rfl
    · exact locate_beyond lens i trj h

/-- the flat position a (trajectory, frame) pair addresses -/
def flatOf (lens : List Nat) (p : Nat × Int) : Int := (startOf lens p.1 : Int) + p.2

theorem flatOf_locate (lens : List Nat) (i : Int) (p : Nat × Int) (h : locate lens i 0 = some p) :
    flatOf lens p = i := by
  cases lens with
  | nil => simp [locate] at h
  | cons a as =>
    by_cases hneg : i < 0
    · rw [locate_negative a as i 0 hneg] at h
      cases h; simp [flatOf, startOf_zero]
    · by_cases hlt : i < ((a :: as).sum : Nat)
      · obtain ⟨t, f, L, hl, _, _, hs⟩ := locate_inrange (a :: as) i 0 (by omega) hlt
        rw [hl] at h; cases h
        simp only [flatOf, Nat.zero_add]; omega
      · rw [locate_beyond (a :: as) i 0 (by omega)] at h; simp at h

/-- order and multiplicity: with all indices in range nothing is dropped, reordered or repeated -/
theorem partitionIndices_map_flat (inds : List Int) (lens : List Nat)
    (h : ∀ i ∈ inds, 0 ≤ i ∧ i < lens.sum) :
    (partitionIndices inds lens).map (flatOf lens) = inds := by
  induction inds with
  | nil => rfl
  | cons i is ih =>
    have hi := h i (by simp)
    obtain ⟨t, f, L, hl, _, _, _⟩ := locate_inrange lens i 0 hi.1 hi.2
    have ih' := ih (fun j hj => h j (by simp [hj]))
    simp only [partitionIndices] at ih' ⊢
    simp only [List.filterMap_cons, hl, List.map_cons, ih', flatOf_locate lens i _ hl]

/-- in general: exactly the indices `< total` survive (in order), each addressing itself -/
theorem partitionIndices_map_flat_general (inds : List Int) (lens : List Nat) (hne : lens ≠ []) :
    (partitionIndices inds lens).map (flatOf lens) = inds.filter (fun i => decide (i < (lens.sum : Int))) := by
  induction inds with
  | nil => rfl
  | cons i is ih =>
    simp only [partitionIndices] at ih ⊢
    cases hl : locate lens i 0 with
    | none =>
      have hle : (lens.sum : Int) ≤ i := by
        rcases (locate_none_iff lens i 0).1 hl with h | h
        · exact absurd h hne
        · exact h
      simp only [List.filterMap_cons, hl, ih]
      rw [List.filter_cons_of_neg (by simp; omega)]
    | some p =>
      have hlt : i < (lens.sum : Int) := by
        by_cases hc : i < (lens.sum : Int)
        · exact hc
        · have := (locate_none_iff lens i 0).2 (Or.inr (by omega))
          rw [this] at hl; simp at hl
      simp only [List.filterMap_cons, hl, List.map_cons, ih, flatOf_locate lens i p hl]
      rw [List.filter_cons_of_pos (by simpa using hlt)]

/-- the (trajectory, frame) pair addresses the same element in the partitioned list -/
theorem splitBy_getElem {α} (l : List α) (lens : List Nat) (t f L : Nat)
    (hL : lens[t]? = some L) (hf : f < L) (hsum : lens.sum ≤ l.length) :
    ∃ row, (splitBy l lens)[t]? = some row ∧ row[f]? = l[startOf lens t + f]? ∧
      startOf lens t + f < l.length := by
  induction lens generalizing l t with
  | nil => simp at hL
  | cons a as ih =>
    simp only [List.sum_cons] at hsum
    cases t with
    | zero =>
      simp at hL; subst hL
      refine ⟨l.take a, by simp [splitBy], ?_, by simp [startOf_zero]; omega⟩
      simp [startOf_zero, hf]
    | succ t =>
      simp only [List.getElem?_cons_succ] at hL
      obtain ⟨row, hr, hrow, hlt⟩ := ih (l.drop a) t hL (by simp; omega)
      refine ⟨row, by simpa [splitBy] using hr, ?_, ?_⟩
      · rw [hrow, List.getElem?_drop, startOf_cons_succ]; congr 1; omega
      · rw [startOf_cons_succ]; simp at hlt; omega

/-! ### `ClusterResult.partition` -/

theorem allEqual_iff (lens : List Nat) : allEqual lens = true ↔ ∀ x ∈ lens, ∀ y ∈ lens, x = y := by
  cases lens with
  | nil => simp [allEqual]
  | cons a as =>
    simp only [allEqual, List.all_eq_true, beq_iff_eq]
    constructor
    · intro h x hx y hy
      rw [← h x hx, ← h y hy]
    · intro h x hx
      exact h a (by simp) x hx

theorem le_sum_of_mem' {x : Nat} {l : List Nat} (h : x ∈ l) : x ≤ l.sum := by
  induction l with
  | nil => simp at h
  | cons a as ih =>
    simp only [List.mem_cons] at h
    simp only [List.sum_cons]
    rcases h with h | h
    · omega
    · have := ih h; omega

theorem sum_pos_of_not_allEqual (lens : List Nat) (h : allEqual lens = false) : 0 < lens.sum := by
  by_cases hc : 0 < lens.sum
  · exact hc
  exfalso
  have hz : lens.sum = 0 := by omega
  have hall : ∀ x ∈ lens, x = 0 := by
    intro x hx
    have := le_sum_of_mem' hx
    omega
  have : allEqual lens = true := (allEqual_iff lens).2 (fun x hx y hy => by rw [hall x hx, hall y hy])
  simp [this] at h

/-- closed form of `partition` on consistent input -/
theorem partition_eq {α β : Type} (a : List α) (d : List β) (ci : List Int) (lens : List Nat)
    (hne : lens ≠ []) (ha : lens.sum = a.length) (hd : lens.sum = d.length) :
    partition a d ci lens = .ok (
      if allEqual lens then
        ⟨.square (splitBy a lens), .square (splitBy d lens), partitionIndices ci lens⟩
      else
        ⟨.ragged a lens (splitBy a lens), .ragged d lens (splitBy d lens),
         partitionIndices ci lens⟩) := by
  have hpa := partitionList_ok a lens ha
  have hpd := partitionList_ok d lens hd
  cases lens with
  | nil => exact absurd rfl hne
  | cons l0 ls =>
    simp only [partition]
    generalize l0 :: ls = lens at *
    by_cases hsq : allEqual lens = true
    · simp only [hsq, if_true, hpa, hpd]
    · simp only [hsq, raggedArray, hpa, hpd]
      simp

/-- `partition` fails on inconsistent input: IndexError for empty `lengths`, DataInvalid when the
lengths do not sum to the length of both flat arrays -/
theorem partition_err {α β : Type} (a : List α) (d : List β) (ci : List Int) (lens : List Nat)
    (h : lens = [] ∨ lens.sum ≠ a.length ∨ lens.sum ≠ d.length) :
    partition a d ci lens = .error (if lens = [] then .indexError else .dataInvalid) := by
  cases lens with
  | nil => rfl
  | cons l0 ls =>
    have h' : (l0 :: ls).sum ≠ a.length ∨ (l0 :: ls).sum ≠ d.length := by
      rcases h with h | h
      · simp at h
      · exact h
    clear h
    simp only [partition, reduceCtorEq, if_false]
    generalize l0 :: ls = lens at *
    by_cases ha : lens.sum = a.length
    · have hd : lens.sum ≠ d.length := by
        rcases h' with h | h
        · exact absurd ha h
        · exact h
      have hpa := partitionList_ok a lens ha
      have hpd := partitionList_err d lens hd
      by_cases hsq : allEqual lens = true
      · simp only [hsq, if_true, hpa, hpd]
      · simp [hsq, raggedArray, hpa, hpd]
    · have hpa := partitionList_err a lens ha
      by_cases hsq : allEqual lens = true
      · simp only [hsq, if_true, hpa]
      · simp [hsq, raggedArray, hpa]

end Ens.Assign
