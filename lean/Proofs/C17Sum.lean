/- C17 helper: `sumTo` over `Nat` (monotonicity, one-term change), `best`, `firstMin`. -/
import Proofs.C17Ext

namespace Ens.Paths
open Ens

theorem sumTo_le_sumTo (n : Nat) (f g : Nat → Nat) (h : ∀ i, i < n → f i ≤ g i) :
    sumTo n f ≤ sumTo n g := by
  induction n with
  | zero => simp [sumTo]
  | succ k ih =>
    have := ih (fun i hi => h i (by omega))
    have := h k (by omega)
    simp only [sumTo]; omega

theorem sumTo_congr (n : Nat) (f g : Nat → Nat) (h : ∀ i, i < n → f i = g i) :
    sumTo n f = sumTo n g := by
  induction n with
  | zero => simp [sumTo]
  | succ k ih =>
    have := ih (fun i hi => h i (by omega))
    have := h k (by omega)
    simp only [sumTo]; omega

/-- one term drops by at least `d`, no term grows -/
theorem sumTo_add_le (n : Nat) (f g : Nat → Nat) (k d : Nat) (hk : k < n)
    (hd : f k + d ≤ g k) (h : ∀ i, i < n → f i ≤ g i) : sumTo n f + d ≤ sumTo n g := by
  induction n with
  | zero => omega
  | succ m ih =>
    simp only [sumTo]
    by_cases hkm : k = m
    · subst hkm
      have := sumTo_le_sumTo k f g (fun i hi => h i (by omega))
      omega
    · have := ih (by omega) (fun i hi => h i (by omega))
      have := h m (by omega)
      omega

/-- only term `k` changes -/
theorem sumTo_update (n : Nat) (f g : Nat → Nat) (k : Nat) (hk : k < n)
    (h : ∀ i, i < n → i ≠ k → g i = f i) : sumTo n g + f k = sumTo n f + g k := by
  induction n with
  | zero => omega
  | succ m ih =>
    simp only [sumTo]
    by_cases hkm : k = m
    · subst hkm
      have := sumTo_congr k g f (fun i hi => h i (by omega) (by omega))
      omega
    · have := ih (by omega) (fun i hi hne => h i (by omega) hne)
      have := h m (by omega) (by omega)
      omega

theorem sumTo_le_mul (n c : Nat) (f : Nat → Nat) (h : ∀ i, i < n → f i ≤ c) :
    sumTo n f ≤ n * c := by
  induction n with
  | zero => simp [sumTo]
  | succ k ih =>
    have := ih (fun i hi => h i (by omega))
    have := h k (by omega)
    simp only [sumTo, Nat.succ_mul]; omega

theorem le_sumTo (n : Nat) (f : Nat → Nat) (k : Nat) (hk : k < n) : f k ≤ sumTo n f := by
  have := sumTo_add_le n (fun _ => 0) f k (f k) hk (by simp) (by simp)
  omega

/-! ### `best` (first maximum) -/

theorem best_eq_none (lab : Nat → Ext) (q : List Nat) : best lab q = none ↔ q = [] := by
  cases q with
  | nil => simp [best]
  | cons x xs =>
    simp only [best]
    split
    · simp
    · split <;> simp

theorem best_spec (lab : Nat → Ext) : ∀ (q : List Nat) (k u : Nat), best lab q = some (k, u) →
    q[k]? = some u ∧ ∀ z ∈ q, lab z ≤ lab u
  | [], k, u, h => by simp [best] at h
  | x :: xs, k, u, h => by
    simp only [best] at h
    split at h
    · next hb =>
      have hnil := (best_eq_none lab xs).1 hb
      subst hnil
      simp only [Option.some.injEq, Prod.mk.injEq] at h
      obtain ⟨rfl, rfl⟩ := h
      simp
    · next k' y hb =>
      have ih := best_spec lab xs k' y hb
      split at h
      · next hlt =>
        simp only [Option.some.injEq, Prod.mk.injEq] at h
        obtain ⟨rfl, rfl⟩ := h
        refine ⟨by simpa using ih.1, ?_⟩
        intro z hz
        rcases List.mem_cons.1 hz with rfl | hz
        · exact le_of_lt hlt
        · exact ih.2 z hz
      · next hnlt =>
        simp only [Option.some.injEq, Prod.mk.injEq] at h
        obtain ⟨rfl, rfl⟩ := h
        refine ⟨by simp, ?_⟩
        intro z hz
        rcases List.mem_cons.1 hz with rfl | hz
        · exact le_refl _
        · exact le_trans (ih.2 z hz) (not_lt.1 hnlt)

theorem best_mem (lab : Nat → Ext) (q : List Nat) (k u : Nat) (h : best lab q = some (k, u)) :
    u ∈ q := List.mem_of_getElem? (best_spec lab q k u h).1

/-! ### `firstMin` (first minimum edge) -/

theorem firstMin_eq_none (F : Nat → Nat → Nat) (es : List (Nat × Nat)) :
    firstMin F es = none ↔ es = [] := by
  cases es with
  | nil => simp [firstMin]
  | cons x xs =>
    simp only [firstMin]
    split
    · simp
    · split <;> simp

theorem firstMin_spec (F : Nat → Nat → Nat) : ∀ (es : List (Nat × Nat)) (e : Nat × Nat),
    firstMin F es = some e → e ∈ es ∧ ∀ e' ∈ es, F e.1 e.2 ≤ F e'.1 e'.2
  | [], e, h => by simp [firstMin] at h
  | x :: xs, e, h => by
    simp only [firstMin] at h
    split at h
    · next hb =>
      have hnil := (firstMin_eq_none F xs).1 hb
      subst hnil
      simp only [Option.some.injEq] at h
      subst h
      simp
    · next y hb =>
      have ih := firstMin_spec F xs y hb
      split at h
      · next hlt =>
        simp only [Option.some.injEq] at h
        subst h
        refine ⟨List.mem_cons_of_mem _ ih.1, ?_⟩
        intro z hz
        rcases List.mem_cons.1 hz with rfl | hz
        · omega
        · exact ih.2 z hz
      · next hnlt =>
        simp only [Option.some.injEq] at h
        subst h
        refine ⟨List.mem_cons_self, ?_⟩
        intro z hz
        rcases List.mem_cons.1 hz with rfl | hz
        · exact Nat.le_refl _
        · have := ih.2 z hz
          omega

end Ens.Paths
