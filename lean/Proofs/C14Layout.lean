import Proofs.C14Ops
import Proofs.C14Kcenters
/-! The round-robin trajectory layout is a bijective layout; reassembly of related states. -/
namespace Ens.Mpi

variable {α : Type}

/-- rank `r`'s first local frame is the first frame of trajectory `r` -/
theorem localFrames_head (w : Nat) (hw : 0 < w) (L : List Nat) (r l : Nat) (hr : L[r]? = some l) (hl : 0 < l) :
    (localFrames w L r)[0]? = some (L.take r).sum := by
  unfold localFrames
  have hrow := getElem?_splitBy L (List.range L.sum) r l hr
  have hS : (stripe w (splitBy L (List.range L.sum)) r)[0]? =
      some (((List.range L.sum).drop (L.take r).sum).take l) := by
    rw [getElem?_stripe w hw]; simpa using hrow
  have hle := sum_take_add_le L r l hr
  have hlen : (((List.range L.sum).drop (L.take r).sum).take l).length = l := by
    simp only [List.length_take, List.length_drop, List.length_range]; omega
  have := getElem?_flatten_offset _ 0 0 _ hS (by omega)
  simp only [List.take_zero, List.map_nil, List.sum_nil, Nat.add_zero] at this
  rw [this, List.getElem?_take_of_lt hl, List.getElem?_drop, List.getElem?_range (by omega)]
  simp

theorem stripeLayout_bij (w : Nat) (hw : 0 < w) (L : List Nat) (hT : w ≤ L.length)
    (hpos : ∀ l ∈ L, 0 < l) : LayoutBij (stripeLayout w L) L.sum := by
  obtain ⟨hsurj, hinj, hlt⟩ := localFrames_bijective w hw L
  have hget : ∀ r i, i < (localFrames w L r).length →
      (localFrames w L r)[i]? = some ((localFrames w L r).getD i 0) := by
    intro r i hi
    rw [List.getD_eq_getElem?_getD, List.getElem?_eq_getElem hi]; rfl
  have hhead : ∀ r, r < w → (localFrames w L r)[0]? = some (L.take r).sum := by
    intro r hr
    have hrT : r < L.length := by omega
    exact localFrames_head w hw L r L[r] (List.getElem?_eq_getElem hrT) (hpos _ (List.getElem_mem hrT))
  constructor
  · exact hw
  · intro r hr
    show 0 < (localFrames w L r).length
    exact (List.getElem?_eq_some_iff.mp (hhead r hr)).1
  · intro r i hr hi
    exact hlt r i _ hr (hget r i hi)
  · intro r i r' i' hr hi hr' hi' he
    have h1 := hget r i hi
    have h2 := hget r' i' hi'
    have he' : (localFrames w L r).getD i 0 = (localFrames w L r').getD i' 0 := he
    rw [← he'] at h2
    exact hinj r i r' i' _ hr hr' h1 h2
  · intro g hg
    obtain ⟨r, i, hr, hi⟩ := hsurj g hg
    have hil : i < (localFrames w L r).length := (List.getElem?_eq_some_iff.mp hi).1
    refine ⟨r, i, hr, hil, ?_⟩
    have := hget r i hil
    rw [hi] at this
    injection this with this
    exact this.symm
  · show (localFrames w L 0).getD 0 0 = 0
    have := hhead 0 hw
    rw [List.getD_eq_getElem?_getD, this]; simp

/-- what a rank holds of a global per-frame array `f` -/
theorem tabulate_local (w : Nat) (L : List Nat) (f : Nat → α) (r : Nat) :
    Ens.tabulate ((stripeLayout w L).m r) (fun i => f ((stripeLayout w L).X r i)) =
    (localFrames w L r).map f := by
  unfold Ens.tabulate stripeLayout
  simp only
  apply List.ext_getElem
  · simp
  · intro i h1 h2
    simp only [List.getElem_map, List.getElem_range]
    congr 1
    rw [List.getD_eq_getElem?_getD, List.getElem?_eq_getElem (by simpa using h1)]; rfl

theorem assembleStripedRagged_congr (w : Nat) (hw : 0 < w) (L : List Nat) (p q : Nat → List α)
    (h : ∀ r, r < w → p r = q r) : assembleStripedRagged w L p = assembleStripedRagged w L q := by
  have he : firstErr w (raggedErr w L p) = firstErr w (raggedErr w L q) := by
    have hre : ∀ r, r < w → raggedErr w L p r = raggedErr w L q r := by
      intro r hr; unfold raggedErr; rw [h r hr]
    cases hq : firstErr w (raggedErr w L q) with
    | none =>
      rw [firstErr_eq_none] at hq ⊢
      intro r hr; rw [hre r hr]; exact hq r hr
    | some e =>
      unfold firstErr at hq ⊢
      rw [List.findSome?_eq_some_iff] at hq ⊢
      obtain ⟨l1, a, l2, hl, ha, hn⟩ := hq
      have hmem : ∀ x, x ∈ l1 ++ a :: l2 → x < w := by
        intro x hx; rw [← hl] at hx; exact List.mem_range.mp hx
      refine ⟨l1, a, l2, hl, ?_, ?_⟩
      · rw [hre a (hmem a (by simp))]; exact ha
      · intro x hx; rw [hre x (hmem x (by simp [hx]))]; exact hn x hx
  have hrw : ∀ r, r < w → raggedRows w L p r = raggedRows w L q r := by
    intro r hr; unfold raggedRows; rw [h r hr]
  unfold assembleStripedRagged
  rw [he, unstripe_congr w L.length hw _ _ hrw]

/-- reassembling the per-rank views of a global array gives the global array -/
theorem assemble_of_rel (w : Nat) (hw : 0 < w) (L : List Nat) (hT : w ≤ L.length) (f : Nat → α)
    (loc : Nat → Nat → α)
    (h : ∀ r i, r < w → i < (stripeLayout w L).m r → loc r i = f ((stripeLayout w L).X r i)) :
    assembleStripedRagged w L (fun r => Ens.tabulate ((stripeLayout w L).m r) (loc r)) =
      .ok (Ens.tabulate L.sum f) := by
  have h1 : ∀ r, r < w → Ens.tabulate ((stripeLayout w L).m r) (loc r) =
      (stripe w (splitBy L ((List.range L.sum).map f)) r).flatten := by
    intro r hr
    rw [localFrames_map, ← tabulate_local]
    unfold Ens.tabulate
    apply List.map_congr_left
    intro i hi
    exact h r i hr (List.mem_range.mp hi)
  rw [assembleStripedRagged_congr w hw L _ _ h1]
  exact assemble_ragged_ok w hw L hT ((List.range L.sum).map f) (by simp)

theorem mapM_ok_of_forall {β γ : Type} (l : List β) (f : β → Except Err γ) (g : β → γ)
    (h : ∀ x ∈ l, f x = .ok (g x)) : l.mapM f = .ok (l.map g) := by
  induction l with
  | nil => rfl
  | cons a l ih =>
    rw [List.mapM_cons, h a List.mem_cons_self, ih (fun x hx => h x (List.mem_cons_of_mem _ hx))]
    rfl

/-- `convert_local_indices` maps valid `(rank, local)` centers to their global frame ids -/
theorem convert_of_valid (w : Nat) (hw : 0 < w) (L : List Nat) (hT : w ≤ L.length)
    (ps : List (Nat × Nat)) (hv : ∀ p ∈ ps, p.1 < w ∧ p.2 < (stripeLayout w L).m p.1) :
    convertLocalIndices w L ps = .ok (ps.map fun p => (stripeLayout w L).X p.1 p.2) := by
  unfold convertLocalIndices
  apply mapM_ok_of_forall
  intro p hp
  obtain ⟨h1, h2⟩ := hv p hp
  have : p = (p.1, p.2) := rfl
  rw [this, convertLocal_ok_iff w L p.1 p.2 _ (by omega) hw]
  show (localFrames w L p.1)[p.2]? = some ((localFrames w L p.1).getD p.2 0)
  rw [List.getD_eq_getElem?_getD, List.getElem?_eq_getElem h2]; rfl

end Ens.Mpi
