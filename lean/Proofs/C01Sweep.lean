import Proofs.C01Pam
/-!
C01/C09 helper lemmas, part 3: one PAM step, the proposal, the sweep (`pamLoop`, `pamUpdate`),
the sweeps (`sweepsFrom`, `kmedoidsIterations`).
-/
namespace Ens.Cluster

/-! ### one step -/

theorem pamStep_spec {D : Table} {n : Nat} {s : St} {cid p : Nat} {st : PamStep}
    (h : pamStep D n s cid p = .ok st) :
    st.cid = cid ∧ st.p = p ∧
    st.oldCost = cost n s.arr.dist ∧ st.newCost = cost n (pamCandidate D n s cid p).arr.dist ∧
    (st.acc = true ↔ cost n (pamCandidate D n s cid p).arr.dist < cost n s.arr.dist) ∧
    st.after = (if st.acc = true then pamCandidate D n s cid p else s) := by
  unfold pamStep at h
  simp only [] at h
  split at h
  · cases h
  · injection h with h
    subst h
    simp

theorem pamStep_after_cases {D : Table} {n : Nat} {s : St} {cid p : Nat} {st : PamStep}
    (h : pamStep D n s cid p = .ok st) :
    (st.acc = false ∧ st.after = s) ∨
    (st.acc = true ∧ st.after = pamCandidate D n s cid p ∧
      cost n (pamCandidate D n s cid p).arr.dist < cost n s.arr.dist) := by
  obtain ⟨_, _, _, _, h5, h6⟩ := pamStep_spec h
  cases hacc : st.acc
  · left; simp [hacc] at h6; exact ⟨rfl, h6⟩
  · right; simp [hacc] at h6; exact ⟨rfl, h6, h5.mp hacc⟩

/-- the cost after a step is never above the cost before it -/
theorem pamStep_cost_le {D : Table} {n : Nat} {s : St} {cid p : Nat} {st : PamStep}
    (h : pamStep D n s cid p = .ok st) : cost n st.after.arr.dist ≤ cost n s.arr.dist := by
  rcases pamStep_after_cases h with ⟨_, e⟩ | ⟨_, e, hlt⟩
  · rw [e]
  · rw [e]; exact le_of_lt hlt

theorem pamStep_consistent {D : Table} {n : Nat} (T : TableOK D n) {s : St} (hs : Consistent D n s)
    {cid p : Nat} (hcid : cid < s.ctrInds.length) (hp : p < n) {st : PamStep}
    (h : pamStep D n s cid p = .ok st) : Consistent D n st.after := by
  rcases pamStep_after_cases h with ⟨_, e⟩ | ⟨_, e, hlt⟩
  · rw [e]; exact hs
  · rw [e]; exact cand_consistent T hs hcid hp hlt

/-- shape facts kept by a step from any state: number of centers, coordinates in lock-step with
indices, indices inside the data -/
structure Shape (n : Nat) (k : Nat) (s : St) : Prop where
  len : s.ctrInds.length = k
  frames : s.ctrFrames = s.ctrInds
  inds_lt : ∀ c ∈ s.ctrInds, c < n

theorem pamStep_shape {D : Table} {n k : Nat} {s : St} (hs : Shape n k s)
    {cid p : Nat} (hp : p < n) {st : PamStep}
    (h : pamStep D n s cid p = .ok st) : Shape n k st.after := by
  rcases pamStep_after_cases h with ⟨_, e⟩ | ⟨_, e, _⟩
  · rw [e]; exact hs
  · rw [e]
    refine ⟨by simp [hs.len], by simp [hs.frames], ?_⟩
    intro c hc
    rcases List.mem_or_eq_of_mem_set hc with h | h
    · exact hs.inds_lt c h
    · exact h ▸ hp

/-! ### the proposal -/

theorem propose_lt {n : Nat} {s : St} {cid : Nat} {props : Option (List Nat)} {orc orc' : List Nat} {p : Nat}
    (h : propose n s cid props orc = .ok (p, orc')) : p < n := by
  unfold propose at h
  split at h
  · split at h
    · cases h
    · split at h
      · injection h with h; injection h with h1 h2; subst h1; assumption
      · cases h
  · simp only [] at h
    split at h
    · cases h
    · split at h
      · cases h
      · split at h
        · cases h
        · rename_i q hq
          injection h with h; injection h with h1 h2; subst h1
          have := List.mem_of_getElem? hq
          simp [List.mem_filter] at this
          exact this.1

/-- a random proposal is a member of the cluster being updated (kmedoids.py L612, L514) -/
theorem propose_random_member {n : Nat} {s : St} {cid : Nat} {orc orc' : List Nat} {p : Nat}
    (h : propose n s cid none orc = .ok (p, orc')) : s.arr.assign p = (cid : Nat) := by
  unfold propose at h
  simp only [] at h
  split at h
  · cases h
  · split at h
    · cases h
    · split at h
      · cases h
      · rename_i q hq
        injection h with h; injection h with h1 h2; subst h1
        have := List.mem_of_getElem? hq
        simp [List.mem_filter] at this
        exact this.2

/-! ### one sweep -/

theorem pamLoop_cons_ok {D : Table} {n : Nat} {props : Option (List Nat)} {cid : Nat} {rest : List Nat}
    {s s' : St} {orc orc' : List Nat} {tr : List PamStep}
    (h : pamLoop D n props (cid :: rest) s orc = .ok (s', orc', tr)) :
    ∃ p orc1 st tr2, propose n s cid props orc = .ok (p, orc1) ∧ pamStep D n s cid p = .ok st ∧
      pamLoop D n props rest st.after orc1 = .ok (s', orc', tr2) ∧ tr = st :: tr2 := by
  simp only [pamLoop, bind, Except.bind] at h
  cases hp : propose n s cid props orc with
  | error e => simp [hp] at h
  | ok v =>
    obtain ⟨p, orc1⟩ := v
    simp only [hp] at h
    cases hst : pamStep D n s cid p with
    | error e => simp [hst] at h
    | ok st =>
      simp only [hst] at h
      cases hr : pamLoop D n props rest st.after orc1 with
      | error e => simp [hr] at h
      | ok w =>
        obtain ⟨s2, orc2, tr2⟩ := w
        simp only [hr, pure, Except.pure] at h
        injection h with h
        injection h with h1 h
        injection h with h2 h3
        subst h1; subst h2; subst h3
        exact ⟨p, orc1, st, tr2, rfl, hst, hr, rfl⟩

/-- costs of the states after each step -/
def costsOf (n : Nat) (tr : List PamStep) : List Rat := tr.map (fun st => cost n st.after.arr.dist)

theorem pamLoop_shape {D : Table} {n k : Nat} {props : Option (List Nat)} :
    ∀ (cids : List Nat) {s s' : St} {orc orc' : List Nat} {tr : List PamStep},
      Shape n k s → pamLoop D n props cids s orc = .ok (s', orc', tr) → Shape n k s' := by
  intro cids
  induction cids with
  | nil => intro s s' orc orc' tr hs h; simp [pamLoop] at h; obtain ⟨rfl, _, _⟩ := h; exact hs
  | cons cid rest ih =>
    intro s s' orc orc' tr hs h
    obtain ⟨p, orc1, st, tr2, h1, h2, h3, _⟩ := pamLoop_cons_ok h
    exact ih (pamStep_shape hs (propose_lt h1) h2) h3

/-- the whole accept/reject history of a sweep has non-increasing cost, and ends at the result -/
theorem pamLoop_costs {D : Table} {n : Nat} {props : Option (List Nat)} :
    ∀ (cids : List Nat) {s s' : St} {orc orc' : List Nat} {tr : List PamStep},
      pamLoop D n props cids s orc = .ok (s', orc', tr) →
      (cost n s.arr.dist :: costsOf n tr).Pairwise (fun x y => y ≤ x) ∧
      (∀ x ∈ cost n s.arr.dist :: costsOf n tr, cost n s'.arr.dist ≤ x) := by
  intro cids
  induction cids with
  | nil =>
    intro s s' orc orc' tr h
    simp [pamLoop] at h; obtain ⟨rfl, _, rfl⟩ := h
    simp [costsOf]
  | cons cid rest ih =>
    intro s s' orc orc' tr h
    obtain ⟨p, orc1, st, tr2, h1, h2, h3, rfl⟩ := pamLoop_cons_ok h
    obtain ⟨ihp, ihl⟩ := ih h3
    have hle := pamStep_cost_le h2
    have hall : ∀ x ∈ cost n st.after.arr.dist :: costsOf n tr2, x ≤ cost n s.arr.dist := by
      intro x hx
      rcases List.mem_cons.mp hx with rfl | hx'
      · exact hle
      · exact le_trans ((List.pairwise_cons.mp ihp).1 x hx') hle
    constructor
    · show (cost n s.arr.dist :: cost n st.after.arr.dist :: costsOf n tr2).Pairwise _
      exact List.pairwise_cons.mpr ⟨fun x hx => hall x hx, ihp⟩
    · intro x hx
      rcases List.mem_cons.mp hx with rfl | hx'
      · exact le_trans (ihl _ (List.mem_cons_self)) hle
      · exact ihl x hx'

theorem pamLoop_consistent {D : Table} {n : Nat} (T : TableOK D n) {props : Option (List Nat)} :
    ∀ (cids : List Nat) {s s' : St} {orc orc' : List Nat} {tr : List PamStep},
      (∀ c ∈ cids, c < s.ctrInds.length) → Consistent D n s →
      pamLoop D n props cids s orc = .ok (s', orc', tr) → Consistent D n s' := by
  intro cids
  induction cids with
  | nil => intro s s' orc orc' tr _ hs h; simp [pamLoop] at h; obtain ⟨rfl, _, _⟩ := h; exact hs
  | cons cid rest ih =>
    intro s s' orc orc' tr hc hs h
    obtain ⟨p, orc1, st, tr2, h1, h2, h3, _⟩ := pamLoop_cons_ok h
    have hcid : cid < s.ctrInds.length := hc cid List.mem_cons_self
    have hs1 := pamStep_consistent T hs hcid (propose_lt h1) h2
    have hlen : st.after.ctrInds.length = s.ctrInds.length :=
      (pamStep_shape (k := s.ctrInds.length) ⟨rfl, hs.frames, hs.inds_lt⟩ (propose_lt h1) h2).len
    exact ih (fun c hc' => by rw [hlen]; exact hc c (List.mem_cons_of_mem _ hc')) hs1 h3

/-- every step of the trace reports its own decision: rejected ⇒ the state is exactly the previous one -/
theorem pamLoop_trace_steps {D : Table} {n : Nat} {props : Option (List Nat)} :
    ∀ (cids : List Nat) {s s' : St} {orc orc' : List Nat} {tr : List PamStep},
      pamLoop D n props cids s orc = .ok (s', orc', tr) →
      (s :: tr.map (·.after)).IsChain (fun a b => b = a ∨ cost n b.arr.dist < cost n a.arr.dist) := by
  intro cids
  induction cids with
  | nil => intro s s' orc orc' tr h; simp [pamLoop] at h; obtain ⟨_, _, rfl⟩ := h; simp
  | cons cid rest ih =>
    intro s s' orc orc' tr h
    obtain ⟨p, orc1, st, tr2, h1, h2, h3, rfl⟩ := pamLoop_cons_ok h
    have := ih h3
    simp only [List.map_cons]
    refine List.IsChain.cons_cons ?_ this
    rcases pamStep_after_cases h2 with ⟨_, e⟩ | ⟨_, e, hlt⟩
    · left; exact e
    · right; rw [e]; exact hlt

/-! ### `_kmedoids_pam_update` -/

theorem pamUpdate_ok {D : Table} {n : Nat} {s s' : St} {props : Option (List Nat)} {orc orc' : List Nat}
    {tr : List PamStep} (h : pamUpdate D n s props orc = .ok (s', orc', tr)) :
    0 < n ∧ s.ctrInds ≠ [] ∧ (∀ c ∈ s.ctrInds, c < n) ∧ s.arr.fresh = false ∧
    (∀ ps, props = some ps → ps.length = s.ctrInds.length) ∧
    pamLoop D n props (List.range s.ctrInds.length) { s with ctrFrames := s.ctrInds } orc = .ok (s', orc', tr) := by
  unfold pamUpdate at h
  simp only [bind, Except.bind] at h
  by_cases h0 : n = 0
  · simp [h0, throw, throwThe, MonadExceptOf.throw] at h
  · simp only [h0, if_false] at h
    have hprops : ∀ ps, props = some ps → ps.length = s.ctrInds.length := by
      intro ps e; subst e
      by_contra hne
      simp [hne, throw, throwThe, MonadExceptOf.throw] at h
    cases props with
    | none =>
      simp only [] at h
      by_cases h1 : s.ctrInds = []
      · simp [h1, throw, throwThe, MonadExceptOf.throw] at h
      · simp only [h1, if_false] at h
        by_cases h2 : (s.ctrInds.any fun c => decide (n ≤ c)) = true
        · simp [h2, throw, throwThe, MonadExceptOf.throw] at h
        · simp only [h2] at h
          by_cases h3 : s.arr.fresh = true
          · simp [h3, throw, throwThe, MonadExceptOf.throw] at h
          · simp only [h3] at h
            refine ⟨Nat.pos_of_ne_zero h0, h1, ?_, by simpa using h3, hprops, by simpa using h⟩
            intro c hc
            simp only [List.any_eq_true, not_exists, not_and] at h2
            have := h2 c hc
            simpa using this
    | some ps =>
      have hl := hprops ps rfl
      simp only [hl, ne_eq, not_true_eq_false, if_false] at h
      by_cases h1 : s.ctrInds = []
      · simp [h1, throw, throwThe, MonadExceptOf.throw] at h
      · simp only [h1, if_false] at h
        by_cases h2 : (s.ctrInds.any fun c => decide (n ≤ c)) = true
        · simp [h2, throw, throwThe, MonadExceptOf.throw] at h
        · simp only [h2] at h
          by_cases h3 : s.arr.fresh = true
          · simp [h3, throw, throwThe, MonadExceptOf.throw] at h
          · simp only [h3] at h
            refine ⟨Nat.pos_of_ne_zero h0, h1, ?_, by simpa using h3, hprops, by simpa using h⟩
            intro c hc
            simp only [List.any_eq_true, not_exists, not_and] at h2
            have := h2 c hc
            simpa using this

end Ens.Cluster
