/-
C17 helper: `Ext` (−∞ / finite / +∞) is a linear order whose `min` is `Ext.min`; `relax` is `min`.
-/
import Model.Paths
import Mathlib.Order.Defs.LinearOrder
import Mathlib.Order.Lattice
import Mathlib.Order.MinMax
import Mathlib.Tactic.Order

namespace Ens.Paths
namespace Ext

theorem lt_def (a b : Ext) : a < b ↔ lt a b = true := Iff.rfl
theorem le_def (a b : Ext) : a ≤ b ↔ lt b a = false := Iff.rfl

instance : LinearOrder Ext where
  le := (· ≤ ·)
  lt := (· < ·)
  le_refl a := by cases a <;> simp [le_def, lt]
  le_trans a b c := by
    cases a <;> cases b <;> cases c <;> simp [le_def, lt]
    omega
  lt_iff_le_not_ge a b := by
    cases a <;> cases b <;> simp [le_def, lt_def, lt]
    omega
  le_antisymm a b := by
    cases a <;> cases b <;> simp [le_def, lt]
    omega
  le_total a b := by
    cases a <;> cases b <;> simp [le_def, lt]
    omega
  toDecidableLE := fun a b => inferInstanceAs (Decidable (lt b a = false))
  toDecidableLT := fun a b => inferInstanceAs (Decidable (lt a b = true))
  min := Ext.min
  min_def a b := by
    cases a <;> cases b <;> simp [Ext.min, le_def, lt_def, lt]
    all_goals (split <;> split <;> first | rfl | (congr 1; omega))

theorem min_eq (a b : Ext) : Ext.min a b = min a b := rfl

@[simp] theorem ninf_le (a : Ext) : ninf ≤ a := by cases a <;> simp [le_def, lt]
@[simp] theorem le_pinf (a : Ext) : a ≤ pinf := by cases a <;> simp [le_def, lt]
@[simp] theorem fin_le_fin (a b : Nat) : fin a ≤ fin b ↔ a ≤ b := by simp [le_def, lt]
@[simp] theorem fin_lt_fin (a b : Nat) : fin a < fin b ↔ a < b := by simp [lt_def, lt]
@[simp] theorem ninf_lt_fin (a : Nat) : ninf < fin a := by simp [lt_def, lt]
@[simp] theorem fin_lt_pinf (a : Nat) : fin a < pinf := by simp [lt_def, lt]
@[simp] theorem ninf_lt_pinf : ninf < pinf := by simp [lt_def, lt]
@[simp] theorem not_pinf_lt (a : Ext) : ¬ pinf < a := by cases a <;> simp [lt_def, lt]
@[simp] theorem not_lt_ninf (a : Ext) : ¬ a < ninf := by cases a <;> simp [lt_def, lt]
theorem le_ninf_iff (a : Ext) : a ≤ ninf ↔ a = ninf := by cases a <;> simp [le_def, lt]
theorem pinf_le_iff (a : Ext) : pinf ≤ a ↔ a = pinf := by cases a <;> simp [le_def, lt]
theorem ne_ninf_iff (a : Ext) : a ≠ ninf ↔ ninf < a := by cases a <;> simp [lt_def, lt]

@[simp] theorem min_pinf (a : Ext) : min a pinf = a := min_eq_left (le_pinf a)
@[simp] theorem pinf_min (a : Ext) : min pinf a = a := min_eq_right (le_pinf a)
theorem min_fin_fin (a b : Nat) : min (fin a) (fin b) = fin (min a b) := by
  rcases Nat.le_total a b with h | h
  · rw [min_eq_left ((fin_le_fin a b).2 h), Nat.min_eq_left h]
  · rw [min_eq_right ((fin_le_fin b a).2 h), Nat.min_eq_right h]

end Ext

/-- `relax w l = min l (fin w)` -/
theorem relax_eq (w : Nat) (l : Ext) : relax w l = min l (Ext.fin w) := by
  unfold relax
  rw [← Ext.min_eq]
  rfl

theorem relax_le_left (w : Nat) (l : Ext) : relax w l ≤ l := by
  rw [relax_eq]; exact min_le_left _ _

theorem relax_le_right (w : Nat) (l : Ext) : relax w l ≤ Ext.fin w := by
  rw [relax_eq]; exact min_le_right _ _

theorem relax_ne_ninf (w : Nat) (l : Ext) (h : l ≠ Ext.ninf) : relax w l ≠ Ext.ninf := by
  rw [relax_eq]
  rcases min_choice l (Ext.fin w) with h' | h' <;> rw [h']
  · exact h
  · simp

end Ens.Paths
