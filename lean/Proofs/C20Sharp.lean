import Proofs.C20Extra
/-!
C20, part 6: sharpness of the `NoSelfWrap` hypothesis for the two-basin list `[0, 180, 360]`:
for EVERY accepted buffer above the threshold 90 the two-frame sequence `0, 180` is admissible and
the code's output is not a run of the hysteresis automaton.
-/
namespace Ens.Rotamer

theorem phi_goodSet : GoodSet [0, 180, 360] = true := by decide +kernel

theorem phi_accepted {b : Rat} (h0 : 0 ≤ b) (h1 : b < 180) : Accepted [0, 180, 360] b := by
  refine ⟨h0, ?_⟩
  have e : (360 : Rat) / (((([0, 180, 360] : List Rat).length : Int) - 1 : Int) : Rat) = 180 := by
    norm_num
  rw [e]; exact h1

/-- `0` and `180` are not gate values when `90 < b < 180` -/
theorem phi_anglesOK {b : Rat} (h0 : 90 < b) (h1 : b < 180) : AnglesOK [0, 180, 360] b [0, 180] := by
  have key : ∀ j : Int, b ≠ 180 * (j : Rat) := by
    intro j hj
    rcases int_tri j with h | h | h
    · linarith
    · subst h; simp at hj; linarith
    · linarith
  intro a ha
  simp only [List.mem_cons, List.not_mem_nil, or_false] at ha
  have hav : AvoidsGates [0, 180, 360] b a := by
    intro v hv k
    simp only [List.mem_cons, List.not_mem_nil, or_false] at hv
    constructor <;> intro h <;> rcases ha with rfl | rfl <;> rcases hv with rfl | rfl | rfl
    · exact key (-2 * k) (by push_cast; linarith)
    · exact key (1 - 2 * k) (by push_cast; linarith)
    · exact key (2 - 2 * k) (by push_cast; linarith)
    · exact key (-1 - 2 * k) (by push_cast; linarith)
    · exact key (-2 * k) (by push_cast; linarith)
    · exact key (1 - 2 * k) (by push_cast; linarith)
    · exact key (2 * k) (by push_cast; linarith)
    · exact key (2 * k - 1) (by push_cast; linarith)
    · exact key (2 * k - 2) (by push_cast; linarith)
    · exact key (2 * k + 1) (by push_cast; linarith)
    · exact key (2 * k) (by push_cast; linarith)
    · exact key (2 * k - 1) (by push_cast; linarith)
  rcases ha with rfl | rfl <;> exact ⟨by norm_num, by norm_num, hav⟩

theorem phi_output {b : Rat} (h0 : 90 < b) (h1 : b < 180) :
    rotamers [0, 180] [0, 180, 360] b = .ok [0, 1] := by
  have hg := phi_goodSet
  have hacc := phi_accepted (by linarith) h1
  obtain ⟨hsort, hh, hl, _, _⟩ := goodSet_iff.1 hg
  have b0 : IsBasin [0, 180, 360] 0 0 := ⟨0, 180, by simp, by simp, by norm_num, by norm_num⟩
  have b1 : IsBasin [0, 180, 360] 1 180 := ⟨180, 360, by simp, by simp, by norm_num, by norm_num⟩
  have hf : firstFrame 0 [0, 180, 360] = ((0 : Nat) : Int) := by
    obtain ⟨i, e, hi⟩ := firstFrame_isBasin hh hl (le_refl (0 : Rat)) (by norm_num)
    rw [e, isBasin_unique hsort hi b0]
  have hexit : exitTest (gatesOf 0 180 b) 180 = true := by
    rw [exitTest_iff]
    simp only [gatesOf, if_true]
    have hne : ¬ ((180 : Rat) = 360) := by norm_num
    simp only [if_neg hne]
    right
    exact ⟨by linarith, Or.inl (by linarith)⟩
  have hstep : step [0, 180, 360] b ((0 : Nat) : Int) 180 = .ok 1 := by
    unfold step
    rw [isBufferedTransition_nat (lo := 0) (hi := 180) (by simp) (by simp), hexit]
    simp [bind, Except.bind, pure, Except.pure, digitize_of_isBasin hsort b1]
  unfold rotamers
  simp only [validate_ok hg hacc, hf, loop, hstep, bind, Except.bind, pure, Except.pure]
  rfl

theorem phi_not_specRun {b : Rat} (h0 : 90 < b) :
    ¬ SpecRun [0, 180, 360] b [0, 180] [0, 1] := by
  intro h
  simp only [SpecRun, SpecFrom] at h
  have hin : InWidened [0, 180, 360] b 0 180 :=
    ⟨0, 180, by simp, by simp, 0, by push_cast; linarith, by push_cast; linarith⟩
  have := h.2.1.1 hin
  omega

end Ens.Rotamer
