import Proofs.C13Spec
/-! From a successful `call` to the row results (composition of validation, dispatch and kernel). -/
namespace Ens.Dist
open Ens.Sched

/-- a successful call passed validation and dispatch and ran the kernel selected by the element type -/
theorem call_ok_kernelRun (k : Kernel) (Xm ym : Meta) (data : Data) (out : Option (Meta × Arr Cell))
    (choices : List Nat) (r : Result) (h : call k Xm ym data out choices = .ok r) :
    ∃ sh t, prepare Xm ym (out.map (·.1)) = .ok sh ∧
      dispatch k Xm ym ((out.map (·.1.writable)).getD true) = .ok t ∧
      ((∃ c X y, t.promote = some c ∧ data = .ints X y ∧
          kernelRun k (termInt intArith k c) X y (outArrOf out sh) choices = .ok r) ∨
       (∃ X y, t.promote = none ∧ data = .rats X y ∧
          kernelRun k (termRat k) X y (outArrOf out sh) choices = .ok r)) := by
  unfold call at h
  split at h
  · cases h
  rename_i sh hprep
  split at h
  · cases h
  rename_i t hdisp
  refine ⟨sh, t, hprep, hdisp, ?_⟩
  split at h
  · rename_i c X y hc
    exact Or.inl ⟨c, X, y, hc, rfl, h⟩
  · rename_i X y hc
    exact Or.inr ⟨X, y, hc, rfl, h⟩
  · cases h

/-- the returned view lists the row results, whatever the buffer held before -/
theorem values_of_spec {ε} (k : Kernel) (term : ε → ε → Rat) (X y : Arr ε) (out : Arr Cell)
    (r : Result) (n w : Nat) (so : Int) (rows : List (List ε)) (ys : List ε)
    (s : KernelSpec k term X y out r n w so rows ys) :
    r.values = rows.map (fun xs => rowResult k w (rowTerms term xs ys) .nan) := by
  unfold Result.values
  apply List.ext_getElem
  · simp [s.hn, s.hrowsLen]
  · intro i h1 h2
    have hi : i < rows.length := by simpa using h2
    obtain ⟨init, -, hr⟩ := s.hrow i rows[i] (List.getElem?_eq_getElem hi)
    simp only [List.getElem_map, List.getElem_range]
    rw [List.getD_eq_getElem?_getD, s.hoff, s.hstride, hr, Option.getD_some]
    exact rowResult_init k w _ init .nan

/-- the hamming kernel has no float specialisation (generated `INTEGRAL_TYPE_T`) -/
theorem hamming_dtype_is_int (t : DType) (h : t ∈ Kernel.dtypes .hamming) : t.promote ≠ none := by
  have : Kernel.dtypes .hamming = [.u8, .u16, .u32, .u64, .i8, .i16, .i32, .i64] := by decide
  rw [this] at h
  simp at h
  rcases h with rfl | rfl | rfl | rfl | rfl | rfl | rfl | rfl <;> simp [DType.promote]

end Ens.Dist
