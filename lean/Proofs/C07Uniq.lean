import Proofs.C07
/-!
C07: uniqueness of the absorbing-chain systems (from the maximum principle) and the converse
direction "first-step equations ⇒ solution of `(I−Q) x = lag·c`", used to identify the
all-pairs table with the single-sink computation.
-/
open Finset

namespace Ens.Tpt
open LinSolveT

/-- a vector with `x = 0` on `S` and `x i = lag + Σ_j T i j x j` elsewhere solves `(I−Q) x = lag·c` -/
theorem first_step_isSolution {n : Nat} {T : Mat} {S : List Nat} {x : Vec} {lag : Rat}
    (h0 : ∀ s ∈ S, x s = 0)
    (h1 : ∀ i, i < n → i ∉ S → x i = lag + ∑ j ∈ range n, T i j * x j) :
    IsSolution n 1 (ImQ T S) (fun i _ => x i) (fun i k => lag * cVec S i k) := by
  rw [isSolution_iff]
  intro i hi k _
  by_cases hS : i ∈ S
  · simp only [ImQ_abs_row T S hS, ite_mul, one_mul, zero_mul]
    rw [sum_ite_eq]; simp [hi, cVec, hS, h0 i hS]
  · simp only [ImQ_free_row T S hS]
    have e : ∀ j ∈ range n, (if j ∈ S then (0 : Rat) else (if i = j then 1 else 0) - T i j) * x j
        = (if i = j then x j else 0) - T i j * x j := by
      intro j _
      by_cases hj : j ∈ S
      · have : i ≠ j := fun e => hS (e ▸ hj)
        simp [hj, this, h0 j hj]
      · by_cases hij : i = j <;> simp [hj, hij, sub_mul]
    rw [sum_congr rfl e, sum_sub_distrib, sum_ite_eq]
    simp only [mem_range, hi, if_true, cVec, hS, if_false, mul_one]
    have := h1 i hi hS
    linarith

/-- scaling a solution of `(I−Q) t = c` by `lag` -/
theorem mfptSolve_scale {n : Nat} {T : Mat} {S : List Nat} {t : Vec} (lag : Rat)
    (ht : MfptSolve n T S t) :
    IsSolution n 1 (ImQ T S) (fun i _ => mfptSinksFrom lag t i) (fun i k => lag * cVec S i k) := by
  have ht' := (isSolution_iff _ _ _ _ _).1 ht
  rw [isSolution_iff]
  intro i hi k hk
  rw [← ht' i hi k hk, mul_sum]
  exact sum_congr rfl fun j _ => by simp only [mfptSinksFrom]; ring

/-- Uniqueness of `(I−Q) x = b` for a non-negative row-stochastic `T` from whose every state the
absorbing set is reachable (maximum principle applied to the difference of two solutions). -/
theorem absorbing_unique {n : Nat} {T : Mat} {S : List Nat} {b : Mat} {x y : Vec}
    (hS : ∀ s ∈ S, s < n)
    (hnn : ∀ i, i < n → ∀ j, j < n → 0 ≤ T i j)
    (hrow : ∀ i, i < n → ∑ j ∈ range n, T i j = 1)
    (hreach : ∀ i, i < n → Reach n T S i)
    (hx : IsSolution n 1 (ImQ T S) (fun i _ => x i) b)
    (hy : IsSolution n 1 (ImQ T S) (fun i _ => y i) b) :
    ∀ i, i < n → x i = y i := by
  have hd0 : ∀ s ∈ S, x s - y s = 0 := by
    intro s hs
    have a := sol_abs_row hx (hS s hs) hs Nat.zero_lt_one
    have c := sol_abs_row hy (hS s hs) hs Nat.zero_lt_one
    rw [a, c]; ring
  have hharm : ∀ i, i < n → i ∉ S → x i - y i = ∑ j ∈ range n, T i j * (x j - y j) := by
    intro i hi his
    have a := sol_free_row hx hi his Nat.zero_lt_one
    have c := sol_free_row hy hi his Nat.zero_lt_one
    have e : ∀ j ∈ range n, T i j * (x j - y j)
        = (if j ∈ S then (0 : Rat) else T i j * x j) - (if j ∈ S then (0 : Rat) else T i j * y j) := by
      intro j _
      by_cases hj : j ∈ S
      · simp [hj, hd0 j hj]
      · simp [hj, mul_sub]
    rw [sum_congr rfl e, sum_sub_distrib]
    linarith
  intro i hi
  have hle := harmonic_le (q := fun i => x i - y i) (c := 0) hnn hrow hreach
    (fun a ha => le_of_eq (hd0 a ha)) hharm i hi
  have hge := harmonic_ge (q := fun i => x i - y i) (c := 0) hnn hrow hreach
    (fun a ha => le_of_eq (hd0 a ha).symm) hharm i hi
  linarith

end Ens.Tpt
