import Proofs.C12Sweep

/-! Positivity: on a count matrix in which every state has an outgoing and an incoming
off-diagonal count (true for every strongly connected matrix with ≥ 2 states), the support of
`C + Cᵀ` stays inside the support of `X`, so the running row sums stay positive and the final
division is well defined. -/

set_option linter.unusedSectionVars false

namespace Ens.C12P
open Ens Ens.Mle

variable {K : Type} [Field K] [LinearOrder K] [IsStrictOrderedRing K] {n : Nat}

/-- every state has an outgoing and an incoming off-diagonal count -/
structure Conn (C : Mat K n) : Prop where
  out : ∀ i, ∃ k, k ≠ i ∧ 0 < mget C i k
  inn : ∀ i, ∃ k, k ≠ i ∧ 0 < mget C k i

/-- support invariant -/
structure Pos (C : Mat K n) (st : St K n) : Prop where
  off : ∀ i j, i ≠ j → 0 < mget C i j + mget C j i → 0 < mget st.X i j
  diag : ∀ i, 0 < mget C i i → 0 < mget st.X i i

theorem pair_le_sum (f : Fin n → K) (hf : ∀ k, 0 ≤ f k) {j k : Fin n} (hjk : j ≠ k) :
    f j + f k ≤ ∑ l, f l := by
  rw [← Finset.sum_pair hjk]
  exact Finset.sum_le_sum_of_subset_of_nonneg (Finset.subset_univ _) (fun l _ _ => hf l)

/-- entries are bounded by the rest of the row -/
theorem Inv.other_le {st : St K n} (h : Inv st) (i : Fin n) {j k : Fin n} (hjk : j ≠ k) :
    mget st.X i k ≤ vget st.rs i - mget st.X i j := by
  have := pair_le_sum (fun l => mget st.X i l) (h.nonneg i) hjk
  rw [h.rs i]; linarith

/-- some off-diagonal entry of row `i` of `X` is positive -/
theorem Pos.exists_off {C : Mat K n} {Crs : Vec K n} (hD : Data C Crs) (hc : Conn C)
    {st : St K n} (hp : Pos C st) (i : Fin n) : ∃ k, k ≠ i ∧ 0 < mget st.X i k := by
  obtain ⟨k, hk, hpos⟩ := hc.out i
  exact ⟨k, hk, hp.off i k (Ne.symm hk) (add_pos_of_pos_of_nonneg hpos (hD.nonneg k i))⟩

theorem Pos.rs_pos {C : Mat K n} {Crs : Vec K n} (hD : Data C Crs) (hc : Conn C)
    {st : St K n} (h : Inv st) (hp : Pos C st) (i : Fin n) : 0 < vget st.rs i := by
  obtain ⟨k, _, h1⟩ := hp.exists_off hD hc i
  exact lt_of_lt_of_le h1 (h.le_rs i k)

/-- the off-diagonal mass of every row is positive -/
theorem Pos.off_mass_pos {C : Mat K n} {Crs : Vec K n} (hD : Data C Crs) (hc : Conn C)
    {st : St K n} (h : Inv st) (hp : Pos C st) (i : Fin n) :
    0 < vget st.rs i - mget st.X i i := by
  obtain ⟨k, hk, h1⟩ := hp.exists_off hD hc i
  exact lt_of_lt_of_le h1 (h.other_le i (Ne.symm hk))

theorem init_pos {C : Mat K n} {Crs : Vec K n} {st0 : St K n}
    (h : init C = .ok (Crs, st0)) : Pos C st0 := by
  unfold init at h
  dsimp only at h
  split at h
  · injection h with h
    injection h with h1 h2
    subst h2
    refine ⟨?_, ?_⟩
    · intro i j _ hpos; simpa only [mget_ofFn] using hpos
    · intro i hpos; simp only [mget_ofFn]; exact add_pos hpos hpos
  · cases h

theorem diagStep_pos {C : Mat K n} {Crs : Vec K n} (hD : Data C Crs) (hc : Conn C)
    {st : St K n} (h : Inv st) (hp : Pos C st) (i : Fin n) : Pos C (diagStep C Crs st i) := by
  unfold diagStep
  by_cases hden : 0 < vget Crs i - mget C i i
  · simp only [hden, if_true]
    refine ⟨?_, ?_⟩
    · intro a b hab hpos
      have : ¬ (a = i ∧ b = i) := fun ⟨h1, h2⟩ => hab (h1.trans h2.symm)
      simp only [mget_mset, this, if_false]
      exact hp.off a b hab hpos
    · intro a hpos
      simp only [mget_mset, and_self]
      by_cases ha : a = i
      · subst ha
        simp only [if_true]
        exact div_pos (mul_pos hpos (hp.off_mass_pos hD hc h a)) hden
      · simp only [ha, if_false]
        exact hp.diag a hpos
  · simp only [hden, if_false]
    exact ⟨hp.off, hp.diag⟩

/-- the chosen root is positive when `c < 0` -/
theorem root_pos_of_neg {sqrt : K → K} (hs : SqrtSpec sqrt) {a b c : K} (ha : 0 < a) (hc : c < 0) :
    0 < (-b + sqrt (b * b - 4 * a * c)) / (2 * a) := by
  have hd := disc_nonneg (b := b) (le_of_lt ha) (le_of_lt hc)
  have hs0 := hs.nonneg _ hd
  have hsq := hs.mul_self _ hd
  have hgt : b < sqrt (b * b - 4 * a * c) := by
    by_contra hle
    have hle := not_lt.1 hle
    have hb : 0 ≤ b := le_trans hs0 hle
    have : sqrt (b * b - 4 * a * c) * sqrt (b * b - 4 * a * c) ≤ b * b :=
      mul_self_le_mul_self hs0 hle
    have hac : 0 < a * (-c) := mul_pos ha (neg_pos.2 hc)
    nlinarith
  apply div_pos
  · linarith
  · linarith

/-- the chosen root is positive when `c = 0` and `b < 0` -/
theorem root_pos_of_b_neg {sqrt : K → K} (hs : SqrtSpec sqrt) {a b c : K} (ha : 0 < a)
    (hc : c = 0) (hb : b < 0) : 0 < (-b + sqrt (b * b - 4 * a * c)) / (2 * a) := by
  have hd := disc_nonneg (b := b) (le_of_lt ha) (le_of_eq hc)
  have hs0 := hs.nonneg _ hd
  apply div_pos
  · linarith
  · linarith

/-- if the rest of row `i` of `X` (all but column `j`) is empty then row `i` of `C` has only
the entry `j`, and the incoming count of `i` comes from `j` -/
theorem rest_zero {C : Mat K n} {Crs : Vec K n} (hD : Data C Crs) (hc : Conn C)
    {st : St K n} (h : Inv st) (hp : Pos C st) {i j : Fin n} (hij : i ≠ j)
    (hR : vget st.rs i - mget st.X i j = 0) :
    vget Crs i = mget C i j ∧ 0 < mget C j i := by
  have hzero : ∀ k, k ≠ j → mget st.X i k = 0 := fun k hk =>
    le_antisymm (hR ▸ h.other_le i (Ne.symm hk)) (h.nonneg i k)
  have hC0 : ∀ k, k ≠ j → mget C i k = 0 ∧ (k ≠ i → mget C k i = 0) := by
    intro k hk
    by_cases hki : k = i
    · subst hki
      refine ⟨?_, fun hne => absurd rfl hne⟩
      by_contra hne
      have hpos : 0 < mget C k k := lt_of_le_of_ne (hD.nonneg k k) (Ne.symm hne)
      exact absurd (hzero k hk) (ne_of_gt (hp.diag k hpos))
    · have hsum : ¬ 0 < mget C i k + mget C k i := fun hpos =>
        absurd (hzero k hk) (ne_of_gt (hp.off i k (Ne.symm hki) hpos))
      have h1 := hD.nonneg i k
      have h2 := hD.nonneg k i
      have : mget C i k + mget C k i = 0 :=
        le_antisymm (not_lt.1 hsum) (add_nonneg h1 h2)
      exact ⟨by linarith, fun _ => by linarith⟩
  constructor
  · rw [hD.crs i]
    exact Finset.sum_eq_single j (fun k _ hk => (hC0 k hk).1) (fun hj => absurd (Finset.mem_univ j) hj)
  · obtain ⟨k, hki, hpos⟩ := hc.inn i
    by_cases hkj : k = j
    · subst hkj; exact hpos
    · exact absurd ((hC0 k hkj).2 hki) (ne_of_gt hpos)

theorem newV_pos {sqrt : K → K} (hs : SqrtSpec sqrt) {C : Mat K n} {Crs : Vec K n}
    (hD : Data C Crs) (hc : Conn C) {st : St K n} (h : Inv st) (hp : Pos C st)
    {i j : Fin n} (hij : i ≠ j) (hcij : 0 < mget C i j + mget C j i) :
    0 < newV sqrt C Crs st i j := by
  unfold newV
  by_cases ha : coefA C Crs i j = 0
  · simp only [ha, beq_self_eq_true, if_true]
    exact hp.off j i (Ne.symm hij) (by rw [add_comm]; exact hcij)
  · have ha' : (coefA C Crs i j == 0) = false := by simpa using ha
    simp only [ha', Bool.false_eq_true, if_false]
    have hapos : 0 < coefA C Crs i j := lt_of_le_of_ne (coefA_nonneg hD i j) (Ne.symm ha)
    have hRi : 0 ≤ vget st.rs i - mget st.X i j := sub_nonneg.2 (h.le_rs i j)
    have hRj : 0 ≤ vget st.rs j - mget st.X i j := by
      rw [h.symm i j]; exact sub_nonneg.2 (h.le_rs j i)
    by_cases hi0 : vget st.rs i - mget st.X i j = 0
    · by_cases hj0 : vget st.rs j - mget st.X i j = 0
      · -- both rests empty: then a = 0, contradiction
        exfalso
        have hj0' : vget st.rs j - mget st.X j i = 0 := by rw [← h.symm i j]; exact hj0
        obtain ⟨e1, _⟩ := rest_zero hD hc h hp hij hi0
        obtain ⟨e2, _⟩ := rest_zero hD hc h hp (Ne.symm hij) hj0'
        apply ha
        unfold coefA
        rw [e1, e2]; ring
      · obtain ⟨e1, hji⟩ := rest_zero hD hc h hp hij hi0
        have hRjpos : 0 < vget st.rs j - mget st.X i j := lt_of_le_of_ne hRj (Ne.symm hj0)
        apply root_pos_of_b_neg hs hapos
        · unfold coefC; rw [hi0]; ring
        · have hb : coefB C Crs st i j
              = -(mget C j i) * (vget st.rs j - mget st.X i j) := by
            unfold coefB
            have : vget st.rs i = mget st.X i j := by linarith
            rw [e1, this]; ring
          rw [hb]
          exact mul_neg_of_neg_of_pos (neg_neg_of_pos hji) hRjpos
    · have hRipos : 0 < vget st.rs i - mget st.X i j := lt_of_le_of_ne hRi (Ne.symm hi0)
      by_cases hj0 : vget st.rs j - mget st.X i j = 0
      · have hj0' : vget st.rs j - mget st.X j i = 0 := by rw [← h.symm i j]; exact hj0
        obtain ⟨e2, hijpos⟩ := rest_zero hD hc h hp (Ne.symm hij) hj0'
        apply root_pos_of_b_neg hs hapos
        · unfold coefC; rw [hj0]; ring
        · have hb : coefB C Crs st i j
              = -(mget C i j) * (vget st.rs i - mget st.X i j) := by
            unfold coefB
            have : vget st.rs j = mget st.X i j := by linarith
            rw [e2, this]; ring
          rw [hb]
          exact mul_neg_of_neg_of_pos (neg_neg_of_pos hijpos) hRipos
      · have hRjpos : 0 < vget st.rs j - mget st.X i j := lt_of_le_of_ne hRj (Ne.symm hj0)
        apply root_pos_of_neg hs hapos
        unfold coefC
        have : 0 < (mget C i j + mget C j i) * (vget st.rs i - mget st.X i j)
            * (vget st.rs j - mget st.X i j) := mul_pos (mul_pos hcij hRipos) hRjpos
        linarith

theorem pairStep_pos {sqrt : K → K} (hs : SqrtSpec sqrt) {C : Mat K n} {Crs : Vec K n}
    (hD : Data C Crs) (hc : Conn C) {st st' : St K n} (h : Inv st) (hp : Pos C st)
    {i j : Fin n} (hij : i ≠ j) (hst : pairStep sqrt C Crs st i j = .ok st') : Pos C st' := by
  rw [pairStep_ok hD h] at hst
  injection hst with hst
  subst hst
  have hji : j ≠ i := Ne.symm hij
  refine ⟨?_, ?_⟩
  · intro a b hab hpos
    simp only [mget_mset]
    by_cases h1 : a = j ∧ b = i
    · obtain ⟨rfl, rfl⟩ := h1
      simp only [and_self, if_true]
      exact newV_pos hs hD hc h hp hij (by rw [add_comm]; exact hpos)
    · by_cases h2 : a = i ∧ b = j
      · obtain ⟨rfl, rfl⟩ := h2
        simp only [h1, if_false, and_self, if_true]
        exact newV_pos hs hD hc h hp hij hpos
      · simp only [h1, h2, if_false]
        exact hp.off a b hab hpos
  · intro a hpos
    have h1 : ¬ (a = j ∧ a = i) := fun ⟨x, y⟩ => hji (x.symm.trans y)
    have h2 : ¬ (a = i ∧ a = j) := fun ⟨x, y⟩ => hij (x.symm.trans y)
    simp only [mget_mset, h1, h2, if_false]
    exact hp.diag a hpos

/-- invariant + support invariant -/
def Good (C : Mat K n) (st : St K n) : Prop := Inv st ∧ Pos C st

theorem good_diag {C : Mat K n} {Crs : Vec K n} (hD : Data C Crs) (hc : Conn C)
    (st : St K n) (i : Fin n) (h : Good C st) : Good C (diagStep C Crs st i) :=
  ⟨diagStep_inv hD h.1 i, diagStep_pos hD hc h.1 h.2 i⟩

theorem good_pair {sqrt : K → K} (hs : SqrtSpec sqrt) {C : Mat K n} {Crs : Vec K n}
    (hD : Data C Crs) (hc : Conn C) (st : St K n) (i j : Fin n) (h : Good C st) (hij : i ≠ j) :
    ∃ st', pairStep sqrt C Crs st i j = .ok st' ∧ Good C st' :=
  ⟨_, pairStep_ok hD h.1 i j, pairStep_inv hs hD h.1 hij (pairStep_ok hD h.1 i j),
    pairStep_pos hs hD hc h.1 h.2 hij (pairStep_ok hD h.1 i j)⟩

theorem loop_good {sqrt log : K → K} (hs : SqrtSpec sqrt) (tol : K) {C : Mat K n}
    {Crs : Vec K n} (hD : Data C Crs) (hc : Conn C) (fuel k : Nat) (st : St K n) (old : K)
    (h : Good C st) :
    ∃ st' k', loop sqrt log tol C Crs fuel k st old = .ok (st', k') ∧ Good C st' ∧
      k ≤ k' ∧ k' + 1 ≤ k + max fuel 1 :=
  loop_gen (Good C) tol (good_diag hD hc) (good_pair hs hD hc) fuel k st old h

theorem sweepsN_good {sqrt log : K → K} (hs : SqrtSpec sqrt) {C : Mat K n}
    {Crs : Vec K n} (hD : Data C Crs) (hc : Conn C) (k : Nat) {st : St K n} (h : Good C st) :
    ∃ st', sweepsN sqrt log C Crs k st = .ok st' ∧ Good C st' :=
  sweepsN_gen (Good C) (good_diag hD hc) (good_pair hs hD hc) k h

end Ens.C12P
