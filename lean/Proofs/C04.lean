import Model.Builders
import Mathlib.Algebra.BigOperators.Field
import Mathlib.Algebra.Order.BigOperators.Ring.Finset
import Mathlib.Algebra.Order.Field.Basic
import Mathlib.Tactic.Ring
import Mathlib.Tactic.FieldSimp
import Mathlib.Tactic.Linarith
import Mathlib.Tactic.Positivity

/-! Helper lemmas for C04: `sumTo` ↔ `Finset.range` bridge and the algebra of
row normalisation / symmetric matrices over an arbitrary linear ordered field. -/

set_option linter.unusedSectionVars false

namespace Ens.C04P
open Ens Ens.Builders

section
variable {K : Type} [Field K]

theorem sumTo_eq_sum (n : Nat) (f : Nat → K) : sumTo n f = ∑ k ∈ Finset.range n, f k := by
  induction n with
  | zero => simp [sumTo]
  | succ k ih => simp [sumTo, Finset.sum_range_succ, ih]

theorem rowSum_eq (n : Nat) (C : Mat K) (i : Nat) :
    rowSum n C i = ∑ j ∈ Finset.range n, C i j := sumTo_eq_sum n _

theorem total_eq (n : Nat) (C : Mat K) :
    total n C = ∑ i ∈ Finset.range n, ∑ j ∈ Finset.range n, C i j := by
  unfold total
  rw [sumTo_eq_sum]
  exact Finset.sum_congr rfl (fun i _ => rowSum_eq n C i)

/-- row sums of a matrix that is symmetric on `[0,n)²` are also its column sums -/
theorem colSum_of_symm (n : Nat) (X : Mat K)
    (hsym : ∀ i j, i < n → j < n → X i j = X j i) (j : Nat) (hj : j < n) :
    ∑ i ∈ Finset.range n, X i j = ∑ i ∈ Finset.range n, X j i :=
  Finset.sum_congr rfl (fun i hi => hsym i j (Finset.mem_range.mp hi) hj)

end

section
variable {K : Type} [Field K] [LinearOrder K] [IsStrictOrderedRing K]

theorem total_pos (n : Nat) (hn : 0 < n) (C : Mat K) (hpos : ∀ i, i < n → 0 < rowSum n C i) :
    0 < total n C := by
  unfold total
  rw [sumTo_eq_sum]
  apply Finset.sum_pos
  · intro i hi; exact hpos i (Finset.mem_range.mp hi)
  · exact ⟨0, Finset.mem_range.mpr hn⟩

theorem sum_pos_of_pos (n : Nat) (hn : 0 < n) (v : Nat → K) (hpos : ∀ i, i < n → 0 < v i) :
    0 < sumTo n v := by
  rw [sumTo_eq_sum]
  apply Finset.sum_pos
  · intro i hi; exact hpos i (Finset.mem_range.mp hi)
  · exact ⟨0, Finset.mem_range.mpr hn⟩

theorem invWeight_pos {w : K} (h : 0 < w) : invWeight w = 1 / w := by
  simp [invWeight, h]

theorem invWeight_nonpos {w : K} (h : ¬ 0 < w) : invWeight w = 0 := by
  simp [invWeight, h]

theorem invWeight_nonneg (w : K) : 0 ≤ invWeight w := by
  unfold invWeight
  split
  · positivity
  · exact le_refl 0

theorem rowNormalize_entry {n : Nat} {C : Mat K} {i : Nat} (h : 0 < rowSum n C i) (j : Nat) :
    rowNormalize n C i j = C i j / rowSum n C i := by
  unfold rowNormalize
  rw [invWeight_pos h]
  ring

theorem rowNormalize_row_sum {n : Nat} {C : Mat K} {i : Nat} (h : 0 < rowSum n C i) :
    sumTo n (fun j => rowNormalize n C i j) = 1 := by
  have hne : rowSum n C i ≠ 0 := ne_of_gt h
  rw [sumTo_eq_sum]
  simp only [rowNormalize_entry h]
  rw [← Finset.sum_div, ← rowSum_eq]
  exact div_self hne

/-- `π_i T_ij = S_ij / total` for `T = rownorm S`, `π = rowsum S / total` -/
theorem pi_mul_T {n : Nat} {S : Mat K} {i : Nat} (h : 0 < rowSum n S i) (tot : K) (j : Nat) :
    rowSum n S i / tot * rowNormalize n S i j = S i j / tot := by
  have hne : rowSum n S i ≠ 0 := ne_of_gt h
  rw [rowNormalize_entry h]
  field_simp

/-- same with plain division (the MLE output stage) -/
theorem pi_mul_div {r tot x : K} (h : r ≠ 0) : r / tot * (x / r) = x / tot := by
  field_simp

end
end Ens.C04P
