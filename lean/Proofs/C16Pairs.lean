import Proofs.C16Spec
/-!
`eigPost` keeps eigenpairs together; small universal facts about `resolveNEigs`, `impNTimes`,
the `left` switch of `eigenspectrum`; well-formedness of the mappings `fit` produces.
-/
namespace Ens.Msm
open Ens

/-! ### reordering by a list of valid indices -/

theorem filterMap_getElem?_of_lt {α : Type} (xs : List α) (l : List Nat)
    (h : ∀ i ∈ l, i < xs.length) (j : Nat) :
    (l.filterMap (xs[·]?))[j]? = (l[j]?).bind (xs[·]?) := by
  induction l generalizing j with
  | nil => simp
  | cons i rest ih =>
    have hi : i < xs.length := h i List.mem_cons_self
    have hx : xs[i]? = some xs[i] := List.getElem?_eq_getElem hi
    simp only [List.filterMap_cons, hx]
    cases j with
    | zero => simp [hx]
    | succ j =>
      simp only [List.getElem?_cons_succ]
      exact ih (fun a ha => h a (List.mem_cons_of_mem _ ha)) j

theorem filterMap_length_of_lt {α : Type} (xs : List α) (l : List Nat)
    (h : ∀ i ∈ l, i < xs.length) : (l.filterMap (xs[·]?)).length = l.length := by
  induction l with
  | nil => rfl
  | cons i rest ih =>
    have hi : i < xs.length := h i List.mem_cons_self
    simp only [List.filterMap_cons, List.getElem?_eq_getElem hi, List.length_cons]
    rw [ih (fun a ha => h a (List.mem_cons_of_mem _ ha))]

theorem argsortDesc_eq (vals : List Cx) : argsortDesc vals = (sortedPairs vals).map (·.1) := rfl

theorem argsortDesc_perm (vals : List Cx) : (argsortDesc vals).Perm (List.range vals.length) := by
  rw [argsortDesc_eq]
  have := (sortedPairs_perm vals).map (·.1)
  rwa [List.map_fst_zip (by simp)] at this

theorem argsortDesc_lt (vals : List Cx) : ∀ i ∈ argsortDesc vals, i < vals.length := by
  intro i hi
  exact List.mem_range.mp ((argsortDesc_perm vals).mem_iff.mp hi)

theorem argsortDesc_length (vals : List Cx) : (argsortDesc vals).length = vals.length := by
  rw [(argsortDesc_perm vals).length_eq, List.length_range]

/-- `eigPost` returns, position by position, the real part of the value and (the real part of) the
vector of ONE input eigenpair `(vals[i], cols[i])`, `i = order[j]`; the vector in position 0 is
divided by its (non-zero) sum first. -/
theorem eigPost_pairs (k : Nat) (vals : List Cx) (cols : List (List Cx))
    (hlen : cols.length = vals.length)
    (v : List Rat) (c : List (List Rat)) (h : eigPost k vals cols = .ok (v, c)) :
    v.length = min k vals.length ∧ c.length = v.length ∧
    ∀ j, j < v.length → ∃ i z col, (argsortDesc vals)[j]? = some i ∧ vals[i]? = some z ∧
      cols[i]? = some col ∧ v[j]? = some z.re ∧
      (j = 0 → cxSum col ≠ Cx.zero ∧ c[j]? = some (col.map fun w => (w.div (cxSum col)).re)) ∧
      (j ≠ 0 → c[j]? = some (col.map (·.re))) := by
  have hlt := argsortDesc_lt vals
  have hltc : ∀ i ∈ argsortDesc vals, i < cols.length := by rw [hlen]; exact hlt
  obtain ⟨c0, rest, hcols, hs, hc⟩ := eigPost_cols k vals cols v c h
  have hv : v = (((argsortDesc vals).filterMap (vals[·]?)).take k).map (·.re) := by
    simp only [eigPost] at h
    split at h
    · cases h
    · split at h
      · cases h
      · simp only [pure, Except.pure, Except.ok.injEq, Prod.mk.injEq] at h
        exact h.1.symm
  have hvl : v.length = min k vals.length := by
    rw [hv, List.length_map, List.length_take, filterMap_length_of_lt vals _ hlt, argsortDesc_length]
  have hcl0 : (c0 :: rest).length = vals.length := by
    rw [← hcols, filterMap_length_of_lt cols _ hltc, argsortDesc_length]
  have hcl : c.length = v.length := by
    rw [hc, List.length_map, List.length_take, hvl]
    have : ((c0.map fun z => z.div (cxSum c0)) :: rest).length = vals.length := by
      simpa using hcl0
    rw [this]
  refine ⟨hvl, hcl, ?_⟩
  intro j hj
  have hjk : j < k := by rw [hvl] at hj; omega
  have hjn : j < vals.length := by rw [hvl] at hj; omega
  have hjo : j < (argsortDesc vals).length := by rw [argsortDesc_length]; exact hjn
  let i := (argsortDesc vals)[j]
  have hoi : (argsortDesc vals)[j]? = some i := List.getElem?_eq_getElem hjo
  have hi : i < vals.length := hlt i (List.getElem_mem hjo)
  have hic : i < cols.length := by rw [hlen]; exact hi
  refine ⟨i, vals[i], cols[i], hoi, List.getElem?_eq_getElem hi, List.getElem?_eq_getElem hic, ?_, ?_, ?_⟩
  · rw [hv, List.getElem?_map, List.getElem?_take_of_lt hjk, filterMap_getElem?_of_lt vals _ hlt, hoi]
    simp [List.getElem?_eq_getElem hi]
  · intro hj0
    subst hj0
    have h0 : (c0 :: rest)[0]? = some cols[i] := by
      rw [← hcols, filterMap_getElem?_of_lt cols _ hltc, hoi]
      simp [List.getElem?_eq_getElem hic]
    have hc0 : c0 = cols[i] := by simpa using h0
    refine ⟨by rw [← hc0]; exact hs, ?_⟩
    rw [hc]
    obtain ⟨k', rfl⟩ : ∃ k', k = k' + 1 := ⟨k - 1, by omega⟩
    simp [hc0, Function.comp_def]
  · intro hj0
    obtain ⟨j', rfl⟩ : ∃ j', j = j' + 1 := ⟨j - 1, by omega⟩
    have h1 : (c0 :: rest)[j' + 1]? = some cols[i] := by
      rw [← hcols, filterMap_getElem?_of_lt cols _ hltc, hoi]
      simp [List.getElem?_eq_getElem hic]
    rw [hc, List.getElem?_map, List.getElem?_take_of_lt hjk]
    simp only [List.getElem?_cons_succ] at h1 ⊢
    rw [h1]
    rfl

/-! ### `n_eigs`, `n_times`, `left` -/

theorem resolveNEigs_none (n : Nat) : resolveNEigs n none = .ok n := rfl

theorem resolveNEigs_lt_two (n : Nat) (k : Int) (hk : k < 2) :
    resolveNEigs n (some k) = .error .valueError := by
  simp only [resolveNEigs, hk, if_true]; rfl

theorem resolveNEigs_ge_two (n : Nat) (k : Int) (hk : 2 ≤ k) :
    resolveNEigs n (some k) = .ok k.toNat := by
  have : ¬ k < 2 := by omega
  simp only [resolveNEigs, this, if_false]; rfl

theorem impNTimes_none (n : Nat) : impNTimes n none = min (n / 10 + 1) (n - 1) := by
  simp only [impNTimes]
  split <;> omega

theorem impNTimes_some (n k : Nat) : impNTimes n (some k) = min k (n - 1) := by
  simp only [impNTimes]
  split <;> omega

theorem eigenspectrum_left {M : Type} (eig : M → List Cx × List (List Cx)) (tr : M → M)
    (size : M → Nat) (T : M) (nEigs : Option Int) :
    eigenspectrum eig tr size T nEigs true =
      (resolveNEigs (size T) nEigs >>= fun k => eigPost k (eig (tr T)).1 (eig (tr T)).2) := by
  simp only [eigenspectrum, if_true]

theorem eigenspectrum_right {M : Type} (eig : M → List Cx × List (List Cx)) (tr : M → M)
    (size : M → Nat) (T : M) (nEigs : Option Int) :
    eigenspectrum eig tr size T nEigs false =
      (resolveNEigs (size T) nEigs >>= fun k => eigPost k (eig T).1 (eig T).2) := by
  simp only [eigenspectrum, Bool.false_eq_true, if_false]

/-! ### the mappings `fit` produces are well formed -/

theorem ofTransformations_wf (ts : List (Int × Int)) (h1 : (ts.map (·.1)).Nodup)
    (h2 : (ts.map (·.2)).Nodup) :
    (TrimMapping.ofTransformations ts).toOriginal = ts.map swap ∧
    (TrimMapping.ofTransformations ts).WellFormed := by
  have e : (TrimMapping.ofTransformations ts).toOriginal = ts.map swap := by
    simp only [TrimMapping.ofTransformations]
    apply Dict.ofPairs_nodup
    rw [map_fst_swap]; exact h2
  refine ⟨e, ?_, ?_⟩
  · rw [e, map_fst_swap]; exact h2
  · rw [e, map_snd_swap]; exact h1

theorem identity_wf (n : Nat) : (TrimMapping.identity n).WellFormed := by
  have hn := nodup_range_cast n
  apply (ofTransformations_wf _ ?_ ?_).2
  · simpa [Function.comp_def] using hn
  · simpa [Function.comp_def] using hn

theorem nodup_cast {l : List Nat} (h : l.Nodup) : (l.map fun (i : Nat) => (i : Int)).Nodup := by
  rw [List.nodup_iff_pairwise_ne, List.pairwise_map]
  exact h.imp (by intro a b hab e; exact hab (by exact_mod_cast e))

/-- `TrimMapping(zip(keep_states, range(len(keep_states))))`, the mapping `trim_disconnected` builds
from the distinct kept states -/
theorem keep_mapping_wf (keep : List Nat) (h : keep.Nodup) :
    (TrimMapping.ofTransformations ((keep.zip (List.range keep.length)).map
        fun p => ((p.1 : Int), (p.2 : Int)))).WellFormed := by
  apply (ofTransformations_wf _ ?_ ?_).2
  · have : ((keep.zip (List.range keep.length)).map fun p => ((p.1 : Int), (p.2 : Int))).map (·.1)
        = keep.map fun (i : Nat) => (i : Int) := by
      rw [List.map_map]
      have : ((fun p : Int × Int => p.1) ∘ fun p : Nat × Nat => ((p.1 : Int), (p.2 : Int)))
          = (fun (i : Nat) => (i : Int)) ∘ (fun p : Nat × Nat => p.1) := rfl
      rw [this, ← List.map_map, List.map_fst_zip (by simp)]
    rw [this]; exact nodup_cast h
  · have : ((keep.zip (List.range keep.length)).map fun p => ((p.1 : Int), (p.2 : Int))).map (·.2)
        = (List.range keep.length).map fun (i : Nat) => (i : Int) := by
      rw [List.map_map]
      have : ((fun p : Int × Int => p.2) ∘ fun p : Nat × Nat => ((p.1 : Int), (p.2 : Int)))
          = (fun (i : Nat) => (i : Int)) ∘ (fun p : Nat × Nat => p.2) := rfl
      rw [this, ← List.map_map, List.map_snd_zip (by simp)]
    rw [this]; exact nodup_range_cast _

/-! ### the leading pair -/

/-- a column of rational complex numbers as a complex vector -/
noncomputable def colVec {n : Nat} (col : List Cx) (hl : col.length = n) : Fin n → ℂ :=
  fun a => toC (col.get (a.cast hl.symm))

/-- a list of rationals as a real vector -/
noncomputable def ratVec {n : Nat} (wl : List Rat) (hl : wl.length = n) : Fin n → ℝ :=
  fun a => ((wl.get (a.cast hl.symm) : ℚ) : ℝ)

theorem sum_ratVec {n : Nat} (wl : List Rat) (hl : wl.length = n) :
    ∑ a, ratVec wl hl a = ((wl.sum : ℚ) : ℝ) := by
  subst hl
  have : wl.sum = (List.ofFn (fun a : Fin wl.length => wl.get a)).sum := by rw [List.ofFn_get]
  rw [this, List.sum_ofFn]
  push_cast
  apply Finset.sum_congr rfl
  intro a _
  simp [ratVec]

theorem toC_eq_one_of (z : Cx) (hre : z.re = 1) (hn : ‖toC z‖ ≤ 1) : toC z = 1 := by
  have h2 : ‖toC z‖ ^ 2 ≤ 1 := pow_le_one₀ (norm_nonneg _) hn
  rw [← Complex.normSq_eq_norm_sq, Complex.normSq_apply] at h2
  have hr : (toC z).re = 1 := by simp [toC, hre]
  have hi : (toC z).im = 0 := by
    rw [hr] at h2
    have : (toC z).im * (toC z).im ≤ 0 := by linarith
    exact mul_self_eq_zero.mp (le_antisymm this (mul_self_nonneg _))
  exact Complex.ext (by simpa using hr) (by simpa using hi)

/-- the real part of a complex left fixed vector of a real matrix is a real left fixed vector -/
theorem re_fixed {n : Nat} (T : Matrix (Fin n) (Fin n) ℝ) (u : Fin n → ℂ)
    (h : Matrix.vecMul u (T.map (fun x => (x : ℂ))) = u) :
    Matrix.vecMul (fun a => (u a).re) T = fun a => (u a).re := by
  funext b
  have := congrArg Complex.re (congrFun h b)
  simp only [Matrix.vecMul, dotProduct, Matrix.map_apply, Complex.re_sum, Complex.mul_re,
    Complex.ofReal_re, Complex.ofReal_im, mul_zero, sub_zero] at this
  simpa [Matrix.vecMul, dotProduct] using this

theorem leading_pair {n : Nat} (T : Matrix (Fin n) (Fin n) ℝ)
    (hnn : ∀ i j, 0 ≤ T i j) (hrow : ∀ i, ∑ j, T i j = 1)
    (z : Cx) (col : List Cx) (hre : z.re = 1) (hs : cxSum col ≠ Cx.zero)
    (hl : col.length = n) (hne : colVec col hl ≠ 0)
    (hE : Matrix.vecMul (colVec col hl) (T.map (fun x => (x : ℂ))) = toC z • colVec col hl) :
    ∃ hw : (col.map fun w => (w.div (cxSum col)).re).length = n,
      Matrix.vecMul (ratVec _ hw) T = ratVec _ hw ∧ ∑ a, ratVec _ hw a = 1 := by
  subst hl
  have hz : toC z = 1 := toC_eq_one_of z hre
    (norm_le_one_of_left _ (stochastic_row_norms_complex T hnn hrow) _ _ hne hE)
  rw [hz, one_smul] at hE
  have hE' := vecMul_div_scale _ (colVec col rfl) 1 (toC (cxSum col)) (by rw [hE, one_smul])
  rw [one_smul] at hE'
  have hw : (col.map fun w => (w.div (cxSum col)).re).length = col.length := by simp
  have hvec : ratVec _ hw = fun a => (colVec col rfl a / toC (cxSum col)).re := by
    funext a
    simp only [ratVec, colVec, List.get_eq_getElem, List.getElem_map, Fin.cast_eq_self,
      Fin.val_cast, ← toC_div]
    simp [toC]
  refine ⟨hw, ?_, ?_⟩
  · rw [hvec]
    exact re_fixed T _ hE'
  · rw [sum_ratVec, first_sums_to_one col hs]; simp

end Ens.Msm
