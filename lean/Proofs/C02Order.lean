import Model.KCenters
import Mathlib.Order.WithBot
import Mathlib.Algebra.Order.Ring.Rat
import Mathlib.Tactic.Linarith

/-! Order facts for the model's extended rationals (`none` = `+inf`), by transport to
`WithTop ℚ`, and the specification of `argmaxE` / `argminOn`. -/
namespace Ens.KC

/-- the model's `ERat` read in Mathlib's `WithTop ℚ` -/
def toWT : ERat → WithTop ℚ
  | none => ⊤
  | some q => (q : WithTop ℚ)

@[simp] theorem toWT_none : toWT none = ⊤ := rfl
@[simp] theorem toWT_some (q : ℚ) : toWT (some q) = (q : WithTop ℚ) := rfl

theorem ltE_iff (a b : ERat) : ltE a b = true ↔ toWT a < toWT b := by
  cases a <;> cases b <;> simp [ltE]

theorem ltE_false_iff (a b : ERat) : ltE a b = false ↔ toWT b ≤ toWT a := by
  rw [← not_lt, ← ltE_iff]; simp

theorem leE_iff (a b : ERat) : leE a b = true ↔ toWT a ≤ toWT b := by
  simp [leE, ← not_lt, ← ltE_iff]

theorem toWT_inj {a b : ERat} : toWT a = toWT b ↔ a = b := by
  cases a <;> cases b <;> simp

theorem ltE_irrefl (a : ERat) : ltE a a = false := by
  rw [ltE_false_iff]

/-! ### argmax -/

theorem argmaxE_lt {n : Nat} (hn : 0 < n) (f : Nat → ERat) : argmaxE n f < n := by
  induction n with
  | zero => omega
  | succ k ih =>
    simp only [argmaxE]
    split
    · omega
    · rcases Nat.eq_zero_or_pos k with h | h
      · subst h; simp [argmaxE]
      · have := ih h; omega

theorem argmaxE_le (n : Nat) (f : Nat → ERat) : argmaxE n f ≤ n := by
  rcases Nat.eq_zero_or_pos n with h | h
  · subst h; simp [argmaxE]
  · exact Nat.le_of_lt (argmaxE_lt h f)

/-- every entry is `≤` the one at the arg-max -/
theorem argmaxE_max (n : Nat) (f : Nat → ERat) :
    ∀ x, x < n → toWT (f x) ≤ toWT (f (argmaxE n f)) := by
  induction n with
  | zero => intro x hx; omega
  | succ k ih =>
    intro x hx
    simp only [argmaxE]
    split
    · rename_i h
      rw [ltE_iff] at h
      rcases Nat.lt_succ_iff_lt_or_eq.mp hx with hx | hx
      · exact le_trans (ih x hx) (le_of_lt h)
      · subst hx; exact le_refl _
    · rename_i h
      have h' : toWT (f k) ≤ toWT (f (argmaxE k f)) := by
        rw [← ltE_false_iff]; simpa using h
      rcases Nat.lt_succ_iff_lt_or_eq.mp hx with hx | hx
      · exact ih x hx
      · subst hx; exact h'

/-- it is the *first* such index: everything before it is strictly smaller -/
theorem argmaxE_first (n : Nat) (f : Nat → ERat) :
    ∀ x, x < argmaxE n f → toWT (f x) < toWT (f (argmaxE n f)) := by
  induction n with
  | zero => intro x hx; simp [argmaxE] at hx
  | succ k ih =>
    intro x
    simp only [argmaxE]
    split
    · rename_i h
      rw [ltE_iff] at h
      intro hx
      exact lt_of_le_of_lt (argmaxE_max k f x hx) h
    · intro hx; exact ih x hx

theorem argmaxE_congr (n : Nat) (f g : Nat → ERat) (h : ∀ x, x < n → f x = g x) :
    argmaxE n f = argmaxE n g := by
  induction n with
  | zero => rfl
  | succ k ih =>
    have ih' := ih (fun x hx => h x (Nat.lt_succ_of_lt hx))
    simp only [argmaxE, ih']
    rcases Nat.eq_zero_or_pos k with hk | hk
    · subst hk; simp [argmaxE, ltE_irrefl]
    · have hb := argmaxE_lt hk g
      rw [h k (Nat.lt_succ_self k), h (argmaxE k g) (Nat.lt_succ_of_lt hb)]

/-! ### argmin over the frames satisfying `p` -/

theorem argminOn_spec (p : Nat → Bool) (f : Nat → ERat) (n : Nat) :
    (argminOn p f n = none → ∀ x, x < n → p x = false) ∧
    (∀ b, argminOn p f n = some b → b < n ∧ p b = true ∧
      (∀ x, x < n → p x = true → toWT (f b) ≤ toWT (f x)) ∧
      (∀ x, x < b → p x = true → toWT (f b) < toWT (f x))) := by
  induction n with
  | zero => simp [argminOn]
  | succ k ih =>
    obtain ⟨ih1, ih2⟩ := ih
    simp only [argminOn]
    cases hrec : argminOn p f k with
    | none =>
      have hno := ih1 hrec
      dsimp only
      by_cases hp : p k = true
      · simp only [hp, if_true]
        refine ⟨by simp, ?_⟩
        intro b hb
        have hb : k = b := by simpa using hb
        subst hb
        refine ⟨Nat.lt_succ_self _, hp, ?_, ?_⟩
        · intro x hx hpx
          rcases Nat.lt_succ_iff_lt_or_eq.mp hx with hx | hx
          · rw [hno x hx] at hpx; cases hpx
          · subst hx; exact le_refl _
        · intro x hx hpx
          rw [hno x hx] at hpx; cases hpx
      · have hp' : p k = false := by simpa using hp
        simp only [hp', Bool.false_eq_true, if_false]
        refine ⟨?_, by simp⟩
        intro _ x hx
        rcases Nat.lt_succ_iff_lt_or_eq.mp hx with hx | hx
        · exact hno x hx
        · subst hx; exact hp'
    | some b0 =>
      obtain ⟨hb0, hpb0, hmin, hfirst⟩ := ih2 b0 hrec
      dsimp only
      refine ⟨?_, ?_⟩
      · intro h; split at h <;> simp at h
      · intro b hb
        by_cases hc : (p k && ltE (f k) (f b0)) = true
        · simp only [hc, if_true] at hb
          have hb : k = b := by simpa using hb
          subst hb
          simp only [Bool.and_eq_true] at hc
          obtain ⟨hpk, hlt⟩ := hc
          rw [ltE_iff] at hlt
          refine ⟨Nat.lt_succ_self _, hpk, ?_, ?_⟩
          · intro x hx hpx
            rcases Nat.lt_succ_iff_lt_or_eq.mp hx with hx | hx
            · exact le_trans (le_of_lt hlt) (hmin x hx hpx)
            · subst hx; exact le_refl _
          · intro x hx hpx
            exact lt_of_lt_of_le hlt (hmin x hx hpx)
        · have hc' : (p k && ltE (f k) (f b0)) = false := by simpa using hc
          simp only [hc', Bool.false_eq_true, if_false] at hb
          have hb : b0 = b := by simpa using hb
          subst hb
          refine ⟨Nat.lt_succ_of_lt hb0, hpb0, ?_, hfirst⟩
          intro x hx hpx
          rcases Nat.lt_succ_iff_lt_or_eq.mp hx with hx | hx
          · exact hmin x hx hpx
          · subst hx
            rw [hpx] at hc'
            simp only [Bool.true_and] at hc'
            rwa [ltE_false_iff] at hc'

end Ens.KC
