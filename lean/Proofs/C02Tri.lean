import Proofs.C02Run

/-! The triangle-inequality shortcut (`use_triangle_inequality=True`) computes the same thing
as the plain iteration when `D` is symmetric and obeys the triangle inequality on the frames. -/
namespace Ens.KC

/-- two states that cannot be told apart on the frames `0 … n-1` -/
def StAgree (n : Nat) (s t : St) : Prop :=
  s.ctrInds = t.ctrInds ∧ s.centers = t.centers ∧
  ∀ f, f < n → s.dist f = t.dist f ∧ s.assign f = t.assign f

theorem StAgree.refl (n : Nat) (s : St) : StAgree n s s := ⟨rfl, rfl, fun _ _ => ⟨rfl, rfl⟩⟩

/-- every frame carries the label of a center that is a frame, at exactly its recorded distance -/
def Lab (D : Table) (n : Nat) (s : St) : Prop :=
  ∀ f, f < n → ∃ (k g : Nat), s.assign f = (k : Int) ∧ s.ctrInds[k]? = some g ∧ g < n ∧
    s.dist f = some (D f g)

/-- nothing assigned yet (the cold start before its first iteration) -/
def ColdLike (n : Nat) (s : St) : Prop := ∀ f, f < n → s.assign f = -1 ∧ s.dist f = none

theorem ColdLike_cold (n : Nat) : ColdLike n St.cold := fun _ _ => ⟨rfl, rfl⟩

theorem allAssigned_iff (n : Nat) (a : Nat → Int) :
    allAssigned n a = true ↔ ∀ f, f < n → 0 ≤ a f := by
  simp [allAssigned]

theorem guard_congr {n : Nat} (hn : 0 < n) {s t : St} (h : StAgree n s t) (nc : Option Int)
    (cut : ERat) : guard nc cut n s = guard nc cut n t := by
  unfold guard
  rw [h.1, radius_congr (fun f hf => (h.2.2 f hf).1) hn]

/-- the plain iteration preserves / establishes `Lab` -/
theorem Lab_iterPlain {D : Table} {n : Nat} (hn : 0 < n) {s : St} (h : ColdLike n s ∨ Lab D n s) :
    Lab D n (iterPlain D n s) := by
  intro f hf
  have hc := argmaxE_lt hn s.dist
  unfold iterPlain
  simp only [update_dist, update_assign, update_ctrInds]
  by_cases hlt : ltE (some (D f (argmaxE n s.dist))) (s.dist f) = true
  · rw [if_pos hlt, if_pos hlt]
    exact ⟨s.ctrInds.length, argmaxE n s.dist, rfl, by simp, hc, rfl⟩
  · rw [if_neg hlt, if_neg hlt]
    rcases h with h | h
    · rw [(h f hf).2] at hlt; simp [ltE] at hlt
    · obtain ⟨k, g, h1, h2, h3, h4⟩ := h f hf
      refine ⟨k, g, h1, ?_, h3, h4⟩
      have hk : k < s.ctrInds.length := by
        rcases Nat.lt_or_ge k s.ctrInds.length with hk | hk
        · exact hk
        · rw [List.getElem?_eq_none hk] at h2; cases h2
      rw [List.getElem?_append_left hk]; exact h2

/-- updates by candidates that agree on the frames agree on the frames -/
theorem update_agree {n : Nat} {s t : St} (h : StAgree n s t) (c : Nat) (cs ct : Nat → ERat)
    (hc : ∀ f, f < n →
      (if ltE (cs f) (s.dist f) then cs f else s.dist f) =
        (if ltE (ct f) (t.dist f) then ct f else t.dist f) ∧
      ltE (cs f) (s.dist f) = ltE (ct f) (t.dist f)) :
    StAgree n (update n s cs c) (update n t ct c) := by
  obtain ⟨h1, h2, h3⟩ := h
  refine ⟨by simp [h1], by simp [h2], ?_⟩
  intro f hf
  simp only [update_dist, update_assign]
  refine ⟨(hc f hf).1, ?_⟩
  rw [(hc f hf).2, h1, (h3 f hf).2]

theorem iter_agree {D : Table} {n : Nat} (hn : 0 < n)
    (symm : ∀ x y, x < n → y < n → D x y = D y x)
    (tri : ∀ x y z, x < n → y < n → z < n → D x z ≤ D x y + D y z)
    {s t : St} (hag : StAgree n s t) (hinv : ColdLike n s ∨ Lab D n s) :
    ∃ t', iter D n true t = .ok t' ∧ StAgree n (iterPlain D n s) t' := by
  have hce : argmaxE n s.dist = argmaxE n t.dist :=
    argmaxE_congr n _ _ (fun f hf => (hag.2.2 f hf).1)
  have hc := argmaxE_lt hn s.dist
  rcases hinv with hcold | hlab
  · -- nothing assigned: the shortcut is not taken
    have hna : allAssigned n t.assign = false := by
      rw [← Bool.not_eq_true, allAssigned_iff]
      intro hall
      have := hall 0 hn
      rw [← (hag.2.2 0 hn).2, (hcold 0 hn).1] at this
      omega
    refine ⟨iterPlain D n t, by simp [iter, hna], ?_⟩
    unfold iterPlain
    rw [← hce]
    apply update_agree hag
    intro f hf
    rw [(hag.2.2 f hf).1]
    exact ⟨rfl, rfl⟩
  · have hall : allAssigned n t.assign = true := by
      rw [allAssigned_iff]
      intro f hf
      obtain ⟨k, g, h1, _⟩ := hlab f hf
      rw [← (hag.2.2 f hf).2, h1]; omega
    have hidx : ((List.range n).all fun f => decide (t.assign f < (t.ctrInds.length : Int))) = true := by
      simp only [List.all_eq_true, List.mem_range, decide_eq_true_eq]
      intro f hf
      obtain ⟨k, g, h1, h2, _⟩ := hlab f hf
      rw [← (hag.2.2 f hf).2, h1, ← hag.1]
      have hk : k < s.ctrInds.length := by
        rcases Nat.lt_or_ge k s.ctrInds.length with hk | hk
        · exact hk
        · rw [List.getElem?_eq_none hk] at h2; cases h2
      exact_mod_cast hk
    refine ⟨update n t (triCand D t (argmaxE n t.dist)) (argmaxE n t.dist), ?_, ?_⟩
    · simp only [iter, hall, Bool.and_self, if_true, iterTri, hidx]
    · unfold iterPlain
      rw [← hce]
      apply update_agree hag
      intro f hf
      obtain ⟨k, g, h1, h2, h3, h4⟩ := hlab f hf
      have hd := (hag.2.2 f hf).1
      have ha := (hag.2.2 f hf).2
      have hcand : triCand D t (argmaxE n s.dist) f =
          if ltE (some (D g (argmaxE n s.dist) / 2)) (some (D f g)) then
            some (D f (argmaxE n s.dist)) else some (D f g) := by
        unfold triCand
        rw [← ha, h1, Int.toNat_natCast, ← hag.1, h2, ← hd, h4]
      rw [hcand, ← hd, h4]
      by_cases hrec : ltE (some (D g (argmaxE n s.dist) / 2)) (some (D f g)) = true
      · rw [if_pos hrec]; exact ⟨rfl, rfl⟩
      · rw [if_neg hrec]
        have hrec' : ¬ (D g (argmaxE n s.dist) / 2 < D f g) := by simpa [ltE] using hrec
        have h5 := tri g f (argmaxE n s.dist) h3 hf hc
        have h6 := symm g f h3 hf
        have hge : ¬ (D f (argmaxE n s.dist) < D f g) := by
          intro hlt
          apply hrec'
          linarith
        have e1 : ltE (some (D f (argmaxE n s.dist))) (some (D f g)) = false := by
          simpa [ltE] using hge
        have e2 : ltE (some (D f g)) (some (D f g)) = false := ltE_irrefl _
        rw [e1, e2]
        simp

/-- outcome of two runs that cannot be told apart on the frames -/
def LoopAgree (n : Nat) :
    Except Err (St × List (Nat × ERat)) → Except Err (St × List (Nat × ERat)) → Prop
  | .ok (sf, tr), .ok (tf, tr') => StAgree n sf tf ∧ tr = tr'
  | .error e, .error e' => e = e'
  | _, _ => False

theorem loop_agree {D : Table} {n : Nat} (hn : 0 < n)
    (symm : ∀ x y, x < n → y < n → D x y = D y x)
    (tri : ∀ x y z, x < n → y < n → z < n → D x z ≤ D x y + D y z)
    (nc : Option Int) (cut : ERat) :
    ∀ (fuel : Nat) (s t : St), StAgree n s t → (ColdLike n s ∨ Lab D n s) →
      LoopAgree n (loop D n false nc cut fuel s) (loop D n true nc cut fuel t) := by
  intro fuel
  induction fuel with
  | zero =>
    intro s t hag _
    simp only [loop, ← guard_congr hn hag nc cut]
    split
    · simp [LoopAgree]
    · exact ⟨hag, rfl⟩
  | succ fuel ih =>
    intro s t hag hinv
    simp only [loop, ← guard_congr hn hag nc cut]
    split
    · obtain ⟨t', ht', hag'⟩ := iter_agree hn symm tri hag hinv
      rw [iter_plain, ht']
      dsimp only
      have := ih (iterPlain D n s) t' hag' (Or.inr (Lab_iterPlain hn hinv))
      have hce : argmaxE n s.dist = argmaxE n t.dist :=
        argmaxE_congr n _ _ (fun f hf => (hag.2.2 f hf).1)
      have hre : radius n s = radius n t := radius_congr (fun f hf => (hag.2.2 f hf).1) hn
      revert this
      cases loop D n false nc cut fuel (iterPlain D n s) with
      | error e =>
        cases loop D n true nc cut fuel t' with
        | error e' => exact id
        | ok r' => obtain ⟨a, b⟩ := r'; exact id
      | ok r =>
        obtain ⟨a, b⟩ := r
        cases loop D n true nc cut fuel t' with
        | error e' => exact id
        | ok r' =>
          obtain ⟨a', b'⟩ := r'
          intro h
          exact ⟨h.1, by rw [h.2, hce, hre]⟩
    · exact ⟨hag, rfl⟩

end Ens.KC
