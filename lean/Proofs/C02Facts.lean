import Proofs.C02Gonzalez
import Proofs.C02Warm

/-! Result-level facts that the property theorems in `Props/C02.lean` are assembled from. -/
namespace Ens.KC

/-- `np.argmax` of an all-`inf` array is 0 -/
theorem argmaxE_none (n : Nat) : argmaxE n (fun _ => none) = 0 := by
  by_contra h
  have := argmaxE_first n (fun _ => none) 0 (Nat.pos_of_ne_zero h)
  simp at this

theorem loop_lists {D : Table} {n : Nat} {tri : Bool} {nc : Option Int} {cut : ERat} :
    ∀ (fuel : Nat) (s sf : St) (tr : List (Nat × ERat)),
      loop D n tri nc cut fuel s = .ok (sf, tr) →
      sf.ctrInds = s.ctrInds ++ tr.map Prod.fst ∧ sf.centers = s.centers ++ tr.map Prod.fst := by
  intro fuel
  induction fuel with
  | zero =>
    intro s sf tr h
    simp only [loop] at h
    split at h
    · cases h
    · injection h with h
      injection h with h1 h2
      subst h1; subst h2
      simp
  | succ fuel ih =>
    intro s sf tr h
    simp only [loop] at h
    split at h
    · cases h1 : iter D n tri s with
      | error e => rw [h1] at h; cases h
      | ok s1 =>
        rw [h1] at h
        dsimp only at h
        cases h2 : loop D n tri nc cut fuel s1 with
        | error e => rw [h2] at h; cases h
        | ok r =>
          obtain ⟨sf', tr'⟩ := r
          rw [h2] at h
          dsimp only at h
          injection h with h
          injection h with e1 e2
          subst e1; subst e2
          obtain ⟨a, b⟩ := ih s1 sf' tr' h2
          rw [a, b, iter_ctrInds h1, iter_centers h1]
          simp
    · injection h with h
      injection h with h1 h2
      subst h1; subst h2
      simp

/-- no iteration runs exactly when the guard already fails, and then the state is returned as is -/
theorem loop_nil {D : Table} {n : Nat} {tri : Bool} {nc : Option Int} {cut : ERat}
    (fuel : Nat) (s sf : St) (tr : List (Nat × ERat))
    (h : loop D n tri nc cut fuel s = .ok (sf, tr)) :
    (tr = [] ↔ guard nc cut n s = false) ∧ (tr = [] → sf = s) := by
  cases fuel with
  | zero =>
    simp only [loop] at h
    split at h
    · cases h
    · rename_i hg
      injection h with h
      injection h with h1 h2
      subst h1; subst h2
      simp [hg]
  | succ fuel =>
    simp only [loop] at h
    split at h
    · rename_i hg
      cases h1 : iter D n tri s with
      | error e => rw [h1] at h; cases h
      | ok s1 =>
        rw [h1] at h
        dsimp only at h
        cases h2 : loop D n tri nc cut fuel s1 with
        | error e => rw [h2] at h; cases h
        | ok r =>
          obtain ⟨sf', tr'⟩ := r
          rw [h2] at h
          dsimp only at h
          injection h with h
          injection h with e1 e2
          subst e1; subst e2
          simp [hg]
    · rename_i hg
      injection h with h
      injection h with h1 h2
      subst h1; subst h2
      simp [hg]

/-- outcome of two calls that cannot be told apart on the frames -/
def ResAgree (n : Nat) : Except Err Result → Except Err Result → Prop
  | .ok r1, .ok r2 => StAgree n r1.st r2.st ∧ r1.trace = r2.trace ∧ r1.radius = r2.radius
  | .error e1, .error e2 => e1 = e2
  | _, _ => False

/-- the shortcut changes nothing, at the level of whole calls -/
theorem kcenters_tri_agree (D : Table) (n : Nat) (cfg : Cfg)
    (symm : ∀ x y, x < n → y < n → D x y = D y x)
    (tri : ∀ x y z, x < n → y < n → z < n → D x z ≤ D x y + D y z)
    (hinit : cfg.init = none ∨ ∃ cs, cfg.init = some cs ∧ GoodInit D n cs) :
    ResAgree n (kcenters D n { cfg with tri := false }) (kcenters D n { cfg with tri := true }) := by
  unfold kcenters kcentersFuel
  dsimp only
  cases hnorm : normalise cfg.nClusters cfg.cutoff with
  | error e => simp [ResAgree]
  | ok p =>
    obtain ⟨nc, cut⟩ := p
    dsimp only
    by_cases hrf : cfg.randomFirst = true
    · simp [hrf, ResAgree]
    · simp only [hrf, Bool.false_eq_true, if_false]
      by_cases hn0 : n = 0
      · simp [hn0, ResAgree]
      · simp only [hn0, if_false]
        have hn : 0 < n := Nat.pos_of_ne_zero hn0
        have hinv : ColdLike n (initState D n cfg.init) ∨ Lab D n (initState D n cfg.init) := by
          rcases hinit with h | ⟨cs, h, g⟩
          · left; rw [h]; exact ColdLike_cold n
          · right; rw [h]; exact GoodInit_Lab g
        have := loop_agree hn symm tri nc cut
          (Option.getD none (fuelFor n nc (initState D n cfg.init)))
          (initState D n cfg.init) (initState D n cfg.init) (StAgree.refl _ _) hinv
        revert this
        cases loop D n false nc cut _ (initState D n cfg.init) with
        | error e =>
          cases loop D n true nc cut _ (initState D n cfg.init) with
          | error e' => exact id
          | ok r' => obtain ⟨a, b⟩ := r'; exact id
        | ok r =>
          obtain ⟨a, b⟩ := r
          cases loop D n true nc cut _ (initState D n cfg.init) with
          | error e' => exact id
          | ok r' =>
            obtain ⟨a', b'⟩ := r'
            intro h
            exact ⟨h.1, h.2, radius_congr (fun f hf => (h.1.2.2 f hf).1) hn⟩

/-- a plain call ends in a state that satisfies the farthest-first invariant for the centers added
by the loop -/
theorem plain_FarApart {D : Table} {n : Nat} {cfg : Cfg} {res : Result}
    (hplain : cfg.tri = false) (h : kcenters D n cfg = .ok res) :
    0 < n ∧ FarApart D n (initState D n cfg.init).centers.length res.st ∧
      res.radius = radius n res.st ∧
      res.st.centers.length = (initState D n cfg.init).centers.length + res.trace.length := by
  obtain ⟨nc, cut, _, _, hn, hl, hr⟩ := kcenters_ok h
  rw [hplain] at hl
  obtain ⟨a, _, _⟩ := loop_spec _ _ _ _ hl
  obtain ⟨_, l2⟩ := loop_lists _ _ _ _ hl
  exact ⟨hn, FarApart_iterN hn _ _ _ a, hr, by rw [l2]; simp⟩

end Ens.KC
