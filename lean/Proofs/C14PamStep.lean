import Model.MpiPam
import Proofs.C01Sweep
import Proofs.C14Layout
/-!
C14, distributed PAM, part 1: one distributed step is the serial step seen through the layout.
-/
namespace Ens.MpiPam
open Ens Ens.Cluster Ens.Mpi

/-! ### reading the per-rank arrays -/

theorem arr_tabulate (w : Nat) (f : Nat → Arr) (c : List (Nat × Nat)) (co : List Nat) {r : Nat}
    (hr : r < w) : (PState.mk (tabulate w f) c co).arr r = f r := by
  unfold PState.arr tabulate
  rw [List.getD_eq_getElem?_getD, List.getElem?_map, List.getElem?_range hr]
  rfl

@[simp] theorem tab_distA_size (n : Nat) (fr : Bool) (d : Nat → Rat) (l : Nat → Int) :
    (Arr.tab n fr d l).distA.size = n := by simp [Arr.tab]

@[simp] theorem tab_assignA_size (n : Nat) (fr : Bool) (d : Nat → Rat) (l : Nat → Int) :
    (Arr.tab n fr d l).assignA.size = n := by simp [Arr.tab]

/-! ### `assign_to_nearest_center` is computed frame by frame -/

theorem assignLoop_pt {D D' : Table} {n n' : Nat} (cs : List Nat) :
    ∀ (i0 : Nat) (a a' : Arr) {f f' : Nat}, f < n → f' < n' → (∀ c, D f c = D' f' c) →
      a.fresh = a'.fresh → a.dist f = a'.dist f' → a.assign f = a'.assign f' →
      (assignLoop D n cs i0 a).dist f = (assignLoop D' n' cs i0 a').dist f' ∧
      (assignLoop D n cs i0 a).assign f = (assignLoop D' n' cs i0 a').assign f' := by
  induction cs with
  | nil => intro i0 a a' f f' _ _ _ _ hd ha; exact ⟨hd, ha⟩
  | cons c cs ih =>
    intro i0 a a' f f' hf hf' hD hfr hd ha
    simp only [assignLoop]
    apply ih (i0 + 1) _ _ hf hf' hD
    · rfl
    · rw [relax_dist a _ c hf, relax_dist a' _ c hf', hfr, hd, hD c]
    · rw [relax_assign a _ c hf, relax_assign a' _ c hf', hfr, hd, ha, hD c]

theorem assignNearest_pt {D D' : Table} {n n' : Nat} (cs : List Nat) {f f' : Nat} (hf : f < n)
    (hf' : f' < n') (hD : ∀ c, D f c = D' f' c) :
    (assignNearest D n cs).dist f = (assignNearest D' n' cs).dist f' ∧
    (assignNearest D n cs).assign f = (assignNearest D' n' cs).assign f' := by
  unfold assignNearest
  apply assignLoop_pt cs 0 _ _ hf hf' hD
  · rfl
  · unfold Arr.init0; rw [tab_dist _ _ _ hf, tab_dist _ _ _ hf']
  · unfold Arr.init0; rw [tab_assign _ _ _ hf, tab_assign _ _ _ hf']

/-! ### the relation between a distributed state and the serial state it is a view of -/

/-- `ms` is the serial state `ss` dealt to the ranks of `lay`: every rank holds the distances
    and labels of its frames (arrays of exactly its local length), the medoid pairs point at
    the serial center frames, the broadcast coordinates are the serial coordinates -/
structure Striped (lay : Layout) (ms : PState) (ss : St) : Prop where
  sfresh : ss.arr.fresh = false
  mfresh : ∀ r, r < lay.w → (ms.arr r).fresh = false
  sizeD : ∀ r, r < lay.w → (ms.arr r).distA.size = lay.m r
  sizeA : ∀ r, r < lay.w → (ms.arr r).assignA.size = lay.m r
  dist : ∀ r i, r < lay.w → i < lay.m r → (ms.arr r).dist i = ss.arr.dist (lay.X r i)
  assign : ∀ r i, r < lay.w → i < lay.m r → (ms.arr r).assign i = ss.arr.assign (lay.X r i)
  ctrs : ms.ctrs.map (fun p => lay.X p.1 p.2) = ss.ctrInds
  valid : ∀ p ∈ ms.ctrs, p.1 < lay.w ∧ p.2 < lay.m p.1
  coords : ms.coords = ss.ctrFrames

/-- the global mean of a per-frame quantity is what `striped_array_mean` computes on the layout -/
def MeanOK (lay : Layout) (N : Nat) : Prop :=
  ∀ f : Nat → Rat, stripedMean lay.w (fun r => tabulate (lay.m r) (fun i => f (lay.X r i))) =
    .ok (sumTo N f / (N : Rat))

/-! ### `distribute_frame` -/

theorem localData_getElem? (lay : Layout) (r i : Nat) :
    (localData lay r)[i]? = if i < lay.m r then some (lay.X r i) else none := by
  unfold localData tabulate
  rw [List.getElem?_map]
  by_cases h : i < lay.m r
  · rw [List.getElem?_range h, if_pos h]; rfl
  · rw [List.getElem?_eq_none (by simpa using h), if_neg h]; rfl

theorem distributeFrame_ok {β : Type} {w : Nat} {data : Nat → List β} {idx owner : Nat} {y : β}
    (h : distributeFrame w data idx owner = .ok y) : owner < w ∧ (data owner)[idx]? = some y := by
  unfold distributeFrame at h
  by_cases h1 : w ≤ owner
  · simp [h1] at h
  · simp only [h1, if_false] at h
    split at h
    · cases h
    · split at h
      · rename_i f hf
        injection h with h; subst h
        exact ⟨by omega, hf⟩
      · cases h

/-- whenever the broadcast succeeds the pair is a frame of its owner, and the frame received
    is that frame (no hypothesis on the layout) -/
theorem distribute_ok {lay : Layout} {p : Nat × Nat} {y : Nat} (h : distribute lay p = .ok y) :
    p.1 < lay.w ∧ p.2 < lay.m p.1 ∧ y = lay.X p.1 p.2 := by
  unfold distribute at h
  cases hdf : distributeFrame lay.w (localData lay) p.2 p.1 with
  | error e => rw [hdf] at h; cases h
  | ok y' =>
    rw [hdf] at h
    injection h with h; subst h
    obtain ⟨h1, hf⟩ := distributeFrame_ok hdf
    rw [localData_getElem?] at hf
    by_cases h2 : p.2 < lay.m p.1
    · rw [if_pos h2] at hf; injection hf with hf
      exact ⟨h1, h2, hf.symm⟩
    · rw [if_neg h2] at hf; cases hf

theorem distribute_of_valid {lay : Layout} {N : Nat} (hb : LayoutBij lay N) {p : Nat × Nat}
    (h1 : p.1 < lay.w) (h2 : p.2 < lay.m p.1) : distribute lay p = .ok (lay.X p.1 p.2) := by
  unfold distribute distributeFrame
  have hn : ¬ lay.w ≤ p.1 := by omega
  have he : firstErr lay.w (fun r => if r ≠ p.1 ∧ (localData lay r).isEmpty then some Mpi.Err.indexError else none) = none := by
    rw [firstErr_eq_none]
    intro r hr
    have := hb.nonempty r hr
    have hne : (localData lay r).isEmpty = false := by
      unfold localData tabulate
      cases hm : lay.m r with
      | zero => omega
      | succ k => simp [List.range_succ]
    simp [hne]
  simp only [hn, if_false, he, localData_getElem?, if_pos h2]

/-! ### the candidate, rank by rank -/

theorem rankCand_dist {lay : Layout} {N : Nat} (hb : LayoutBij lay N) (D : Table) {ms : PState} {ss : St}
    (hr : Striped lay ms ss) (cid y : Nat) {r i : Nat} (h1 : r < lay.w) (h2 : i < lay.m r) :
    (rankCandidate lay D ms r cid y).dist i = (pamCandidate D N ss cid y).arr.dist (lay.X r i) ∧
    (rankCandidate lay D ms r cid y).assign i = (pamCandidate D N ss cid y).arr.assign (lay.X r i) := by
  have hx := hb.lt r i h1 h2
  unfold rankCandidate
  rw [cand_dist _ _ cid y h2, cand_assign _ _ cid y h2, cand_dist D ss cid y hx, cand_assign D ss cid y hx]
  simp only [hr.dist r i h1 h2, hr.assign r i h1 h2, hr.coords]
  obtain ⟨e1, e2⟩ := assignNearest_pt (D := locD lay D r) (D' := D) (n := lay.m r) (n' := N)
    (ss.ctrFrames.set cid y) h2 hx (fun c => rfl)
  rw [e1, e2]
  exact ⟨rfl, rfl⟩

theorem rankCand_sizes (lay : Layout) (D : Table) (ms : PState) (r cid y : Nat) :
    (rankCandidate lay D ms r cid y).fresh = false ∧
    (rankCandidate lay D ms r cid y).distA.size = lay.m r ∧
    (rankCandidate lay D ms r cid y).assignA.size = lay.m r := by
  unfold rankCandidate pamCandidate
  simp

/-- the distributed candidate state is the serial candidate seen through the layout -/
theorem cand_striped {lay : Layout} {N : Nat} (hb : LayoutBij lay N) (D : Table) {ms : PState} {ss : St}
    (hr : Striped lay ms ss) (cid : Nat) {p : Nat × Nat} (h1 : p.1 < lay.w) (h2 : p.2 < lay.m p.1) :
    Striped lay
      { arrs := tabulate lay.w (fun r => rankCandidate lay D ms r cid (lay.X p.1 p.2))
        ctrs := ms.ctrs.set cid p
        coords := ms.coords.set cid (lay.X p.1 p.2) }
      (pamCandidate D N ss cid (lay.X p.1 p.2)) where
  sfresh := rfl
  mfresh := fun r h => by rw [arr_tabulate _ _ _ _ h]; exact (rankCand_sizes lay D ms r cid _).1
  sizeD := fun r h => by rw [arr_tabulate _ _ _ _ h]; exact (rankCand_sizes lay D ms r cid _).2.1
  sizeA := fun r h => by rw [arr_tabulate _ _ _ _ h]; exact (rankCand_sizes lay D ms r cid _).2.2
  dist := fun r i h h' => by rw [arr_tabulate _ _ _ _ h]; exact (rankCand_dist hb D hr cid _ h h').1
  assign := fun r i h h' => by rw [arr_tabulate _ _ _ _ h]; exact (rankCand_dist hb D hr cid _ h h').2
  ctrs := by
    show (ms.ctrs.set cid p).map (fun p => lay.X p.1 p.2) = ss.ctrInds.set cid (lay.X p.1 p.2)
    rw [List.map_set, hr.ctrs]
  valid := by
    intro q hq
    rcases List.mem_or_eq_of_mem_set hq with h | h
    · exact hr.valid q h
    · subst h; exact ⟨h1, h2⟩
  coords := by
    show ms.coords.set cid _ = ss.ctrFrames.set cid _
    rw [hr.coords]

/-! ### the cost -/

theorem sumTo_congr {n : Nat} {g h : Nat → Rat} (H : ∀ f, f < n → g f = h f) : sumTo n g = sumTo n h := by
  induction n with
  | zero => rfl
  | succ k ih =>
    simp only [sumTo]
    rw [ih (fun f hf => H f (Nat.lt_succ_of_lt hf)), H k (Nat.lt_succ_self k)]

theorem sumTo_congr_nat {n : Nat} {g h : Nat → Nat} (H : ∀ f, f < n → g f = h f) : sumTo n g = sumTo n h := by
  induction n with
  | zero => rfl
  | succ k ih =>
    simp only [sumTo]
    rw [ih (fun f hf => H f (Nat.lt_succ_of_lt hf)), H k (Nat.lt_succ_self k)]

theorem stripedMean_congr (w : Nat) (hw : 0 < w) (p q : Nat → List Rat) (h : ∀ r, r < w → p r = q r) :
    stripedMean w p = stripedMean w q := by
  unfold stripedMean
  by_cases h1 : w = 1
  · simp only [h1, if_true]; rw [h 0 hw]
  · simp only [h1, if_false]
    rw [sumTo_congr (g := fun r => (p r).sum) (h := fun r => (q r).sum) (fun r hr => by simp only [h r hr]),
      sumTo_congr_nat (g := fun r => (p r).length) (h := fun r => (q r).length) (fun r hr => by simp only [h r hr])]

/-- the distributed cost of a striped state is the serial cost -/
theorem mpiCost_eq {lay : Layout} {N : Nat} (hb : LayoutBij lay N) (hm : MeanOK lay N)
    (arr : Nat → Arr) (d : Nat → Rat)
    (h : ∀ r i, r < lay.w → i < lay.m r → (arr r).dist i = d (lay.X r i)) :
    mpiCost lay arr = .ok (cost N d) := by
  have e : stripedMean lay.w (fun r => tabulate (lay.m r) (fun i => (arr r).dist i * (arr r).dist i)) =
      .ok (cost N d) := by
    rw [stripedMean_congr lay.w hb.wpos _ (fun r => tabulate (lay.m r) (fun i => d (lay.X r i) * d (lay.X r i)))]
    · exact hm (fun g => d g * d g)
    · intro r hr
      unfold tabulate
      apply List.map_congr_left
      intro i hi
      rw [h r i hr (List.mem_range.mp hi)]
  unfold mpiCost
  rw [e]

/-! ### the asserts -/

theorem assert_iff {lay : Layout} {N : Nat} (hb : LayoutBij lay N) (arr : Nat → Arr) (a : Arr)
    (hd : ∀ r i, r < lay.w → i < lay.m r → (arr r).dist i = a.dist (lay.X r i))
    (ha : ∀ r i, r < lay.w → i < lay.m r → (arr r).assign i = a.assign (lay.X r i)) :
    ((List.range lay.w).any (fun r => (List.range (lay.m r)).any fun i =>
        decide ((arr r).assign i < 0) || decide ((arr r).dist i < 0))) =
    ((List.range N).any (fun f => decide (a.assign f < 0) || decide (a.dist f < 0))) := by
  rw [Bool.eq_iff_iff]
  simp only [List.any_eq_true, List.mem_range]
  constructor
  · rintro ⟨r, hr, i, hi, h⟩
    refine ⟨lay.X r i, hb.lt r i hr hi, ?_⟩
    rw [← hd r i hr hi, ← ha r i hr hi]; exact h
  · rintro ⟨f, hf, h⟩
    obtain ⟨r, i, hr, hi, hx⟩ := hb.surj f hf
    refine ⟨r, hr, i, hi, ?_⟩
    rw [hd r i hr hi, ha r i hr hi, hx]; exact h

/-! ### one step -/

/-- One distributed PAM step on a striped state, for a proposal that is a frame of its owner:
    either both the distributed and the serial step (on the proposal's global frame) succeed,
    with the same costs and the same decision, and the resulting states are again striped
    views of each other; or both trip the assert. -/
theorem step_refines {lay : Layout} {N : Nat} (hb : LayoutBij lay N) (hm : MeanOK lay N) (D : Table)
    {ms : PState} {ss : St} (hr : Striped lay ms ss) (cid : Nat) {p : Nat × Nat}
    (h1 : p.1 < lay.w) (h2 : p.2 < lay.m p.1) :
    (∃ mst sst, mpiPamStep lay D ms cid p = .ok mst ∧ pamStep D N ss cid (lay.X p.1 p.2) = .ok sst ∧
        mst.cid = cid ∧ mst.p = p ∧ mst.y = lay.X p.1 p.2 ∧
        mst.oldCost = sst.oldCost ∧ mst.newCost = sst.newCost ∧ mst.acc = sst.acc ∧
        Striped lay mst.after sst.after) ∨
    (mpiPamStep lay D ms cid p = .error (.mpi .assertion) ∧
        pamStep D N ss cid (lay.X p.1 p.2) = .error .assertion) := by
  have hc := cand_striped hb D hr cid h1 h2
  have hassert := assert_iff hb _ _ hc.dist hc.assign
  have hold := mpiCost_eq hb hm ms.arr ss.arr.dist hr.dist
  have hnew := mpiCost_eq hb hm _ _ hc.dist
  unfold mpiPamStep pamStep
  rw [distribute_of_valid hb h1 h2]
  simp only []
  rw [hassert]
  by_cases ha : ((List.range N).any fun f =>
      decide ((pamCandidate D N ss cid (lay.X p.1 p.2)).arr.assign f < 0) ||
        decide ((pamCandidate D N ss cid (lay.X p.1 p.2)).arr.dist f < 0)) = true
  · right
    rw [if_pos ha, if_pos ha]
    exact ⟨rfl, rfl⟩
  · left
    rw [if_neg ha, if_neg ha, hold, hnew]
    refine ⟨_, _, rfl, rfl, rfl, rfl, rfl, rfl, rfl, rfl, ?_⟩
    simp only []
    by_cases hacc : cost N (pamCandidate D N ss cid (lay.X p.1 p.2)).arr.dist < cost N ss.arr.dist
    · simp only [hacc, decide_true, if_true]; exact hc
    · simp only [hacc, decide_false]; exact hr

end Ens.MpiPam
