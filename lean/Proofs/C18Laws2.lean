import Proofs.C18Laws
/-!
More laws of `mutual_information` on kernel tables: bounded by each marginal entropy,
invariant under relabelling of states, pooled counts.
-/
namespace Ens.InfoR
open Finset Ens Ens.Info

/-- Shannon entropy of one feature exists (`Σ counts = T > 0`) and is `−Σ p log p`, `p = count / T` -/
theorem entropy_ok (a : Arr) (x : Nat) (n : ℕ) (hT : 0 < a.T)
    (hr : ∀ t, t < a.T → 0 ≤ a.get t x ∧ a.get t x < (n : ℤ)) :
    ∃ ts, entropyTerms (countsList (fun u => margCount a x (u : ℤ)) n) true = .ok ts ∧
      termsVal ts = entF (fun u => (margCount a x (u : ℤ) : ℝ) / (a.T : ℝ)) n := by
  have hsum : ∑ u ∈ range n, ((margCount a x (u : ℤ) : ℕ) : ℝ) = (a.T : ℝ) := by
    rw [← Nat.cast_sum, sum_margCount a x n hr]
  have hne : ratSum (countsList (fun u => margCount a x (u : ℤ)) n) ≠ 0 := by
    intro e
    have := ratSum_countsList (fun u => margCount a x (u : ℤ)) n
    rw [e, hsum] at this
    have hT' : (0 : ℝ) < (a.T : ℝ) := by exact_mod_cast hT
    rw [Rat.cast_zero] at this
    linarith
  have hok : ∃ ts, entropyTerms (countsList (fun u => margCount a x (u : ℤ)) n) true = .ok ts := by
    unfold entropyTerms
    simp only [bind, Except.bind, pure, Except.pure, if_true, if_neg hne]
    exact ⟨_, rfl⟩
  obtain ⟨ts, hts⟩ := hok
  refine ⟨ts, hts, ?_⟩
  rw [entropyTerms_val _ _ ts hts, hsum]

/-- `mi[x, y] ≤ H(X_x)` and `mi[x, y] ≤ H(Y_y)` -/
theorem mi_le_min_entropy_core (a b : Arr) (nA nB : ℤ) (r : JC) (h : matrixBincount2d a b nA nB = .ok r)
    (x y : Nat) (hx : x < a.F) (hy : y < b.F) :
    ∃ tx ty,
      entropyTerms (countsList (fun u => margCount a x (u : ℤ)) nA.toNat) true = .ok tx ∧
      entropyTerms (countsList (fun v => margCount b y (v : ℤ)) nB.toNat) true = .ok ty ∧
      miVal r x y ≤ termsVal tx ∧ miVal r x y ≤ termsVal ty := by
  obtain ⟨hT, hTpos, _, _, hra, hrb⟩ := ok_range a b nA nB r h
  obtain ⟨tx, htx, vx⟩ := entropy_ok a x nA.toNat hTpos (hra x hx)
  obtain ⟨ty, hty, vy⟩ := entropy_ok b y nB.toNat (hT ▸ hTpos) (fun t ht => hrb y hy t (hT ▸ ht))
  refine ⟨tx, ty, htx, hty, ?_, ?_⟩
  · rw [vx, miVal_eq a b nA nB r h x y hx hy]
    have hrow : rowS (probTable (fun (u v : ℕ) => frameCount a b x y (u : ℤ) (v : ℤ)) nA.toNat nB.toNat) nB.toNat
        = fun (u : ℕ) => (margCount a x (u : ℤ) : ℝ) / (a.T : ℝ) := by
      funext u
      rw [rowS_probTable, rowSum_frameCount a b x y _ u (hrb y hy),
        total_frameCount a b x y _ _ (hra x hx) (hrb y hy)]
    rw [← hrow]
    exact miF_le_entF_row _ _ _ (fun u _ v _ => probTable_nonneg _ _ _ u v)
  · rw [vy, miVal_eq a b nA nB r h x y hx hy]
    have hcol : colS (probTable (fun (u v : ℕ) => frameCount a b x y (u : ℤ) (v : ℤ)) nA.toNat nB.toNat) nA.toNat
        = fun (v : ℕ) => (margCount b y (v : ℤ) : ℝ) / (b.T : ℝ) := by
      funext v
      rw [colS_probTable, colSum_frameCount a b x y _ v (hra x hx),
        total_frameCount a b x y _ _ (hra x hx) (hrb y hy)]
      unfold margCount
      rw [hT]
    rw [← hcol]
    exact miF_le_entF_col _ _ _ (fun u _ v _ => probTable_nonneg _ _ _ u v)

theorem miF_congr (P P' : ℕ → ℕ → ℝ) (nA nB : ℕ) (h : ∀ u < nA, ∀ v < nB, P u v = P' u v) :
    miF P nA nB = miF P' nA nB := by
  unfold miF
  apply Finset.sum_congr rfl; intro u hu
  apply Finset.sum_congr rfl; intro v hv
  have hu' := mem_range.1 hu
  have hv' := mem_range.1 hv
  have hr : rowS P nB u = rowS P' nB u :=
    Finset.sum_congr rfl fun w hw => h u hu' w (mem_range.1 hw)
  have hc : colS P nA v = colS P' nA v :=
    Finset.sum_congr rfl fun w hw => h w (mem_range.1 hw) v hv'
  rw [hr, hc, h u hu' v hv']

/-- relabelling the states (a permutation of `[0, n)` per feature, on both sides) leaves `mi` unchanged -/
theorem mi_relabel_core (a b : Arr) (nA nB : ℤ) (πa πb : Nat → ℤ → ℤ) (r p : JC)
    (ha : ∀ f, f < a.F → RelabelOn (πa f) nA) (hb : ∀ f, f < b.F → RelabelOn (πb f) nB)
    (h : matrixBincount2d a b nA nB = .ok r)
    (hp : matrixBincount2d (a.relabel πa) (b.relabel πb) nA nB = .ok p)
    (x y : Nat) (hx : x < a.F) (hy : y < b.F) : miVal p x y = miVal r x y := by
  obtain ⟨p', hp', hrel⟩ := jc_relabel_core a b nA nB πa πb r ha hb h
  rw [hp] at hp'
  cases hp'
  obtain ⟨hT, hTpos, hnA, hnB, hra, hrb⟩ := ok_range a b nA nB r h
  obtain ⟨_, _, _, _, hra', hrb'⟩ := ok_range _ _ nA nB p hp
  have cA : ((nA.toNat : ℕ) : ℤ) = nA := by omega
  have cB : ((nB.toNat : ℕ) : ℤ) = nB := by omega
  rw [miVal_eq a b nA nB r h x y hx hy, miVal_eq _ _ nA nB p hp x y hx hy]
  -- the row / column relabellings on ℕ
  let σ : ℕ → ℕ := fun u => (πa x (u : ℤ)).toNat
  let ρ : ℕ → ℕ := fun v => (πb y (v : ℤ)).toNat
  have hσ : ∀ u < nA.toNat, 0 ≤ πa x (u : ℤ) ∧ πa x (u : ℤ) < nA := fun u hu =>
    (ha x hx).1 (u : ℤ) (by omega) (by omega)
  have hρ : ∀ v < nB.toNat, 0 ≤ πb y (v : ℤ) ∧ πb y (v : ℤ) < nB := fun v hv =>
    (hb y hy).1 (v : ℤ) (by omega) (by omega)
  rw [← miF_relabel _ nA.toNat nB.toNat σ ρ
    (fun u hu => by have := hσ u hu; show (πa x (u : ℤ)).toNat < nA.toNat; omega)
    (fun u hu u' hu' e => by
      have h1 := hσ u hu; have h2 := hσ u' hu'
      have : πa x (u : ℤ) = πa x (u' : ℤ) := by
        have e' : (πa x (u : ℤ)).toNat = (πa x (u' : ℤ)).toNat := e
        omega
      have := (ha x hx).2 (u : ℤ) (u' : ℤ) (by omega) (by omega) (by omega) (by omega) this
      omega)
    (fun v hv => by have := hρ v hv; show (πb y (v : ℤ)).toNat < nB.toNat; omega)
    (fun v hv v' hv' e => by
      have h1 := hρ v hv; have h2 := hρ v' hv'
      have : πb y (v : ℤ) = πb y (v' : ℤ) := by
        have e' : (πb y (v : ℤ)).toNat = (πb y (v' : ℤ)).toNat := e
        omega
      have := (hb y hy).2 (v : ℤ) (v' : ℤ) (by omega) (by omega) (by omega) (by omega) this
      omega)]
  apply miF_congr
  intro u hu v hv
  unfold probTable
  have eT : (a.relabel πa).T = a.T := rfl
  rw [total_frameCount a b x y _ _ (hra x hx) (hrb y hy),
    total_frameCount (a.relabel πa) (b.relabel πb) x y _ _ (hra' x hx) (hrb' y hy), eT]
  congr 2
  -- counts: p at the relabelled cell = r at the original cell
  obtain ⟨_, _, _, _, hcp⟩ := jc_exact_core _ _ nA nB p hp
  obtain ⟨_, _, _, _, hcr⟩ := jc_exact_core a b nA nB r h
  have h1 := hσ u hu
  have h2 := hρ v hv
  have key := hrel x y (u : ℤ) (v : ℤ) hx hy (by omega) (by omega) (by omega) (by omega)
  rw [hcp, hcr] at key
  have eF1 : (a.relabel πa).F = a.F := rfl
  have eF2 : (b.relabel πb).F = b.F := rfl
  rw [eF1, eF2, if_pos ⟨hx, hy⟩, if_pos ⟨hx, hy⟩] at key
  show frameCount (a.relabel πa) (b.relabel πb) x y ((σ u : ℕ) : ℤ) ((ρ v : ℕ) : ℤ) = _
  have e1 : ((σ u : ℕ) : ℤ) = πa x (u : ℤ) := by show (((πa x (u : ℤ)).toNat : ℕ) : ℤ) = _; omega
  have e2 : ((ρ v : ℕ) : ℤ) = πb y (v : ℤ) := by show (((πb y (v : ℤ)).toNat : ℕ) : ℤ) = _; omega
  rw [e1, e2, key]

/-- `mi` of pooled counts: the table of the concatenation is the sum of the tables -/
theorem mi_pooled_core (a a' b b' : Arr) (nA nB : ℤ) (r r' : JC)
    (hFa : a'.F = a.F) (hFb : b'.F = b.F)
    (h : matrixBincount2d a b nA nB = .ok r) (h' : matrixBincount2d a' b' nA nB = .ok r') :
    ∃ p, matrixBincount2d (a.append a') (b.append b') nA nB = .ok p ∧
      p.cnt = (r.add r').cnt ∧ ∀ x y, miVal p x y = miVal (r.add r') x y := by
  obtain ⟨p, hp, hc⟩ := jc_additive_core a a' b b' nA nB r r' hFa hFb h h'
  have hcnt : p.cnt = (r.add r').cnt := by
    funext x y i j; rw [hc]; rfl
  refine ⟨p, hp, hcnt, ?_⟩
  intro x y
  obtain ⟨_, _, e3, e4, _⟩ := jc_exact_core _ _ nA nB p hp
  obtain ⟨_, _, f3, f4, _⟩ := jc_exact_core a b nA nB r h
  unfold miVal JC.table
  rw [hcnt, e3, e4]
  show _ = termsVal (miTerms _ r.nA.toNat r.nB.toNat)
  rw [f3, f4]

end Ens.InfoR
