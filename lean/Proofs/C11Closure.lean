import Model.Trim
import Mathlib.Logic.Relation
/-!
The graph lemma of C11: the executable Warshall closure `reachB` is exactly
reflexive–transitive reachability along edges between vertices `< n`.
-/
namespace Ens.Trim

/-- the edge relation on the vertex set `{0,…,n-1}` -/
def Edge (n : Nat) (e : Nat → Nat → Bool) (a b : Nat) : Prop := a < n ∧ b < n ∧ e a b = true

/-- reflexive–transitive reachability (Mathlib's `ReflTransGen`) -/
def Reach (n : Nat) (e : Nat → Nat → Bool) : Nat → Nat → Prop := Relation.ReflTransGen (Edge n e)

theorem bget_bmk {n : Nat} {f : Nat → Nat → Bool} {i j : Nat} (hi : i < n) (hj : j < n) :
    bget (bmk n f) i j = f i j := by
  simp [bget, bmk, tabulate, hi, hj]

/-- the closure levels as a function (specification of `closureUpTo`) -/
def W (e : Nat → Nat → Bool) : Nat → Nat → Nat → Bool
  | 0, i, j => decide (i = j) || e i j
  | k+1, i, j => W e k i j || (W e k i k && W e k k j)

theorem bget_closureUpTo {n : Nat} (e : Nat → Nat → Bool) :
    ∀ k, k ≤ n → ∀ i j, i < n → j < n → bget (closureUpTo n e k) i j = W e k i j := by
  intro k
  induction k with
  | zero => intro _ i j hi hj; simp [closureUpTo, W, bget_bmk hi hj]
  | succ k ih =>
    intro hk i j hi hj
    have hk' : k < n := hk
    simp only [closureUpTo, warshallStep, W, bget_bmk hi hj]
    rw [ih (Nat.le_of_lt hk') i j hi hj, ih (Nat.le_of_lt hk') i k hi hk',
      ih (Nat.le_of_lt hk') k j hk' hj]

theorem W_mono (e : Nat → Nat → Bool) {k i j : Nat} (h : W e k i j = true) : W e (k+1) i j = true := by
  simp [W, h]

theorem W_mono_le (e : Nat → Nat → Bool) {k k' i j : Nat} (hk : k ≤ k') (h : W e k i j = true) :
    W e k' i j = true := by
  induction hk with
  | refl => exact h
  | step _ ih => exact W_mono e ih

/-- composition through an already admitted vertex is closed -/
theorem W_trans (e : Nat → Nat → Bool) :
    ∀ k m i j, m < k → W e k i m = true → W e k m j = true → W e k i j = true := by
  intro k
  induction k with
  | zero => intro m i j hm; omega
  | succ k ih =>
    intro m i j hm h1 h2
    simp only [W, Bool.or_eq_true, Bool.and_eq_true] at h1 h2 ⊢
    by_cases hmk : m = k
    · subst hmk
      have a : W e m i m = true := by rcases h1 with h | ⟨h, _⟩ <;> exact h
      have b : W e m m j = true := by rcases h2 with h | ⟨_, h⟩ <;> exact h
      exact Or.inr ⟨a, b⟩
    · have hm' : m < k := by omega
      rcases h1 with a | ⟨a1, a2⟩ <;> rcases h2 with b | ⟨b1, b2⟩
      · exact Or.inl (ih m i j hm' a b)
      · exact Or.inr ⟨ih m i k hm' a b1, b2⟩
      · exact Or.inr ⟨a1, ih m k j hm' a2 b⟩
      · exact Or.inr ⟨a1, b2⟩

theorem W_sound (n : Nat) (e : Nat → Nat → Bool) :
    ∀ k, k ≤ n → ∀ i j, i < n → j < n → W e k i j = true → Reach n e i j := by
  intro k
  induction k with
  | zero =>
    intro _ i j hi hj h
    simp only [W, Bool.or_eq_true, decide_eq_true_eq] at h
    rcases h with h | h
    · subst h; exact Relation.ReflTransGen.refl
    · exact Relation.ReflTransGen.single ⟨hi, hj, h⟩
  | succ k ih =>
    intro hk i j hi hj h
    have hk' : k < n := hk
    simp only [W, Bool.or_eq_true, Bool.and_eq_true] at h
    rcases h with h | ⟨h1, h2⟩
    · exact ih (Nat.le_of_lt hk') i j hi hj h
    · exact Relation.ReflTransGen.trans (ih (Nat.le_of_lt hk') i k hi hk' h1)
        (ih (Nat.le_of_lt hk') k j hk' hj h2)

theorem W_complete (n : Nat) (e : Nat → Nat → Bool) {i j : Nat} (h : Reach n e i j) :
    W e n i j = true := by
  induction h with
  | refl => exact W_mono_le e (Nat.zero_le n) (by simp [W])
  | tail _ hbc ih =>
    obtain ⟨hb, _, hbc⟩ := hbc
    exact W_trans e n _ _ _ hb ih (W_mono_le e (Nat.zero_le n) (by simp [W, hbc]))

/-- **closure = reachability** -/
theorem reachB_iff_reach (n : Nat) (e : Nat → Nat → Bool) {i j : Nat} (hi : i < n) (hj : j < n) :
    reachB n e i j = true ↔ Reach n e i j := by
  unfold reachB closure
  rw [bget_closureUpTo e n (Nat.le_refl n) i j hi hj]
  exact ⟨W_sound n e n (Nat.le_refl n) i j hi hj, W_complete n e⟩

theorem reach_lt_right {n : Nat} {e : Nat → Nat → Bool} {i j : Nat} (h : Reach n e i j) (hi : i < n) :
    j < n := by
  induction h with
  | refl => exact hi
  | tail _ hbc _ => exact hbc.2.1

theorem reach_trans {n : Nat} {e : Nat → Nat → Bool} {i j k : Nat} (h1 : Reach n e i j)
    (h2 : Reach n e j k) : Reach n e i k := Relation.ReflTransGen.trans h1 h2

end Ens.Trim
