import Model.Dist
import Mathlib.Algebra.Order.Ring.Rat
import Mathlib.Tactic.Linarith
import Mathlib.Tactic.Ring
import Mathlib.Tactic.NormNum
import Mathlib.Tactic.Positivity
/-! C integer arithmetic of the kernels: wrap-around is the identity on values that fit;
8/16-bit element types can never overflow the promoted `int` / `long`. -/
namespace Ens.Dist

theorem wrapC_of_fits (c : CArith) (x : Int) (h : c.fits x) : wrapC c x = x := by
  cases c <;> simp only [CArith.fits, CArith.lo, CArith.hi] at h <;>
    simp only [wrapC, Int.bmod] <;> omega

theorem wrapC_fits (c : CArith) (x : Int) : c.fits (wrapC c x) := by
  cases c <;> simp only [CArith.fits, CArith.lo, CArith.hi, wrapC, Int.bmod] <;> omega

theorem diffC_of_noOverflow (c : CArith) (x y : Int) (h : NoOverflowDiff c x y) :
    diffC c x y = x - y := wrapC_of_fits c _ h

theorem squareC_of_noOverflow (c : CArith) (x y : Int) (h : NoOverflowSq c x y) :
    squareC c x y = (x - y) * (x - y) := by
  unfold squareC
  simp only [diffC_of_noOverflow c x y h.1]
  exact wrapC_of_fits _ _ h.2

/-- the 8- and 16-bit element types (signed or unsigned) -/
def DType.isSmallInt : DType → Bool
  | .i8 | .i16 | .u8 | .u16 => true
  | _ => false

theorem smallInt_promote (t : DType) (h : t.isSmallInt = true) : t.promote = some .s32 := by
  cases t <;> simp_all [DType.isSmallInt, DType.promote]

theorem smallInt_bounds (t : DType) (h : t.isSmallInt = true) (x : Int) (hx : t.inRange x) :
    -32768 ≤ x ∧ x ≤ 65535 := by
  cases t <;> simp_all [DType.isSmallInt, DType.inRange, DType.lo, DType.hi] <;> omega

/-- differences and squares of 8/16-bit values fit in 32 / 64 bits: the kernels cannot
overflow on int8, int16 (uint8, uint16) data -/
theorem smallInt_noOverflow (t : DType) (h : t.isSmallInt = true) (x y : Int)
    (hx : t.inRange x) (hy : t.inRange y) : NoOverflowSq .s32 x y := by
  have bx := smallInt_bounds t h x hx
  have bylo := smallInt_bounds t h y hy
  have hd1 : -98303 ≤ x - y := by omega
  have hd2 : x - y ≤ 98303 := by omega
  refine ⟨by simp only [CArith.fits, CArith.lo, CArith.hi]; omega, ?_⟩
  simp only [CArith.squareType, CArith.fits, CArith.lo, CArith.hi]
  constructor
  · nlinarith [mul_self_nonneg (x - y)]
  · nlinarith [mul_nonneg (by linarith : (0:Int) ≤ 98303 - (x - y)) (by linarith : (0:Int) ≤ 98303 + (x - y))]

/-- 32-bit signed data: only the subtraction can overflow, never the square (it is done in `long`) -/
theorem s32_noOverflowSq_of_diff (x y : Int) (h : NoOverflowDiff .s32 x y) : NoOverflowSq .s32 x y := by
  refine ⟨h, ?_⟩
  simp only [NoOverflowDiff, CArith.fits, CArith.lo, CArith.hi] at h
  simp only [CArith.squareType, CArith.fits, CArith.lo, CArith.hi]
  constructor
  · nlinarith [mul_self_nonneg (x - y)]
  · nlinarith [mul_nonneg (by linarith : (0:Int) ≤ 2147483648 - (x - y)) (by linarith : (0:Int) ≤ 2147483648 + (x - y))]

theorem natAbs_cast_rat (d : Int) : (((d.natAbs : Int)) : Rat) = |(d : Rat)| := by
  rw [Int.natCast_natAbs]; push_cast; rfl

/-- euclidean contribution without overflow = exact square of the difference -/
theorem termInt_euclid (c : CArith) (x y : Int) (h : NoOverflowSq c x y) :
    termInt .native .euclidean c x y = ((x : Rat) - y) * ((x : Rat) - y) := by
  simp only [termInt, squareC_of_noOverflow c x y h]; push_cast; ring

/-- manhattan contribution without overflow = exact absolute difference -/
theorem termInt_manhattan (c : CArith) (x y : Int) (h : NoOverflowDiff c x y) :
    termInt .native .manhattan c x y = |(x : Rat) - y| := by
  simp only [termInt, diffC_of_noOverflow c x y h, natAbs_cast_rat]; push_cast; rfl

theorem termRat_manhattan (x y : Rat) : termRat .manhattan x y = |x - y| := by
  simp only [termRat]
  split
  · rename_i h; rw [abs_of_neg h]
  · rename_i h; rw [abs_of_nonneg (not_lt.mp h)]

theorem termInt_hamming (a : IntArith) (c : CArith) (x y : Int) :
    termInt a .hamming c x y = if x ≠ y then 1 else 0 := by
  simp only [termInt]; by_cases h : x = y <;> simp [h, eq_comm]

/-- the repaired arithmetic: exact for every pair, no hypothesis -/
theorem termInt_euclid_viaDouble (c : CArith) (x y : Int) :
    termInt .viaDouble .euclidean c x y = ((x : Rat) - y) * ((x : Rat) - y) := rfl

theorem termInt_manhattan_viaDouble (c : CArith) (x y : Int) :
    termInt .viaDouble .manhattan c x y = |(x : Rat) - y| := by
  simp only [termInt]
  split
  · rename_i h; rw [abs_of_neg h]
  · rename_i h; rw [abs_of_nonneg (not_lt.mp h)]

end Ens.Dist
