import Model.Basic
namespace Ens
theorem sumTo_zero {α} [Add α] [OfNat α 0] (f : Nat → α) : sumTo 0 f = 0 := rfl
theorem sumTo_succ {α} [Add α] [OfNat α 0] (n : Nat) (f : Nat → α) :
    sumTo (n+1) f = sumTo n f + f n := rfl
end Ens
