import Proofs.C11Trim
import Std.Data.String.ToNat
/-!
C11, part 4: `TrimMapping.write` / `read` round trip.
-/
namespace Ens.Trim

theorem parseRow_cells (p : Nat × Nat) : parseRow [toString p.1, toString p.2] = .ok p := by
  show parseRow [Nat.repr p.1, Nat.repr p.2] = .ok p
  simp [parseRow, Nat.toNat?_repr]

theorem mapM_parseRow_cells (l : List (Nat × Nat)) :
    (l.map fun p => [toString p.1, toString p.2]).mapM parseRow = .ok l := by
  induction l with
  | nil => rfl
  | cons p l ih =>
    rw [List.map_cons, List.mapM_cons, parseRow_cells, ih]; rfl

theorem read_write_eq (m : TrimMapping) :
    TrimMapping.read m.write = .ok (TrimMapping.ofTransformations
      (m.toMapped.mergeSort fun a b => decide (a.1 ≤ b.1))) := by
  simp only [TrimMapping.write, TrimMapping.read, if_true]
  rw [mapM_parseRow_cells]; rfl

theorem dictGet_perm {l l' : List (Nat × Nat)} (hp : l.Perm l') (h : (l.map Prod.fst).Nodup) (k : Nat) :
    dictGet l k = dictGet l' k := by
  have h' : (l'.map Prod.fst).Nodup := (hp.map Prod.fst).nodup_iff.1 h
  apply Option.ext
  intro v
  rw [dictGet_iff h, dictGet_iff h', hp.mem_iff]

/-- general round trip: a mapping that is injective in both directions is read back as the same
    pair of dictionaries (`TrimMapping.__eq__` compares `to_original` and `to_mapped` as dicts) -/
theorem read_write_perm (m : TrimMapping) (h1 : (m.toOriginal.map Prod.fst).Nodup)
    (h2 : (m.toOriginal.map Prod.snd).Nodup) :
    ∃ m', TrimMapping.read m.write = .ok m' ∧ m'.toOriginal.Perm m.toOriginal ∧
      m'.toMapped.Perm m.toMapped ∧
      (∀ t, m'.originalOf t = m.originalOf t) ∧ (∀ o, m'.mappedOf o = m.mappedOf o) := by
  refine ⟨_, read_write_eq m, ?_⟩
  have hk : ((m.toOriginal.map swap).map Prod.fst).Nodup := by rw [map_fst_map_swap]; exact h2
  have eM : m.toMapped = m.toOriginal.map swap := dictOf_nodup hk
  have hM1 : (m.toMapped.map Prod.fst).Nodup := by rw [eM]; exact hk
  have hM2 : (m.toMapped.map Prod.snd).Nodup := by rw [eM, map_snd_map_swap]; exact h1
  have hperm := List.mergeSort_perm m.toMapped (fun a b => decide (a.1 ≤ b.1))
  have hS1 := (hperm.map Prod.fst).nodup_iff.2 hM1
  have hS2 := (hperm.map Prod.snd).nodup_iff.2 hM2
  obtain ⟨e1, e2, _, _⟩ := ofTransformations_lookup hS1 hS2
  have p1 : (TrimMapping.ofTransformations
      (m.toMapped.mergeSort fun a b => decide (a.1 ≤ b.1))).toOriginal.Perm m.toOriginal := by
    rw [e1]
    have := hperm.map swap
    rw [eM, map_swap_swap] at this
    rw [eM]; exact this
  have p2 : (TrimMapping.ofTransformations
      (m.toMapped.mergeSort fun a b => decide (a.1 ≤ b.1))).toMapped.Perm m.toMapped := by
    rw [e2]; exact hperm
  refine ⟨p1, p2, ?_, ?_⟩
  · intro t
    exact dictGet_perm p1 ((p1.map Prod.fst).nodup_iff.2 h1) t
  · intro o
    exact dictGet_perm p2 ((p2.map Prod.fst).nodup_iff.2 hM1) o

/-- exact round trip when the pairs come sorted by original id (what `trim_disconnected` builds) -/
theorem read_write_sorted {ts : List (Nat × Nat)} (h1 : (ts.map Prod.fst).Pairwise (· < ·))
    (h2 : (ts.map Prod.snd).Nodup) :
    TrimMapping.read (TrimMapping.ofTransformations ts).write = .ok (TrimMapping.ofTransformations ts) := by
  have hn : (ts.map Prod.fst).Nodup := h1.imp (fun h => Nat.ne_of_lt h)
  obtain ⟨_, e2, _, _⟩ := ofTransformations_lookup hn h2
  rw [read_write_eq, e2, List.mergeSort_of_pairwise]
  rw [List.pairwise_map] at h1
  exact h1.imp (fun h => by simpa using Nat.le_of_lt h)

end Ens.Trim
