import Proofs.C05Forms
/-! iteration, flatten, attributes -/
namespace Ens.Ragged
open Ens

theorem iter_eq_rows {α} (ra : RA α) (h : WF ra) (fast : Bool) (hf : FastOK ra fast) :
    iter ra fast = .ok (rows ra) := by
  simp only [iter, arrayView_eq_rows ra h fast hf, bindE_ok]
  rw [iterAux_eq_drop _ _ _ (by omega)]
  rfl

theorem flatten_eq {α} (ra : RA α) (h : WF ra) : flatten ra = (rows ra).flatten := by
  simp only [flatten, rows, partitionAux_flatten]
  simp only [WF] at h
  simp [h]

theorem lengths_eq {α} (ra : RA α) (h : WF ra) : ra.lengths = (rows ra).map List.length := by
  simp only [WF] at h
  exact (partitionAux_map_length _ _ _ (by omega)).symm

theorem size_eq {α} (ra : RA α) (h : WF ra) : size ra = ((rows ra).map List.length).sum := by
  rw [← lengths_eq ra h]
  simp only [size]
  exact h.symm

theorem len_eq {α} (ra : RA α) (h : WF ra) (fast : Bool) (hf : FastOK ra fast) :
    len ra fast = .ok (rows ra).length := by
  simp only [len, arrayView_eq_rows ra h fast hf, bindE_ok]

/-- `shape`: number of rows and the common row length, `none` when the rows differ in length -/
def specShape {α} (rs : List (List α)) : Except Err (Nat × Option Nat) :=
  match rs with
  | [] => .error .indexError
  | r :: rest => .ok (rs.length, if rest.all (fun x => x.length == r.length) then some r.length else none)

theorem shape_eq {α} (ra : RA α) (h : WF ra) : shape ra = specShape (rows ra) := by
  have hl := lengths_eq ra h
  simp only [shape]
  cases hr : rows ra with
  | nil =>
    rw [hr] at hl
    simp only [List.map_nil] at hl
    rw [hl]; rfl
  | cons r rest =>
    rw [hr] at hl
    simp only [List.map_cons] at hl
    rw [hl]
    simp [specShape, List.all_map]

end Ens.Ragged
