import Proofs.C05RowSlice
/-! `a[rows, cs]` for column slices in the region where `_get_iis_from_slices` is right. -/
namespace Ens.Ragged
open Ens

/-- the position a numpy integer index denotes, if any -/
def normIdx (n : Nat) (i : Int) : Option Nat :=
  let j : Int := if i < 0 then i + n else i
  if j < 0 then none else if j.toNat < n then some j.toNat else none

theorem npIndex_of_norm_some {β} {l : List β} {i : Int} {k : Nat} (h : normIdx l.length i = some k) :
    npIndex l i = getNat l k ∧ k < l.length := by
  simp only [normIdx] at h
  simp only [npIndex, getNat]
  generalize (if i < 0 then i + (l.length : Int) else i) = j at h ⊢
  by_cases hj : j < 0
  · simp [hj] at h
  · by_cases hlt : j.toNat < l.length
    · simp only [hj, hlt, if_false, if_true, Option.some.injEq] at h
      subst h
      simp [hj, hlt]
    · simp [hj, hlt] at h

theorem npIndex_of_norm_none {β} {l : List β} {i : Int} (h : normIdx l.length i = none) :
    npIndex l i = .error .indexError := by
  simp only [normIdx] at h
  simp only [npIndex]
  generalize (if i < 0 then i + (l.length : Int) else i) = j at h ⊢
  by_cases hj : j < 0
  · simp [hj]
  · by_cases hlt : j.toNat < l.length
    · simp [hj, hlt] at h
    · simp only [hj, if_false]
      have : l[j.toNat]? = none := by
        rw [List.getElem?_eq_none_iff]; omega
      rw [this]

theorem normIdx_lt {n : Nat} {i : Int} {k : Nat} (h : normIdx n i = some k) : k < n := by
  simp only [normIdx] at h
  generalize (if i < 0 then i + (n : Int) else i) = j at h
  by_cases hj : j < 0
  · simp [hj] at h
  · by_cases hlt : j.toNat < n
    · simp only [hj, hlt, if_false, if_true, Option.some.injEq] at h
      omega
    · simp [hj, hlt] at h

theorem normIdx_ofNat {n k : Nat} (h : k < n) : normIdx n (k : Int) = some k := by
  simp only [normIdx]
  have : ¬ ((k : Int) < 0) := by omega
  simp [this, h]

theorem mapE_error_of_mem {α β ε} {f : α → Except ε β} {e0 : ε} (hf : ∀ x e, f x = .error e → e = e0)
    {l : List α} (h : ∃ x ∈ l, ∃ e, f x = .error e) : mapE f l = .error e0 := by
  induction l with
  | nil => obtain ⟨x, hx, _⟩ := h; simp at hx
  | cons y ys ih =>
    rw [mapE_cons]
    cases hy : f y with
    | error e => rw [hf y e hy]; rfl
    | ok v =>
      obtain ⟨x, hx, e, he⟩ := h
      rcases List.mem_cons.mp hx with hxy | hxs
      · subst hxy; rw [hy] at he; cases he
      · rw [ih ⟨x, hxs, e, he⟩]; rfl

/-- positions selected by the column slice in a row of length `len` (proof-side name) -/
def colIx (cs : PySlice) (len : Nat) : List Nat := (cs.indices len).getD []

theorem colIx_spec {cs : PySlice} (h : ColSliceOK cs) (len : Nat) :
    cs.indices len = some (colIx cs len) ∧
      pyRange (cs.start.getD 0) (colStop cs len) (cs.step.getD 1) = (colIx cs len).map Int.ofNat := by
  obtain ⟨ix, h1, h2⟩ := colRange_eq_indices h len
  simp [colIx, h1, h2]

theorem npSlice_error {β} {cs : PySlice} (hcs : ColSliceOK cs) (row : List β) (e : Err)
    (h : npSlice row cs = .error e) : e = .indexError := by
  simp only [npSlice, (colIx_spec hcs row.length).1] at h
  exact mapE_error_same (getNat_error row) h

/-- row `k` of a well-formed ragged array exists and has the recorded length -/
theorem rows_getNat {α} (ra : RA α) (h : WF ra) {k len : Nat} (hk : ra.lengths[k]? = some len) :
    ∃ row, getNat (rows ra) k = .ok row ∧ row.length = len := by
  simp only [getNat, rows_getElem?, hk, Option.map_some]
  refine ⟨_, rfl, ?_⟩
  have := take_sum_add_le ra.lengths k len hk
  simp only [WF] at h
  exact length_take_drop _ _ _ (by omega)

/-- length of the row an in-range index denotes (0 otherwise; proof-side only) -/
def lenOf (lens : List Nat) (i : Int) : Nat :=
  match normIdx lens.length i with
  | some k => lens[k]?.getD 0
  | none => 0

theorem lenOf_spec {lens : List Nat} {i : Int} {k : Nat} (h : normIdx lens.length i = some k) :
    lens[k]? = some (lenOf lens i) := by
  have hk : k < lens.length := normIdx_lt h
  simp [lenOf, h, List.getElem?_eq_getElem hk]

theorem slices_core {α} (ra : RA α) (h : WF ra) (first : List Int) (cs : PySlice) (hcs : ColSliceOK cs)
    (hne : first ≠ [])
    (hin : ∀ i ∈ first, ∃ k, normIdx ra.lengths.length i = some k)
    (hrow : ∀ i ∈ first, colIx cs (lenOf ra.lengths i) ≠ []) :
    absE (finish ra (getIisFromSlices first cs ra.lengths)) =
      bindE (mapE (fun i => bindE (npIndex (rows ra) i) fun row => npSlice row cs) first)
        fun out => .ok (SRes.rows out) := by
  have hpos := step_pos_of hcs.1
  have hstep : ¬ (cs.step.getD 1 = 0) := by omega
  -- step 1: the per-row splits
  have hsplits : mapE (fun num => bindE (npIndex (colStops cs ra.lengths) num) fun st =>
        if cs.step.getD 1 = 0 then .error .other
        else .ok (num, pyRange (cs.start.getD 0) st (cs.step.getD 1))) first =
      .ok (first.map fun i => (i, (colIx cs (lenOf ra.lengths i)).map Int.ofNat)) := by
    apply mapE_ok_of_forall
    intro i hi
    obtain ⟨k, hk⟩ := hin i hi
    have hk' : normIdx (colStops cs ra.lengths).length i = some k := by
      simpa [colStops_eq] using hk
    obtain ⟨e1, _⟩ := npIndex_of_norm_some hk'
    rw [e1]
    have hlen := lenOf_spec hk
    simp only [getNat, colStops_eq, List.getElem?_map, hlen, Option.map_some, bindE_ok, if_neg hstep]
    rw [(colIx_spec hcs _).2]
  simp only [getIisFromSlices, hsplits, bindE_ok, if_neg hne]
  have hany : (first.map fun i => (i, (colIx cs (lenOf ra.lengths i)).map Int.ofNat)).any
      (fun p => p.2.isEmpty) = false := by
    rw [List.any_eq_false]
    intro p hp
    simp only [List.mem_map] at hp
    obtain ⟨i, hi, rfl⟩ := hp
    have := hrow i hi
    simp [this]
  simp only [hany, Bool.false_eq_true, if_false]
  have hne' : (first.map fun i => (i, (colIx cs (lenOf ra.lengths i)).map Int.ofNat)).flatMap
      (fun p => p.2.map fun j => (p.1, j)) ≠ [] := by
    cases first with
    | nil => exact absurd rfl hne
    | cons i is =>
      have := hrow i (by simp)
      cases hc : colIx cs (lenOf ra.lengths i) with
      | nil => exact absurd hc this
      | cons j js => simp [hc]
  have hfin := finish_eq ra h
    (first.map fun i => (i, (colIx cs (lenOf ra.lengths i)).map Int.ofNat)) (fun p => p.1) (fun p => p.2) hne'
  rw [hfin]
  congr 1
  rw [mapE_map]
  apply mapE_congr
  intro i hi
  obtain ⟨k, hk⟩ := hin i hi
  have hk' : normIdx (rows ra).length i = some k := by rw [rows_length]; exact hk
  obtain ⟨e1, _⟩ := npIndex_of_norm_some hk'
  obtain ⟨row, hrowk, hrl⟩ := rows_getNat ra h (lenOf_spec hk)
  simp only [mapE_map, cell, e1, hrowk, bindE_ok, npSlice, hrl, (colIx_spec hcs _).1]
  apply mapE_congr
  intro j _
  exact npIndex_ofNat row j

end Ens.Ragged

namespace Ens.Ragged
open Ens

theorem colIx_ne_nil {cs : PySlice} (hcs : ColSliceOK cs) {len : Nat} (h : cs.indices len ≠ some []) :
    colIx cs len ≠ [] := by
  intro h0
  apply h
  rw [(colIx_spec hcs len).1, h0]

theorem get_slice_slice_partial' {α} (ra : RA α) (h : WF ra) (fast : Bool) (rs cs : PySlice)
    (hrs : RowSliceOK ra.lengths.length rs) (hsel : rs.indices ra.lengths.length ≠ some [])
    (hcs : ColSliceOK cs)
    (hrow : ∀ ix, rs.indices ra.lengths.length = some ix → ∀ k ∈ ix, ∀ len,
      ra.lengths[k]? = some len → cs.indices len ≠ some []) :
    absE (getItem ra fast (.two (.slice rs) (.slice cs))) =
      specGet (rows ra) (.two (.slice rs) (.slice cs)) := by
  obtain ⟨ix, hix, hstl⟩ := sliceToList_eq_indices hrs
  have hixne : ix ≠ [] := by
    intro h0; apply hsel; rw [hix, h0]
  have hlt := indices_lt hix
  simp only [getItem, specGet, colSel, hstl, bindE_ok]
  rw [slices_core ra h (ix.map Int.ofNat) cs hcs (by simpa using hixne)]
  · simp only [npSlice, rows_length, hix]
    rw [← bindE_assoc]
    have e := mapE_comp_same (e0 := Err.indexError) (f := getNat (rows ra))
      (g := fun row => npSlice row cs) (getNat_error (rows ra)) (fun row e he => npSlice_error hcs row e he) ix
    simp only [npSlice] at e
    rw [e, mapE_map]
    congr 1
  · intro i hi
    simp only [List.mem_map] at hi
    obtain ⟨k, hk, rfl⟩ := hi
    exact ⟨k, normIdx_ofNat (hlt k hk)⟩
  · intro i hi
    simp only [List.mem_map] at hi
    obtain ⟨k, hk, rfl⟩ := hi
    have hn := normIdx_ofNat (hlt k hk)
    have hl := lenOf_spec (i := (k : Int)) hn
    exact colIx_ne_nil hcs (hrow ix hix k hk _ hl)

theorem get_list_slice_partial' {α} (ra : RA α) (h : WF ra) (fast : Bool) (l : List Int) (b : Bool)
    (cs : PySlice) (hl : l ≠ []) (hcs : ColSliceOK cs)
    (hrow : ∀ i ∈ l, ∀ len, npIndex ra.lengths i = .ok len → cs.indices len ≠ some []) :
    absE (getItem ra fast (.two (.list l b) (.slice cs))) =
      specGet (rows ra) (.two (.list l b) (.slice cs)) := by
  simp only [getItem, specGet]
  by_cases hin : ∀ i ∈ l, ∃ k, normIdx ra.lengths.length i = some k
  · apply slices_core ra h l cs hcs hl hin
    intro i hi
    obtain ⟨k, hk⟩ := hin i hi
    have hlen := lenOf_spec hk
    apply colIx_ne_nil hcs
    apply hrow i hi
    obtain ⟨e1, _⟩ := npIndex_of_norm_some hk
    rw [e1]
    simp [getNat, hlen]
  · -- some row index is out of range: both sides raise IndexError
    have hex : ∃ i ∈ l, normIdx ra.lengths.length i = none := by
      apply Classical.byContradiction
      intro hcon
      apply hin
      intro i hi
      cases hn : normIdx ra.lengths.length i with
      | some k => exact ⟨k, rfl⟩
      | none => exact absurd ⟨i, hi, hn⟩ hcon
    obtain ⟨i, hi, hn⟩ := hex
    have hpos := step_pos_of hcs.1
    have hstep : ¬ (cs.step.getD 1 = 0) := by omega
    have hmodel : getIisFromSlices l cs ra.lengths = .error .indexError := by
      simp only [getIisFromSlices]
      rw [mapE_error_of_mem (e0 := Err.indexError)]
      · rfl
      · intro x e he
        cases hx : npIndex (colStops cs ra.lengths) x with
        | error e' => rw [hx] at he; cases he; exact npIndex_error _ _ _ hx
        | ok st => rw [hx] at he; simp only [bindE_ok, if_neg hstep] at he; cases he
      · refine ⟨i, hi, .indexError, ?_⟩
        have hn' : normIdx (colStops cs ra.lengths).length i = none := by simpa [colStops_eq] using hn
        rw [npIndex_of_norm_none hn']; rfl
    have hspec : mapE (fun i => bindE (npIndex (rows ra) i) fun row => npSlice row cs) l =
        .error .indexError := by
      apply mapE_error_of_mem
      · intro x e he
        cases hx : npIndex (rows ra) x with
        | error e' => rw [hx] at he; cases he; exact npIndex_error _ _ _ hx
        | ok row => rw [hx] at he; exact npSlice_error hcs row e he
      · refine ⟨i, hi, .indexError, ?_⟩
        have hn' : normIdx (rows ra).length i = none := by rw [rows_length]; exact hn
        rw [npIndex_of_norm_none hn']; rfl
    rw [hmodel, hspec]
    rfl

end Ens.Ragged
