import Model.Builders
import Proofs.C04
import Proofs.C12Final

/-! Bridge between the two matrix representations (index functions of `Model.Builders`,
`Vector`s of `Model.Mle`) and the composition "builders.mle = prior, Prinz estimator, output". -/

set_option linter.unusedSectionVars false

namespace Ens.C04P
open Ens Ens.Builders Ens.Mle Ens.C12P

variable {K : Type} [Field K] [LinearOrder K] [IsStrictOrderedRing K] {n : Nat}

/-- a `Vector`-based matrix as an index function (0 outside the `n × n` block) -/
def matFn (X : Mle.Mat K n) : Builders.Mat K :=
  fun i j => if h : i < n ∧ j < n then mget X ⟨i, h.1⟩ ⟨j, h.2⟩ else 0

def vecFn (x : Mle.Vec K n) : Nat → K := fun i => if h : i < n then vget x ⟨i, h⟩ else 0

/-- the leading `n × n` block of an index function as a `Vector`-based matrix
(`C.copy().astype(float)` of the dense counts) -/
def matOfFn (n : Nat) (C : Builders.Mat K) : Mle.Mat K n :=
  Vector.ofFn fun i => Vector.ofFn fun j => C i.val j.val

/-- the estimator that `builders.mle` wraps: `_prinz_mle_py` on the dense counts -/
def prinzEst (P : Params K) (n : Nat) :
    Builders.Mat K → Except Mle.Err (Builders.Mat K × (Nat → K)) :=
  fun C' => match Mle.run P (matOfFn n C') with
    | .error e => .error e
    | .ok r => .ok (matFn r.T, vecFn r.pi)

theorem matFn_lt (X : Mle.Mat K n) {i j : Nat} (hi : i < n) (hj : j < n) :
    matFn X i j = mget X ⟨i, hi⟩ ⟨j, hj⟩ := by
  simp [matFn, hi, hj]

theorem vecFn_lt (x : Mle.Vec K n) {i : Nat} (hi : i < n) : vecFn x i = vget x ⟨i, hi⟩ := by
  simp [vecFn, hi]

theorem mget_matOfFn (C : Builders.Mat K) (i j : Fin n) : mget (matOfFn n C) i j = C i.val j.val :=
  mget_ofFn _ i j

/-- `sumTo n` is the sum over `Fin n` -/
theorem sumTo_eq_fin_sum (f : Nat → K) : sumTo n f = ∑ i : Fin n, f i.val := by
  rw [sumTo_eq_sum, Finset.sum_range]

end Ens.C04P
