import Proofs.C13Mem
import Proofs.C13Row
/-! The kernels on the flat `out` buffer under arbitrary interleavings; validation. -/
namespace Ens.Dist
open Ens.Sched

/-! ### rows write disjoint positions -/

theorem outPos_inj (offset stride : Int) (n : Nat)
    (hpos : ∀ i, i < n → 0 ≤ idx1 offset stride i) (hs : stride ≠ 0 ∨ n ≤ 1)
    (i j : Nat) (hi : i < n) (hj : j < n) (h : outPos offset stride i = outPos offset stride j) :
    i = j := by
  rcases hs with hs | hs
  · have h1 := hpos i hi
    have h2 := hpos j hj
    unfold outPos at h
    have h3 : idx1 offset stride i = idx1 offset stride j := by
      have := congrArg (fun (k : Nat) => (k : Int)) h
      simp only [Int.toNat_of_nonneg h1, Int.toNat_of_nonneg h2] at this
      exact this
    unfold idx1 at h3
    have h4 : (i : Int) * stride = (j : Int) * stride := by linarith
    have := Int.eq_of_mul_eq_mul_right hs h4
    exact_mod_cast this
  · omega

/-- After ANY interleaving of the row programs, the flat position of `out[i]` holds the
sequential result of row `i`, and every other position of the buffer is unchanged. -/
theorem runMem_spec (progs : List (List (Cell → Cell))) (e : Exec Cell)
    (h : IsInterleaving progs e) (offset stride : Int) (buf : Nat → Cell)
    (hpos : ∀ i, i < progs.length → 0 ≤ idx1 offset stride i)
    (hs : stride ≠ 0 ∨ progs.length ≤ 1) :
    (∀ i, i < progs.length → runMem offset stride e buf (outPos offset stride i)
        = runSteps (progOf progs i) (buf (outPos offset stride i))) ∧
    (∀ c, (∀ i, i < progs.length → outPos offset stride i ≠ c) →
        runMem offset stride e buf c = buf c) := by
  constructor
  · intro i hi
    exact run_retag (outPos offset stride) progs e buf h
      (fun a b ha hb hab => outPos_inj offset stride progs.length hpos hs a b ha hb hab) i hi
  · intro c hc
    exact run_retag_other (outPos offset stride) progs e buf h c hc

/-- the final `out` buffer is the same for every interleaving -/
theorem runMem_interleaving_independent (progs : List (List (Cell → Cell))) (e1 e2 : Exec Cell)
    (h1 : IsInterleaving progs e1) (h2 : IsInterleaving progs e2)
    (offset stride : Int) (buf : Nat → Cell)
    (hpos : ∀ i, i < progs.length → 0 ≤ idx1 offset stride i)
    (hs : stride ≠ 0 ∨ progs.length ≤ 1) :
    runMem offset stride e1 buf = runMem offset stride e2 buf := by
  funext c
  have s1 := runMem_spec progs e1 h1 offset stride buf hpos hs
  have s2 := runMem_spec progs e2 h2 offset stride buf hpos hs
  by_cases hc : ∃ i, i < progs.length ∧ outPos offset stride i = c
  · obtain ⟨i, hi, rfl⟩ := hc
    rw [s1.1 i hi, s2.1 i hi]
  · have hc' : ∀ i, i < progs.length → outPos offset stride i ≠ c :=
      fun i hi heq => hc ⟨i, hi, heq⟩
    rw [s1.2 c hc', s2.2 c hc']

theorem progsOf_length {ε} (k : Kernel) (term : ε → ε → Rat) (rows : List (List ε)) (ys : List ε) :
    (progsOf k term rows ys).length = rows.length := by simp [progsOf]

theorem progOf_progsOf {ε} (k : Kernel) (term : ε → ε → Rat) (rows : List (List ε)) (ys : List ε)
    (i : Nat) (xs : List ε) (h : rows[i]? = some xs) :
    progOf (progsOf k term rows ys) i = rowProg k ys.length (rowTerms term xs ys) := by
  simp [progOf, progsOf, List.getD, List.getElem?_map, h]

/-! ### the kernel call -/

/-- what a successful kernel run means (`n`, `w`, `so`, `rows`, `ys` are the sizes, the `out`
stride and the logical data the run read) -/
structure KernelSpec {ε} (k : Kernel) (term : ε → ε → Rat) (X y : Arr ε) (out : Arr Cell)
    (r : Result) (n w : Nat) (so : Int) (rows : List (List ε)) (ys : List ε) : Prop where
  hshape : out.shape = [n]
  hy : y.shape = [w]
  hstr : out.strides = [so]
  hrows : X.rows? n w = some rows
  hys : y.elems? w = some ys
  hrowsLen : rows.length = n
  hysLen : ys.length = w
  hn : r.n = n
  hoff : r.offset = out.offset
  hstride : r.stride = so
  hlen : r.buf.length = out.buf.size
  /-- every position of row `i` is inside the buffer and holds the row's result -/
  hrow : ∀ i xs, rows[i]? = some xs →
      ∃ init, out.buf[outPos out.offset so i]? = some init ∧
        r.buf[outPos out.offset so i]? = some (rowResult k w (rowTerms term xs ys) init)
  /-- all other positions keep their content -/
  hother : ∀ c, (∀ i, i < n → outPos out.offset so i ≠ c) → r.buf[c]? = out.buf[c]?

theorem storeOf_of_get (buf : Array Cell) (c : Nat) (v : Cell) (h : buf[c]? = some v) :
    storeOf buf c = v := by
  simp [storeOf, Array.getD_eq_getD_getElem?, h]

theorem kernelRun_spec {ε} (k : Kernel) (term : ε → ε → Rat) (X y : Arr ε) (out : Arr Cell)
    (choices : List Nat) (r : Result) (h : kernelRun k term X y out choices = .ok r) :
    ∃ n w so rows ys, KernelSpec k term X y out r n w so rows ys := by
  unfold kernelRun at h
  split at h
  case h_2 => cases h
  case h_1 n w so hsh hy hst =>
    split at h
    · cases h
    rename_i hext
    split at h
    · cases h
    rename_i halias
    split at h
    case h_2 => cases h
    case h_1 rows ys hrows hys =>
      simp only [Except.ok.injEq] at h
      subst h
      simp only [Bool.not_eq_true', Bool.not_eq_false, Bool.and_eq_true, Bool.not_eq_eq_eq_not,
        Bool.not_true, Bool.not_false] at hext
      have hext' : X.extentOk = true ∧ y.extentOk = true ∧ out.extentOk = true := by
        revert hext
        cases X.extentOk <;> cases y.extentOk <;> cases out.extentOk <;> simp
      obtain ⟨hXe, hye, hoe⟩ := hext'
      have hrl := (allSome_range_get n _ rows hrows).1
      have hyl := (allSome_range_get w _ ys hys).1
      have hpl : (progsOf k term rows ys).length = n := by rw [progsOf_length, hrl]
      have hpos : ∀ i, i < (progsOf k term rows ys).length → 0 ≤ idx1 out.offset so i := by
        intro i hi
        exact (extent1_inBuf out n so hsh hst hoe i (by omega)).1
      have hs : so ≠ 0 ∨ (progsOf k term rows ys).length ≤ 1 := by
        by_cases h0 : so = 0
        · right; rw [hpl]
          have : ¬ 1 < n := fun hlt => halias ⟨h0, hlt⟩
          omega
        · left; exact h0
      have spec := runMem_spec (progsOf k term rows ys) (schedule (progsOf k term rows ys) choices)
        (schedule_isInterleaving _ _) out.offset so (storeOf out.buf) hpos hs
      refine ⟨n, w, so, rows, ys, ?_⟩
      refine { hshape := hsh, hy := hy,
               hstr := hst, hrows := hrows, hys := hys, hrowsLen := hrl, hysLen := hyl,
               hn := rfl, hoff := rfl, hstride := rfl, hlen := by simp,
               hrow := ?_, hother := ?_ }
      · intro i xs hxs
        have hi : i < n := by
          have := (List.getElem?_eq_some_iff.mp hxs).1
          omega
        have hin := extent1_inBuf out n so hsh hst hoe i hi
        have hlt : outPos out.offset so i < out.buf.size := by
          unfold outPos; have := hin.1; have := hin.2; omega
        refine ⟨out.buf[outPos out.offset so i], by simp [hlt], ?_⟩
        rw [List.getElem?_map, List.getElem?_range hlt, Option.map_some]
        rw [spec.1 i (by omega), progOf_progsOf k term rows ys i xs hxs, hyl]
        simp [rowResult, storeOf, hlt]
      · intro c hc
        by_cases hlt : c < out.buf.size
        · rw [List.getElem?_map, List.getElem?_range hlt, Option.map_some]
          rw [spec.2 c (fun i hi => hc i (by omega))]
          simp [storeOf, Array.getD_eq_getD_getElem?, hlt]
        · have h1 : ((List.range out.buf.size).map
              (runMem out.offset so (schedule (progsOf k term rows ys) choices) (storeOf out.buf)))[c]? = none := by
            apply List.getElem?_eq_none; simp; omega
          have h2 : out.buf[c]? = none := by
            apply Array.getElem?_eq_none; omega
          rw [h1, h2]

/-- numpy-valid arguments of validated shape never make the model reject the request -/
theorem kernelRun_ok_of_valid {ε} (k : Kernel) (term : ε → ε → Rat) (X y : Arr ε) (out : Arr Cell)
    (choices : List Nat) (n w : Nat) (so : Int)
    (hX : X.shape = [n, w]) (hy : y.shape = [w]) (ho : out.shape = [n]) (hst : out.strides = [so])
    (hXe : X.extentOk = true) (hye : y.extentOk = true) (hoe : out.extentOk = true)
    (halias : so ≠ 0 ∨ n ≤ 1) :
    ∃ r, kernelRun k term X y out choices = .ok r := by
  obtain ⟨rows, hrows, -, -⟩ := allSome_range n
    (fun i => allSome ((List.range w).map (fun j => X.read2? i j)))
    (fun i hi => by
      obtain ⟨row, hrow, -, -⟩ := allSome_range w (fun j => X.read2? i j)
        (fun j hj => read2?_isSome X n w hX hXe i j hi hj)
      simp [hrow])
  obtain ⟨ys, hys, -, -⟩ := allSome_range w (fun j => y.read1? j)
    (fun j hj => read1?_isSome y w hy hye j hj)
  have hrows' : X.rows? n w = some rows := hrows
  have hys' : y.elems? w = some ys := hys
  have hal : ¬ (so = 0 ∧ 1 < n) := by
    rintro ⟨h0, h1⟩; rcases halias with h | h
    · exact h h0
    · omega
  unfold kernelRun
  rw [ho, hy, hst]
  simp only [hXe, hye, hoe, Bool.and_self, Bool.not_true, Bool.false_eq_true, if_false, hal,
    hrows', hys']
  exact ⟨_, rfl⟩

/-! ### validation -/

theorem prepare_ok_iff (Xm ym : Meta) (om : Option Meta) (sh : List Nat) :
    prepare Xm ym om = .ok sh ↔
      ∃ n w, Xm.shape = [n, w] ∧ ym.shape = [w] ∧ sh = [n] ∧
        (om = none ∨ ∃ o, om = some o ∧ o.dtype = "float64" ∧ o.shape = [n]) := by
  unfold prepare
  constructor
  · intro h
    split at h
    case h_2 => cases h
    case h_1 n wx wy hX hy =>
      split at h
      · cases h
      rename_i hw
      have hw' : wx = wy := by simpa using hw
      subst hw'
      split at h
      case h_1 =>
        cases h
        exact ⟨n, wx, hX, hy, rfl, Or.inl rfl⟩
      case h_2 o =>
        split at h
        · cases h
        rename_i hdt
        split at h
        case h_1 => cases h
        case h_2 m rest hsh =>
          split at h
          · cases h
          rename_i hm
          split at h
          · cases h
          rename_i hrest
          cases h
          have hm' : m = n := by simpa using hm
          have hrest' : rest = [] := by simpa using hrest
          subst hm' hrest'
          exact ⟨m, wx, hX, hy, rfl, Or.inr ⟨o, rfl, by simpa using hdt, hsh⟩⟩
  · rintro ⟨n, w, hX, hy, rfl, ho⟩
    rw [hX, hy]
    rcases ho with rfl | ⟨o, rfl, hdt, hsh⟩
    · simp
    · simp [hdt, hsh]

/-- every malformed argument combination is rejected: the error kinds in source order -/
theorem prepare_error_of_bad_rank (Xm ym : Meta) (om : Option Meta)
    (h : Xm.shape.length ≠ 2 ∨ ym.shape.length ≠ 1) : prepare Xm ym om = .error .dataInvalid := by
  unfold prepare
  split
  case h_1 n wx wy hX hy => rw [hX, hy] at h; simp at h
  case h_2 => rfl

theorem prepare_error_of_width (Xm ym : Meta) (om : Option Meta) (n wx wy : Nat)
    (hX : Xm.shape = [n, wx]) (hy : ym.shape = [wy]) (h : wx ≠ wy) :
    prepare Xm ym om = .error .dataInvalid := by
  unfold prepare; rw [hX, hy]; simp [h]

theorem dispatch_ok (k : Kernel) (Xm ym : Meta) (wr : Bool) (t : DType)
    (h : dispatch k Xm ym wr = .ok t) :
    DType.ofName Xm.dtype = some t ∧ t ∈ k.dtypes ∧ ym.dtype = Xm.dtype ∧ wr = true := by
  unfold dispatch at h
  cases hn : DType.ofName Xm.dtype with
  | none => simp [hn] at h
  | some t' =>
    simp only [hn] at h
    split at h
    · cases h
    rename_i h1
    split at h
    · cases h
    rename_i h2
    split at h
    · cases h
    rename_i h3
    cases h
    exact ⟨rfl, by simpa using h1, by simpa using h2, by simpa using h3⟩

end Ens.Dist
