import Proofs.C13Spec
import Mathlib.Analysis.InnerProductSpace.PiL2
import Mathlib.Algebra.BigOperators.Fin
/-! The rational under the model's `Cell.sqrt` is the squared Euclidean distance: the value the
symbol denotes is `dist x y` in `EuclideanSpace ℝ (Fin w)`; `l1Dist` is the 1-norm. -/
namespace Ens.Dist

/-- the real number a tracked cell denotes -/
noncomputable def Cell.toReal : Cell → Option ℝ
  | .val q => some (q : ℝ)
  | .sqrt q => some (Real.sqrt (q : ℝ))
  | _ => none

theorem zip_ofFn {α β} {n : Nat} (f : Fin n → α) (g : Fin n → β) :
    (List.ofFn f).zip (List.ofFn g) = List.ofFn (fun i => (f i, g i)) := by
  apply List.ext_getElem
  · simp
  · intro i h1 h2
    simp

theorem sqDist_ofFn {w : Nat} (x y : Fin w → ℚ) :
    sqDist (List.ofFn x) (List.ofFn y) = ∑ i : Fin w, (x i - y i) ^ 2 := by
  unfold sqDist
  rw [zip_ofFn, List.map_ofFn, List.sum_ofFn]
  rfl

theorem l1Dist_ofFn {w : Nat} (x y : Fin w → ℚ) :
    l1Dist (List.ofFn x) (List.ofFn y) = ∑ i : Fin w, |x i - y i| := by
  unfold l1Dist
  rw [zip_ofFn, List.map_ofFn, List.sum_ofFn]
  rfl

/-- `Cell.sqrt (sqDist x y)` denotes the Euclidean distance (2-norm of `x − y`) -/
theorem sqrt_sqDist_eq_dist {w : Nat} (x y : Fin w → ℚ) :
    Cell.toReal (.sqrt (sqDist (List.ofFn x) (List.ofFn y)))
      = some (dist ((WithLp.toLp 2 (fun i => (x i : ℝ))) : EuclideanSpace ℝ (Fin w))
                   (WithLp.toLp 2 (fun i => (y i : ℝ)))) := by
  simp only [Cell.toReal, sqDist_ofFn, EuclideanSpace.dist_eq, Real.dist_eq, sq_abs]
  congr 2
  push_cast
  rfl

/-- `Cell.val (l1Dist x y)` denotes Σ |x_i − y_i| (1-norm of `x − y`) -/
theorem val_l1Dist_eq {w : Nat} (x y : Fin w → ℚ) :
    Cell.toReal (.val (l1Dist (List.ofFn x) (List.ofFn y)))
      = some (∑ i : Fin w, |(x i : ℝ) - (y i : ℝ)|) := by
  simp only [Cell.toReal, l1Dist_ofFn]
  congr 1
  push_cast
  rfl

end Ens.Dist
