import Proofs.C02Run
import Mathlib.Combinatorics.Pigeonhole
import Mathlib.Data.Fintype.Card
import Mathlib.Data.Fintype.Fin
import Mathlib.Data.List.Basic

/-! Running-minimum invariant of the plain algorithm and Gonzalez' 2-approximation. -/
namespace Ens.KC

/-- invariants are inherited along `iterN` -/
theorem iterN_inv {D : Table} {n : Nat} {tri : Bool} (P : St → Prop)
    (step : ∀ s s', P s → iter D n tri s = .ok s' → P s') :
    ∀ (j : Nat) (s sj : St), P s → iterN D n tri j s = .ok sj → P sj := by
  intro j
  induction j with
  | zero =>
    intro s sj hP h
    simp only [iterN] at h
    injection h with h; subst h; exact hP
  | succ j ih =>
    intro s sj hP h
    rw [iterN] at h
    cases h1 : iter D n tri s with
    | error e => rw [h1] at h; cases h
    | ok s1 =>
      rw [h1] at h
      exact ih s1 sj (step s s1 hP h1) h

/-- `dist` is the running minimum of the distances to `cs`:
below every one of them, and equal to one of them (`inf` when there is none) -/
def RMin (D : Table) (dist : Nat → ERat) (cs : List Nat) : Prop :=
  (∀ f c, c ∈ cs → toWT (dist f) ≤ ((D f c : ℚ) : WithTop ℚ)) ∧
  (∀ f, (cs = [] ∧ dist f = none) ∨ ∃ c ∈ cs, dist f = some (D f c))

theorem RMin_nil (D : Table) : RMin D (fun _ => none) [] :=
  ⟨fun f c hc => by simp at hc, fun f => Or.inl ⟨rfl, rfl⟩⟩

/-- folding one more center in with `dist < distances` keeps the running minimum -/
theorem RMin_step {D : Table} {dist dist' : Nat → ERat} {cs : List Nat} (c : Nat)
    (h : RMin D dist cs)
    (hd : ∀ f, dist' f = if ltE (some (D f c)) (dist f) then some (D f c) else dist f) :
    RMin D dist' (cs ++ [c]) := by
  obtain ⟨lb, att⟩ := h
  constructor
  · intro f x hx
    rw [hd f]
    rw [List.mem_append, List.mem_singleton] at hx
    by_cases hlt : ltE (some (D f c)) (dist f) = true
    · rw [if_pos hlt]
      rw [ltE_iff] at hlt
      rcases hx with hx | hx
      · exact le_trans (le_of_lt hlt) (lb f x hx)
      · subst hx; exact le_refl _
    · rw [if_neg hlt]
      have hlt' : ltE (some (D f c)) (dist f) = false := by simpa using hlt
      rw [ltE_false_iff] at hlt'
      rcases hx with hx | hx
      · exact lb f x hx
      · subst hx; exact hlt'
  · intro f
    right
    rw [hd f]
    by_cases hlt : ltE (some (D f c)) (dist f) = true
    · rw [if_pos hlt]; exact ⟨c, by simp, rfl⟩
    · rw [if_neg hlt]
      rcases att f with ⟨h1, h2⟩ | ⟨x, hx, h2⟩
      · rw [h2] at hlt; simp [ltE] at hlt
      · exact ⟨x, by simp [hx], h2⟩

theorem RMin_iterPlain {D : Table} {n : Nat} {s : St} (h : RMin D s.dist s.centers) :
    RMin D (iterPlain D n s).dist (iterPlain D n s).centers := by
  unfold iterPlain
  simp only [update_centers]
  exact RMin_step _ h (fun f => update_dist _ _ _ _ _)

theorem RMin_nearestGo {D : Table} {n : Nat} :
    ∀ (cs pre : List Nat) (i : Nat) (d : Nat → ERat) (a : Nat → Int), RMin D d pre →
      RMin D (nearestGo D n cs i d a).1 (pre ++ cs) := by
  intro cs
  induction cs with
  | nil => intro pre i d a h; simpa [nearestGo] using h
  | cons c cs ih =>
    intro pre i d a h
    simp only [nearestGo, look_tab]
    have h' : RMin D (fun f => if ltE (some (D f c)) (d f) then some (D f c) else d f) (pre ++ [c]) :=
      RMin_step c h (fun f => rfl)
    have := ih (pre ++ [c]) (i+1) _
      (fun f => if ltE (some (D f c)) (d f) = true then (i : Int) else a f) h'
    simpa using this

/-- the state before the loop carries the running minimum over `centers` (cold and warm start) -/
theorem RMin_initState (D : Table) (n : Nat) (init : Option (List Nat)) :
    RMin D (initState D n init).dist (initState D n init).centers := by
  cases init with
  | none => exact RMin_nil D
  | some cs =>
    simp only [initState, assignToNearest]
    have := RMin_nearestGo (D := D) (n := n) cs [] 0 (fun _ => none) (fun _ => 0) (RMin_nil D)
    simpa using this

/-- all along a plain run, `distances` is the running minimum over `centers` -/
theorem RMin_iterN {D : Table} {n : Nat} (init : Option (List Nat)) (j : Nat) (sj : St)
    (h : iterN D n false j (initState D n init) = .ok sj) : RMin D sj.dist sj.centers := by
  refine iterN_inv (fun s => RMin D s.dist s.centers) ?_ j _ sj (RMin_initState D n init) h
  intro s s' hP hs
  rw [iter_plain] at hs
  injection hs with hs
  subst hs
  exact RMin_iterPlain hP

/-! ### the abstract core (pigeonhole) -/

theorem gonzalez_core (n : ℕ) (D : ℕ → ℕ → ℚ)
    (symm : ∀ x y, x < n → y < n → D x y = D y x)
    (tri : ∀ x y z, x < n → y < n → z < n → D x z ≤ D x y + D y z)
    (k : ℕ) (p : Fin (k+1) → ℕ) (hp : ∀ a, p a < n) (r : ℚ)
    (hpair : ∀ a b : Fin (k+1), b < a → r ≤ D (p a) (p b))
    (S : List ℕ) (hS : ∀ s ∈ S, s < n) (hcard : S.length ≤ k) (R : ℚ)
    (hR : ∀ f, f < n → ∃ s ∈ S, D f s ≤ R) : r ≤ 2 * R := by
  classical
  let nearest : Fin (k+1) → ℕ := fun a => Classical.choose (hR (p a) (hp a))
  have hn : ∀ a, nearest a ∈ S ∧ D (p a) (nearest a) ≤ R := fun a =>
    Classical.choose_spec (hR (p a) (hp a))
  have hlt : S.toFinset.card < (Finset.univ : Finset (Fin (k+1))).card := by
    have := List.toFinset_card_le S
    simp only [Finset.card_univ, Fintype.card_fin]
    omega
  obtain ⟨a, _, b, _, hab, heq⟩ :=
    Finset.exists_ne_map_eq_of_card_lt_of_maps_to hlt (f := nearest)
      (fun a _ => by simpa using (hn a).1)
  -- wlog b < a
  have key : ∀ a b : Fin (k+1), b < a → nearest a = nearest b → r ≤ 2 * R := by
    intro a b hba heq
    have h1 := hpair a b hba
    have hsa := hS _ (hn a).1
    have h2 := tri (p a) (nearest a) (p b) (hp a) hsa (hp b)
    have h3 : D (nearest a) (p b) = D (p b) (nearest b) := by
      rw [heq]; exact symm _ _ (hS _ (hn b).1) (hp b)
    have := (hn a).2
    have := (hn b).2
    linarith
  rcases lt_or_gt_of_ne hab with h | h
  · exact key b a h heq.symm
  · exact key a b h heq

/-! ### the invariant of a cold plain run that feeds the core -/

/-- From position `m0` on (the centers added by the loop) the centers are frames, and a later one is
at least the current radius away from every earlier one of them; `dist` is the running minimum over
all centers (supplied ones included). -/
structure FarApart (D : Table) (n m0 : Nat) (s : St) : Prop where
  len : m0 ≤ s.centers.length
  frames : ∀ (j : Nat) (hj : j < s.centers.length), m0 ≤ j → s.centers[j] < n
  rmin : RMin D s.dist s.centers
  apart : ∀ (i j : Nat) (hi : m0 ≤ i) (hij : i < j) (hj : j < s.centers.length),
    toWT (radius n s) ≤ ((D (s.centers[j]) (s.centers[i]'(by omega)) : ℚ) : WithTop ℚ)

theorem FarApart_init (D : Table) (n : Nat) (init : Option (List Nat)) :
    FarApart D n (initState D n init).centers.length (initState D n init) :=
  ⟨le_refl _, fun j hj hm => by omega, RMin_initState D n init, fun i j hi hij hj => by omega⟩

theorem FarApart_iterPlain {D : Table} {n m0 : Nat} (hn : 0 < n) {s : St} (h : FarApart D n m0 s) :
    FarApart D n m0 (iterPlain D n s) := by
  obtain ⟨len, frames, rmin, apart⟩ := h
  have hc := argmaxE_lt hn s.dist
  have hr : toWT (radius n (iterPlain D n s)) ≤ toWT (radius n s) :=
    radius_mono hn (fun f _ => by unfold iterPlain; exact update_dist_le _ _ _ _ _)
  have hcs : (iterPlain D n s).centers = s.centers ++ [argmaxE n s.dist] := rfl
  refine ⟨?_, ?_, RMin_iterPlain rmin, ?_⟩
  · rw [hcs]; simp; omega
  · intro j hj hm
    simp only [hcs, List.length_append, List.length_singleton] at hj
    by_cases hjl : j < s.centers.length
    · have e1 : (iterPlain D n s).centers[j]'(by rw [hcs]; simp; omega) = s.centers[j] := by
        simp only [hcs]; rw [List.getElem_append_left hjl]
      rw [e1]; exact frames j hjl hm
    · have hje : j = s.centers.length := by omega
      have e1 : (iterPlain D n s).centers[j]'(by rw [hcs]; simp; omega) = argmaxE n s.dist := by
        simp only [hcs]; rw [List.getElem_append_right (by omega)]; simp [hje]
      rw [e1]; exact hc
  · intro i j hi hij hj
    simp only [hcs, List.length_append, List.length_singleton] at hj
    by_cases hjl : j < s.centers.length
    · have e1 : (iterPlain D n s).centers[j]'(by rw [hcs]; simp; omega) = s.centers[j] := by
        simp only [hcs]; rw [List.getElem_append_left hjl]
      have e2 : (iterPlain D n s).centers[i]'(by rw [hcs]; simp; omega) = s.centers[i]'(by omega) := by
        simp only [hcs]; rw [List.getElem_append_left (by omega)]
      rw [e1, e2]
      exact le_trans hr (apart i j hi hij hjl)
    · have hje : j = s.centers.length := by omega
      have e1 : (iterPlain D n s).centers[j]'(by rw [hcs]; simp; omega) = argmaxE n s.dist := by
        simp only [hcs]; rw [List.getElem_append_right (by omega)]; simp [hje]
      have e2 : (iterPlain D n s).centers[i]'(by rw [hcs]; simp; omega) = s.centers[i]'(by omega) := by
        simp only [hcs]; rw [List.getElem_append_left (by omega)]
      rw [e1, e2]
      refine le_trans hr ?_
      exact rmin.1 _ _ (List.getElem_mem _)

theorem FarApart_iterN {D : Table} {n : Nat} (hn : 0 < n) (init : Option (List Nat)) (j : Nat) (sj : St)
    (h : iterN D n false j (initState D n init) = .ok sj) :
    FarApart D n (initState D n init).centers.length sj := by
  refine iterN_inv (FarApart D n (initState D n init).centers.length) ?_ j _ sj
    (FarApart_init D n init) h
  intro s s' hP hs
  rw [iter_plain] at hs
  injection hs with hs
  subst hs
  exact FarApart_iterPlain hn hP

/-- Gonzalez: a state reached by the plain farthest-first rule after adding `t ≥ 1` centers to `m0`
supplied ones has radius at most twice that of any set `S` of at most `t` frames. -/
theorem FarApart_two_approx {D : Table} {n m0 : Nat} (hn : 0 < n) {s : St} (h : FarApart D n m0 s)
    (symm : ∀ x y, x < n → y < n → D x y = D y x)
    (tri : ∀ x y z, x < n → y < n → z < n → D x z ≤ D x y + D y z)
    (S : List ℕ) (hS : ∀ x ∈ S, x < n) (hcard : S.length ≤ s.centers.length - m0) (R : ℚ)
    (hR : ∀ f, f < n → ∃ x ∈ S, D f x ≤ R) (hne : m0 < s.centers.length) :
    ∃ r : ℚ, radius n s = some r ∧ r ≤ 2 * R := by
  obtain ⟨len, frames, rmin, apart⟩ := h
  have hp := argmaxE_lt hn s.dist
  -- the radius is finite
  obtain ⟨r, hr⟩ : ∃ r : ℚ, radius n s = some r := by
    rcases rmin.2 (argmaxE n s.dist) with ⟨h1, _⟩ | ⟨c, _, h2⟩
    · rw [h1] at hne; simp at hne
    · exact ⟨_, h2⟩
  refine ⟨r, hr, ?_⟩
  set t := s.centers.length - m0 with ht
  let p : Fin (t+1) → ℕ := fun a =>
    if h : a.val < t then s.centers[m0 + a.val]'(by omega) else argmaxE n s.dist
  have hpn : ∀ a, p a < n := by
    intro a
    simp only [p]
    split
    · exact frames _ _ (by omega)
    · exact hp
  have hrad : toWT (radius n s) = ((r : ℚ) : WithTop ℚ) := by rw [hr]; rfl
  refine gonzalez_core n D symm tri t p hpn r ?_ S hS hcard R hR
  intro a b hba
  have hb : b.val < t := by
    have := a.isLt
    have : b.val < a.val := hba
    omega
  simp only [p, dif_pos hb]
  by_cases ha : a.val < t
  · simp only [dif_pos ha]
    have hlt : b.val < a.val := hba
    have := apart (m0 + b.val) (m0 + a.val) (by omega) (by omega) (by omega)
    rw [hrad] at this
    exact_mod_cast this
  · simp only [dif_neg ha]
    have := rmin.1 (argmaxE n s.dist) (s.centers[m0 + b.val]'(by omega)) (List.getElem_mem _)
    have h2 : toWT (s.dist (argmaxE n s.dist)) = ((r : ℚ) : WithTop ℚ) := hrad
    rw [h2] at this
    exact_mod_cast this

end Ens.KC
