import Mathlib.Analysis.SpecialFunctions.Log.Basic
import Mathlib.Algebra.BigOperators.Fin
import Mathlib.Algebra.BigOperators.Field
import Mathlib.Algebra.Order.BigOperators.Ring.Finset
import Mathlib.Algebra.Order.Field.Basic
import Mathlib.Tactic.Ring
import Mathlib.Tactic.FieldSimp
import Mathlib.Tactic.Linarith
import Mathlib.Tactic.Positivity
import Mathlib.Tactic.LinearCombination

/-!
# C12 optimality, the mathematics (no model)

A symmetric non-negative matrix `X` with positive row sums `x` that satisfies the Prinz
self-consistency equations for the counts `C` (row sums `c > 0`)

  `(C_ij + C_ji) · x_i · x_j = X_ij · (c_i · x_j + c_j · x_i)`      (all `i j`, also `i = j`)

maximises the reversible log-likelihood `L(Z) = Σ_ij C_ij · log (Z_ij / z_i)`: for every
symmetric non-negative `Y` with positive row sums `y` that is positive wherever `C` is (that
is: every reversible model of finite likelihood), `L(Y) ≤ L(X)`.

Proof.  Put `ℓ_ij = log Y_ij − log X_ij` (symmetric) and `μ_i = log y_i − log x_i`.
* Jensen in the form `log t ≤ t − 1`: `Σ_j X_ij (ℓ_ij − μ_i) ≤ Σ_j (Y_ij x_i / y_i − X_ij) = 0`.
* With `D_ij = C_ij − (c_i / x_i) X_ij`: `Σ_j D_ij = 0` and, by the Prinz equations,
  `D_ij + D_ji = 0`; hence `Σ_ij D_ij (ℓ_ij − μ_i) = 0` (`ℓ` is symmetric).
* `L(Y) − L(X) = Σ_ij C_ij (ℓ_ij − μ_i) = Σ_i (c_i / x_i) Σ_j X_ij (ℓ_ij − μ_i) ≤ 0`.
-/

namespace Ens.C12Opt

open Finset

variable {n : Nat}

/-- an antisymmetric weight against a symmetric function sums to zero -/
theorem sum_antisymm_symm (D l : Fin n → Fin n → ℝ) (hD : ∀ i j, D i j + D j i = 0)
    (hl : ∀ i j, l i j = l j i) : ∑ i, ∑ j, D i j * l i j = 0 := by
  have h1 : ∑ i, ∑ j, D i j * l i j = ∑ i, ∑ j, D j i * l i j := by
    rw [Finset.sum_comm]
    refine Finset.sum_congr rfl (fun i _ => Finset.sum_congr rfl (fun j _ => ?_))
    rw [hl j i]
  have h2 : ∑ i, ∑ j, D i j * l i j + ∑ i, ∑ j, D j i * l i j = 0 := by
    rw [← Finset.sum_add_distrib]
    refine Finset.sum_eq_zero (fun i _ => ?_)
    rw [← Finset.sum_add_distrib]
    refine Finset.sum_eq_zero (fun j _ => ?_)
    rw [← add_mul, hD i j, zero_mul]
  linarith

/-- one row of Jensen's inequality for `log`, from `log t ≤ t − 1` -/
theorem row_jensen (X Y : Fin n → ℝ) (x y : ℝ)
    (hX0 : ∀ j, 0 ≤ X j) (hY0 : ∀ j, 0 ≤ Y j) (hXY : ∀ j, 0 < X j → 0 < Y j)
    (hx : x = ∑ j, X j) (hy : y = ∑ j, Y j) (hxpos : 0 < x) (hypos : 0 < y) :
    ∑ j, X j * ((Real.log (Y j) - Real.log (X j)) - (Real.log y - Real.log x)) ≤ 0 := by
  have hterm : ∀ j, X j * ((Real.log (Y j) - Real.log (X j)) - (Real.log y - Real.log x))
      ≤ Y j * x / y - X j := by
    intro j
    rcases eq_or_lt_of_le (hX0 j) with h0 | hpos
    · rw [← h0, zero_mul, sub_zero]
      exact div_nonneg (mul_nonneg (hY0 j) hxpos.le) hypos.le
    · have hYpos := hXY j hpos
      have ht : 0 < Y j * x / (X j * y) := by positivity
      have hlog : Real.log (Y j * x / (X j * y))
          = (Real.log (Y j) - Real.log (X j)) - (Real.log y - Real.log x) := by
        rw [Real.log_div (by positivity) (by positivity), Real.log_mul hYpos.ne' hxpos.ne',
          Real.log_mul hpos.ne' hypos.ne']
        ring
      rw [← hlog]
      have hle := Real.log_le_sub_one_of_pos ht
      calc X j * Real.log (Y j * x / (X j * y))
          ≤ X j * (Y j * x / (X j * y) - 1) := mul_le_mul_of_nonneg_left hle hpos.le
        _ = Y j * x / y - X j := by
          have := hpos.ne'
          have := hypos.ne'
          field_simp
  calc ∑ j, X j * ((Real.log (Y j) - Real.log (X j)) - (Real.log y - Real.log x))
      ≤ ∑ j, (Y j * x / y - X j) := Finset.sum_le_sum (fun j _ => hterm j)
    _ = 0 := by
      rw [Finset.sum_sub_distrib, ← Finset.sum_div, ← Finset.sum_mul, ← hx, ← hy]
      have := hypos.ne'
      field_simp
      ring

/-- **The Prinz fixed point is the reversible maximum-likelihood estimate.** -/
theorem loglik_le (C X Y : Fin n → Fin n → ℝ) (c x y : Fin n → ℝ)
    (hC0 : ∀ i j, 0 ≤ C i j) (hc : ∀ i, c i = ∑ j, C i j) (hcpos : ∀ i, 0 < c i)
    (hXs : ∀ i j, X i j = X j i) (hX0 : ∀ i j, 0 ≤ X i j)
    (hx : ∀ i, x i = ∑ j, X i j) (hxpos : ∀ i, 0 < x i)
    (hYs : ∀ i j, Y i j = Y j i) (hY0 : ∀ i j, 0 ≤ Y i j)
    (hy : ∀ i, y i = ∑ j, Y i j) (hypos : ∀ i, 0 < y i)
    (hE : ∀ i j, (C i j + C j i) * x i * x j = X i j * (c i * x j + c j * x i))
    (hsupp : ∀ i j, 0 < C i j → 0 < Y i j) :
    ∑ i, ∑ j, C i j * Real.log (Y i j / y i) ≤ ∑ i, ∑ j, C i j * Real.log (X i j / x i) := by
  -- supports
  have hXC : ∀ i j, 0 < X i j → 0 < C i j + C j i := by
    intro i j hpos
    have hr : 0 < X i j * (c i * x j + c j * x i) :=
      mul_pos hpos (add_pos (mul_pos (hcpos i) (hxpos j)) (mul_pos (hcpos j) (hxpos i)))
    rw [← hE i j] at hr
    have hxx : 0 < x i * x j := mul_pos (hxpos i) (hxpos j)
    by_contra hn
    have hz : C i j + C j i = 0 := le_antisymm (not_lt.1 hn) (add_nonneg (hC0 i j) (hC0 j i))
    rw [hz] at hr
    simp at hr
  have hXY : ∀ i j, 0 < X i j → 0 < Y i j := by
    intro i j hpos
    have h := hXC i j hpos
    by_cases h1 : 0 < C i j
    · exact hsupp i j h1
    · have h2 : 0 < C j i := by
        have : C i j = 0 := le_antisymm (not_lt.1 h1) (hC0 i j)
        linarith
      rw [hYs i j]; exact hsupp j i h2
  have hCX : ∀ i j, 0 < C i j → 0 < X i j := by
    intro i j hpos
    have hl : 0 < (C i j + C j i) * x i * x j :=
      mul_pos (mul_pos (add_pos_of_pos_of_nonneg hpos (hC0 j i)) (hxpos i)) (hxpos j)
    rw [hE i j] at hl
    rcases eq_or_lt_of_le (hX0 i j) with h0 | h
    · rw [← h0, zero_mul] at hl; exact absurd hl (lt_irrefl _)
    · exact h
  -- notation
  set l : Fin n → Fin n → ℝ := fun i j => Real.log (Y i j) - Real.log (X i j) with hl
  set m : Fin n → ℝ := fun i => Real.log (y i) - Real.log (x i) with hm
  have hls : ∀ i j, l i j = l j i := by
    intro i j; simp only [hl]; rw [hXs i j, hYs i j]
  -- step A: Jensen per row
  have hA : ∀ i, ∑ j, X i j * (l i j - m i) ≤ 0 := fun i =>
    row_jensen (X i) (Y i) (x i) (y i) (hX0 i) (hY0 i) (hXY i) (hx i) (hy i) (hxpos i) (hypos i)
  -- step B: the defect `D` is killed by the Prinz equations
  set D : Fin n → Fin n → ℝ := fun i j => C i j - c i / x i * X i j with hD
  have hDrow : ∀ i, ∑ j, D i j = 0 := by
    intro i
    simp only [hD]
    rw [Finset.sum_sub_distrib, ← Finset.mul_sum, ← hc i, ← hx i]
    have := (hxpos i).ne'
    field_simp
    ring
  have hDanti : ∀ i j, D i j + D j i = 0 := by
    intro i j
    simp only [hD]
    have h1 := (hxpos i).ne'
    have h2 := (hxpos j).ne'
    have he := hE i j
    rw [hXs j i]
    field_simp
    linear_combination he
  have hB1 : ∑ i, ∑ j, D i j * l i j = 0 := sum_antisymm_symm D l hDanti hls
  have hB2 : ∑ i, ∑ j, D i j * m i = 0 := by
    refine Finset.sum_eq_zero (fun i _ => ?_)
    rw [← Finset.sum_mul, hDrow i, zero_mul]
  have hB : ∑ i, ∑ j, C i j * (l i j - m i) = ∑ i, c i / x i * ∑ j, X i j * (l i j - m i) := by
    have hsplit : ∀ i j, C i j * (l i j - m i)
        = c i / x i * (X i j * (l i j - m i)) + (D i j * l i j - D i j * m i) := by
      intro i j; simp only [hD]; ring
    simp only [hsplit, Finset.sum_add_distrib, Finset.sum_sub_distrib, ← Finset.mul_sum]
    rw [hB1, hB2]; ring
  -- step C: the difference of the likelihoods
  have hCterm : ∀ i j, C i j * Real.log (Y i j / y i) - C i j * Real.log (X i j / x i)
      = C i j * (l i j - m i) := by
    intro i j
    rcases eq_or_lt_of_le (hC0 i j) with h0 | hpos
    · rw [← h0]; ring
    · have hXp := hCX i j hpos
      have hYp := hsupp i j hpos
      simp only [hl, hm]
      rw [Real.log_div hYp.ne' (hypos i).ne', Real.log_div hXp.ne' (hxpos i).ne']
      ring
  have hfinal : ∑ i, ∑ j, C i j * Real.log (Y i j / y i)
      - ∑ i, ∑ j, C i j * Real.log (X i j / x i) ≤ 0 := by
    rw [← Finset.sum_sub_distrib]
    simp only [← Finset.sum_sub_distrib, hCterm]
    rw [hB]
    refine Finset.sum_nonpos (fun i _ => ?_)
    exact mul_nonpos_of_nonneg_of_nonpos (div_nonneg (hcpos i).le (hxpos i).le) (hA i)
  linarith

end Ens.C12Opt
