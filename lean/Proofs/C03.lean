import Proofs.PySlice
import Model.Counts
/-! Helper lemmas for C03: the two lagged views of `_transitions_helper`. -/
namespace Ens.Counts
open Ens

/-- number of lagged pairs taken from a row of length `L` -/
def nPairs (L lag s : Nat) : Nat := (L - lag + s - 1) / s

/-- the property's own words: pairs `(a[t], a[t+lag])` for `t = 0, s, 2s, … < L - lag` -/
def lagPairs (a : List Int) (lag s : Nat) : List (Int × Int) :=
  (List.range (nPairs a.length lag s)).map fun k => (a.getD (k * s) default, a.getD (k * s + lag) default)

theorem indices_front (L lag s : Nat) (hlag : 1 ≤ lag) (hs : 1 ≤ s) :
    (PySlice.mk none (some (-(lag : Int))) (some (s : Int))).indices L
      = some ((List.range (nPairs L lag s)).map fun k => k * s) := by
  have hs0 : (s : Int) ≠ 0 := by omega
  have hstop : (if (-(lag:Int)) < 0 then
        (if (-(lag:Int)) + (L:Int) < 0 then (0:Int) else (-(lag:Int)) + (L:Int))
      else if (-(lag:Int)) ≥ (L:Int) then (L:Int) else (-(lag:Int)))
      = ((0 + (L - lag) : Nat) : Int) := by
    have h1 : (-(lag:Int)) < 0 := by omega
    simp only [h1, if_true]
    split <;> omega
  simp only [PySlice.indices, PySlice.adjust, Option.getD_some, hs0, if_false, Option.map_some]
  have hsn : ¬ ((s:Int) < 0) := by omega
  simp only [hsn, if_false]
  rw [hstop]
  have e := rangeAux_eq_map ((0 + (L - lag) : Nat) : Int) (s:Int) (L + 1) ((0:Nat):Int)
  have l := rangeAux_length_nat (L - lag) s L hs (by omega) 0
  simp only [Nat.cast_zero] at e l
  rw [e, l]
  simp only [nPairs, List.map_map]
  congr 1
  apply List.map_congr_left
  intro k _
  simp only [Function.comp, zero_add]
  exact_mod_cast Int.toNat_natCast (k * s)

theorem indices_back (L lag s : Nat) (hs : 1 ≤ s) :
    (PySlice.mk (some (lag : Int)) none (some (s : Int))).indices L
      = some ((List.range (nPairs L lag s)).map fun k => min lag L + k * s) := by
  have hs0 : (s : Int) ≠ 0 := by omega
  have hsn : ¬ ((s:Int) < 0) := by omega
  have hstart : (if (lag:Int) < 0 then
        (if (lag:Int) + (L:Int) < 0 then (0:Int) else (lag:Int) + (L:Int))
      else if (lag:Int) ≥ (L:Int) then (L:Int) else (lag:Int))
      = ((min lag L : Nat) : Int) := by
    have h1 : ¬ (lag:Int) < 0 := by omega
    simp only [h1, if_false]
    split <;> omega
  simp only [PySlice.indices, PySlice.adjust, Option.getD_some, hs0, if_false, Option.map_some, hsn]
  rw [hstart]
  have hL : (L:Int) = ((min lag L + (L - lag) : Nat) : Int) := by
    have : min lag L + (L - lag) = L := by omega
    rw [this]
  rw [hL]
  have e := rangeAux_eq_map ((min lag L + (L - lag) : Nat) : Int) (s:Int) (L + 1) ((min lag L : Nat) : Int)
  have l := rangeAux_length_nat (L - lag) s L hs (by omega) (min lag L)
  rw [e, l]
  simp only [nPairs, List.map_map]
  congr 1

theorem nPairs_pos_lt (L lag s k : Nat) (hs : 1 ≤ s) (hk : k < nPairs L lag s) : k * s + lag < L := by
  unfold nPairs at hk
  have h1 : (k + 1) * s ≤ ((L - lag + s - 1) / s) * s := Nat.mul_le_mul_right s hk
  have h2 : ((L - lag + s - 1) / s) * s ≤ L - lag + s - 1 := Nat.div_mul_le_self _ _
  have h3 : (k + 1) * s = k * s + s := by ring
  omega

/-- `_transitions_helper` never fails (the two views always have the same length) and
returns exactly the lagged pairs. -/
theorem transitionsHelper_eq (a : List Int) (lag : Nat) (sliding : Bool) (hlag : 1 ≤ lag) :
    transitionsHelper a lag sliding = .ok (lagPairs a lag (if sliding then 1 else lag)) := by
  have hsr : ((if sliding then (1:Int) else (lag:Int))) = (((if sliding then 1 else lag : Nat)) : Int) := by
    cases sliding <;> simp
  have hs : 1 ≤ (if sliding then 1 else lag) := by cases sliding <;> simp [hlag]
  generalize (if sliding then 1 else lag) = s at hsr hs
  unfold transitionsHelper
  simp only [hsr, PySlice.apply, indices_front a.length lag s hlag hs, indices_back a.length lag s hs,
    Option.map_some, List.map_map, List.length_map, List.length_range, if_true]
  congr 1
  unfold lagPairs
  rw [List.zip_eq_zipWith, List.zipWith_map, List.zipWith_self]
  apply List.map_congr_left
  intro k hk
  have hk' := List.mem_range.mp hk
  have hb := nPairs_pos_lt a.length lag s k hs hk'
  have hmin : min lag a.length = lag := by omega
  simp only [Function.comp, hmin]
  congr 2
  omega

end Ens.Counts
