import Proofs.C02Order

/-! The `while` loop of `kcenters`: what one iteration does to the state, the link between the
fuelled `loop` and the unguarded iterate `iterN`, monotonicity of the radius. -/
namespace Ens.KC

/-! ### `update` -/

theorem update_dist (n : Nat) (s : St) (cand : Nat → ERat) (c f : Nat) :
    (update n s cand c).dist f = if ltE (cand f) (s.dist f) then cand f else s.dist f := by
  simp only [update, look_tab]

theorem update_assign (n : Nat) (s : St) (cand : Nat → ERat) (c f : Nat) :
    (update n s cand c).assign f =
      if ltE (cand f) (s.dist f) then (s.ctrInds.length : Int) else s.assign f := by
  simp only [update, look_tab]

@[simp] theorem update_ctrInds (n : Nat) (s : St) (cand : Nat → ERat) (c : Nat) :
    (update n s cand c).ctrInds = s.ctrInds ++ [c] := rfl

@[simp] theorem update_centers (n : Nat) (s : St) (cand : Nat → ERat) (c : Nat) :
    (update n s cand c).centers = s.centers ++ [c] := rfl

theorem update_dist_min (n : Nat) (s : St) (cand : Nat → ERat) (c f : Nat) :
    toWT ((update n s cand c).dist f) = min (toWT (cand f)) (toWT (s.dist f)) := by
  rw [update_dist]
  by_cases h : ltE (cand f) (s.dist f) = true
  · rw [if_pos h]; rw [ltE_iff] at h; rw [min_eq_left (le_of_lt h)]
  · rw [if_neg h]
    have h' : ltE (cand f) (s.dist f) = false := by simpa using h
    rw [ltE_false_iff] at h'; rw [min_eq_right h']

theorem update_dist_le (n : Nat) (s : St) (cand : Nat → ERat) (c f : Nat) :
    toWT ((update n s cand c).dist f) ≤ toWT (s.dist f) := by
  rw [update_dist_min]; exact min_le_right _ _

/-! ### one iteration -/

/-- every successful iteration is an `update` by the first farthest frame with some candidate
array that is, entry by entry, either the true distance to it or the old value -/
theorem iter_ok {D : Table} {n : Nat} {tri : Bool} {s s' : St} (h : iter D n tri s = .ok s') :
    ∃ cand : Nat → ERat, s' = update n s cand (argmaxE n s.dist) ∧
      (∀ f, cand f = some (D f (argmaxE n s.dist)) ∨ cand f = s.dist f) ∧
      (tri = false → cand = fun f => some (D f (argmaxE n s.dist))) := by
  unfold iter at h
  split at h
  · rename_i ht
    unfold iterTri at h
    split at h
    · injection h with h
      refine ⟨triCand D s (argmaxE n s.dist), h.symm, ?_, ?_⟩
      · intro f
        unfold triCand
        split
        · split <;> simp
        · simp
      · intro htf; rw [htf] at ht; simp at ht
    · cases h
  · injection h with h
    refine ⟨fun f => some (D f (argmaxE n s.dist)), ?_, ?_, ?_⟩
    · rw [← h]; rfl
    · intro f; left; rfl
    · intro _; rfl

theorem iter_plain (D : Table) (n : Nat) (s : St) : iter D n false s = .ok (iterPlain D n s) := by
  simp [iter]

theorem iter_ne_outOfFuel (D : Table) (n : Nat) (tri : Bool) (s : St) :
    iter D n tri s ≠ .error .outOfFuel := by
  unfold iter iterTri
  split
  · split <;> simp
  · simp

theorem iter_ctrInds {D : Table} {n : Nat} {tri : Bool} {s s' : St} (h : iter D n tri s = .ok s') :
    s'.ctrInds = s.ctrInds ++ [argmaxE n s.dist] := by
  obtain ⟨cand, rfl, _⟩ := iter_ok h; rfl

theorem iter_centers {D : Table} {n : Nat} {tri : Bool} {s s' : St} (h : iter D n tri s = .ok s') :
    s'.centers = s.centers ++ [argmaxE n s.dist] := by
  obtain ⟨cand, rfl, _⟩ := iter_ok h; rfl

theorem iter_dist_le {D : Table} {n : Nat} {tri : Bool} {s s' : St} (h : iter D n tri s = .ok s')
    (f : Nat) : toWT (s'.dist f) ≤ toWT (s.dist f) := by
  obtain ⟨cand, rfl, _⟩ := iter_ok h; exact update_dist_le _ _ _ _ _

/-! ### radius -/

theorem radius_ge (n : Nat) (s : St) (f : Nat) (hf : f < n) : toWT (s.dist f) ≤ toWT (radius n s) :=
  argmaxE_max n s.dist f hf

/-- pointwise smaller distances give a smaller radius -/
theorem radius_mono {n : Nat} (hn : 0 < n) {s s' : St}
    (h : ∀ f, f < n → toWT (s'.dist f) ≤ toWT (s.dist f)) : toWT (radius n s') ≤ toWT (radius n s) := by
  have hlt := argmaxE_lt hn s'.dist
  exact le_trans (h _ hlt) (radius_ge n s _ hlt)

theorem radius_congr {n : Nat} {s t : St} (h : ∀ f, f < n → s.dist f = t.dist f) (hn : 0 < n) :
    radius n s = radius n t := by
  unfold radius
  rw [argmaxE_congr n s.dist t.dist h]
  exact h _ (argmaxE_lt hn t.dist)

/-! ### `iterN` -/

theorem iterN_succ_right {D : Table} {n : Nat} {tri : Bool} :
    ∀ (j : Nat) (s sj : St), iterN D n tri j s = .ok sj →
      iterN D n tri (j+1) s = iter D n tri sj := by
  intro j
  induction j with
  | zero =>
    intro s sj h
    simp only [iterN] at h
    injection h with h; subst h
    simp only [iterN]
    cases iter D n tri s <;> rfl
  | succ j ih =>
    intro s sj h
    rw [iterN] at h
    rw [iterN]
    cases h1 : iter D n tri s with
    | error e => rw [h1] at h; cases h
    | ok s1 =>
      rw [h1] at h
      exact ih s1 sj h

theorem iterN_add_ok {D : Table} {n : Nat} {tri : Bool} :
    ∀ (j : Nat) (s s1 : St), iter D n tri s = .ok s1 → iterN D n tri (j+1) s = iterN D n tri j s1 := by
  intro j s s1 h
  rw [iterN, h]

/-- along the iterates: center lists grow by one per iteration, distances only shrink -/
theorem iterN_facts {D : Table} {n : Nat} {tri : Bool} :
    ∀ (j : Nat) (s sj : St), iterN D n tri j s = .ok sj →
      sj.ctrInds.length = s.ctrInds.length + j ∧ sj.centers.length = s.centers.length + j ∧
      (∀ f, toWT (sj.dist f) ≤ toWT (s.dist f)) ∧
      (∃ l, l.length = j ∧ sj.ctrInds = s.ctrInds ++ l ∧ sj.centers = s.centers ++ l) := by
  intro j
  induction j with
  | zero =>
    intro s sj h
    simp only [iterN] at h
    injection h with h; subst h
    exact ⟨rfl, rfl, fun f => le_refl _, [], rfl, by simp, by simp⟩
  | succ j ih =>
    intro s sj h
    rw [iterN] at h
    cases h1 : iter D n tri s with
    | error e => rw [h1] at h; cases h
    | ok s1 =>
      rw [h1] at h
      obtain ⟨a, b, c, l, hl, d1, d2⟩ := ih s1 sj h
      have e1 := iter_ctrInds h1
      have e2 := iter_centers h1
      refine ⟨?_, ?_, ?_, (argmaxE n s.dist) :: l, by simp [hl], ?_, ?_⟩
      · rw [a, e1]; simp; omega
      · rw [b, e2]; simp; omega
      · intro f; exact le_trans (c f) (iter_dist_le h1 f)
      · rw [d1, e1]; simp
      · rw [d2, e2]; simp

/-! ### the loop -/

/-- the result of the fuelled loop in terms of the unguarded iterates: the guard held before each
executed iteration, fails at the end, and the trace records (first farthest frame, radius). -/
theorem loop_spec {D : Table} {n : Nat} {tri : Bool} {nc : Option Int} {cut : ERat} :
    ∀ (fuel : Nat) (s sf : St) (tr : List (Nat × ERat)),
      loop D n tri nc cut fuel s = .ok (sf, tr) →
      iterN D n tri tr.length s = .ok sf ∧ guard nc cut n sf = false ∧
      ∀ j (hj : j < tr.length), ∃ sj, iterN D n tri j s = .ok sj ∧ guard nc cut n sj = true ∧
        tr[j] = (argmaxE n sj.dist, radius n sj) := by
  intro fuel
  induction fuel with
  | zero =>
    intro s sf tr h
    simp only [loop] at h
    split at h
    · cases h
    · rename_i hg
      injection h with h
      injection h with h1 h2
      subst h1; subst h2
      refine ⟨rfl, by simpa using hg, ?_⟩
      intro j hj; simp at hj
  | succ fuel ih =>
    intro s sf tr h
    simp only [loop] at h
    split at h
    · rename_i hg
      cases h1 : iter D n tri s with
      | error e => rw [h1] at h; cases h
      | ok s1 =>
        rw [h1] at h
        dsimp only at h
        cases h2 : loop D n tri nc cut fuel s1 with
        | error e => rw [h2] at h; cases h
        | ok r =>
          obtain ⟨sf', tr'⟩ := r
          rw [h2] at h
          dsimp only at h
          injection h with h
          injection h with e1 e2
          subst e1; subst e2
          obtain ⟨a, b, c⟩ := ih s1 sf' tr' h2
          refine ⟨?_, b, ?_⟩
          · simp only [List.length_cons]
            rw [iterN_add_ok _ _ _ h1]; exact a
          · intro j hj
            cases j with
            | zero =>
              exact ⟨s, rfl, hg, rfl⟩
            | succ j =>
              simp only [List.length_cons] at hj
              obtain ⟨sj, x, y, z⟩ := c j (by omega)
              refine ⟨sj, ?_, y, ?_⟩
              · rw [iterN_add_ok _ _ _ h1]; exact x
              · simpa using z
    · rename_i hg
      injection h with h
      injection h with h1 h2
      subst h1; subst h2
      refine ⟨rfl, by simpa using hg, ?_⟩
      intro j hj; simp at hj

/-- more fuel does not change a run that did not run out of fuel -/
theorem loop_fuel_succ {D : Table} {n : Nat} {tri : Bool} {nc : Option Int} {cut : ERat} :
    ∀ (fuel : Nat) (s : St), loop D n tri nc cut fuel s ≠ .error .outOfFuel →
      loop D n tri nc cut (fuel+1) s = loop D n tri nc cut fuel s := by
  intro fuel
  induction fuel with
  | zero =>
    intro s h
    simp only [loop] at h ⊢
    split
    · rename_i hg; rw [if_pos hg] at h; exact absurd rfl h
    · rfl
  | succ fuel ih =>
    intro s h
    rw [loop]
    conv_rhs => rw [loop]
    split
    · rename_i hg
      rw [loop, if_pos hg] at h
      cases h1 : iter D n tri s with
      | error e => rfl
      | ok s1 =>
        rw [h1] at h
        dsimp only at h ⊢
        have : loop D n tri nc cut fuel s1 ≠ .error .outOfFuel := by
          intro hc; rw [hc] at h; exact h rfl
        rw [ih s1 this]
    · rfl

theorem loop_fuel_add {D : Table} {n : Nat} {tri : Bool} {nc : Option Int} {cut : ERat}
    (fuel : Nat) (s : St) (h : loop D n tri nc cut fuel s ≠ .error .outOfFuel) (k : Nat) :
    loop D n tri nc cut (fuel+k) s = loop D n tri nc cut fuel s := by
  induction k with
  | zero => rfl
  | succ k ih =>
    rw [← Nat.add_assoc, loop_fuel_succ _ _ (by rw [ih]; exact h), ih]

end Ens.KC
